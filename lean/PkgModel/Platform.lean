import PkgModel.Tags
import PkgModel.Elf
/-!
# Platform — model of the platform-tag generators (C16)

`_manylinux.platform_tags` (with `_have_compatible_abi`, `_is_linux_armhf/_i686`, `_glibc_version_string*`,
`_parse_glibc_version`, `_get_glibc_version`, `_is_compatible` and the `_manylinux` policy-module protocol),
`_musllinux.platform_tags` / `_get_musl_version` / `_parse_musl_version`, and from `tags.py`
`_mac_arch`, `_mac_binary_formats`, `mac_platforms`, `ios_platforms`, `_linux_platforms`, `platform_tags`,
as pure functions of their arguments and of probe records (bytes of `sys.executable`, `os.confstr`,
the ctypes fallback, the policy module, the loader's stderr, `platform.mac_ver`, …).

Versions are Python ints; glibc versions are modelled as `Int` pairs because "no glibc" is `(-1, -1)` and
flows through the same `range()` arithmetic.  Strings are ASCII (`str.split()`, `str.strip()`,
`str.splitlines()`, `\d`, `int()` are modelled on ASCII input).
-/
namespace Plat
open Py Tags Elf

/-! ## strings -/
def sManylinux_ : Str := [109, 97, 110, 121, 108, 105, 110, 117, 120, 95]
def sMusllinux_ : Str := [109, 117, 115, 108, 108, 105, 110, 117, 120, 95]
def sMacosx_ : Str := [109, 97, 99, 111, 115, 120, 95]
def sIos_ : Str := [105, 111, 115, 95]
def sLinux_ : Str := [108, 105, 110, 117, 120, 95]
def sMusl : Str := [109, 117, 115, 108]
def sVersionSp : Str := [86, 101, 114, 115, 105, 111, 110, 32]
def sX86_64 : Str := [120, 56, 54, 95, 54, 52]
def sI686 : Str := [105, 54, 56, 54]
def sArmv7l : Str := [97, 114, 109, 118, 55, 108]
def sArmv8l : Str := [97, 114, 109, 118, 56, 108]
def sAarch64 : Str := [97, 97, 114, 99, 104, 54, 52]
def sIntel : Str := [105, 110, 116, 101, 108]
def sFat64 : Str := [102, 97, 116, 54, 52]
def sFat32 : Str := [102, 97, 116, 51, 50]
def sFat : Str := [102, 97, 116]
def sUniversal2 : Str := [117, 110, 105, 118, 101, 114, 115, 97, 108, 50]
def sUniversal : Str := [117, 110, 105, 118, 101, 114, 115, 97, 108]
def sI386 : Str := [105, 51, 56, 54]
def sPpc64 : Str := [112, 112, 99, 54, 52]
def sPpc : Str := [112, 112, 99]
def sArm64 : Str := [97, 114, 109, 54, 52]
def sDarwin : Str := [68, 97, 114, 119, 105, 110]
def sIOS : Str := [105, 79, 83]
def sLinux : Str := [76, 105, 110, 117, 120]
def us : Str := [95]

/-- `str(i)` for a Python int -/
def fmtInt (i : Int) : Str := if i < 0 then 45 :: dec (-i).toNat else dec i.toNat

/-- `range(hi, lo, -1)` -/
def downFrom (hi lo : Int) : List Int := (List.range (hi - lo).toNat).map fun (k : Nat) => hi - (k : Int)

/-- `s.split()` : maximal runs of non-whitespace -/
def splitWs (s : Str) : List Str := (splitBy isSpaceAscii s).filter (!·.isEmpty)

/-- `x in s` for strings -/
def isInfix (x : Str) : Str → Bool
  | [] => x.isEmpty
  | c :: cs => startsWith (c :: cs) x || isInfix x cs

/-- `int(s)` on a string of ASCII digits with optional surrounding white space; `none` is ValueError -/
def pyInt (s : Str) : Option Nat :=
  let t := stripBy isSpaceAscii s
  if !t.isEmpty && t.all isDigit then some (undec t) else none

/-! ## glibc version probes -/

/-- `_glibc_version_string_confstr`: `os.confstr` result (`none`: raised or returned `None`);
    `_, version = s.rsplit()` needs exactly two fields -/
def glibcVersionStringConfstr : Option Str → Option Str
  | none => none
  | some s => match splitWs s with
    | [_, v] => some v
    | _ => none

/-- `_glibc_version_string()`: `confstr() or ctypes()` -/
def glibcVersionString (confstr ctypesVersion : Option Str) : Option Str :=
  match glibcVersionStringConfstr confstr with
  | some v => if v.isEmpty then ctypesVersion else some v
  | none => ctypesVersion

/-- `_parse_glibc_version`: `re.match(r"(?P<major>[0-9]+)\.(?P<minor>[0-9]+)", s)`, else `(-1, -1)` -/
def parseGlibcVersion (s : Str) : Int × Int :=
  let a := spanDigits s
  if a.1.isEmpty then (-1, -1) else
  match a.2 with
  | 46 :: rest =>
    let b := spanDigits rest
    if b.1.isEmpty then (-1, -1) else ((undec a.1 : Nat), (undec b.1 : Nat))
  | _ => (-1, -1)

/-- `_get_glibc_version()` -/
def getGlibcVersion (confstr ctypesVersion : Option Str) : Int × Int :=
  match glibcVersionString confstr ctypesVersion with
  | none => (-1, -1)
  | some s => parseGlibcVersion s

/-! ## the `_manylinux` policy module -/

/-- what `import _manylinux` finds -/
inductive Policy where
  /-- ImportError -/
  | absent
  /-- a module with `manylinux_compatible(major, minor, arch)`: first matching rule, else the default;
      `none` is a `None` result -/
  | func (default : Option Bool) (rules : List ((Nat × Nat × Str) × Option Bool))
  /-- a module with (some of) the legacy attributes; `none`: attribute absent, else its truth value -/
  | legacy (m1 m2010 m2014 : Option Bool)
deriving Repr

/-- the Linux probes -/
structure LCfg where
  /-- bytes of `sys.executable`; `none`: the file cannot be opened -/
  exe : Option Bytes
  confstr : Option Str
  ctypesVersion : Option Str
  policy : Policy
  /-- stderr of running the ELF interpreter without arguments -/
  ldStderr : Str
deriving Repr

def pairLt (a b : Int × Int) : Bool := decide (a.1 < b.1) || (a.1 == b.1 && decide (a.2 < b.2))

/-- `_is_compatible(arch, version)` -/
def isCompatible (cfg : LCfg) (arch : Str) (v : Int × Int) : Bool :=
  if pairLt (getGlibcVersion cfg.confstr cfg.ctypesVersion) v then false else
  match cfg.policy with
  | .absent => true
  | .func dflt rules =>
    let r := match rules.lookup (v.1.toNat, v.2.toNat, arch) with
      | some r => r
      | none => dflt
    (match r with | some b => b | none => true)
  | .legacy m1 m2010 m2014 =>
    if v == (2, 5) && m1.isSome then m1.getD true
    else if v == (2, 12) && m2010.isSome then m2010.getD true
    else if v == (2, 17) && m2014.isSome then m2014.getD true
    else true

/-! ## ABI of the running interpreter -/

/-- `_parse_elf(executable)`: `None` when the file cannot be opened or is not valid ELF -/
def parseExe (cfg : LCfg) : Option Header := cfg.exe.bind parse

/-- `_is_linux_armhf` -/
def isLinuxArmhf (cfg : LCfg) : Bool :=
  match parseExe cfg with
  | none => false
  | some f =>
    f.capacity == Gen.TagTables.eiClass32 && f.encoding == Gen.TagTables.eiDataLsb
    && f.machine == Gen.TagTables.emArm
    && (f.flags &&& Gen.TagTables.efArmAbiMask) == Gen.TagTables.efArmAbiVer5
    && (f.flags &&& Gen.TagTables.efArmAbiFloatHard) == Gen.TagTables.efArmAbiFloatHard

/-- `_is_linux_i686` -/
def isLinuxI686 (cfg : LCfg) : Bool :=
  match parseExe cfg with
  | none => false
  | some f =>
    f.capacity == Gen.TagTables.eiClass32 && f.encoding == Gen.TagTables.eiDataLsb
    && f.machine == Gen.TagTables.emI386

/-- `_have_compatible_abi(sys.executable, archs)` -/
def haveCompatibleAbi (cfg : LCfg) (archs : List Str) : Bool :=
  if archs.contains sArmv7l then isLinuxArmhf cfg
  else if archs.contains sI686 then isLinuxI686 cfg
  else archs.any fun a => Gen.TagTables.allowedArchs.contains a

/-- `_LAST_GLIBC_MINOR[major]` -/
def lastGlibcMinor (major : Int) : Int :=
  match Gen.TagTables.lastGlibcMinorTable.lookup major.toNat with
  | some m => (m : Nat)
  | none => (Gen.TagTables.lastGlibcMinorDefault : Nat)

/-- `_LEGACY_MANYLINUX_MAP.get(version)` -/
def legacyAlias (v : Int × Int) : Option Str :=
  if v.1 < 0 || v.2 < 0 then none else Gen.TagTables.legacyManylinuxMap.lookup (v.1.toNat, v.2.toNat)

/-- `_manylinux.platform_tags(archs)` -/
def manylinuxTags (cfg : LCfg) (archs : List Str) : List Str :=
  if !haveCompatibleAbi cfg archs then [] else
  let cur := getGlibcVersion cfg.confstr cfg.ctypesVersion
  let maxList := cur :: (downFrom (cur.1 - 1) 1).map fun major => (major, lastGlibcMinor major)
  archs.flatMap fun arch =>
    let tooOld : Int × Int := if arch == sX86_64 || arch == sI686 then (2, 4) else (2, 16)
    maxList.flatMap fun gmax =>
      let minMinor : Int := if gmax.1 == tooOld.1 then tooOld.2 else -1
      (downFrom gmax.2 minMinor).flatMap fun minor =>
        let v := (gmax.1, minor)
        (if isCompatible cfg arch v then [sManylinux_ ++ fmtInt v.1 ++ us ++ fmtInt v.2 ++ us ++ arch] else [])
        ++ (match legacyAlias v with
            | some l => if isCompatible cfg arch v then [l ++ us ++ arch] else []
            | none => [])

/-! ## musl -/

/-- ASCII line boundaries of `str.splitlines` -/
def isLineBreak (c : Nat) : Bool := c == 10 || c == 13 || c == 11 || c == 12 || c == 28 || c == 29 || c == 30

/-- `_parse_musl_version(output)` -/
def parseMuslVersion (output : Str) : Option (Nat × Nat) :=
  let lines := ((splitBy isLineBreak output).map (stripBy isSpaceAscii)).filter (!·.isEmpty)
  match lines with
  | l0 :: l1 :: _ =>
    if l0.take 4 != sMusl then none else
    if !startsWith l1 sVersionSp then none else
    let a := spanDigits (l1.drop 8)
    if a.1.isEmpty then none else
    match a.2 with
    | 46 :: rest =>
      let b := spanDigits rest
      if b.1.isEmpty then none else some (undec a.1, undec b.1)
    | _ => none
  | _ => none

/-- `_get_musl_version(sys.executable)` -/
def getMuslVersion (cfg : LCfg) : Option (Nat × Nat) :=
  match cfg.exe with
  | none => none
  | some f =>
    match parse f with
    | none => none
    | some h =>
      match interpreter f h with
      | .error _ => none
      | .ok none => none
      | .ok (some ld) => if isInfix sMusl ld then parseMuslVersion cfg.ldStderr else none

/-- `_musllinux.platform_tags(archs)` -/
def musllinuxTags (cfg : LCfg) (archs : List Str) : List Str :=
  match getMuslVersion cfg with
  | none => []
  | some (major, minor) =>
    archs.flatMap fun arch =>
      (rangeDown (minor + 1) 0).map fun m => sMusllinux_ ++ dec major ++ us ++ dec m ++ us ++ arch

/-- `_linux_platforms(is_32bit)` with `sysconfig.get_platform()` given -/
def linuxPlatforms (cfg : LCfg) (getPlatform : Str) (is32 : Bool) : List Str :=
  let linux := normalizeString getPlatform
  if !startsWith linux sLinux_ then [linux] else
  let linux :=
    if is32 then
      (if linux == sLinux_ ++ sX86_64 then sLinux_ ++ sI686
       else if linux == sLinux_ ++ sAarch64 then sLinux_ ++ sArmv8l else linux)
    else linux
  let arch := linux.drop 6
  let archs := if arch == sArmv8l then [sArmv8l, sArmv7l] else [arch]
  manylinuxTags cfg archs ++ musllinuxTags cfg archs ++ archs.map fun a => sLinux_ ++ a

/-! ## macOS -/

/-- `_mac_arch(arch, is_32bit)` -/
def macArch (arch : Str) (is32 : Bool) : Str :=
  if !is32 then arch else if startsWith arch sPpc then sPpc else sI386

/-- Python `<` on int tuples of any length (shared with the interpreter-tag model) -/
abbrev tLt := Tags.tupLt
def tLe (a b : List Nat) : Bool := !tLt b a

/-- `_mac_binary_formats(version, cpu_arch)` -/
def macBinaryFormats (version : List Nat) (cpu : Str) : List Str :=
  let core : Option (List Str) :=
    if cpu == sX86_64 then
      (if tLt version [10, 4] then none else some [cpu, sIntel, sFat64, sFat32])
    else if cpu == sI386 then
      (if tLt version [10, 4] then none else some [cpu, sIntel, sFat32, sFat])
    else if cpu == sPpc64 then
      (if tLt [10, 5] version || tLt version [10, 4] then none else some [cpu, sFat64])
    else if cpu == sPpc then
      (if tLt [10, 6] version then none else some [cpu, sFat32, sFat])
    else some [cpu]
  match core with
  | none => []
  | some fs =>
    fs ++ (if cpu == sArm64 || cpu == sX86_64 then [sUniversal2] else [])
       ++ (if cpu == sX86_64 || cpu == sI386 || cpu == sPpc64 || cpu == sPpc || cpu == sIntel then [sUniversal] else [])

def macTag (major minor : Nat) (fmt : Str) : Str := sMacosx_ ++ dec major ++ us ++ dec minor ++ us ++ fmt

/-- the three loops of `mac_platforms` for a resolved `version` tuple and `arch`;
    `.error` carries the escaping exception (a one-component version reaches `version[1]`) -/
def macPlatformsL (version : List Nat) (arch : Str) : Except String (List Str) :=
  let old : Except String (List Str) :=
    if tLe [10, 0] version && tLt version [11, 0] then
      match version with
      | _ :: m :: _ =>
        .ok ((rangeDown (m + 1) 0).flatMap fun minor =>
          (macBinaryFormats [10, minor] arch).map fun f => macTag 10 minor f)
      | _ => .error "IndexError"
    else .ok []
  match old with
  | .error e => .error e
  | .ok a =>
    if tLe [11, 0] version then
      let b := (rangeDown (version.getD 0 0 + 1) 11).flatMap fun major =>
        (macBinaryFormats [major, 0] arch).map fun f => macTag major 0 f
      let c :=
        if arch == sX86_64 then
          (rangeDown 17 4).flatMap fun minor => (macBinaryFormats [10, minor] arch).map fun f => macTag 10 minor f
        else (rangeDown 17 4).map fun minor => macTag 10 minor sUniversal2
      .ok (a ++ b ++ c)
    else .ok a

/-- `tuple(map(int, s.split(".")[:2]))`; `none` is ValueError -/
def parseVersionTuple (s : Str) : Option (List Nat) := ((splitOn 46 s).take 2).mapM pyInt

/-- `mac_platforms(version, arch)` with the probes `platform.mac_ver()` = `(verStr, _, cpu)`, the stdout of the
    `SYSTEM_VERSION_COMPAT=0` subprocess, and `_32_BIT_INTERPRETER` -/
def macPlatforms (verStr cpu compat0 : Str) (is32 : Bool) (version : Option (Nat × Nat)) (arch : Option Str) :
    Except String (List Str) :=
  let v : Except String (List Nat) :=
    match version with
    | some (a, b) => .ok [a, b]
    | none =>
      match parseVersionTuple verStr with
      | none => .error "ValueError"
      | some v =>
        if v == [10, 16] then
          (match parseVersionTuple compat0 with
           | none => .error "ValueError"
           | some w => .ok w)
        else .ok v
  match v with
  | .error e => .error e
  | .ok v => macPlatformsL v (match arch with | some a => a | none => macArch cpu is32)

/-! ## iOS -/

def iosTag (major minor : Nat) (multiarch : Str) : Str := sIos_ ++ dec major ++ us ++ dec minor ++ us ++ multiarch

/-- `ios_platforms(version, multiarch)` for a resolved version tuple -/
def iosPlatformsL (version : List Nat) (multiarch : Str) : Except String (List Str) :=
  let multiarch := multiarch.map fun c => if c == 45 then 95 else c
  match version with
  | [] => .error "IndexError"
  | major :: rest =>
    if major < 12 then .ok [] else
    match rest with
    | [] => .error "IndexError"
    | minor :: _ =>
      .ok (iosTag major minor multiarch
        :: ((rangeDown minor 0).map fun m => iosTag major m multiarch)
        ++ ((rangeDown major 12).flatMap fun mj => (rangeDown 10 0).map fun m => iosTag mj m multiarch))

/-- `ios_platforms(version, multiarch)` with the probes `platform.ios_ver().release` and
    `sys.implementation._multiarch` -/
def iosPlatforms (release probeMultiarch : Str) (version : Option (Nat × Nat)) (multiarch : Option Str) :
    Except String (List Str) :=
  let v : Except String (List Nat) :=
    match version with
    | some (a, b) => .ok [a, b]
    | none => match parseVersionTuple release with
      | none => .error "ValueError"
      | some v => .ok v
  match v with
  | .error e => .error e
  | .ok v => iosPlatformsL v (match multiarch with | some m => m | none => probeMultiarch)

/-! ## `platform_tags()` (x6: the dispatch on `platform.system()`, extracted so that the translated source has a model to equal) -/

/-- `_generic_platforms()` -/
def genericPlatforms (getPlatform : Str) : List Str := [normalizeString getPlatform]

/-- every probe `platform_tags()` can reach -/
structure PCfg where
  /-- `platform.system()` -/
  system : Str
  /-- `sysconfig.get_platform()` -/
  getPlatform : Str
  /-- `_32_BIT_INTERPRETER` -/
  is32 : Bool
  linux : LCfg
  /-- `platform.mac_ver()` = `(macVerStr, _, macCpu)`; stdout of the `SYSTEM_VERSION_COMPAT=0` subprocess -/
  macVerStr : Str
  macCpu : Str
  macCompat0 : Str
  /-- `platform.ios_ver().release`, `sys.implementation._multiarch` -/
  iosRelease : Str
  iosMultiarch : Str

/-- `tags.platform_tags()` -/
def platformTags (p : PCfg) : Except String (List Str) :=
  if p.system == sDarwin then macPlatforms p.macVerStr p.macCpu p.macCompat0 p.is32 none none
  else if p.system == sIOS then iosPlatforms p.iosRelease p.iosMultiarch none none
  else if p.system == sLinux then .ok (linuxPlatforms p.linux p.getPlatform p.is32)
  else .ok (genericPlatforms p.getPlatform)

end Plat
