/-! A search tree of arithmetic runs `(lo, hi, step, t)`: a code point `c` with `lo ≤ c ≤ hi` and
`(c - lo) % step = 0` maps to `t + (c - lo)`.  Used for the generated `str.lower` table. -/
namespace Py

inductive RunTree where
  | leaf : RunTree
  | node (l : RunTree) (lo hi step t : Nat) (r : RunTree) : RunTree
  deriving Repr

def RunTree.find : RunTree → Nat → Option Nat
  | .leaf, _ => none
  | .node l lo hi step t r, c =>
    if c < lo then l.find c
    else if hi < c then r.find c
    else if (c - lo) % step == 0 then some (t + (c - lo)) else none

end Py
