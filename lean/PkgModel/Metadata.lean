import PkgModel.Py
import PkgModel.Generated.MetadataTables
/-!
# Metadata — model of `packaging.metadata.Metadata` (C17)

Mirrors `metadata.py` as it is:

* a `RawMetadata` dict is an association list `Dict` (first match wins; `aget/adel/aset` are the
  `dict.get / del / __setitem__` of a dict keyed by `str`),
* the `_Validator.__get__` descriptor is the state transition `descGet` on `⟨_raw, __dict__⟩`
  (lazy conversion, caching in the instance dict, removal from `_raw`; nothing changes when the
  converter raises), attribute lookup `getattr` looks into the instance dict first,
* every `_process_*` is written out; what the *component parsers and the standard library* answer
  (`canonicalize_name(validate=True)`, `version.parse`, `SpecifierSet`, `Requirement`,
  `canonicalize_license_expression`, `email.message` content-type parsing, `str.lower`, `pathlib`) is
  an `Oracle` — the model and all theorems are parametric in it, the harness tabulates it per case,
* `fromRaw` takes the order in which the validation loop visits `fields_to_check` as a parameter `ks` (since fix e4c9f10: sorted; the harness computes it by the same steps as the code).
-/
namespace Meta
open Py Gen.Meta

/-! ## association lists -/

def aget {β} (k : Str) : List (Str × β) → Option β
  | [] => none
  | (k', v) :: r => if k' = k then some v else aget k r

def adel {β} (k : Str) : List (Str × β) → List (Str × β)
  | [] => []
  | (k', v) :: r => if k' = k then adel k r else (k', v) :: adel k r

/-- `d[k] = v` (position in the dict is not observable through `==`) -/
def aset {β} (k : Str) (v : β) (d : List (Str × β)) : List (Str × β) := (k, v) :: adel k d

def akeys {β} (d : List (Str × β)) : List Str := d.map (·.1)

/-- keep the first occurrence of every element (the elements of a `set` built from the list) -/
def dedup : List Str → List Str
  | [] => []
  | x :: r => x :: (dedup r).filter (· != x)

/-- `list.index` -/
def indexOf (x : Str) : List Str → Option Nat
  | [] => none
  | y :: ys => if y = x then some 0 else (indexOf x ys).map (· + 1)

/-- `needle in hay` for strings -/
def isInfix (needle : Str) : Str → Bool
  | [] => needle.isEmpty
  | c :: cs => startsWith (c :: cs) needle || isInfix needle cs

/-! ## values -/

/-- a raw or enriched value, in the canonical form the harness compares
(`str(Version)`, `str(SpecifierSet)`, `str(Requirement)` for enriched objects) -/
inductive Val where
  | none
  | str (s : Str)
  | list (l : List Str)
  | dict (d : List (Str × Str))
  deriving DecidableEq, Repr, Inhabited

abbrev Dict := List (Str × Val)

/-- what escapes from an attribute read -/
inductive Exc where
  | invalid (field : Str)      -- `InvalidMetadata` with its `.field`
  | escape (cls : Str)         -- any other exception class
  deriving DecidableEq, Repr

/-! ## oracle: answers of the component parsers and of the standard library -/

inductive Verdict where
  | ok (canon : Str)     -- accepted; canonical string form of the result
  | bad                  -- the documented exception (`InvalidName`, `InvalidVersion`, …)
  | esc (cls : Str)      -- any other exception
  deriving DecidableEq, Repr

/-- `EmailMessage()["content-type"] = value`, then `get_content_type().lower()` and `.params` -/
inductive CTVerdict where
  | parsed (ctype : Str) (charset variant : Option Str)
  | bad                  -- the header setter's `ValueError` / `IndexError` (a line break in the value; an RFC 2231 parameter the parser chokes on)
  | esc (cls : Str)
  deriving DecidableEq, Repr

structure Oracle where
  name : Str → Verdict        -- `utils.canonicalize_name(s, validate=True)`
  version : Str → Verdict     -- `version.parse(s)`
  spec : Str → Verdict        -- `specifiers.SpecifierSet(s)`
  req : Str → Verdict         -- `requirements.Requirement(s)`
  lic : Str → Verdict         -- `licenses.canonicalize_license_expression(s)`
  ctype : Str → CTVerdict
  lower : Str → Str           -- `str.lower`
  posixAbs : Str → Bool       -- `PurePosixPath(s).is_absolute()`
  winAbs : Str → Bool         -- `PureWindowsPath(s).is_absolute()`
  winPosix : Str → Str        -- `PureWindowsPath(s).as_posix()`

/-! ## field tables -/

def fieldOfRaw (k : Str) : Option Field := Field.all.find? (fun f => f.rawName = k)

def isRequired (f : Field) : Bool := requiredAttrs.contains f.rawName

def ageOf (v : Str) : Option Nat := indexOf v validVersions

def mvKey : Str := Field.metadata_version.rawName

/-! ## the `_process_*` methods -/

def tyErr : Except Exc Val := .error (.escape (ofString "TypeError"))

/-- run a component parser over a list, left to right; the first failure decides -/
def mapVerdicts (field : Str) (p : Str → Verdict) : List Str → Except Exc (List Str)
  | [] => .ok []
  | s :: r =>
    match p s with
    | .ok c => (mapVerdicts field p r).map (c :: ·)
    | .bad => .error (.invalid field)
    | .esc cls => .error (.escape cls)

def oneVerdict (field : Str) (v : Verdict) (k : Str → Val) : Except Exc Val :=
  match v with
  | .ok c => .ok (k c)
  | .bad => .error (.invalid field)
  | .esc cls => .error (.escape cls)

def procMetadataVersion (fld : Str) : Val → Except Exc Val
  | .str s => if validVersions.contains s then .ok (.str s) else .error (.invalid fld)
  | _ => .error (.invalid fld)                -- `None not in [...]`

def procName (o : Oracle) (fld : Str) : Val → Except Exc Val
  | .none => .error (.invalid fld)            -- `not value`
  | .str s => if s.isEmpty then .error (.invalid fld) else oneVerdict fld (o.name s) (fun _ => .str s)
  | _ => tyErr

def procVersion (o : Oracle) (fld : Str) : Val → Except Exc Val
  | .none => .error (.invalid fld)
  | .str s => if s.isEmpty then .error (.invalid fld) else oneVerdict fld (o.version s) .str
  | _ => tyErr

def procSummary (fld : Str) : Val → Except Exc Val
  | .str s => if s.contains 10 then .error (.invalid fld) else .ok (.str s)
  | _ => tyErr

def contentTypes : List Str := [ofString "text/plain", ofString "text/x-rst", ofString "text/markdown"]
def markdownVariants : List Str := [ofString "GFM", ofString "CommonMark"]

def ctypeOk (o : Oracle) (s ct : Str) (charset variant : Option Str) : Bool :=
  if !(contentTypes.contains ct) || !(isInfix ct (o.lower s)) then false
  else if charset.getD (ofString "UTF-8") != ofString "UTF-8" then false
  else if ct == ofString "text/markdown" && !(markdownVariants.contains (variant.getD (ofString "GFM"))) then false
  else true

def procContentType (o : Oracle) (fld : Str) : Val → Except Exc Val
  | .str s =>
    match o.ctype s with
    | .esc cls => .error (.escape cls)
    | .bad => .error (.invalid fld)
    | .parsed ct charset variant => if ctypeOk o s ct charset variant then .ok (.str s) else .error (.invalid fld)
  | _ => tyErr

def dynamicForbidden : List Str := [ofString "name", ofString "version", ofString "metadata-version"]

def dynamicOk (d : Str) : Bool := !(dynamicForbidden.contains d) && (akeys emailToRaw).contains d

def procDynamic (o : Oracle) (fld : Str) : Val → Except Exc Val
  | .list l => if (l.map o.lower).all dynamicOk then .ok (.list (l.map o.lower)) else .error (.invalid fld)
  | _ => tyErr

def procProvidesExtra (o : Oracle) (fld : Str) : Val → Except Exc Val
  | .list l => (mapVerdicts fld o.name l).map .list
  | _ => tyErr

def procRequiresPython (o : Oracle) (fld : Str) : Val → Except Exc Val
  | .str s => oneVerdict fld (o.spec s) .str
  | _ => tyErr

def procRequiresDist (o : Oracle) (fld : Str) : Val → Except Exc Val
  | .list l => (mapVerdicts fld o.req l).map .list
  | _ => tyErr

def procLicenseExpression (o : Oracle) (fld : Str) : Val → Except Exc Val
  | .str s => oneVerdict fld (o.lic s) .str
  | _ => tyErr

def pathOk (o : Oracle) (p : Str) : Bool :=
  !(isInfix (ofString "..") p) && !(p.contains 42) && !(o.posixAbs p || o.winAbs p) && o.winPosix p == p

def procLicenseFiles (o : Oracle) (fld : Str) : Val → Except Exc Val
  | .list l => if l.all (pathOk o) then .ok (.list l) else .error (.invalid fld)
  | _ => tyErr

/-- `getattr(self, f"_process_{self.name}")` -/
def process (o : Oracle) (f : Field) : Option (Val → Except Exc Val) :=
  match f with
  | .metadata_version => some (procMetadataVersion f.emailName)
  | .name => some (procName o f.emailName)
  | .version => some (procVersion o f.emailName)
  | .summary => some (procSummary f.emailName)
  | .description_content_type => some (procContentType o f.emailName)
  | .dynamic => some (procDynamic o f.emailName)
  | .provides_extra => some (procProvidesExtra o f.emailName)
  | .requires_python => some (procRequiresPython o f.emailName)
  | .requires_dist => some (procRequiresDist o f.emailName)
  | .license_expression => some (procLicenseExpression o f.emailName)
  | .license_files => some (procLicenseFiles o f.emailName)
  | _ => none

/-- the conversion part of `__get__` applied to `instance._raw.get(name)` -/
def conv (o : Oracle) (f : Field) (ov : Option Val) : Except Exc Val :=
  let value := ov.getD .none
  if isRequired f || value != .none then
    match process o f with
    | some p => p value
    | none => .ok value
  else .ok value

/-! ## instance state, descriptor, attribute lookup -/

structure St where
  raw : Dict       -- `instance._raw`
  cache : Dict     -- `instance.__dict__` without `_raw`
  deriving Repr

/-- `_Validator.__get__` -/
def descGet (o : Oracle) (f : Field) (st : St) : Except Exc Val × St :=
  match conv o f (aget f.rawName st.raw) with
  | .ok v => (.ok v, { raw := adel f.rawName st.raw, cache := aset f.rawName v st.cache })
  | .error e => (.error e, st)

def attrErr : Exc := .escape (ofString "AttributeError")

/-- `getattr(instance, k)`: instance dict, then the descriptor, then anything else the class resolves -/
def getattr (o : Oracle) (k : Str) (st : St) : Except Exc Val × St :=
  match aget k st.cache with
  | some v => (.ok v, st)
  | none =>
    match fieldOfRaw k with
    | some f => descGet o f st
    | none => if instanceResolvable.contains k then (.ok .none, st) else (.error attrErr, st)

/-- a sequence of attribute reads; returns the results in order -/
def reads (o : Oracle) : List Str → St → List (Except Exc Val) × St
  | [], st => ([], st)
  | k :: ks, st =>
    let (r, st') := getattr o k st
    let (rs, st'') := reads o ks st'
    (r :: rs, st'')

/-! ## `from_raw` -/

inductive Outcome where
  | ok (st : St)
  | group (errs : List Str)      -- `ExceptionGroup` of `InvalidMetadata`; their `.field`s in order
  | raised (cls : Str)           -- anything else
  deriving Repr

/-- `frozenset(ins._raw) | _REQUIRED_ATTRS - {"metadata_version"}` in a canonical order -/
def fieldsToCheck (data : Dict) : List Str :=
  (dedup (akeys data ++ requiredAttrs)).filter (· != mvKey)

/-- what one iteration of the validation loop does with key `k`:
`.error cls` = escapes, `.ok (some n)` = `InvalidMetadata(n)` appended, `.ok none` = nothing -/
def checkKey (o : Oracle) (age : Option Nat) (k : Str) (st : St) : Except Str (Option Str) × St :=
  let readKey : Except Str (Option Str) × St :=
    match getattr o k st with
    | (.ok _, st') => (.ok none, st')
    | (.error (.invalid n), st') => (.ok (some n), st')
    | (.error (.escape c), st') => (.error c, st')
  match fieldOfRaw k with
  | none => (.ok (some k), st)          -- `cls.__dict__.get(key)` is not a `_Validator`: unrecognized field
  | some f =>
    match age with
    | none => readKey
    | some a =>
      match ageOf f.added with
      | none => (.error (ofString "ValueError"), st)      -- `list.index` of an `added=` outside the version list
      | some fa => if fa > a then (.ok (some f.emailName), st) else readKey

def loop (o : Oracle) (age : Option Nat) : List Str → St → List Str → Except Str (St × List Str)
  | [], st, errs => .ok (st, errs)
  | k :: ks, st, errs =>
    match checkKey o age k st with
    | (.error c, _) => .error c
    | (.ok none, st') => loop o age ks st' errs
    | (.ok (some n), st') => loop o age ks st' (errs ++ [n])

/-- the `try: metadata_version = ins.metadata_version …` prologue: age, initial errors, state -/
def prologue (o : Oracle) (st0 : St) : Except Str (Option Nat × List Str × St) :=
  match getattr o mvKey st0 with
  | (.ok (.str s), st1) => .ok (ageOf s, [], st1)
  | (.ok _, st1) => .ok (none, [], st1)
  | (.error (.invalid n), st1) => .ok (none, [n], st1)
  | (.error (.escape c), _) => .error c

/-- `Metadata.from_raw(data, validate=validate)`; `ks` is the iteration order of `fields_to_check` -/
def fromRaw (o : Oracle) (ks : List Str) (data : Dict) (validate : Bool) : Outcome :=
  let st0 : St := { raw := data, cache := [] }       -- `data.copy()`
  if !validate then .ok st0 else
  match prologue o st0 with
  | .error c => .raised c
  | .ok (age, errs0, st1) =>
    match loop o age ks st1 errs0 with
    | .error c => .raised c
    | .ok (st, []) => .ok st
    | .ok (_, e :: es) => .group (e :: es)

/-- `Metadata.from_email` after `parse_email`: unparsed keys are reported first and alone -/
def fromEmail (o : Oracle) (ks : List Str) (raw : Dict) (unparsedKeys : List Str) (validate : Bool) : Outcome :=
  if validate && !unparsedKeys.isEmpty then .group unparsedKeys else fromRaw o ks raw validate

end Meta
