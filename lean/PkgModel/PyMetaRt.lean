import PkgModel.PyRt
import PkgModel.Generated.MetadataTables
/-!
# PyMetaRt — run-time primitives for the translated functions of `packaging.metadata`

`str.strip()` without arguments strips what CPython's `str.isspace` accepts (`Gen.Meta.pySpace`, regenerated from the
running interpreter by `harness/translators/metadata.py`).
-/
namespace PyMetaRt
open Py PyRt

def isSpacePy (c : Nat) : Bool := Gen.Meta.pySpace.contains c

/-- `s.strip()` -/
def str_strip : PyVal → M PyVal
  | .str s => pure (.str (stripBy isSpacePy s))
  | _ => throw attributeError

end PyMetaRt
