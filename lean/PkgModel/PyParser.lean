import PkgModel.PyTok
import PkgModel.PyMarker
/-!
# PyParser — how the parser models' states and results appear to the translated parser

The translated recursive-descent functions (`Gen.PySrc._parse_marker`, …) run in `PyTok.TM` over the tokenizer state
`PyTok.St`; the models (`Mk.parse…`, `Req.parse…`) thread `Mk.St` (previous character, remaining text) and fuse
`check` + `read`.  `TokRel` relates the two states between tokens; `Agrees` says that a translated function, started in a
related state, produces the model's result in a related state, or fails with `ParserSyntaxError` where the model reports
a syntax error.  The model's own fuel running out (`.fuel`) promises nothing.
-/
namespace PyPar
open Py PyRt PyMk

/-- between tokens (`next_token is None`) the tokenizer is at the model's state; the text already read only
matters for `position`, which only ends up in error spans -/
def TokRel (s : PyTok.St) (m : Mk.St) : Prop := s.prev = m.prev ∧ s.rest = m.rest ∧ s.next = none

/-- marker grammar -/
def Agrees {α} (view : α → PyVal) (x : PyTok.TM PyVal) (s : PyTok.St) (r : Mk.Res (α × Mk.St)) : Prop :=
  match r with
  | .ok (a, m') => ∃ s', x.run s = .ok (view a, s') ∧ TokRel s' m'
  | .error .fuel => True
  | .error _ => x.run s = .error "ParserSyntaxError"

/-- requirement grammar -/
def AgreesR {α} (view : α → PyVal) (x : PyTok.TM PyVal) (s : PyTok.St) (r : Req.Res (α × Mk.St)) : Prop :=
  match r with
  | .ok (a, m') => ∃ s', x.run s = .ok (view a, s') ∧ TokRel s' m'
  | .error .fuel => True
  | .error _ => x.run s = .error "ParserSyntaxError"

/-- `ParsedRequirement` -/
def ofParsed (p : Req.Parsed) : PyVal :=
  .obj "ParsedRequirement" [("name", .str p.name), ("url", .str p.url), ("extras", .list (p.extras.map .str)),
    ("specifier", .str p.specifier), ("marker", match p.marker with | none => .none | some m => ofML m)]

/-- the tokenizer `Tokenizer(src, rules=DEFAULT_RULES)` starts in -/
def start (src : Str) : PyTok.St := ⟨[], none, src, none⟩

theorem start_rel (src : Str) : TokRel (start src) ⟨none, src⟩ := ⟨rfl, rfl, rfl⟩

end PyPar
