import PkgModel.PyRt
/-!
# PyPlat — run-time primitives of the sixth round (x6): the platform-tag generators

`str.splitlines`, bitwise `&`, module-level dicts with tuple keys / a `defaultdict`, `import m` inside a function (the
module found — or the `ImportError` — is an entry of the environment table, exactly as the C16 model takes the `_manylinux`
policy module as configuration), `hasattr` / attribute calls on such a module value, n-ary unpacking.

A module value is `obj "module" [(attribute, value) …]`; an attribute that is a *function* is
`obj "callable" [("table", list of (argument tuple, result)), ("default", result)]`: the first row whose arguments are equal
answers, else the default (the shape of `Plat.Policy.func`).
-/
namespace PyPlat
open Py PyRt

/-! ## strings -/

/-- the line boundaries of `str.splitlines` -/
def isLineBreak (c : Nat) : Bool :=
  c == 10 || c == 13 || c == 11 || c == 12 || c == 28 || c == 29 || c == 30 || c == 0x85 || c == 0x2028 || c == 0x2029

/-- `s.splitlines()`: `\r\n` is one boundary, no empty last line -/
def splitLines : Str → Str → List Str
  | [], cur => if cur.isEmpty then [] else [cur.reverse]
  | 13 :: 10 :: rest, cur => cur.reverse :: splitLines rest []
  | c :: rest, cur => if isLineBreak c then cur.reverse :: splitLines rest [] else splitLines rest (c :: cur)

def str_splitlines : PyVal → M PyVal
  | .str s => pure (.list ((splitLines s []).map .str))
  | _ => throw attributeError

/-! ## numbers -/

/-- `a & b` on non-negative ints (what the ELF flag tests use); negative operands are outside the run-time -/
def bitand (a b : PyVal) : M PyVal :=
  match asInt a, asInt b with
  | some i, some j => if i < 0 || j < 0 then throw "PyRtUnsupported" else pure (.int ((i.toNat &&& j.toNat : Nat)))
  | _, _ => throw typeError

/-! ## unpacking into more than three names: the list of the `n` items -/

def unpack_n (v : PyVal) (n : PyVal) : M PyVal :=
  match n with
  | .int k => do return .tuple (← PyRt.unpack k.toNat v)
  | _ => throw typeError

/-- `C(*xs)` for a named tuple with `n` fields, as a plain tuple -/
def tuple_n (v : PyVal) (n : PyVal) : M PyVal :=
  match n with
  | .int k => do
    let l ← iterate v
    if l.length == k.toNat then pure (.tuple l) else throw typeError
  | _ => throw typeError

/-! ## module-level dicts (current contents as an association list, keys may be tuples) -/

def gdict_contains (kvs : List (PyVal × PyVal)) (k : PyVal) : M PyVal :=
  if !hashable k then throw typeError else pure (.bool (dictLookup kvs k).isSome)

/-- `D[k]`; a `defaultdict` answers its default for a missing key (the insertion it makes is not observable: the
default is a constant) -/
def gdict_getitem (kvs : List (PyVal × PyVal)) (dflt : Option PyVal) (k : PyVal) : M PyVal :=
  if !hashable k then throw typeError else
  match dictLookup kvs k, dflt with
  | some v, _ => pure v
  | Option.none, some d => pure d
  | Option.none, Option.none => throw "KeyError"

/-! ## modules imported inside a function -/

/-- `import m`: the environment entry `import m` is the module value, or `obj "raise" [("cls", name)]` -/
def env_import (env : Env) (name : String) : M PyVal := do
  match (← env_get env ("import " ++ name)) with
  | .obj "raise" [("cls", .str c)] => throw (toStringLossy c)
  | v => pure v

/-- a read of the environment that can raise -/
def env_read (env : Env) (key : String) : M PyVal := do
  match (← env_get env key) with
  | .obj "raise" [("cls", .str c)] => throw (toStringLossy c)
  | v => pure v

/-- `hasattr(m, name)` -/
def hasattr (m : PyVal) (name : String) : PyVal :=
  match m with
  | .obj _ fs => .bool (lookupField fs name).isSome
  | _ => .bool false

def callFind (args : List PyVal) (dflt : PyVal) : List PyVal → M PyVal
  | [] => pure dflt
  | .tuple [a, r] :: rest => if PyVal.eq a (.tuple args) then pure r else callFind args dflt rest
  | _ :: _ => throw "PyRtEnvMissing"

/-- `m.f(args)` for a function attribute of a module value -/
def call_attr (m : PyVal) (name : String) (args : List PyVal) : M PyVal := do
  match (← getattr m name) with
  | .obj "callable" [("table", .list rows), ("default", d)] => callFind args d rows
  | _ => throw typeError

end PyPlat
