/-! Spike: regex derivatives + bisimulation certificate checker -/
namespace Rx

inductive R where
  | empty : R
  | eps : R
  | cls : Nat → R          -- bitmask of class ids
  | cat : R → R → R
  | alt : R → R → R
  | star : R → R
  deriving DecidableEq, Repr, Inhabited

open R

inductive Matches : R → List Nat → Prop where
  | eps : Matches .eps []
  | cls {m c} : m.testBit c = true → Matches (.cls m) [c]
  | cat {a b u v} : Matches a u → Matches b v → Matches (.cat a b) (u ++ v)
  | altL {a b w} : Matches a w → Matches (.alt a b) w
  | altR {a b w} : Matches b w → Matches (.alt a b) w
  | starNil {a} : Matches (.star a) []
  | starCons {a u v} : Matches a u → Matches (.star a) v → Matches (.star a) (u ++ v)

def nullable : R → Bool
  | .empty => false
  | .eps => true
  | .cls _ => false
  | .cat a b => nullable a && nullable b
  | .alt a b => nullable a || nullable b
  | .star _ => true

/-- structural order -/
def cmp : R → R → Ordering
  | .empty, .empty => .eq
  | .empty, _ => .lt
  | _, .empty => .gt
  | .eps, .eps => .eq
  | .eps, _ => .lt
  | _, .eps => .gt
  | .cls m, .cls n => compare m n
  | .cls _, _ => .lt
  | _, .cls _ => .gt
  | .cat a b, .cat c d => (cmp a c).then (cmp b d)
  | .cat _ _, _ => .lt
  | _, .cat _ _ => .gt
  | .alt a b, .alt c d => (cmp a c).then (cmp b d)
  | .alt _ _, _ => .lt
  | _, .alt _ _ => .gt
  | .star a, .star b => cmp a b

/-- insert non-alt `a` into sorted right-nested alt list `b` -/
def insAlt (a : R) : R → R
  | .alt b c =>
    if a = b then .alt b c
    else if cmp a b == .lt then .alt a (.alt b c)
    else .alt b (insAlt a c)
  | b =>
    if a = b then b
    else if cmp a b == .lt then .alt a b
    else .alt b a

def mkAlt : R → R → R
  | .empty, b => b
  | a, .empty => a
  | .alt a b, c => mkAlt a (mkAlt b c)
  | a, b => insAlt a b

def mkCat : R → R → R
  | .empty, _ => .empty
  | _, .empty => .empty
  | .eps, b => b
  | a, .eps => a
  | .cat a b, c => .cat a (mkCat b c)
  | a, b => .cat a b

def mkStar : R → R
  | .empty => .eps
  | .eps => .eps
  | .star a => .star a
  | a => .star a

def deriv (c : Nat) : R → R
  | .empty => .empty
  | .eps => .empty
  | .cls m => if m.testBit c then .eps else .empty
  | .cat a b =>
    if nullable a then mkAlt (mkCat (deriv c a) b) (deriv c b)
    else mkCat (deriv c a) b
  | .alt a b => mkAlt (deriv c a) (deriv c b)
  | .star a => mkCat (deriv c a) (.star a)

def opt (a : R) : R := .alt .eps a
def plus (a : R) : R := .cat a (.star a)

/-- certificate check -/
def memPair (p : R × R) : List (R × R) → Bool
  | [] => false
  | q :: qs => (p.1 == q.1 && p.2 == q.2) || memPair p qs

def closedAt (n : Nat) (cert : List (R × R)) (p : R × R) : Bool :=
  nullable p.1 == nullable p.2 &&
  (List.range n).all fun c => memPair (deriv c p.1, deriv c p.2) cert

def isBisim (n : Nat) (cert : List (R × R)) : Bool :=
  cert.all (closedAt n cert)

/-- unverified search for the certificate -/
partial def search (n : Nat) (todo : List (R × R)) (seen : List (R × R)) : Option (List (R × R)) :=
  match todo with
  | [] => some seen
  | p :: rest =>
    if memPair p seen then search n rest seen
    else if nullable p.1 != nullable p.2 then none
    else
      let nexts := (List.range n).map fun c => (deriv c p.1, deriv c p.2)
      search n (nexts ++ rest) (p :: seen)

end Rx
