/-! Regular expressions over a finite class alphabet: Brzozowski derivatives with ACI-normalising
smart constructors, an executable matcher, and a bisimulation-certificate checker (soundness in
`PkgProofs/Lemmas/RxSound.lean`). -/
namespace Rx

inductive R where
  | empty : R
  | eps : R
  | cls : Nat → R          -- bitmask of class ids
  | cat : R → R → R
  | alt : R → R → R
  | star : R → R
  deriving DecidableEq, Repr, Inhabited

open R

inductive Matches : R → List Nat → Prop where
  | eps : Matches .eps []
  | cls {m c} : m.testBit c = true → Matches (.cls m) [c]
  | cat {a b u v} : Matches a u → Matches b v → Matches (.cat a b) (u ++ v)
  | altL {a b w} : Matches a w → Matches (.alt a b) w
  | altR {a b w} : Matches b w → Matches (.alt a b) w
  | starNil {a} : Matches (.star a) []
  | starCons {a u v} : Matches a u → Matches (.star a) v → Matches (.star a) (u ++ v)

def nullable : R → Bool
  | .empty => false
  | .eps => true
  | .cls _ => false
  | .cat a b => nullable a && nullable b
  | .alt a b => nullable a || nullable b
  | .star _ => true

/-- structural order -/
def cmp : R → R → Ordering
  | .empty, .empty => .eq
  | .empty, _ => .lt
  | _, .empty => .gt
  | .eps, .eps => .eq
  | .eps, _ => .lt
  | _, .eps => .gt
  | .cls m, .cls n => compare m n
  | .cls _, _ => .lt
  | _, .cls _ => .gt
  | .cat a b, .cat c d => (cmp a c).then (cmp b d)
  | .cat _ _, _ => .lt
  | _, .cat _ _ => .gt
  | .alt a b, .alt c d => (cmp a c).then (cmp b d)
  | .alt _ _, _ => .lt
  | _, .alt _ _ => .gt
  | .star a, .star b => cmp a b

/-- Bool-valued structural equality (cheap to evaluate in the kernel) -/
def beq : R → R → Bool
  | .empty, .empty => true
  | .eps, .eps => true
  | .cls m, .cls n => m == n
  | .cat a b, .cat c d => beq a c && beq b d
  | .alt a b, .alt c d => beq a c && beq b d
  | .star a, .star b => beq a b
  | _, _ => false

def isLt : Ordering → Bool
  | .lt => true
  | _ => false

/-- insert non-alt `a` into sorted right-nested alt list `b` -/
def insAlt (a : R) : R → R
  | .alt b c =>
    if beq a b then .alt b c
    else if isLt (cmp a b) then .alt a (.alt b c)
    else .alt b (insAlt a c)
  | b =>
    if beq a b then b
    else if isLt (cmp a b) then .alt a b
    else .alt b a

def mkAlt : R → R → R
  | .empty, b => b
  | a, .empty => a
  | .alt a b, c => mkAlt a (mkAlt b c)
  | a, b => insAlt a b

def mkCat : R → R → R
  | .empty, _ => .empty
  | _, .empty => .empty
  | .eps, b => b
  | a, .eps => a
  | .cat a b, c => .cat a (mkCat b c)
  | a, b => .cat a b

def mkStar : R → R
  | .empty => .eps
  | .eps => .eps
  | .star a => .star a
  | a => .star a

def deriv (c : Nat) : R → R
  | .empty => .empty
  | .eps => .empty
  | .cls m => if m.testBit c then .eps else .empty
  | .cat a b =>
    if nullable a then mkAlt (mkCat (deriv c a) b) (deriv c b)
    else mkCat (deriv c a) b
  | .alt a b => mkAlt (deriv c a) (deriv c b)
  | .star a => mkCat (deriv c a) (.star a)

def opt (a : R) : R := .alt .eps a
def plus (a : R) : R := .cat a (.star a)

/-- certificate check -/
def memPair (p : R × R) : List (R × R) → Bool
  | [] => false
  | q :: qs => (beq p.1 q.1 && beq p.2 q.2) || memPair p qs

def closedAt (n : Nat) (cert : List (R × R)) (p : R × R) : Bool :=
  (nullable p.1 == nullable p.2) &&
  (List.range n).all fun c => memPair (deriv c p.1, deriv c p.2) cert

def isBisim (n : Nat) (cert : List (R × R)) : Bool :=
  cert.all (closedAt n cert)

/-- fuel-bounded, kernel-evaluable search for a candidate bisimulation -/
def searchF (n : Nat) : Nat → List (R × R) → List (R × R) → Option (List (R × R))
  | 0, _, _ => none
  | fuel+1, todo, seen =>
    match todo with
    | [] => some seen
    | p :: rest =>
      if memPair p seen then searchF n fuel rest seen
      else if nullable p.1 != nullable p.2 then none
      else
        let nexts := (List.range n).map fun c => (deriv c p.1, deriv c p.2)
        searchF n fuel (nexts ++ rest) (p :: seen)

/-- `true` only if a bisimulation containing `(a, b)` was found *and re-checked* -/
def equiv (n fuel : Nat) (a b : R) : Bool :=
  match searchF n fuel [(a, b)] [] with
  | some cert => memPair (a, b) cert && isBisim n cert
  | none => false

/-- executable matcher on class words -/
def matchB (r : R) : List Nat → Bool
  | [] => nullable r
  | c :: cs => matchB (deriv c r) cs

/-- class of a code point from a sorted range table `(lo, hi, class)`; `none` if the table has a gap -/
def classOf (ranges : List (Nat × Nat × Nat)) (cp : Nat) : Option Nat :=
  match ranges with
  | [] => none
  | (lo, hi, c) :: rest => if lo ≤ cp && cp ≤ hi then some c else classOf rest cp

def classify (ranges : List (Nat × Nat × Nat)) (s : List Nat) : Option (List Nat) :=
  s.mapM (classOf ranges)

/-- acceptance of a code-point string by a regex over a class table -/
def accepts (ranges : List (Nat × Nat × Nat)) (r : R) (s : List Nat) : Bool :=
  match classify ranges s with
  | some w => matchB r w
  | none => false

/-- the table tiles `[0, 0x10FFFF]` with classes `< n` -/
def tiles (n : Nat) : Nat → List (Nat × Nat × Nat) → Bool
  | next, [] => next == 0x110000
  | next, (lo, hi, c) :: rest => lo == next && lo ≤ hi && c < n && tiles n (hi + 1) rest

/-- BFS for a shortest class word on which two regexes differ (search aid only; its answer is replayed) -/
def distinguishF (n : Nat) : Nat → List (R × R × List Nat) → List (R × R) → Option (List Nat)
  | 0, _, _ => none
  | _, [], _ => none
  | fuel+1, (x, y, path) :: rest, seen =>
    if nullable x != nullable y then some path.reverse
    else if memPair (x, y) seen then distinguishF n fuel rest seen
    else
      let nexts := (List.range n).map fun c => (deriv c x, deriv c y, c :: path)
      distinguishF n fuel (rest ++ nexts) ((x, y) :: seen)

def distinguish (n : Nat) (a b : R) : Option (List Nat) := distinguishF n 200000 [(a, b, [])] []

end Rx
