import PkgModel.Py
import PkgModel.Generated.SpdxTables
import PkgModel.Generated.SpdxUnicode
/-!
# Model of `packaging.licenses.canonicalize_license_expression` (as the code is)

The function is mirrored step by step:

* `replace("(", " ( ").replace(")", " ) ")` and `str.split()` — white space is what CPython's
  `str.isspace` says (`Gen.SpdxUnicode.spaces`, regenerated from the running interpreter);
* `original_tokens` (original case) and `tokens` (after `translate(_ASCII_LOWER)` of the whole padded
  string — ASCII letters only, `Py.lowerStr`), walked in parallel by `zip`;
* the first loop: a structure check with a parenthesis depth and the kind of the previous token;
* the second loop: `WITH` look-behind on the *normalised* list, `+` suffix, `LicenseRef-` handling from
  the original token through `license_ref_allowed`, table look-ups;
* `" ".join`, and the two final `replace`s.

`none` stands for `raise InvalidLicenseExpression`; no other exception site exists in the function
(the correspondence reports `raw <Name>` if the implementation lets anything else escape).
-/
namespace Lic
open Py

/-! ## constants (code points written out so that the kernel can evaluate them) -/
def cLP : Nat := 40
def cRP : Nat := 41
def cPlus : Nat := 43
/-- `"("`, `")"` -/
def kLP : Str := [40]
def kRP : Str := [41]
/-- `"or"`, `"and"`, `"with"` -/
def kOr : Str := [111, 114]
def kAnd : Str := [97, 110, 100]
def kWith : Str := [119, 105, 116, 104]
/-- `"OR"`, `"AND"`, `"WITH"` -/
def kOrU : Str := [79, 82]
def kAndU : Str := [65, 78, 68]
def kWithU : Str := [87, 73, 84, 72]
/-- `"licenseref-"` and `"LicenseRef-"` -/
def kRefLower : Str := [108, 105, 99, 101, 110, 115, 101, 114, 101, 102, 45]
def kRef : Str := [76, 105, 99, 101, 110, 115, 101, 82, 101, 102, 45]
/-- `" ( "`, `" ) "` -/
def kPadL : Str := [32, 40, 32]
def kPadR : Str := [32, 41, 32]

/-! ## the Python string operations the function uses -/

/-- `str.isspace` of one code point = separator of `str.split()` -/
def isSpace (c : Nat) : Bool := Gen.SpdxUnicode.spaces.contains c

/-- `s.replace(chr(c), new)` for a one-character pattern -/
def replace1 (c : Nat) (new : Str) : Str → Str
  | [] => []
  | x :: xs => if x == c then new ++ replace1 c new xs else x :: replace1 c new xs

/-- `s.replace(chr(a)+chr(b), new)` for a two-character pattern (left to right, non-overlapping) -/
def replace2 (a b : Nat) (new : Str) : Str → Str
  | x :: y :: r => if x == a && y == b then new ++ replace2 a b new r else x :: replace2 a b new (y :: r)
  | r => r

/-- `s.split()`: maximal runs of non-white-space (`acc` is the run being read) -/
def splitGo : Str → Str → List Str
  | [], acc => if acc.isEmpty then [] else [acc]
  | c :: cs, acc =>
    if isSpace c then (if acc.isEmpty then splitGo cs [] else acc :: splitGo cs [])
    else splitGo cs (acc ++ [c])
def split (s : Str) : List Str := splitGo s []

/-- `raw.replace("(", " ( ").replace(")", " ) ")` -/
def pad (s : Str) : Str := replace1 cRP kPadR (replace1 cLP kPadL s)

/-! ## first loop: the structure check -/

/-- `previous`: `"("`, `")"`, `"operator"`, `"with"`, `"license"`, `"exception"` -/
inductive Kind | lp | rp | op | with | lic | exc
  deriving DecidableEq, Repr, Inhabited

/-- `previous in {")", "license", "exception"}` -/
def Kind.closes : Kind → Bool
  | .rp | .lic | .exc => true
  | _ => false

/-- `previous in {"(", "operator"}` -/
def Kind.opens : Kind → Bool
  | .lp | .op => true
  | _ => false

/-- the loop over `tokens` followed by the final test; `false` = `raise` -/
def structGo : List Str → Nat → Kind → Bool
  | [], depth, prev => !(depth > 0 || !prev.closes)
  | t :: ts, depth, prev =>
    if t == kLP then prev.opens && structGo ts (depth + 1) .lp
    else if t == kRP then (prev.closes && depth > 0) && structGo ts (depth - 1) .rp
    else if t == kOr || t == kAnd then prev.closes && structGo ts depth .op
    else if t == kWith then prev == .lic && structGo ts depth .with
    else if prev == .with then structGo ts depth .exc
    else prev.opens && structGo ts depth .lic

/-! ## second loop -/

/-- `token in {"or", "and", "with", "(", ")"}` -/
def isGrammar (t : Str) : Bool := t == kOr || t == kAnd || t == kWith || t == kLP || t == kRP

/-- `EXCEPTIONS[token]["id"]` / `LICENSES[token]["id"]`, `none` if `token not in` the table -/
def findId (tbl : List Gen.SpdxTables.Entry) (k : Str) : Option Str := (tbl.lookup k).map (·.1)

def allowedCp (c : Nat) : Bool := isAlnumAscii c || c == 46 || c == 45

/-- `license_ref_allowed.match(s)` for `^[A-Za-z0-9.-]+$` (`$` also matches before a final newline) -/
def refAllowed (s : Str) : Bool :=
  (!s.isEmpty && s.all allowedCp) ||
  (s.getLast? == some 10 && !s.dropLast.isEmpty && s.dropLast.all allowedCp)

/-- one non-grammar token of the second loop; `prev` is `normalized_tokens[-1]` if any -/
def normWord (prev : Option Str) (orig token : Str) : Option Str :=
  if prev == some kWithU then
    findId Gen.SpdxTables.exceptions token
  else
    let plus := endsWith token [cPlus]
    let final := if plus then token.dropLast else token
    let suffix : Str := if plus then [cPlus] else []
    if startsWith final kRefLower then
      let ref := orig.drop 11
      if !refAllowed ref then none else some (kRef ++ ref)
    else
      (findId Gen.SpdxTables.licenses final).map (· ++ suffix)

/-- `token.upper()` for a grammar token -/
def upperOp (t : Str) : Str :=
  if t == kOr then kOrU else if t == kAnd then kAndU else if t == kWith then kWithU else t

/-- the loop over `zip(original_tokens, tokens)` building `normalized_tokens` -/
def normGo : List (Str × Str) → Option Str → Option (List Str)
  | [], _ => some []
  | (o, t) :: ts, prev =>
    if isGrammar t then
      (normGo ts (some (upperOp t))).map (upperOp t :: ·)
    else
      match normWord prev o t with
      | none => none
      | some w => (normGo ts (some w)).map (w :: ·)

/-- `" ".join(tokens)` -/
def joinSp : List Str → Str
  | [] => []
  | [x] => x
  | x :: y :: r => x ++ 32 :: joinSp (y :: r)

/-- `.replace("( ", "(").replace(" )", ")")` -/
def tighten (s : Str) : Str := replace2 32 41 [41] (replace2 40 32 [40] s)

/-- everything after tokenisation: `orig` are the original-case tokens, `toks` the lower-cased ones -/
def canonT (orig toks : List Str) : Option Str :=
  if !structGo toks 0 .lp then none
  else (normGo (orig.zip toks) none).map fun r => tighten (joinSp r)

/-- `canonicalize_license_expression(raw)`; `none` = `InvalidLicenseExpression` -/
def canon (raw : Str) : Option Str :=
  if raw.isEmpty then none
  else
    let padded := pad raw
    canonT (split padded) (split (lowerStr padded))

def accepts (raw : Str) : Bool := (canon raw).isSome

end Lic
