import PkgModel.Py
import PkgModel.Generated.SpdxTables
import PkgModel.Generated.SpdxUnicode
/-!
# Model of `packaging.licenses.canonicalize_license_expression` (as the code is)

The function is mirrored step by step, including its detours:

* `replace("(", " ( ").replace(")", " ) ")` and `str.split()` — white space is what CPython's
  `str.isspace` says (`Gen.SpdxUnicode.spaces`, regenerated from the running interpreter);
* the `license_refs` dict comprehension (keyed by the lower-cased token *including* a trailing `+`,
  later entries overwrite earlier ones);
* `str.lower()` (ASCII rule below 128 — the translator refuses to run if the interpreter deviates —
  and `Gen.SpdxUnicode.lower` above; the context dependent final-sigma rule is *not* modelled: a token
  containing U+03A3 is rejected whichever form is chosen, see `C19`);
* the token → `False/and/or/(/)` skeleton with its one early rejection;
* `eval` of that skeleton: `pyEval`, an evaluator of Python's expression grammar restricted to these five
  tokens (disjunction / conjunction / primary with call trailers / parenthesised group / empty tuple),
  with Python's short-circuit values; validated against the real `eval` by its own correspondence op;
* the second pass (`WITH` look-behind on the *normalised* list, `+` suffix, `license_ref_allowed`,
  the dict look-up that can raise `KeyError`), `" ".join`, and the two final `replace`s.

Not modelled: the interpreter's resource limits inside `eval` (CPython 3.12 raises `MemoryError`/
`SyntaxError` for about 200 nested parentheses, which the function turns into a rejection).
-/
namespace Lic
open Py

/-! ## constants (code points written out so that the kernel can evaluate them) -/
def cLP : Nat := 40
def cRP : Nat := 41
def cPlus : Nat := 43
/-- `"("`, `")"` -/
def kLP : Str := [40]
def kRP : Str := [41]
/-- `"or"`, `"and"`, `"with"` -/
def kOr : Str := [111, 114]
def kAnd : Str := [97, 110, 100]
def kWith : Str := [119, 105, 116, 104]
/-- `"OR"`, `"AND"`, `"WITH"` -/
def kOrU : Str := [79, 82]
def kAndU : Str := [65, 78, 68]
def kWithU : Str := [87, 73, 84, 72]
/-- `"licenseref-"` and `"LicenseRef-"` -/
def kRefLower : Str := [108, 105, 99, 101, 110, 115, 101, 114, 101, 102, 45]
def kRef : Str := [76, 105, 99, 101, 110, 115, 101, 82, 101, 102, 45]
/-- `" ( "`, `" ) "` -/
def kPadL : Str := [32, 40, 32]
def kPadR : Str := [32, 41, 32]

/-! ## the Python string operations the function uses -/

/-- `str.isspace` of one code point = separator of `str.split()` -/
def isSpace (c : Nat) : Bool := Gen.SpdxUnicode.spaces.contains c

/-- `chr(c).lower()` -/
def lowerCp (c : Nat) : Str :=
  if c < 128 then [lowerAscii c]
  else match Gen.SpdxUnicode.lower.lookup c with
    | some l => l
    | none => [c]

/-- `s.lower()` (per code point; see the header for final sigma) -/
def lower : Str → Str
  | [] => []
  | c :: cs => lowerCp c ++ lower cs

/-- `s.replace(chr(c), new)` for a one-character pattern -/
def replace1 (c : Nat) (new : Str) : Str → Str
  | [] => []
  | x :: xs => if x == c then new ++ replace1 c new xs else x :: replace1 c new xs

/-- `s.replace(chr(a)+chr(b), new)` for a two-character pattern (left to right, non-overlapping) -/
def replace2 (a b : Nat) (new : Str) : Str → Str
  | x :: y :: r => if x == a && y == b then new ++ replace2 a b new r else x :: replace2 a b new (y :: r)
  | r => r

/-- `s.split()`: maximal runs of non-white-space (`acc` is the run being read) -/
def splitGo : Str → Str → List Str
  | [], acc => if acc.isEmpty then [] else [acc]
  | c :: cs, acc =>
    if isSpace c then (if acc.isEmpty then splitGo cs [] else acc :: splitGo cs [])
    else splitGo cs (acc ++ [c])
def split (s : Str) : List Str := splitGo s []

/-- `raw.replace("(", " ( ").replace(")", " ) ")` -/
def pad (s : Str) : Str := replace1 cRP kPadR (replace1 cLP kPadL s)

/-- a `dict` built by insertion in list order: a later pair with the same key overwrites -/
def dictGet : List (Str × Str) → Str → Option Str
  | [], _ => none
  | (k', v) :: r, k =>
    match dictGet r k with
    | some x => some x
    | none => if k' == k then some v else none

/-- the `license_refs` comprehension over `license_expression.split()` (original case) -/
def mkRefs : List Str → List (Str × Str)
  | [] => []
  | r :: rs =>
    if startsWith (lower r) kRefLower then (lower r, kRef ++ r.drop 11) :: mkRefs rs else mkRefs rs

/-! ## the skeleton -/

inductive PTok | F | and | or | lp | rp
  deriving DecidableEq, Repr, Inhabited

/-- `token in {"or", "and", "with", "(", ")"}` -/
def isGrammar (t : Str) : Bool := t == kOr || t == kAnd || t == kWith || t == kLP || t == kRP

/-- the loop building `python_tokens`; `last` is `python_tokens[-1]` if any; `none` = the early `raise` -/
def skel : List Str → Option PTok → Option (List PTok)
  | [], _ => some []
  | t :: ts, last =>
    if !isGrammar t then (skel ts (some .F)).map (PTok.F :: ·)
    else if t == kWith then (skel ts (some .or)).map (PTok.or :: ·)
    else if t == kLP && (match last with
        | none => false
        | some p => !(p == .or || p == .and)) then none
    else
      let p : PTok := if t == kOr then .or else if t == kAnd then .and else if t == kLP then .lp else .rp
      (skel ts (some p)).map (p :: ·)

/-! ## `eval` of a skeleton

Python's grammar on the five tokens:

    disjunction := conjunction ('or' conjunction)*
    conjunction := primary ('and' primary)*
    primary     := atom trailer*            trailer := '(' [disjunction] ')'      (a call)
    atom        := 'False' | '(' ')' | '(' disjunction ')'

Values: `False` and `()` are both falsy, so `a or b` evaluates both and yields `b`, `a and b` yields `a`
without evaluating `b`; calling either value raises `TypeError` — unless short-circuited away.
A syntax error anywhere wins (compilation precedes evaluation). -/

/-- `False`, `()`, or "evaluating this raises TypeError" -/
inductive Val | f | t | e
  deriving DecidableEq, Repr, Inhabited

/-- what is known about the innermost open parenthesis (or the whole input, for the bottom frame) -/
structure Frame where
  /-- opened directly after a primary: an argument list, otherwise a parenthesised atom -/
  call : Bool
  /-- nothing read since the opening parenthesis -/
  fresh : Bool
  /-- an already completed disjunct raises -/
  orErr : Bool
  /-- first primary of the conjunction being read, once that primary is complete -/
  cVal : Option Val
  /-- the primary being read (may still get call trailers); `none`: an operand is expected -/
  pVal : Option Val
  deriving DecidableEq, Repr

def Frame.open (call : Bool) : Frame := ⟨call, true, false, none, none⟩

/-- value of the disjunction read in a frame whose last primary is `v` -/
def Frame.value (fr : Frame) (v : Val) : Val := if fr.orErr then .e else fr.cVal.getD v

/-- one token; `none` = SyntaxError -/
def step : List Frame → PTok → Option (List Frame)
  | fr :: st, .F =>
    match fr.pVal with
    | none => some ({ fr with fresh := false, pVal := some .f } :: st)
    | some _ => none
  | fr :: st, .and =>
    match fr.pVal with
    | some v => some ({ fr with cVal := some (fr.cVal.getD v), pVal := none } :: st)
    | none => none
  | fr :: st, .or =>
    match fr.pVal with
    | some v => some ({ fr with orErr := fr.orErr || fr.cVal.getD v == .e, cVal := none, pVal := none } :: st)
    | none => none
  | fr :: st, .lp => some (Frame.open fr.pVal.isSome :: { fr with fresh := false } :: st)
  | fr :: par :: st, .rp =>
    if fr.fresh then
      some ({ par with pVal := some (if fr.call then .e else .t) } :: st)
    else match fr.pVal with
      | some v => some ({ par with pVal := some (if fr.call then .e else fr.value v) } :: st)
      | none => none
  | _, _ => none

def run : List Frame → List PTok → Option (List Frame)
  | st, [] => some st
  | st, t :: ts => match step st t with
    | some st' => run st' ts
    | none => none

/-- `eval(" ".join(skeleton))`: `none` = SyntaxError, `some .e` = TypeError -/
def pyEval (ts : List PTok) : Option Val :=
  match run [Frame.open false] ts with
  | some [fr] => (match fr.pVal with
      | some v => some (fr.value v)
      | none => none)
  | _ => none

/-! ## the second pass -/

inductive Err | invalid | keyError
  deriving DecidableEq, Repr

def entryId (e : Gen.SpdxTables.Entry) : Str := e.2.1

/-- `EXCEPTIONS.get(token)` / `LICENSES.get(token)` (`["id"]`) -/
def findId (tbl : List Gen.SpdxTables.Entry) (k : Str) : Option Str := (tbl.lookup k).map (·.1)

def allowedCp (c : Nat) : Bool := isAlnumAscii c || c == 46 || c == 45

/-- `license_ref_allowed.match(s)` for `^[A-Za-z0-9.-]*$` (`$` also matches before a final newline) -/
def refAllowed (s : Str) : Bool :=
  s.all allowedCp || (s.getLast? == some 10 && s.dropLast.all allowedCp)

/-- one non-grammar token of the second pass; `prev` is `normalized_tokens[-1]` if any -/
def normWord (refs : List (Str × Str)) (prev : Option Str) (token : Str) : Except Err Str :=
  if prev == some kWithU then
    match findId Gen.SpdxTables.exceptions token with
    | some id => .ok id
    | none => .error .invalid
  else
    let plus := endsWith token [cPlus]
    let final := if plus then token.dropLast else token
    let suffix : Str := if plus then [cPlus] else []
    if startsWith final kRefLower then
      if !refAllowed final then .error .invalid
      else match dictGet refs final with
        | some v => .ok (v ++ suffix)
        | none => .error .keyError
    else
      match findId Gen.SpdxTables.licenses final with
      | some id => .ok (id ++ suffix)
      | none => .error .invalid

def upperOp (t : Str) : Str :=
  if t == kOr then kOrU else if t == kAnd then kAndU else if t == kWith then kWithU else t

/-- the loop building `normalized_tokens` -/
def normGo (refs : List (Str × Str)) : List Str → Option Str → Except Err (List Str)
  | [], _ => .ok []
  | t :: ts, prev =>
    if isGrammar t then
      match normGo refs ts (some (upperOp t)) with
      | .ok r => .ok (upperOp t :: r)
      | .error e => .error e
    else
      match normWord refs prev t with
      | .error e => .error e
      | .ok w =>
        match normGo refs ts (some w) with
        | .ok r => .ok (w :: r)
        | .error e => .error e

/-- `" ".join(tokens)` -/
def joinSp : List Str → Str
  | [] => []
  | [x] => x
  | x :: y :: r => x ++ 32 :: joinSp (y :: r)

/-- `.replace("( ", "(").replace(" )", ")")` -/
def tighten (s : Str) : Str := replace2 32 41 [41] (replace2 40 32 [40] s)

/-- everything after tokenisation: `toks` are the original-case tokens, `ltoks` the lower-cased ones -/
def canonT (toks ltoks : List Str) : Except Err Str :=
  match skel ltoks none with
  | none => .error .invalid
  | some sk =>
    if pyEval sk != some .f then .error .invalid
    else match normGo (mkRefs toks) ltoks none with
      | .ok r => .ok (tighten (joinSp r))
      | .error e => .error e

/-- `canonicalize_license_expression(raw)`; `.error .invalid` = `InvalidLicenseExpression`,
`.error .keyError` = a raw `KeyError` escapes -/
def canon (raw : Str) : Except Err Str :=
  if raw.isEmpty then .error .invalid
  else
    let padded := pad raw
    canonT (split padded) (split (lower padded))

def accepts (raw : Str) : Bool := match canon raw with | .ok _ => true | .error _ => false

end Lic
