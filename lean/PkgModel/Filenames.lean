import PkgModel.Names
import PkgModel.Version
/-!
# Filenames — model of `parse_wheel_filename`, `parse_sdist_filename` (`utils.py`), `Tag`, `parse_tag` (`tags.py`)

The code's own steps are kept: suffix test, `filename[:-4]`, `count("-")`, `split("-", dashes - 2)`, the
`"__" in name_part or re.match(r"^[\w\d._]*\Z", name_part, re.UNICODE) is None` test (character set and anchor kind
measured from the pattern in the source), `canonicalize_name`, `Version(...)`,
`_build_tag_regex.match` (`\d` measured — Unicode decimal digits —, `int()` on them, `.` stops at a newline and
`match` ignores what follows), `parse_tag` on the last part.
-/
namespace Fn
open Py

/-! ## Tag -/

structure Tag where
  i : Str
  a : Str
  p : Str
  deriving DecidableEq, Repr

/-- `Tag(interpreter, abi, platform)` -/
def mkTag (i a p : Str) : Tag := ⟨Names.lower i, Names.lower a, Names.lower p⟩

/-- the tuple whose hash is stored in `_hash` -/
def Tag.key (t : Tag) : Str × Str × Str := (t.i, t.a, t.p)

/-- `Tag.__eq__` for an arbitrary hash function `h` of the key tuple -/
def Tag.eq (h : Str × Str × Str → Nat) (t u : Tag) : Bool :=
  h t.key == h u.key && t.p == u.p && t.a == u.a && t.i == u.i

/-- `Tag.__str__` -/
def Tag.str (t : Tag) : Str := t.i ++ [45] ++ t.a ++ [45] ++ t.p

/-- `parse_tag`; `none` is the bare `ValueError` of the 3-way unpacking -/
def parseTag (s : Str) : Option (List Tag) :=
  match splitOn 45 s with
  | [is, as, ps] =>
    some ((splitOn 46 is).flatMap fun i => (splitOn 46 as).flatMap fun a => (splitOn 46 ps).map fun p => mkTag i a p)
  | _ => none

/-! ## string helpers -/

/-- split at the first `sep` -/
def breakOn (sep : Nat) : Str → Option (Str × Str)
  | [] => none
  | c :: cs =>
    if c == sep then some ([], cs)
    else match breakOn sep cs with
      | some (a, r) => some (c :: a, r)
      | none => none

/-- `s.split(sep, k)` for `k ≥ 0` -/
def splitN (sep : Nat) : Nat → Str → List Str
  | 0, s => [s]
  | k+1, s =>
    match breakOn sep s with
    | none => [s]
    | some (a, r) => a :: splitN sep k r

/-- `s.rpartition(sep)`; `none` when `sep` does not occur -/
def rpartition (sep : Nat) (s : Str) : Option (Str × Str) :=
  match breakOn sep s.reverse with
  | some (a, r) => some (r.reverse, a.reverse)
  | none => none

def inRanges (t : List (Nat × Nat)) (c : Nat) : Bool := t.any fun r => r.1 ≤ c && c ≤ r.2

/-- `"__" in s` -/
def hasDunder : Str → Bool
  | [] => false
  | c :: r => startsWith (c :: r) [95, 95] || hasDunder r

/-- `[\w\d._]` -/
def nameChar (c : Nat) : Bool := inRanges Gen.NameTables.wheelNameRanges c

/-- `re.match(r"^[\w\d._]*\Z", s, re.UNICODE) is not None`; with a `$` anchor (`dollar`) one trailing newline is let through -/
def nameOkWith (dollar : Bool) : Str → Bool
  | [] => true
  | c :: r => (dollar && c == 10 && r.isEmpty) || (nameChar c && nameOkWith dollar r)

def nameOk (s : Str) : Bool := nameOkWith Gen.NameTables.wheelNameDollar s

/-- value `int()` gives a `\d` character; `none` if the character is not matched by `\d` -/
def digitValIn : List (Nat × Nat × Nat) → Nat → Option Nat
  | [], _ => none
  | (lo, hi, v) :: rest, c => if lo ≤ c && c ≤ hi then some ((v + (c - lo)) % 10) else digitValIn rest c

def digitVal (c : Nat) : Option Nat := digitValIn Gen.NameTables.digitTable c
def isUDigit (c : Nat) : Bool := (digitVal c).isSome
/-- `int(s)` for a string of `\d` characters -/
def intU (s : Str) : Nat := s.foldl (fun acc c => acc * 10 + (digitVal c).getD 0) 0
/-- `.` (no DOTALL) -/
def isDot (c : Nat) : Bool := !inRanges Gen.NameTables.notDot c

/-- `_build_tag_regex.match(s)` → `(int(group 1), group 2)` -/
def parseBuild (s : Str) : Option (Nat × Str) :=
  let ds := s.takeWhile isUDigit
  if ds.isEmpty then none else some (intU ds, (s.dropWhile isUDigit).takeWhile isDot)

/-! ## wheel -/

inductive WheelErr
  | ext | parts | name | version | build      -- the five `InvalidWheelFilename` sites
  | rawTag                                     -- a bare `ValueError` out of `parse_tag` (shown unreachable)
  deriving DecidableEq, Repr

structure Wheel where
  name : Str
  ver : V.Ver
  build : Option (Nat × Str)
  tags : List Tag
  deriving DecidableEq, Repr

def whl : Str := [46, 119, 104, 108]          -- ".whl"
def targz : Str := [46, 116, 97, 114, 46, 103, 122]   -- ".tar.gz"
def zip : Str := [46, 122, 105, 112]          -- ".zip"

def parseWheel (f : Str) : Except WheelErr Wheel :=
  if !endsWith f whl then .error .ext else
  let stem := f.take (f.length - 4)
  let dashes := stem.count 45
  if dashes != 4 && dashes != 5 then .error .parts else
  let parts := splitN 45 (dashes - 2) stem
  let namePart := parts.headD []
  if hasDunder namePart || !nameOk namePart then .error .name else
  match V.scan (parts.getD 1 []) with
  | none => .error .version
  | some ver =>
    let build : Except WheelErr (Option (Nat × Str)) :=
      if dashes == 5 then
        match parseBuild (parts.getD 2 []) with
        | none => .error .build
        | some b => .ok (some b)
      else .ok none
    match build with
    | .error e => .error e
    | .ok b =>
      match parseTag (parts.getLastD []) with
      | none => .error .rawTag
      | some tags => .ok ⟨Names.canon namePart, ver, b, tags⟩

/-! ## sdist -/

inductive SdistErr
  | ext | nodash | version
  deriving DecidableEq, Repr

def parseSdist (f : Str) : Except SdistErr (Str × V.Ver) :=
  let stem : Option Str :=
    if endsWith f targz then some (f.take (f.length - 7))
    else if endsWith f zip then some (f.take (f.length - 4))
    else none
  match stem with
  | none => .error .ext
  | some stem =>
    match rpartition 45 stem with
    | none => .error .nodash
    | some (namePart, verPart) =>
      match V.scan verPart with
      | none => .error .version
      | some v => .ok (Names.canon namePart, v)

end Fn
