import PkgModel.Metadata
/-!
# Email — model of `packaging.metadata.parse_email` after the standard-library parser (C18)

Input (`Doc`) is what `email.parser` hands to the loop of `parse_email`:

* `hdrs` — the header list in document order: the name as spelled, and the value as `get_all`
  presents it: a `str`, or — for an `email.header.Header` object — the byte chunks that
  `email.header.decode_header` returns for it,
* `payload` — `get_payload()` for `str` input / `get_payload(decode=True)` for `bytes` input, or
  `other` when that is not a `str` / `bytes` object (the `assert` in `_get_payload`).

Strict UTF-8 decoding (`bytes.decode("utf8", "strict")`), the mojibake fallback, `make_header` +
`str(Header)` for chunks whose charsets are `utf8`/`latin1` only, the per-name classification, keyword
and project-URL splitting and the body/description merge are modelled here; `order` is the iteration
order of `frozenset(parsed.keys())`.
-/
namespace Email
open Py Gen.Meta Meta

/-! ## strict UTF-8 -/

def isCont (b : Nat) : Bool := 0x80 ≤ b && b ≤ 0xBF

/-- range of the second byte after lead byte `b0` (Unicode table 3-7: no overlong forms, no surrogates,
nothing above U+10FFFF) -/
def secondLo (b0 : Nat) : Nat := if b0 == 0xE0 then 0xA0 else if b0 == 0xF0 then 0x90 else 0x80
def secondHi (b0 : Nat) : Nat := if b0 == 0xED then 0x9F else if b0 == 0xF4 then 0x8F else 0xBF

/-- decode one code point from the front: `(code point, rest)` -/
def utf8Next : List Nat → Option (Nat × List Nat)
  | [] => none
  | b0 :: r =>
    if b0 < 0x80 then some (b0, r)
    else if 0xC2 ≤ b0 && b0 ≤ 0xDF then
      match r with
      | b1 :: r1 => if isCont b1 then some ((b0 - 0xC0) * 64 + (b1 - 0x80), r1) else none
      | _ => none
    else if 0xE0 ≤ b0 && b0 ≤ 0xEF then
      match r with
      | b1 :: b2 :: r2 =>
        if secondLo b0 ≤ b1 && b1 ≤ secondHi b0 && isCont b2 then
          some ((b0 - 0xE0) * 4096 + (b1 - 0x80) * 64 + (b2 - 0x80), r2) else none
      | _ => none
    else if 0xF0 ≤ b0 && b0 ≤ 0xF4 then
      match r with
      | b1 :: b2 :: b3 :: r3 =>
        if secondLo b0 ≤ b1 && b1 ≤ secondHi b0 && isCont b2 && isCont b3 then
          some ((b0 - 0xF0) * 262144 + (b1 - 0x80) * 4096 + (b2 - 0x80) * 64 + (b3 - 0x80), r3) else none
      | _ => none
    else none

def utf8Loop : Nat → List Nat → Option Str
  | _, [] => some []
  | 0, _ :: _ => none
  | n + 1, b :: bs =>
    match utf8Next (b :: bs) with
    | none => none
    | some (c, r) => (utf8Loop n r).map (c :: ·)

/-- `bytes.decode("utf8", "strict")`; `none` = `UnicodeDecodeError` -/
def utf8Decode (bs : List Nat) : Option Str := utf8Loop bs.length bs

/-! ## header values -/

inductive HVal where
  | str (s : Str)
  | hdr (chunks : List (List Nat))       -- `[bin for bin, _ in decode_header(h)]`
  | err (cls : Str)                      -- `decode_header(h)` itself raises `cls`
  deriving DecidableEq, Repr

/-- one chunk: `(text, valid)`; an undecodable chunk is read as latin-1 ("mojibake") -/
def decodeChunk (b : List Nat) : Str × Bool :=
  match utf8Decode b with
  | some s => (s, true)
  | none => (b, false)

/-- `str(make_header(chunks))` when every charset is `utf8` or `latin1`: runs of one charset are
joined with a space (`Header._normalize`), different runs are concatenated -/
def renderChunks : List (Str × Bool) → Str
  | [] => []
  | [(s, _)] => s
  | (s, c) :: (t, d) :: r =>
    if c == d then s ++ [32] ++ renderChunks ((t, d) :: r) else s ++ renderChunks ((t, d) :: r)

/-- one header value as a `str` plus the `valid_encoding` contribution -/
def decodeVal : HVal → Str × Bool
  | .str s => (s, true)
  | .hdr chunks =>
    let cs := chunks.map decodeChunk
    (renderChunks cs, cs.all (·.2))
  | .err _ => ([], true)                 -- never reached: `parseEmail` raises first

/-! ## the document -/

inductive Payload where
  | str (s : Str)
  | bytes (b : List Nat)
  | other
  deriving DecidableEq, Repr

structure Doc where
  hdrs : List (Str × HVal)
  payload : Payload
  deriving Repr

/-- values of the unparsed dict: `str`, or the `bytes` body that `parse_email` appends as is -/
inductive UVal where
  | str (s : Str)
  | bytes (b : List Nat)
  deriving DecidableEq, Repr

abbrev Unparsed := List (Str × List UVal)

/-- `parsed.get_all(name)` for an already lower-cased name -/
def getAll (doc : Doc) (lname : Str) : List HVal :=
  (doc.hdrs.filter (fun h => lowerStr h.1 == lname)).map (·.2)

/-! ## `_parse_keywords`, `_parse_project_urls` -/

def isSpacePy (c : Nat) : Bool := pySpace.contains c
def strip (s : Str) : Str := stripBy isSpacePy s

def parseKeywords (s : Str) : List Str := (splitOn 44 s).map strip

/-- `pair.split(",", 1)` stripped and padded to two parts -/
def splitPair : Str → Str × Str
  | [] => ([], [])
  | c :: cs =>
    if c == 44 then ([], strip cs)
    else let (a, b) := splitPair cs; (c :: a, b)

def labelUrl (pair : Str) : Str × Str := let (a, b) := splitPair pair; (strip a, b)

/-- `none` = `KeyError` (duplicate label) -/
def parseProjectUrls : List Str → List (Str × Str) → Option (List (Str × Str))
  | [], acc => some acc
  | p :: ps, acc =>
    let (label, url) := labelUrl p
    if (acc.map (·.1)).contains label then none else parseProjectUrls ps (acc ++ [(label, url)])

/-! ## classification of one header name -/

inductive Cls where
  | raw (key : Str) (v : Val)
  | unparsed (vals : List Str)
  deriving DecidableEq, Repr

def keywordsKey : Str := Field.keywords.rawName
def projectUrlsKey : Str := Field.project_urls.rawName
def descriptionKey : Str := Field.description.rawName

/-- what the loop body decides for a lower-cased header name -/
def classify (doc : Doc) (lname : Str) : Cls :=
  let dv := (getAll doc lname).map decodeVal
  let value := dv.map (·.1)
  if !(dv.all (·.2)) then .unparsed value else
  match aget lname emailToRaw with
  | none => .unparsed value
  | some rawName =>
    if stringFields.contains rawName && value.length == 1 then .raw rawName (.str (value.headD []))
    else if listFields.contains rawName then .raw rawName (.list value)
    else if rawName == keywordsKey && value.length == 1 then .raw rawName (.list (parseKeywords (value.headD [])))
    else if rawName == projectUrlsKey then
      match parseProjectUrls value [] with
      | some d => .raw rawName (.dict d)
      | none => .unparsed value
    else .unparsed value

def step (doc : Doc) (acc : Dict × Unparsed) (name : Str) : Dict × Unparsed :=
  let lname := lowerStr name
  match classify doc lname with
  | .raw key v => (aset key v acc.1, acc.2)
  | .unparsed vals => (acc.1, aset lname (vals.map .str) acc.2)

/-- the main loop, `order` = iteration order of `frozenset(parsed.keys())` -/
def headerLoop (doc : Doc) (order : List Str) : Dict × Unparsed :=
  order.foldl (step doc) ([], [])

/-- `unparsed.setdefault("description", []).extend(xs)` -/
def extendDescription (u : Unparsed) (xs : List UVal) : Unparsed :=
  aset descriptionKey (((aget descriptionKey u).getD []) ++ xs) u

/-- the body / description merge for a decoded payload -/
def mergeBody (acc : Dict × Unparsed) (payload : Str) : Dict × Unparsed :=
  if payload.isEmpty then acc else
  match aget descriptionKey acc.1 with
  | some v =>
    let hdr : Str := match v with | .str s => s | _ => []
    (adel descriptionKey acc.1, extendDescription acc.2 [.str hdr, .str payload])
  | none =>
    match aget descriptionKey acc.2 with
    | some _ => (acc.1, extendDescription acc.2 [.str payload])
    | none => (aset descriptionKey (.str payload) acc.1, acc.2)

/-- `parse_email`; `.error cls` = an exception escapes -/
def parseEmail (doc : Doc) (order : List Str) : Except Str (Dict × Unparsed) :=
  match doc.hdrs.findSome? (fun h => match h.2 with | .err c => some c | _ => none) with
  | some c => .error c          -- the loop visits every header, so the first such value raises
  | none =>
  let acc := headerLoop doc order
  match doc.payload with
  | .other => .error (ofString "AssertionError")
  | .str s => .ok (mergeBody acc s)
  | .bytes b =>
    match utf8Decode b with
    | some s => .ok (mergeBody acc s)
    | none =>
      -- undecodable body: a Description header moves to `unparsed` as well
      match aget descriptionKey acc.1 with
      | some v =>
        let hdr : Str := match v with | .str s => s | _ => []
        .ok (adel descriptionKey acc.1, extendDescription acc.2 [.str hdr, .bytes b])
      | none => .ok (acc.1, extendDescription acc.2 [.bytes b])

/-- header names as `parsed.keys()` lists them -/
def Doc.names (doc : Doc) : List Str := doc.hdrs.map (·.1)

end Email
