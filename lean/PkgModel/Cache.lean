/-!
# Cache — `functools.lru_cache` as a memo state machine

`_get_glibc_version()` and `_get_musl_version(executable)` are wrapped in `functools.lru_cache`.
The cache is a list of (argument, value) pairs, most recently used first, bounded by `maxsize`
(128 by default; eviction drops the least recently used entry).
-/
namespace Cache

structure State (α β : Type) where
  entries : List (α × β)
  deriving Repr

def empty {α β} : State α β := ⟨[]⟩

def lookup {α β} [DecidableEq α] (a : α) : List (α × β) → Option β
  | [] => none
  | (k, v) :: rest => if k = a then some v else lookup a rest

def erase {α β} [DecidableEq α] (a : α) : List (α × β) → List (α × β)
  | [] => []
  | (k, v) :: rest => if k = a then rest else (k, v) :: erase a rest

/-- one call through the cache: hit → stored value (entry moves to the front);
miss → call the wrapped function, store, evict beyond `maxsize` -/
def call {α β} [DecidableEq α] (maxsize : Nat) (f : α → β) (s : State α β) (a : α) : State α β × β :=
  match lookup a s.entries with
  | some v => (⟨(a, v) :: erase a s.entries⟩, v)
  | none =>
    let v := f a
    (⟨((a, v) :: s.entries).take maxsize⟩, v)

/-- run a sequence of calls, collecting the answers -/
def run {α β} [DecidableEq α] (maxsize : Nat) (f : α → β) : State α β → List α → List β
  | _, [] => []
  | s, a :: as => let (s', v) := call maxsize f s a; v :: run maxsize f s' as

end Cache
