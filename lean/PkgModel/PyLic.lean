import PkgModel.PyRt
import PkgModel.License
/-!
# PyLic — run-time primitives for the translated `packaging.licenses.canonicalize_license_expression`

What the function calls that is neither translated nor in `PyRt`: `str.split()` without a separator (white space as
CPython's `str.isspace`, regenerated: `Gen.SpdxUnicode.spaces`), `str.translate(_ASCII_LOWER)` (the translator checks
that the table is the 26-letter ASCII map), membership and `["id"]` look-ups in the SPDX tables (regenerated:
`Gen.SpdxTables`), and `license_ref_allowed.match` for the pattern text `^[A-Za-z0-9.-]+$` (`Lic.refAllowed`; the
translator checks the pattern text and flags).
-/
namespace PyLic
open Py PyRt

/-- `s.split()` -/
def str_split0 : PyVal → M PyVal
  | .str s => pure (.list ((Lic.split s).map .str))
  | _ => throw attributeError

/-- `s.translate(_ASCII_LOWER)` -/
def ascii_lower : PyVal → M PyVal
  | .str s => pure (.str (lowerStr s))
  | _ => throw attributeError

def table (name : String) : Option (List Gen.SpdxTables.Entry) :=
  if name == "LICENSES" then some Gen.SpdxTables.licenses
  else if name == "EXCEPTIONS" then some Gen.SpdxTables.exceptions
  else none

/-- `key in TABLE` -/
def tbl_has (name : String) (key : PyVal) : M Bool :=
  match table name, key with
  | some t, .str k => pure (Lic.findId t k).isSome
  | some _, k => if hashable k then pure false else throw typeError
  | none, _ => throw "PyRtUnsupported"

/-- `TABLE[key]["id"]` -/
def tbl_id (name : String) (key : PyVal) : M PyVal :=
  match table name, key with
  | some t, .str k => (match Lic.findId t k with | some i => pure (.str i) | none => throw "KeyError")
  | some _, k => if hashable k then throw "KeyError" else throw typeError
  | none, _ => throw "PyRtUnsupported"

/-- `license_ref_allowed.match(s)`: only its truth value is used -/
def ref_match : PyVal → M PyVal
  | .str s => pure (if Lic.refAllowed s then .obj "re.Match" [("groups", .tuple [])] else .none)
  | _ => throw typeError

end PyLic
