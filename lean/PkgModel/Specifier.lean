import PkgModel.Version
/-!
# Specifier — model of `packaging.specifiers.Specifier`

Mirrors the code path including its string-level detours: `_compare_equal` with `.*` goes through
`canonicalize_version`, `_version_split`, `_pad_version`; `_compare_compatible` builds its prefix from
the normalised (`canonicalize_version`) spec string.  Exceptions are explicit: `Except String`, the string being the class name of
the exception that would escape.
-/
namespace S
open Py V

inductive Op | compatible | eq | ne | le | ge | lt | gt | arbitrary
  deriving DecidableEq, Repr

def Op.str : Op → Str
  | .compatible => ofString "~=" | .eq => ofString "==" | .ne => ofString "!=" | .le => ofString "<="
  | .ge => ofString ">=" | .lt => ofString "<" | .gt => ofString ">" | .arbitrary => ofString "==="

/-- `Specifier._spec`: (operator, version text stripped) -/
structure Spec where
  op : Op
  ver : Str
  deriving DecidableEq, Repr

/-! ## `Specifier.__init__`: scanner mirroring `Specifier._regex` (VERBOSE | IGNORECASE | ASCII) -/

/-- the operator alternation `(~=|==|!=|<=|>=|<|>|===)` as the backtracking engine resolves it -/
def takeOp : Str → Option (Op × Str)
  | 61 :: 61 :: 61 :: r => some (.arbitrary, r)
  | 126 :: 61 :: r => some (.compatible, r)
  | 61 :: 61 :: r => some (.eq, r)
  | 33 :: 61 :: r => some (.ne, r)
  | 60 :: 61 :: r => some (.le, r)
  | 62 :: 61 :: r => some (.ge, r)
  | 60 :: r => some (.lt, r)
  | 62 :: r => some (.gt, r)
  | _ => none

/-- `[^\s;)]` -/
def isArbChar (c : Nat) : Bool := !(isWs c) && c != 59 && c != 41

/-- what `Specifier._regex` demands of the version text of a non-`===` clause, given how it scans:
a trailing `.*` only after `==`/`!=` and only on a bare release; a local label only after `==`/`!=`;
at least two release components after `~=` -/
def clauseForm (op : Op) (v : Ver) (wild : Bool) : Bool :=
  (!wild || (v.pre.isNone && v.post.isNone && v.dev.isNone && v.loc.isNone)) &&
  (v.loc.isNone || op == .eq || op == .ne) &&
  (op != .compatible || decide (2 ≤ v.release.length))

/-- `Specifier.__init__`: `_regex.search(spec)`, then `(group("operator").strip(), group("version").strip())`.
The pattern is anchored (`^\s* op version \s*$`, `\s` ASCII), so the version group is what follows the operator
without the surrounding white space; it must be, in full, a version (`scanCore` leaves nothing over), optionally
followed by `.*`.  For `===` it is any run of `[^\s;)]`. -/
def parseSpec (s : Str) : Option Spec :=
  match takeOp (s.dropWhile isWs) with
  | none => none
  | some (op, r) =>
    let text := stripBy isWs r
    if op == .arbitrary then
      if text.all isArbChar then some ⟨op, strip text⟩ else none
    else
      let wild := (op == .eq || op == .ne) && endsWith text [46, 42]
      let vtext := if wild then text.take (text.length - 2) else text
      match scanCore vtext with
      | some (v, []) => if clauseForm op v wild then some ⟨op, text⟩ else none
      | _ => none

/-- `Specifier.__str__` -/
def Spec.str (sp : Spec) : Str := sp.op.str ++ sp.ver

/-! ## helpers `_version_split`, `_version_join`, `_is_not_suffix`, `_pad_version` -/

/-- `s.rpartition(sep)`: (before, found?, after) at the last occurrence -/
def rpartition (sep : Nat) (s : Str) : Str × Bool × Str :=
  let rev := s.reverse
  let afterRev := rev.takeWhile (· != sep)
  if afterRev.length == rev.length then ([], false, s)
  else ((rev.drop (afterRev.length + 1)).reverse, true, afterRev.reverse)

/-- `_prefix_regex = ^([0-9]+)((?:a|b|c|rc)[0-9]+)$` with `search` (`$` also before a final newline) -/
def prefixRegex (item : Str) : Option (Str × Str) :=
  let item := if item.getLast? == some 10 then item.dropLast else item
  let (d1, r) := spanDigits item
  if d1.isEmpty then none else
  let rest : Option (Str × Str) :=
    match r with
    | 97 :: t => some ([97], t)
    | 98 :: t => some ([98], t)
    | 99 :: t => some ([99], t)
    | 114 :: 99 :: t => some ([114, 99], t)
    | _ => none
  match rest with
  | none => none
  | some (l, t) =>
    let (d2, r2) := spanDigits t
    if d2.isEmpty || !r2.isEmpty then none else some (d1, l ++ d2)

def versionSplit (version : Str) : List Str :=
  let (epoch, _, rest) := rpartition 33 version
  (if epoch.isEmpty then [48] else epoch) ::
    (splitOn 46 rest).flatMap fun item =>
      match prefixRegex item with
      | some (a, b) => [a, b]
      | none => [item]

/-- `_version_join`; `none` is the `ValueError` of unpacking an empty list -/
def versionJoin : List Str → Option Str
  | [] => none
  | epoch :: rest => some (epoch ++ [33] ++ join [46] rest)

def isNotSuffix (seg : Str) : Bool :=
  !([ofString "dev", ofString "a", ofString "b", ofString "rc", ofString "post"].any fun p => startsWith seg p)

/-- `str.isdigit()` on the ASCII strings that reach it -/
def isDigitStr (s : Str) : Bool := !s.isEmpty && s.all isDigit

def padVersion (left right : List Str) : List Str × List Str :=
  let l0 := left.takeWhile isDigitStr
  let r0 := right.takeWhile isDigitStr
  let l1 := left.drop l0.length
  let r1 := right.drop r0.length
  (l0 ++ List.replicate (r0.length - l0.length) [48] ++ l1,
   r0 ++ List.replicate (l0.length - r0.length) [48] ++ r1)

/-! ## the per-operator comparisons -/

abbrev R := Except String

def version (s : Str) : R Ver :=
  match scan s with
  | some v => .ok v
  | none => .error "InvalidVersion"

/-- `canonicalize_version(str, strip_trailing_zero=False)` -/
def canonNoStrip (s : Str) : R Str :=
  match canonicalizeVersion s false with
  | some r => .ok r
  | none => .error "InvalidVersion"

def compareEqual (prospective : Ver) (spec : Str) : R Bool :=
  if endsWith spec [46, 42] then do
    let np ← canonNoStrip prospective.public
    let ns ← canonNoStrip (spec.take (spec.length - 2))
    let splitSpec := versionSplit ns
    let splitPro := versionSplit np
    let (padded, _) := padVersion splitPro splitSpec
    pure (padded.take splitSpec.length == splitSpec)
  else do
    let sv ← version spec
    let p ← if sv.loc.isNone then version prospective.public else pure prospective
    pure (p.eq sv)

def compareNotEqual (prospective : Ver) (spec : Str) : R Bool := do
  let b ← compareEqual prospective spec
  pure (!b)

def compareLE (prospective : Ver) (spec : Str) : R Bool := do
  let p ← version prospective.public
  let s ← version spec
  pure (p.le s)

def compareGE (prospective : Ver) (spec : Str) : R Bool := do
  let p ← version prospective.public
  let s ← version spec
  pure (p.ge s)

def compareCompatible (prospective : Ver) (spec : Str) : R Bool := do
  let ns ← canonNoStrip spec
  let comps := ((versionSplit ns).takeWhile isNotSuffix).dropLast
  let pfx ← match versionJoin comps with
    | some j => pure (j ++ [46, 42])
    | none => .error "ValueError"
  let ge ← compareGE prospective spec
  if ge then compareEqual prospective pfx else pure false

def compareLT (prospective : Ver) (specStr : Str) : R Bool := do
  let spec ← version specStr
  if !(prospective.lt spec) then pure false
  else if !spec.isPre && prospective.isPre then do
    let pb ← version prospective.base
    let sb ← version spec.base
    if pb.eq sb then pure false else pure true
  else pure true

def compareGT (prospective : Ver) (specStr : Str) : R Bool := do
  let spec ← version specStr
  if !(prospective.gt spec) then pure false
  else do
    let c1 ← if !spec.isPost && prospective.isPost then do
        let pb ← version prospective.base
        let sb ← version spec.base
        pure (pb.eq sb)
      else pure false
    if c1 then pure false
    else do
      let c2 ← if prospective.localStr.isSome then do
          let pp ← version prospective.public
          pure (pp.eq spec)
        else pure false
      pure (!c2)

def compareArbitrary (prospective : Ver) (spec : Str) : R Bool :=
  pure (lowerStr prospective.str == lowerStr spec)

def Spec.compare (sp : Spec) (prospective : Ver) : R Bool :=
  match sp.op with
  | .compatible => compareCompatible prospective sp.ver
  | .eq => compareEqual prospective sp.ver
  | .ne => compareNotEqual prospective sp.ver
  | .le => compareLE prospective sp.ver
  | .ge => compareGE prospective sp.ver
  | .lt => compareLT prospective sp.ver
  | .gt => compareGT prospective sp.ver
  | .arbitrary => compareArbitrary prospective sp.ver

/-! ## `.prereleases`, `contains`, `filter` -/

/-- the `prereleases` property given the stored override `_prereleases` -/
def Spec.prereleases (sp : Spec) (override : Option Bool) : R Bool :=
  match override with
  | some b => pure b
  | none =>
    if sp.op != .ne then do
      let vtext := if sp.op == .eq && endsWith sp.ver [46, 42] then sp.ver.take (sp.ver.length - 2) else sp.ver
      -- `try: Version(version) except InvalidVersion: return False` (the text of `===` need not be a version)
      match scan vtext with
      | some v => pure v.isPre
      | none => pure false
    else pure false

/-- `Specifier.contains(item, prereleases)` for an already coerced candidate -/
def Spec.contains (sp : Spec) (override : Option Bool) (cand : Ver) (pre : Option Bool) : R Bool := do
  let pre ← match pre with
    | some b => pure b
    | none => sp.prereleases override
  if cand.isPre && !pre then pure false
  else sp.compare cand

/-- `Specifier.filter`: items carry a tag (their identity); returns the tags yielded, in order -/
def Spec.filterLoop {α} (sp : Spec) (override pre : Option Bool) :
    List (α × Ver) → (yielded : List α) → (found : List α) → R (List α × List α)
  | [], y, f => pure (y, f)
  | (tag, v) :: rest, y, f => do
    let c ← sp.contains override v (some (pre.getD true))
    if c then do
      let deferred ← if v.isPre then
          (if pre == some true then pure false else do
            let own ← sp.prereleases override
            pure (!own))
        else pure false
      if deferred then sp.filterLoop override pre rest y (f ++ [tag])
      else sp.filterLoop override pre rest (y ++ [tag]) f
    else sp.filterLoop override pre rest y f

def Spec.filter {α} (sp : Spec) (override pre : Option Bool) (items : List (α × Ver)) : R (List α) := do
  -- `if prereleases is None: prereleases = self._prereleases` (an explicit override acts like the argument)
  let pre := match pre with
    | some b => some b
    | none => override
  let (y, f) ← sp.filterLoop override pre items [] []
  if y.isEmpty && !f.isEmpty then pure f else pure y

/-- `_canonical_spec`: the key of `__eq__` / `__hash__` -/
def Spec.canonical (sp : Spec) : R (Op × Str) := do
  -- `===`: the text, case-folded (`str.lower`, ASCII here as in `_compare_arbitrary`), nothing else
  if sp.op == .arbitrary then pure (sp.op, lowerStr sp.ver) else
  match canonicalizeVersion sp.ver (sp.op != .compatible) with
  | some c => pure (sp.op, c)
  | none => .error "InvalidVersion"

end S
