/-!
# Py — Python value semantics used by the model

Strings are lists of code points (`Str = List Nat`) so that NUL, newlines and
lone surrogates survive the protocol.  Everything here is total and
import-free (the driver links against it).
-/
namespace Py

abbrev Str := List Nat

def ofString (s : String) : Str := s.toList.map Char.toNat
def toStringLossy (s : Str) : String := String.ofList (s.map Char.ofNat)

def isDigit (c : Nat) : Bool := 48 ≤ c && c ≤ 57
def isLowerAscii (c : Nat) : Bool := 97 ≤ c && c ≤ 122
def isUpperAscii (c : Nat) : Bool := 65 ≤ c && c ≤ 90
def isAlphaAscii (c : Nat) : Bool := isLowerAscii c || isUpperAscii c
def isAlnumAscii (c : Nat) : Bool := isDigit c || isAlphaAscii c
/-- ASCII-only lower-casing (Python's `str.lower` restricted to ASCII input). -/
def lowerAscii (c : Nat) : Nat := if isUpperAscii c then c + 32 else c
def lowerStr (s : Str) : Str := s.map lowerAscii
/-- the six ASCII whitespace characters plus FS/GS/RS/US, which `str.isspace` and `\s` accept -/
def isSpaceAscii (c : Nat) : Bool := c == 32 || (9 ≤ c && c ≤ 13) || (28 ≤ c && c ≤ 31)

/-- Python's `str.isspace` for one code point (Unicode 15 white space incl. FS/GS/RS/US), used by
`str.strip()` / `str.split()` without argument -/
def isSpacePy (c : Nat) : Bool :=
  (9 ≤ c && c ≤ 13) || (28 ≤ c && c ≤ 32) || c == 0x85 || c == 0xa0 || c == 0x1680 ||
  (0x2000 ≤ c && c ≤ 0x200a) || c == 0x2028 || c == 0x2029 || c == 0x202f || c == 0x205f || c == 0x3000

/-- `s.strip()` -/
def strip (s : Str) : Str := ((s.dropWhile isSpacePy).reverse.dropWhile isSpacePy).reverse

/-! ## decimal -/

/-- digits of `n`, most significant first, accumulated -/
def decAux : Nat → Nat → Str → Str
  | 0, _, acc => acc
  | fuel+1, n, acc =>
    if n < 10 then (48 + n) :: acc else decAux fuel (n / 10) ((48 + n % 10) :: acc)

/-- Python `str(n)` for a non-negative int -/
def dec (n : Nat) : Str := decAux (n + 1) n []

/-- value of a digit string (Python `int(s)` on ASCII digits) -/
def undecAux : Str → Nat → Nat
  | [], acc => acc
  | c :: cs, acc => undecAux cs (acc * 10 + (c - 48))
def undec (s : Str) : Nat := undecAux s 0

/-- split off the maximal digit prefix -/
def spanDigits : Str → Str × Str
  | [] => ([], [])
  | c :: cs => if isDigit c then let (d, r) := spanDigits cs; (c :: d, r) else ([], c :: cs)

/-! ## split / join -/

/-- `s.split(sep)` for a one-character separator: always at least one piece -/
def splitOn (sep : Nat) : Str → List Str
  | [] => [[]]
  | c :: cs =>
    if c == sep then [] :: splitOn sep cs
    else match splitOn sep cs with
      | [] => [[c]]
      | p :: ps => (c :: p) :: ps

/-- split on any character satisfying `p` (like `re.split("[...]", s)`) -/
def splitBy (p : Nat → Bool) : Str → List Str
  | [] => [[]]
  | c :: cs =>
    if p c then [] :: splitBy p cs
    else match splitBy p cs with
      | [] => [[c]]
      | q :: qs => (c :: q) :: qs

def join (sep : Str) : List Str → Str
  | [] => []
  | [x] => x
  | x :: xs => x ++ sep ++ join sep xs

def startsWith : Str → Str → Bool
  | _, [] => true
  | [], _ :: _ => false
  | c :: cs, p :: ps => c == p && startsWith cs ps

def endsWith (s suf : Str) : Bool := startsWith s.reverse suf.reverse

def stripBy (p : Nat → Bool) (s : Str) : Str :=
  ((s.dropWhile p).reverse.dropWhile p).reverse

/-- code-point lexicographic comparison (Python `str` order) -/
def strOrd : Str → Str → Ordering
  | [], [] => .eq
  | [], _ :: _ => .lt
  | _ :: _, [] => .gt
  | a :: as, b :: bs => (compare a b).then (strOrd as bs)

def strLt (a b : Str) : Bool := match strOrd a b with | .lt => true | _ => false
def strLe (a b : Str) : Bool := match strOrd a b with | .gt => false | _ => true

/-- insertion sort (stable), the model of `sorted()` for a total order given as `le` -/
def insertSorted {α} (le : α → α → Bool) (x : α) : List α → List α
  | [] => [x]
  | y :: ys => if le x y then x :: y :: ys else y :: insertSorted le x ys
def sortBy {α} (le : α → α → Bool) (l : List α) : List α := l.foldr (insertSorted le) []

/-! ## protocol encoding

A string is sent as code points in lower-case hex separated by `.`; the empty
string is `-`; Python `None` is `~`. -/

def hexDigit (n : Nat) : Char :=
  if n < 10 then Char.ofNat (48 + n) else Char.ofNat (87 + n)

def hexAux : Nat → Nat → List Char → List Char
  | 0, _, acc => acc
  | fuel+1, n, acc => if n < 16 then hexDigit n :: acc else hexAux fuel (n / 16) (hexDigit (n % 16) :: acc)
def hex (n : Nat) : String := String.ofList (hexAux 8 n [])

def encS (s : Str) : String :=
  if s.isEmpty then "-" else ".".intercalate (s.map hex)

def unhexChar (c : Char) : Option Nat :=
  if '0' ≤ c ∧ c ≤ '9' then some (c.toNat - 48)
  else if 'a' ≤ c ∧ c ≤ 'f' then some (c.toNat - 87)
  else none

def unhex (s : String) : Option Nat :=
  if s.isEmpty then none else
  s.toList.foldl (fun acc c => match acc, unhexChar c with
    | some a, some d => some (a * 16 + d)
    | _, _ => none) (some 0)

def decS (s : String) : Option Str :=
  if s == "-" then some [] else
  (s.splitOn ".").foldr (fun p acc => match unhex p, acc with
    | some n, some l => some (n :: l)
    | _, _ => none) (some [])

/-- optional string: `~` is `None` -/
def decOS (s : String) : Option (Option Str) :=
  if s == "~" then some none else (decS s).map some

def encOS : Option Str → String
  | none => "~"
  | some s => encS s

def encB (b : Bool) : String := if b then "1" else "0"
def encNats (l : List Nat) : String := ",".intercalate (l.map toString)

end Py
