import PkgModel.PyRt
import PkgModel.Rx
import PkgModel.Names
/-!
# PyRx — run-time primitives for compiled regular expressions, full `str.lower`, sets

Second part of the shallow Python run-time (`PyRt.lean` is the first).  The translator
(`harness/translators/pysrc.py`, blocks marked `x2`) resolves every *compiled pattern* a selected function uses at
translation time to data that is regenerated from the source on every run:

* a pattern registered with `translate.regex_source` (`_validate_regex`, `_normalized_regex`, …) becomes
  `rx_test Gen.<Name>.supported Gen.<Name>.ranges Gen.<Name>.rx s` — acceptance by the verified derivative matcher
  `Rx.accepts` on the regenerated regular expression (anchors are part of the generated term).  Only the
  truth value of `pat.match(s)` / `pat.search(s)` is available: the match object has no groups.
* a pattern whose *structure* is measured by `harness/translators/names.py` (`<atom>+`, `^<atom>*$`, `(<atom>+)(<atom>*)`)
  becomes one of the structure-specific primitives below, applied to the measured character table of
  `Gen.NameTables`; each takes the generated `…StructureOk` flag and refuses to run when it is false.

`str.lower` for arbitrary strings (`str_lower_full`) is the per-code-point table regenerated from the running
interpreter (`Names.lower`; the context-dependent final form of U+03A3 is outside the table).

Sets (`set()`, `.add`, `frozenset(...)`) are records `obj "set"/"frozenset" [("items", list)]` holding the members
in insertion order without duplicates modulo the equality function the translator passes in (the translated
`__eq__` of the member class, or `==` of plain values).  CPython's hash-table order is *not* modelled: the wire format
sorts the members, and the theorems speak about the insertion-ordered list.  Trusted: `__hash__` agrees with `__eq__`
on the members (for `Tag`: `Src.Tag.__hash___agrees`).
-/
namespace PyRx
open PyRt Py

/-- a match object without capture groups (only its truth value / `is None` can be used) -/
def matchNoGroups : PyVal := .obj "re.Match" []

/-- `pat.match(s)` / `pat.search(s)` for an anchored pattern regenerated as `Gen.<Name>` -/
def rx_test (supported : Bool) (ranges : List (Nat × Nat × Nat)) (rx : Rx.R) (s : PyVal) : M PyVal :=
  if !supported then throw "PyRtUnsupported" else
  match s with
  | .str s => pure (if Rx.accepts ranges rx s then matchNoGroups else .none)
  | _ => throw typeError

/-! ### `<atom>+` with `sub` -/

/-- replace every maximal run of characters of `cls` by `repl` (the flag: the previous character was in a run) -/
def subRuns (cls : List Nat) (repl : Str) : Str → Bool → Str
  | [], _ => []
  | c :: cs, inRun =>
    if cls.contains c then (if inRun then subRuns cls repl cs true else repl ++ subRuns cls repl cs true)
    else c :: subRuns cls repl cs false

/-- `pat.sub(repl, s)` for a pattern `<atom>+` whose atom accepts exactly `cls`; `repl` without `\` -/
def sub_class_plus (ok : Bool) (cls : List Nat) (repl s : PyVal) : M PyVal :=
  if !ok then throw "PyRtUnsupported" else
  match repl, s with
  | .str r, .str s => if r.contains 92 then throw "PyRtUnsupported" else pure (.str (subRuns cls r s false))
  | _, _ => throw typeError

/-! ### `^<atom>*$` / `^<atom>*\Z` with `match` -/

def inRanges (t : List (Nat × Nat)) (c : Nat) : Bool := t.any fun r => r.1 ≤ c && c ≤ r.2

/-- every character is in the class; with a `$` anchor one trailing newline is let through -/
def classStar (t : List (Nat × Nat)) (dollar : Bool) : Str → Bool
  | [] => true
  | c :: r => (dollar && c == 10 && r.isEmpty) || (inRanges t c && classStar t dollar r)

def match_class_star (ok : Bool) (t : List (Nat × Nat)) (dollar : Bool) (s : PyVal) : M PyVal :=
  if !ok then throw "PyRtUnsupported" else
  match s with
  | .str s => pure (if classStar t dollar s then matchNoGroups else .none)
  | _ => throw typeError

/-! ### `(<atom>+)(<atom>*)` with `match` -/

def inTable (tab : List (Nat × Nat × Nat)) (c : Nat) : Bool := tab.any fun r => r.1 ≤ c && c ≤ r.2.1

/-- groups: the maximal non-empty prefix of first-atom characters, then the maximal run of second-atom characters
(`notSecond`: what the second atom rejects) -/
def match_two_runs (ok : Bool) (tab : List (Nat × Nat × Nat)) (notSecond : List (Nat × Nat)) (s : PyVal) : M PyVal :=
  if !ok then throw "PyRtUnsupported" else
  match s with
  | .str s =>
    let ds := s.takeWhile (inTable tab)
    if ds.isEmpty then pure .none
    else pure (.obj "re.Match" [("groups", .tuple [.str ds, .str ((s.dropWhile (inTable tab)).takeWhile fun c => !inRanges notSecond c)])])
  | _ => throw typeError

/-! ### literal patterns that are a sequence of greedy class runs and literal characters

The translator parses the pattern text with the interpreter's own regex parser, sweeps every character class over all
code points, and checks that the greedy reading is the only one (a run is never followed by a character / class it
could itself consume); the items below are what it emits.  `re.match`: a prefix of the string has to match. -/

inductive SeqItem where
  | lit (c : Nat)
  /-- `[class]+`, captured as a group or not -/
  | run (capture : Bool) (ranges : List (Nat × Nat))

def matchSeq : List SeqItem → Str → List Str → Option (List Str)
  | [], _, gs => some gs.reverse
  | .lit _ :: _, [], _ => Option.none
  | .lit c :: rest, x :: xs, gs => if x == c then matchSeq rest xs gs else Option.none
  | .run cap t :: rest, s, gs =>
    let ds := s.takeWhile (inRanges t)
    if ds.isEmpty then Option.none else matchSeq rest (s.dropWhile (inRanges t)) (if cap then ds :: gs else gs)

/-- `re.match(<literal>, s)` for such a pattern -/
def match_seq (items : List SeqItem) (s : PyVal) : M PyVal :=
  match s with
  | .str s => pure (match matchSeq items s [] with
    | some gs => .obj "re.Match" [("groups", .tuple (gs.map .str))]
    | Option.none => .none)
  | _ => throw typeError

/-! ### `str.lower` by the regenerated table -/

def str_lower_full : PyVal → M PyVal
  | .str s => pure (.str (Names.lower s))
  | _ => throw attributeError

/-! ### more `str` methods -/

/-- `s.count(c)` for a one-character argument -/
def str_count (s c : PyVal) : M PyVal :=
  match s, c with
  | .str s, .str [c] => pure (.int (s.count c))
  | .str _, .str _ => throw "PyRtUnsupported"
  | .str _, _ => throw typeError
  | _, _ => throw attributeError

/-! ### a module-level dict of constants (its current contents as an association list) -/

/-- `D.get(k, d)` -/
def const_dict_get (kvs : List (PyVal × PyVal)) (k d : PyVal) : M PyVal :=
  match kvs.find? (fun kv => PyVal.eq kv.1 k) with
  | some kv => pure kv.2
  | Option.none => pure d

/-! ### sets -/

def mkSet (kind : String) (l : List PyVal) : PyVal := .obj kind [("items", .list l)]

def set_new : M PyVal := pure (mkSet "set" [])

/-- is some stored member equal to `x`?  (`stored == x`, as the hash table probes) -/
def memM (eqf : PyVal → PyVal → M PyVal) (x : PyVal) : List PyVal → M Bool
  | [] => pure false
  | y :: ys => do if truthy (← eqf y x) then pure true else memM eqf x ys

/-- first occurrences, in order -/
def dedupM (eqf : PyVal → PyVal → M PyVal) : List PyVal → List PyVal → M (List PyVal)
  | acc, [] => pure acc
  | acc, x :: xs => do if (← memM eqf x acc) then dedupM eqf acc xs else dedupM eqf (acc ++ [x]) xs

def setItems : PyVal → Option (List PyVal)
  | .obj "set" [("items", .list l)] => some l
  | .obj "frozenset" [("items", .list l)] => some l
  | _ => Option.none

/-- `s.add(x)` on an owned `set` local -/
def set_add (eqf : PyVal → PyVal → M PyVal) (s x : PyVal) : M PyVal :=
  match s with
  | .obj "set" [("items", .list l)] => do
    if (← memM eqf x l) then pure s else pure (mkSet "set" (l ++ [x]))
  | _ => throw attributeError

/-- `frozenset(xs)` / `set(xs)`: a set is relabelled, any other iterable is deduplicated with `eqf` -/
def set_of (kind : String) (eqf : PyVal → PyVal → M PyVal) (xs : PyVal) : M PyVal :=
  match setItems xs with
  | some l => pure (mkSet kind l)
  | Option.none => do return mkSet kind (← dedupM eqf [] (← iterate xs))

/-- `==` of plain values as an equality function for sets of numbers / strings / tuples of those -/
def eq_plain (a b : PyVal) : M PyVal := pure (PyRt.eq a b)

/-- the members, in the modelled order (`for x in s`, `sorted(s)`, `len(s)`) -/
def set_iterate (s : PyVal) : M (List PyVal) :=
  match setItems s with
  | some l => pure l
  | Option.none => iterate s

end PyRx
