import PkgModel.Py
/-!
# PyRt — a small shallow Python run-time

The target of `harness/translators/pysrc.py`: selected pure functions of `packaging` are translated
statement by statement into Lean `do` blocks over `Except PyExc` whose values are `PyVal`s; everything
the translated code calls that is *not* itself translated (builtins, `str`/`list` methods, `itertools`)
lives here.  Total, computable, import-free (the driver links it).

Fidelity to CPython is the trusted part; it is sampled on every run by the `src.call` correspondence
(translated function in the driver vs the real function).  Restrictions (each primitive mirrors CPython
on the values that can reach it from the selected functions):

* `str.isdigit`, `str.lower`, `str.upper` are ASCII-only (the strings reaching them are matched by
  `re.ASCII` patterns or are rendered versions); `int(str)` accepts ASCII digits with an optional sign and
  no white space / underscores; there is no `sys.get_int_max_str_digits()` limit (known finding F07).
* iterators (`itertools.*`, generator expressions, `reversed`, `enumerate`) are materialised when they are
  created (`PyVal.iter`); this is the same as CPython whenever they are consumed completely before anything
  else can raise, which the translator's subset guarantees for the selected functions except that an
  exception raised by a *later* element is raised at creation instead of at consumption.
* `bool` is a subclass of `int` for `==`, ordering and arithmetic, as in CPython.
* objects are records `obj cls fields`; `==` on objects is field-wise unless the translator dispatches to a
  translated `__eq__` (it does for instances of the tracked classes); a rich-comparison method answering
  `NotImplemented` ends in `TypeError` (`<`, …) or in `False`/`True` (`==`/`!=`): the reflected method of a foreign
  right operand is not tried.
* `str()` / f-string formatting of a value whose class is not known statically handles numbers, strings and `None`
  and *refuses* objects (`PyRtUnsupported`), so that an object reaching such a site shows up as a disagreement.
* `hash(v)` is the constant 0 (faithful where hashes are only compared next to the values themselves).
* regular expressions: only the pattern texts with a hand-written matcher below (`re_match`, `re_search`).
* reads of the world outside the translated functions (`sys.version_info`, `platform_tags()`, …) come from an
  explicit environment table `Env`; a key that is not in the table is `PyRtEnvMissing`.
* an exception is the *name of its class*; `except C` catches the classes listed under `C` in `bases`.
* `dict`s are association lists in insertion order with `==` on keys (the keys that occur are `str`); `dict.update` only
  with a dict argument; `PyVal.eq` does not compare dicts.
* functions of the library that are modelled elsewhere are reached through an `Oracle` (a function of the call's name
  and arguments, so that theorems can quantify over it; the driver builds one from a table recorded on the real code).
* recursion and `while` loops are bounded by fuel taken from the size of the arguments (`fuelOf`); running out is
  `RecursionError`.  The equivalence theorems show that this never happens on the values of the model's types.
* `hash_sym` keeps `hash(v)` symbolic as `("__hash__", v)`; `src.call` patches `hash` in the module under test alike.
* `str.replace` with an empty pattern is outside the run-time.
* compiled regular expressions resolved to regenerated data, full `str.lower`, sets: `PkgModel/PyRx.lean`.
-/
namespace PyRt
open Py

abbrev PyExc := String
abbrev M := Except PyExc

inductive PyVal
  | none
  | bool (b : Bool)
  | int (i : Int)
  | str (s : Str)
  | list (l : List PyVal)
  | tuple (l : List PyVal)
  /-- an iterator that has been materialised (generator expression, `itertools`, `reversed`, …) -/
  | iter (l : List PyVal)
  /-- `_structures.NegativeInfinity` / `Infinity` -/
  | negInf
  | posInf
  /-- instance of a class: class name and instance attributes -/
  | obj (cls : String) (fields : List (String × PyVal))
  /-- not a Python value: what a local holds before its first assignment (reading it is `UnboundLocalError`) -/
  | unbound
  /-- the singleton `NotImplemented` -/
  | notImpl
  /-- x3: a `dict`, items in insertion order (keys pairwise distinct under `==`) -/
  | dict (kvs : List (PyVal × PyVal))
  deriving Repr, Inhabited

instance : Coe Bool PyVal := ⟨PyVal.bool⟩

/-! ## exceptions -/

def typeError : PyExc := "TypeError"
def valueError : PyExc := "ValueError"
def indexError : PyExc := "IndexError"
def attributeError : PyExc := "AttributeError"
def assertionError : PyExc := "AssertionError"

/-- `raise C` caught by `except D`?  (class, its bases), as far as the selected functions need -/
def bases : PyExc → List PyExc
  | "InvalidVersion" => ["ValueError", "Exception"]
  | "InvalidSpecifier" => ["ValueError", "Exception"]
  | "InvalidMarker" => ["ValueError", "Exception"]
  | "UndefinedComparison" => ["ValueError", "Exception"]
  | "UndefinedEnvironmentName" => ["ValueError", "Exception"]
  | "InvalidWheelFilename" => ["ValueError", "Exception"]
  | "InvalidSdistFilename" => ["ValueError", "Exception"]
  | "InvalidName" => ["ValueError", "Exception"]
  | "InvalidLicenseExpression" => ["ValueError", "Exception"]
  | "IndexError" => ["LookupError", "Exception"]
  | "KeyError" => ["LookupError", "Exception"]
  | "UnicodeEncodeError" => ["UnicodeError", "ValueError", "Exception"]
  | "UnicodeDecodeError" => ["UnicodeError", "ValueError", "Exception"]
  | _ => ["Exception"]

def catches (handler : PyExc) (e : PyExc) : Bool := e == handler || (bases e).contains handler

/-! ## truth, equality, order -/

def truthy : PyVal → Bool
  | .none => false
  | .bool b => b
  | .int i => i != 0
  | .str s => !s.isEmpty
  | .list l => !l.isEmpty
  | .tuple l => !l.isEmpty
  | .dict kvs => !kvs.isEmpty
  | _ => true

def not_ (v : PyVal) : PyVal := .bool (!truthy v)

def isNone : PyVal → Bool
  | .none => true
  | _ => false

mutual
/-- Python `==` (structural; `True == 1`; objects field-wise) -/
def PyVal.eq : PyVal → PyVal → Bool
  | .none, .none => true
  | .bool a, .bool b => a == b
  | .bool a, .int b => (if a then 1 else 0) == b
  | .int a, .bool b => a == (if b then 1 else 0)
  | .int a, .int b => a == b
  | .str a, .str b => a == b
  | .list a, .list b => eqList a b
  | .tuple a, .tuple b => eqList a b
  | .negInf, .negInf => true
  | .posInf, .posInf => true
  | .obj c f, .obj d g => c == d && eqFields f g
  | _, _ => false
def eqList : List PyVal → List PyVal → Bool
  | [], [] => true
  | a :: as, b :: bs => PyVal.eq a b && eqList as bs
  | _, _ => false
def eqFields : List (String × PyVal) → List (String × PyVal) → Bool
  | [], [] => true
  | (k, a) :: as, (l, b) :: bs => k == l && PyVal.eq a b && eqFields as bs
  | _, _ => false
end

def eq (a b : PyVal) : PyVal := .bool (PyVal.eq a b)
def ne (a b : PyVal) : PyVal := .bool (!PyVal.eq a b)
def is_none (a : PyVal) : PyVal := .bool (isNone a)
def is_not_none (a : PyVal) : PyVal := .bool (!isNone a)

/-- the value of `a or b` / `a and b` once both are evaluated is decided by the translator with `truthy`
(short circuit); these are the total versions for already evaluated operands -/
def or_ (a b : PyVal) : PyVal := if truthy a then a else b
def and_ (a b : PyVal) : PyVal := if truthy a then b else a

/-! ## iteration -/

/-- `iter(v)` materialised: the elements a `for` loop sees -/
def iterate : PyVal → M (List PyVal)
  | .list l => pure l
  | .tuple l => pure l
  | .iter l => pure l
  | .str s => pure (s.map fun c => .str [c])
  | _ => throw typeError

/-- simple structural `mapM` (easier to reason about than the tail-recursive core one) -/
def mapM (f : PyVal → M PyVal) : List PyVal → M (List PyVal)
  | [] => pure []
  | x :: xs => do
    let y ← f x
    let ys ← mapM f xs
    pure (y :: ys)

/-- elements of `l` while `f` is truthy -/
def takeWhileM (f : PyVal → M PyVal) : List PyVal → M (List PyVal)
  | [] => pure []
  | x :: xs => do
    if truthy (← f x) then
      let r ← takeWhileM f xs
      pure (x :: r)
    else pure []

def dropWhileM (f : PyVal → M PyVal) : List PyVal → M (List PyVal)
  | [] => pure []
  | x :: xs => do
    if truthy (← f x) then dropWhileM f xs else pure (x :: xs)

def filterM (f : PyVal → M PyVal) : List PyVal → M (List PyVal)
  | [] => pure []
  | x :: xs => do
    let keep := truthy (← f x)
    let r ← filterM f xs
    pure (if keep then x :: r else r)

/-- `any(f(x) for x in l)`: stops at the first truthy element, as the generator does -/
def anyM (f : PyVal → M PyVal) : List PyVal → M Bool
  | [] => pure false
  | x :: xs => do
    if truthy (← f x) then pure true else anyM f xs

def allM (f : PyVal → M PyVal) : List PyVal → M Bool
  | [] => pure true
  | x :: xs => do
    if truthy (← f x) then allM f xs else pure false

/-- `itertools.takewhile(f, xs)` -/
def takewhile (f : PyVal → M PyVal) (xs : PyVal) : M PyVal := do
  let l ← iterate xs
  return .iter (← takeWhileM f l)

/-- `itertools.dropwhile(f, xs)` -/
def dropwhile (f : PyVal → M PyVal) (xs : PyVal) : M PyVal := do
  let l ← iterate xs
  return .iter (← dropWhileM f l)

/-- `(f(x) for x in xs)` / `[f(x) for x in xs]` without a condition: `genexp`, wrapped by the consumer -/
def genexp (f : PyVal → M PyVal) (xs : PyVal) : M PyVal := do
  let l ← iterate xs
  return .iter (← mapM f l)

/-- `(f(x) for x in xs if c(x))` -/
def genexpIf (f c : PyVal → M PyVal) (xs : PyVal) : M PyVal := do
  let l ← iterate xs
  return .iter (← mapM f (← filterM c l))

/-- `any(f(x) for x in xs)` -/
def any_gen (f : PyVal → M PyVal) (xs : PyVal) : M PyVal := do
  let l ← iterate xs
  return .bool (← anyM f l)

def all_gen (f : PyVal → M PyVal) (xs : PyVal) : M PyVal := do
  let l ← iterate xs
  return .bool (← allM f l)

def any_ (xs : PyVal) : M PyVal := do
  return .bool ((← iterate xs).any truthy)

def all_ (xs : PyVal) : M PyVal := do
  return .bool ((← iterate xs).all truthy)

def list_ (xs : PyVal) : M PyVal := do return .list (← iterate xs)
def tuple_ (xs : PyVal) : M PyVal := do return .tuple (← iterate xs)
def reversed (xs : PyVal) : M PyVal :=
  match xs with
  | .list l => pure (.iter l.reverse)
  | .tuple l => pure (.iter l.reverse)
  | .str s => pure (.iter (s.reverse.map fun c => .str [c]))
  | _ => throw typeError

/-- `itertools.chain.from_iterable(xs)` -/
def chain_from_iterable (xs : PyVal) : M PyVal := do
  let l ← iterate xs
  let ls ← l.mapM iterate
  return .iter ls.flatten

/-- `map(f, xs)` -/
def map_ (f : PyVal → M PyVal) (xs : PyVal) : M PyVal := genexp f xs

/-- `range(start, stop, step)` as a materialised iterator -/
def rangeUp : Nat → Int → Int → Int → List PyVal
  | 0, _, _, _ => []
  | fuel + 1, i, stop, step => if i < stop then .int i :: rangeUp fuel (i + step) stop step else []
def rangeDown : Nat → Int → Int → Int → List PyVal
  | 0, _, _, _ => []
  | fuel + 1, i, stop, step => if i > stop then .int i :: rangeDown fuel (i + step) stop step else []
def range3 (a b c : PyVal) : M PyVal :=
  match a, b, c with
  | .int a, .int b, .int c =>
    if c == 0 then throw valueError
    else if c > 0 then pure (.iter (rangeUp (b - a).toNat a b c))
    else pure (.iter (rangeDown (a - b).toNat a b c))
  | _, _, _ => throw typeError
def range2 (a b : PyVal) : M PyVal := range3 a b (.int 1)
def range1 (b : PyVal) : M PyVal := range3 (.int 0) b (.int 1)

/-- `enumerate(xs)` -/
def enumerateFrom : Nat → List PyVal → List PyVal
  | _, [] => []
  | n, x :: xs => .tuple [.int n, x] :: enumerateFrom (n + 1) xs
def enumerate (xs : PyVal) : M PyVal := do
  return .iter (enumerateFrom 0 (← iterate xs))

/-! ## numbers -/

def asInt : PyVal → Option Int
  | .int i => some i
  | .bool b => some (if b then 1 else 0)
  | _ => Option.none

def add (a b : PyVal) : M PyVal :=
  match a, b with
  | .str s, .str t => pure (.str (s ++ t))
  | .list s, .list t => pure (.list (s ++ t))
  | .tuple s, .tuple t => pure (.tuple (s ++ t))
  | a, b => match asInt a, asInt b with
    | some i, some j => pure (.int (i + j))
    | _, _ => throw typeError

def sub (a b : PyVal) : M PyVal :=
  match asInt a, asInt b with
  | some i, some j => pure (.int (i - j))
  | _, _ => throw typeError

/-- `a * b` for ints and for sequence repetition -/
def mul (a b : PyVal) : M PyVal :=
  match a, b with
  | .list l, b => (match asInt b with
    | some n => pure (.list (List.replicate n.toNat l).flatten)
    | Option.none => throw typeError)
  | .str s, b => (match asInt b with
    | some n => pure (.str (List.replicate n.toNat s).flatten)
    | Option.none => throw typeError)
  | a, b => match asInt a, asInt b with
    | some i, some j => pure (.int (i * j))
    | _, _ => throw typeError

/-! ## order: Python's rich comparison on the kinds that reach it -/

inductive Cmp | lt | le | gt | ge
  deriving DecidableEq, Repr

def Cmp.onInt : Cmp → Int → Int → Bool
  | .lt, a, b => a < b | .le, a, b => a ≤ b | .gt, a, b => a > b | .ge, a, b => a ≥ b

/-- the answer when two sequences agree up to the shorter length -/
def Cmp.onLen : Cmp → Nat → Nat → Bool
  | .lt, a, b => a < b | .le, a, b => a ≤ b | .gt, a, b => a > b | .ge, a, b => a ≥ b

def strCmp (op : Cmp) : Str → Str → Bool
  | [], t => op.onLen 0 t.length
  | _ :: s, [] => op.onLen (s.length + 1) 0
  | a :: s, b :: t => if a == b then strCmp op s t else op.onLen a b

mutual
/-- `a op b` through `__lt__`/… and the reflected method; `TypeError` when both return `NotImplemented` -/
def cmp (op : Cmp) : PyVal → PyVal → M Bool
  | .str a, .str b => pure (strCmp op a b)
  | .list a, .list b => cmpSeq op a b
  | .tuple a, .tuple b => cmpSeq op a b
  -- `NegativeInfinityType`: `__lt__`/`__le__` are constant True, `__gt__`/`__ge__` constant False, whatever `other` is
  | .negInf, _ => pure (match op with | .lt => true | .le => true | .gt => false | .ge => false)
  | .posInf, _ => pure (match op with | .lt => false | .le => false | .gt => true | .ge => true)
  -- the left operand's method returns `NotImplemented`; the reflected method of the sentinel answers
  | _, .negInf => pure (match op with | .lt => false | .le => false | .gt => true | .ge => true)
  | _, .posInf => pure (match op with | .lt => true | .le => true | .gt => false | .ge => false)
  | a, b => match asInt a, asInt b with
    | some i, some j => pure (op.onInt i j)
    | _, _ => throw typeError
/-- sequence comparison: the first position where `==` fails decides; otherwise the lengths -/
def cmpSeq (op : Cmp) : List PyVal → List PyVal → M Bool
  | [], t => pure (op.onLen 0 t.length)
  | _ :: s, [] => pure (op.onLen (s.length + 1) 0)
  | a :: s, b :: t => if PyVal.eq a b then cmpSeq op s t else cmp op a b
end

def lt (a b : PyVal) : M PyVal := do return .bool (← cmp .lt a b)
def le (a b : PyVal) : M PyVal := do return .bool (← cmp .le a b)
def gt (a b : PyVal) : M PyVal := do return .bool (← cmp .gt a b)
def ge (a b : PyVal) : M PyVal := do return .bool (← cmp .ge a b)

/-- two-argument `max(a, b)`: `b` if `b > a` else `a` -/
def max2 (a b : PyVal) : M PyVal := do
  if (← cmp .gt b a) then pure b else pure a

def min2 (a b : PyVal) : M PyVal := do
  if (← cmp .lt b a) then pure b else pure a

/-- `max(xs, default=d)` -/
def maxList : PyVal → List PyVal → M PyVal
  | m, [] => pure m
  | m, x :: xs => do
    if (← cmp .gt x m) then maxList x xs else maxList m xs
def max_default (xs d : PyVal) : M PyVal := do
  match (← iterate xs) with
  | [] => pure d
  | x :: rest => maxList x rest

/-! ## sequences -/

def len : PyVal → M PyVal
  | .str s => pure (.int s.length)
  | .list l => pure (.int l.length)
  | .tuple l => pure (.int l.length)
  | _ => throw typeError

/-- index normalisation: negative counts from the end -/
def normIndex (n : Nat) (i : Int) : Option Nat :=
  if 0 ≤ i then (if i.toNat < n then some i.toNat else Option.none)
  else (if (-i).toNat ≤ n then some (n - (-i).toNat) else Option.none)

def getitem (a i : PyVal) : M PyVal :=
  match asInt i with
  | Option.none => throw typeError
  | some k =>
    match a with
    | .list l => (match normIndex l.length k with | some j => pure (l.getD j .none) | Option.none => throw indexError)
    | .tuple l => (match normIndex l.length k with | some j => pure (l.getD j .none) | Option.none => throw indexError)
    | .str s => (match normIndex s.length k with | some j => pure (.str [s.getD j 0]) | Option.none => throw indexError)
    | _ => throw typeError

/-- slice bound clamping for step 1: `None` → default, negative from the end, clamp to `[0, n]` -/
def clampBound (n : Nat) (dflt : Nat) : PyVal → M Nat
  | .none => pure dflt
  | v => match asInt v with
    | some i => pure (if 0 ≤ i then min i.toNat n else n - min (-i).toNat n)
    | Option.none => throw typeError

def sliceList {α} (l : List α) (lo hi : Nat) : List α := (l.take hi).drop lo

/-- `a[lo:hi]` -/
def getslice (a lo hi : PyVal) : M PyVal :=
  match a with
  | .list l => do let i ← clampBound l.length 0 lo; let j ← clampBound l.length l.length hi; pure (.list (sliceList l i j))
  | .tuple l => do let i ← clampBound l.length 0 lo; let j ← clampBound l.length l.length hi; pure (.tuple (sliceList l i j))
  | .str l => do let i ← clampBound l.length 0 lo; let j ← clampBound l.length l.length hi; pure (.str (sliceList l i j))
  | _ => throw typeError

/-- `x in a` -/
def isInfix : Str → Str → Bool
  | [], sub => sub.isEmpty
  | c :: s, sub => startsWith (c :: s) sub || isInfix s sub

def contains (a x : PyVal) : M Bool :=
  match a with
  | .list l => pure (l.any (PyVal.eq x))
  | .tuple l => pure (l.any (PyVal.eq x))
  | .iter l => pure (l.any (PyVal.eq x))
  | .str s => (match x with | .str t => pure (isInfix s t) | _ => throw typeError)
  | _ => throw typeError

def in_ (x a : PyVal) : M PyVal := do return .bool (← contains a x)
def not_in (x a : PyVal) : M PyVal := do return .bool (!(← contains a x))

/-- `l.append(x)` as a functional update of the (unaliased) local -/
def list_append (l x : PyVal) : M PyVal :=
  match l with
  | .list xs => pure (.list (xs ++ [x]))
  | _ => throw attributeError

def list_extend (l x : PyVal) : M PyVal :=
  match l with
  | .list xs => do return .list (xs ++ (← iterate x))
  | _ => throw attributeError

/-- `l.insert(i, x)`: the index is clamped like a slice bound -/
def list_insert (l i x : PyVal) : M PyVal :=
  match l with
  | .list xs => do
    let k ← clampBound xs.length 0 i
    pure (.list (xs.take k ++ x :: xs.drop k))
  | _ => throw attributeError

/-- `l.remove(x)`: drops the first element equal to `x`, `ValueError` when there is none -/
def removeFirst (x : PyVal) : List PyVal → Option (List PyVal)
  | [] => Option.none
  | y :: ys => if PyVal.eq y x then some ys else (removeFirst x ys).map (y :: ·)
def list_remove (l x : PyVal) : M PyVal :=
  match l with
  | .list xs => (match removeFirst x xs with | some r => pure (.list r) | Option.none => throw valueError)
  | _ => throw attributeError

/-- `a, b, c = v` -/
def unpack (n : Nat) (v : PyVal) : M (List PyVal) := do
  let l ← iterate v
  if l.length == n then pure l else throw valueError

def unpack2 (v : PyVal) : M (PyVal × PyVal) := do
  match (← iterate v) with
  | [a, b] => pure (a, b)
  | _ => throw valueError

def unpack3 (v : PyVal) : M (PyVal × PyVal × PyVal) := do
  match (← iterate v) with
  | [a, b, c] => pure (a, b, c)
  | _ => throw valueError

/-- `head, *rest = v` (`rest` is a new list) -/
def unpackHeadRest (v : PyVal) : M (PyVal × PyVal) := do
  match (← iterate v) with
  | a :: rest => pure (a, .list rest)
  | [] => throw valueError

/-! ## strings -/

def upperAscii (c : Nat) : Nat := if isLowerAscii c then c - 32 else c

def str_lower : PyVal → M PyVal
  | .str s => pure (.str (lowerStr s))
  | _ => throw attributeError

def str_upper : PyVal → M PyVal
  | .str s => pure (.str (s.map upperAscii))
  | _ => throw attributeError

/-- `s.isdigit()` (ASCII) -/
def str_isdigit : PyVal → M PyVal
  | .str s => pure (.bool (!s.isEmpty && s.all isDigit))
  | _ => throw attributeError

def str_startswith (s p : PyVal) : M PyVal :=
  match s, p with
  | .str s, .str p => pure (.bool (startsWith s p))
  | .str s, .tuple ps => (ps.foldr (fun p acc => do
      match p with
      | .str p => if startsWith s p then pure true else acc
      | _ => throw typeError) (pure false)) >>= fun b => pure (.bool b)
  | .str _, _ => throw typeError
  | _, _ => throw attributeError

def str_endswith (s p : PyVal) : M PyVal :=
  match s, p with
  | .str s, .str p => pure (.bool (endsWith s p))
  | .str _, _ => throw typeError
  | _, _ => throw attributeError

/-- `sep.join(xs)`: every element must be a `str` -/
def joinStrs (sep : Str) : List PyVal → M Str
  | [] => pure []
  | [.str x] => pure x
  | .str x :: y :: rest => do return x ++ sep ++ (← joinStrs sep (y :: rest))
  | _ => throw typeError

def str_join (sep xs : PyVal) : M PyVal :=
  match sep with
  | .str sep => do return .str (← joinStrs sep (← iterate xs))
  | _ => throw attributeError

/-- split at every occurrence of a non-empty separator -/
def splitStr (sep : Str) : Nat → Str → Str → List Str
  | 0, cur, rest => [cur.reverse ++ rest]
  | _, cur, [] => [cur.reverse]
  | fuel+1, cur, c :: rest =>
    if startsWith (c :: rest) sep then cur.reverse :: splitStr sep fuel [] ((c :: rest).drop sep.length)
    else splitStr sep fuel (c :: cur) rest

/-- `s.split(sep)` with an explicit separator -/
def str_split (s sep : PyVal) : M PyVal :=
  match s, sep with
  | .str s, .str sep =>
    if sep.isEmpty then throw valueError
    else pure (.list ((splitStr sep (s.length + 1) [] s).map .str))
  | .str _, _ => throw typeError
  | _, _ => throw attributeError

/-- `s.split(c)` for a one-character separator with `maxsplit` -/
def splitOnMax (c : Nat) : Nat → Str → List Str
  | 0, s => [s]
  | _ + 1, [] => [[]]
  | n + 1, x :: xs =>
    if x == c then [] :: splitOnMax c n xs
    else match splitOnMax c (n + 1) xs with
      | [] => [[x]]
      | p :: ps => (x :: p) :: ps

/-- `s.split(sep, maxsplit)` for a one-character separator and `maxsplit ≥ 0` -/
def str_split_max (s sep n : PyVal) : M PyVal :=
  match s, sep, n with
  | .str s, .str [c], .int k => if k < 0 then throw "PyRtUnsupported" else pure (.list ((splitOnMax c k.toNat s).map .str))
  | .str _, .str _, .int _ => throw "PyRtUnsupported"
  | .str _, _, _ => throw typeError
  | _, _, _ => throw attributeError

/-- x3: `s.replace(old, new)` for a non-empty `old` -/
def replaceStr (old new : Str) : Nat → Str → Str
  | 0, s => s
  | _ + 1, [] => []
  | f + 1, c :: cs =>
    if startsWith (c :: cs) old then new ++ replaceStr old new f ((c :: cs).drop old.length)
    else c :: replaceStr old new f cs

/-- `s.replace(old, new)` for a one-character `old` -/
def str_replace (s o n : PyVal) : M PyVal :=
  match s, o, n with
  | .str s, .str [c], .str n => pure (.str (s.flatMap fun x => if x == c then n else [x]))
  | .str s, .str o, .str n =>
    -- x3: a pattern of several characters (left to right, non-overlapping); the empty pattern is not modelled
    if o.isEmpty then throw "PyRtUnsupported" else pure (.str (replaceStr o n (s.length + 1) s))
  | .str _, _, _ => throw typeError
  | _, _, _ => throw attributeError

/-! ### regular expressions: one hand-written matcher per pattern text that the selected functions use.
`re_match pat s` is `re.match(pat, s)`: `None` or a match object holding the groups. -/

/-- `cp\d+(.*)`: `\d` is Unicode-aware in CPython (the strings that reach it are ASCII: run-time restriction);
`.` stops at a newline -/
def rx_cp_digits_rest (s : Str) : Option (List PyVal) :=
  match s with
  | 99 :: 112 :: rest =>
    let dr := spanDigits rest
    if dr.1.isEmpty then Option.none else some [.str (dr.2.takeWhile (· != 10))]
  | _ => Option.none

def re_match (pat : String) (s : PyVal) : M PyVal :=
  match s with
  | .str s =>
    if pat == "cp\\d+(.*)" then
      pure (match rx_cp_digits_rest s with | some gs => .obj "re.Match" [("groups", .tuple gs)] | Option.none => .none)
    else throw "PyRtUnsupported"
  | _ => throw typeError

/-- `m.group(k)` for `k ≥ 1` -/
def match_group (m k : PyVal) : M PyVal :=
  match m, k with
  | .obj "re.Match" [("groups", .tuple gs)], .int k =>
    if 1 ≤ k ∧ k.toNat ≤ gs.length then pure (gs.getD (k.toNat - 1) .none) else throw indexError
  | _, _ => throw attributeError

/-- `s.rpartition(c)` for a one-character separator: `(before, sep, after)` at the last occurrence, `("", "", s)` if none -/
def str_rpartition (s sep : PyVal) : M PyVal :=
  match s, sep with
  | .str s, .str [c] =>
    let rev := s.reverse
    let afterRev := rev.takeWhile (· != c)
    if afterRev.length == rev.length then pure (.tuple [.str [], .str [], .str s])
    else pure (.tuple [.str (rev.drop (afterRev.length + 1)).reverse, .str [c], .str afterRev.reverse])
  | .str _, .str _ => throw "PyRtUnsupported"
  | .str _, _ => throw typeError
  | _, _ => throw attributeError

/-- `^([0-9]+)((?:a|b|c|rc)[0-9]+)$` with `search` (`$` also matches before a final newline) -/
def rx_prefix (item : Str) : Option (List PyVal) :=
  let item := if item.getLast? == some 10 then item.dropLast else item
  let (d1, r) := spanDigits item
  if d1.isEmpty then Option.none else
  let rest : Option (Str × Str) :=
    match r with
    | 97 :: t => some ([97], t)
    | 98 :: t => some ([98], t)
    | 99 :: t => some ([99], t)
    | 114 :: 99 :: t => some ([114, 99], t)
    | _ => Option.none
  match rest with
  | Option.none => Option.none
  | some (l, t) =>
    let (d2, r2) := spanDigits t
    if d2.isEmpty || !r2.isEmpty then Option.none else some [.str d1, .str (l ++ d2)]

/-- `pattern.search(s)` for the compiled patterns (by pattern text) the selected functions use -/
def re_search (pat : String) (s : PyVal) : M PyVal :=
  match s with
  | .str s =>
    if pat == "^([0-9]+)((?:a|b|c|rc)[0-9]+)$" then
      pure (match rx_prefix s with | some gs => .obj "re.Match" [("groups", .tuple gs)] | Option.none => .none)
    else throw "PyRtUnsupported"
  | _ => throw typeError

/-- `m.groups()` -/
def match_groups (m : PyVal) : M PyVal :=
  match m with
  | .obj "re.Match" [("groups", .tuple gs)] => pure (.tuple gs)
  | _ => throw attributeError

/-- the result of a rich-comparison method as the value of `a < b`: `NotImplemented` means the reflected method
would be tried; for the classes of the selected functions that can only end in `TypeError` -/
def cmpResult : PyVal → M PyVal
  | .notImpl => throw typeError
  | v => pure v
/-- the same for `==` / `!=`: both sides declining falls back to identity, which is `False` / `True` for distinct objects -/
def eqResult (dflt : Bool) : PyVal → PyVal
  | .notImpl => .bool dflt
  | v => v

/-- `str(v)` for the values an f-string of the selected functions formats -/
def format : PyVal → M Str
  | .str s => pure s
  | .int i => pure (if i < 0 then 45 :: dec i.natAbs else dec i.toNat)
  | .bool true => pure (ofString "True")
  | .bool false => pure (ofString "False")
  | .none => pure (ofString "None")
  | _ => throw "PyRtUnsupported"

def str_ (v : PyVal) : M PyVal := do return .str (← format v)

/-- non-empty run of ASCII digits -/
def isDigitStr (s : Str) : Bool := !s.isEmpty && s.all isDigit

/-- digit groups separated by single underscores (`1_000`) -/
def isUnderscoreDigits (s : Str) : Bool :=
  (Py.splitOn 95 s).all isDigitStr

/-- `int(str)`: surrounding white space, an optional sign, ASCII digits with single `_` between digits.
Non-ASCII digits (which CPython accepts) are outside the run-time. -/
def parseInt (s : Str) : Option Int :=
  if isDigitStr s then some (undec s) else
  let t := strip s
  let (neg, body) : Bool × Str := match t with
    | 45 :: d => (true, d)
    | 43 :: d => (false, d)
    | d => (false, d)
  if isUnderscoreDigits body then
    let n : Int := undec (body.filter (· != 95))
    some (if neg then -n else n)
  else Option.none

/-- `int(v)` for ints, bools and strings -/
def int_ : PyVal → M PyVal
  | .int i => pure (.int i)
  | .bool b => pure (.int (if b then 1 else 0))
  | .str s => (match parseInt s with | some i => pure (.int i) | Option.none => throw valueError)
  | _ => throw typeError

/-! ## objects -/

def lookupField : List (String × PyVal) → String → Option PyVal
  | [], _ => Option.none
  | (k, v) :: rest, n => if k == n then some v else lookupField rest n

/-- instance attribute -/
def getattr (v : PyVal) (name : String) : M PyVal :=
  match v with
  | .obj _ fs => (match lookupField fs name with | some x => pure x | Option.none => throw attributeError)
  | _ => throw attributeError

def className : PyVal → String
  | .obj c _ => c
  | .none => "NoneType" | .bool _ => "bool" | .int _ => "int" | .str _ => "str"
  | .list _ => "list" | .tuple _ => "tuple" | .iter _ => "iterator"
  | .negInf => "NegativeInfinityType" | .posInf => "InfinityType" | .unbound => "<unbound>"
  | .notImpl => "NotImplementedType"
  | .dict _ => "dict"

/-- `isinstance(v, (C1, C2, …))` by class name; `bool` is a subclass of `int` -/
def isinstance (v : PyVal) (classes : List String) : Bool :=
  classes.contains (className v) || (classes.contains "int" && className v == "bool")

/-- reading a local that may not have been assigned yet -/
def bound : PyVal → M PyVal
  | .unbound => throw "UnboundLocalError"
  | v => pure v

/-- `self.name = v` inside `__init__` (the object is not shared yet) -/
def setField : List (String × PyVal) → String → PyVal → List (String × PyVal)
  | [], n, v => [(n, v)]
  | (k, x) :: rest, n, v => if k == n then (k, v) :: rest else (k, x) :: setField rest n v
def setattr (o : PyVal) (name : String) (v : PyVal) : M PyVal :=
  match o with
  | .obj c fs => pure (.obj c (setField fs name v))
  | _ => throw attributeError

/-- `hash(v)`: an uninterpreted function of the value; the run-time uses the constant 0, which is faithful for code
that only compares the hashes of two values next to comparing the values themselves -/
def hash_ (_v : PyVal) : M PyVal := pure (.int 0)

/-- `assert c` -/
def assert_ (c : PyVal) : M Unit := if truthy c then pure () else throw assertionError

/-! ## the environment: what the selected functions read from outside (interpreter probes, functions that are not
translated).  A table from a key (the source text of the read, e.g. `sys.version_info`, `platform_tags()`) to a
value; for calls with arguments the value is a list of `(argument tuple, result)` pairs. -/

abbrev Env := List (String × PyVal)

def env_get (env : Env) (key : String) : M PyVal :=
  match lookupField env key with
  | some v => pure v
  | Option.none => throw "PyRtEnvMissing"

def env_call (env : Env) (key : String) (args : List PyVal) : M PyVal := do
  let table ← iterate (← env_get env key)
  let rec find : List PyVal → M PyVal
    | [] => throw "PyRtEnvMissing"
    | .tuple [a, r] :: rest => if PyVal.eq a (.tuple args) then pure r else find rest
    | _ :: _ => throw "PyRtEnvMissing"
  find table

/-- an environment sent as a Python value: a list of `(key, value)` pairs with `str` keys -/
def envOf (v : PyVal) : Env :=
  match v with
  | .list l => l.filterMap fun p => match p with
    | .tuple [.str k, x] => some (toStringLossy k, x)
    | _ => Option.none
  | _ => []

/-! ## typed views (how model values appear as Python values) -/

def ofStrs (l : List Str) : PyVal := .list (l.map .str)
def ofNat (n : Nat) : PyVal := .int n
def ofNats (l : List Nat) : List PyVal := l.map ofNat
def ofOptStr : Option Str → PyVal
  | Option.none => .none
  | some s => .str s
def ofOptNat : Option Nat → PyVal
  | Option.none => .none
  | some n => .int n

/-! ## x3: recursion fuel

A translated function that calls itself (or a group that call each other) takes a fuel argument; the entry point
starts it from the size of the arguments, which bounds the depth of any recursion that descends into a proper part of an
argument or consumes input held in one.  Running out is `RecursionError`. -/

mutual
def size : PyVal → Nat
  | .str s => 1 + s.length
  | .list l => 1 + sizeL l
  | .tuple l => 1 + sizeL l
  | .iter l => 1 + sizeL l
  | .obj _ fs => 1 + sizeF fs
  | .dict kvs => 1 + sizeD kvs
  | _ => 1
def sizeL : List PyVal → Nat
  | [] => 0
  | v :: vs => size v + sizeL vs
def sizeF : List (String × PyVal) → Nat
  | [] => 0
  | (_, v) :: fs => size v + sizeF fs
def sizeD : List (PyVal × PyVal) → Nat
  | [] => 0
  | (k, v) :: r => size k + size v + sizeD r
end

def fuelOf (args : List PyVal) : Nat := 4 * sizeL args + 16

/-! ## x3: item assignment, nested mutation -/

/-- `l[i] = x` on a list that is not shared -/
def setitem (l i x : PyVal) : M PyVal :=
  match l with
  | .list xs =>
    (match asInt i with
     | Option.none => throw typeError
     | some k => match normIndex xs.length k with
       | some j => pure (.list (xs.set j x))
       | Option.none => throw indexError)
  | _ => throw typeError

/-! ## x3: dicts (insertion ordered association lists; keys compared with `==`) -/

def dictLookup : List (PyVal × PyVal) → PyVal → Option PyVal
  | [], _ => Option.none
  | (k, v) :: r, key => if PyVal.eq k key then some v else dictLookup r key

/-- `d[key] = v`: an existing key keeps its position -/
def dictSet : List (PyVal × PyVal) → PyVal → PyVal → List (PyVal × PyVal)
  | [], key, v => [(key, v)]
  | (k, x) :: r, key, v => if PyVal.eq k key then (k, v) :: r else (k, x) :: dictSet r key v

def dictErase : List (PyVal × PyVal) → PyVal → List (PyVal × PyVal)
  | [], _ => []
  | (k, x) :: r, key => if PyVal.eq k key then r else (k, x) :: dictErase r key

/-- keys the code uses are `str` (hashable); anything unhashable is `TypeError` -/
def hashable : PyVal → Bool
  | .list _ => false
  | .dict _ => false
  | _ => true

def dict_getitem (d key : PyVal) : M PyVal :=
  match d with
  | .dict kvs =>
    if !hashable key then throw typeError else
    (match dictLookup kvs key with | some v => pure v | Option.none => throw "KeyError")
  | _ => throw typeError

def dict_setitem (d key v : PyVal) : M PyVal :=
  match d with
  | .dict kvs => if !hashable key then throw typeError else pure (.dict (dictSet kvs key v))
  | _ => throw typeError

/-- `d.get(key, dflt)` -/
def dict_get (d key dflt : PyVal) : M PyVal :=
  match d with
  | .dict kvs => if !hashable key then throw typeError else pure ((dictLookup kvs key).getD dflt)
  | _ => throw attributeError

/-- `d.update(other)` for a dict `other` -/
def dict_update (d other : PyVal) : M PyVal :=
  match d, other with
  | .dict kvs, .dict o => pure (.dict (o.foldl (fun acc p => dictSet acc p.1 p.2) kvs))
  | .dict _, _ => throw "PyRtUnsupported"
  | _, _ => throw attributeError

/-- `d.setdefault(key, dflt)`: (value, updated dict) -/
def dict_setdefault (d key dflt : PyVal) : M (PyVal × PyVal) :=
  match d with
  | .dict kvs =>
    if !hashable key then throw typeError else
    (match dictLookup kvs key with
     | some v => pure (v, d)
     | Option.none => pure (dflt, .dict (kvs ++ [(key, dflt)])))
  | _ => throw attributeError

/-- `d.pop(key)`: (value, updated dict); `KeyError` when missing -/
def dict_pop (d key : PyVal) : M (PyVal × PyVal) :=
  match d with
  | .dict kvs =>
    if !hashable key then throw typeError else
    (match dictLookup kvs key with
     | some v => pure (v, .dict (dictErase kvs key))
     | Option.none => throw "KeyError")
  | _ => throw attributeError

def dict_copy (d : PyVal) : M PyVal :=
  match d with
  | .dict kvs => pure (.dict kvs)
  | _ => throw attributeError

/-- `key in d` -/
def dict_contains (d key : PyVal) : M Bool :=
  match d with
  | .dict kvs => if !hashable key then throw typeError else pure (dictLookup kvs key).isSome
  | _ => throw typeError

def dict_keys (d : PyVal) : M PyVal :=
  match d with
  | .dict kvs => pure (.iter (kvs.map (·.1)))
  | _ => throw attributeError

def dict_items (d : PyVal) : M PyVal :=
  match d with
  | .dict kvs => pure (.iter (kvs.map fun p => .tuple [p.1, p.2]))
  | _ => throw attributeError

/-! ## x3: oracles — functions of the library that the translated code calls but that are modelled elsewhere
(`Specifier(...)`, `canonicalize_name`, …).  Unlike `Env` (a finite table) an oracle is a *function*, so that theorems can
quantify over it; the driver builds one from a table sent by the harness (`oracleOf`).  A raised exception is the
`error` of the result. -/

abbrev Oracle := String → List PyVal → M PyVal

def ext_call (ext : Oracle) (name : String) (args : List PyVal) : M PyVal := ext name args

/-- table form: a list of `(name, args tuple, result)`; a result `("raise", "<Class>")`-object stands for an exception -/
def oracleFind (name : Str) (args : List PyVal) : List PyVal → M PyVal
  | [] => throw "PyRtOracleMissing"
  | .tuple [.str n, a, r] :: rest =>
    if n == name && PyVal.eq a (.tuple args) then
      (match r with
       | .obj "raise" [("cls", .str c)] => throw (toStringLossy c)
       | v => pure v)
    else oracleFind name args rest
  | _ :: _ => throw "PyRtOracleMissing"

def oracleOf (v : PyVal) : Oracle := fun name args =>
  match v with
  | .list l => oracleFind (ofString name) args l
  | _ => throw "PyRtOracleMissing"

/-! ## x3: callables taken from a module-level table of functions are represented by their key -/

def fn_ref (table : String) (key : PyVal) : PyVal := .obj "function" [("table", .str (ofString table)), ("key", key)]

def fn_key (table : String) (f : PyVal) : M PyVal :=
  match f with
  | .obj "function" [("table", .str t), ("key", k)] => if t == ofString table then pure k else throw "PyRtUnsupported"
  | _ => throw typeError

/-- `hash(v)` kept symbolic (an injective stand-in for the uninterpreted function), so that what is hashed stays visible;
`src.call` patches `hash` in the module under test to build the same tuple -/
def hash_sym (v : PyVal) : M PyVal := pure (.tuple [.str (ofString "__hash__"), v])

/-! ## x3: `zip`, membership in a set display -/

def zipVals : List PyVal → List PyVal → List PyVal
  | a :: as, b :: bs => .tuple [a, b] :: zipVals as bs
  | _, _ => []

/-- `zip(a, b)` (materialised) -/
def zip2 (a b : PyVal) : M PyVal := do
  return .iter (zipVals (← iterate a) (← iterate b))

/-- `x in {c1, c2, …}` for a set display of constants (given as a tuple): an unhashable `x` is `TypeError` -/
def contains_set (a x : PyVal) : M Bool :=
  if !hashable x then throw typeError else contains a x
/-! ## x2: additions of the second round (more primitives live in `PkgModel/PyRx.lean`) -/

/-- x4: `s.partition(c)` for a one-character separator: `(before, sep, after)` at the first occurrence, `(s, "", "")` if
none — by definition the two pieces of `s.split(c, 1)` -/
def str_partition (s sep : PyVal) : M PyVal :=
  match s, sep with
  | .str s, .str [c] =>
    (match splitOnMax c 1 s with
     | [a, b] => pure (.tuple [.str a, .str [c], .str b])
     | _ => pure (.tuple [.str s, .str [], .str []]))
  | .str _, .str _ => throw "PyRtUnsupported"
  | .str _, _ => throw typeError
  | _, _ => throw attributeError

/-- unary minus on ints / bools -/
def neg (a : PyVal) : M PyVal :=
  match asInt a with
  | some i => pure (.int (-i))
  | Option.none => throw typeError

end PyRt
