import PkgProofs.Lemmas.ReqParsed
/-!
Lemmas for C08: the SPECIFIER rule on a clause of the canonical layout.  Part 1: every piece of the version scanner
(`V.optNum`, `V.scanReleaseTail`, `V.scanLetterGroup`, `V.scanLocal`, hence `Req.verForm`) does in front of `,` `;` `)`
or white space what it does at the end of the text.
-/
namespace ReqClause
open Py V Req
set_option linter.unusedSimpArgs false

/-! ### characters that stop every piece of the version scanner

`,` `;` `)` and ASCII white space: none of them is a digit, a separator, a letter, `+`, `!` or `*`; whatever the
scanner does at the end of the text it also does in front of one of them. -/

def inertC (c : Nat) : Bool := c == 44 || c == 59 || c == 41 || V.isWs c

def Inert (k : Str) : Prop := ∀ c, k.head? = some c → inertC c = true

theorem inertC_facts {c : Nat} (h : inertC c = true) :
    isDigit c = false ∧ isSep c = false ∧ lowerAscii c < 97 ∧ c ≠ 43 ∧ c ≠ 33 ∧ c ≠ 45 ∧ c ≠ 46 ∧ c ≠ 42 ∧
    isLocalChar c = false := by
  simp only [inertC, V.isWs, Bool.or_eq_true, beq_iff_eq, Bool.and_eq_true, decide_eq_true_eq] at h
  simp only [isDigit, isSep, lowerAscii, isUpperAscii, isLocalChar, isAlphaAscii, isLowerAscii, Bool.and_eq_false_iff,
    decide_eq_false_iff_not, Bool.or_eq_false_iff, beq_eq_false_iff_ne, Bool.and_eq_true, decide_eq_true_eq]
  refine ⟨by omega, by omega, ?_, by omega, by omega, by omega, by omega, by omega, by omega⟩
  split <;> omega

theorem Inert.noDigit {k : Str} (h : Inert k) : NoDigit k := fun c hc => (inertC_facts (h c hc)).1

/-! ### the pieces, in front of a continuation -/

theorem spanDigits_app : (s k : Str) → NoDigit k → spanDigits (s ++ k) = ((spanDigits s).1, (spanDigits s).2 ++ k)
  | [], k, hk => by
    cases k with
    | nil => rfl
    | cons c t => simp [spanDigits, hk c rfl]
  | c :: s, k, hk => by
    cases hc : isDigit c with
    | true => simp [spanDigits, hc, spanDigits_app s k hk]
    | false => simp [spanDigits, hc]

theorem optNum_app (s k : Str) (hk : NoDigit k) : optNum (s ++ k) = ((optNum s).1, (optNum s).2 ++ k) := by
  simp only [optNum, spanDigits_app s k hk]
  cases h : (spanDigits s).1.isEmpty <;> simp [h]

theorem optSep_app (s k : Str) (hk : ∀ c, k.head? = some c → isSep c = false) : optSep (s ++ k) = optSep s ++ k := by
  cases s with
  | nil =>
    cases k with
    | nil => rfl
    | cons c t => simp [optSep, hk c rfl]
  | cons c s => simp only [List.cons_append, optSep]; split <;> rfl

theorem dropKw_app : (kw s k : Str) → (∀ x ∈ kw, 97 ≤ x) → (∀ c, k.head? = some c → lowerAscii c < 97) →
    dropKw kw (s ++ k) = (dropKw kw s).map (· ++ k)
  | [], s, k, _, _ => by simp [dropKw]
  | x :: kw, [], k, hkw, hk => by
    cases k with
    | nil => simp [dropKw]
    | cons c t =>
      have h1 := hk c rfl
      have h2 := hkw x (by simp)
      have : (lowerAscii c == x) = false := by simp; omega
      simp [dropKw, this]
  | x :: kw, c :: s, k, hkw, hk => by
    simp only [List.cons_append, dropKw]
    split
    · exact dropKw_app kw s k (fun y hy => hkw y (by simp [hy])) hk
    · rfl

theorem takeKw_app {α} : (kws : List (Str × α)) → (s k : Str) → (∀ p ∈ kws, ∀ x ∈ p.1, 97 ≤ x) →
    (∀ c, k.head? = some c → lowerAscii c < 97) →
    takeKw kws (s ++ k) = (takeKw kws s).map (fun p => (p.1, p.2 ++ k))
  | [], _, _, _, _ => rfl
  | (kw, a) :: rest, s, k, hkws, hk => by
    simp only [takeKw, dropKw_app kw s k (hkws (kw, a) (by simp)) hk]
    cases h : dropKw kw s with
    | some r => simp
    | none => simpa using takeKw_app rest s k (fun p hp => hkws p (by simp [hp])) hk

theorem scanLetterGroup_app {α} (kws : List (Str × α)) (s k : Str) (hkws : ∀ p ∈ kws, ∀ x ∈ p.1, 97 ≤ x) (hk : Inert k) :
    scanLetterGroup kws (s ++ k) = (scanLetterGroup kws s).map (fun p => (p.1, p.2 ++ k)) := by
  have hsep : ∀ c, k.head? = some c → isSep c = false := fun c hc => (inertC_facts (hk c hc)).2.1
  have hlet : ∀ c, k.head? = some c → lowerAscii c < 97 := fun c hc => (inertC_facts (hk c hc)).2.2.1
  simp only [scanLetterGroup, optSep_app s k hsep, takeKw_app kws _ k hkws hlet]
  cases h : takeKw kws (optSep s) with
  | none => rfl
  | some p =>
    obtain ⟨a, r⟩ := p
    simp only [Option.map_some, optSep_app r k hsep, optNum_app _ k hk.noDigit]

theorem kwTable_lower (l : List Str) (h : ∀ w ∈ l, ∀ x ∈ w, 97 ≤ x) : ∀ p ∈ kwTable l, ∀ x ∈ p.1, 97 ≤ x := by
  intro p hp x hx
  simp only [kwTable, List.mem_map] at hp
  obtain ⟨w, hw, rfl⟩ := hp
  exact h w hw x hx

theorem specPreKws_lower : ∀ w ∈ Gen.ReqTok.specPreKws, ∀ x ∈ w, 97 ≤ x := by decide
theorem specPostKws_lower : ∀ w ∈ Gen.ReqTok.specPostKws, ∀ x ∈ w, 97 ≤ x := by decide
theorem specDevKws_lower : ∀ w ∈ Gen.ReqTok.specDevKws, ∀ x ∈ w, 97 ≤ x := by decide

theorem implicitRest_app (s k : Str) (hk : Inert k) : implicitRest (s ++ k) = (implicitRest s).map (· ++ k) := by
  cases s with
  | nil =>
    cases k with
    | nil => rfl
    | cons c t =>
      have hc := (inertC_facts (hk c rfl)).2.2.2.2.2.1
      unfold implicitRest
      split
      · rename_i r heq; simp at heq; exact absurd heq.1 hc
      · simp
  | cons c s =>
    by_cases h45 : c = 45
    · subst h45
      show (match V.optNum (s ++ k) with | (some _, r') => some r' | (none, _) => none) =
        (match V.optNum s with | (some _, r') => some r' | (none, _) => none).map (· ++ k)
      rw [optNum_app s k hk.noDigit]
      cases h : V.optNum s with
      | mk n r => cases n <;> simp
    · unfold implicitRest
      split
      · rename_i r heq; simp at heq; exact absurd heq.1 h45
      · split
        · rename_i r heq; simp at heq; exact absurd heq.1 h45
        · rfl

theorem spelledRest_app (kws : List Str) (hl : ∀ w ∈ kws, ∀ x ∈ w, 97 ≤ x) (s k : Str) (hk : Inert k) :
    spelledRest kws (s ++ k) = spelledRest kws s ++ k := by
  unfold spelledRest
  rw [scanLetterGroup_app (kwTable kws) s k (kwTable_lower _ hl) hk]
  cases V.scanLetterGroup (kwTable kws) s with
  | none => rfl
  | some p => rfl

theorem postRest_app (s k : Str) (hk : Inert k) : postRest (s ++ k) = postRest s ++ k := by
  simp only [postRest, implicitRest_app s k hk, spelledRest_app _ specPostKws_lower s k hk]
  cases implicitRest s with
  | none => rfl
  | some r => rfl

theorem takeWhile_app_stop {p : Nat → Bool} : (s k : Str) → (∀ c, k.head? = some c → p c = false) →
    (s ++ k).takeWhile p = s.takeWhile p
  | [], k, hk => by
    cases k with
    | nil => rfl
    | cons c t => simp [List.takeWhile, hk c rfl]
  | c :: s, k, hk => by
    cases h : p c <;> simp [List.takeWhile, h, takeWhile_app_stop s k hk]

theorem dropWhile_app_stop {p : Nat → Bool} : (s k : Str) → (∀ c, k.head? = some c → p c = false) →
    (s ++ k).dropWhile p = s.dropWhile p ++ k
  | [], k, hk => by
    cases k with
    | nil => rfl
    | cons c t => simp [List.dropWhile, hk c rfl]
  | c :: s, k, hk => by
    cases h : p c <;> simp [List.dropWhile, h, dropWhile_app_stop s k hk]

theorem dropWhile_len (p : Nat → Bool) (s : Str) : (s.dropWhile p).length ≤ s.length :=
  (List.dropWhile_suffix p).length_le

theorem scanLocalTail_app : (f : Nat) → (s : Str) → s.length ≤ f → (f' : Nat) → (k : Str) → (s ++ k).length ≤ f' → Inert k →
    scanLocalTail f' (s ++ k) = ((scanLocalTail f s).1, (scanLocalTail f s).2 ++ k)
  | f, [], _, f', k, _, hk => by
    have e1 : scanLocalTail f [] = ([], []) := by cases f <;> rfl
    rw [e1]
    cases f' with
    | zero => rfl
    | succ g =>
      cases k with
      | nil => rfl
      | cons c t => simp [scanLocalTail, (inertC_facts (hk c rfl)).2.1]
  | 0, c :: s, h, _, _, _, _ => by simp at h
  | f + 1, c :: s, h, f', k, h', hk => by
    cases f' with
    | zero => simp at h'
    | succ g =>
      have hloc : ∀ d, k.head? = some d → isLocalChar d = false := fun d hd => (inertC_facts (hk d hd)).2.2.2.2.2.2.2.2
      simp only [List.cons_append, scanLocalTail, takeWhile_app_stop s k hloc, dropWhile_app_stop s k hloc]
      cases hc : isSep c with
      | false => simp
      | true =>
        simp only [if_true]
        cases he : (s.takeWhile isLocalChar).isEmpty with
        | true => simp
        | false =>
          have hl := dropWhile_len isLocalChar s
          simp only [List.length_cons, List.length_append] at h h'
          have ih := scanLocalTail_app f (s.dropWhile isLocalChar) (by omega) g k (by simp; omega) hk
          simp [ih]

theorem scanLocal_ne43 (c : Nat) (t : Str) (h : c ≠ 43) : V.scanLocal (c :: t) = some (none, c :: t) := by
  unfold V.scanLocal
  split
  · rename_i r heq; simp at heq; exact absurd heq.1 h
  · rfl

theorem scanLocal_43 (r : Str) : V.scanLocal (43 :: r) =
    if (r.takeWhile isLocalChar).isEmpty then none
    else some (some ((r.takeWhile isLocalChar :: (scanLocalTail r.length (r.dropWhile isLocalChar)).1).map localSeg),
               (scanLocalTail r.length (r.dropWhile isLocalChar)).2) := rfl

theorem locRest_app (s k : Str) (hk : Inert k) : locRest (s ++ k) = locRest s ++ k := by
  have hloc : ∀ d, k.head? = some d → isLocalChar d = false := fun d hd => (inertC_facts (hk d hd)).2.2.2.2.2.2.2.2
  cases s with
  | nil =>
    cases k with
    | nil => rfl
    | cons c t =>
      have hc := (inertC_facts (hk c rfl)).2.2.2.1
      have e1 : V.scanLocal ([] : Str) = some (none, []) := rfl
      simp only [locRest, List.nil_append, scanLocal_ne43 c t hc, e1]
  | cons c s =>
    by_cases h43 : c = 43
    · subst h43
      simp only [locRest, List.cons_append, scanLocal_43, takeWhile_app_stop s k hloc, dropWhile_app_stop s k hloc]
      cases he : (s.takeWhile isLocalChar).isEmpty with
      | true => simp
      | false =>
        have hl := dropWhile_len isLocalChar s
        have := scanLocalTail_app s.length (s.dropWhile isLocalChar) hl (s ++ k).length k (by simp; omega) hk
        simp only [Bool.false_eq_true, if_false, this]
    · simp [locRest, scanLocal_ne43 c _ h43]


theorem suffixRest_app (loc : Bool) (s k : Str) (hk : Inert k) : suffixRest loc (s ++ k) = suffixRest loc s ++ k := by
  simp only [suffixRest, spelledRest_app _ specPreKws_lower s k hk, postRest_app _ k hk,
    spelledRest_app _ specDevKws_lower _ k hk]
  cases loc
  · rfl
  · simp only [if_true, locRest_app _ k hk]

/-! ### the release part, in front of `,` `;` … or of `.*` -/

/-- nothing that continues a release: no digit, no `!`, and a `.` only if no digit follows it -/
def RelStop (k : Str) : Prop := NoDigit k ∧ (∀ r, k ≠ 33 :: r) ∧ ∀ r, k = 46 :: r → NoDigit r

theorem Inert.relStop {k : Str} (h : Inert k) : RelStop k := by
  refine ⟨h.noDigit, ?_, ?_⟩
  · intro r e; have := (inertC_facts (h 33 (by rw [e]; rfl))).2.2.2.2.1; exact this rfl
  · intro r e; have := (inertC_facts (h 46 (by rw [e]; rfl))).2.2.2.2.2.2.1; exact absurd rfl this

theorem relStop_wild (k : Str) : RelStop (46 :: 42 :: k) :=
  ⟨(by intro c hc; simp at hc; subst hc; decide), (by intro r e; cases e),
   (by intro r e; cases e; intro c hc; simp at hc; subst hc; decide)⟩

theorem optNum_len (s : Str) : (optNum s).2.length ≤ s.length := by
  have := (Spelling.spanDigits_spec s).1
  simp only [optNum]
  cases h : (spanDigits s).1.isEmpty
  · simp only [Bool.false_eq_true, if_false]
    have e : s.length = (spanDigits s).1.length + (spanDigits s).2.length := by
      conv => lhs; rw [this]
      simp
    omega
  · simp

theorem relTail_stop (f : Nat) (k : Str) (hk : RelStop k) : scanReleaseTail f k = ([], k) := by
  cases f with
  | zero => rfl
  | succ g =>
    unfold scanReleaseTail
    split
    · rename_i r
      have := hk.2.2 r rfl
      rw [optNum_none r this]
    · rfl

theorem scanReleaseTail_app : (f : Nat) → (s : Str) → s.length ≤ f → (f' : Nat) → (k : Str) → (s ++ k).length ≤ f' → RelStop k →
    scanReleaseTail f' (s ++ k) = ((scanReleaseTail f s).1, (scanReleaseTail f s).2 ++ k)
  | f, [], _, f', k, _, hk => by
    have e1 : scanReleaseTail f [] = ([], []) := by cases f <;> rfl
    rw [e1]; exact relTail_stop f' k hk
  | 0, c :: s, h, _, _, _, _ => by simp at h
  | f + 1, c :: s, h, f', k, h', hk => by
    cases f' with
    | zero => simp at h'
    | succ g =>
      by_cases h46 : c = 46
      · subst h46
        simp only [List.cons_append, scanReleaseTail, optNum_app s k hk.1]
        have hl := optNum_len s
        cases hn : optNum s with
        | mk n r' =>
          rw [hn] at hl
          cases n with
          | none => simp
          | some n =>
            simp only [List.length_cons, List.length_append] at h h' hl
            have ih := scanReleaseTail_app f r' (by omega) g k (by simp; omega) hk
            simp [ih]
      · have e1 : scanReleaseTail (f + 1) (c :: s) = ([], c :: s) := by
          unfold scanReleaseTail
          split
          · rename_i r heq; simp at heq; exact absurd heq.1 h46
          · rfl
        have e2 : scanReleaseTail (g + 1) (c :: s ++ k) = ([], c :: s ++ k) := by
          unfold scanReleaseTail
          split
          · rename_i r heq; simp at heq; exact absurd heq.1 h46
          · rfl
        rw [e1, e2]

/-! ### `verForm` in front of a continuation -/

theorem stripV_app (s k : Str) (hs : s ≠ []) : Req.stripV (s ++ k) = Req.stripV s ++ k := by
  cases s with
  | nil => exact absurd rfl hs
  | cons c s => simp only [List.cons_append, Req.stripV]; split <;> rfl

theorem epochRest_app (s k : Str) (hk : RelStop k) : epochRest (s ++ k) = epochRest s ++ k := by
  cases s with
  | nil =>
    cases k with
    | nil => rfl
    | cons c t =>
      have : c ≠ 33 := by intro e; subst e; exact hk.2.1 t rfl
      unfold epochRest
      split
      · rename_i r heq; simp at heq; exact absurd heq.1 this
      · rfl
  | cons c s =>
    by_cases h33 : c = 33
    · subst h33
      show (match V.optNum (s ++ k) with | (some _, r2) => r2 | (none, _) => 33 :: (s ++ k)) =
        (match V.optNum s with | (some _, r2) => r2 | (none, _) => 33 :: s) ++ k
      rw [optNum_app s k hk.1]
      cases h : V.optNum s with
      | mk n r => cases n <;> simp
    · unfold epochRest
      split
      · rename_i r heq; simp at heq; exact absurd heq.1 h33
      · split
        · rename_i r heq; simp at heq; exact absurd heq.1 h33
        · rfl

/-- the head of the text is a digit or `v`/`V` (what every version starts with) -/
def VerHead (s : Str) : Prop := ∃ c t, s = c :: t ∧ (isDigit c = true ∨ lowerAscii c = 118)

theorem VerHead.noWs {s : Str} (h : VerHead s) : s.dropWhile V.isWs = s := by
  obtain ⟨c, t, rfl, hc⟩ := h
  have := (SSet.head_not_eq_not_ws hc).2
  simp [List.dropWhile, this]

theorem stripV_len (s : Str) : (Req.stripV s).length ≤ s.length := by
  unfold Req.stripV
  split
  · split <;> simp
  · simp

theorem epochRest_len (s : Str) : (epochRest s).length ≤ s.length := by
  unfold epochRest
  split
  · rename_i r1
    have := optNum_len r1
    cases h : V.optNum r1 with
    | mk n r => rw [h] at this; cases n <;> simp at this ⊢ <;> omega
  · simp

theorem relScan_app (s k : Str) (hs : VerHead s) (hk : RelStop k) :
    relScan (s ++ k) = (relScan s).map (fun p => (p.1, p.2 ++ k)) := by
  obtain ⟨c, t, rfl, hc⟩ := id hs
  have hws := (SSet.head_not_eq_not_ws hc).2
  have e1 : (c :: t ++ k).dropWhile V.isWs = c :: t ++ k := by simp [List.dropWhile, hws]
  have e2 : (c :: t).dropWhile V.isWs = c :: t := by simp [List.dropWhile, hws]
  unfold relScan
  rw [e1, e2, stripV_app (c :: t) k (by simp), optNum_app _ k hk.1]
  cases h : V.optNum (Req.stripV (c :: t)) with
  | mk n r0 =>
    cases n with
    | none => rfl
    | some n =>
      simp only [Option.map_some, epochRest_app r0 k hk]
      rw [scanReleaseTail_app (epochRest r0).length (epochRest r0) (Nat.le_refl _) _ k (Nat.le_refl _) hk]

theorem startsWith_wild_app (r k : Str) (hk : Inert k) : startsWith (r ++ k) [46, 42] = startsWith r [46, 42] := by
  match r with
  | [] =>
    cases k with
    | nil => rfl
    | cons c t =>
      have := (inertC_facts (hk c rfl)).2.2.2.2.2.2.1
      have : (c == 46) = false := by simpa using this
      simp [startsWith, this]
  | [x] =>
    cases k with
    | nil => rfl
    | cons c t =>
      have := (inertC_facts (hk c rfl)).2.2.2.2.2.2.2.1
      have : (c == 42) = false := by simpa using this
      simp [startsWith, this]
  | x :: y :: r' => simp [startsWith]

/-- **a version alternative in front of `,` `;` `)` or white space does what it does at the end of the text** -/
theorem verForm_app (m : Nat) (w l : Bool) (s k : Str) (hs : VerHead s) (hk : Inert k) :
    verForm m w l (s ++ k) = (verForm m w l s).map (· ++ k) := by
  simp only [verForm, relScan_app s k hs hk.relStop]
  cases h : relScan s with
  | none => rfl
  | some p =>
    obtain ⟨tail, r⟩ := p
    simp only [Option.map_some, startsWith_wild_app r k hk, suffixRest_app l r k hk]
    by_cases h1 : tail.length < m
    · simp [h1]
    · simp only [h1, if_false]
      cases h2 : (w && startsWith r [46, 42]) with
      | false => simp
      | true =>
        simp only [if_true, Option.map_some, Option.some.injEq]
        have : 2 ≤ r.length := by
          simp only [Bool.and_eq_true] at h2
          match r, h2.2 with
          | x :: y :: r', _ => simp
          | [x], h => simp [startsWith] at h
          | [], h => simp [startsWith] at h
        rw [List.drop_append_of_le_length this]

/-! ## Part 2: from the clause `Specifier` accepted to the token SPECIFIER finds -/

theorem specPreKws_eq : Gen.ReqTok.specPreKws = [[97, 108, 112, 104, 97], [98, 101, 116, 97], [112, 114, 101, 118, 105, 101, 119], [112, 114, 101], [97], [98], [99], [114, 99]] := by decide

/-- the two orders in which the pre-release words are listed (`Version._regex`: `alpha|a|beta|b|…`, `Specifier._regex`:
`alpha|beta|preview|pre|a|b|…`) select the same word: in both, a word stands before its own prefixes -/
theorem takeKw_pre_rest (s : Str) :
    (takeKw (kwTable Gen.ReqTok.specPreKws) s).map (·.2) = (takeKw V.preKws s).map (·.2) := by
  rw [specPreKws_eq, Spelling.preKws_eq]
  cases s with
  | nil => simp [kwTable, takeKw, dropKw]
  | cons c t =>
    by_cases h97 : lowerAscii c = 97
    · simp [kwTable, takeKw, dropKw, h97]
      cases dropKw [108, 112, 104, 97] t <;> simp
    · by_cases h98 : lowerAscii c = 98
      · simp [kwTable, takeKw, dropKw, h98]
        cases dropKw [101, 116, 97] t <;> simp
      · simp [kwTable, takeKw, dropKw, h97, h98]
        by_cases h112 : lowerAscii c = 112
        · simp [h112]
          cases dropKw [114, 101, 118, 105, 101, 119] t <;> simp
          cases dropKw [114, 101] t <;> simp
        · simp [h112]
          by_cases h99 : lowerAscii c = 99
          · simp [h99]
          · simp [h99]
            by_cases h114 : lowerAscii c = 114
            · simp [h114]
              cases dropKw [99] t <;> simp
            · simp [h114]

/-! ### what `Version`'s scanner consumed, `verForm` consumes -/

theorem kwPost_eq : kwTable Gen.ReqTok.specPostKws = V.postKws := by decide
theorem kwDev_eq : kwTable Gen.ReqTok.specDevKws = V.devKws := by decide

theorem scanLetterGroup_rest_congr {α β} (k1 : List (Str × α)) (k2 : List (Str × β))
    (h : ∀ x, (takeKw k1 x).map (·.2) = (takeKw k2 x).map (·.2)) (s : Str) :
    (scanLetterGroup k1 s).map (·.2) = (scanLetterGroup k2 s).map (·.2) := by
  have := h (optSep s)
  simp only [scanLetterGroup]
  cases h1 : takeKw k1 (optSep s) with
  | none =>
    cases h2 : takeKw k2 (optSep s) with
    | none => rfl
    | some p => rw [h1, h2] at this; cases this
  | some p =>
    cases h2 : takeKw k2 (optSep s) with
    | none => rw [h1, h2] at this; cases this
    | some q =>
      rw [h1, h2] at this
      simp only [Option.map_some, Option.some.injEq] at this
      obtain ⟨a, r⟩ := p; obtain ⟨b, r'⟩ := q
      simp only at this; subst this
      rfl

theorem spelledPre_of_stage (r1 r2 : Str) (pre : Option (PreL × Nat)) (h : preStage r1 = (pre, r2)) :
    spelledRest Gen.ReqTok.specPreKws r1 = r2 := by
  have hc := scanLetterGroup_rest_congr (kwTable Gen.ReqTok.specPreKws) V.preKws takeKw_pre_rest r1
  unfold preStage at h
  unfold spelledRest
  cases h1 : scanLetterGroup V.preKws r1 with
  | none =>
    rw [h1] at h hc
    simp only [Prod.mk.injEq] at h
    cases h2 : scanLetterGroup (kwTable Gen.ReqTok.specPreKws) r1 with
    | none => exact h.2
    | some p => rw [h2] at hc; cases hc
  | some q =>
    rw [h1] at h hc
    obtain ⟨a, r'⟩ := q
    simp only [Prod.mk.injEq] at h
    cases h2 : scanLetterGroup (kwTable Gen.ReqTok.specPreKws) r1 with
    | none => rw [h2] at hc; cases hc
    | some p =>
      rw [h2] at hc
      simp only [Option.map_some, Option.some.injEq] at hc
      obtain ⟨b, r''⟩ := p
      simp only at hc ⊢
      rw [hc]; exact h.2

theorem postRest_of_scanPost (r2 : Str) : postRest r2 = (scanPost r2).2 := by
  rw [Spelling.scanPost_eq]
  unfold postRest spelledRest
  rw [kwPost_eq]
  have hi : implicitRest r2 = (Spelling.implicitPost r2).map (·.2) := by
    cases r2 with
    | nil => rfl
    | cons c r =>
      by_cases h45 : c = 45
      · subst h45
        show (match V.optNum r with | (some _, r') => some r' | (none, _) => none) =
          (match V.optNum r with | (some n, r') => some (n, r') | (none, _) => none).map (fun (p : Nat × Str) => p.2)
        cases V.optNum r with
        | mk n r' => cases n <;> rfl
      · have e1 : implicitRest (c :: r) = none := by
          unfold implicitRest
          split
          · rename_i _ heq; simp at heq; exact absurd heq.1 h45
          · rfl
        have e2 : Spelling.implicitPost (c :: r) = none := by
          unfold Spelling.implicitPost
          split
          · rename_i _ heq; simp at heq; exact absurd heq.1 h45
          · rfl
        rw [e1, e2]; rfl
  rw [hi]
  cases Spelling.implicitPost r2 with
  | some p => rfl
  | none =>
    simp only [Option.map_none]
    cases scanLetterGroup V.postKws r2 with
    | none => rfl
    | some q => rfl

theorem spelledDev_of_stage (r3 r4 : Str) (dev : Option Nat) (h : devStage r3 = (dev, r4)) :
    spelledRest Gen.ReqTok.specDevKws r3 = r4 := by
  unfold devStage at h
  unfold spelledRest
  rw [kwDev_eq]
  cases h1 : scanLetterGroup V.devKws r3 with
  | none => rw [h1] at h; simp only [Prod.mk.injEq] at h; exact h.2
  | some q => rw [h1] at h; simp only [Prod.mk.injEq] at h; exact h.2

theorem scanLocal_none_rest (s r : Str) (h : V.scanLocal s = some (none, r)) : r = s := by
  cases s with
  | nil => simp [V.scanLocal] at h; exact h
  | cons c t =>
    by_cases h43 : c = 43
    · subst h43
      rw [scanLocal_43] at h
      split at h <;> simp at h
    · rw [scanLocal_ne43 c t h43] at h
      simp at h; exact h.symm

theorem locRest_of_scanLocal (r4 r5 : Str) (loc : Option (List LSeg)) (h : V.scanLocal r4 = some (loc, r5)) :
    locRest r4 = r5 := by
  unfold locRest
  rw [h]
  cases loc with
  | some l => rfl
  | none => exact (scanLocal_none_rest r4 r5 h).symm

/-- `.*` cannot be consumed by the suffix groups -/
theorem stages_wild (t : Str) :
    preStage (46 :: 42 :: t) = (none, 46 :: 42 :: t) ∧ scanPost (46 :: 42 :: t) = (none, 46 :: 42 :: t) ∧
    devStage (46 :: 42 :: t) = (none, 46 :: 42 :: t) ∧ V.scanLocal (46 :: 42 :: t) = some (none, 46 :: 42 :: t) := by
  have hnl : Spelling.NoLetter (42 :: t) := by intro c hc; simp at hc; subst hc; decide
  obtain ⟨h1, h2, h3⟩ := Spelling.takeKw_noLetter (42 :: t) hnl
  have o : optSep (46 :: 42 :: t) = 42 :: t := by simp [optSep, isSep]
  refine ⟨?_, ?_, ?_, scanLocal_ne43 46 _ (by decide)⟩
  · simp [preStage, scanLetterGroup, o, h1]
  · rw [Spelling.scanPost_eq]
    have : Spelling.implicitPost (46 :: 42 :: t) = none := by
      unfold Spelling.implicitPost
      split
      · rename_i r heq; simp at heq
      · rfl
    simp [this, scanLetterGroup, o, h2]
  · simp [devStage, scanLetterGroup, o, h3]

theorem stripV_eq : Req.stripV = V.stripV := rfl

/-- **what the anchored version scanner consumed entirely, the prefix scanner's stages consume entirely** -/
theorem stages_of_scanCore (vtext : Str) (v : Ver) (h : scanCore vtext = some (v, [])) :
    ∃ tail r1, relScan vtext = some (tail, r1) ∧ v.release.length = tail.length + 1 ∧ suffixRest true r1 = [] ∧
      (v.loc = none → suffixRest false r1 = []) ∧
      ((v.pre = none ∧ v.post = none ∧ v.dev = none ∧ v.loc = none) → r1 = []) ∧ startsWith r1 [46, 42] = false := by
  obtain ⟨c, t, rfl, hc⟩ := SSet.scanCore_head h
  have hws := (SSet.head_not_eq_not_ws hc).2
  rw [scanCore_eq] at h
  cases hn : V.optNum (V.stripV (c :: t)) with
  | mk n0' r0 =>
    rw [hn] at h
    cases n0' with
    | none => simp at h
    | some n0 =>
      simp only at h
      cases hes : epochStep n0 r0 with
      | none => simp [hes] at h
      | some tr =>
        obtain ⟨e, f, r⟩ := tr
        simp only [hes] at h
        have hep : epochRest r0 = r := by
          cases r0 with
          | nil => simp [epochStep] at hes; simp [epochRest, hes.2.2]
          | cons d r1' =>
            by_cases h33 : d = 33
            · subst h33
              have hes' : (match V.optNum r1' with
                  | (some n1, r2) => some (n0, n1, r2)
                  | (none, _) => none) = some (e, f, r) := hes
              show (match V.optNum r1' with | (some _, r2) => r2 | (none, _) => 33 :: r1') = r
              cases ho : V.optNum r1' with
              | mk n1 r2 =>
                rw [ho] at hes'
                cases n1 with
                | none => simp at hes'
                | some n1 => simp at hes' ⊢; exact hes'.2.2
            · have e1 : epochStep n0 (d :: r1') = some (0, n0, d :: r1') := by
                unfold epochStep
                split
                · rename_i _ heq; simp at heq; exact absurd heq.1 h33
                · rfl
              have e2 : epochRest (d :: r1') = d :: r1' := by
                unfold epochRest
                split
                · rename_i _ heq; simp at heq; exact absurd heq.1 h33
                · rfl
              rw [e1] at hes; simp at hes
              rw [e2]; exact hes.2.2
        unfold scanRest at h
        cases h1 : scanReleaseTail r.length r with
        | mk tail r1 =>
        cases h2 : preStage r1 with
        | mk pre r2 =>
        cases h3 : scanPost r2 with
        | mk post r3 =>
        cases h4 : devStage r3 with
        | mk dev r4 =>
        simp only [h1, h2, h3, h4] at h
        cases h5 : V.scanLocal r4 with
        | none => simp [h5] at h
        | some p =>
          obtain ⟨loc, r5⟩ := p
          simp only [h5, Option.some.injEq, Prod.mk.injEq] at h
          obtain ⟨rfl, rfl⟩ := h
          have e1 := spelledPre_of_stage r1 r2 pre h2
          have e2 : postRest r2 = r3 := by rw [postRest_of_scanPost, h3]
          have e3 := spelledDev_of_stage r3 r4 dev h4
          have e4 := locRest_of_scanLocal r4 [] loc h5
          have hrel : relScan (c :: t) = some (tail, r1) := by
            unfold relScan
            simp only [List.dropWhile, hws, stripV_eq, hn, hep, h1]
          refine ⟨tail, r1, hrel, by simp, ?_, ?_, ?_, ?_⟩
          · simp only [suffixRest, e1, e2, e3, if_true, e4]
          · intro hl
            simp only at hl
            subst hl
            have := scanLocal_none_rest r4 [] h5
            simp only [suffixRest, e1, e2, e3, Bool.false_eq_true, if_false]
            exact this.symm
          · rintro ⟨hp, hpo, hd, hl⟩
            simp only at hp hpo hd hl
            subst hp hpo hd hl
            have a4 := scanLocal_none_rest r4 [] h5
            subst a4
            have a3 : r3 = [] := by
              unfold devStage at h4
              cases hh : scanLetterGroup V.devKws r3 with
              | none => rw [hh] at h4; simp at h4; exact h4
              | some q => rw [hh] at h4; simp at h4
            subst a3
            have a2 : r2 = [] := by
              rw [Spelling.scanPost_eq] at h3
              cases hi : Spelling.implicitPost r2 with
              | some q => rw [hi] at h3; simp at h3
              | none =>
                rw [hi] at h3
                cases hh : scanLetterGroup V.postKws r2 with
                | none => rw [hh] at h3; simp at h3; exact h3
                | some q => rw [hh] at h3; simp at h3
            subst a2
            unfold preStage at h2
            cases hh : scanLetterGroup V.preKws r1 with
            | none => rw [hh] at h2; simp at h2; exact h2
            | some q => rw [hh] at h2; simp at h2
          · cases hsw : startsWith r1 [46, 42] with
            | false => rfl
            | true =>
              exfalso
              obtain ⟨t', rfl⟩ : ∃ t', r1 = 46 :: 42 :: t' := by
                match r1, hsw with
                | x :: y :: t', hs =>
                  simp [startsWith] at hs
                  exact ⟨t', by rw [hs.1, hs.2]⟩
                | [x], hs => simp [startsWith] at hs
                | [], hs => simp [startsWith] at hs
              obtain ⟨w1, w2, w3, w4⟩ := stages_wild t'
              rw [w1] at h2; simp only [Prod.mk.injEq] at h2; obtain ⟨_, rfl⟩ := h2
              rw [w2] at h3; simp only [Prod.mk.injEq] at h3; obtain ⟨_, rfl⟩ := h3
              rw [w3] at h4; simp only [Prod.mk.injEq] at h4; obtain ⟨_, rfl⟩ := h4
              rw [w4] at h5; simp at h5

/-! ### the clause `Specifier` accepted -/

/-- the version text of a parsed non-`===` clause: in full a version (optionally followed by `.*`), in the form the
operator permits -/
theorem parseSpec_ver_facts (c : Str) (sp : S.Spec) (h : S.parseSpec c = some sp) (hna : sp.op ≠ .arbitrary) :
    ∃ v, scanCore (if ((sp.op == .eq || sp.op == .ne) && endsWith sp.ver [46, 42]) then sp.ver.take (sp.ver.length - 2)
                    else sp.ver) = some (v, []) ∧
      S.clauseForm sp.op v ((sp.op == .eq || sp.op == .ne) && endsWith sp.ver [46, 42]) = true := by
  unfold S.parseSpec at h
  split at h
  · cases h
  · rename_i op r hto
    simp only at h
    by_cases ho : op = .arbitrary
    · subst ho
      simp only [beq_self_eq_true, ↓reduceIte] at h
      split at h
      · injection h with h; subst h; exact absurd rfl hna
      · cases h
    · have hne : (op == S.Op.arbitrary) = false := by simp [ho]
      simp only [hne, Bool.false_eq_true, ↓reduceIte] at h
      split at h
      · rename_i v hsc
        split at h
        · rename_i hcf
          injection h with h; subst h
          exact ⟨v, hsc, hcf⟩
        · cases h
      · cases h

theorem endsWith_split (s suf : Str) (h : endsWith s suf = true) : s = s.take (s.length - suf.length) ++ suf := by
  unfold endsWith at h
  have h1 := MkWf.take_of_startsWith _ _ h
  have h2 : s.reverse = suf.reverse ++ s.reverse.drop suf.reverse.length := by
    conv => lhs; rw [← List.take_append_drop suf.reverse.length s.reverse]
    rw [h1]
  have h3 := congrArg List.reverse h2
  simp only [List.reverse_reverse, List.reverse_append] at h3
  have hlen : (List.drop suf.reverse.length s.reverse).reverse.length = s.length - suf.length := by simp
  conv => lhs; rw [h3]
  congr 1
  rw [← hlen]
  conv => rhs; rw [h3]
  simp

/-- the alternative of the version group that applies after each operator -/
def formOf : S.Op → Nat × Bool × Bool
  | .eq => (0, true, true) | .ne => (0, true, true)
  | .compatible => (1, false, false)
  | _ => (0, false, false)

/-- **the alternative that applies to a parsed clause consumes its version text entirely** -/
theorem verForm_clause (c : Str) (sp : S.Spec) (h : S.parseSpec c = some sp) (hna : sp.op ≠ .arbitrary) :
    VerHead sp.ver ∧ verForm (formOf sp.op).1 (formOf sp.op).2.1 (formOf sp.op).2.2 sp.ver = some [] := by
  obtain ⟨v, hsc, hcf⟩ := parseSpec_ver_facts c sp h hna
  simp only [S.clauseForm, Bool.and_eq_true, Bool.or_eq_true, Bool.not_eq_true', bne_iff_ne, ne_eq, decide_eq_true_eq] at hcf
  obtain ⟨⟨hw, hl⟩, hcompat⟩ := hcf
  cases hwild : ((sp.op == .eq || sp.op == .ne) && endsWith sp.ver [46, 42]) with
  | true =>
    rw [hwild] at hsc hw
    simp only [if_true] at hsc
    simp only [Bool.and_eq_true, Bool.or_eq_true, beq_iff_eq] at hwild
    obtain ⟨hop, hew⟩ := hwild
    have hsplit := endsWith_split sp.ver [46, 42] hew
    simp only [List.length_cons, List.length_nil] at hsplit
    obtain ⟨tail, r1, hrel, _, _, _, hnone, _⟩ := stages_of_scanCore _ v hsc
    have hgroups : v.pre = none ∧ v.post = none ∧ v.dev = none ∧ v.loc = none := by
      rcases hw with hw | hw
      · cases hw
      · simp only [Bool.and_eq_true, Option.isNone_iff_eq_none] at hw
        exact ⟨hw.1.1.1, hw.1.1.2, hw.1.2, hw.2⟩
    have hr1 := hnone hgroups
    subst hr1
    obtain ⟨c0, t0, hc0, hd0⟩ := SSet.scanCore_head hsc
    have hvh : VerHead (sp.ver.take (sp.ver.length - 2)) := ⟨c0, t0, hc0, hd0⟩
    have hform : formOf sp.op = (0, true, true) := by rcases hop with e | e <;> rw [e] <;> rfl
    refine ⟨?_, ?_⟩
    · rw [hsplit, hc0]; exact ⟨c0, t0 ++ [46, 42], rfl, hd0⟩
    · rw [hform, hsplit]
      simp only [verForm, relScan_app _ [46, 42] hvh (relStop_wild []), hrel, Option.map_some, List.nil_append]
      simp [startsWith]
  | false =>
    rw [hwild] at hsc hw
    simp only [Bool.false_eq_true, if_false] at hsc
    obtain ⟨tail, r1, hrel, hlen, hs1, hs2, _, hnw⟩ := stages_of_scanCore _ v hsc
    obtain ⟨c0, t0, hc0, hd0⟩ := SSet.scanCore_head hsc
    refine ⟨⟨c0, t0, hc0, hd0⟩, ?_⟩
    have hloc : (sp.op ≠ .eq ∧ sp.op ≠ .ne) → v.loc = none := by
      intro hne
      rcases hl with (hl | hl) | hl
      · simpa using hl
      · exact absurd (by simpa using hl) hne.1
      · exact absurd (by simpa using hl) hne.2
    cases hop : sp.op with
    | arbitrary => exact absurd hop hna
    | eq => simp [formOf, verForm, hrel, hnw, hs1]
    | ne => simp [formOf, verForm, hrel, hnw, hs1]
    | compatible =>
      have h2 : 2 ≤ v.release.length := by
        rcases hcompat with hc | hc
        · exact absurd hop hc
        · exact hc
      have : ¬ tail.length < 1 := by omega
      simp [formOf, verForm, hrel, this, hs2 (hloc (by rw [hop]; simp))]
    | le => simp [formOf, verForm, hrel, hs2 (hloc (by rw [hop]; simp))]
    | ge => simp [formOf, verForm, hrel, hs2 (hloc (by rw [hop]; simp))]
    | lt => simp [formOf, verForm, hrel, hs2 (hloc (by rw [hop]; simp))]
    | gt => simp [formOf, verForm, hrel, hs2 (hloc (by rw [hop]; simp))]

/-! ### the SPECIFIER rule on `operator ++ version` -/

open ReqLex in
/-- after the operator of a non-`===` clause, with a text that does not start with `=`: the match is decided by the
one alternative of the version group whose look-behind admits that operator -/
theorem matchSpecifier_op (op : S.Op) (hna : op ≠ .arbitrary) (prev : Option Nat) (hp : prev ≠ some 61) (body : Str)
    (hb : ∀ c, body.head? = some c → c ≠ 61) (rest : Str)
    (hf : verForm (formOf op).1 (formOf op).2.1 (formOf op).2.2 body = some rest) :
    matchSpecifier prev (op.str ++ body) = some ((op.str ++ body).length - rest.length) := by
  have hb61 : startsWith body [61] = false := by
    cases body with
    | nil => rfl
    | cons c t =>
      have : (c == 61) = false := by simpa using hb c rfl
      simp [startsWith, this]
  have hb6161 : ∀ x, startsWith body (61 :: x) = false := by
    intro x
    cases body with
    | nil => rfl
    | cons c t =>
      have : (c == 61) = false := by simpa using hb c rfl
      simp [startsWith, this]
  rw [SSet.Op.str_val]
  cases prev with
  | none =>
    cases op <;> first
      | exact absurd rfl hna
      | (simp only [formOf] at hf
         simp [matchSpecifier, specOps_eq, specForms_eq, startsWith, guardHolds, endsWith, formRest, hf, hb61, hb6161])
  | some y =>
    have hy : (y == 61) = false := by
      have : y ≠ 61 := fun e => hp (by rw [e])
      simpa using this
    cases op <;> first
      | exact absurd rfl hna
      | (simp only [formOf] at hf
         simp [matchSpecifier, specOps_eq, specForms_eq, startsWith, guardHolds, endsWith, formRest, hf, hb61, hb6161, hy])

/-! ### the two facts the round trip needs about every parsed clause -/

open ReqParse in
theorem clauseStop_inert {k : Str} (h : ClauseStop k) : Inert k := by
  intro c hc
  rcases h with rfl | ⟨t, rfl | rfl⟩
  · simp at hc
  · simp at hc; subst hc; decide
  · simp at hc; subst hc; decide

open ReqParse in
/-- **the SPECIFIER rule finds every parsed non-`===` clause again**, whatever stands before it (other than `=`) and
whether `,`, `;` or nothing follows -/
theorem tokExact_of_parse (c : Str) (sp : S.Spec) (h : S.parseSpec c = some sp) (hna : sp.op ≠ .arbitrary) :
    TokExact sp.str := by
  obtain ⟨hvh, hvf⟩ := verForm_clause c sp h hna
  intro prev k hp hk
  have hin := clauseStop_inert hk
  have hbody : verForm (formOf sp.op).1 (formOf sp.op).2.1 (formOf sp.op).2.2 (sp.ver ++ k) = some k := by
    rw [verForm_app _ _ _ sp.ver k hvh hin, hvf]; rfl
  obtain ⟨c0, t0, hc0, hd0⟩ := hvh
  have hb : ∀ x, (sp.ver ++ k).head? = some x → x ≠ 61 := by
    intro x hx
    rw [hc0] at hx; simp at hx; subst hx
    exact (SSet.head_not_eq_not_ws hd0).1
  have := matchSpecifier_op sp.op hna prev hp (sp.ver ++ k) hb k hbody
  simp only [S.Spec.str, List.append_assoc]
  rw [this]
  simp only [List.length_append, Option.some.injEq]
  omega

/-- **the text of every parsed clause is free of white space, `;` and `)`** -/
theorem ver_chars_of_parse (c : Str) (sp : S.Spec) (h : S.parseSpec c = some sp) : ∀ x ∈ sp.ver, S.isArbChar x = true := by
  by_cases hna : sp.op = .arbitrary
  · -- `===`: the text was checked character by character
    unfold S.parseSpec at h
    split at h
    · cases h
    · rename_i op r hto
      simp only at h
      by_cases ho : op = .arbitrary
      · subst ho
        simp only [beq_self_eq_true, ↓reduceIte] at h
        split at h
        · rename_i hall
          injection h with h; subst h
          intro x hx
          exact List.all_eq_true.mp hall x (SSet.stripBy_subset isSpacePy _ x hx)
        · cases h
      · have hne : (op == S.Op.arbitrary) = false := by simp [ho]
        simp only [hne, Bool.false_eq_true, ↓reduceIte] at h
        split at h
        · split at h
          · injection h with h; subst h; exact absurd hna ho
          · cases h
        · cases h
  · obtain ⟨hvh, hvf⟩ := verForm_clause c sp h hna
    intro x hx
    cases hin : inertC x with
    | false =>
      simp only [inertC, Bool.or_eq_false_iff, beq_eq_false_iff_ne] at hin
      simp [S.isArbChar, hin.2, hin.1.1.2, hin.1.2]
    | true =>
      exfalso
      obtain ⟨a, b, hab⟩ := List.append_of_mem hx
      obtain ⟨c0, t0, hc0, hd0⟩ := hvh
      cases a with
      | nil =>
        rw [hc0] at hab; simp at hab
        obtain ⟨rfl, _⟩ := hab
        have := inertC_facts hin
        rcases hd0 with hd | hd
        · rw [this.1] at hd; cases hd
        · have := this.2.2.1; omega
      | cons a0 a' =>
        have hva : VerHead (a0 :: a') := by
          rw [hc0] at hab; simp at hab
          exact ⟨a0, a', rfl, hab.1 ▸ hd0⟩
        have hk : Inert (x :: b) := by intro d hd; simp at hd; subst hd; exact hin
        rw [hab, verForm_app _ _ _ (a0 :: a') (x :: b) hva hk] at hvf
        cases hq : verForm (formOf sp.op).1 (formOf sp.op).2.1 (formOf sp.op).2.2 (a0 :: a') with
        | none => rw [hq] at hvf; cases hvf
        | some r => rw [hq] at hvf; simp at hvf
end ReqClause
