import PkgProofs.Lemmas.ScanRender
/-!
# `scan (str v) = some v` for every well-formed `v`, and `scan s = some v → WF v`
-/
namespace V
open Py

theorem stripV_digit (d : Nat) (s : Str) (hd : isDigit d = true) : stripV (d :: s) = d :: s := by
  have := digit_bounds hd
  simp [stripV, lowerAscii_digit hd]; omega

theorem stripV_dec (n : Nat) (s : Str) : stripV (dec n ++ s) = dec n ++ s := by
  obtain ⟨d, ds, h, hd⟩ := dec_head n
  simp [h, stripV_digit d _ hd]

theorem epochStep_no (n0 : Nat) (x : Str) (h : ∀ t, x ≠ 33 :: t) : epochStep n0 x = some (0, n0, x) := by
  unfold epochStep
  split
  · rename_i r1; exact absurd rfl (h r1)
  · rfl

theorem stop3_no_bang {s : Str} (h : Stop3 s) : ∀ t, s ≠ 33 :: t := by
  intro t
  rcases h with (((rfl | ⟨t, rfl⟩) | ⟨t, rfl⟩) | ⟨t, rfl⟩) | ⟨t, rfl | rfl | rfl⟩ <;> simp

theorem scanCore_render (e r0 : Nat) (ns : List Nat) (pre : Option (PreL × Nat)) (post dev : Option Nat)
    (loc : Option (List LSeg)) (h : locWF loc = true) :
    scanCore (epochS e ++ (dec r0 ++ (tailS (ns.map dec) ++ (preS pre ++ (postS post ++ (devS dev ++ locS loc)))))) =
      some (⟨e, r0 :: ns, pre, post, dev, loc⟩, []) := by
  have s3 : Stop3 (preS pre ++ (postS post ++ (devS dev ++ locS loc))) :=
    stop3_preS pre (stop2_postS post (stop1_devS dev (stop0_locS loc)))
  have hnd := noDigit_tailS (ns.map dec) _ s3.noDigit
  have hrest := scanRest_render e r0 ns pre post dev loc h
  have hr0 := optNum_dec r0 _ hnd
  rw [scanCore_eq]
  by_cases he : e = 0
  · subst he
    have hbang : ∀ t, tailS (ns.map dec) ++ (preS pre ++ (postS post ++ (devS dev ++ locS loc))) ≠ 33 :: t := by
      rcases tailS_head (ns.map dec) with h0 | ⟨t, h0⟩ <;> rw [h0]
      · simpa using stop3_no_bang s3
      · intro t; simp
    simp only [epochS, bne_self_eq_false, Bool.false_eq_true, if_false, List.nil_append, stripV_dec, hr0,
      epochStep_no _ _ hbang, hrest]
  · have hnb : NoDigit (33 :: (dec r0 ++ (tailS (ns.map dec) ++ (preS pre ++ (postS post ++ (devS dev ++ locS loc)))))) := by
      intro c hc; simp at hc; subst hc; decide
    have he' : (e != 0) = true := by simp [he]
    have happ : epochS e ++ (dec r0 ++ (tailS (ns.map dec) ++ (preS pre ++ (postS post ++ (devS dev ++ locS loc))))) =
        dec e ++ (33 :: (dec r0 ++ (tailS (ns.map dec) ++ (preS pre ++ (postS post ++ (devS dev ++ locS loc)))))) := by
      simp [epochS, he]
    rw [happ, stripV_dec, optNum_dec e _ hnb]
    simp only [epochStep, hr0, hrest]

/-- **Round trip.**  Rendering a well-formed value and scanning it gives the value back. -/
theorem scan_str (v : Ver) (h : WF v) : scan v.str = some v := by
  obtain ⟨e, r, pre, post, dev, loc⟩ := v
  simp only [WF, Ver.wf, Bool.and_eq_true] at h
  obtain ⟨hr, hl⟩ := h
  cases r with
  | nil => simp at hr
  | cons r0 ns =>
    have hc := scanCore_render e r0 ns pre post dev loc hl
    have hs : (Ver.mk e (r0 :: ns) pre post dev loc).str =
        epochS e ++ (dec r0 ++ (tailS (ns.map dec) ++ (preS pre ++ (postS post ++ (devS dev ++ locS loc))))) := by
      rw [str_eq, base_eq]; simp
    rw [hs] at *
    have hws : (epochS e ++ (dec r0 ++ (tailS (ns.map dec) ++ (preS pre ++ (postS post ++ (devS dev ++ locS loc)))))).dropWhile isWs
        = epochS e ++ (dec r0 ++ (tailS (ns.map dec) ++ (preS pre ++ (postS post ++ (devS dev ++ locS loc))))) := by
      by_cases he : e = 0
      · obtain ⟨d, ds, hd, hdd⟩ := dec_head r0
        simp [epochS, he, hd, isWs_digit hdd]
      · obtain ⟨d, ds, hd, hdd⟩ := dec_head e
        simp [epochS, he, hd, isWs_digit hdd]
    simp [scan, hws, hc]

end V
