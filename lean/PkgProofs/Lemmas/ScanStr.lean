import PkgProofs.Lemmas.ScanRender
/-!
# `scan (str v) = some v` for every well-formed `v`, and `scan s = some v → WF v`
-/
namespace V
open Py

theorem stripV_digit (d : Nat) (s : Str) (hd : isDigit d = true) : stripV (d :: s) = d :: s := by
  have := digit_bounds hd
  simp [stripV, lowerAscii_digit hd]; omega

theorem stripV_dec (n : Nat) (s : Str) : stripV (dec n ++ s) = dec n ++ s := by
  obtain ⟨d, ds, h, hd⟩ := dec_head n
  simp [h, stripV_digit d _ hd]

theorem epochStep_no (n0 : Nat) (x : Str) (h : ∀ t, x ≠ 33 :: t) : epochStep n0 x = some (0, n0, x) := by
  unfold epochStep
  split
  · rename_i r1; exact absurd rfl (h r1)
  · rfl

theorem stop3_no_bang {s : Str} (h : Stop3 s) : ∀ t, s ≠ 33 :: t := by
  intro t
  rcases h with (((rfl | ⟨t, rfl⟩) | ⟨t, rfl⟩) | ⟨t, rfl⟩) | ⟨t, rfl | rfl | rfl⟩ <;> simp

theorem scanCore_render (e r0 : Nat) (ns : List Nat) (pre : Option (PreL × Nat)) (post dev : Option Nat)
    (loc : Option (List LSeg)) (h : locWF loc = true) :
    scanCore (epochS e ++ (dec r0 ++ (tailS (ns.map dec) ++ (preS pre ++ (postS post ++ (devS dev ++ locS loc)))))) =
      some (⟨e, r0 :: ns, pre, post, dev, loc⟩, []) := by
  have s3 : Stop3 (preS pre ++ (postS post ++ (devS dev ++ locS loc))) :=
    stop3_preS pre (stop2_postS post (stop1_devS dev (stop0_locS loc)))
  have hnd := noDigit_tailS (ns.map dec) _ s3.noDigit
  have hrest := scanRest_render e r0 ns pre post dev loc h
  have hr0 := optNum_dec r0 _ hnd
  rw [scanCore_eq]
  by_cases he : e = 0
  · subst he
    have hbang : ∀ t, tailS (ns.map dec) ++ (preS pre ++ (postS post ++ (devS dev ++ locS loc))) ≠ 33 :: t := by
      rcases tailS_head (ns.map dec) with h0 | ⟨t, h0⟩ <;> rw [h0]
      · simpa using stop3_no_bang s3
      · intro t; simp
    simp only [epochS, bne_self_eq_false, Bool.false_eq_true, if_false, List.nil_append, stripV_dec, hr0,
      epochStep_no _ _ hbang, hrest]
  · have hnb : NoDigit (33 :: (dec r0 ++ (tailS (ns.map dec) ++ (preS pre ++ (postS post ++ (devS dev ++ locS loc)))))) := by
      intro c hc; simp at hc; subst hc; decide
    have he' : (e != 0) = true := by simp [he]
    have happ : epochS e ++ (dec r0 ++ (tailS (ns.map dec) ++ (preS pre ++ (postS post ++ (devS dev ++ locS loc))))) =
        dec e ++ (33 :: (dec r0 ++ (tailS (ns.map dec) ++ (preS pre ++ (postS post ++ (devS dev ++ locS loc)))))) := by
      simp [epochS, he]
    rw [happ, stripV_dec, optNum_dec e _ hnb]
    simp only [epochStep, hr0, hrest]

/-- **Round trip.**  Rendering a well-formed value and scanning it gives the value back. -/
theorem scan_str (v : Ver) (h : WF v) : scan v.str = some v := by
  obtain ⟨e, r, pre, post, dev, loc⟩ := v
  simp only [WF, Ver.wf, Bool.and_eq_true] at h
  obtain ⟨hr, hl⟩ := h
  cases r with
  | nil => simp at hr
  | cons r0 ns =>
    have hc := scanCore_render e r0 ns pre post dev loc hl
    have hs : (Ver.mk e (r0 :: ns) pre post dev loc).str =
        epochS e ++ (dec r0 ++ (tailS (ns.map dec) ++ (preS pre ++ (postS post ++ (devS dev ++ locS loc))))) := by
      rw [str_eq, base_eq]; simp
    rw [hs] at *
    have hws : (epochS e ++ (dec r0 ++ (tailS (ns.map dec) ++ (preS pre ++ (postS post ++ (devS dev ++ locS loc)))))).dropWhile isWs
        = epochS e ++ (dec r0 ++ (tailS (ns.map dec) ++ (preS pre ++ (postS post ++ (devS dev ++ locS loc))))) := by
      by_cases he : e = 0
      · obtain ⟨d, ds, hd, hdd⟩ := dec_head r0
        simp [epochS, he, hd, isWs_digit hdd]
      · obtain ⟨d, ds, hd, hdd⟩ := dec_head e
        simp [epochS, he, hd, isWs_digit hdd]
    simp [scan, hws, hc]

end V

namespace V
open Py

/-! ### everything `scan` returns is well formed -/

theorem isDigit_lower (c : Nat) : isDigit (lowerAscii c) = isDigit c := by
  by_cases hu : 65 ≤ c ∧ c ≤ 90
  · have h0 : isUpperAscii c = true := by simp [isUpperAscii, hu]
    have a : isDigit (c + 32) = false := by simp [isDigit]; omega
    have b : isDigit c = false := by simp [isDigit]; omega
    simp [lowerAscii, h0, a, b]
  · have h0 : isUpperAscii c = false := by simp [isUpperAscii]; omega
    simp [lowerAscii, h0]

theorem lower_of_local (c : Nat) (hc : isLocalChar c = true) :
    (isDigit (lowerAscii c) || isLowerAscii (lowerAscii c)) = true := by
  by_cases hu : 65 ≤ c ∧ c ≤ 90
  · have h0 : isUpperAscii c = true := by simp [isUpperAscii, hu]
    have a : isLowerAscii (c + 32) = true := by simp [isLowerAscii]; omega
    simp [lowerAscii, h0, a]
  · have h0 : isUpperAscii c = false := by simp [isUpperAscii]; omega
    simp [isLocalChar, isAlphaAscii, h0] at hc
    simpa [lowerAscii, h0] using hc

theorem all_digit_lower (p : Str) : (lowerStr p).all isDigit = p.all isDigit := by
  induction p with
  | nil => rfl
  | cons c cs ih => simp [lowerStr, isDigit_lower] at ih ⊢; rw [ih]

theorem localSeg_wf (p : Str) (h1 : p ≠ []) (h2 : ∀ c ∈ p, isLocalChar c = true) : segWF (localSeg p) = true := by
  unfold localSeg
  split
  · rfl
  · rename_i hnd
    simp only [segWF, all_digit_lower, Bool.and_eq_true, Bool.not_eq_true']
    refine ⟨⟨?_, ?_⟩, by simpa using hnd⟩
    · cases p with
      | nil => exact absurd rfl h1
      | cons c cs => simp [lowerStr]
    · simp only [lowerStr, List.all_map, List.all_eq_true]
      intro c hc; exact lower_of_local c (h2 c hc)

theorem takeWhile_local (r : Str) : ∀ c ∈ r.takeWhile isLocalChar, isLocalChar c = true := by
  induction r with
  | nil => simp
  | cons a as ih =>
    by_cases ha : isLocalChar a = true
    · intro c hc
      simp [List.takeWhile, ha] at hc
      rcases hc with rfl | hc
      · exact ha
      · exact ih c hc
    · simp [List.takeWhile, ha]

theorem scanLocalTail_wf (fuel : Nat) (s : Str) :
    ∀ p ∈ (scanLocalTail fuel s).1, p ≠ [] ∧ ∀ c ∈ p, isLocalChar c = true := by
  induction fuel generalizing s with
  | zero => simp [scanLocalTail]
  | succ f ih =>
    intro p hp
    cases s with
    | nil => simp [scanLocalTail] at hp
    | cons c r =>
      simp only [scanLocalTail] at hp
      by_cases hs : isSep c = true
      · by_cases he : r.takeWhile isLocalChar = []
        · simp [hs, he] at hp
        · simp [hs, he] at hp
          rcases hp with rfl | hp
          · exact ⟨he, takeWhile_local r⟩
          · exact ih _ p hp
      · simp [hs] at hp

theorem scanLocal_wf (r : Str) (loc : Option (List LSeg)) (r' : Str) (h : scanLocal r = some (loc, r')) :
    locWF loc = true := by
  cases r with
  | nil => simp [scanLocal] at h; obtain ⟨h, _⟩ := h; subst h; rfl
  | cons c r1 =>
    by_cases hc : c = 43
    · subst hc
      simp only [scanLocal] at h
      by_cases he : r1.takeWhile isLocalChar = []
      · simp [he] at h
      · simp [he] at h
        obtain ⟨h, _⟩ := h
        subst h
        simp only [locWF, List.isEmpty_cons, Bool.not_false, List.all_cons, Bool.true_and,
          Bool.and_eq_true, List.all_map, List.all_eq_true]
        refine ⟨localSeg_wf _ he (takeWhile_local r1), ?_⟩
        intro p hp
        have := scanLocalTail_wf _ _ p hp
        exact localSeg_wf p this.1 this.2
    · have : scanLocal (c :: r1) = some (none, c :: r1) := by
        unfold scanLocal
        split
        · rename_i heq; simp at heq; exact absurd heq.1 hc
        · rfl
      rw [this] at h
      simp at h; obtain ⟨h, _⟩ := h; subst h; rfl

theorem scanRest_wf (e f : Nat) (r : Str) (v : Ver) (r' : Str) (h : scanRest e f r = some (v, r')) : WF v := by
  unfold scanRest at h
  simp only [] at h
  split at h
  · simp at h
  · rename_i loc r2 hl
    simp only [Option.some.injEq, Prod.mk.injEq] at h
    obtain ⟨h, _⟩ := h; subst h
    simp [WF, Ver.wf, scanLocal_wf _ _ _ hl]

theorem scanCore_wf (s : Str) (v : Ver) (r : Str) (h : scanCore s = some (v, r)) : WF v := by
  rw [scanCore_eq] at h
  split at h
  · simp at h
  · split at h
    · simp at h
    · exact scanRest_wf _ _ _ _ _ h

/-- every value the scanner returns is well formed -/
theorem scan_wf (s : Str) (v : Ver) (h : scan s = some v) : WF v := by
  unfold scan at h
  split at h
  · simp at h
  · rename_i w r hc
    split at h
    · simp only [Option.some.injEq] at h; subst h; exact scanCore_wf _ _ _ hc
    · simp at h

end V
