import PkgProofs.Lemmas.PlatFamilies
namespace PlatL
open Py Tags Plat PlatSpec TagL

/-! ### tag spellings are injective -/

theorem dec_us_inj (x y : Nat) (r r' : Str) (h : dec x ++ 95 :: r = dec y ++ 95 :: r') : x = y ∧ r = r' := by
  have hx : spanDigits (dec x ++ 95 :: r) = (dec x, 95 :: r) :=
    spanDigits_dec x _ (by intro c hc; simp at hc; subst hc; decide)
  have hy : spanDigits (dec y ++ 95 :: r') = (dec y, 95 :: r') :=
    spanDigits_dec y _ (by intro c hc; simp at hc; subst hc; decide)
  rw [h, hy] at hx
  simp only [Prod.mk.injEq, List.cons.injEq, true_and] at hx
  exact ⟨(dec_inj hx.1).symm, hx.2.symm⟩

/-- `<prefix><A>_<k>_<suffix>` determines `A`, `k` and the suffix -/
theorem versioned_tag_inj (pre : Str) (A k A' k' : Nat) (s s' : Str)
    (h : pre ++ dec A ++ us ++ dec k ++ us ++ s = pre ++ dec A' ++ us ++ dec k' ++ us ++ s') :
    A = A' ∧ k = k' ∧ s = s' := by
  simp only [List.append_assoc, us, List.singleton_append] at h
  have h1 := dec_us_inj _ _ _ _ (List.append_cancel_left h)
  have h2 := dec_us_inj _ _ _ _ h1.2
  exact ⟨h1.1, h2.1, h2.2⟩

theorem nodup_descending (lo hi : Nat) : (descending lo hi).Nodup := nodup_olderMinors (hi + 1) lo

/-- the (major, minor) pairs of the iOS sequence, newest first -/
def iosPairs (v : Nat × Nat) : List (Nat × Nat) :=
  ((descending 0 v.2).map fun k => (v.1, k))
  ++ ((descending 12 (v.1 - 1)).flatMap fun A => (descending 0 iosMaxMinor).map fun k => (A, k))

theorem iosSpec_eq_pairs (v : Nat × Nat) (ma : Str) (h : 12 ≤ v.1) :
    iosSpec v ma = (iosPairs v).map fun p => iosTag p.1 p.2 (ma.map fun c => if c = 45 then 95 else c) := by
  have : ¬ v.1 < 12 := by omega
  simp [iosSpec, iosPairs, this, List.map_append, List.map_flatMap, Function.comp_def]

theorem nodup_iosPairs (v : Nat × Nat) : (iosPairs v).Nodup := by
  unfold iosPairs
  apply List.Nodup.append
  · exact List.Nodup.map (fun a b h => by simpa using h) (nodup_descending _ _)
  · rw [List.nodup_flatMap]
    constructor
    · intro A _
      exact List.Nodup.map (fun a b h => by simpa using h) (nodup_descending _ _)
    · have := nodup_descending 12 (v.1 - 1)
      rw [List.nodup_iff_pairwise_ne] at this
      refine this.imp ?_
      intro A B hAB
      simp only [Function.onFun, List.disjoint_left, List.mem_map]
      rintro p ⟨k, _, rfl⟩ ⟨k', _, h⟩
      simp only [Prod.mk.injEq] at h
      exact hAB h.1.symm
  · simp only [List.disjoint_left, List.mem_map, List.mem_flatMap, mem_descending]
    rintro p ⟨k, _, rfl⟩ ⟨A, hA, k', _, h⟩
    simp only [Prod.mk.injEq] at h
    omega

/-- iOS: no tag is listed twice -/
theorem ios_nodup (v : Nat × Nat) (ma : Str) : (iosSpec v ma).Nodup := by
  by_cases h : v.1 < 12
  · simp [iosSpec, h]
  · rw [iosSpec_eq_pairs v ma (by omega)]
    apply List.Nodup.map_on _ (nodup_iosPairs v)
    intro p _ q _ hpq
    have := versioned_tag_inj sIos_ p.1 p.2 q.1 q.2 _ _ hpq
    exact Prod.ext this.1 this.2.1

/-- musllinux: no tag is listed twice when the architectures have no repeats -/
theorem musl_nodup (V : Nat × Nat) (archs : List Str) (ha : archs.Nodup) : (musllinuxSpec V archs).Nodup := by
  unfold musllinuxSpec
  rw [List.nodup_flatMap]
  constructor
  · intro a _
    apply List.Nodup.map_on _ (nodup_descending _ _)
    intro k _ k' _ h
    exact (versioned_tag_inj sMusllinux_ V.1 k V.1 k' a a h).2.1
  · rw [List.nodup_iff_pairwise_ne] at ha
    refine ha.imp ?_
    intro a b hab
    simp only [Function.onFun, List.disjoint_left, List.mem_map]
    rintro t ⟨k, _, rfl⟩ ⟨k', _, h⟩
    exact hab (versioned_tag_inj sMusllinux_ V.1 k' V.1 k b a h).2.2.symm

/-! ### macOS: no tag is listed twice -/

theorem lookup_mem {α β} [BEq α] [LawfulBEq α] {l : List (α × β)} {k : α} {v : β} (h : l.lookup k = some v) :
    (k, v) ∈ l := by
  induction l with
  | nil => simp [List.lookup] at h
  | cons p t ih =>
    obtain ⟨k', v'⟩ := p
    by_cases hk : k = k'
    · subst hk; simp [List.lookup] at h; subst h; simp
    · have : (k == k') = false := by simpa using hk
      simp only [List.lookup, this] at h
      exact List.mem_cons_of_mem _ (ih h)

theorem nodup_ite {α} (c : Prop) [Decidable c] (l : List α) (h : l.Nodup) : (if c then l else []).Nodup := by
  by_cases hc : c <;> simp [hc, h]

theorem nodup_macFormats (v : Nat × Nat) (arch : Str) : (macFormatsSpec v arch).Nodup := by
  unfold macFormatsSpec
  cases h : macFormatTable.lookup arch with
  | none => simp
  | some r =>
    obtain ⟨lo, hi, fs⟩ := r
    have hall : ∀ row ∈ macFormatTable, row.2.2.2.Nodup := by decide
    have hfs : fs.Nodup := hall _ (lookup_mem h)
    exact nodup_ite _ _ hfs

theorem nodup_mac_block (M : Nat) (ks : List Nat) (hk : ks.Nodup) (F : Nat → List Str) (hF : ∀ k, (F k).Nodup) :
    (ks.flatMap fun k => (F k).map fun f => macTag M k f).Nodup := by
  rw [List.nodup_flatMap]
  constructor
  · intro k _
    apply List.Nodup.map_on _ (hF k)
    intro f _ f' _ h
    exact (versioned_tag_inj sMacosx_ M k M k f f' h).2.2
  · rw [List.nodup_iff_pairwise_ne] at hk
    refine hk.imp ?_
    intro k k' hkk
    simp only [Function.onFun, List.disjoint_left, List.mem_map]
    rintro t ⟨f, _, rfl⟩ ⟨f', _, h⟩
    exact hkk (versioned_tag_inj sMacosx_ M k' M k f' f h).2.1.symm

theorem nodup_mac_majors (Ms : List Nat) (hM : Ms.Nodup) (F : Nat → List Str) (hF : ∀ k, (F k).Nodup) :
    (Ms.flatMap fun M => (F M).map fun f => macTag M 0 f).Nodup := by
  rw [List.nodup_flatMap]
  constructor
  · intro M _
    apply List.Nodup.map_on _ (hF M)
    intro f _ f' _ h
    exact (versioned_tag_inj sMacosx_ M 0 M 0 f f' h).2.2
  · rw [List.nodup_iff_pairwise_ne] at hM
    refine hM.imp ?_
    intro M M' hMM
    simp only [Function.onFun, List.disjoint_left, List.mem_map]
    rintro t ⟨f, _, rfl⟩ ⟨f', _, h⟩
    exact hMM (versioned_tag_inj sMacosx_ M' 0 M 0 f' f h).1.symm

theorem mac_nodup (v : Nat × Nat) (arch : Str) : (macSpec v arch).Nodup := by
  unfold macSpec
  by_cases h10 : v.1 = 10
  · simp only [h10, if_true]
    exact nodup_mac_block 10 _ (nodup_descending _ _) (fun k => macFormatsSpec (10, k) arch)
      (fun k => nodup_macFormats _ _)
  · by_cases h11 : v.1 ≥ 11
    · simp only [h10, h11, if_false, if_true]
      apply List.Nodup.append
      · exact nodup_mac_majors _ (nodup_descending _ _) (fun M => macFormatsSpec (M, 0) arch)
          (fun M => nodup_macFormats _ _)
      · by_cases hx : arch = sX86_64
        · simp only [hx, if_true]
          exact nodup_mac_block 10 _ (nodup_descending _ _) (fun k => macFormatsSpec (10, k) sX86_64)
            (fun k => nodup_macFormats _ _)
        · simp only [hx, if_false]
          have := nodup_mac_block 10 (descending 4 16) (nodup_descending _ _) (fun _ => [sUniversal2]) (fun _ => by simp)
          simpa using this
      · simp only [List.disjoint_left, List.mem_flatMap, List.mem_map, mem_descending]
        rintro t ⟨M, hM, f, _, rfl⟩ ⟨k, _, hk⟩
        have key : ∀ f', macTag M 0 f ≠ macTag 10 k f' := by
          intro f' h
          have := (versioned_tag_inj sMacosx_ M 0 10 k f f' h).1
          omega
        by_cases hx : arch = sX86_64
        · simp only [hx, if_true, List.mem_map] at hk
          obtain ⟨f', _, h⟩ := hk
          exact key f' h.symm
        · simp only [hx, if_false, List.mem_singleton] at hk
          exact key _ hk
    · simp [h10, h11]

/-! ### manylinux: no tag is listed twice -/

def nM1 : Str := [109, 97, 110, 121, 108, 105, 110, 117, 120, 49]
def nM2010 : Str := [109, 97, 110, 121, 108, 105, 110, 117, 120, 50, 48, 49, 48]
def nM2014 : Str := [109, 97, 110, 121, 108, 105, 110, 117, 120, 50, 48, 49, 52]

theorem legacyName_cases {v : Nat × Nat} {l : Str} (h : legacyName v = some l) :
    (v = (2, 5) ∧ l = nM1) ∨ (v = (2, 12) ∧ l = nM2010) ∨ (v = (2, 17) ∧ l = nM2014) := by
  have hm := lookup_mem h
  have hall : ∀ p ∈ [pep513, pep571, pep599],
      (p.1 = (2, 5) ∧ p.2 = nM1) ∨ (p.1 = (2, 12) ∧ p.2 = nM2010) ∨ (p.1 = (2, 17) ∧ p.2 = nM2014) := by decide
  exact hall _ hm

theorem pep600_eq (v : Nat × Nat) (a : Str) :
    pep600Tag v a = 109 :: 97 :: 110 :: 121 :: 108 :: 105 :: 110 :: 117 :: 120 :: 95 :: (dec v.1 ++ 95 :: (dec v.2 ++ 95 :: a)) := by
  simp [pep600Tag, sManylinux_, us, List.append_assoc]

theorem pep600_inj {v v' : Nat × Nat} {a a' : Str} (h : pep600Tag v a = pep600Tag v' a') : v = v' ∧ a = a' := by
  have := versioned_tag_inj sManylinux_ v.1 v.2 v'.1 v'.2 a a' h
  exact ⟨Prod.ext this.1 this.2.1, this.2.2⟩

theorem pep600_ne_alias {v v' : Nat × Nat} {a a' l : Str} (hl : legacyName v' = some l) :
    pep600Tag v a ≠ l ++ us ++ a' := by
  intro h
  rw [pep600_eq] at h
  rcases legacyName_cases hl with ⟨_, rfl⟩ | ⟨_, rfl⟩ | ⟨_, rfl⟩ <;> simp [nM1, nM2010, nM2014, us] at h

theorem alias_inj {v v' : Nat × Nat} {a a' l l' : Str} (hl : legacyName v = some l) (hl' : legacyName v' = some l')
    (h : l ++ us ++ a = l' ++ us ++ a') : v = v' ∧ a = a' := by
  rcases legacyName_cases hl with ⟨rfl, rfl⟩ | ⟨rfl, rfl⟩ | ⟨rfl, rfl⟩ <;>
  rcases legacyName_cases hl' with ⟨rfl, rfl⟩ | ⟨rfl, rfl⟩ | ⟨rfl, rfl⟩ <;>
  simp [nM1, nM2010, nM2014, us] at h <;> simp [h]

/-- a tag determines the version and the architecture it was generated for -/
theorem mem_bodySpec_inj {allowed allowed' : Nat × Nat → Str → Bool} {a a' : Str} {v v' : Nat × Nat} {t : Str}
    (h : t ∈ bodySpec allowed a v) (h' : t ∈ bodySpec allowed' a' v') : v = v' ∧ a = a' := by
  have key : ∀ (al : Nat × Nat → Str → Bool) (b : Str) (w : Nat × Nat), t ∈ bodySpec al b w →
      t = pep600Tag w b ∨ ∃ l, legacyName w = some l ∧ t = l ++ us ++ b := by
    intro al b w hm
    unfold bodySpec at hm
    by_cases hal : al w b = true
    · simp only [hal, if_true, List.mem_cons] at hm
      rcases hm with rfl | hm
      · exact Or.inl rfl
      · right
        cases hl : legacyName w with
        | none => simp [hl] at hm
        | some l => simp only [hl, List.mem_singleton] at hm; exact ⟨l, rfl, hm⟩
    · simp [hal] at hm
  rcases key _ _ _ h with rfl | ⟨l, hl, rfl⟩ <;> rcases key _ _ _ h' with h2 | ⟨l', hl', h2⟩
  · exact pep600_inj h2
  · exact absurd h2 (pep600_ne_alias hl')
  · exact absurd h2.symm (pep600_ne_alias hl)
  · exact alias_inj hl hl' h2

theorem nodup_bodySpec (allowed : Nat × Nat → Str → Bool) (a : Str) (v : Nat × Nat) : (bodySpec allowed a v).Nodup := by
  unfold bodySpec
  by_cases hal : allowed v a = true
  · simp only [hal, if_true]
    cases hl : legacyName v with
    | none => simp
    | some l =>
      simp only [List.nodup_cons, List.mem_singleton, List.not_mem_nil, not_false_eq_true, List.nodup_nil, and_true]
      exact pep600_ne_alias hl
  · simp [hal]

theorem nodup_glibcVersionsDown (G floor : Nat × Nat) (last : Nat → Nat) : (glibcVersionsDown G floor last).Nodup := by
  unfold glibcVersionsDown
  rw [List.nodup_flatMap]
  constructor
  · intro M _
    exact List.Nodup.map (fun a b h => by simpa using h) (nodup_descending _ _)
  · have := nodup_descending floor.1 G.1
    rw [List.nodup_iff_pairwise_ne] at this
    refine this.imp ?_
    intro A B hAB
    simp only [Function.onFun, List.disjoint_left, List.mem_map]
    rintro p ⟨k, _, rfl⟩ ⟨k', _, h⟩
    simp only [Prod.mk.injEq] at h
    exact hAB h.1.symm

/-- manylinux: no tag is listed twice when the architectures have no repeats -/
theorem manylinux_nodup (G : Nat × Nat) (archs : List Str) (allowed : Nat × Nat → Str → Bool) (ok : Bool)
    (last : Nat → Nat) (ha : archs.Nodup) : (manylinuxSpec G archs allowed ok last).Nodup := by
  cases ok
  · simp [manylinuxSpec]
  · have hspec : manylinuxSpec G archs allowed true last =
        archs.flatMap fun a => (glibcVersionsDown G (glibcFloor a) last).flatMap (bodySpec allowed a) := rfl
    rw [hspec, List.nodup_flatMap]
    constructor
    · intro a _
      rw [List.nodup_flatMap]
      constructor
      · intro v _; exact nodup_bodySpec allowed a v
      · have := nodup_glibcVersionsDown G (glibcFloor a) last
        rw [List.nodup_iff_pairwise_ne] at this
        refine this.imp ?_
        intro v v' hvv
        simp only [Function.onFun, List.disjoint_left]
        intro t ht ht'
        exact hvv (mem_bodySpec_inj ht ht').1
    · rw [List.nodup_iff_pairwise_ne] at ha
      refine ha.imp ?_
      intro a a' haa
      simp only [Function.onFun, List.disjoint_left, List.mem_flatMap]
      rintro t ⟨v, _, ht⟩ ⟨v', _, ht'⟩
      exact haa (mem_bodySpec_inj ht ht').2

end PlatL
