import PkgProofs.Lemmas.SpellScan
/-!
# Spellings, part 6: `scan (render sp) = some (meaning sp)` for every valid spelling
-/
namespace Spelling
open Py V

theorem local_scan (loc : Option Local) (ws2 : Str) (hl : ∀ l, loc = some l → l.ok = true)
    (hws : ws2.all isSpace = true) : scanLocal (TL loc ws2) = some (loc.map Local.meaning, ws2) := by
  cases loc with
  | none =>
    cases ws2 with
    | nil => simp [TL, optR, scanLocal]
    | cons x xs =>
      have h : isWs x = true := by simp at hws; rw [← isSpace_eq]; exact hws.1
      have hx : x ≠ 43 := by intro h'; subst h'; simp [isWs] at h
      have : scanLocal (x :: xs) = some (none, x :: xs) := by
        unfold scanLocal
        split
        · rename_i heq; simp at heq; exact absurd heq.1 hx
        · rfl
      simpa [TL, optR] using this
  | some l =>
    have hok := hl l rfl
    simp only [Local.ok, Bool.and_eq_true] at hok
    obtain ⟨hf, hr⟩ := hok
    rw [segOk_iff] at hf
    have sp := span_local' l.first (restRender l.rest ++ ws2) hf.2 (rest_lend l.rest ws2 hr hws)
    have hlen : l.rest.length ≤ (l.first ++ (restRender l.rest ++ ws2)).length := by
      have := restRender_length l.rest hr; simp; omega
    have e2 := localTail_spelled l.rest ws2 hr hws _ hlen
    simp only [List.length_append] at e2
    have hm : List.map localSeg (List.map (fun p => p.2) l.rest) = List.map (fun p => segMeaning p.2) l.rest := by
      rw [List.map_map]; rfl
    simp [TL, optR, Local.render, scanLocal, sp.1, sp.2, hf.1, e2, Local.meaning, segMeaning_eq, hm]

/-- from the release tail to the trailing white space -/
theorem rest_scan (e f : Nat) (rels : List Digits) (pre : Option (Group PreWord)) (post : Option Post)
    (dev : Option (Group Unit)) (loc : Option Local) (ws2 : Str)
    (hrels : rels.all digitsOk = true) (hpre : preOk pre) (hp : postOk post) (hd : devOk dev)
    (hl : ∀ l, loc = some l → l.ok = true) (hws : ws2.all isSpace = true)
    (hamb : ¬ (preBare pre = true ∧ isImplicit post = true)) :
    scanRest e f (relRender rels ++ (optR Group.render pre ++ TP post dev loc ws2)) =
      some (⟨e, f :: rels.map value, pre.map (fun g => (g.kind.letter, g.number)), post.map Post.number,
             dev.map Group.number, loc.map Local.meaning⟩, ws2) := by
  -- what follows the release
  have hS : NoDigit (optR Group.render pre ++ TP post dev loc ws2) ∧
      ∀ r, optR Group.render pre ++ TP post dev loc ws2 = 46 :: r → NoDigit r := by
    cases pre with
    | none =>
      rcases tp_cls post dev loc ws2 hp hd hws with ⟨_, c⟩ | ⟨_, c⟩
      · exact ⟨by simpa [optR] using (c.noDigit (fun k hk => (hpd k hk).1)).1,
               by simpa [optR] using (c.after (fun k hk => (hpd k hk).1)).1⟩
      · exact ⟨by simpa [optR] using c.noDigit, by simpa [optR] using c.after.1⟩
    | some g =>
      obtain ⟨k, ks, h1, _, h3⟩ := preText_head g.kind
      have c : Cls [97, 98, 99, 112, 114] (g.render ++ TP post dev loc ws2) :=
        .inr (group_gs PreWord.text _ g _ (hpre g rfl) ⟨k, ks, h1, h3⟩)
      exact ⟨(c.noDigit (by decide)).1, (c.after (by decide)).1⟩
  have hlen : rels.length ≤ (relRender rels ++ (optR Group.render pre ++ TP post dev loc ws2)).length := by
    have := relRender_length rels; simp; omega
  have hrel := relTail_spelled rels _ hrels hS.1 hS.2 _ hlen
  obtain ⟨post', dev', hp', hd', hpn, hdn, hpre'⟩ := pre_stage pre post dev loc ws2 hpre hp hd hws hamb
  have hpost := post_stage post' dev' loc ws2 hp' hd' hws
  have hd'' : devOk (if postBare post' then dev'.map strip else dev') := by
    split
    · exact devOk_strip dev' hd'
    · exact hd'
  have hdn' : (if postBare post' then dev'.map strip else dev').map Group.number = dev.map Group.number := by
    split
    · rw [number_strip, hdn]
    · exact hdn
  have hdev := dev_stage _ loc ws2 hd'' hws
  have hloc := local_scan loc ws2 hl hws
  simp only [scanRest, hrel, hpre', hpost, hdev, hloc, hpn, hdn']

/-- the part after the optional white space and `v` -/
theorem core_scan (sp : Spelling) (hv : Valid sp = true) :
    scanCore (optR (fun c => [c]) sp.v ++ (optR (fun d => d ++ [33]) sp.epoch ++ (sp.rel0 ++ (relRender sp.rels ++
      (optR Group.render sp.pre ++ TP sp.post sp.dev sp.loc sp.ws2))))) = some (meaning sp, sp.ws2) := by
  obtain ⟨ws1, v, epoch, rel0, rels, pre, post, dev, loc, ws2⟩ := sp
  simp only [Valid, Bool.and_eq_true, Bool.not_eq_true'] at hv
  obtain ⟨⟨⟨⟨⟨⟨⟨⟨⟨⟨_, hws⟩, hvv⟩, hep⟩, hr0⟩, hrels⟩, hpre⟩, hpost⟩, hdev⟩, hloc⟩, hamb⟩ := hv
  simp only at *
  have hpre' : preOk pre := by intro g hg; subst hg; exact hpre
  have hpost' : postOk post := by intro g hg; subst hg; exact hpost
  have hdev' : devOk dev := by intro g hg; subst hg; exact hdev
  have hloc' : ∀ l, loc = some l → l.ok = true := by intro g hg; subst hg; exact hloc
  have hamb' : ¬ (preBare pre = true ∧ isImplicit post = true) := by
    rintro ⟨h1, h2⟩
    cases pre with
    | none => simp [preBare] at h1
    | some g =>
      cases post with
      | none => simp [isImplicit] at h2
      | some p =>
        cases p with
        | spelled _ => simp [isImplicit] at h2
        | implicit n => simp [ambiguous, preBare] at hamb h1; rw [h1] at hamb; exact absurd hamb (by simp)
  -- what follows the first release number
  obtain ⟨c0, cs0, hc0, hd0⟩ := digits_head rel0 hr0
  have hZ : NoDigit (relRender rels ++ (optR Group.render pre ++ TP post dev loc ws2)) ∧
      ∀ t, relRender rels ++ (optR Group.render pre ++ TP post dev loc ws2) ≠ 33 :: t := by
    have hS : NoDigit (optR Group.render pre ++ TP post dev loc ws2) ∧
        ∀ t, optR Group.render pre ++ TP post dev loc ws2 ≠ 33 :: t := by
      cases pre with
      | none =>
        rcases tp_cls post dev loc ws2 hpost' hdev' hws with ⟨_, c⟩ | ⟨_, c⟩
        · exact ⟨by simpa [optR] using (c.noDigit (fun k hk => (hpd k hk).1)).1,
                 by simpa [optR] using (c.after (fun k hk => (hpd k hk).1)).2.2⟩
        · exact ⟨by simpa [optR] using c.noDigit, by simpa [optR] using c.after.2⟩
      | some g =>
        obtain ⟨k, ks, h1, _, h3⟩ := preText_head g.kind
        have c : Cls [97, 98, 99, 112, 114] (g.render ++ TP post dev loc ws2) :=
          .inr (group_gs PreWord.text _ g _ (hpre' g rfl) ⟨k, ks, h1, h3⟩)
        exact ⟨(c.noDigit (by decide)).1, (c.after (by decide)).2.2⟩
    refine ⟨noDigit_rel rels _ hS.1, ?_⟩
    rcases relRender_head rels with h0 | ⟨t, h0⟩ <;> rw [h0]
    · simpa using hS.2
    · intro t; simp
  have hrest := fun e => rest_scan e (value rel0) rels pre post dev loc ws2 hrels hpre' hpost' hdev' hloc' hws hamb'
  have hr := optNum_digits rel0 _ hr0 hZ.1
  rw [scanCore_eq]
  -- the `v`
  have hstrip : stripV (optR (fun c => [c]) v ++ (optR (fun d => d ++ [33]) epoch ++ (rel0 ++
      (relRender rels ++ (optR Group.render pre ++ TP post dev loc ws2))))) =
      optR (fun d => d ++ [33]) epoch ++ (rel0 ++ (relRender rels ++ (optR Group.render pre ++ TP post dev loc ws2))) := by
    cases v with
    | some c =>
      have : (lowerAscii c == 118) = true := hvv
      simp [optR, stripV, this]
    | none =>
      cases epoch with
      | none => subst hc0; simpa [optR] using stripV_digit c0 _ hd0
      | some d =>
        obtain ⟨c, cs, rfl, hc⟩ := digits_head d hep
        simpa [optR] using stripV_digit c _ hc
  rw [hstrip]
  cases epoch with
  | none =>
    have : optR (fun d => d ++ [33]) (none : Option Digits) ++ (rel0 ++ (relRender rels ++
        (optR Group.render pre ++ TP post dev loc ws2))) =
        rel0 ++ (relRender rels ++ (optR Group.render pre ++ TP post dev loc ws2)) := rfl
    rw [this, hr]
    simp only [epochStep_no _ _ hZ.2, hrest]
    simp [meaning]
  | some d =>
    have hnb : NoDigit (33 :: (rel0 ++ (relRender rels ++ (optR Group.render pre ++ TP post dev loc ws2)))) := by
      intro c hc; simp at hc; subst hc; decide
    have e1 := optNum_digits d _ hep hnb
    have : optR (fun d => d ++ [33]) (some d) ++ (rel0 ++ (relRender rels ++ (optR Group.render pre ++ TP post dev loc ws2))) =
        d ++ (33 :: (rel0 ++ (relRender rels ++ (optR Group.render pre ++ TP post dev loc ws2)))) := by
      simp [optR]
    rw [this, e1]
    simp only [epochStep, hr, hrest]
    simp [meaning]

/-- **Every alternate spelling is read as its PEP 440 meaning.** -/
theorem scan_render (sp : Spelling) (hv : Valid sp = true) : scan (render sp) = some (meaning sp) := by
  have hc := core_scan sp hv
  have hws : sp.ws1.all isSpace = true ∧ sp.ws2.all isSpace = true := by
    simp only [Valid, Bool.and_eq_true] at hv
    exact ⟨hv.1.1.1.1.1.1.1.1.1.1, hv.1.1.1.1.1.1.1.1.1.2⟩
  -- leading white space is dropped; what follows is `v` or a digit
  have hhead : ∀ c, (optR (fun c => [c]) sp.v ++ (optR (fun d => d ++ [33]) sp.epoch ++ (sp.rel0 ++ (relRender sp.rels ++
      (optR Group.render sp.pre ++ TP sp.post sp.dev sp.loc sp.ws2))))).head? = some c → isWs c = false := by
    simp only [Valid, Bool.and_eq_true] at hv
    obtain ⟨⟨⟨⟨⟨⟨⟨⟨⟨⟨_, _⟩, hvv⟩, hep⟩, hr0⟩, _⟩, _⟩, _⟩, _⟩, _⟩, _⟩ := hv
    intro c hc
    cases hv' : sp.v with
    | some x =>
      rw [hv'] at hvv hc
      simp [optR] at hc; subst hc
      have : lowerAscii x = 118 := by simpa using hvv
      cases hw : isWs x with
      | false => rfl
      | true => rw [lower_ws hw] at this; subst this; simp [isWs] at hw
    | none =>
      rw [hv'] at hc
      cases he : sp.epoch with
      | some d =>
        rw [he] at hep hc
        obtain ⟨x, xs, hd, hx⟩ := digits_head d hep
        rw [hd] at hc; simp [optR] at hc; subst hc; exact isWs_digit hx
      | none =>
        rw [he] at hc
        obtain ⟨x, xs, hd, hx⟩ := digits_head sp.rel0 hr0
        rw [hd] at hc; simp [optR] at hc; subst hc; exact isWs_digit hx
  have hdrop : ∀ (w x : Str), w.all isSpace = true → (∀ c, x.head? = some c → isWs c = false) →
      (w ++ x).dropWhile isWs = x := by
    intro w x hw hx
    induction w with
    | nil =>
      cases x with
      | nil => rfl
      | cons c cs => simp [hx c rfl]
    | cons a as ih =>
      simp only [List.all_cons, Bool.and_eq_true] at hw
      have : isWs a = true := by rw [← isSpace_eq]; exact hw.1
      simp [this, ih hw.2]
  have hend : (sp.ws2.dropWhile isWs).isEmpty = true := by
    have := hdrop sp.ws2 [] hws.2 (by simp)
    simp at this; simp [this]
  have e : render sp = sp.ws1 ++ (optR (fun c => [c]) sp.v ++ (optR (fun d => d ++ [33]) sp.epoch ++ (sp.rel0 ++
      (relRender sp.rels ++ (optR Group.render sp.pre ++ TP sp.post sp.dev sp.loc sp.ws2))))) := by
    simp [render, TP, TD, TL]
  rw [e]
  simp only [scan, hdrop _ _ hws.1 hhead, hc, hend, if_true]

end Spelling
