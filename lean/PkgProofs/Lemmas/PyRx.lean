import PkgModel.PyRx
import PkgModel.Filenames
import PkgProofs.Lemmas.PyRt
import PkgProofs.Lemmas.Names
/-!
# Reasoning about `PkgModel/PyRx.lean`: the regex primitives against the scanners of the name / filename models,
sets as duplicate-free lists, loops with a state invariant
-/
namespace PyRx
open PyRt Py

/-! ### regenerated patterns -/

theorem rx_test_str (ranges : List (Nat × Nat × Nat)) (rx : Rx.R) (s : Str) :
    rx_test true ranges rx (.str s) = .ok (if Rx.accepts ranges rx s then matchNoGroups else .none) := by rfl

@[simp] theorem truthy_matchNoGroups : truthy matchNoGroups = true := by rfl
@[simp] theorem isNone_matchNoGroups : isNone matchNoGroups = false := by rfl

/-- `_canonicalize_regex.sub("-", s)` is the model's run-collapsing scan -/
theorem subRuns_collapse (s : Str) (b : Bool) :
    subRuns Gen.NameTables.separators [45] s b = Names.collapseAux s b := by
  induction s generalizing b with
  | nil => rfl
  | cons c cs ih =>
    simp only [subRuns, Names.collapseAux, Names.isSep, ih, List.singleton_append]
    rfl

theorem sub_class_plus_dash (s : Str) :
    sub_class_plus true Gen.NameTables.separators (.str [45]) (.str s) = .ok (.str (Names.collapse s)) := by
  simp [sub_class_plus, subRuns_collapse, Names.collapse]

/-- the inline project-name pattern of `parse_wheel_filename` -/
theorem classStar_nameOk (t : List (Nat × Nat)) (d : Bool) (s : Str) :
    classStar t d s = (match s with | [] => true | c :: r => (d && c == 10 && r.isEmpty) || (inRanges t c && classStar t d r)) := by
  cases s <;> rfl

theorem classStar_eq (s : Str) :
    classStar Gen.NameTables.wheelNameRanges Gen.NameTables.wheelNameDollar s = Fn.nameOk s := by
  unfold Fn.nameOk
  induction s with
  | nil => rfl
  | cons c r ih => simp only [classStar, Fn.nameOkWith, ih, Fn.nameChar, Fn.inRanges, inRanges]

theorem match_class_star_wheel (s : Str) :
    match_class_star true Gen.NameTables.wheelNameRanges Gen.NameTables.wheelNameDollar (.str s) =
      .ok (if Fn.nameOk s then matchNoGroups else .none) := by
  simp [match_class_star, classStar_eq]

/-- `"__" in s` -/
theorem isInfix_dunder (s : Str) : isInfix s [95, 95] = Fn.hasDunder s := by
  induction s with
  | nil => rfl
  | cons c r ih => simp only [isInfix, Fn.hasDunder, ih]

/-! ### `_build_tag_regex` -/

theorem inTable_digit (tab : List (Nat × Nat × Nat)) (c : Nat) : inTable tab c = (Fn.digitValIn tab c).isSome := by
  induction tab with
  | nil => rfl
  | cons r rest ih =>
    obtain ⟨lo, hi, v⟩ := r
    simp only [inTable, List.any_cons, Fn.digitValIn] at ih ⊢
    cases h : (decide (lo ≤ c) && decide (c ≤ hi))
    · simp only [Bool.false_or, Bool.false_eq_true, if_false]; exact ih
    · simp

theorem inTable_eq : inTable Gen.NameTables.digitTable = Fn.isUDigit := by
  funext c; simp [inTable_digit, Fn.isUDigit, Fn.digitVal]

theorem notDot_eq : (fun c => !inRanges Gen.NameTables.notDot c) = Fn.isDot := by
  funext c; simp [Fn.isDot, Fn.inRanges, inRanges]

/-- `_build_tag_regex.match(s)`: `None` or the two groups of the model's `parseBuild` (the first one as text) -/
theorem match_two_runs_build (s : Str) :
    match_two_runs true Gen.NameTables.digitTable Gen.NameTables.notDot (.str s) =
      .ok (if (s.takeWhile Fn.isUDigit).isEmpty then .none
           else .obj "re.Match" [("groups", .tuple [.str (s.takeWhile Fn.isUDigit),
                                                   .str ((s.dropWhile Fn.isUDigit).takeWhile Fn.isDot)])]) := by
  simp only [match_two_runs, inTable_eq, notDot_eq, Bool.not_true, Bool.false_eq_true, if_false]
  cases (s.takeWhile Fn.isUDigit).isEmpty <;> rfl

/-- with the `\d` of the source being the ASCII digits, `int()` of the first group is the model's `intU` -/
theorem digitTable_ascii : Gen.NameTables.digitTable = [(48, 57, 0)] := by decide

theorem isUDigit_ascii (c : Nat) : Fn.isUDigit c = isDigit c := by
  simp only [Fn.isUDigit, Fn.digitVal, digitTable_ascii, Fn.digitValIn, isDigit]
  cases (decide (48 ≤ c) && decide (c ≤ 57)) <;> simp

theorem undecAux_foldl (s : Str) (acc : Nat) (h : ∀ c ∈ s, isDigit c = true) :
    undecAux s acc = s.foldl (fun a c => a * 10 + (Fn.digitVal c).getD 0) acc := by
  induction s generalizing acc with
  | nil => rfl
  | cons c cs ih =>
    have hc := h c (List.mem_cons_self ..)
    simp only [isDigit, Bool.and_eq_true, decide_eq_true_eq] at hc
    have hv : (Fn.digitVal c).getD 0 = c - 48 := by
      simp only [Fn.digitVal, digitTable_ascii, Fn.digitValIn]
      have : (decide (48 ≤ c) && decide (c ≤ 57)) = true := by simp [hc.1, hc.2]
      simp only [this, if_true, Option.getD_some]; omega
    simp only [undecAux, List.foldl_cons, hv]
    exact ih _ (fun x hx => h x (List.mem_cons_of_mem _ hx))

theorem int_digits (s : Str) (hne : s.isEmpty = false) (h : ∀ c ∈ s, Fn.isUDigit c = true) :
    int_ (.str s) = .ok (.int (Fn.intU s)) := by
  have hd : ∀ c ∈ s, isDigit c = true := fun c hc => by rw [← isUDigit_ascii]; exact h c hc
  have h1 : isDigitStr s = true := by
    simp only [isDigitStr, hne, Bool.not_false, Bool.true_and, List.all_eq_true]; exact hd
  simp only [int_, parseInt, h1, if_true, undec, undecAux_foldl s 0 hd, Fn.intU, pure_ok]

/-! ### `str.lower` -/

theorem lower_ascii (s : Str) (h : ∀ c ∈ s, c < 128) : Names.lower s = lowerStr s := by
  induction s with
  | nil => rfl
  | cons c cs ih =>
    have hc : c < 128 := h c (List.mem_cons_self ..)
    simp only [Names.lower, List.flatMap_cons, Names.lowerCp, hc, if_true, lowerStr, List.map_cons, List.singleton_append,
      List.cons.injEq, true_and]
    exact ih (fun x hx => h x (List.mem_cons_of_mem _ hx))

/-! ### loops whose state keeps a representation invariant -/

/-- a loop without `break` whose state is always `rep t`: a left fold over the abstract state -/
theorem forIn_rep_ok {σ τ : Type} (l : List PyVal) (rep : τ → σ) (init : τ) (f : PyVal → σ → M (ForInStep σ))
    (g : PyVal → τ → τ) (h : ∀ x ∈ l, ∀ t, f x (rep t) = .ok (.yield (rep (g x t)))) :
    forIn l (rep init) f = (.ok (rep (l.foldl (fun t x => g x t) init)) : M σ) := by
  induction l generalizing init with
  | nil => simp
  | cons x xs ih =>
    simp only [List.forIn_cons, h x (List.mem_cons_self ..) init, List.foldl_cons, ok_bind]
    exact ih _ (fun y hy t => h y (List.mem_cons_of_mem _ hy) t)

/-- the same over a list of strings -/
theorem forIn_strs_rep {σ τ : Type} (l : List Str) (rep : τ → σ) (init : τ) (f : PyVal → σ → M (ForInStep σ))
    (g : Str → τ → τ) (h : ∀ x ∈ l, ∀ t, f (.str x) (rep t) = .ok (.yield (rep (g x t)))) :
    forIn (l.map PyVal.str) (rep init) f = (.ok (rep (l.foldl (fun t x => g x t) init)) : M σ) := by
  rw [forIn_rep_ok (l.map PyVal.str) rep init f (fun v t => match v with | .str x => g x t | _ => t)]
  · rw [List.foldl_map]
  · intro x hx t
    simp only [List.mem_map] at hx
    obtain ⟨y, hy, rfl⟩ := hx
    exact h y hy t

theorem foldl_flatMap' {α β γ : Type} (f : γ → β → γ) (k : α → List β) (l : List α) (init : γ) :
    l.foldl (fun acc a => (k a).foldl f acc) init = (l.flatMap k).foldl f init := by
  induction l generalizing init with
  | nil => rfl
  | cons a as ih => simp only [List.foldl_cons, List.flatMap_cons, List.foldl_append, ih]

/-! ### sets as duplicate-free lists -/

/-- append `x` unless it is there already -/
def insertNew {α} [DecidableEq α] (l : List α) (x : α) : List α := if x ∈ l then l else l ++ [x]

/-- first occurrences, in order -/
def dedup {α} [DecidableEq α] (l : List α) : List α := l.foldl insertNew []

theorem memM_ok {α} [DecidableEq α] (eqf : PyVal → PyVal → M PyVal) (f : α → PyVal)
    (h : ∀ a b, eqf (f a) (f b) = .ok (.bool (decide (a = b)))) (x : α) (l : List α) :
    memM eqf (f x) (l.map f) = .ok (decide (x ∈ l)) := by
  induction l with
  | nil => simp [memM]
  | cons y ys ih =>
    simp only [List.map_cons, memM, h, ok_bind, truthy_bool, List.mem_cons]
    by_cases hyx : y = x
    · subst hyx; simp
    · have : ¬ x = y := fun e => hyx e.symm
      simp [hyx, this, ih]

theorem set_add_ok {α} [DecidableEq α] (eqf : PyVal → PyVal → M PyVal) (f : α → PyVal)
    (h : ∀ a b, eqf (f a) (f b) = .ok (.bool (decide (a = b)))) (l : List α) (x : α) :
    set_add eqf (mkSet "set" (l.map f)) (f x) = .ok (mkSet "set" ((insertNew l x).map f)) := by
  simp only [mkSet, set_add, memM_ok eqf f h, ok_bind, insertNew]
  by_cases hx : x ∈ l <;> simp [hx]

theorem set_of_set (kind : String) (eqf : PyVal → PyVal → M PyVal) (l : List PyVal) :
    set_of kind eqf (mkSet "set" l) = .ok (mkSet kind l) := by rfl

end PyRx
