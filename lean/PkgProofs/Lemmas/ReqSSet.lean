import PkgProofs.Lemmas.ReqRound
import PkgProofs.Lemmas.SpecSet
/-!
Lemma for C08: the specifier set of the requirement model (`Req.mkSpecSet`, a plain list of `S.Spec`) is the set the
`SpecifierSet` model (`SSet.ofString`) builds for the same string — so everything proved about `SSet` (C05, C06)
applies to `Requirement.specifier`.
-/
namespace ReqSSet
open Py Req
set_option linter.unusedSimpArgs false

/-- the requirement model's key is the `SpecifierSet` model's key, written as one string -/
def enc (k : SSet.CKey) : Str := opIndex k.1 :: k.2

theorem opIndex_inj (a b : S.Op) (h : opIndex a = opIndex b) : a = b := by
  cases a <;> cases b <;> simp [opIndex] at h <;> rfl

theorem enc_inj (a b : SSet.CKey) (h : enc a = enc b) : a = b := by
  obtain ⟨o1, v1⟩ := a; obtain ⟨o2, v2⟩ := b
  simp only [enc, List.cons.injEq] at h
  rw [opIndex_inj o1 o2 h.1, h.2]

theorem key_enc (sp : S.Spec) : Req.key sp = enc (SSet.key sp) := by
  unfold Req.key ckey SSet.key
  cases sp.canonical with
  | ok k => obtain ⟨o, v⟩ := k; rfl
  | error e => rfl

theorem hasKey_iff_sset (l : List S.Spec) (sp : S.Spec) :
    Req.hasKey l (Req.key sp) = SSet.hasKey (l.map fun x => (x, none)) (SSet.key sp) := by
  simp only [Req.hasKey, SSet.hasKey, List.any_map]
  congr 1
  funext x
  simp only [Function.comp, key_enc]
  by_cases h : SSet.key x = SSet.key sp
  · rw [h]; simp
  · have : enc (SSet.key x) ≠ enc (SSet.key sp) := fun e => h (enc_inj _ _ e)
    have h1 : (enc (SSet.key x) == enc (SSet.key sp)) = false := by simpa using this
    have h2 : (SSet.key x == SSet.key sp) = false := by simpa using h
    rw [h1, h2]

theorem foldl_insert_eq : (sps acc : List S.Spec) →
    (sps.map fun x => ((x, none) : SSet.Member)).foldl SSet.insert (acc.map fun x => (x, none)) =
      (sps.foldl insertSpec acc).map fun x => (x, none)
  | [], acc => rfl
  | sp :: sps, acc => by
    simp only [List.map_cons, List.foldl_cons]
    have : SSet.insert (acc.map fun x => ((x, none) : SSet.Member)) (sp, none) =
        (insertSpec acc sp).map fun x => (x, none) := by
      simp only [SSet.insert, insertSpec, hasKey_iff_sset acc sp]
      split <;> simp
    rw [this]
    exact foldl_insert_eq sps (insertSpec acc sp)

/-- **the specifier set a requirement holds is the `SpecifierSet` model's set for the same string**: same members in
the same (unobservable) insertion order, each with no `prereleases` override; the same exception otherwise -/
theorem mkSpecSet_eq_sset (s : Str) :
    (match SSet.ofString s none with
     | .ok T => mkSpecSet s = .ok (T.specs.map (·.1)) ∧ T.pre = none ∧ ∀ m ∈ T.specs, m.2 = none
     | .error e => (e = "InvalidSpecifier" ∧ mkSpecSet s = .error .invalidRequirement) ∨
                   (e = "InvalidVersion" ∧ mkSpecSet s = .error .rawInvalidVersion)) := by
  unfold SSet.ofString mkSpecSet
  cases hp : SSet.parseAll (SSet.clauses s) with
  | none => simp [parseAll, clauses, hp]
  | some sps =>
    simp only [parseAll, clauses, hp, SSet.ofSpecs]
    have hall : (sps.all fun sp => (ckey sp).isSome) = ((sps.map fun sp => ((sp, none) : SSet.Member)).all fun m => m.1.canonical.isOk) := by
      simp only [List.all_map]
      congr 1
      funext sp
      simp only [Function.comp, ckey]
      cases sp.canonical <;> rfl
    rw [hall]
    cases hc : ((sps.map fun sp => ((sp, none) : SSet.Member)).all fun m => m.1.canonical.isOk) with
    | false => simp
    | true =>
      simp only [if_true]
      have := foldl_insert_eq sps []
      simp only [List.map_nil] at this
      refine ⟨?_, trivial, ?_⟩
      · simp only [SSet.fromList, this, specSet, List.map_map]
        have : ((fun (x : SSet.Member) => x.1) ∘ fun (x : S.Spec) => ((x, none) : SSet.Member)) = id := rfl
        rw [this, List.map_id]
      · intro m hm
        simp only [SSet.fromList, this, List.mem_map] at hm
        obtain ⟨x, _, rfl⟩ := hm
        rfl

/-- `str(r.specifier)` is `SSet.SpecSet.str` on the members -/
theorem specStr_eq_sset (T : SSet.SpecSet) : specStr (T.specs.map (·.1)) = T.str T.specs := by
  simp only [specStr, SSet.SpecSet.str, List.map_map]
  rfl
end ReqSSet
