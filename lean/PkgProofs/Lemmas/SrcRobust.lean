import PkgModel.PyRt
import PkgModel.PyRx
import PkgProofs.Lemmas.PyRt
import PkgProofs.Lemmas.PyRx
/-!
# Shape-independent evaluation lemmas for the translated source (x4)

The `Src.<f>_eq_model` proofs should accept every behaviour-preserving spelling of the Python function.  The lemmas
here turn the run-time forms that different spellings of the same test produce (`x in [a, b]`, an `if`/`elif` chain,
a look-up in a constant dict, `s.startswith((p, q))` …) into one normal form: a chain of `if` on plain equalities /
Boolean functions of the model, which `split` / `by_cases` then decide uniformly.
-/
namespace PyRt
open Py

/-- a look-up in a constant dict with string keys is the `if` chain over its keys -/
theorem const_dict_get_nil (k d : PyVal) : PyRx.const_dict_get [] k d = .ok d := by rfl

theorem const_dict_get_cons_str (k : Str) (v : PyVal) (rest : List (PyVal × PyVal)) (l : Str) (d : PyVal) :
    PyRx.const_dict_get ((.str k, v) :: rest) (.str l) d =
      if l = k then .ok v else PyRx.const_dict_get rest (.str l) d := by
  by_cases h : l = k
  · subst h; simp [PyRx.const_dict_get, List.find?_cons]
  · have : (k == l) = false := by simpa using fun e => h e.symm
    simp [PyRx.const_dict_get, List.find?_cons, h, this]

end PyRt
