import PkgModel.PyRt
import PkgModel.PyRx
import PkgProofs.Lemmas.PyRt
import PkgProofs.Lemmas.PyRx
/-!
# Shape-independent evaluation lemmas for the translated source (x4)

The `Src.<f>_eq_model` proofs should accept every behaviour-preserving spelling of the Python function.  The lemmas
here turn the run-time forms that different spellings of the same test produce (`x in [a, b]`, an `if`/`elif` chain,
a look-up in a constant dict, `s.startswith((p, q))` …) into one normal form: a chain of `if` on plain equalities /
Boolean functions of the model, which `split` / `by_cases` then decide uniformly.
-/
namespace PyRt
open Py

/-- a look-up in a constant dict with string keys is the `if` chain over its keys -/
theorem const_dict_get_nil (k d : PyVal) : PyRx.const_dict_get [] k d = .ok d := by rfl

theorem const_dict_get_cons_str (k : Str) (v : PyVal) (rest : List (PyVal × PyVal)) (l : Str) (d : PyVal) :
    PyRx.const_dict_get ((.str k, v) :: rest) (.str l) d =
      if l = k then .ok v else PyRx.const_dict_get rest (.str l) d := by
  by_cases h : l = k
  · subst h; simp [PyRx.const_dict_get, List.find?_cons]
  · have : (k == l) = false := by simpa using fun e => h e.symm
    simp [PyRx.const_dict_get, List.find?_cons, h, this]

/-! ### early `return` inside `try` / loops: Lean's `do` notation runs the block in `ExceptT ρ M` and dispatches on the result -/

theorem er_throw {ρ α : Type} (r : ρ) :
    (throw r : ExceptT ρ M α) = (show M (Except ρ α) from Except.ok (Except.error r)) := by rfl
theorem er_pure {ρ α : Type} (a : α) :
    (pure a : ExceptT ρ M α) = (show M (Except ρ α) from Except.ok (Except.ok a)) := by rfl

/-- both arms succeed: pull the test inside (so that a following `match` on the result reduces) -/
theorem ite_ok {ε α} (c : Prop) [Decidable c] (a b : α) :
    (if c then (Except.ok a : Except ε α) else Except.ok b) = Except.ok (if c then a else b) := by
  split <;> rfl

/-- `if b: return True` / `return False` is `return b` -/
theorem ite_bool_true_false (b : Bool) : (if b = true then PyVal.bool true else PyVal.bool false) = PyVal.bool b := by
  cases b <;> rfl
theorem ite_bool_false_true (b : Bool) : (if b = true then PyVal.bool false else PyVal.bool true) = PyVal.bool (!b) := by
  cases b <;> rfl

/-! ### membership in a constant collection of strings, whatever its kind and order -/

theorem contains_list_nil (x : PyVal) : contains (.list []) x = .ok false := by rfl
theorem contains_tuple_nil (x : PyVal) : contains (.tuple []) x = .ok false := by rfl
theorem contains_list_cons_str (k : Str) (rest : List PyVal) (s : Str) :
    contains (.list (.str k :: rest)) (.str s) = if s = k then .ok true else contains (.list rest) (.str s) := by
  by_cases h : s = k <;> simp [contains, h, pure, Except.pure]
theorem contains_tuple_cons_str (k : Str) (rest : List PyVal) (s : Str) :
    contains (.tuple (.str k :: rest)) (.str s) = if s = k then .ok true else contains (.tuple rest) (.str s) := by
  by_cases h : s = k <;> simp [contains, h, pure, Except.pure]
theorem contains_set_str (a : PyVal) (s : Str) : contains_set a (.str s) = contains a (.str s) := by
  simp [contains_set, hashable]

/-! ### `str.partition` / `str.split(c, 1)` -/

/-- `s.split(c, 1)` is `[s]` (no `c` in `s`) or two pieces -/
theorem splitOnMax_one_cases (c : Nat) (s : Str) :
    splitOnMax c 1 s = [s] ∨ ∃ a b, splitOnMax c 1 s = [a, b] := by
  induction s with
  | nil => exact .inl rfl
  | cons x xs ih =>
    by_cases hx : (x == c) = true
    · exact .inr ⟨[], xs, by simp [splitOnMax, hx]⟩
    · have hx' : (x == c) = false := by simpa using hx
      rcases ih with h | ⟨a, b, h⟩
      · exact .inl (by simp [splitOnMax, hx', h])
      · exact .inr ⟨x :: a, b, by simp [splitOnMax, hx', h]⟩

/-- the first piece of `s.partition(c)` is the first piece of `s.split(c, 1)` -/
theorem str_partition_head (s : Str) (c : Nat) :
    ∃ a sep b, str_partition (.str s) (.str [c]) = .ok (.tuple [.str a, .str sep, .str b]) ∧
      (splitOnMax c 1 s).head? = some a := by
  rcases splitOnMax_one_cases c s with h | ⟨a, b, h⟩
  · exact ⟨s, [], [], by simp [str_partition, h], by simp [h]⟩
  · exact ⟨a, [c], b, by simp [str_partition, h], by simp [h]⟩

end PyRt

/-- symbolic evaluation of a translated `do` block: the run-time's evaluation lemmas (already `@[simp]`), the plumbing of
early returns, constant membership / table look-ups as `if` chains, plus the lemmas given -/
syntax "src_simp" (" [" Lean.Parser.Tactic.simpLemma,* "]")? : tactic
macro_rules
  | `(tactic| src_simp) => `(tactic| src_simp [])
  | `(tactic| src_simp [$ts,*]) => `(tactic|
      simp (config := {decide := true}) [EarlyReturnT.return, EarlyReturn.runK, ExceptT.run, StateT.pure, StateT.bind, StateT.run, StateT.get,
        StateT.set, StateT.lift, StateT.map, ExceptT.pure, ExceptT.mk, ExceptT.lift, PyRt.er_throw, PyRt.er_pure, PyRt.ite_ok, PyRt.ite_bool_true_false, PyRt.ite_bool_false_true, Except.map,
        PyRt.contains_list_nil, PyRt.contains_tuple_nil, PyRt.contains_list_cons_str, PyRt.contains_tuple_cons_str,
        PyRt.contains_set_str, PyRt.const_dict_get_cons_str, PyRt.const_dict_get_nil, PyRt.is_none, PyRt.is_not_none, $ts,*])
