import Mathlib.Data.List.Nodup
import PkgModel.Tags
import PkgModel.Spec.Tags
import PkgProofs.Lemmas.Dec
/-! helper lemmas for C15/C16: erase vs filter, descending ranges, digit scanning, lower-casing, block lists -/
namespace TagL
open Py Tags

/-! ### `list.remove` of a value occurring at most once is a filter -/

theorem erase_eq_filter_of_count_le_one (a : Str) (l : List Str) (h : l.count a ≤ 1) :
    l.erase a = l.filter (fun x => x != a) := by
  induction l with
  | nil => rfl
  | cons b t ih =>
    by_cases hb : b = a
    · subst hb
      have ht : t.count b = 0 := by simpa using h
      have hnot : b ∉ t := List.count_eq_zero.mp ht
      simp only [List.erase_cons_head, bne_self_eq_false, Bool.false_eq_true, not_false_eq_true,
        List.filter_cons_of_neg]
      symm
      rw [List.filter_eq_self]
      intro x hx
      have : x ≠ b := fun e => hnot (e ▸ hx)
      simpa using this
    · have hc : t.count a ≤ 1 := by
        rw [List.count_cons_of_ne (by simpa using hb)] at h; exact h
      have hba : (b == a) = false := by simpa using hb
      rw [List.erase_cons_tail (by simp [hba]), ih hc]
      simp [hb]

theorem dropFirst_eq_erase (x : Str) (l : List Str) : TagSpec.dropFirst x l = l.erase x := by
  induction l with
  | nil => rfl
  | cons a t ih =>
    by_cases h : a = x
    · subst h; simp [TagSpec.dropFirst]
    · have : (a == x) = false := by simpa using h
      simp [TagSpec.dropFirst, h, ih, List.erase_cons, this]

theorem remove_explicit (abis : List Str) : (abis.erase sAbi3).erase sNone = TagSpec.givenAbis abis := by
  simp [TagSpec.givenAbis, dropFirst_eq_erase]

/-- without repeats, the given ABIs are simply the ABIs other than `abi3` and `none` -/
theorem givenAbis_eq_filter (abis : List Str) (h3 : abis.count sAbi3 ≤ 1) (hn : abis.count sNone ≤ 1) :
    TagSpec.givenAbis abis = abis.filter (fun a => a != sAbi3 && a != sNone) := by
  have hne : sNone ≠ sAbi3 := by decide
  have hn' : (abis.erase sAbi3).count sNone ≤ 1 := by
    rw [List.count_erase_of_ne hne]; exact hn
  rw [← remove_explicit, erase_eq_filter_of_count_le_one _ _ hn', erase_eq_filter_of_count_le_one _ _ h3,
    List.filter_filter]
  congr 1
  funext x
  exact Bool.and_comm _ _

/-! ### descending ranges -/

theorem rangeDown_eq (hi lo : Nat) : rangeDown hi lo = TagSpec.olderMinors hi lo := by
  unfold TagSpec.olderMinors
  induction hi with
  | zero => simp [rangeDown]
  | succ h ih =>
    rw [rangeDown, List.range_succ, List.filter_append, List.reverse_append]
    by_cases hl : lo ≤ h
    · simp [hl, ih]
    · have : List.filter (fun x => decide (lo ≤ x)) (List.range h) = [] := by
        rw [List.filter_eq_nil_iff]
        intro x hx; have := List.mem_range.mp hx; simp; omega
      simp [hl, this]

theorem mem_olderMinors {hi lo z : Nat} : z ∈ TagSpec.olderMinors hi lo ↔ lo ≤ z ∧ z < hi := by
  simp [TagSpec.olderMinors, List.mem_range, and_comm]

theorem nodup_olderMinors (hi lo : Nat) : (TagSpec.olderMinors hi lo).Nodup := by
  unfold TagSpec.olderMinors
  exact List.nodup_reverse.mpr (List.Nodup.filter _ List.nodup_range)

/-! ### digit scanning -/

theorem spanDigits_eq (s : Str) : spanDigits s = (s.takeWhile isDigit, s.dropWhile isDigit) := by
  induction s with
  | nil => rfl
  | cons c cs ih =>
    by_cases h : isDigit c = true
    · simp [spanDigits, h, ih]
    · simp [spanDigits, h]

theorem takeWhile_isEmpty_iff (p : Nat → Bool) (s : Str) :
    (s.takeWhile p).isEmpty = !decide ((s.dropWhile p).length < s.length) := by
  cases s with
  | nil => simp
  | cons c cs =>
    by_cases h : p c = true
    · have := (List.dropWhile_suffix (l := cs) p).length_le
      simp [h]; omega
    · simp [h]

theorem isThreaded_eq (l : List Str) : isThreadedCpython l = TagSpec.freeThreaded l := by
  cases l with
  | nil => rfl
  | cons a t =>
    simp only [isThreadedCpython, TagSpec.freeThreaded, List.head?_cons, TagSpec.isFreeThreadedAbi]
    match a with
    | [] => simp [startsWith, sCp]
    | [c] => by_cases h : c = 99 <;> simp [startsWith, sCp, h]
    | c :: d :: rest =>
      by_cases hc : c = 99
      · by_cases hd : d = 112
        · subst hc hd
          simp only [startsWith, sCp, beq_self_eq_true, Bool.and_self, Bool.true_and, List.drop_succ_cons,
            List.drop_zero, spanDigits_eq, takeWhile_isEmpty_iff, hasChar]
          by_cases hl : (List.dropWhile isDigit rest).length < rest.length
          · simp [hl, List.elem_eq_contains]
          · simp [hl]
        · subst hc
          have : (d == 112) = false := by simpa using hd
          simp only [startsWith, sCp, this, Bool.and_false, Bool.false_and]
          split
          · rename_i heq; simp at heq; exact absurd heq.1 hd
          · rfl
      · have : (c == 99) = false := by simpa using hc
        simp only [startsWith, sCp, this, Bool.false_and]
        split
        · rename_i heq; simp at heq; exact absurd heq.1 hc
        · rfl

/-! ### tuple comparison against the abi3 threshold -/

theorem abi3Applies_eq (ver : List Nat) (given : List Str) (hv : ver.length = 1 ∨ ver.length = 2) :
    abi3Applies ver (isThreadedCpython given) = TagSpec.abi3Ok ver given := by
  rw [isThreaded_eq]
  match ver, hv with
  | [x], _ => simp [abi3Applies, TagSpec.abi3Ok]
  | [x, y], _ =>
    simp only [abi3Applies, TagSpec.abi3Ok, tupGe, tupLt, List.length_cons, List.length_nil]
    rcases Nat.lt_trichotomy x 3 with hx | hx | hx
    · have h1 : (x == 3) = false := by simp; omega
      have h2 : ¬ (x > 3) := by omega
      simp [h1, h2, hx]
    · subst hx
      rcases Nat.lt_trichotomy y 2 with hy | hy | hy
      · have h1 : (y == 2) = false := by simp; omega
        have h2 : ¬ (2 ≤ y) := by omega
        simp [h1, h2, hy]
      · subst hy; simp
      · have h1 : (y == 2) = false := by simp; omega
        have h2 : (2 ≤ y) := by omega
        have h3 : ¬ (y < 2) := by omega
        simp [h1, h2, h3]
    · have h1 : (x == 3) = false := by simp; omega
      have h2 : ¬ (x < 3) := by omega
      simp [h1, h2, hx]
  | [], h => simp at h
  | _ :: _ :: _ :: _, h => simp at h

theorem tupLt_pair (x y a b : Nat) :
    tupLt [x, y] [a, b] = !(decide (x > a) || (x == a && decide (y ≥ b))) := by
  simp only [tupLt]
  rcases Nat.lt_trichotomy x a with hx | hx | hx
  · have h1 : (x == a) = false := by simp; omega
    have h2 : ¬ (x > a) := by omega
    simp [h1, h2, hx]
  · subst hx
    rcases Nat.lt_trichotomy y b with hy | hy | hy
    · have h1 : (y == b) = false := by simp; omega
      have h2 : ¬ (b ≤ y) := by omega
      simp [h1, h2, hy]
    · subst hy; simp
    · have h1 : (y == b) = false := by simp; omega
      have h2 : (b ≤ y) := by omega
      have h3 : ¬ (y < b) := by omega
      simp [h1, h2, h3]
  · have h1 : (x == a) = false := by simp; omega
    have h2 : ¬ (x < a) := by omega
    simp [h1, h2, hx]

/-! ### lower-casing -/

theorem lowerStr_eq_self (s : Str) (h : ∀ c ∈ s, isUpperAscii c = false) : lowerStr s = s := by
  induction s with
  | nil => rfl
  | cons c cs ih =>
    have hc := h c (by simp)
    have := ih (fun d hd => h d (by simp [hd]))
    simp [lowerStr] at this ⊢
    simp [lowerAscii, hc, this]

theorem lowerStr_append (s t : Str) : lowerStr (s ++ t) = lowerStr s ++ lowerStr t := by
  simp [lowerStr]

theorem dec_noUpper (n : Nat) : ∀ c ∈ dec n, isUpperAscii c = false := by
  intro c hc
  have := dec_digits n c hc
  simp [isDigit, isUpperAscii] at this ⊢
  omega

theorem lowerStr_dec (n : Nat) : lowerStr (dec n) = dec n := lowerStr_eq_self _ (dec_noUpper n)

theorem lowerStr_idem (s : Str) : lowerStr (lowerStr s) = lowerStr s := by
  apply lowerStr_eq_self
  intro c hc
  simp only [lowerStr, List.mem_map] at hc
  obtain ⟨d, _, rfl⟩ := hc
  simp only [lowerAscii, isUpperAscii]
  by_cases h : 65 ≤ d ∧ d ≤ 90
  · simp [h]; omega
  · have : (decide (65 ≤ d) && decide (d ≤ 90)) = false := by simpa using h
    simp only [this]; simpa using h

/-! ### a sequence made of blocks `plats.map (mkTag i a)` -/

/-- the tag list made of one block per head, each block running through the platforms in order -/
def blocks (heads : List (Str × Str)) (plats : List Str) : List Tag :=
  heads.flatMap fun h => plats.map fun p => mkTag h.1 h.2 p

def key (h : Str × Str) : Str × Str := (lowerStr h.1, lowerStr h.2)

theorem blocks_append (h1 h2 : List (Str × Str)) (p : List Str) :
    blocks (h1 ++ h2) p = blocks h1 p ++ blocks h2 p := by
  simp [blocks]

theorem blocks_map_fst (i : Str) (as p : List Str) :
    blocks (as.map fun a => (i, a)) p = as.flatMap fun a => p.map fun q => mkTag i a q := by
  simp [blocks, List.flatMap_map]

theorem blocks_single (i a : Str) (p : List Str) : blocks [(i, a)] p = p.map fun q => mkTag i a q := by
  simp [blocks]

theorem mem_blocks {heads : List (Str × Str)} {plats : List Str} {t : Tag} :
    t ∈ blocks heads plats ↔ ∃ h ∈ heads, ∃ p ∈ plats, t = mkTag h.1 h.2 p := by
  simp only [blocks, List.mem_flatMap, List.mem_map]
  constructor
  · rintro ⟨h, hh, p, hp, rfl⟩; exact ⟨h, hh, p, hp, rfl⟩
  · rintro ⟨h, hh, p, hp, rfl⟩; exact ⟨h, hh, p, hp, rfl⟩

theorem nodup_blocks (heads : List (Str × Str)) (plats : List Str)
    (hh : (heads.map key).Nodup) (hp : (plats.map lowerStr).Nodup) : (blocks heads plats).Nodup := by
  unfold blocks
  rw [List.nodup_flatMap]
  constructor
  · intro h _
    have : (plats.map fun p => mkTag h.1 h.2 p) = (plats.map lowerStr).map (fun q => Tag.mk (lowerStr h.1) (lowerStr h.2) q) := by
      simp [mkTag]
    rw [this]
    apply List.Nodup.map _ hp
    intro a b hab
    simpa using hab
  · rw [List.nodup_iff_pairwise_ne, List.pairwise_map] at hh
    refine hh.imp ?_
    intro a b hab
    simp only [Function.onFun, List.Disjoint, List.mem_map]
    rintro t ⟨p, _, rfl⟩ ⟨q, _, hq⟩
    apply hab
    simp only [mkTag, Tag.mk.injEq] at hq
    simp [key, hq.1, hq.2.1]

end TagL
