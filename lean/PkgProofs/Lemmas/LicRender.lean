import PkgModel.License
import PkgModel.Spec.Spdx
/-!
# `" ".join` followed by the two `replace`s is the statement's rendering (single spaces, tight parentheses)
-/
namespace LicR
open Py Lic Spdx

/-- a canonical token: a parenthesis, or a non-empty word without blank or parenthesis -/
def CWord (x : Str) : Prop := x ≠ [] ∧ ∀ c ∈ x, c ≠ 32 ∧ c ≠ 40 ∧ c ≠ 41
def CTok (x : Str) : Prop := x = [40] ∨ x = [41] ∨ CWord x

/-! ### `replace2` -/

theorem replace2_cons_ne (a b : Nat) (new : Str) (x : Nat) (r : Str) (h : x ≠ a) :
    replace2 a b new (x :: r) = x :: replace2 a b new r := by
  cases r with
  | nil => simp [replace2]
  | cons y r' =>
    have : (x == a) = false := by simpa using h
    simp [replace2, this]

theorem replace2_append_ne (a b : Nat) (new : Str) (x r : Str) (h : ∀ c ∈ x, c ≠ a) :
    replace2 a b new (x ++ r) = x ++ replace2 a b new r := by
  induction x with
  | nil => rfl
  | cons c cs ih =>
    rw [List.cons_append, replace2_cons_ne _ _ _ _ _ (h c (by simp)), ih (fun d hd => h d (by simp [hd]))]
    rfl

theorem replace2_hit (a b : Nat) (new r : Str) : replace2 a b new (a :: b :: r) = new ++ replace2 a b new r := by
  simp [replace2]

theorem replace2_miss (a b : Nat) (new : Str) (y : Nat) (r : Str) (h : y ≠ b) :
    replace2 a b new (a :: y :: r) = a :: replace2 a b new (y :: r) := by
  have : (y == b) = false := by simpa using h
  simp [replace2, this]

/-! ### the intermediate form: no blank after `(` -/

def render1 : List Str → Str
  | [] => []
  | [x] => x
  | x :: y :: r => if x == [40] then x ++ render1 (y :: r) else x ++ 32 :: render1 (y :: r)

theorem ctok_ne32 {x : Str} (h : CTok x) : ∀ c ∈ x, c ≠ 32 := by
  rcases h with h | h | h
  · subst h; simp
  · subst h; simp
  · exact fun c hc => (h.2 c hc).1

theorem ctok_ne40 {x : Str} (h : CTok x) (hx : x ≠ [40]) : ∀ c ∈ x, c ≠ 40 := by
  rcases h with h | h | h
  · exact absurd h hx
  · subst h; simp
  · exact fun c hc => (h.2 c hc).2.1

theorem step1 (strs : List Str) (h : ∀ x ∈ strs, CTok x) : replace2 40 32 [40] (joinSp strs) = render1 strs := by
  induction strs with
  | nil => rfl
  | cons x r ih =>
    have hx := h x List.mem_cons_self
    have hr : ∀ y ∈ r, CTok y := fun y hy => h y (List.mem_cons_of_mem _ hy)
    cases r with
    | nil =>
      simp only [joinSp, render1]
      by_cases h40 : x = [40]
      · subst h40; rfl
      · have := replace2_append_ne 40 32 [40] x [] (ctok_ne40 hx h40)
        simpa [replace2] using this
    | cons y r' =>
      simp only [joinSp, render1]
      by_cases h40 : x = [40]
      · subst h40
        simp only [List.cons_append, List.nil_append, replace2_hit, beq_self_eq_true, if_true, ih hr]
      · have hb : (x == [40]) = false := by simpa using h40
        rw [replace2_append_ne 40 32 [40] x _ (ctok_ne40 hx h40), replace2_cons_ne _ _ _ _ _ (by decide), ih hr]
        simp [hb]

theorem render1_head (y : Str) (r : List Str) : ∃ T, render1 (y :: r) = y ++ T := by
  cases r with
  | nil => exact ⟨[], by simp [render1]⟩
  | cons z r' =>
    simp only [render1]
    split
    · exact ⟨_, rfl⟩
    · exact ⟨_, rfl⟩

theorem step2 (strs : List Str) (h : ∀ x ∈ strs, CTok x) : replace2 32 41 [41] (render1 strs) = render strs := by
  induction strs with
  | nil => rfl
  | cons x r ih =>
    have hx := h x List.mem_cons_self
    have hr : ∀ y ∈ r, CTok y := fun y hy => h y (List.mem_cons_of_mem _ hy)
    cases r with
    | nil =>
      simp only [render1, render]
      have := replace2_append_ne 32 41 [41] x [] (ctok_ne32 hx)
      simpa [replace2] using this
    | cons y r' =>
      have hy := h y (List.mem_cons_of_mem _ List.mem_cons_self)
      have ih' := ih hr
      simp only [render1, render, show sLP = [40] from rfl, show sRP = [41] from rfl]
      by_cases h40 : x = [40]
      · subst h40
        simp only [beq_self_eq_true, if_true, Bool.true_or]
        rw [replace2_append_ne 32 41 [41] _ _ (by simp), ih']
      · have hb : (x == [40]) = false := by simpa using h40
        simp only [hb, Bool.false_eq_true, if_false, Bool.false_or]
        rw [replace2_append_ne 32 41 [41] x _ (ctok_ne32 hx)]
        obtain ⟨T, hT⟩ := render1_head y r'
        by_cases h41 : y = [41]
        · subst h41
          simp only [beq_self_eq_true, if_true]
          rw [hT] at ih' ⊢
          simp only [List.cons_append, List.nil_append] at ih' ⊢
          rw [replace2_hit]
          rw [replace2_cons_ne _ _ _ _ _ (by decide)] at ih'
          rw [← ih']; rfl
        · have hb2 : (y == [41]) = false := by simpa using h41
          simp only [hb2, Bool.false_eq_true, if_false]
          -- the first character of `y` is not `)`
          cases y with
          | nil =>
            rcases hy with hy | hy | hy
            · simp at hy
            · simp at hy
            · exact absurd rfl hy.1
          | cons c cs =>
            have hc : c ≠ 41 := by
              rcases hy with hy | hy | hy
              · simp only [List.cons.injEq] at hy; omega
              · exact absurd hy h41
              · exact (hy.2 c (by simp)).2.2
            rw [hT] at ih' ⊢
            simp only [List.cons_append] at ih' ⊢
            rw [replace2_miss _ _ _ _ _ hc, ih']

/-- `tighten ∘ joinSp = render` on canonical tokens -/
theorem tighten_join (strs : List Str) (h : ∀ x ∈ strs, CTok x) : tighten (joinSp strs) = render strs := by
  unfold tighten
  rw [step1 strs h, step2 strs h]

end LicR
