import PkgProofs.Lemmas.SpellStages
/-!
# Spellings, part 4: the scanner's stages on the rendered tail (pre, post, dev, local, white space)
-/
namespace Spelling
open Py V

/-! ### continuation classes, packaged -/

/-- empty / `+` / white space, or the start of a letter group whose word begins with one of `heads` -/
def Cls (heads : List Nat) (s : Str) : Prop := K0 s ∨ GS heads s

theorem GS.mono {h1 h2 : List Nat} {s : Str} (hsub : ∀ k ∈ h1, k ∈ h2) (h : GS h1 s) : GS h2 s := by
  obtain ⟨sep, w, t, k, ks, e, hw, hk⟩ := h
  exact ⟨sep, w, t, k, ks, e, hw, hsub k hk⟩

theorem Cls.mono {h1 h2 : List Nat} {s : Str} (hsub : ∀ k ∈ h1, k ∈ h2) (h : Cls h1 s) : Cls h2 s :=
  h.imp id (GS.mono hsub)

theorem Cls.noDigit {heads : List Nat} {s : Str} (hh : ∀ k ∈ heads, 97 ≤ k) (h : Cls heads s) :
    NoDigit s ∧ NoDigit (optSep s) := by
  rcases h with h | h
  · exact ⟨h.noDigit, by rw [h.optSep_eq]; exact h.noDigit⟩
  · exact h.noDigit hh

theorem Cls.follow {heads : List Nat} {s : Str}
    (hh : ∀ k ∈ heads, 97 ≤ k ∧ k ≠ 108 ∧ k ≠ 101 ∧ k ≠ 118 ∧ k ≠ 99) (h : Cls heads s) : FollowOK s := by
  rcases h with h | h
  · exact h.follow
  · exact h.follow hh

/-- after a leading `.` or `-` there is no digit; no leading `!` -/
theorem Cls.after {heads : List Nat} {s : Str} (hh : ∀ k ∈ heads, 97 ≤ k) (h : Cls heads s) :
    (∀ r, s = 46 :: r → NoDigit r) ∧ (∀ r, s = 45 :: r → NoDigit r) ∧ (∀ r, s ≠ 33 :: r) := by
  rcases h with h | h
  · refine ⟨?_, ?_, ?_⟩ <;> intro r hr <;> subst hr <;> rcases h _ rfl with h | h <;> simp [isWs] at h
  · obtain ⟨sep, w, t, k, ks, rfl, hw, hk⟩ := h
    cases w with
    | nil => simp [lowerStr] at hw
    | cons c cs =>
      simp [lowerStr] at hw
      have hd := letter_not_digit hw.1 (hh k hk)
      have hs := letter_not_sep hw.1 (hh k hk)
      have h33 : c ≠ 33 := by
        intro h; subst h; have := hh k hk; simp [lowerAscii, isUpperAscii] at hw; omega
      have nd : NoDigit (c :: (cs ++ t)) := by intro d hd'; simp at hd'; subst hd'; exact hd
      simp [isSep] at hs
      cases sep
      · simp only [Sep.render, List.nil_append, List.cons_append]
        refine ⟨?_, ?_, ?_⟩ <;> intro r hr <;> simp at hr <;> omega
      · simp only [Sep.render, List.cons_append, List.nil_append]
        refine ⟨fun r hr => ?_, fun r hr => ?_, fun r hr => ?_⟩
        · simp at hr; subst hr; exact nd
        · simp at hr
        · simp at hr
      · simp only [Sep.render, List.cons_append, List.nil_append]
        refine ⟨fun r hr => ?_, fun r hr => ?_, fun r hr => ?_⟩
        · simp at hr
        · simp at hr; subst hr; exact nd
        · simp at hr
      · simp only [Sep.render, List.cons_append, List.nil_append]
        refine ⟨fun r hr => ?_, fun r hr => ?_, fun r hr => ?_⟩ <;> simp at hr

theorem Impl.after {s : Str} (h : Impl s) : (∀ r, s = 46 :: r → NoDigit r) ∧ (∀ r, s ≠ 33 :: r) := by
  obtain ⟨d, t, rfl, _⟩ := h
  constructor <;> intro r hr <;> simp at hr

/-! ### the tails -/

def TL (loc : Option Local) (ws2 : Str) : Str := optR Local.render loc ++ ws2
def TD (dev : Option (Group Unit)) (loc : Option Local) (ws2 : Str) : Str := optR Group.render dev ++ TL loc ws2
def TP (post : Option Post) (dev : Option (Group Unit)) (loc : Option Local) (ws2 : Str) : Str :=
  optR Post.render post ++ TD dev loc ws2

def devOk (dev : Option (Group Unit)) : Prop := ∀ g, dev = some g → g.ok (fun _ => devText) = true
def postOk (post : Option Post) : Prop := ∀ p, post = some p → p.ok = true
def preOk (pre : Option (Group PreWord)) : Prop := ∀ g, pre = some g → g.ok PreWord.text = true

theorem devText_head : ∃ k ks, devText = k :: ks ∧ 97 ≤ k ∧ k ∈ [100] := ⟨100, [101, 118], by decide, by decide, by decide⟩
theorem postText_head (k : PostWord) : ∃ c cs, k.text = c :: cs ∧ 97 ≤ c ∧ c ∈ [112, 114] := by
  cases k
  · exact ⟨112, [111, 115, 116], by decide, by decide, by decide⟩
  · exact ⟨114, [101, 118], by decide, by decide, by decide⟩
  · exact ⟨114, [], by decide, by decide, by decide⟩
theorem preText_head (k : PreWord) : ∃ c cs, k.text = c :: cs ∧ 97 ≤ c ∧ c ∈ [97, 98, 99, 112, 114] := by
  cases k
  · exact ⟨97, [108, 112, 104, 97], by decide, by decide, by decide⟩
  · exact ⟨97, [], by decide, by decide, by decide⟩
  · exact ⟨98, [101, 116, 97], by decide, by decide, by decide⟩
  · exact ⟨98, [], by decide, by decide, by decide⟩
  · exact ⟨99, [], by decide, by decide, by decide⟩
  · exact ⟨114, [99], by decide, by decide, by decide⟩
  · exact ⟨112, [114, 101], by decide, by decide, by decide⟩
  · exact ⟨112, [114, 101, 118, 105, 101, 119], by decide, by decide, by decide⟩

theorem tl_K0 (loc : Option Local) (ws2 : Str) (hws : ws2.all isSpace = true) : K0 (TL loc ws2) := by
  intro c hc
  cases loc with
  | some l => simp [TL, optR, Local.render] at hc; exact .inl hc.symm
  | none =>
    cases ws2 with
    | nil => simp [TL, optR] at hc
    | cons x xs =>
      simp [TL, optR] at hc; subst hc
      simp at hws; right; rw [← isSpace_eq]; exact hws.1

theorem td_cls (dev : Option (Group Unit)) (loc : Option Local) (ws2 : Str) (hd : devOk dev)
    (hws : ws2.all isSpace = true) : Cls [100] (TD dev loc ws2) := by
  cases dev with
  | none => exact .inl (by simpa [TD, optR] using tl_K0 loc ws2 hws)
  | some g =>
    obtain ⟨k, ks, h1, _, h3⟩ := devText_head
    exact .inr (group_gs (fun _ => devText) [100] g _ (hd g rfl) ⟨k, ks, h1, h3⟩)

theorem h100 : ∀ k ∈ [100], 97 ≤ k ∧ k ≠ 108 ∧ k ≠ 101 ∧ k ≠ 118 ∧ k ≠ 99 := by decide
theorem hpd : ∀ k ∈ [100, 112, 114], 97 ≤ k ∧ k ≠ 108 ∧ k ≠ 101 ∧ k ≠ 118 ∧ k ≠ 99 := by decide
theorem hall : ∀ k ∈ [100, 112, 114, 97, 98, 99], 97 ≤ k := by decide

/-! ### dev stage -/

theorem dev_stage (dev : Option (Group Unit)) (loc : Option Local) (ws2 : Str) (hd : devOk dev)
    (hws : ws2.all isSpace = true) :
    devStage (TD dev loc ws2) = (dev.map Group.number, TL loc ws2) := by
  have k0 := tl_K0 loc ws2 hws
  cases dev with
  | none =>
    have : scanLetterGroup devKws (TL loc ws2) = none :=
      letterGroup_none _ _ (by rw [k0.optSep_eq]; exact (takeKw_noLetter _ k0.noLetter).2.2)
    simp [devStage, TD, optR, this]
  | some g =>
    obtain ⟨k, ks, h1, h2, _⟩ := devText_head
    have := group_scan devKws () (fun _ => devText) g (TL loc ws2) (hd g rfl) ⟨k, ks, h1, h2⟩
      (fun t _ => takeKw_dev g.word t (ok_word _ g (hd g rfl)).1) k0.noDigit
      (fun _ => by rw [k0.optSep_eq]; exact k0.noDigit) k0.follow
    simp [devStage, TD, optR, this, k0.optSep_eq]

theorem optSep_TD (dev : Option (Group Unit)) (loc : Option Local) (ws2 : Str) (hd : devOk dev)
    (hws : ws2.all isSpace = true) : optSep (TD dev loc ws2) = TD (dev.map strip) loc ws2 := by
  cases dev with
  | none => simpa [TD, optR] using (tl_K0 loc ws2 hws).optSep_eq
  | some g =>
    obtain ⟨k, ks, h1, h2, _⟩ := devText_head
    simpa [TD, optR] using optSep_group (fun _ => devText) g (TL loc ws2) (hd g rfl) ⟨k, ks, h1, h2⟩

theorem devOk_strip (dev : Option (Group Unit)) (hd : devOk dev) : devOk (dev.map strip) := by
  intro g hg
  cases dev with
  | none => simp at hg
  | some g0 => simp at hg; subst hg; rw [(strip_facts _ g0).1]; exact hd g0 rfl

theorem number_strip {W} (o : Option (Group W)) : (o.map strip).map Group.number = o.map Group.number := by
  cases o <;> simp [strip, Group.number]

/-! ### post stage -/

def implicitPost (s : Str) : Option (Nat × Str) :=
  match s with
  | 45 :: r => (match optNum r with | (some n, r') => some (n, r') | (none, _) => none)
  | _ => none

theorem scanPost_eq (s : Str) : scanPost s =
    match implicitPost s with
    | some (n, r) => (some n, r)
    | none =>
      match scanLetterGroup postKws s with
      | some ((_, n), r) => (some n, r)
      | none => (none, s) := rfl

theorem implicitPost_none (s : Str) (h : ∀ r, s = 45 :: r → NoDigit r) : implicitPost s = none := by
  unfold implicitPost
  split
  · rename_i r; rw [optNum_none r (h r rfl)]
  · rfl

def postBare : Option Post → Bool
  | some (.spelled g) => g.bare
  | _ => false

theorem follow_after_word {W} (g : Group W) (rest : Str) (hnum : ∀ d, g.num = some d → digitsOk d = true)
    (hf : FollowOK rest) : FollowOK (g.sep2.render ++ (g.num.getD [] ++ rest)) := by
  by_cases hs : g.sep2 = .none
  · rw [hs]
    cases hn : g.num with
    | none => simpa [Sep.render] using hf
    | some d => simpa [Sep.render] using follow_digits d rest (hnum d hn)
  · exact follow_sep g.sep2 _ hs

theorem post_stage (post : Option Post) (dev : Option (Group Unit)) (loc : Option Local) (ws2 : Str)
    (hp : postOk post) (hd : devOk dev) (hws : ws2.all isSpace = true) :
    scanPost (TP post dev loc ws2) =
      (post.map Post.number, TD (if postBare post then dev.map strip else dev) loc ws2) := by
  have cd := td_cls dev loc ws2 hd hws
  have nd := cd.noDigit (fun k hk => (h100 k hk).1)
  have fd := cd.follow h100
  have ad := cd.after (fun k hk => (h100 k hk).1)
  rw [scanPost_eq]
  cases post with
  | none =>
    have h1 : implicitPost (TD dev loc ws2) = none := implicitPost_none _ ad.2.1
    have h2 : scanLetterGroup postKws (TD dev loc ws2) = none := by
      apply letterGroup_none
      rw [optSep_TD dev loc ws2 hd hws]
      cases dev with
      | none => simpa [TD, optR] using (takeKw_noLetter _ (tl_K0 loc ws2 hws).noLetter).2.1
      | some g =>
        have := takeKw_post_devword g.word (g.sep2.render ++ (g.num.getD [] ++ TL loc ws2)) (ok_word _ g (hd g rfl)).1
        simpa [TD, optR, strip, Group.render, Sep.render] using this
    simp [TP, optR, h1, h2, postBare]
  | some p =>
    cases p with
    | implicit n =>
      have hn : digitsOk n = true := hp _ rfl
      simp [TP, optR, Post.render, implicitPost, optNum_digits n _ hn nd.1, postBare, Post.number]
    | spelled g =>
      have hg : g.ok PostWord.text = true := hp _ rfl
      obtain ⟨k, ks, h1, h2, h3⟩ := postText_head g.kind
      have gs : GS [112, 114] (g.render ++ TD dev loc ws2) := group_gs PostWord.text _ g _ hg ⟨k, ks, h1, h3⟩
      have hi : implicitPost (g.render ++ TD dev loc ws2) = none :=
        implicitPost_none _ ((Cls.after (heads := [112, 114]) (by decide) (.inr gs)).2.1)
      have := group_scan postKws () PostWord.text g (TD dev loc ws2) hg ⟨k, ks, h1, h2⟩
        (fun t ht => takeKw_post g.word t ht g.kind (ok_word _ g hg).1) nd.1 (fun _ => nd.2) fd
      simp only [TP, optR, Post.render, hi, this, postBare, Option.map_some, Post.number]
      by_cases hb : g.bare = true <;> simp [hb, optSep_TD dev loc ws2 hd hws]

end Spelling
