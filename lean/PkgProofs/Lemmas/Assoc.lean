import PkgModel.Metadata
/-! association-list lemmas (`aget / adel / aset / akeys / dedup / indexOf`) shared by C17 and C18 -/
namespace Meta
open Py

variable {β : Type}

@[simp] theorem aget_nil (k : Str) : aget k ([] : List (Str × β)) = none := rfl

theorem aget_cons (k k' : Str) (v : β) (r : List (Str × β)) :
    aget k ((k', v) :: r) = if k' = k then some v else aget k r := rfl

theorem aget_adel_self (k : Str) (d : List (Str × β)) : aget k (adel k d) = none := by
  induction d with
  | nil => rfl
  | cons p r ih =>
    obtain ⟨k', v⟩ := p
    by_cases h : k' = k
    · simp only [adel, h, if_true, ih]
    · simp only [adel, h, if_false, aget, ih]

theorem aget_adel_ne {k k' : Str} (h : k' ≠ k) (d : List (Str × β)) : aget k' (adel k d) = aget k' d := by
  induction d with
  | nil => rfl
  | cons p r ih =>
    obtain ⟨k'', v⟩ := p
    by_cases h1 : k'' = k
    · have h2 : k'' ≠ k' := fun e => h (e ▸ h1)
      simp only [adel, h1, if_true, ih, aget]
      simp only [← h1, h2, if_false]
    · simp only [adel, h1, if_false, aget, ih]

theorem aget_aset_self (k : Str) (v : β) (d : List (Str × β)) : aget k (aset k v d) = some v := by
  simp only [aset, aget, if_true]

theorem aget_aset_ne {k k' : Str} (h : k' ≠ k) (v : β) (d : List (Str × β)) :
    aget k' (aset k v d) = aget k' d := by
  have h' : k ≠ k' := fun e => h e.symm
  simp only [aset, aget, h', if_false, aget_adel_ne h]

theorem aget_aset (k k' : Str) (v : β) (d : List (Str × β)) :
    aget k' (aset k v d) = if k = k' then some v else aget k' d := by
  by_cases h : k = k'
  · subst h; simp only [aget_aset_self, if_true]
  · simp only [h, if_false]; exact aget_aset_ne (fun e => h e.symm) v d

theorem aget_adel (k k' : Str) (d : List (Str × β)) :
    aget k' (adel k d) = if k = k' then none else aget k' d := by
  by_cases h : k = k'
  · subst h; simp only [aget_adel_self, if_true]
  · simp only [h, if_false]; exact aget_adel_ne (fun e => h e.symm) d

theorem mem_akeys_iff (k : Str) (d : List (Str × β)) : k ∈ akeys d ↔ (aget k d).isSome = true := by
  induction d with
  | nil => simp [akeys]
  | cons p r ih =>
    obtain ⟨k', v⟩ := p
    by_cases h : k' = k
    · subst h; simp [akeys, aget]
    · have h' : k ≠ k' := fun e => h e.symm
      simp only [akeys, List.map_cons, List.mem_cons, h', false_or, aget, h, if_false]
      exact ih

theorem not_mem_akeys_iff (k : Str) (d : List (Str × β)) : k ∉ akeys d ↔ aget k d = none := by
  rw [mem_akeys_iff]; cases aget k d <;> simp

theorem mem_dedup (x : Str) (l : List Str) : x ∈ dedup l ↔ x ∈ l := by
  induction l with
  | nil => simp [dedup]
  | cons y r ih =>
    simp only [dedup, List.mem_cons, List.mem_filter, ih, bne_iff_ne, ne_eq]
    by_cases h : x = y
    · simp [h]
    · simp [h]

theorem nodup_dedup (l : List Str) : (dedup l).Nodup := by
  induction l with
  | nil => simp [dedup]
  | cons y r ih =>
    simp only [dedup, List.nodup_cons, List.mem_filter, bne_iff_ne, ne_eq, not_true_eq_false, and_false,
      not_false_eq_true, true_and]
    exact ih.filter _

theorem indexOf_isSome_of_mem {x : Str} {l : List Str} (h : x ∈ l) : ∃ i, indexOf x l = some i := by
  induction l with
  | nil => cases h
  | cons y r ih =>
    by_cases e : y = x
    · exact ⟨0, by simp only [indexOf, e, if_true]⟩
    · have : x ∈ r := by
        cases h with
        | head => exact absurd rfl e
        | tail _ h => exact h
      obtain ⟨i, hi⟩ := ih this
      exact ⟨i + 1, by simp only [indexOf, e, if_false, hi, Option.map_some]⟩

end Meta
