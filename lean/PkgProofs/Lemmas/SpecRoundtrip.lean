import PkgProofs.Lemmas.SpecAlike
/-!
# `Specifier(str(s))` is `s`

For every clause `Specifier.__init__` accepts, the stored `(operator, version)` printed by `__str__` is read
back to the same pair; the printed form has no surrounding white space (so `SpecifierSet`'s `strip()` keeps it)
and — unless it is an `===` clause whose text has one — no comma (so `split(",")` keeps it whole).
This is `SSet.roundtrips`, the hypothesis of the `str` round trip of sets.
-/
namespace SSet
open Py V S

/-! ## stripping -/

theorem dropWhile_of_head {p : Nat → Bool} {s : Str} (h : ∀ c, s.head? = some c → p c = false) :
    s.dropWhile p = s := by
  cases s with
  | nil => rfl
  | cons c t => exact List.dropWhile_cons_of_neg (by simp [h c rfl])

theorem head_dropWhile (p : Nat → Bool) (s : Str) : ∀ c, (s.dropWhile p).head? = some c → p c = false := by
  intro c hc
  have := List.head?_dropWhile_not p s
  rw [hc] at this
  exact this

theorem getLast_dropWhile (p : Nat → Bool) (s : Str) (c : Nat) (h : (s.dropWhile p).getLast? = some c) :
    s.getLast? = some c := by
  have hsuf : s.dropWhile p <:+ s := List.dropWhile_suffix p
  have hne : s.dropWhile p ≠ [] := by intro e; rw [e] at h; cases h
  have hne' : s ≠ [] := by intro e; rw [e] at hne; exact hne rfl
  rw [List.getLast?_eq_getLast hne] at h
  rw [List.getLast?_eq_getLast hne', ← hsuf.getLast hne]
  exact h

/-- nothing to strip when neither end satisfies `p` -/
theorem stripBy_eq_self (p : Nat → Bool) (s : Str) (h1 : ∀ c, s.head? = some c → p c = false)
    (h2 : ∀ c, s.getLast? = some c → p c = false) : stripBy p s = s := by
  unfold stripBy
  rw [dropWhile_of_head h1, dropWhile_of_head (s := s.reverse) (by rw [List.head?_reverse]; exact h2),
    List.reverse_reverse]

theorem stripBy_head (p : Nat → Bool) (s : Str) : ∀ c, (stripBy p s).head? = some c → p c = false := by
  intro c hc
  unfold stripBy at hc
  rw [List.head?_reverse] at hc
  have := getLast_dropWhile p _ c hc
  rw [List.getLast?_reverse] at this
  exact head_dropWhile p s c this

theorem stripBy_last (p : Nat → Bool) (s : Str) : ∀ c, (stripBy p s).getLast? = some c → p c = false := by
  intro c hc
  unfold stripBy at hc
  rw [List.getLast?_reverse] at hc
  exact head_dropWhile p _ c hc

theorem stripBy_idem (p : Nat → Bool) (s : Str) : stripBy p (stripBy p s) = stripBy p s :=
  stripBy_eq_self p _ (stripBy_head p s) (stripBy_last p s)

theorem stripBy_subset (p : Nat → Bool) (s : Str) : ∀ c ∈ stripBy p s, c ∈ s := by
  intro c hc
  unfold stripBy at hc
  rw [List.mem_reverse] at hc
  have h1 := (List.dropWhile_suffix p).subset hc
  rw [List.mem_reverse] at h1
  exact (List.dropWhile_suffix p).subset h1

theorem strip_eq_stripBy (s : Str) : strip s = stripBy isSpacePy s := rfl

theorem isSpacePy_of_isWs {c : Nat} (h : isWs c = true) : isSpacePy c = true := by
  simp only [isWs, isSpacePy, Bool.or_eq_true, beq_iff_eq, Bool.and_eq_true, decide_eq_true_eq] at *
  omega

/-- a character of a version that is not ASCII white space is no Unicode white space either -/
theorem not_space_of_okc {c : Nat} (h : okc c = true) (hw : isWs c = false) : isSpacePy c = false := by
  simp only [okc, hw, Bool.false_or, Bool.or_eq_true, beq_iff_eq, isAlnumAscii, isDigit, isAlphaAscii, isLowerAscii,
    isUpperAscii, Bool.and_eq_true, decide_eq_true_eq] at h
  simp only [isSpacePy, Bool.or_eq_false_iff, Bool.and_eq_false_iff, decide_eq_false_iff_not, beq_eq_false_iff_ne]
  omega

/-! ## the operator token -/

theorem Op.str_val (o : S.Op) : o.str = match o with
    | .compatible => [126, 61] | .eq => [61, 61] | .ne => [33, 61] | .le => [60, 61]
    | .ge => [62, 61] | .lt => [60] | .gt => [62] | .arbitrary => [61, 61, 61] := by
  cases o <;> rfl

theorem takeOp_arbitrary (t : Str) : takeOp (Op.str .arbitrary ++ t) = some (.arbitrary, t) := by
  rw [Op.str_val]; rfl

/-- the operator is read back when the text does not start with `=` -/
theorem takeOp_str (o : S.Op) (c : Nat) (t : Str) (ho : o ≠ .arbitrary) (hc : c ≠ 61) :
    takeOp (o.str ++ (c :: t)) = some (o, c :: t) := by
  rw [Op.str_val]
  cases o with
  | arbitrary => exact absurd rfl ho
  | compatible => rfl
  | ne => rfl
  | le => rfl
  | ge => rfl
  | eq =>
    show takeOp (61 :: 61 :: c :: t) = _
    unfold takeOp
    split <;> simp_all
  | lt =>
    show takeOp (60 :: c :: t) = _
    unfold takeOp
    split <;> simp_all
  | gt =>
    show takeOp (62 :: c :: t) = _
    unfold takeOp
    split <;> simp_all

theorem Op.str_head (o : S.Op) : ∃ c t, o.str = c :: t ∧ isWs c = false ∧ isSpacePy c = false ∧ c ≠ 44 := by
  rw [Op.str_val]
  cases o <;> exact ⟨_, _, rfl, by decide, by decide, by decide⟩

theorem Op.str_no_comma (o : S.Op) : 44 ∉ o.str := by cases o <;> decide

theorem Op.str_last (o : S.Op) : o.str.getLast? = some 61 ∨ o.str.getLast? = some 60 ∨ o.str.getLast? = some 62 := by
  cases o <;> decide

/-! ## the version text -/

/-- what `scanCore` accepts starts with a digit or with `v`/`V` -/
theorem scanCore_head {t : Str} {v : Ver} {r : Str} (h : scanCore t = some (v, r)) :
    ∃ c t', t = c :: t' ∧ (isDigit c = true ∨ lowerAscii c = 118) := by
  cases t with
  | nil => simp [scanCore, optNum, spanDigits] at h
  | cons c t' =>
    refine ⟨c, t', rfl, ?_⟩
    by_cases hv : lowerAscii c = 118
    · exact Or.inr hv
    · left
      cases hd : isDigit c with
      | true => rfl
      | false =>
        exfalso
        have hv' : (lowerAscii c == 118) = false := by simp [hv]
        simp [scanCore, hv', optNum, spanDigits, hd] at h

theorem head_not_eq_not_ws {c : Nat} (h : isDigit c = true ∨ lowerAscii c = 118) : c ≠ 61 ∧ isWs c = false := by
  rcases h with h | h
  · simp only [isDigit, Bool.and_eq_true, decide_eq_true_eq] at h
    refine ⟨by omega, ?_⟩
    simp only [isWs, Bool.or_eq_false_iff, beq_eq_false_iff_ne, Bool.and_eq_false_iff, decide_eq_false_iff_not]
    omega
  · simp only [lowerAscii, isUpperAscii, Bool.and_eq_true, decide_eq_true_eq] at h
    refine ⟨by split at h <;> omega, ?_⟩
    simp only [isWs, Bool.or_eq_false_iff, beq_eq_false_iff_ne, Bool.and_eq_false_iff, decide_eq_false_iff_not]
    split at h <;> omega

/-- a text that `scanCore` consumes entirely is a version string -/
theorem scan_of_scanCore {t : Str} {v : Ver} (h : scanCore t = some (v, [])) : scan t = some v := by
  obtain ⟨c, t', rfl, hc⟩ := scanCore_head h
  have := (head_not_eq_not_ws hc).2
  simp [scan, List.dropWhile, this, h]

/-! ## `parseSpec (str sp) = sp` -/

/-- **every clause `Specifier.__init__` accepts prints to a clean clause that parses back to it** — except that
an `===` text may contain a comma, which `SpecifierSet` would split at -/
theorem parse_roundtrips (s : Str) (sp : Spec) (h : parseSpec s = some sp)
    (hcomma : sp.op = .arbitrary → 44 ∉ sp.ver) : roundtrips sp = true := by
  unfold parseSpec at h
  split at h
  · cases h
  · rename_i op r _
    simp only at h
    by_cases harb : op = .arbitrary
    · -- arbitrary equality: the stored text is `strip` of a run of `[^\s;)]`
      subst harb
      simp only [beq_self_eq_true, ↓reduceIte] at h
      split at h
      · rename_i hall
        injection h with h; subst h
        have hv : 44 ∉ strip (stripBy isWs r) := hcomma rfl
        have hhead : ∀ c, (strip (stripBy isWs r)).head? = some c → isSpacePy c = false := stripBy_head isSpacePy _
        have hlast : ∀ c, (strip (stripBy isWs r)).getLast? = some c → isSpacePy c = false :=
          stripBy_last isSpacePy _
        have hsub : ∀ c ∈ strip (stripBy isWs r), c ∈ stripBy isWs r := stripBy_subset isSpacePy _
        have hidem : strip (strip (stripBy isWs r)) = strip (stripBy isWs r) := stripBy_idem isSpacePy _
        clear hcomma
        generalize strip (stripBy isWs r) = ver at *
        have hstr : (⟨.arbitrary, ver⟩ : Spec).str = [61, 61, 61] ++ ver := rfl
        -- no surrounding white space
        have hstrip : strip (⟨.arbitrary, ver⟩ : Spec).str = (⟨.arbitrary, ver⟩ : Spec).str := by
          rw [hstr, strip_eq_stripBy]
          apply stripBy_eq_self
          · intro c hc; simp at hc; subst hc; decide
          · intro c hc
            cases hvn : ver with
            | nil => rw [hvn] at hc; simp at hc; subst hc; decide
            | cons x xs =>
              have : ([61, 61, 61] ++ ver).getLast? = ver.getLast? := by
                rw [hvn]; simp [List.getLast?_append]
              rw [this] at hc; exact hlast c hc
        -- parses back
        have hparse : parseSpec (⟨.arbitrary, ver⟩ : Spec).str = some ⟨.arbitrary, ver⟩ := by
          rw [hstr]
          have hdw : ([61, 61, 61] ++ ver).dropWhile isWs = [61, 61, 61] ++ ver := by
            apply dropWhile_of_head; intro c hc; simp at hc; subst hc; decide
          have htext : stripBy isWs ver = ver := by
            apply stripBy_eq_self
            · intro c hc
              cases hw : isWs c with
              | false => rfl
              | true => have := hhead c hc; rw [isSpacePy_of_isWs hw] at this; cases this
            · intro c hc
              cases hw : isWs c with
              | false => rfl
              | true => have := hlast c hc; rw [isSpacePy_of_isWs hw] at this; cases this
          have hall' : ver.all isArbChar = true := by
            rw [List.all_eq_true] at hall ⊢
            intro c hc
            exact hall c (hsub c hc)
          unfold parseSpec
          rw [hdw]
          have : takeOp ([61, 61, 61] ++ ver) = some (.arbitrary, ver) := takeOp_arbitrary ver
          simp only [this, beq_self_eq_true, ↓reduceIte, htext, hall', hidem]
        simp only [roundtrips, hstr, Bool.and_eq_true, Bool.not_eq_eq_eq_not, Bool.not_true,
          List.contains_eq_mem, decide_eq_false_iff_not, beq_iff_eq]
        refine ⟨⟨?_, ?_⟩, ?_⟩
        · intro hm
          simp only [List.mem_append, List.mem_cons, List.not_mem_nil, or_false] at hm
          rcases hm with hm | hm
          · omega
          · exact hv hm
        · rw [← hstr]; exact hstrip
        · rw [← hstr]; exact hparse
      · cases h
    · -- version clauses
      have hne : (op == Op.arbitrary) = false := by simp [harb]
      simp only [hne, Bool.false_eq_true, ↓reduceIte] at h
      have hidemT : stripBy isWs (stripBy isWs r) = stripBy isWs r := stripBy_idem isWs r
      have hlastT : ∀ x, (stripBy isWs r).getLast? = some x → isWs x = false := stripBy_last isWs r
      generalize stripBy isWs r = text at *
      split at h
      · rename_i v hsc
        split at h
        · rename_i hform
          injection h with h; subst h
          -- the version part of the text
          generalize hwild : ((op == Op.eq || op == Op.ne) && endsWith text [46, 42]) = wild at *
          have hvt := scan_of_scanCore hsc
          obtain ⟨c, t', hct, hcd⟩ := scanCore_head hsc
          obtain ⟨hc61, hcws⟩ := head_not_eq_not_ws hcd
          -- text = vtext or vtext ++ ".*": in both cases it starts with `c`
          have htext_head : ∃ t'', text = c :: t'' := by
            by_cases hw : wild = true
            · simp only [hw, ↓reduceIte] at hct
              have hlen : text.take (text.length - 2) ++ text.drop (text.length - 2) = text :=
                List.take_append_drop _ _
              rw [hct] at hlen
              exact ⟨_, hlen.symm⟩
            · simp only [hw, Bool.false_eq_true, ↓reduceIte] at hct
              exact ⟨t', hct⟩
          obtain ⟨t'', ht''⟩ := htext_head
          have hstr : (⟨op, text⟩ : Spec).str = op.str ++ text := rfl
          obtain ⟨oc, ot, hoc, hocws, hocsp, _⟩ := Op.str_head op
          have hdw : (op.str ++ text).dropWhile isWs = op.str ++ text := by
            apply dropWhile_of_head; intro x hx; rw [hoc] at hx; simp at hx; subst hx; exact hocws
          have hparse : parseSpec (⟨op, text⟩ : Spec).str = some ⟨op, text⟩ := by
            rw [hstr]
            unfold parseSpec
            rw [hdw, ht'', takeOp_str op c t'' harb hc61, ← ht'']
            simp only [hne, Bool.false_eq_true, ↓reduceIte, hidemT, hwild, hsc, hform]
          -- characters: the version part is made of version characters, the rest is `.*`
          have hchars : ∀ x ∈ text, okc x = true ∨ x = 42 := by
            intro x hx
            by_cases hw : wild = true
            · have hlen : text.take (text.length - 2) ++ text.drop (text.length - 2) = text :=
                List.take_append_drop _ _
              rw [← hlen] at hx
              rcases List.mem_append.mp hx with hx | hx
              · left
                have : scan (text.take (text.length - 2)) = some v := by simpa [hw] using hvt
                exact scan_chars _ v this x hx
              · -- the last two characters are `.*`
                have hend : endsWith text [46, 42] = true := by
                  have := hwild.trans hw
                  simp only [Bool.and_eq_true] at this; exact this.2
                obtain ⟨t0, ht0⟩ : ∃ t0, text = t0 ++ [46, 42] := by
                  unfold endsWith at hend
                  cases hr : text.reverse with
                  | nil => rw [hr] at hend; simp [startsWith] at hend
                  | cons a l1 =>
                    cases l1 with
                    | nil => rw [hr] at hend; simp [startsWith] at hend
                    | cons b l2 =>
                      rw [hr] at hend
                      simp only [List.reverse_cons, List.reverse_nil, List.nil_append, List.cons_append,
                        startsWith, Bool.and_eq_true, beq_iff_eq, Bool.and_true] at hend
                      refine ⟨l2.reverse, ?_⟩
                      have := congrArg List.reverse hr
                      simp only [List.reverse_reverse, List.reverse_cons, List.append_assoc, List.cons_append,
                        List.nil_append] at this
                      rw [this, hend.1, hend.2]
                rw [ht0] at hx
                simp only [List.length_append, List.length_cons, List.length_nil, Nat.zero_add, Nat.reduceAdd,
                  Nat.add_sub_cancel, List.drop_left'] at hx
                simp only [List.mem_cons, List.not_mem_nil, or_false] at hx
                rcases hx with rfl | rfl
                · left; decide
                · right; rfl
            · left
              have : scan text = some v := by simpa [hw] using hvt
              exact scan_chars _ v this x hx
          simp only [roundtrips, hstr, Bool.and_eq_true, Bool.not_eq_eq_eq_not, Bool.not_true,
            List.contains_eq_mem, decide_eq_false_iff_not, beq_iff_eq]
          refine ⟨⟨?_, ?_⟩, ?_⟩
          · intro hm
            rcases List.mem_append.mp hm with hm | hm
            · exact Op.str_no_comma op hm
            · rcases hchars 44 hm with h44 | h44
              · revert h44; decide
              · omega
          · rw [strip_eq_stripBy]
            apply stripBy_eq_self
            · intro x hx; rw [hoc] at hx; simp at hx; subst hx; exact hocsp
            · intro x hx
              have htne : text ≠ [] := by rw [ht'']; simp
              have hl : (op.str ++ text).getLast? = text.getLast? := by
                rw [List.getLast?_append]
                cases hgl : text.getLast? with
                | none => rw [List.getLast?_eq_none_iff] at hgl; exact absurd hgl htne
                | some y => simp
              rw [hl] at hx
              have hxws : isWs x = false := hlastT x hx
              have hxm : x ∈ text := List.mem_of_getLast? hx
              rcases hchars x hxm with hok | rfl
              · exact not_space_of_okc hok hxws
              · decide
          · rw [← hstr]; exact hparse
        · cases h
      · cases h

end SSet
