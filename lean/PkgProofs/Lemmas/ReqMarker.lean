import PkgProofs.Lemmas.ReqRound
import PkgProofs.Lemmas.MarkerWf
/-!
Lemmas for C08 about the marker part of a requirement: every parser function consumes a prefix of the text; the
marker parser's answer is independent of the recursion budget once it covers the text (`fuel_enough`); the character
before the marker text only matters through `\b` (`parseMarker_sim`); what is left after a marker does not start with
white space.  Together: `marker_standalone`.
-/
namespace ReqMk
open Py Mk Req MkLex MkLexP ReqLex ReqParse MkWf
set_option linter.unusedSimpArgs false

/-- `b` is reached from `a` by consuming characters -/
def Sfx (a b : St) : Prop := ∃ pre, a.rest = pre ++ b.rest

theorem Sfx.refl (a : St) : Sfx a a := ⟨[], rfl⟩
theorem Sfx.trans {a b c : St} (h1 : Sfx a b) (h2 : Sfx b c) : Sfx a c := by
  obtain ⟨p, hp⟩ := h1; obtain ⟨q, hq⟩ := h2
  exact ⟨p ++ q, by rw [hp, hq, List.append_assoc]⟩
theorem Sfx.len {a b : St} (h : Sfx a b) : b.rest.length ≤ a.rest.length := by
  obtain ⟨p, hp⟩ := h; rw [hp]; simp

theorem check_rest {r : Rule} {st st' : St} {t : Str} (h : St.check r st = some (t, st')) : st.rest = t ++ st'.rest := by
  unfold St.check at h
  split at h
  · cases h
  · simp only [Option.some.injEq, Prod.mk.injEq] at h
    obtain ⟨rfl, rfl⟩ := h
    simp
theorem check_sfx {r : Rule} {st st' : St} {t : Str} (h : charTS.check r st = some (t, st')) : Sfx st st' := ⟨t, check_rest h⟩

theorem consume_sfx (r : Rule) (st : St) : Sfx st (consume charTS r st) := by
  unfold consume
  cases h : charTS.check r st with
  | none => exact Sfx.refl st
  | some v => obtain ⟨t, st'⟩ := v; exact check_sfx h

/-- a token of a finite rule is not empty -/
theorem check_fin_lt (r : Rule) (hr : r ∈ wordRules ∨ r = .lparen ∨ r = .rparen) (st : St) (t : Str) (st' : St)
    (h : charTS.check r st = some (t, st')) : st'.rest.length < st.rest.length := by
  have ht := check_fin_text r hr st t st' h
  have hne : t ≠ [] := by
    have : r ∈ finRules := by
      rcases hr with h | rfl | rfl
      · exact mem_finRules_of_word h
      · decide
      · decide
    exact finRules_nonempty r this t ht
  have := check_rest h
  rw [this]
  cases t with
  | nil => exact absurd rfl hne
  | cons _ _ => simp; omega

theorem parseVar_sfx (st : St) (n : Node) (st' : St) (h : parseVar charTS st = .ok (n, st')) : Sfx st st' := by
  simp only [parseVar] at h
  split at h
  · rename_i t st1 hv
    simp only [Except.ok.injEq, Prod.mk.injEq] at h; rw [← h.2]; exact check_sfx hv
  · split at h
    · rename_i t st1 hq
      split at h
      · simp only [Except.ok.injEq, Prod.mk.injEq] at h; rw [← h.2]; exact check_sfx hq
      · cases h
    · cases h

theorem parseOp_sfx (st : St) (o : Str) (st' : St) (h : parseOp charTS st = .ok (o, st')) : Sfx st st' := by
  simp only [parseOp] at h
  split at h
  · rename_i t st1 h1
    simp only [Except.ok.injEq, Prod.mk.injEq] at h; rw [← h.2]; exact check_sfx h1
  · split at h
    · rename_i t st1 h2
      split at h
      · cases h
      · rename_i t2 st2 h3
        split at h
        · cases h
        · rename_i t3 st3 h4
          simp only [Except.ok.injEq, Prod.mk.injEq] at h; rw [← h.2]
          exact (check_sfx h2).trans ((check_sfx h3).trans (check_sfx h4))
    · split at h
      · rename_i t st1 h5
        simp only [Except.ok.injEq, Prod.mk.injEq] at h; rw [← h.2]; exact check_sfx h5
      · cases h

theorem parseItem_sfx (st : St) (a : Atom) (st' : St) (h : parseItem charTS st = .ok (a, st')) : Sfx st st' := by
  simp only [parseItem, bind, Except.bind] at h
  split at h
  · cases h
  · rename_i v1 h1
    obtain ⟨l, s1⟩ := v1
    simp only at h
    split at h
    · cases h
    · rename_i v2 h2
      obtain ⟨o, s2⟩ := v2
      simp only at h
      split at h
      · cases h
      · rename_i v3 h3
        obtain ⟨r, s3⟩ := v3
        simp only [pure, Except.pure, Except.ok.injEq, Prod.mk.injEq] at h
        rw [← h.2]
        exact (consume_sfx .ws st).trans ((parseVar_sfx _ _ _ h1).trans ((consume_sfx .ws s1).trans
          ((parseOp_sfx _ _ _ h2).trans ((consume_sfx .ws s2).trans ((parseVar_sfx _ _ _ h3).trans (consume_sfx .ws s3))))))

/-- **the marker parser's answer does not depend on the recursion budget once the budget covers the text**:
an accepted parse is reproduced with any fuel of at least `2·|text| + 3`, and consumes a prefix of the text -/
theorem fuel_enough : (f : Nat) →
    (∀ st l st', parseMarker charTS f st = .ok (l, st') →
        Sfx st st' ∧ ∀ f', 2 * st.rest.length + 3 ≤ f' → parseMarker charTS f' st = .ok (l, st')) ∧
    (∀ acc st l st', parseRest charTS f acc st = .ok (l, st') →
        Sfx st st' ∧ ∀ f', 2 * st.rest.length + 2 ≤ f' → parseRest charTS f' acc st = .ok (l, st')) ∧
    (∀ st m st', parseAtom charTS f st = .ok (m, st') →
        Sfx st st' ∧ ∀ f', 2 * st.rest.length + 2 ≤ f' → parseAtom charTS f' st = .ok (m, st'))
  | 0 => by
    refine ⟨?_, ?_, ?_⟩ <;> intros <;> simp_all [parseMarker, parseRest, parseAtom]
  | f + 1 => by
    obtain ⟨ihM, ihR, ihA⟩ := fuel_enough f
    refine ⟨?_, ?_, ?_⟩
    · intro st l st' h
      simp only [parseMarker, bind, Except.bind] at h
      cases ha : parseAtom charTS f st with
      | error e => simp [ha] at h
      | ok v =>
        obtain ⟨a, st1⟩ := v
        simp only [ha] at h
        obtain ⟨s1, e1⟩ := ihA st a st1 ha
        obtain ⟨s2, e2⟩ := ihR [a] st1 l st' h
        refine ⟨s1.trans s2, ?_⟩
        intro f' hf'
        cases f' with
        | zero => omega
        | succ g =>
          have := s1.len
          simp only [parseMarker, bind, Except.bind, e1 g (by omega), e2 g (by omega)]
    · intro acc st l st' h
      simp only [parseRest] at h
      cases hc : charTS.check .boolop st with
      | none =>
        simp only [hc, Except.ok.injEq, Prod.mk.injEq] at h
        obtain ⟨rfl, rfl⟩ := h
        refine ⟨Sfx.refl _, ?_⟩
        intro f' hf'
        cases f' with
        | zero => omega
        | succ g => simp [parseRest, hc]
      | some v =>
        obtain ⟨t, stb⟩ := v
        simp only [hc, bind, Except.bind] at h
        cases ha : parseAtom charTS f stb with
        | error e => simp [ha] at h
        | ok w =>
          obtain ⟨b, st2⟩ := w
          simp only [ha] at h
          obtain ⟨s1, e1⟩ := ihA stb b st2 ha
          obtain ⟨s2, e2⟩ := ihR _ st2 l st' h
          have hlt := check_fin_lt .boolop (Or.inl (by decide)) st t stb hc
          refine ⟨(check_sfx hc).trans (s1.trans s2), ?_⟩
          intro f' hf'
          cases f' with
          | zero => omega
          | succ g =>
            have := s1.len
            simp only [parseRest, hc, bind, Except.bind, e1 g (by omega), e2 g (by omega)]
    · intro st m st' h
      simp only [parseAtom] at h
      cases hl : charTS.check .lparen (consume charTS .ws st) with
      | some v =>
        obtain ⟨t, st1⟩ := v
        simp only [hl, bind, Except.bind] at h
        cases hm : parseMarker charTS f (consume charTS .ws st1) with
        | error e => simp [hm] at h
        | ok w =>
          obtain ⟨l, st2⟩ := w
          simp only [hm] at h
          cases hr : charTS.check .rparen (consume charTS .ws st2) with
          | none => simp [hr] at h
          | some u =>
            obtain ⟨t', st3⟩ := u
            simp only [hr, pure, Except.pure, Except.ok.injEq, Prod.mk.injEq] at h
            obtain ⟨rfl, rfl⟩ := h
            obtain ⟨s1, e1⟩ := ihM _ l st2 hm
            have hlt := check_fin_lt .lparen (Or.inr (Or.inl rfl)) _ t st1 hl
            have h0 := (consume_sfx .ws st).len
            have h1 := (consume_sfx .ws st1).len
            refine ⟨(consume_sfx .ws st).trans ((check_sfx hl).trans ((consume_sfx .ws st1).trans (s1.trans
              ((consume_sfx .ws st2).trans ((check_sfx hr).trans (consume_sfx .ws st3)))))), ?_⟩
            intro f' hf'
            cases f' with
            | zero => omega
            | succ g =>
              simp only [parseAtom, hl, bind, Except.bind, e1 g (by omega), hr, pure, Except.pure]
      | none =>
        simp only [hl, bind, Except.bind] at h
        cases hit : parseItem charTS (consume charTS .ws st) with
        | error e => simp [hit] at h
        | ok w =>
          obtain ⟨a, st1⟩ := w
          simp only [hit, pure, Except.pure, Except.ok.injEq, Prod.mk.injEq] at h
          obtain ⟨rfl, rfl⟩ := h
          refine ⟨(consume_sfx .ws st).trans ((parseItem_sfx _ _ _ hit).trans (consume_sfx .ws st1)), ?_⟩
          intro f' hf'
          cases f' with
          | zero => omega
          | succ g => simp [parseAtom, hl, hit, bind, Except.bind, pure, Except.pure]

/-! ### the character before the marker text only matters through `\b` -/

/-- same text, and the characters before it are both word characters or both not -/
def Sim (a b : St) : Prop := a.rest = b.rest ∧ isWordO a.prev = isWordO b.prev

theorem matchRule_pos (r : Rule) (hr : r ≠ .end_) (p : Option Nat) (t : Str) (n : Nat) (h : matchRule r p t = some n) :
    t.take n ≠ [] := by
  have key : ∀ (w : Str), w ≠ [] → startsWith t w = true → t.take w.length ≠ [] := by
    intro w hw hs
    rw [take_of_startsWith _ _ hs]; exact hw
  have fin : ∀ r', r' ∈ finRules → matchRule r' p t = some n → (r' ∈ wordRules ∨ r' = .lparen ∨ r' = .rparen) → t.take n ≠ [] := by
    intro r' hr' hm hcls
    rw [matchRule_fin r' hcls] at hm
    obtain ⟨w, hw, rfl, hs⟩ := matchFin_some _ _ _ _ hm
    exact key w (finRules_nonempty r' hr' w hw) hs
  cases r
  · exact fin .lparen (by decide) h (Or.inr (Or.inl rfl))
  · exact fin .rparen (by decide) h (Or.inr (Or.inr rfl))
  · simp only [matchRule, matchQuoted] at h
    obtain ⟨q, _, hq⟩ := List.exists_of_findSome?_eq_some h
    cases t with
    | nil => simp at hq
    | cons c t' =>
      simp only at hq
      split at hq
      · cases hi : indexOf? q t' with
        | none => simp [hi] at hq
        | some i => simp [hi] at hq; subst hq; simp
      · cases hq
  · exact fin .op (by decide) h (Or.inl (by decide))
  · exact fin .boolop (by decide) h (Or.inl (by decide))
  · exact fin .kwIn (by decide) h (Or.inl (by decide))
  · exact fin .kwNot (by decide) h (Or.inl (by decide))
  · exact fin .variable (by decide) h (Or.inl (by decide))
  · simp only [matchRule, matchWs] at h
    split at h
    · cases h
    · rename_i hn
      simp only [Option.some.injEq] at h
      cases t with
      | nil => simp at hn
      | cons c t' => subst h; cases hc : isWs c <;> simp [List.takeWhile, hc] at hn ⊢
  · exact absurd rfl hr

theorem matchRule_sim (r : Rule) (hr : r ≠ .end_) (p p' : Option Nat) (hp : isWordO p = isWordO p') (t : Str) :
    matchRule r p t = matchRule r p' t := by
  have fin : ∀ r', r' ∈ finRules → (r' ∈ wordRules ∨ r' = .lparen ∨ r' = .rparen) → matchRule r' p t = matchRule r' p' t := by
    intro r' hr' hcls
    rw [matchRule_fin r' hcls, matchRule_fin r' hcls]
    exact matchFin_congr_prev _ p p' t hp (finRules_nonempty r' hr')
  cases r
  · exact fin .lparen (by decide) (Or.inr (Or.inl rfl))
  · exact fin .rparen (by decide) (Or.inr (Or.inr rfl))
  · rfl
  · exact fin .op (by decide) (Or.inl (by decide))
  · exact fin .boolop (by decide) (Or.inl (by decide))
  · exact fin .kwIn (by decide) (Or.inl (by decide))
  · exact fin .kwNot (by decide) (Or.inl (by decide))
  · exact fin .variable (by decide) (Or.inl (by decide))
  · rfl
  · exact absurd rfl hr

theorem check_sim (r : Rule) (hr : r ≠ .end_) (a b : St) (h : Sim a b) : St.check r a = St.check r b := by
  obtain ⟨h1, h2⟩ := h
  unfold St.check
  rw [matchRule_sim r hr a.prev b.prev h2, h1]
  cases hm : matchRule r b.prev b.rest with
  | none => rfl
  | some n =>
    have hne := matchRule_pos r hr _ _ n hm
    simp only [lastOr_nonempty _ hne a.prev b.prev]

theorem consume_ws_sim (a b : St) (h : Sim a b) : Sim (consume charTS .ws a) (consume charTS .ws b) := by
  unfold consume
  have := check_sim .ws (by decide) a b h
  simp only [check_charTS, this]
  cases St.check .ws b with
  | none => exact h
  | some v => exact ⟨rfl, rfl⟩

theorem parseVar_sim (a b : St) (h : Sim a b) : parseVar charTS a = parseVar charTS b := by
  simp only [parseVar, check_charTS, check_sim .variable (by decide) a b h, check_sim .quoted (by decide) a b h]

theorem parseItem_sim (a b : St) (h : Sim a b) : parseItem charTS a = parseItem charTS b := by
  simp only [parseItem, parseVar_sim _ _ (consume_ws_sim a b h)]

theorem parseAtom_sim (f : Nat) (a b : St) (h : Sim a b) : parseAtom charTS f a = parseAtom charTS f b := by
  cases f with
  | zero => simp [parseAtom]
  | succ g =>
    have h1 := consume_ws_sim a b h
    simp only [parseAtom, check_charTS, check_sim .lparen (by decide) _ _ h1, parseItem_sim _ _ h1]

theorem parseMarker_sim (f : Nat) (a b : St) (h : Sim a b) : parseMarker charTS f a = parseMarker charTS f b := by
  cases f with
  | zero => simp [parseMarker]
  | succ g => simp only [parseMarker, parseAtom_sim g a b h]

/-! ### what is left after a marker does not start with white space -/

def NoWs (st : St) : Prop := matchWs st.rest = none

theorem noWs_ws (st : St) (h : NoWs st) : ws st = st := by
  have : matchWs st.rest = none := h
  simp [ws, consume, charTS, St.check, matchRule, this]

theorem drop_takeWhile (p : Nat → Bool) : (l : List Nat) → l.drop (l.takeWhile p).length = l.dropWhile p
  | [] => rfl
  | c :: cs => by
    cases h : p c
    · simp [List.takeWhile, List.dropWhile, h]
    · simp [List.takeWhile, List.dropWhile, h, drop_takeWhile p cs]

theorem consume_noWs (st : St) : NoWs (consume charTS .ws st) := by
  unfold consume
  cases h : charTS.check .ws st with
  | none =>
    simp only [check_charTS, St.check, matchRule] at h
    cases hm : matchWs st.rest with
    | none => exact hm
    | some n => simp [hm] at h
  | some v =>
    obtain ⟨t, st'⟩ := v
    simp only [check_charTS, St.check, matchRule] at h
    cases hm : matchWs st.rest with
    | none => simp [hm] at h
    | some n =>
      simp only [hm, Option.some.injEq, Prod.mk.injEq] at h
      obtain ⟨_, rfl⟩ := h
      simp only [matchWs] at hm
      split at hm
      · cases hm
      · simp only [Option.some.injEq] at hm
        subst hm
        show matchWs _ = none
        rw [drop_takeWhile]
        apply matchWs_none
        intro c hc
        have := List.head?_dropWhile_not Mk.isWs st.rest
        rw [hc] at this
        simp only [Bool.not_eq_true] at this
        rw [isWs_iff] at this
        simpa using this

theorem parseAtom_noWs (f : Nat) (st : St) (m : M) (st' : St) (h : parseAtom charTS f st = .ok (m, st')) : NoWs st' := by
  cases f with
  | zero => simp [parseAtom] at h
  | succ g =>
    simp only [parseAtom] at h
    split at h
    · simp only [bind, Except.bind] at h
      split at h
      · cases h
      · split at h
        · cases h
        · simp only [pure, Except.pure, Except.ok.injEq, Prod.mk.injEq] at h
          rw [← h.2]; exact consume_noWs _
    · simp only [bind, Except.bind] at h
      split at h
      · cases h
      · simp only [pure, Except.pure, Except.ok.injEq, Prod.mk.injEq] at h
        rw [← h.2]; exact consume_noWs _

theorem parseRest_noWs : (f : Nat) → (acc : List M) → (st : St) → (l : List M) → (st' : St) →
    parseRest charTS f acc st = .ok (l, st') → NoWs st → NoWs st'
  | 0, _, _, _, _, h, _ => by simp [parseRest] at h
  | f + 1, acc, st, l, st', h, hn => by
    simp only [parseRest] at h
    split at h
    · simp only [Except.ok.injEq, Prod.mk.injEq] at h; rw [← h.2]; exact hn
    · simp only [bind, Except.bind] at h
      split at h
      · cases h
      · rename_i v hv
        exact parseRest_noWs f _ _ l st' h (parseAtom_noWs f _ _ _ hv)

/-- what `_parse_marker` leaves does not start with white space -/
theorem parseMarker_noWs (f : Nat) (st : St) (l : List M) (st' : St) (h : parseMarker charTS f st = .ok (l, st')) : NoWs st' := by
  cases f with
  | zero => simp [parseMarker] at h
  | succ g =>
    simp only [parseMarker, bind, Except.bind] at h
    split at h
    · cases h
    · rename_i v hv
      exact parseRest_noWs g _ _ l st' h (parseAtom_noWs g _ _ _ hv)

/-- **the marker the requirement parser returns for `;text` is what the stand-alone marker parser returns for
`text`** (same list; the stand-alone run has its own, smaller, recursion budget — it suffices) -/
theorem marker_standalone (fuel : Nat) (p : Option Nat) (hp : isWordO p = false) (text : Str) (m : List M) (se : St)
    (h : parseMarker charTS fuel ⟨p, text⟩ = .ok (m, se)) (hend : peekEnd (ws se) = true) : Mk.parse text = .ok m := by
  have hsim : Sim ⟨p, text⟩ ⟨none, text⟩ := ⟨rfl, by simpa [isWordO] using hp⟩
  rw [parseMarker_sim fuel _ _ hsim] at h
  have h2 := ((fuel_enough fuel).1 _ m se h).2 (fuelFor text.length) (by simp only [fuelFor]; omega)
  have hn := parseMarker_noWs fuel _ m se h
  rw [noWs_ws se hn] at hend
  unfold Mk.parse parseFull
  simp only [h2, bind, Except.bind]
  simp only [peekEnd] at hend
  cases he : St.check .end_ se with
  | none => simp [he] at hend
  | some v => simp [check_charTS, he, pure, Except.pure]
end ReqMk
