import PkgProofs.Lemmas.LicModel
/-!
# Canonical forms are fixed points, re-lex to themselves, and ignore ASCII case
-/
namespace LicC
open Py Lic Spdx LicL LicW LicP LicR LicM

/-! ### word level: canonical spellings are fixed points -/

theorem canonException_fix {w id : Str} (h : canonException w = some id) : canonException id = some id := by
  obtain ⟨e, _, _, hl⟩ := official_mem h
  unfold canonException at h ⊢
  rw [official_congr _ hl]; exact h

theorem lower_sRef : lowerStr sRef = sRefLower := by decide

theorem isRef_false_of_not_prefix {x : Str} (h : startsWith (lowerStr x) kRefLower = false) : isRef x = false := by
  unfold isRef
  have : (lowerStr (x.take 11) == sRefLower) = false := by
    rw [← take_lower]; rw [startsWith_eq_take] at h; exact h
  simp [this]

theorem not_prefix_plus {x : Str} (h : startsWith (lowerStr x) kRefLower = false) :
    startsWith (lowerStr (x ++ [43])) kRefLower = false := by
  cases hs : startsWith (lowerStr (x ++ [43])) kRefLower with
  | false => rfl
  | true =>
    exfalso
    have hd : (lowerStr (x ++ [43])).dropLast = lowerStr x := by
      rw [dropLast_lower]; simp
    have := prefix_exact hs (by rw [hd]; exact h)
    have hl : (lowerStr (x ++ [43])).getLast? = some 43 := by
      simp [lowerStr, lowerAscii, isUpperAscii]
    rw [this] at hl
    simp [kRefLower] at hl

theorem canonSimple_fix {w id : Str} (h : canonSimple w = some id) : canonSimple id = some id := by
  unfold canonSimple at h
  split at h
  · -- a LicenseRef
    rename_i href
    simp only [Option.some.injEq] at h
    subst h
    unfold isRef at href
    simp only [Bool.and_eq_true, beq_iff_eq, Bool.not_eq_true'] at href
    have hd : (sRef ++ w.drop 11).drop 11 = w.drop 11 := by
      rw [List.drop_append_of_le_length (by simp [sRef])]; simp [sRef]
    have ht : (sRef ++ w.drop 11).take 11 = sRef := by
      rw [List.take_append_of_le_length (by simp [sRef])]; simp [sRef]
    have : isRef (sRef ++ w.drop 11) = true := by
      unfold isRef
      simp only [hd, ht, lower_sRef, beq_self_eq_true, Bool.true_and, Bool.and_eq_true, Bool.not_eq_true']
      exact ⟨href.1.2, href.2⟩
    unfold canonSimple
    simp [this, hd]
  · split at h
    · -- a licence id
      rename_i hnr id' hoff
      simp only [Option.some.injEq] at h
      subst h
      have hno := (official_not_op C19.licenses_entries_ok hoff).2.2.2.2.2
      have hfix : officialId Gen.SpdxTables.licenses id' = some id' := by
        obtain ⟨e, _, _, hl⟩ := official_mem hoff
        rw [official_congr _ hl]; exact hoff
      unfold canonSimple
      simp [isRef_false_of_not_prefix hno, hfix]
    · split at h
      · -- licence id followed by "+"
        rename_i hnr hnone hplus
        cases hoff : officialId Gen.SpdxTables.licenses w.dropLast with
        | none => simp [hoff] at h
        | some id' =>
          simp only [hoff, Option.map_some, Option.some.injEq] at h
          subst h
          have hno := (official_not_op C19.licenses_entries_ok hoff).2.2.2.2.2
          have hfix : officialId Gen.SpdxTables.licenses id' = some id' := by
            obtain ⟨e, _, _, hl⟩ := official_mem hoff
            rw [official_congr _ hl]; exact hoff
          have hnr' := isRef_false_of_not_prefix (not_prefix_plus hno)
          have hlast : ((id' ++ [43]).getLast? == some 43) = true := by simp
          have hdl : (id' ++ [43]).dropLast = id' := by simp
          unfold canonSimple
          simp only [hnr', Bool.false_eq_true, if_false]
          cases hoff2 : officialId Gen.SpdxTables.licenses (id' ++ [43]) with
          | some id2 =>
            obtain ⟨id3, h3, h4⟩ := official_plus hoff2 hlast
            rw [hdl, hfix] at h3
            simp only [Option.some.injEq] at h3
            subst h3
            simp [h4]
          | none =>
            simp only [hlast, if_true, hdl, hfix, Option.map_some]
      · simp at h

/-- a canonical identifier is never an operator word -/
theorem classify_word {x : Str} (h1 : lowerStr x ≠ sAnd) (h2 : lowerStr x ≠ sOr) (h3 : lowerStr x ≠ sWith) :
    classify x = .word x := by
  have e1 : (lowerStr x == sAnd) = false := by simpa using h1
  have e2 : (lowerStr x == sOr) = false := by simpa using h2
  have e3 : (lowerStr x == sWith) = false := by simpa using h3
  simp [classify, e1, e2, e3]

theorem canonException_classify {w id : Str} (h : canonException w = some id) : classify id = .word id := by
  have := official_not_op C19.exceptions_entries_ok h
  exact classify_word this.2.1 this.1 this.2.2.1

theorem canonSimple_classify {w id : Str} (h : canonSimple w = some id) : classify id = .word id := by
  unfold canonSimple at h
  split at h
  · simp only [Option.some.injEq] at h
    subst h
    apply classify_word <;> simp [lowerStr, sRef, sAnd, sOr, sWith, lowerAscii, isUpperAscii]
  · split at h
    · rename_i id' hoff
      simp only [Option.some.injEq] at h; subst h
      have := official_not_op C19.licenses_entries_ok hoff
      exact classify_word this.2.1 this.1 this.2.2.1
    · split at h
      · cases hoff : officialId Gen.SpdxTables.licenses w.dropLast with
        | none => simp [hoff] at h
        | some id' =>
          simp only [hoff, Option.map_some, Option.some.injEq] at h
          subst h
          have hl : (lowerStr (id' ++ [43])).getLast? = some 43 := by
            simp [lowerStr, lowerAscii, isUpperAscii]
          apply classify_word <;> (intro hc; rw [hc] at hl; simp [sAnd, sOr, sWith] at hl)
      · simp at h

end LicC

namespace LicC
open Py Lic Spdx LicL LicW LicP LicR LicM

/-! ### re-lexing a rendered canonical token list -/

/-- a token whose spelling lexes back to itself -/
def Good (t : Tok) : Prop := t = .lp ∨ t = .rp ∨ (WordOK (spell t) ∧ classify (spell t) = t)

theorem good_and : Good .and := Or.inr (Or.inr ⟨⟨by decide, by decide⟩, by decide⟩)
theorem good_or : Good .or := Or.inr (Or.inr ⟨⟨by decide, by decide⟩, by decide⟩)
theorem good_with : Good .with := Or.inr (Or.inr ⟨⟨by decide, by decide⟩, by decide⟩)

theorem lexGo_word (x R acc : Str) (hx : ∀ c ∈ x, Lic.isSpace c = false ∧ c ≠ 40 ∧ c ≠ 41) :
    lexGo (x ++ R) acc = lexGo R (acc ++ x) := by
  induction x generalizing acc with
  | nil => simp
  | cons c cs ih =>
    have hc := hx c (by simp)
    have e0 : Spdx.isSpace c = false := hc.1
    have e1 : (c == 40) = false := by simpa using hc.2.1
    have e2 : (c == 41) = false := by simpa using hc.2.2
    simp only [List.cons_append, lexGo, e0, e1, e2, Bool.false_eq_true, if_false]
    rw [ih _ (fun d hd => hx d (by simp [hd]))]
    simp

/-- the text after a word: nothing, or something that starts with a separator -/
def Delim (R : Str) : Prop := R = [] ∨ ∃ c R', R = c :: R' ∧ (Lic.isSpace c = true ∨ c = 40 ∨ c = 41)

theorem lexGo_nil_acc (c : Nat) (R' x : Str) (hx : x ≠ []) (hd : Lic.isSpace c = true ∨ c = 40 ∨ c = 41) :
    lexGo (c :: R') x = classify x :: lexGo (c :: R') [] := by
  have hf : flush x = [classify x] := by
    unfold flush; cases x with
    | nil => exact absurd rfl hx
    | cons a b => rfl
  have hf0 : flush ([] : Str) = [] := rfl
  rcases hd with hd | hd | hd
  · have : Spdx.isSpace c = true := hd
    simp only [lexGo, this, if_true, hf, hf0, List.nil_append, List.singleton_append]
  · subst hd
    simp only [lexGo, show Spdx.isSpace 40 = false from by decide, Bool.false_eq_true, if_false, beq_self_eq_true,
      if_true, hf, hf0, List.nil_append, List.singleton_append]
  · subst hd
    simp only [lexGo, show Spdx.isSpace 41 = false from by decide, Bool.false_eq_true, if_false,
      show (41 == 40) = false from rfl, beq_self_eq_true, if_true, hf, hf0, List.nil_append, List.singleton_append]

theorem lexGo_word_then (x R : Str) (hx : WordOK x) (hR : Delim R) :
    lexGo (x ++ R) [] = classify x :: lexGo R [] := by
  rw [lexGo_word x R [] hx.2, List.nil_append]
  rcases hR with hR | ⟨c, R', hR, hd⟩
  · subst hR
    simp only [lexGo, flush]
    cases x with
    | nil => exact absurd rfl hx.1
    | cons a b => rfl
  · subst hR; exact lexGo_nil_acc c R' x hx.1 hd

theorem render_head (y : Str) (r : List Str) : ∃ T, render (y :: r) = y ++ T := by
  cases r with
  | nil => exact ⟨[], by simp [render]⟩
  | cons z r' =>
    simp only [render]
    split
    · exact ⟨_, rfl⟩
    · exact ⟨_, rfl⟩

theorem spell_word_ne {t : Tok} (h : WordOK (spell t)) : (spell t == sLP) = false ∧ (spell t == sRP) = false :=
  word_ne_paren h

/-- **round trip**: lexing the rendering of good tokens gives the tokens back -/
theorem relex (cs : List Tok) (h : ∀ t ∈ cs, Good t) : lex (render (cs.map spell)) = cs := by
  unfold lex
  induction cs with
  | nil => rfl
  | cons t r ih =>
    have ht := h t List.mem_cons_self
    have hr : ∀ u ∈ r, Good u := fun u hu => h u (List.mem_cons_of_mem _ hu)
    have ih' := ih hr
    cases r with
    | nil =>
      simp only [List.map_cons, List.map_nil, render]
      rcases ht with ht | ht | ht
      · subst ht; rfl
      · subst ht; rfl
      · have := lexGo_word_then (spell t) [] ht.1 (Or.inl rfl)
        simp only [List.append_nil] at this
        rw [this, ht.2]; rfl
    | cons u r' =>
      simp only [List.map_cons] at ih' ⊢
      -- the rendering of the tail starts with the spelling of `u`
      obtain ⟨T, hT⟩ := render_head (spell u) (r'.map spell)
      generalize spell u = y at ih' hT
      generalize r'.map spell = ys at ih' hT
      have hsp32 : Spdx.isSpace 32 = true := by decide
      have hsp40 : Spdx.isSpace 40 = false := by decide
      have hsp41 : Spdx.isSpace 41 = false := by decide
      have hfl : flush ([] : Str) = [] := rfl
      rcases ht with ht | ht | ht
      · -- "("
        subst ht
        rw [show spell Tok.lp = sLP from rfl]
        simp only [render, beq_self_eq_true, Bool.true_or, if_true]
        simp only [sLP, List.cons_append, List.nil_append, lexGo, hsp40, Bool.false_eq_true, if_false,
          beq_self_eq_true, if_true, hfl]
        rw [ih']
      · -- ")"
        subst ht
        rw [show spell Tok.rp = sRP from rfl]
        simp only [render, show (sRP == sLP) = false from rfl, Bool.false_or]
        split
        · simp only [sRP, List.cons_append, List.nil_append, lexGo, hsp41, Bool.false_eq_true, if_false,
            show (41 == 40) = false from rfl, beq_self_eq_true, if_true, hfl]
          rw [ih']
        · simp only [sRP, List.cons_append, List.nil_append, lexGo, hsp41, hsp32, Bool.false_eq_true, if_false,
            show (41 == 40) = false from rfl, beq_self_eq_true, if_true, hfl]
          rw [ih']
      · -- a word or an operator
        have hne := spell_word_ne ht.1
        simp only [render, hne.1, Bool.false_or]
        split
        · rename_i hrp
          have hsu : y = sRP := by simpa using hrp
          have hD : Delim (render (y :: ys)) := by
            rw [hT, hsu]; exact Or.inr ⟨41, _, rfl, Or.inr (Or.inr rfl)⟩
          rw [lexGo_word_then _ _ ht.1 hD, ih', ht.2]
        · have hD : Delim (32 :: render (y :: ys)) :=
            Or.inr ⟨32, _, rfl, Or.inl (by decide)⟩
          rw [lexGo_word_then _ _ ht.1 hD, ht.2]
          simp only [lexGo, hsp32, if_true, hfl, List.nil_append]
          rw [ih']

/-! ### the canonical token list of a well-formed expression -/

/-- the words of a lexed string: well-shaped and not operator words -/
def SrcOK (ts : List Tok) : Prop := ∀ w, Tok.word w ∈ ts → WordOK w

theorem isWith_of (k : Kind) : isWith k = true → k = .with := by cases k <;> simp [isWith]

/-- on an accepted token list every canonical token is good, the canonical list is accepted again and is
its own canonical list -/
theorem canonWords_props (ts : List Tok) (hs : SrcOK ts) (d : Nat) (k : Kind) (hg : goC ts d k = true) :
    (∀ t ∈ canonWords ts (isWith k), Good t) ∧ goC (canonWords ts (isWith k)) d k = true ∧
    canonWords (canonWords ts (isWith k)) (isWith k) = canonWords ts (isWith k) := by
  induction ts generalizing d k with
  | nil => simp [canonWords, hg]
  | cons t r ih =>
    have hs' : SrcOK r := fun w hw => hs w (List.mem_cons_of_mem _ hw)
    cases t with
    | lp =>
      simp only [goC, Bool.and_eq_true] at hg
      have := ih hs' (d + 1) .lp hg.2
      simp only [show isWith Kind.lp = false from rfl] at this
      simp only [canonWords, goC, hg.1, Bool.true_and, List.mem_cons, forall_eq_or_imp]
      exact ⟨⟨Or.inl rfl, this.1⟩, this.2.1, by rw [this.2.2]⟩
    | rp =>
      simp only [goC, Bool.and_eq_true] at hg
      have := ih hs' (d - 1) .rp hg.2
      simp only [show isWith Kind.rp = false from rfl] at this
      simp only [canonWords, goC, hg.1.1, hg.1.2, Bool.true_and, List.mem_cons, forall_eq_or_imp]
      exact ⟨⟨Or.inr (Or.inl rfl), this.1⟩, this.2.1, by rw [this.2.2]⟩
    | and =>
      simp only [goC, Bool.and_eq_true] at hg
      have := ih hs' d .op hg.2
      simp only [show isWith Kind.op = false from rfl] at this
      simp only [canonWords, goC, hg.1, Bool.true_and, List.mem_cons, forall_eq_or_imp]
      exact ⟨⟨good_and, this.1⟩, this.2.1, by rw [this.2.2]⟩
    | or =>
      simp only [goC, Bool.and_eq_true] at hg
      have := ih hs' d .op hg.2
      simp only [show isWith Kind.op = false from rfl] at this
      simp only [canonWords, goC, hg.1, Bool.true_and, List.mem_cons, forall_eq_or_imp]
      exact ⟨⟨good_or, this.1⟩, this.2.1, by rw [this.2.2]⟩
    | «with» =>
      simp only [goC, Bool.and_eq_true] at hg
      have := ih hs' d .with hg.2
      simp only [show isWith Kind.with = true from rfl] at this
      simp only [canonWords, goC, hg.1, Bool.true_and, List.mem_cons, forall_eq_or_imp]
      exact ⟨⟨good_with, this.1⟩, this.2.1, by rw [this.2.2]⟩
    | word w =>
      have hw : WordOK w := hs w List.mem_cons_self
      simp only [goC] at hg
      cases hk : isWith k with
      | true =>
        simp only [hk, if_true, Bool.and_eq_true, isException] at hg
        cases hc : canonException w with
        | none => simp [hc] at hg
        | some id =>
          have := ih hs' d .exc hg.2
          simp only [show isWith Kind.exc = false from rfl] at this
          have hfix := canonException_fix hc
          simp only [canonWords, if_true, hc, Option.getD_some, goC, hk, isException, hfix, Option.isSome_some,
            Bool.true_and, List.mem_cons, forall_eq_or_imp]
          exact ⟨⟨Or.inr (Or.inr ⟨canonException_ok hc, canonException_classify hc⟩), this.1⟩, this.2.1,
            by rw [this.2.2]⟩
      | false =>
        simp only [hk, Bool.false_eq_true, if_false, Bool.and_eq_true, isSimple] at hg
        cases hc : canonSimple w with
        | none => simp [hc] at hg
        | some id =>
          have := ih hs' d .lic hg.2
          simp only [show isWith Kind.lic = false from rfl] at this
          have hfix := canonSimple_fix hc
          simp only [canonWords, Bool.false_eq_true, if_false, hc, Option.getD_some, goC, hk, isSimple, hfix,
            Option.isSome_some, hg.1.1, Bool.true_and, Bool.and_true, List.mem_cons, forall_eq_or_imp]
          exact ⟨⟨Or.inr (Or.inr ⟨canonSimple_ok hw hc, canonSimple_classify hc⟩), this.1⟩, this.2.1,
            by rw [this.2.2]⟩

/-- the words of a lexed string are well-shaped -/
theorem lex_srcOK (s : Str) : SrcOK (lex s) := by
  intro w hw
  rw [lex_eq] at hw
  obtain ⟨x, hx, hxe⟩ := List.mem_map.mp hw
  have hok := split_pad_ok s x hx
  cases tok_cases hok with
  | lp h => subst h; simp [tokOf] at hxe
  | rp h => subst h; simp [tokOf] at hxe
  | and hw' hl => rw [tokOf_word hw'] at hxe; simp [classify, hl, kAnd, sAnd] at hxe
  | or hw' hl => rw [tokOf_word hw'] at hxe; simp [classify, hl, kOr, sAnd, sOr] at hxe
  | «with» hw' hl => rw [tokOf_word hw'] at hxe; simp [classify, hl, kWith, sAnd, sOr, sWith] at hxe
  | word hw' h1 h2 h3 h4 h5 =>
    rw [tokOf_word hw'] at hxe
    simp only [classify, show sAnd = kAnd from rfl, show sOr = kOr from rfl, show sWith = kWith from rfl, h3, h4, h5,
      Bool.false_eq_true, if_false, Tok.word.injEq] at hxe
    rw [← hxe]; exact hw'

end LicC

namespace LicC
open Py Lic Spdx LicL LicW LicP LicR LicM

/-! ### ASCII case does not matter -/

theorem lowerAscii_idem (c : Nat) : lowerAscii (lowerAscii c) = lowerAscii c := by
  unfold lowerAscii isUpperAscii
  split
  · rename_i h
    simp only [Bool.and_eq_true, decide_eq_true_eq] at h
    have : ¬ (65 ≤ c + 32 ∧ c + 32 ≤ 90) := by omega
    simp only [Bool.and_eq_true, decide_eq_true_eq, this, if_false]
  · rename_i h; simp [h]

theorem lowerStr_idem (w : Str) : lowerStr (lowerStr w) = lowerStr w := by
  simp [lowerStr, lowerAscii_idem]

theorem lower_sRefLower : lowerStr sRefLower = sRefLower := by decide

theorem lower_fold (w : Str) : lowerStr (foldWord w) = lowerStr w := by
  unfold foldWord
  split
  · rename_i h
    have h' : lowerStr (w.take 11) = sRefLower := by simpa using h
    rw [lowerStr_append, lower_sRefLower, ← h', ← lowerStr_append, List.take_append_drop]
  · exact lowerStr_idem w

theorem isRef_fold (w : Str) : isRef (foldWord w) = isRef w ∧ (isRef w = true → (foldWord w).drop 11 = w.drop 11) := by
  unfold foldWord
  split
  · rename_i h
    have hd : (sRefLower ++ w.drop 11).drop 11 = w.drop 11 := by
      rw [List.drop_append_of_le_length (by simp [sRefLower])]; simp [sRefLower]
    have ht : (sRefLower ++ w.drop 11).take 11 = sRefLower := by
      rw [List.take_append_of_le_length (by simp [sRefLower])]; simp [sRefLower]
    refine ⟨?_, fun _ => hd⟩
    unfold isRef
    rw [hd, ht, lower_sRefLower, h]; simp
  · rename_i h
    have h' : (lowerStr (w.take 11) == sRefLower) = false := by simpa using h
    have : isRef w = false := by unfold isRef; simp [h']
    refine ⟨?_, fun hc => by rw [this] at hc; exact Bool.noConfusion hc⟩
    rw [this]
    unfold isRef
    rw [← take_lower, lowerStr_idem, take_lower, h']; simp

theorem canonSimple_congr {f w : Str} (h1 : isRef f = isRef w) (h2 : isRef w = true → f.drop 11 = w.drop 11)
    (h3 : lowerStr f = lowerStr w) : canonSimple f = canonSimple w := by
  have hl : (f.getLast? == some 43) = (w.getLast? == some 43) := by
    rw [← getLast_lower f, ← getLast_lower w, h3]
  have hd : lowerStr f.dropLast = lowerStr w.dropLast := by
    rw [← dropLast_lower, ← dropLast_lower, h3]
  unfold canonSimple
  rw [h1, official_congr _ h3, hl, official_congr _ hd]
  cases hr : isRef w with
  | true => simp [h2 hr]
  | false => rfl

theorem canonSimple_fold (w : Str) : canonSimple (foldWord w) = canonSimple w :=
  canonSimple_congr (isRef_fold w).1 (isRef_fold w).2 (lower_fold w)

theorem canonException_fold (w : Str) : canonException (foldWord w) = canonException w := by
  unfold canonException; exact official_congr _ (lower_fold w)

theorem goC_fold (ts : List Tok) (d : Nat) (k : Kind) : goC (ts.map foldTok) d k = goC ts d k := by
  induction ts generalizing d k with
  | nil => rfl
  | cons t r ih =>
    cases t <;> simp only [List.map_cons, foldTok, goC, ih]
    simp only [isException, isSimple, canonSimple_fold, canonException_fold]

theorem canonWords_fold (ts : List Tok) (aw : Bool) : canonWords (ts.map foldTok) aw = canonWords ts aw := by
  induction ts generalizing aw with
  | nil => rfl
  | cons t r ih =>
    cases t <;> simp only [List.map_cons, foldTok, canonWords, ih]
    simp only [canonSimple_fold, canonException_fold]

theorem canon_fold (ts : List Tok) : Spdx.canon (ts.map foldTok) = Spdx.canon ts := by
  unfold Spdx.canon canonToks
  rw [WF_eq_goC, WF_eq_goC, goC_fold, canonWords_fold]

theorem canonWords_shape (ts : List Tok) (aw : Bool) : (canonWords ts aw).map shape = ts.map shape := by
  induction ts generalizing aw with
  | nil => rfl
  | cons t r ih => cases t <;> simp [canonWords, shape, ih]

end LicC
