import PkgModel.License
import PkgModel.Spec.Spdx
/-!
# The recursive-descent recogniser `Spdx.parse` accepts exactly what the one-pass machine accepts

`goC` reads spec tokens left to right with a parenthesis depth and the kind of the previous token
(the shape of the implementation's structure loop, with identifier validity folded in).
`parse_eq_goC`: running the machine from an "operand expected" state equals: let `parse` read a
compound expression, then continue the machine on the rest in a "closed" state.
-/
namespace LicP
open Spdx Lic

def isLic : Kind → Bool | .lic => true | _ => false
def isWith : Kind → Bool | .with => true | _ => false
theorem beq_lic (k : Kind) : (k == .lic) = isLic k := by cases k <;> decide
theorem beq_with (k : Kind) : (k == .with) = isWith k := by cases k <;> decide

/-- the one-pass machine on spec tokens -/
def goC : List Tok → Nat → Kind → Bool
  | [], d, k => d == 0 && k.closes
  | .lp :: ts, d, k => k.opens && goC ts (d + 1) .lp
  | .rp :: ts, d, k => k.closes && decide (d > 0) && goC ts (d - 1) .rp
  | .and :: ts, d, k => k.closes && goC ts d .op
  | .or :: ts, d, k => k.closes && goC ts d .op
  | .with :: ts, d, k => isLic k && goC ts d .with
  | .word w :: ts, d, k =>
    if isWith k then isException w && goC ts d .exc
    else k.opens && isSimple w && goC ts d .lic

theorem opens_not_closes {k : Kind} (h : k.opens = true) : k.closes = false := by
  cases k <;> simp_all [Kind.opens, Kind.closes]

/-- after an exception the machine behaves as after a closing parenthesis -/
theorem goC_exc (ts : List Tok) (d : Nat) : goC ts d .exc = goC ts d .rp := by
  cases ts with
  | nil => simp [goC, Kind.closes]
  | cons t ts => cases t <;> simp [goC, Kind.closes, Kind.opens, isLic, isWith]

/-- after a licence the machine behaves as after a closing parenthesis, unless `WITH word` follows -/
theorem goC_lic (ts : List Tok) (d : Nat) (h : ∀ e r, ts ≠ .with :: .word e :: r) :
    goC ts d .lic = goC ts d .rp := by
  cases ts with
  | nil => simp [goC, Kind.closes]
  | cons t ts =>
    cases t <;> simp [goC, Kind.closes, Kind.opens, isLic, isWith]
    -- `with`
    cases ts with
    | nil => simp [goC, Kind.closes]
    | cons u us =>
      cases u <;> simp [goC, Kind.closes, Kind.opens, isLic, isWith]
      exact absurd rfl (h _ _)

/-- `parse` never stops in front of `AND`/`OR` -/
theorem parse_rest (n : Nat) (ts r : List Tok) (h : parse n ts = some r) :
    (∀ x, r ≠ .and :: x) ∧ (∀ x, r ≠ .or :: x) := by
  induction n generalizing ts r with
  | zero => simp [parse] at h
  | succ n ih =>
    simp only [parse] at h
    split at h
    · exact ih _ _ h
    · exact ih _ _ h
    · rename_i x h1 h2
      constructor
      · intro y hy; subst hy; exact h1 y h
      · intro y hy; subst hy; exact h2 y h

theorem term_shorter (sub : List Tok → Option (List Tok)) (ts r : List Tok)
    (hsub : ∀ a b, sub a = some b → b.length ≤ a.length) (h : term sub ts = some r) :
    r.length < ts.length := by
  unfold term at h
  split at h
  · split at h
    · rename_i r0 r' hs
      have := hsub _ _ hs
      simp only [Option.some.injEq] at h; subst h
      simp only [List.length_cons] at this ⊢; omega
    · simp at h
  · split at h
    · simp only [Option.some.injEq] at h; subst h; simp only [List.length_cons]; omega
    · simp at h
  · split at h
    · simp only [Option.some.injEq] at h; subst h; simp only [List.length_cons]; omega
    · simp at h
  · simp at h

theorem parse_shorter (n : Nat) (ts r : List Tok) (h : parse n ts = some r) : r.length < ts.length := by
  induction n generalizing ts r with
  | zero => simp [parse] at h
  | succ n ih =>
    have hsub : ∀ a b, parse n a = some b → b.length ≤ a.length := fun a b hab => Nat.le_of_lt (ih a b hab)
    simp only [parse] at h
    split at h
    · rename_i r1 ht
      have h1 := term_shorter _ _ _ hsub ht
      have h2 := ih _ _ h
      simp only [List.length_cons] at h1; omega
    · rename_i r1 ht
      have h1 := term_shorter _ _ _ hsub ht
      have h2 := ih _ _ h
      simp only [List.length_cons] at h1; omega
    · exact term_shorter _ _ _ hsub h

end LicP

namespace LicP
open Spdx Lic

/-- what the induction hypothesis says about the sub-parser -/
def SubOk (sub : List Tok → Option (List Tok)) (n : Nat) : Prop :=
  ∀ (ts : List Tok) (d : Nat) (k : Kind), k.opens = true → ts.length < n →
    goC ts d k = (match sub ts with | some r => goC r d .rp | none => false)

theorem term_lp (sub : List Tok → Option (List Tok)) (r : List Tok) :
    term sub (.lp :: r) = (match sub r with | some (.rp :: r') => some r' | _ => none) := rfl

theorem term_with (sub : List Tok → Option (List Tok)) (a e : Py.Str) (r : List Tok) :
    term sub (.word a :: .with :: .word e :: r) = if isSimple a && isException e then some r else none := rfl

theorem term_word (sub : List Tok → Option (List Tok)) (a : Py.Str) (r : List Tok)
    (h : ∀ e r', r ≠ .with :: .word e :: r') :
    term sub (.word a :: r) = if isSimple a then some r else none := by
  cases r with
  | nil => rfl
  | cons t r' =>
    cases t <;> try rfl
    cases r' with
    | nil => rfl
    | cons u r'' =>
      cases u <;> try rfl
      exact absurd rfl (h _ _)

theorem term_eq_goC (sub : List Tok → Option (List Tok)) (n : Nat) (hs : SubOk sub n)
    (hrest : ∀ a b, sub a = some b → (∀ x, b ≠ .and :: x) ∧ (∀ x, b ≠ .or :: x))
    (ts : List Tok) (d : Nat) (k : Kind) (hk : k.opens = true) (hl : ts.length < n + 1) :
    goC ts d k = (match term sub ts with | some r => goC r d .rp | none => false) := by
  have hc := opens_not_closes hk
  have hw : isWith k = false := by cases k <;> simp_all [Kind.opens, isWith]
  have hli : isLic k = false := by cases k <;> simp_all [Kind.opens, isLic]
  cases ts with
  | nil => simp [goC, hc, term]
  | cons t ts' =>
    cases t with
    | rp => simp [goC, hc, term]
    | and => simp [goC, hc, term]
    | or => simp [goC, hc, term]
    | «with» => simp [goC, hli, term]
    | lp =>
      -- "(" compound ")"
      have hl' : ts'.length < n := by simp only [List.length_cons] at hl; omega
      have h := hs ts' (d + 1) .lp rfl hl'
      rw [term_lp]
      simp only [goC, hk, Bool.true_and, h]
      cases hsr : sub ts' with
      | none => simp
      | some b =>
        have hb := hrest _ _ hsr
        cases b with
        | nil => simp [goC]
        | cons t b' =>
          cases t with
          | rp => simp [goC, Kind.closes]
          | and => exact absurd rfl (hb.1 b')
          | or => exact absurd rfl (hb.2 b')
          | lp => simp [goC, Kind.opens]
          | «with» => simp [goC, isLic]
          | word w => simp [goC, isWith, Kind.opens]
    | word a =>
      by_cases hex : ∃ e r', ts' = .with :: .word e :: r'
      · -- simple WITH exception
        obtain ⟨e, r', rfl⟩ := hex
        rw [term_with]
        simp only [goC, hk, hw, Bool.false_eq_true, if_false, Bool.true_and, goC_exc,
          show isLic Kind.lic = true from rfl, show isWith Kind.with = true from rfl, if_true]
        cases isSimple a <;> cases isException e <;> simp
      · -- simple
        have hne : ∀ e r', ts' ≠ .with :: .word e :: r' := fun e r' h => hex ⟨e, r', h⟩
        rw [term_word _ _ _ hne]
        simp only [goC, hk, hw, Bool.false_eq_true, if_false, Bool.true_and]
        rw [goC_lic ts' d hne]
        cases isSimple a <;> simp

theorem parse_eq_goC (n : Nat) : SubOk (parse n) n := by
  induction n with
  | zero => intro ts d k _ hl; simp at hl
  | succ n ih =>
    intro ts d k hk hl
    have hsub : ∀ a b, parse n a = some b → b.length ≤ a.length :=
      fun a b hab => Nat.le_of_lt (parse_shorter n a b hab)
    have ht := term_eq_goC (parse n) n ih (parse_rest n) ts d k hk hl
    rw [ht]
    simp only [parse]
    cases heq : term (parse n) ts with
    | none => rfl
    | some r =>
      have hlen := term_shorter _ _ _ hsub heq
      cases r with
      | nil => rfl
      | cons t r' =>
        have hl2 : r'.length < n := by simp only [List.length_cons] at hlen; omega
        cases t with
        | and => simp only [goC, Kind.closes, Bool.true_and]; exact ih r' d .op rfl hl2
        | or => simp only [goC, Kind.closes, Bool.true_and]; exact ih r' d .op rfl hl2
        | lp => rfl
        | rp => rfl
        | «with» => rfl
        | word w => rfl

/-- **the recogniser is the machine**: `WF` holds iff the one-pass machine accepts -/
theorem WF_eq_goC (ts : List Tok) : WF ts = goC ts 0 .lp := by
  have h := parse_eq_goC (ts.length + 1) ts 0 .lp rfl (Nat.lt_succ_self _)
  rw [h]
  unfold WF
  cases hp : parse (ts.length + 1) ts with
  | none => simp
  | some r =>
    simp only
    cases r with
    | nil => simp [goC, Kind.closes]
    | cons t r' =>
      have hb := parse_rest _ _ _ hp
      cases t with
      | rp => simp [goC]
      | and => exact absurd rfl (hb.1 r')
      | or => exact absurd rfl (hb.2 r')
      | lp => simp [goC, Kind.opens]
      | «with» => simp [goC, isLic]
      | word w => simp [goC, isWith, Kind.opens]

end LicP

namespace LicP
open Spdx Lic

/-! ### the recogniser decides the declarative grammar -/

theorem term_sound (sub : List Tok → Option (List Tok))
    (hs : ∀ ts r, sub ts = some r → ∃ x, Compound x ∧ ts = x ++ r)
    (ts r : List Tok) (h : term sub ts = some r) : ∃ x, Compound x ∧ ts = x ++ r := by
  cases ts with
  | nil => simp [term] at h
  | cons t ts' =>
    cases t with
    | rp => simp [term] at h
    | and => simp [term] at h
    | or => simp [term] at h
    | «with» => simp [term] at h
    | lp =>
      rw [term_lp] at h
      cases hsr : sub ts' with
      | none => simp [hsr] at h
      | some b =>
        cases b with
        | nil => simp [hsr] at h
        | cons u b' =>
          cases u <;> simp [hsr] at h
          subst h
          obtain ⟨x, hx, he⟩ := hs _ _ hsr
          exact ⟨.lp :: x ++ [.rp], .paren x hx, by rw [he]; simp⟩
    | word a =>
      by_cases hex : ∃ e r', ts' = .with :: .word e :: r'
      · obtain ⟨e, r', rfl⟩ := hex
        rw [term_with] at h
        split at h
        · rename_i hv
          simp only [Bool.and_eq_true] at hv
          simp only [Option.some.injEq] at h; subst h
          exact ⟨_, .withExc a e hv.1 hv.2, rfl⟩
        · simp at h
      · have hne : ∀ e r', ts' ≠ .with :: .word e :: r' := fun e r' h => hex ⟨e, r', h⟩
        rw [term_word _ _ _ hne] at h
        split at h
        · rename_i hv
          simp only [Option.some.injEq] at h; subst h
          exact ⟨_, .simple a hv, rfl⟩
        · simp at h

theorem parse_sound (n : Nat) (ts r : List Tok) (h : parse n ts = some r) : ∃ x, Compound x ∧ ts = x ++ r := by
  induction n generalizing ts r with
  | zero => simp [parse] at h
  | succ n ih =>
    simp only [parse] at h
    cases ht : term (parse n) ts with
    | none => simp [ht] at h
    | some b =>
      obtain ⟨x, hx, he⟩ := term_sound (parse n) ih ts b ht
      rw [ht] at h
      cases b with
      | nil => simp only [Option.some.injEq] at h; subst h; exact ⟨x, hx, he⟩
      | cons u b' =>
        cases u with
        | and =>
          obtain ⟨y, hy, he2⟩ := ih _ _ h
          exact ⟨x ++ .and :: y, .and x y hx hy, by rw [he, he2]; simp⟩
        | or =>
          obtain ⟨y, hy, he2⟩ := ih _ _ h
          exact ⟨x ++ .or :: y, .or x y hx hy, by rw [he, he2]; simp⟩
        | lp => simp only [Option.some.injEq] at h; subst h; exact ⟨x, hx, he⟩
        | rp => simp only [Option.some.injEq] at h; subst h; exact ⟨x, hx, he⟩
        | «with» => simp only [Option.some.injEq] at h; subst h; exact ⟨x, hx, he⟩
        | word w => simp only [Option.some.injEq] at h; subst h; exact ⟨x, hx, he⟩

/-- what may follow a compound expression -/
def Follow (R : List Tok) : Prop := R = [] ∨ (∃ R', R = .rp :: R') ∨ (∃ R', R = .and :: R') ∨ (∃ R', R = .or :: R')

theorem follow_not_with {R : List Tok} (h : Follow R) : ∀ e r, R ≠ .with :: .word e :: r := by
  intro e r hc
  rcases h with h | ⟨_, h⟩ | ⟨_, h⟩ | ⟨_, h⟩ <;> rw [h] at hc <;> simp at hc

/-- the machine walks over a compound expression and ends in a closed state -/
theorem compound_goC {x : List Tok} (hx : Compound x) :
    ∀ (R : List Tok) (d : Nat) (k : Kind), k.opens = true → Follow R → goC (x ++ R) d k = goC R d .rp := by
  induction hx with
  | simple a ha =>
    intro R d k hk hR
    have hw : isWith k = false := by cases k <;> simp_all [Kind.opens, isWith]
    simp only [List.cons_append, List.nil_append, goC, hw, Bool.false_eq_true, if_false, hk, ha, Bool.true_and]
    exact goC_lic R d (follow_not_with hR)
  | withExc a e ha he =>
    intro R d k hk hR
    have hw : isWith k = false := by cases k <;> simp_all [Kind.opens, isWith]
    simp only [List.cons_append, List.nil_append, goC, hw, Bool.false_eq_true, if_false, hk, ha, he, Bool.true_and,
      show isLic Kind.lic = true from rfl, show isWith Kind.with = true from rfl, if_true, goC_exc]
  | and x y _ _ ihx ihy =>
    intro R d k hk hR
    rw [List.append_assoc, List.cons_append, ihx (.and :: (y ++ R)) d k hk (Or.inr (Or.inr (Or.inl ⟨_, rfl⟩)))]
    simp only [goC, Kind.closes, Bool.true_and]
    exact ihy R d .op rfl hR
  | or x y _ _ ihx ihy =>
    intro R d k hk hR
    rw [List.append_assoc, List.cons_append, ihx (.or :: (y ++ R)) d k hk (Or.inr (Or.inr (Or.inr ⟨_, rfl⟩)))]
    simp only [goC, Kind.closes, Bool.true_and]
    exact ihy R d .op rfl hR
  | paren x _ ih =>
    intro R d k hk hR
    simp only [List.cons_append, List.append_assoc, goC, hk, Bool.true_and]
    rw [ih _ (d + 1) .lp rfl (Or.inr (Or.inl ⟨_, rfl⟩))]
    simp [goC, Kind.closes]

/-- **the recogniser decides the grammar** -/
theorem WF_iff_compound (ts : List Tok) : WF ts = true ↔ Compound ts := by
  constructor
  · intro h
    unfold WF at h
    have h' : parse (ts.length + 1) ts = some [] := by simpa using h
    obtain ⟨x, hx, he⟩ := parse_sound _ _ _ h'
    simp only [List.append_nil] at he
    rw [he]; exact hx
  · intro h
    rw [WF_eq_goC]
    have := compound_goC h [] 0 .lp rfl (Or.inl rfl)
    simp only [List.append_nil] at this
    rw [this]; rfl

end LicP
