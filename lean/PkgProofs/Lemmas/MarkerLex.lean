import PkgProofs.Lemmas.MarkerFormat
/-!
Lemmas for C09/C07 (character level): on the canonical spelling of a token sequence the
context-sensitive tokenizer finds exactly those tokens.
-/
namespace MkLex
open Py Mk Pep508 MkParse MkFmt
set_option linter.unusedSimpArgs false

/-! ### `matchFin` depends on little of its context -/

/-- the test `matchFin` applies to one alternative -/
def altTest (bE : Bool) (L : Option Nat) (rest w : Str) : Bool :=
  startsWith rest w && (!bE || boundary L (rest.drop w.length).head?)

theorem matchFin_eq (d : Bool × List Str × Bool) (prev : Option Nat) (rest : Str) :
    matchFin d prev rest =
      if d.1 && !boundary prev rest.head? then none else
      d.2.1.findSome? fun w => if altTest d.2.2 (lastOr w prev) rest w then some w.length else none := rfl

/-- what follows the text only matters through its first character, provided that character occurs in no
alternative -/
theorem altTest_congr (bE : Bool) (L : Option Nat) (x x' : Str) (hx : x.head? = x'.head?) :
    (a w : Str) → (∀ c, x.head? = some c → c ∉ w) → altTest bE L (a ++ x) w = altTest bE L (a ++ x') w
  | [], [], _ => by simp [altTest, startsWith, hx]
  | [], c :: w', hc => by
    have h1 : startsWith x (c :: w') = false := by
      cases x with
      | nil => rfl
      | cons y ys =>
        have : y ≠ c := by intro e; exact hc y rfl (by simp [e])
        have : (y == c) = false := by simpa using this
        simp [startsWith, this]
    have h2 : startsWith x' (c :: w') = false := by
      cases x' with
      | nil => rfl
      | cons y ys =>
        have hy : x.head? = some y := by simpa using hx
        have : y ≠ c := by intro e; exact hc y hy (by simp [e])
        have : (y == c) = false := by simpa using this
        simp [startsWith, this]
    simp [altTest, h1, h2]
  | b :: a', [], _ => by simp [altTest, startsWith]
  | b :: a', c :: w', hc => by
    have ih := altTest_congr bE L x x' hx a' w' (fun d hd hm => hc d hd (by simp [hm]))
    simp only [altTest, List.cons_append, startsWith, List.length_cons, List.drop_succ_cons] at ih ⊢
    cases hbc : (b == c) with
    | false => simp
    | true => simpa using ih

theorem findSome?_congr {α β} (l : List α) (f g : α → Option β) (h : ∀ a ∈ l, f a = g a) : l.findSome? f = l.findSome? g := by
  induction l with
  | nil => rfl
  | cons a l ih =>
    simp only [List.findSome?_cons, h a (by simp)]
    cases g a with
    | some _ => rfl
    | none => exact ih (fun b hb => h b (by simp [hb]))

theorem matchFin_congr_after (d : Bool × List Str × Bool) (prev : Option Nat) (text x x' : Str) (ht : text ≠ [])
    (hx : x.head? = x'.head?) (hc : ∀ c, x.head? = some c → ∀ w ∈ d.2.1, c ∉ w) :
    matchFin d prev (text ++ x) = matchFin d prev (text ++ x') := by
  have hh : (text ++ x).head? = (text ++ x').head? := by
    cases text with
    | nil => exact absurd rfl ht
    | cons a as => rfl
  rw [matchFin_eq, matchFin_eq, hh]
  split
  · rfl
  · apply findSome?_congr
    intro w hw
    rw [altTest_congr d.2.2 _ x x' hx text w (fun c h => hc c h w hw)]

theorem lastOr_nonempty : (w : Str) → w ≠ [] → ∀ p p', lastOr w p = lastOr w p'
  | [], h, _, _ => absurd rfl h
  | [c], _, _, _ => rfl
  | c :: c' :: w, _, p, p' => by simpa [lastOr] using lastOr_nonempty (c' :: w) (by simp) p p'

theorem matchFin_congr_prev (d : Bool × List Str × Bool) (prev prev' : Option Nat) (rest : Str)
    (hp : isWordO prev = isWordO prev') (hne : ∀ w ∈ d.2.1, w ≠ []) :
    matchFin d prev rest = matchFin d prev' rest := by
  rw [matchFin_eq, matchFin_eq]
  have hb : boundary prev rest.head? = boundary prev' rest.head? := by simp [boundary, hp]
  rw [hb]
  split
  · rfl
  · apply findSome?_congr
    intro w hw
    rw [lastOr_nonempty w (hne w hw) prev prev']

/-- no alternative starts with the character at hand -/
theorem matchFin_none_of_head (d : Bool × List Str × Bool) (prev : Option Nat) (rest : Str)
    (h : ∀ w ∈ d.2.1, ∃ c, w.head? = some c ∧ rest.head? ≠ some c) : matchFin d prev rest = none := by
  rw [matchFin_eq]
  split
  · rfl
  · rw [List.findSome?_eq_none_iff]
    intro w hw
    obtain ⟨c, hc1, hc2⟩ := h w hw
    have : startsWith rest w = false := by
      cases w with
      | nil => simp at hc1
      | cons c' w' =>
        simp only [List.head?_cons, Option.some.injEq] at hc1; subst hc1
        cases rest with
        | nil => rfl
        | cons y ys =>
          have : y ≠ c' := by intro e; exact hc2 (by simp [e])
          have : (y == c') = false := by simpa using this
          simp [startsWith, this]
    simp [altTest, this]


/-! ### the finite table: word and operator tokens against the five rules that could match them -/

def canonicalVars : List Str :=
  [[112, 121, 116, 104, 111, 110, 95, 118, 101, 114, 115, 105, 111, 110], s_pfv, [111, 115, 95, 110, 97, 109, 101],
   [115, 121, 115, 95, 112, 108, 97, 116, 102, 111, 114, 109], [112, 108, 97, 116, 102, 111, 114, 109, 95, 114, 101, 108, 101, 97, 115, 101],
   [112, 108, 97, 116, 102, 111, 114, 109, 95, 115, 121, 115, 116, 101, 109], [112, 108, 97, 116, 102, 111, 114, 109, 95, 118, 101, 114, 115, 105, 111, 110],
   [112, 108, 97, 116, 102, 111, 114, 109, 95, 109, 97, 99, 104, 105, 110, 101], s_platform_python_implementation,
   [105, 109, 112, 108, 101, 109, 101, 110, 116, 97, 116, 105, 111, 110, 95, 110, 97, 109, 101],
   [105, 109, 112, 108, 101, 109, 101, 110, 116, 97, 116, 105, 111, 110, 95, 118, 101, 114, 115, 105, 111, 110], s_extra]

def s_not : Str := [110, 111, 116]

/-- the tokens with a fixed text, other than parentheses and white space -/
def wordToks : List Tok :=
  canonicalVars.map (fun w => (Rule.variable, w)) ++ Gen.MarkerTok.rOp.2.1.map (fun w => (Rule.op, w)) ++
    [(.boolop, s_or), (.boolop, s_and), (.kwIn, s_in), (.kwNot, s_not)]

def wordRules : List Rule := [.op, .boolop, .kwIn, .kwNot, .variable]

def defOf : Rule → Bool × List Str × Bool
  | .lparen => Gen.MarkerTok.rLparen
  | .rparen => Gen.MarkerTok.rRparen
  | .op => Gen.MarkerTok.rOp
  | .boolop => Gen.MarkerTok.rBoolop
  | .kwIn => Gen.MarkerTok.rIn
  | .kwNot => Gen.MarkerTok.rNot
  | .variable => Gen.MarkerTok.rVariable
  | _ => (false, [], false)

def follows : List Str := [[], [32], [41]]

def lexTable : Bool :=
  wordToks.all fun t => wordRules.all fun r => follows.all fun f =>
    matchFin (defOf r) none (t.2 ++ f) == (if r == t.1 then some t.2.length else none)

theorem lexTable_ok : lexTable = true := by decide +kernel

theorem wordRules_sep : ∀ r ∈ wordRules, ∀ w ∈ (defOf r).2.1, w ≠ [] ∧ 32 ∉ w ∧ 41 ∉ w := by decide +kernel

theorem wordToks_head : ∀ t ∈ wordToks, ∃ c, t.2.head? = some c ∧ c ∉ [40, 41, 39, 34, 32, 9, 10] := by decide +kernel

theorem matchRule_fin (r : Rule) (hr : r ∈ wordRules ∨ r = .lparen ∨ r = .rparen) (prev : Option Nat) (rest : Str) :
    matchRule r prev rest = matchFin (defOf r) prev rest := by
  rcases hr with hr | hr | hr
  · simp only [wordRules, List.mem_cons, List.mem_nil_iff, or_false] at hr
    rcases hr with rfl | rfl | rfl | rfl | rfl <;> rfl
  · subst hr; rfl
  · subst hr; rfl

/-- a word or operator token, followed by nothing, a space or `)`, preceded by a non-word character:
the five rules match it iff they are its own rule -/
theorem lex_word (t : Tok) (ht : t ∈ wordToks) (r : Rule) (hr : r ∈ wordRules) (prev : Option Nat) (after : Str)
    (hp : isWordO prev = false) (ha : after.head? = none ∨ after.head? = some 32 ∨ after.head? = some 41) :
    matchRule r prev (t.2 ++ after) = if r = t.1 then some t.2.length else none := by
  rw [matchRule_fin r (Or.inl hr)]
  have hne : ∀ w ∈ (defOf r).2.1, w ≠ [] := fun w hw => (wordRules_sep r hr w hw).1
  rw [matchFin_congr_prev (defOf r) prev none _ (by simpa [isWordO] using hp) hne]
  obtain ⟨c, hc, _⟩ := wordToks_head t ht
  have htne : t.2 ≠ [] := by intro e; rw [e] at hc; simp at hc
  obtain ⟨f, hf, hfa⟩ : ∃ f ∈ follows, after.head? = f.head? := by
    rcases ha with h | h | h
    · exact ⟨[], by simp [follows], by simpa using h⟩
    · exact ⟨[32], by simp [follows], by simpa using h⟩
    · exact ⟨[41], by simp [follows], by simpa using h⟩
  rw [matchFin_congr_after (defOf r) none t.2 after f htne hfa (by
    intro c hc' w hw
    have := wordRules_sep r hr w hw
    rcases ha with h | h | h
    · rw [h] at hc'; cases hc'
    · rw [h] at hc'; cases hc'; exact this.2.1
    · rw [h] at hc'; cases hc'; exact this.2.2)]
  have := lexTable_ok
  simp only [lexTable, List.all_eq_true] at this
  have := this t ht r hr f hf
  simpa using this


/-! ### the other rules -/

def finRules : List Rule := wordRules ++ [.lparen, .rparen]

def heads (r : Rule) : List Nat := (defOf r).2.1.filterMap List.head?

theorem finRules_nonempty : ∀ r ∈ finRules, ∀ w ∈ (defOf r).2.1, w ≠ [] := by decide +kernel

theorem fin_none_by_head (r : Rule) (hr : r ∈ finRules) (prev : Option Nat) (rest : Str)
    (h : ∀ c, rest.head? = some c → c ∉ heads r) : matchRule r prev rest = none := by
  have hfin : r ∈ wordRules ∨ r = .lparen ∨ r = .rparen := by
    simp only [finRules, List.mem_append, List.mem_cons, List.mem_nil_iff, or_false] at hr
    rcases hr with hr | hr | hr
    · exact Or.inl hr
    · exact Or.inr (Or.inl hr)
    · exact Or.inr (Or.inr hr)
  rw [matchRule_fin r hfin]
  apply matchFin_none_of_head
  intro w hw
  have hne := finRules_nonempty r hr w hw
  cases w with
  | nil => exact absurd rfl hne
  | cons c w' =>
    refine ⟨c, rfl, ?_⟩
    intro e
    exact h c e (by
      simp only [heads, List.mem_filterMap]
      exact ⟨c :: w', hw, rfl⟩)

theorem heads_facts : (∀ r ∈ finRules, 32 ∉ heads r ∧ 34 ∉ heads r ∧ 39 ∉ heads r ∧ 9 ∉ heads r) ∧
    (∀ r ∈ wordRules, 40 ∉ heads r ∧ 41 ∉ heads r) ∧ 41 ∉ heads .lparen ∧ 40 ∉ heads .rparen := by decide +kernel

theorem match_lparen (prev : Option Nat) (after : Str) : matchRule .lparen prev (40 :: after) = some 1 := by
  have : Gen.MarkerTok.rLparen = (false, [[40]], false) := by decide
  simp [matchRule, matchFin, this, startsWith]

theorem match_rparen (prev : Option Nat) (after : Str) : matchRule .rparen prev (41 :: after) = some 1 := by
  have : Gen.MarkerTok.rRparen = (false, [[41]], false) := by decide
  simp [matchRule, matchFin, this, startsWith]

theorem quoteChars_eq : Gen.MarkerTok.quoteChars = [39, 34] := by decide
theorem wsChars_eq : Gen.MarkerTok.wsChars = [9, 32] := by decide

theorem matchQuoted_none (rest : Str) (h : ∀ c, rest.head? = some c → c ≠ 39 ∧ c ≠ 34) : matchQuoted rest = none := by
  cases rest with
  | nil => simp [matchQuoted, quoteChars_eq, List.findSome?]
  | cons c t =>
    obtain ⟨h1, h2⟩ := h c rfl
    have e1 : (c == 39) = false := by simpa using h1
    have e2 : (c == 34) = false := by simpa using h2
    simp [matchQuoted, quoteChars_eq, List.findSome?, h1, h2]

theorem indexOf?_append (q : Nat) : (s : Str) → (rest : Str) → s.contains q = false →
    indexOf? q (s ++ q :: rest) = some s.length
  | [], rest, _ => by simp [indexOf?]
  | c :: s, rest, h => by
    simp only [List.contains_cons, Bool.or_eq_false_iff] at h
    have hne : c ≠ q := by intro e; subst e; simp at h
    have hc : (c == q) = false := by simpa using hne
    simp [indexOf?, hc, indexOf?_append q s rest h.2]

theorem matchQuoted_hit (q : Nat) (hq : q = 34 ∨ q = 39) (body after : Str) (hb : body.contains q = false) :
    matchQuoted (q :: (body ++ [q]) ++ after) = some (body.length + 2) := by
  have e : q :: (body ++ [q]) ++ after = q :: (body ++ q :: after) := by simp
  rw [e]
  have := indexOf?_append q body after hb
  rcases hq with rfl | rfl <;> simp [matchQuoted, quoteChars_eq, List.findSome?, this]

theorem isWs_iff (c : Nat) : isWs c = (c == 9 || c == 32) := by
  simp only [isWs, wsChars_eq, List.contains_cons, List.contains_nil, Bool.or_false]

theorem matchWs_none (rest : Str) (h : ∀ c, rest.head? = some c → c ≠ 9 ∧ c ≠ 32) : matchWs rest = none := by
  cases rest with
  | nil => simp [matchWs]
  | cons c t =>
    obtain ⟨h1, h2⟩ := h c rfl
    have : isWs c = false := by rw [isWs_iff]; simp [h1, h2]
    simp [matchWs, List.takeWhile, this]

theorem matchWs_one (after : Str) (h : ∀ c, after.head? = some c → c ≠ 9 ∧ c ≠ 32) : matchWs (32 :: after) = some 1 := by
  have h32 : isWs 32 = true := by rw [isWs_iff]; rfl
  have : after.takeWhile isWs = [] := by
    cases after with
    | nil => rfl
    | cons c t =>
      obtain ⟨h1, h2⟩ := h c rfl
      have : isWs c = false := by rw [isWs_iff]; simp [h1, h2]
      simp [List.takeWhile, this]
  simp [matchWs, List.takeWhile, h32, this]

theorem matchEnd_none (rest : Str) (c : Nat) (h : rest.head? = some c) (hc : c ≠ 10) : matchEnd rest = none := by
  cases rest with
  | nil => simp at h
  | cons d t =>
    simp only [List.head?_cons, Option.some.injEq] at h; subst h
    have : (d :: t == [10]) = false := by
      cases t with
      | nil => simpa using hc
      | cons _ _ => simp
    simp [matchEnd, this]


/-! ### the canonical tokens and what the tokenizer finds at their first character -/

inductive CanonTok : Tok → Prop
  | lp : CanonTok lp
  | rp : CanonTok rp
  | word (t : Tok) : t ∈ wordToks → CanonTok t
  | ws : CanonTok (.ws, [32])
  | quoted (q : Nat) (body : Str) : (q = 34 ∨ q = 39) → body.contains q = false → CanonTok (.quoted, q :: (body ++ [q]))

def isWordTok (t : Tok) : Bool := t.1 == .variable || t.1 == .op || t.1 == .boolop || t.1 == .kwIn || t.1 == .kwNot

/-- what may follow the token in the text -/
def FollowOK (t : Tok) (after : Str) : Prop :=
  (isWordTok t = true → after.head? = none ∨ after.head? = some 32 ∨ after.head? = some 41) ∧
  (t.1 = .ws → ∀ c, after.head? = some c → c ≠ 9 ∧ c ≠ 32)

theorem wordToks_rule : ∀ t ∈ wordToks, t.1 ∈ wordRules ∧ isWordTok t = true := by decide +kernel

theorem heads_parens : heads .lparen = [40] ∧ heads .rparen = [41] := by decide

theorem mem_finRules_of_word {r : Rule} (h : r ∈ wordRules) : r ∈ finRules := by simp [finRules, h]

/-- **the tokenizer on a canonical token**: whatever rule is asked at the token's first character, it
matches iff it is the token's own rule, and then exactly the token's text. -/
theorem lex (t : Tok) (ht : CanonTok t) (prev : Option Nat) (after : Str) (hf : FollowOK t after)
    (hp : isWordTok t = true → isWordO prev = false) (r : Rule) :
    matchRule r prev (t.2 ++ after) = if r = t.1 then some t.2.length else none := by
  obtain ⟨hfa, hfw⟩ := hf
  have hF := heads_facts
  cases ht with
  | lp =>
    have nq : matchQuoted (lp.2 ++ after) = none := matchQuoted_none _ (by intro c h; cases h; decide)
    have nw : matchWs (lp.2 ++ after) = none := matchWs_none _ (by intro c h; cases h; decide)
    have ne : matchEnd (lp.2 ++ after) = none := matchEnd_none _ 40 rfl (by decide)
    have nf : ∀ r ∈ wordRules, matchRule r prev (lp.2 ++ after) = none := fun r hr =>
      fin_none_by_head r (mem_finRules_of_word hr) prev _ (by intro c h; cases h; exact (hF.2.1 r hr).1)
    have nr : matchRule .rparen prev (lp.2 ++ after) = none :=
      fin_none_by_head .rparen (by decide) prev _ (by intro c h; cases h; exact hF.2.2.2)
    cases r
    · exact match_lparen prev after
    · simpa [lp] using nr
    · simpa [lp, matchRule] using nq
    · simpa [lp] using nf .op (by decide)
    · simpa [lp] using nf .boolop (by decide)
    · simpa [lp] using nf .kwIn (by decide)
    · simpa [lp] using nf .kwNot (by decide)
    · simpa [lp] using nf .variable (by decide)
    · simpa [lp, matchRule] using nw
    · simpa [lp, matchRule] using ne
  | rp =>
    have nq : matchQuoted (rp.2 ++ after) = none := matchQuoted_none _ (by intro c h; cases h; decide)
    have nw : matchWs (rp.2 ++ after) = none := matchWs_none _ (by intro c h; cases h; decide)
    have ne : matchEnd (rp.2 ++ after) = none := matchEnd_none _ 41 rfl (by decide)
    have nf : ∀ r ∈ wordRules, matchRule r prev (rp.2 ++ after) = none := fun r hr =>
      fin_none_by_head r (mem_finRules_of_word hr) prev _ (by intro c h; cases h; exact (hF.2.1 r hr).2)
    have nl : matchRule .lparen prev (rp.2 ++ after) = none :=
      fin_none_by_head .lparen (by decide) prev _ (by intro c h; cases h; exact hF.2.2.1)
    cases r
    · simpa [rp] using nl
    · exact match_rparen prev after
    · simpa [rp, matchRule] using nq
    · simpa [rp] using nf .op (by decide)
    · simpa [rp] using nf .boolop (by decide)
    · simpa [rp] using nf .kwIn (by decide)
    · simpa [rp] using nf .kwNot (by decide)
    · simpa [rp] using nf .variable (by decide)
    · simpa [rp, matchRule] using nw
    · simpa [rp, matchRule] using ne
  | ws =>
    have nq : matchQuoted ([32] ++ after) = none := matchQuoted_none _ (by intro c h; cases h; decide)
    have ne : matchEnd ([32] ++ after) = none := matchEnd_none _ 32 rfl (by decide)
    have nf : ∀ r ∈ finRules, matchRule r prev ([32] ++ after) = none := fun r hr =>
      fin_none_by_head r hr prev _ (by intro c h; cases h; exact (hF.1 r hr).1)
    cases r
    · simpa using nf .lparen (by decide)
    · simpa using nf .rparen (by decide)
    · simpa [matchRule] using nq
    · simpa using nf .op (by decide)
    · simpa using nf .boolop (by decide)
    · simpa using nf .kwIn (by decide)
    · simpa using nf .kwNot (by decide)
    · simpa using nf .variable (by decide)
    · simpa [matchRule] using matchWs_one after (hfw rfl)
    · simpa [matchRule] using ne
  | quoted q body hq hb =>
    have hq' : q ≠ 9 ∧ q ≠ 32 ∧ q ≠ 10 := by rcases hq with rfl | rfl <;> decide
    have hhead : ((q :: (body ++ [q])) ++ after).head? = some q := rfl
    have nw : matchWs ((q :: (body ++ [q])) ++ after) = none :=
      matchWs_none _ (by intro c h; rw [hhead] at h; cases h; exact ⟨hq'.1, hq'.2.1⟩)
    have ne : matchEnd ((q :: (body ++ [q])) ++ after) = none := matchEnd_none _ q hhead hq'.2.2
    have nf : ∀ r ∈ finRules, matchRule r prev ((q :: (body ++ [q])) ++ after) = none := fun r hr =>
      fin_none_by_head r hr prev _ (by
        intro c h; rw [hhead] at h; cases h
        rcases hq with rfl | rfl
        · exact (hF.1 r hr).2.1
        · exact (hF.1 r hr).2.2.1)
    have hit := matchQuoted_hit q hq body after hb
    cases r
    · simpa using nf .lparen (by decide)
    · simpa using nf .rparen (by decide)
    · simpa [matchRule] using hit
    · simpa using nf .op (by decide)
    · simpa using nf .boolop (by decide)
    · simpa using nf .kwIn (by decide)
    · simpa using nf .kwNot (by decide)
    · simpa using nf .variable (by decide)
    · simpa [matchRule] using nw
    · simpa [matchRule] using ne
  | word t ht =>
    obtain ⟨c, hc, hcn⟩ := wordToks_head t ht
    obtain ⟨hr1, hw⟩ := wordToks_rule t ht
    have hhead : (t.2 ++ after).head? = some c := by
      cases h : t.2 with
      | nil => rw [h] at hc; simp at hc
      | cons a as => rw [h] at hc; simpa using hc
    simp only [List.mem_cons, List.mem_nil_iff, or_false, not_or] at hcn
    have nq : matchQuoted (t.2 ++ after) = none := matchQuoted_none _ (by intro d h; rw [hhead] at h; cases h; exact ⟨hcn.2.2.1, hcn.2.2.2.1⟩)
    have nw : matchWs (t.2 ++ after) = none := matchWs_none _ (by intro d h; rw [hhead] at h; cases h; exact ⟨hcn.2.2.2.2.2.1, hcn.2.2.2.2.1⟩)
    have ne : matchEnd (t.2 ++ after) = none := matchEnd_none _ c hhead hcn.2.2.2.2.2.2
    have nl : matchRule .lparen prev (t.2 ++ after) = none :=
      fin_none_by_head .lparen (by decide) prev _ (by intro d h; rw [hhead] at h; cases h; rw [heads_parens.1]; simpa using hcn.1)
    have nr : matchRule .rparen prev (t.2 ++ after) = none :=
      fin_none_by_head .rparen (by decide) prev _ (by intro d h; rw [hhead] at h; cases h; rw [heads_parens.2]; simpa using hcn.2.1)
    have hwr : ∀ r ∈ wordRules, matchRule r prev (t.2 ++ after) = if r = t.1 then some t.2.length else none :=
      fun r hr => lex_word t ht r hr prev after (hp hw) (hfa hw)
    have hne : ∀ r, r ∉ wordRules → r ≠ t.1 := fun r h e => h (e ▸ hr1)
    cases r
    · rw [nl, if_neg (hne _ (by decide))]
    · rw [nr, if_neg (hne _ (by decide))]
    · rw [if_neg (hne _ (by decide))]; simpa [matchRule] using nq
    · exact hwr .op (by decide)
    · exact hwr .boolop (by decide)
    · exact hwr .kwIn (by decide)
    · exact hwr .kwNot (by decide)
    · exact hwr .variable (by decide)
    · rw [if_neg (hne _ (by decide))]; simpa [matchRule] using nw
    · rw [if_neg (hne _ (by decide))]; simpa [matchRule] using ne

end MkLex
