import PkgModel.Specifier
import PkgProofs.Lemmas.PyRt
/-! string primitives of the run-time vs the helpers of the models -/
namespace PyRt
open Py

/-- put `x` in front of the first piece -/
def prependFirst (x : Str) : List Str → List Str
  | [] => [x]
  | p :: ps => (x ++ p) :: ps

theorem splitOn_ne_nil (c : Nat) (s : Str) : Py.splitOn c s ≠ [] := by
  cases s with
  | nil => simp [Py.splitOn]
  | cons x xs =>
    simp only [Py.splitOn]
    split
    · simp
    · split <;> simp

theorem splitStr_single (c : Nat) (s : Str) : ∀ (fuel : Nat) (cur : Str), s.length < fuel →
    splitStr [c] fuel cur s = prependFirst cur.reverse (Py.splitOn c s) := by
  induction s with
  | nil =>
    intro fuel cur h
    cases fuel with
    | zero => simp at h
    | succ k => simp [splitStr, Py.splitOn, prependFirst]
  | cons x xs ih =>
    intro fuel cur h
    cases fuel with
    | zero => simp at h
    | succ k =>
      have hk : xs.length < k := by simp at h; omega
      simp only [splitStr, startsWith, Py.splitOn]
      by_cases hx : (x == c) = true
      · simp only [hx, Bool.true_and, if_true, List.length_cons, List.length_nil, List.drop_succ_cons, List.drop_zero]
        rw [ih k [] hk]
        cases h2 : Py.splitOn c xs with
        | nil => exact absurd h2 (splitOn_ne_nil c xs)
        | cons p ps => simp [prependFirst]
      · have hx' : (x == c) = false := by simpa using hx
        simp only [hx', Bool.false_and, Bool.false_eq_true, if_false]
        rw [ih k (x :: cur) hk]
        cases h2 : Py.splitOn c xs <;> simp [prependFirst]

/-- `s.split(c)` for a one-character separator -/
theorem str_split_single (s : Str) (c : Nat) :
    str_split (.str s) (.str [c]) = .ok (.list ((Py.splitOn c s).map .str)) := by
  simp only [str_split, List.isEmpty_cons, Bool.false_eq_true, if_false, pure_ok]
  rw [splitStr_single c s (s.length + 1) [] (by omega)]
  cases h : Py.splitOn c s with
  | nil => exact absurd h (splitOn_ne_nil c s)
  | cons p ps => simp [prependFirst]

theorem str_rpartition_single (s : Str) (c : Nat) :
    str_rpartition (.str s) (.str [c]) =
      .ok (.tuple [.str (S.rpartition c s).1, .str (if (S.rpartition c s).2.1 then [c] else []), .str (S.rpartition c s).2.2]) := by
  simp only [str_rpartition, S.rpartition]
  split <;> simp_all

/-- `s[:-k]` on a string -/
theorem getslice_str_neg (s : Str) (k : Nat) (hk : 0 < k) :
    getslice (.str s) .none (.int (-(k : Int))) = .ok (.str (s.take (s.length - k))) := by
  have h1 : ¬ (0 ≤ -(k : Int)) := by omega
  have h2 : (- -(k : Int)).toNat = k := by omega
  simp only [getslice, clampBound_none, clampBound, asInt, h1, if_false, h2, ok_bind, pure_ok, sliceList, List.drop_zero]
  congr 3
  omega

/-- `l[:-k]` on a list -/
theorem getslice_list_neg (l : List PyVal) (k : Nat) (hk : 0 < k) :
    getslice (.list l) .none (.int (-(k : Int))) = .ok (.list (l.take (l.length - k))) := by
  have h1 : ¬ (0 ≤ -(k : Int)) := by omega
  have h2 : (- -(k : Int)).toNat = k := by omega
  simp only [getslice, clampBound_none, clampBound, asInt, h1, if_false, h2, ok_bind, pure_ok, sliceList, List.drop_zero]
  congr 3
  omega

theorem eqList_strs (a b : List Str) : eqList (a.map .str) (b.map .str) = (a == b) := by
  induction a generalizing b with
  | nil => cases b <;> simp [eqList]
  | cons x xs ih =>
    cases b with
    | nil => simp [eqList]
    | cons y ys => simp [eqList, ih]

theorem str_endswith_str (s p : Str) : str_endswith (.str s) (.str p) = .ok (.bool (Py.endsWith s p)) := by rfl

end PyRt
