import PkgProofs.Lemmas.SpellTail
/-!
# Spellings, part 5: pre stage, release, local label, and the whole string
-/
namespace Spelling
open Py V

/-! ### pre stage -/

def stripPost : Option Post → Option Post
  | some (.spelled g) => some (.spelled (strip g))
  | p => p

def isImplicit : Option Post → Bool
  | some (.implicit _) => true
  | _ => false

theorem stripPost_facts (post : Option Post) (hp : postOk post) :
    postOk (stripPost post) ∧ (stripPost post).map Post.number = post.map Post.number := by
  cases post with
  | none => exact ⟨hp, rfl⟩
  | some p =>
    cases p with
    | implicit n => exact ⟨hp, rfl⟩
    | spelled g =>
      refine ⟨?_, ?_⟩
      · intro p hp'
        simp [stripPost] at hp'; subst hp'
        have := hp _ rfl
        simpa [Post.ok, (strip_facts PostWord.text g).1] using this
      · simp [stripPost, Post.number, (strip_facts PostWord.text g).2.1]

theorem tp_cls (post : Option Post) (dev : Option (Group Unit)) (loc : Option Local) (ws2 : Str)
    (hp : postOk post) (hd : devOk dev) (hws : ws2.all isSpace = true) :
    (isImplicit post = false ∧ Cls [100, 112, 114] (TP post dev loc ws2)) ∨
    (isImplicit post = true ∧ Impl (TP post dev loc ws2)) := by
  cases post with
  | none =>
    left; refine ⟨rfl, ?_⟩
    simpa [TP, optR] using (td_cls dev loc ws2 hd hws).mono (h2 := [100, 112, 114]) (by decide)
  | some p =>
    cases p with
    | implicit n =>
      right; refine ⟨rfl, ?_⟩
      obtain ⟨c, cs, rfl, hc⟩ := digits_head n (hp _ rfl)
      exact ⟨c, cs ++ TD dev loc ws2, by simp [TP, optR, Post.render], hc⟩
    | spelled g =>
      left; refine ⟨rfl, .inr ?_⟩
      obtain ⟨k, ks, h1, _, h3⟩ := postText_head g.kind
      have := group_gs PostWord.text [112, 114] g (TD dev loc ws2) (hp _ rfl) ⟨k, ks, h1, h3⟩
      simpa [TP, optR, Post.render] using this.mono (h2 := [100, 112, 114]) (by decide)

theorem optSep_TP (post : Option Post) (dev : Option (Group Unit)) (loc : Option Local) (ws2 : Str)
    (hp : postOk post) (hd : devOk dev) (hws : ws2.all isSpace = true) (hi : isImplicit post = false) :
    optSep (TP post dev loc ws2) =
      TP (stripPost post) (if post.isSome then dev else dev.map strip) loc ws2 := by
  cases post with
  | none => simpa [TP, optR, stripPost] using optSep_TD dev loc ws2 hd hws
  | some p =>
    cases p with
    | implicit n => simp [isImplicit] at hi
    | spelled g =>
      obtain ⟨k, ks, h1, h2, _⟩ := postText_head g.kind
      simpa [TP, optR, stripPost, Post.render] using
        optSep_group PostWord.text g (TD dev loc ws2) (hp _ rfl) ⟨k, ks, h1, h2⟩

def preBare : Option (Group PreWord) → Bool
  | some g => g.bare
  | none => false

/-- the pre stage reads the pre-release group (or nothing) and leaves a tail of the same shape with the same
meaning — provided the tree is not the excluded ambiguous one -/
theorem pre_stage (pre : Option (Group PreWord)) (post : Option Post) (dev : Option (Group Unit))
    (loc : Option Local) (ws2 : Str) (hpre : preOk pre) (hp : postOk post) (hd : devOk dev)
    (hws : ws2.all isSpace = true) (hamb : ¬ (preBare pre = true ∧ isImplicit post = true)) :
    ∃ post' dev', postOk post' ∧ devOk dev' ∧ post'.map Post.number = post.map Post.number ∧
      dev'.map Group.number = dev.map Group.number ∧
      preStage (optR Group.render pre ++ TP post dev loc ws2) =
        (pre.map (fun g => (g.kind.letter, g.number)), TP post' dev' loc ws2) := by
  have cls := tp_cls post dev loc ws2 hp hd hws
  have hnd : NoDigit (TP post dev loc ws2) := by
    rcases cls with ⟨_, c⟩ | ⟨_, c⟩
    · exact (c.noDigit (fun k hk => (hpd k hk).1)).1
    · exact c.noDigit
  have hfo : FollowOK (TP post dev loc ws2) := by
    rcases cls with ⟨_, c⟩ | ⟨_, c⟩
    · exact c.follow hpd
    · exact c.follow
  cases pre with
  | none =>
    refine ⟨post, dev, hp, hd, rfl, rfl, ?_⟩
    have : scanLetterGroup preKws (TP post dev loc ws2) = none := by
      apply letterGroup_none
      cases post with
      | none =>
        have e : optSep (TP none dev loc ws2) = TD (dev.map strip) loc ws2 := by
          simpa [TP, optR] using optSep_TD dev loc ws2 hd hws
        rw [e]
        cases dev with
        | none => simpa [TD, optR] using (takeKw_noLetter _ (tl_K0 loc ws2 hws).noLetter).1
        | some g =>
          have := takeKw_pre_devword g.word (g.sep2.render ++ (g.num.getD [] ++ TL loc ws2)) (ok_word _ g (hd g rfl)).1
          simpa [TD, optR, strip, Group.render, Sep.render] using this
      | some p =>
        cases p with
        | implicit n =>
          obtain ⟨c, cs, rfl, hc⟩ := digits_head n (hp _ rfl)
          have nl : NoLetter (c :: (cs ++ TD dev loc ws2)) := by
            intro x hx; simp at hx; subst hx
            rw [lowerAscii_digit hc]; have := digit_bounds hc; omega
          simpa [TP, optR, Post.render, optSep, isSep] using (takeKw_noLetter _ nl).1
        | spelled g =>
          have hg : g.ok PostWord.text = true := hp _ rfl
          obtain ⟨k, ks, h1, h2, _⟩ := postText_head g.kind
          have e := optSep_group PostWord.text g (TD dev loc ws2) hg ⟨k, ks, h1, h2⟩
          have fd := (td_cls dev loc ws2 hd hws).follow h100
          have := takeKw_pre_postword g.word _ (follow_after_word g (TD dev loc ws2) (ok_word _ g hg).2 fd)
            g.kind (ok_word _ g hg).1
          show takeKw preKws (optSep (g.render ++ TD dev loc ws2)) = none
          rw [e]
          simpa [strip, Group.render, Sep.render] using this
    simp [preStage, optR, this]
  | some g =>
    have hg : g.ok PreWord.text = true := hpre _ rfl
    obtain ⟨k, ks, h1, h2, _⟩ := preText_head g.kind
    have hb : g.bare = true → isImplicit post = false := by
      intro hb
      cases hi : isImplicit post with
      | false => rfl
      | true => exact absurd ⟨hb, hi⟩ hamb
    have h2' : g.bare = true → NoDigit (optSep (TP post dev loc ws2)) := by
      intro hbare
      rcases cls with ⟨_, c⟩ | ⟨hi, _⟩
      · exact (c.noDigit (fun k hk => (hpd k hk).1)).2
      · rw [hb hbare] at hi; exact absurd hi (by simp)
    have := group_scan preKws g.kind.letter PreWord.text g (TP post dev loc ws2) hg ⟨k, ks, h1, h2⟩
      (fun t ht => takeKw_pre g.word t ht g.kind (ok_word _ g hg).1) hnd h2' hfo
    by_cases hbare : g.bare = true
    · have hi := hb hbare
      have e := optSep_TP post dev loc ws2 hp hd hws hi
      refine ⟨stripPost post, (if post.isSome then dev else dev.map strip), (stripPost_facts post hp).1, ?_,
        (stripPost_facts post hp).2, ?_, ?_⟩
      · split
        · exact hd
        · exact devOk_strip dev hd
      · split
        · rfl
        · exact number_strip dev
      · simp [preStage, optR, this, hbare, e]
    · refine ⟨post, dev, hp, hd, rfl, rfl, ?_⟩
      simp [preStage, optR, this, hbare]

/-! ### release tail -/

theorem relEnd (fuel : Nat) (s : Str) (h : ∀ r, s = 46 :: r → NoDigit r) : scanReleaseTail fuel s = ([], s) := by
  cases fuel with
  | zero => rfl
  | succ f =>
    unfold scanReleaseTail
    split
    · rename_i r; rw [optNum_none r (h r rfl)]
    · rfl

theorem relRender_head (ds : List Digits) : relRender ds = [] ∨ ∃ t, relRender ds = 46 :: t := by
  cases ds with
  | nil => exact .inl rfl
  | cons d ds => exact .inr ⟨_, rfl⟩

theorem noDigit_rel (ds : List Digits) (s : Str) (h : NoDigit s) : NoDigit (relRender ds ++ s) := by
  rcases relRender_head ds with h0 | ⟨t, h0⟩ <;> rw [h0]
  · simpa using h
  · intro c hc; simp at hc; subst hc; decide

theorem relTail_spelled (rels : List Digits) (s : Str) (hr : rels.all digitsOk = true) (h1 : NoDigit s)
    (h2 : ∀ r, s = 46 :: r → NoDigit r) (fuel : Nat) (hf : rels.length ≤ fuel) :
    scanReleaseTail fuel (relRender rels ++ s) = (rels.map value, s) := by
  induction rels generalizing fuel with
  | nil => simpa [relRender] using relEnd fuel s h2
  | cons d ds ih =>
    cases fuel with
    | zero => simp at hf
    | succ f =>
      simp only [List.all_cons, Bool.and_eq_true] at hr
      have e1 := optNum_digits d (relRender ds ++ s) hr.1 (noDigit_rel ds s h1)
      have e2 := ih hr.2 f (by simpa using hf)
      simp [relRender, scanReleaseTail, e1, e2]

theorem relRender_length (ds : List Digits) : ds.length ≤ (relRender ds).length := by
  induction ds with
  | nil => simp [relRender]
  | cons d ds ih => simp [relRender]; omega

/-! ### local label -/

theorem span_local' (p rest : Str) (hp : ∀ c ∈ p, isLocalChar c = true)
    (hr : ∀ c, rest.head? = some c → isLocalChar c = false) :
    (p ++ rest).takeWhile isLocalChar = p ∧ (p ++ rest).dropWhile isLocalChar = rest := by
  induction p with
  | nil =>
    cases rest with
    | nil => simp
    | cons c cs => simp [hr c rfl]
  | cons c cs ih =>
    have := ih (fun c hc => hp c (by simp [hc]))
    simp [hp c (by simp), this]

theorem segOk_iff (s : Str) : segOk s = true ↔ s ≠ [] ∧ ∀ c ∈ s, isLocalChar c = true := by
  simp [segOk, isLocalChar, isAlnumAscii]

/-- head of what follows a local segment is not alphanumeric -/
def LEnd (s : Str) : Prop := ∀ c, s.head? = some c → isLocalChar c = false

theorem ws_lend (ws2 : Str) (hws : ws2.all isSpace = true) : LEnd ws2 := by
  intro c hc
  cases ws2 with
  | nil => simp at hc
  | cons x xs =>
    simp at hc; subst hc
    simp at hws
    have h := hws.1; rw [isSpace_eq] at h
    simp [isWs] at h
    simp [isLocalChar, isDigit, isAlphaAscii, isLowerAscii, isUpperAscii]; omega

theorem rest_lend (rest : List (Sep × Str)) (ws2 : Str) (hr : rest.all (fun p => p.1 != .none && segOk p.2) = true)
    (hws : ws2.all isSpace = true) : LEnd (restRender rest ++ ws2) := by
  cases rest with
  | nil => simpa [restRender] using ws_lend ws2 hws
  | cons p ps =>
    obtain ⟨sep, x⟩ := p
    simp at hr
    intro c hc
    cases sep <;> simp [restRender, Sep.render] at hc hr <;> subst hc <;> decide

theorem localTail_spelled (rest : List (Sep × Str)) (ws2 : Str)
    (hr : rest.all (fun p => p.1 != .none && segOk p.2) = true) (hws : ws2.all isSpace = true)
    (fuel : Nat) (hf : rest.length ≤ fuel) :
    scanLocalTail fuel (restRender rest ++ ws2) = (rest.map (·.2), ws2) := by
  induction rest generalizing fuel with
  | nil =>
    cases fuel with
    | zero => simp [restRender, scanLocalTail]
    | succ f =>
      cases ws2 with
      | nil => simp [restRender, scanLocalTail]
      | cons x xs =>
        simp at hws
        have h := hws.1; rw [isSpace_eq] at h
        simp [restRender, scanLocalTail, isSep_not_ws h]
  | cons p ps ih =>
    obtain ⟨sep, x⟩ := p
    cases fuel with
    | zero => simp at hf
    | succ f =>
      simp only [List.all_cons, Bool.and_eq_true, bne_iff_ne, ne_eq] at hr
      obtain ⟨⟨hsep, hx⟩, hps⟩ := hr
      rw [segOk_iff] at hx
      have sp := span_local' x (restRender ps ++ ws2) hx.2 (rest_lend ps ws2 hps hws)
      have e2 := ih hps f (by simpa using hf)
      cases sep
      · exact absurd rfl hsep
      all_goals simp [restRender, Sep.render, scanLocalTail, isSep, sp.1, sp.2, hx.1, e2]

theorem segMeaning_eq : segMeaning = localSeg := rfl

theorem restRender_length (rest : List (Sep × Str))
    (hr : rest.all (fun p => p.1 != .none && segOk p.2) = true) : rest.length ≤ (restRender rest).length := by
  induction rest with
  | nil => simp
  | cons p ps ih =>
    obtain ⟨sep, x⟩ := p
    simp only [List.all_cons, Bool.and_eq_true] at hr
    have := ih hr.2
    have hx := ((segOk_iff x).mp hr.1.2).1
    have : 0 < x.length := List.length_pos_iff.mpr hx
    simp [restRender]
    omega

end Spelling
