import PkgProofs.Props.C02
import PkgProofs.Lemmas.SpecSet
/-!
# Equal specifiers match alike

`Specifier.__eq__` compares `_canonical_spec`.  On top of C02's invariants of `canonicalize_version`
(`canon_complete_invariant_str`, `canon_nostrip_invariant`, `canon_never_raises`, `scan_base`) this file shows
that two specifiers with the same key give the same answer on every candidate and auto-detect the same
pre-release setting — for **every** operator (for `===` since C05-fix-1, for `~=` since C03-fix-1).

A side lemma of independent use: no accepted version string contains `*` (so a version is never mistaken
for a `V.*` prefix pattern).
-/
namespace SSet
open Py V S

/-! ## the characters of an accepted version string

Every character of a string `Version()` accepts is ASCII white space, an ASCII letter or digit, or one of
`. - _ ! +`; in particular none is `*` or `,`. -/

/-- white space, alphanumeric, or one of `. - _ ! +` -/
def okc (c : Nat) : Bool :=
  isWs c || isAlnumAscii c || c == 46 || c == 45 || c == 95 || c == 33 || c == 43

section chars
open Spelling

theorem okc_of_digit {c : Nat} (h : isDigit c = true) : okc c = true := by
  simp [okc, isAlnumAscii, h]

theorem okc_of_alpha {c : Nat} (h : isAlphaAscii c = true) : okc c = true := by
  simp [okc, isAlnumAscii, h]

theorem alpha_of_lower_lower {c : Nat} (h : isLowerAscii (lowerAscii c) = true) : isAlphaAscii c = true := by
  simp only [isLowerAscii, lowerAscii, isUpperAscii, isAlphaAscii, Bool.and_eq_true, decide_eq_true_eq,
    Bool.or_eq_true] at *
  split at h <;> omega

theorem ws_okc (s : Str) (h : s.all isSpace = true) : ∀ c ∈ s, okc c = true := by
  intro c hc
  have := List.all_eq_true.mp h c hc
  rw [isSpace_eq] at this
  simp [okc, this]

theorem digits_okc (d : Str) (h : digitsOk d = true) : ∀ c ∈ d, okc c = true := by
  intro c hc
  exact okc_of_digit (((digitsOk_iff d).mp h).2 c hc)

theorem word_okc (w text : Str) (h : (lowerStr w == text) = true) (ht : ∀ x ∈ text, isLowerAscii x = true) :
    ∀ c ∈ w, okc c = true := by
  intro c hc
  have h' : lowerStr w = text := by simpa using h
  have : lowerAscii c ∈ lowerStr w := List.mem_map_of_mem hc
  rw [h'] at this
  exact okc_of_alpha (alpha_of_lower_lower (ht _ this))

theorem sep_okc (s : Sep) : ∀ c ∈ s.render, okc c = true := by
  cases s <;> simp [Sep.render] <;> decide

theorem seg_okc (s : Str) (h : segOk s = true) : ∀ c ∈ s, okc c = true := by
  intro c hc
  simp only [segOk, Bool.and_eq_true, List.all_eq_true] at h
  have := h.2 c hc
  simp [okc, this]

theorem group_okc {W} (text : W → Str) (g : Group W) (h : g.ok text = true)
    (ht : ∀ x ∈ text g.kind, isLowerAscii x = true) : ∀ c ∈ g.render, okc c = true := by
  simp only [Group.ok, Bool.and_eq_true] at h
  intro c hc
  simp only [Group.render, List.mem_append] at hc
  rcases hc with hc | hc | hc | hc
  · exact sep_okc _ c hc
  · exact word_okc _ _ h.1 ht c hc
  · exact sep_okc _ c hc
  · cases hn : g.num with
    | none => simp [hn] at hc
    | some d =>
      simp only [hn, Option.getD_some] at hc
      have := h.2; simp only [hn] at this
      exact digits_okc d this c hc

theorem relRender_okc (ds : List Digits) (h : ds.all digitsOk = true) : ∀ c ∈ relRender ds, okc c = true := by
  induction ds with
  | nil => intro c hc; simp [relRender] at hc
  | cons d r ih =>
    simp only [List.all_cons, Bool.and_eq_true] at h
    intro c hc
    simp only [relRender, List.mem_cons, List.mem_append] at hc
    rcases hc with rfl | hc | hc
    · decide
    · exact digits_okc d h.1 c hc
    · exact ih h.2 c hc

theorem restRender_okc (l : List (Sep × Str)) (h : (l.all fun p => p.1 != .none && segOk p.2) = true) :
    ∀ c ∈ restRender l, okc c = true := by
  induction l with
  | nil => intro c hc; simp [restRender] at hc
  | cons p r ih =>
    obtain ⟨s, x⟩ := p
    simp only [List.all_cons, Bool.and_eq_true] at h
    intro c hc
    simp only [restRender, List.mem_append] at hc
    rcases hc with hc | hc | hc
    · exact sep_okc s c hc
    · exact seg_okc x h.1.2 c hc
    · exact ih h.2 c hc

theorem preText_lower (k : PreWord) : ∀ x ∈ k.text, isLowerAscii x = true := by cases k <;> decide
theorem postText_lower (k : PostWord) : ∀ x ∈ k.text, isLowerAscii x = true := by cases k <;> decide

theorem render_okc (sp : Spelling) (h : Valid sp = true) : ∀ c ∈ render sp, okc c = true := by
  simp only [Valid, Bool.and_eq_true] at h
  obtain ⟨⟨⟨⟨⟨⟨⟨⟨⟨⟨h1, h2⟩, h3⟩, h4⟩, h5⟩, h6⟩, h7⟩, h8⟩, h9⟩, h10⟩, _⟩ := h
  intro c hc
  simp only [render, List.mem_append] at hc
  rcases hc with hc | hc | hc | hc | hc | hc | hc | hc | hc | hc
  · exact ws_okc _ h1 c hc
  · cases hv : sp.v with
    | none => simp [hv, optR] at hc
    | some x =>
      simp only [hv, optR, List.mem_singleton] at hc
      simp only [hv] at h3
      subst hc
      have hl : lowerAscii c = 118 := by simpa using h3
      exact okc_of_alpha (alpha_of_lower_lower (by rw [hl]; decide))
  · cases he : sp.epoch with
    | none => simp [he, optR] at hc
    | some d =>
      simp only [he, optR, List.mem_append, List.mem_singleton] at hc
      simp only [he] at h4
      rcases hc with hc | rfl
      · exact digits_okc d h4 c hc
      · decide
  · exact digits_okc _ h5 c hc
  · exact relRender_okc _ h6 c hc
  · cases hp : sp.pre with
    | none => simp [hp, optR] at hc
    | some g =>
      simp only [hp, optR] at hc
      simp only [hp] at h7
      exact group_okc _ g h7 (preText_lower _) c hc
  · cases hp : sp.post with
    | none => simp [hp, optR] at hc
    | some p =>
      simp only [hp, optR] at hc
      simp only [hp] at h8
      cases p with
      | implicit n =>
        simp only [Post.render, List.mem_cons] at hc
        simp only [Post.ok] at h8
        rcases hc with rfl | hc
        · decide
        · exact digits_okc n h8 c hc
      | spelled g =>
        simp only [Post.render] at hc
        simp only [Post.ok] at h8
        exact group_okc _ g h8 (postText_lower _) c hc
  · cases hp : sp.dev with
    | none => simp [hp, optR] at hc
    | some g =>
      simp only [hp, optR] at hc
      simp only [hp] at h9
      exact group_okc _ g h9 (by decide) c hc
  · cases hp : sp.loc with
    | none => simp [hp, optR] at hc
    | some l =>
      simp only [hp, optR, Local.render, List.mem_cons, List.mem_append] at hc
      simp only [hp, Local.ok, Bool.and_eq_true] at h10
      rcases hc with rfl | hc | hc
      · decide
      · exact seg_okc _ h10.1 c hc
      · exact restRender_okc _ h10.2 c hc
  · exact ws_okc _ h2 c hc

end chars

/-- every character of an accepted version string is white space, alphanumeric or one of `. - _ ! +` -/
theorem scan_chars (s : Str) (v : Ver) (h : scan s = some v) : ∀ c ∈ s, okc c = true := by
  obtain ⟨sp, hv, rfl, _⟩ := C02.scan_sound s v h
  exact render_okc sp hv

/-- **no accepted version string contains `*`** -/
theorem scan_no_star (s : Str) (v : Ver) (h : scan s = some v) : 42 ∉ s := by
  intro hm; have := scan_chars s v h 42 hm; revert this; decide

/-- … nor a comma -/
theorem scan_no_comma (s : Str) (v : Ver) (h : scan s = some v) : 44 ∉ s := by
  intro hm; have := scan_chars s v h 44 hm; revert this; decide

theorem endsWith_star_false (s : Str) (v : Ver) (h : scan s = some v) : endsWith s [46, 42] = false := by
  have hn := scan_no_star s v h
  cases he : endsWith s [46, 42] with
  | false => rfl
  | true =>
    exfalso
    -- the reversed string starts with `*`
    simp only [endsWith, List.reverse_cons, List.reverse_nil, List.nil_append, List.cons_append] at he
    cases hr : s.reverse with
    | nil => simp [hr, startsWith] at he
    | cons c cs =>
      simp only [hr, startsWith, Bool.and_eq_true, beq_iff_eq] at he
      have : c ∈ s := by rw [← List.mem_reverse, hr]; simp
      rw [he.1] at this
      exact hn this

end SSet

namespace SSet
open Py V S

/-! ## the key of a specifier, made explicit -/

/-- hashing a `Specifier` never raises (C02 `canon_never_raises`) -/
theorem canonical_isOk (sp : Spec) : sp.canonical.isOk = true := by
  unfold Spec.canonical
  by_cases h : sp.op = .arbitrary
  · simp [h, Except.isOk, Except.toBool]
  · have := C02.canon_never_raises sp.ver (sp.op != .compatible)
    cases hc : canonicalizeVersion sp.ver (sp.op != .compatible) with
    | none => rw [hc] at this; cases this
    | some c => simp [h, Except.isOk, Except.toBool]

theorem key_of_canon {sp : Spec} (h : sp.op ≠ .arbitrary) {c : Str}
    (hc : canonicalizeVersion sp.ver (sp.op != .compatible) = some c) : key sp = (sp.op, c) := by
  simp [key, Spec.canonical, h, hc]

theorem key_fst (sp : Spec) : (key sp).1 = sp.op := by
  unfold key Spec.canonical
  by_cases h : sp.op = .arbitrary
  · simp [h]
  · simp only [beq_iff_eq, h, ↓reduceIte]
    cases canonicalizeVersion sp.ver (sp.op != .compatible) <;> rfl

theorem version_of_scan {s : Str} {v : Ver} (h : scan s = some v) : version s = .ok v := by
  simp [version, h]

/-- what equality of keys means: same operator, and either the same text (case-folded for `===`), or two
version texts read as versions with the same comparison key (identical ones for `~=`) -/
theorem key_cases (a b : Spec) (hk : key a = key b) :
    a.op = b.op ∧
    ((a.op = .arbitrary ∧ lowerStr a.ver = lowerStr b.ver) ∨ a.ver = b.ver ∨
     (a.op ≠ .arbitrary ∧ ∃ va vb, scan a.ver = some va ∧ scan b.ver = some vb ∧ cmpkey va = cmpkey vb ∧
        (a.op = .compatible → va = vb))) := by
  have hop : a.op = b.op := by
    have := congrArg Prod.fst hk; rwa [key_fst, key_fst] at this
  refine ⟨hop, ?_⟩
  by_cases harb : a.op = .arbitrary
  · left
    have hb : b.op = .arbitrary := hop ▸ harb
    have ka : key a = (.arbitrary, lowerStr a.ver) := by simp [key, Spec.canonical, harb]
    have kb : key b = (.arbitrary, lowerStr b.ver) := by simp [key, Spec.canonical, hb]
    rw [ka, kb] at hk
    exact ⟨harb, (Prod.mk.inj hk).2⟩
  · right
    have hbarb : b.op ≠ .arbitrary := hop ▸ harb
    -- the two canonical strings coincide
    obtain ⟨ca, hca⟩ := Option.isSome_iff_exists.mp (C02.canon_never_raises a.ver (a.op != .compatible))
    obtain ⟨cb, hcb⟩ := Option.isSome_iff_exists.mp (C02.canon_never_raises b.ver (b.op != .compatible))
    rw [key_of_canon harb hca, key_of_canon hbarb hcb] at hk
    have hc : ca = cb := (Prod.mk.inj hk).2
    subst hc
    rw [← hop] at hcb
    cases hsa : scan a.ver with
    | none =>
      have ea := C02.canon_passthrough a.ver (a.op != .compatible) hsa
      rw [hca] at ea; have ea := Option.some.inj ea
      cases hsb : scan b.ver with
      | none =>
        have eb := C02.canon_passthrough b.ver (a.op != .compatible) hsb
        rw [hcb] at eb; have eb := Option.some.inj eb
        left; rw [← ea, eb]
      | some vb =>
        exfalso
        have hv := C02.canon_value b.ver vb (a.op != .compatible) hsb
        rw [hcb] at hv; have hv := Option.some.inj hv
        have hwf := C02.scan_wf b.ver vb hsb
        have : scan ca = some (if (a.op != .compatible) = true then C02.trimV vb else vb) := by
          rw [hv]
          split
          · exact C02.scan_str _ (C02.trimV_wf vb hwf)
          · exact C02.scan_str _ hwf
        rw [ea, hsa] at this; cases this
    | some va =>
      cases hsb : scan b.ver with
      | none =>
        exfalso
        have eb := C02.canon_passthrough b.ver (a.op != .compatible) hsb
        rw [hcb] at eb; have eb := Option.some.inj eb
        have hv := C02.canon_value a.ver va (a.op != .compatible) hsa
        rw [hca] at hv; have hv := Option.some.inj hv
        have hwf := C02.scan_wf a.ver va hsa
        have : scan ca = some (if (a.op != .compatible) = true then C02.trimV va else va) := by
          rw [hv]
          split
          · exact C02.scan_str _ (C02.trimV_wf va hwf)
          · exact C02.scan_str _ hwf
        rw [eb, hsb] at this; cases this
      | some vb =>
        right
        refine ⟨harb, va, vb, rfl, rfl, ?_, ?_⟩
        · by_cases hcomp : a.op = .compatible
          · have hflag : (a.op != Op.compatible) = false := by simp [hcomp]
            rw [hflag] at hca hcb
            have := (C02.canon_nostrip_invariant a.ver b.ver va vb hsa hsb).mp (hca.trans hcb.symm)
            rw [this]
          · have hflag : (a.op != Op.compatible) = true := by simp [hcomp]
            rw [hflag] at hca hcb
            have := (C02.canon_complete_invariant_str a.ver b.ver va vb hsa hsb).mp (hca.trans hcb.symm)
            exact (C01.eq_iff_key_eq va vb).mp this
        · intro hcomp
          have hflag : (a.op != Op.compatible) = false := by simp [hcomp]
          rw [hflag] at hca hcb
          exact (C02.canon_nostrip_invariant a.ver b.ver va vb hsa hsb).mp (hca.trans hcb.symm)

/-! ## the comparisons only look at the comparison key of the specifier's version -/

section cmp
variable {sa sb : Str} {va vb : Ver} (ha : scan sa = some va) (hb : scan sb = some vb) (hk : cmpkey va = cmpkey vb)
include ha hb hk

theorem fields_of_key : va.epoch = vb.epoch ∧ dropTrailingZeros va.release = dropTrailingZeros vb.release ∧
    va.pre = vb.pre ∧ va.post = vb.post ∧ va.dev = vb.dev ∧ va.loc = vb.loc := (cmpkey_eq_iff va vb).mp hk

theorem base_alike : ∃ ba bb, version va.base = .ok ba ∧ version vb.base = .ok bb ∧ cmpkey ba = cmpkey bb := by
  have hwa := C02.scan_wf sa va ha
  have hwb := C02.scan_wf sb vb hb
  obtain ⟨h1, h2, _⟩ := fields_of_key ha hb hk
  refine ⟨_, _, version_of_scan (C02.scan_base va hwa), version_of_scan (C02.scan_base vb hwb), ?_⟩
  rw [cmpkey_eq_iff]; exact ⟨h1, h2, rfl, rfl, rfl, rfl⟩

theorem compareEqual_alike (p : Ver) : compareEqual p sa = compareEqual p sb := by
  obtain ⟨_, _, _, _, _, hloc⟩ := fields_of_key ha hb hk
  have heq : ∀ q : Ver, q.eq va = q.eq vb := fun q => by simp only [Ver.eq, hk]
  simp only [compareEqual, endsWith_star_false sa va ha, endsWith_star_false sb vb hb, Bool.false_eq_true,
    ↓reduceIte, version_of_scan ha, version_of_scan hb, ok_bind, hloc, heq]

theorem compareLE_alike (p : Ver) : compareLE p sa = compareLE p sb := by
  have hle : ∀ q : Ver, q.le va = q.le vb := fun q => by simp only [Ver.le, hk]
  simp only [compareLE, version_of_scan ha, version_of_scan hb, ok_bind, hle]

theorem compareGE_alike (p : Ver) : compareGE p sa = compareGE p sb := by
  have hge : ∀ q : Ver, q.ge va = q.ge vb := fun q => by simp only [Ver.ge, hk]
  simp only [compareGE, version_of_scan ha, version_of_scan hb, ok_bind, hge]

theorem compareLT_alike (p : Ver) : compareLT p sa = compareLT p sb := by
  obtain ⟨_, _, hpre, _, hdev, _⟩ := fields_of_key ha hb hk
  obtain ⟨ba, bb, hba, hbb, hkb⟩ := base_alike ha hb hk
  have hlt : ∀ q : Ver, q.lt va = q.lt vb := fun q => by simp only [Ver.lt, hk]
  have heq : ∀ q : Ver, q.eq ba = q.eq bb := fun q => by simp only [Ver.eq, hkb]
  have hisPre : va.isPre = vb.isPre := by simp only [Ver.isPre, hpre, hdev]
  simp only [compareLT, version_of_scan ha, version_of_scan hb, ok_bind, hlt, hisPre, hba, hbb, heq]

theorem compareGT_alike (p : Ver) : compareGT p sa = compareGT p sb := by
  obtain ⟨_, _, _, hpost, _, _⟩ := fields_of_key ha hb hk
  obtain ⟨ba, bb, hba, hbb, hkb⟩ := base_alike ha hb hk
  have hgt : ∀ q : Ver, q.gt va = q.gt vb := fun q => by simp only [Ver.gt, hk]
  have heq : ∀ q : Ver, q.eq ba = q.eq bb := fun q => by simp only [Ver.eq, hkb]
  have heq' : ∀ q : Ver, q.eq va = q.eq vb := fun q => by simp only [Ver.eq, hk]
  have hisPost : va.isPost = vb.isPost := by simp only [Ver.isPost, hpost]
  simp only [compareGT, version_of_scan ha, version_of_scan hb, ok_bind, hgt, hisPost, hba, hbb, heq, heq']

end cmp

theorem compareCompatible_alike {sa sb : Str} {v : Ver} (ha : scan sa = some v) (hb : scan sb = some v) (p : Ver) :
    compareCompatible p sa = compareCompatible p sb := by
  have hge : compareGE p sa = compareGE p sb := compareGE_alike ha hb rfl p
  simp only [compareCompatible, canonNoStrip, C02.canon_nostrip_eq_str sa v ha, C02.canon_nostrip_eq_str sb v hb, hge]

/-- **Equal specifiers match alike**: two `Specifier`s with the same `_canonical_spec` give the same answer
(value or exception) on every candidate — every operator. -/
theorem equal_specs_match_alike (a b : Spec) (hk : key a = key b) (v : Ver) : a.compare v = b.compare v := by
  obtain ⟨hop, h⟩ := key_cases a b hk
  rcases h with ⟨harb, hl⟩ | hv | ⟨harb, va, vb, ha, hb, hkey, hcomp⟩
  · have hb : b.op = .arbitrary := hop ▸ harb
    simp [Spec.compare, harb, hb, compareArbitrary, hl]
  · have : a = b := by cases a; cases b; simp_all
    rw [this]
  · unfold Spec.compare
    rw [← hop]
    cases hopa : a.op with
    | arbitrary => exact absurd hopa harb
    | compatible =>
      have := hcomp hopa; subst this
      exact compareCompatible_alike ha hb v
    | eq => exact compareEqual_alike ha hb hkey v
    | ne => simp only [compareNotEqual, compareEqual_alike ha hb hkey v]
    | le => exact compareLE_alike ha hb hkey v
    | ge => exact compareGE_alike ha hb hkey v
    | lt => exact compareLT_alike ha hb hkey v
    | gt => exact compareGT_alike ha hb hkey v

/-- equal specifiers also auto-detect the same pre-release setting (for `===` stated for identically cased
text: that `Version()` reads text case-insensitively is C02's `scan_sound`/`scan_render`, not re-proved here) -/
theorem equal_specs_same_prereleases (a b : Spec) (hk : key a = key b) (ov : Option Bool)
    (harb : a.op = .arbitrary → a.ver = b.ver) : a.prereleases ov = b.prereleases ov := by
  obtain ⟨hop, h⟩ := key_cases a b hk
  cases ov with
  | some x => rfl
  | none =>
    rcases h with ⟨ha, _⟩ | hv | ⟨_, va, vb, ha, hb, hkey, _⟩
    · have : a = b := by
        have := harb ha
        cases a; cases b; simp_all
      rw [this]
    · have : a = b := by cases a; cases b; simp_all
      rw [this]
    · obtain ⟨_, _, hpre, _, hdev, _⟩ := (cmpkey_eq_iff va vb).mp hkey
      simp only [Spec.prereleases, ← hop, endsWith_star_false a.ver va ha, endsWith_star_false b.ver vb hb,
        Bool.and_false, Bool.false_eq_true, ↓reduceIte, ha, hb, Ver.isPre, hpre, hdev]

end SSet
