import PkgProofs.Lemmas.ReqMarker
/-!
Lemmas for C08: inversion of the requirement parser (what an accepted parse went through), consumption of prefixes,
and the marker part against the stand-alone marker entry point.
-/
namespace ReqWf
open Py Mk Req MkLex ReqLex ReqParse ReqMk
set_option linter.unusedSimpArgs false

/-! ### every function of the parser consumes a prefix of the text -/

theorem checkR_rest {r : RRule} {st st' : St} {t : Str} (h : checkR r st = some (t, st')) : st.rest = t ++ st'.rest := by
  unfold checkR at h
  split at h
  · cases h
  · simp only [Option.some.injEq, Prod.mk.injEq] at h
    obtain ⟨rfl, rfl⟩ := h
    simp

theorem checkR_sfx {r : RRule} {st st' : St} {t : Str} (h : checkR r st = some (t, st')) : Sfx st st' := ⟨t, checkR_rest h⟩
theorem ws_sfx (st : St) : Sfx st (ws st) := consume_sfx .ws st

theorem extrasLoop_sfx : (fuel : Nat) → (acc : List Str) → (st : St) → (l : List Str) → (st' : St) →
    extrasLoop fuel acc st = .ok (l, st') → Sfx st st'
  | 0, _, _, _, _, h => by simp [extrasLoop] at h
  | f + 1, acc, st, l, st', h => by
    simp only [extrasLoop] at h
    split at h
    · cases h
    · split at h
      · simp only [Except.ok.injEq, Prod.mk.injEq] at h
        rw [← h.2]; exact ws_sfx st
      · rename_i t1 st1 hc
        split at h
        · cases h
        · rename_i t2 st2 hi
          exact (ws_sfx st).trans ((checkR_sfx hc).trans ((ws_sfx st1).trans ((checkR_sfx hi).trans
            (extrasLoop_sfx f _ st2 l st' h))))

theorem parseExtras_sfx (fuel : Nat) (st : St) (l : List Str) (st' : St) (h : parseExtras fuel st = .ok (l, st')) : Sfx st st' := by
  unfold parseExtras at h
  split at h
  · simp only [Except.ok.injEq, Prod.mk.injEq] at h; rw [← h.2]; exact Sfx.refl st
  · rename_i t0 st0 hl
    simp only [bind, Except.bind] at h
    split at h
    · cases h
    · rename_i v hv
      obtain ⟨ex, st1⟩ := v
      simp only at h
      split at h
      · cases h
      · rename_i t2 st2 hr
        simp only [pure, Except.pure, Except.ok.injEq, Prod.mk.injEq] at h
        rw [← h.2]
        have h1 : Sfx (ws st0) st1 := by
          unfold parseExtrasList at hv
          split at hv
          · simp only [Except.ok.injEq, Prod.mk.injEq] at hv; rw [← hv.2]; exact Sfx.refl _
          · rename_i t3 st3 hi
            exact (checkR_sfx hi).trans (extrasLoop_sfx fuel _ st3 ex st1 hv)
        exact (checkR_sfx hl).trans ((ws_sfx st0).trans (h1.trans ((ws_sfx st1).trans (checkR_sfx hr))))

theorem versionMany_sfx : (fuel : Nat) → (acc : Str) → (st : St) → (s : Str) → (st' : St) →
    versionMany fuel acc st = .ok (s, st') → Sfx st st'
  | 0, _, _, _, _, h => by simp [versionMany] at h
  | f + 1, acc, st, s, st', h => by
    simp only [versionMany] at h
    split at h
    · simp only [Except.ok.injEq, Prod.mk.injEq] at h; rw [← h.2]; exact Sfx.refl st
    · rename_i t1 st1 hc
      split at h
      · cases h
      · split at h
        · cases h
        · split at h
          · simp only [Except.ok.injEq, Prod.mk.injEq] at h
            rw [← h.2]; exact (checkR_sfx hc).trans (ws_sfx st1)
          · rename_i c st2 hcm
            exact (checkR_sfx hc).trans ((ws_sfx st1).trans ((checkR_sfx hcm).trans ((ws_sfx st2).trans
              (versionMany_sfx f _ _ s st' h))))

theorem parseSpecifier_sfx (fuel : Nat) (st : St) (s : Str) (st' : St) (h : parseSpecifier fuel st = .ok (s, st')) : Sfx st st' := by
  unfold parseSpecifier at h
  split at h
  · rename_i t0 st0 hl
    simp only [bind, Except.bind] at h
    split at h
    · cases h
    · rename_i v hv
      obtain ⟨s1, st1⟩ := v
      simp only at h
      split at h
      · cases h
      · rename_i t2 st2 hr
        simp only [pure, Except.pure, Except.ok.injEq, Prod.mk.injEq] at h
        rw [← h.2]
        exact (check_sfx hl).trans ((ws_sfx st0).trans ((versionMany_sfx fuel _ _ _ _ hv).trans ((ws_sfx st1).trans (check_sfx hr))))
  · simp only [bind, Except.bind] at h
    split at h
    · cases h
    · rename_i v hv
      obtain ⟨s1, st1⟩ := v
      simp only [pure, Except.pure, Except.ok.injEq, Prod.mk.injEq] at h
      rw [← h.2]
      exact (ws_sfx st).trans ((versionMany_sfx fuel _ _ _ _ hv).trans (ws_sfx st1))

/-! ### the marker of a requirement -/

theorem matchFin_single_inv (a : Nat) (prev : Option Nat) (k : Str) (n : Nat)
    (h : matchFin (false, [[a]], false) prev k = some n) : n = 1 ∧ k.head? = some a := by
  cases k with
  | nil => simp [matchFin, startsWith] at h
  | cons d k' =>
    by_cases hd : d = a
    · subst hd; simp [matchFin, startsWith] at h; exact ⟨h.symm, rfl⟩
    · have : (d == a) = false := by simpa using hd
      simp [matchFin, startsWith, this] at h

theorem checkR_single_inv (r : RRule) (a : Nat) (hr : charOf r = some a) (st st' : St) (t : Str)
    (h : checkR r st = some (t, st')) : st.rest = a :: st'.rest ∧ st'.prev = some a ∧ t = [a] := by
  unfold checkR at h
  split at h
  · cases h
  · rename_i n hn
    rw [matchR_single r a hr] at hn
    obtain ⟨rfl, hh⟩ := matchFin_single_inv a _ _ n hn
    simp only [Option.some.injEq, Prod.mk.injEq] at h
    obtain ⟨rfl, rfl⟩ := h
    cases hk : st.rest with
    | nil => rw [hk] at hh; simp at hh
    | cons d k' => rw [hk] at hh; simp at hh; subst hh; simp [lastOr]

theorem parseReqMarker_inv (fuel : Nat) (st : St) (m : List M) (st' : St) (h : parseReqMarker fuel st = .ok (m, st')) :
    ∃ sb se, st.rest = 59 :: sb.rest ∧ sb.prev = some 59 ∧ parseMarker charTS fuel sb = .ok (m, se) ∧ st' = ws se := by
  unfold parseReqMarker at h
  split at h
  · cases h
  · rename_i t sb hs
    obtain ⟨h1, h2, _⟩ := checkR_single_inv .semicolon 59 rfl _ _ _ hs
    split at h
    · rename_i m' se hm
      simp only [Except.ok.injEq, Prod.mk.injEq] at h
      obtain ⟨rfl, rfl⟩ := h
      exact ⟨sb, se, h1, h2, hm, rfl⟩
    · cases h
    · cases h

theorem parseDetails_marker_inv (fuel : Nat) (st : St) (url spec : Str) (m : List M) (st' : St)
    (h : parseDetails fuel st = .ok (url, spec, some m, st')) :
    ∃ sa sb se, Sfx st sa ∧ sa.rest = 59 :: sb.rest ∧ sb.prev = some 59 ∧ parseMarker charTS fuel sb = .ok (m, se) ∧
      st' = ws se := by
  unfold parseDetails at h
  split at h
  · rename_i t0 s0 hat
    split at h
    · cases h
    · rename_i u s1 hu
      split at h
      · cases h
      · split at h
        · cases h
        · rename_i w s2 hw
          split at h
          · cases h
          · simp only [bind, Except.bind] at h
            split at h
            · cases h
            · rename_i v hv
              obtain ⟨m', s3⟩ := v
              simp only [pure, Except.pure, Except.ok.injEq, Prod.mk.injEq, Option.some.injEq] at h
              obtain ⟨_, _, rfl, rfl⟩ := h
              obtain ⟨sb, se, h1, h2, h3, h4⟩ := parseReqMarker_inv fuel s2 m' s3 hv
              exact ⟨s2, sb, se, (checkR_sfx hat).trans ((ws_sfx s0).trans ((checkR_sfx hu).trans (check_sfx hw))), h1, h2, h3, h4⟩
  · simp only [bind, Except.bind] at h
    split at h
    · cases h
    · rename_i v hv
      obtain ⟨sp, s1⟩ := v
      simp only at h
      split at h
      · cases h
      · split at h
        · cases h
        · rename_i v2 hv2
          obtain ⟨m', s3⟩ := v2
          simp only [pure, Except.pure, Except.ok.injEq, Prod.mk.injEq, Option.some.injEq] at h
          obtain ⟨_, _, rfl, rfl⟩ := h
          obtain ⟨sb, se, h1, h2, h3, h4⟩ := parseReqMarker_inv fuel (ws s1) m' s3 hv2
          exact ⟨ws s1, sb, se, (parseSpecifier_sfx fuel st sp s1 hv).trans (ws_sfx s1), h1, h2, h3, h4⟩
/-! ### inversion of the top-level functions -/

theorem parseSource_inv (src : Str) (P : Parsed) (h : parseSource src = .ok P) :
    ∃ st1 st2 st3, checkR .identifier (ws ⟨none, src⟩) = some (P.name, st1) ∧
      parseExtras (fuelFor src.length) (ws st1) = .ok (P.extras, st2) ∧
      parseDetails (fuelFor src.length) (ws st2) = .ok (P.url, P.specifier, P.marker, st3) ∧ peekEnd st3 = true := by
  unfold parseSource parseRequirement at h
  split at h
  · cases h
  · rename_i name st1 hname
    simp only [bind, Except.bind] at h
    split at h
    · cases h
    · rename_i v1 he
      obtain ⟨exs, st2⟩ := v1
      split at h
      · cases h
      · rename_i v2 hd
        obtain ⟨url, spec, m, st3⟩ := v2
        split at h
        · rename_i hend
          simp only [pure, Except.pure, Except.ok.injEq] at h
          subst h
          exact ⟨st1, st2, st3, hname, he, hd, hend⟩
        · cases h

theorem parse_inv (src : Str) (r : Requirement) (h : Req.parse src = .ok r) :
    ∃ P spec, parseSource src = .ok P ∧ mkSpecSet P.specifier = .ok spec ∧ r.name = P.name ∧
      r.url = (if P.url.isEmpty then none else some P.url) ∧ r.extras = dedup P.extras ∧ r.spec = spec ∧
      r.marker = P.marker.map (normalizeExtra Req.X) := by
  unfold Req.parse at h
  simp only [bind, Except.bind] at h
  split at h
  · cases h
  · rename_i P hP
    unfold ofParsed at h
    simp only [bind, Except.bind] at h
    split at h
    · cases h
    · rename_i spec hs
      simp only [pure, Except.pure, Except.ok.injEq] at h
      subst h
      exact ⟨P, spec, hP, hs, rfl, rfl, rfl, rfl, rfl⟩


/-- **the marker of a requirement is the `Marker` of the text after the semicolon**: whenever `Requirement(src)` has
a marker, `src` splits at a `;` so that the stand-alone entry point (`Marker(text)`: tokenizer, parser,
`_normalize_extra_values`) applied to what follows returns that same marker -/
theorem marker_eq_marker (src : Str) (r : Requirement) (m : List M) (h : Req.parse src = .ok r) (hm : r.marker = some m) :
    ∃ pre text, src = pre ++ 59 :: text ∧ Mk.mkMarker Req.X text = .ok m := by
  obtain ⟨P, spec, hP, _, _, _, _, _, hmk⟩ := parse_inv src r h
  rw [hm] at hmk
  cases hPm : P.marker with
  | none => rw [hPm] at hmk; cases hmk
  | some m0 =>
    rw [hPm] at hmk
    simp only [Option.map_some, Option.some.injEq] at hmk
    obtain ⟨st1, st2, st3, hn, he, hd, hend⟩ := parseSource_inv src P hP
    rw [hPm] at hd
    obtain ⟨sa, sb, se, hs, hsa, hsb, hpm, hst3⟩ := parseDetails_marker_inv _ _ _ _ _ _ hd
    have chain : Sfx ⟨none, src⟩ sa :=
      (ws_sfx _).trans ((checkR_sfx hn).trans ((ws_sfx st1).trans ((parseExtras_sfx _ _ _ _ he).trans ((ws_sfx st2).trans hs))))
    obtain ⟨pre, hpre⟩ := chain
    refine ⟨pre, sb.rest, by simpa [hsa] using hpre, ?_⟩
    have hsb' : sb = ⟨some 59, sb.rest⟩ := by cases sb; simp_all
    rw [hsb'] at hpm
    rw [hst3] at hend
    have := ReqMk.marker_standalone _ (some 59) (by decide) sb.rest m0 se hpm hend
    simp only [Mk.mkMarker, this, Except.map, hmk]
/-! ### the URL branch -/

theorem takeWhile_append_dropWhile' (p : Nat → Bool) (l : Str) : l = l.takeWhile p ++ l.dropWhile p :=
  (List.takeWhile_append_dropWhile (p := p) (l := l)).symm

theorem take_takeWhile (p : Nat → Bool) : (l : List Nat) → l.take (l.takeWhile p).length = l.takeWhile p
  | [] => rfl
  | c :: cs => by
    cases h : p c
    · simp [List.takeWhile, h]
    · simp [List.takeWhile, h, take_takeWhile p cs]

/-- the URL token is the maximal run of characters other than space and tab -/
theorem checkR_url_inv (st st' : St) (u : Str) (h : checkR .url st = some (u, st')) :
    u = st.rest.takeWhile isUrlChar ∧ u ≠ [] ∧ st'.rest = st.rest.dropWhile isUrlChar := by
  unfold checkR at h
  split at h
  · cases h
  · rename_i n hn
    simp only [matchR, matchUrl] at hn
    split at hn
    · cases hn
    · rename_i hne
      simp only [Option.some.injEq] at hn
      subst hn
      simp only [Option.some.injEq, Prod.mk.injEq] at h
      obtain ⟨rfl, rfl⟩ := h
      refine ⟨take_takeWhile isUrlChar st.rest, ?_, ?_⟩
      · intro hnil
        apply hne
        rw [take_takeWhile] at hnil
        simp [hnil]
      · exact drop_takeWhile isUrlChar st.rest

theorem parseDetails_url_inv (fuel : Nat) (st : St) (url spec : Str) (m : Option (List M)) (st' : St)
    (h : parseDetails fuel st = .ok (url, spec, m, st')) (hu : url ≠ []) :
    ∃ t0 s0 s1, checkR .at_ st = some (t0, s0) ∧ checkR .url (ws s0) = some (url, s1) ∧
      (m.isSome = true → ∃ w s2, St.check .ws s1 = some (w, s2)) := by
  unfold parseDetails at h
  split at h
  · rename_i t0 s0 hat
    split at h
    · cases h
    · rename_i u s1 hurl
      refine ⟨t0, s0, s1, hat, ?_, ?_⟩
      · split at h
        · simp only [Except.ok.injEq, Prod.mk.injEq] at h; rw [← h.1]; exact hurl
        · split at h
          · cases h
          · split at h
            · simp only [Except.ok.injEq, Prod.mk.injEq] at h; rw [← h.1]; exact hurl
            · simp only [bind, Except.bind] at h
              split at h
              · cases h
              · simp only [pure, Except.pure, Except.ok.injEq, Prod.mk.injEq] at h; rw [← h.1]; exact hurl
      · intro hm
        split at h
        · simp only [Except.ok.injEq, Prod.mk.injEq] at h
          rw [← h.2.2.1] at hm; cases hm
        · split at h
          · cases h
          · rename_i w s2 hw
            exact ⟨w, s2, hw⟩
  · exfalso
    simp only [bind, Except.bind] at h
    split at h
    · cases h
    · split at h
      · simp only [pure, Except.pure, Except.ok.injEq, Prod.mk.injEq] at h; exact hu h.1.symm
      · split at h
        · cases h
        · simp only [pure, Except.pure, Except.ok.injEq, Prod.mk.injEq] at h; exact hu h.1.symm

theorem mem_takeWhile (p : Nat → Bool) : (l : List Nat) → ∀ x ∈ l.takeWhile p, p x = true
  | [], x, hx => by simp at hx
  | c :: cs, x, hx => by
    cases h : p c
    · simp [List.takeWhile, h] at hx
    · simp only [List.takeWhile, h, List.mem_cons] at hx
      rcases hx with rfl | hx
      · exact h
      · exact mem_takeWhile p cs x hx

theorem head_dropWhile_url (l : Str) : ∀ c, (l.dropWhile isUrlChar).head? = some c → c = 32 ∨ c = 9 := by
  intro c hc
  have := List.head?_dropWhile_not isUrlChar l
  rw [hc] at this
  simp only [Bool.not_eq_true] at this
  cases h : isUrlChar c with
  | true => rw [h] at this; cases this
  | false =>
    by_cases h1 : c = 9
    · exact Or.inr h1
    · by_cases h2 : c = 32
      · exact Or.inl h2
      · have := (isUrlChar_iff c).mpr ⟨h1, h2⟩
        rw [h] at this; cases this

/-- **the URL of a requirement is a maximal run of non-white-space characters of the source, and a marker is only
recognised after white space that follows it**: `src = pre ++ url ++ post` where `post` is empty or starts with a
space or tab — so a `;` written directly after the URL belongs to the URL — and if the requirement has a marker,
`post` does start with white space -/
theorem url_then_ws (src : Str) (r : Requirement) (u : Str) (h : Req.parse src = .ok r) (hu : r.url = some u) :
    u ≠ [] ∧ (∀ x ∈ u, x ≠ 32 ∧ x ≠ 9) ∧ ∃ pre post, src = pre ++ u ++ post ∧
      (∀ c, post.head? = some c → c = 32 ∨ c = 9) ∧ (r.marker.isSome = true → post ≠ []) := by
  obtain ⟨P, spec, hP, _, _, hurl, _, _, hmk⟩ := parse_inv src r h
  have hPu : P.url = u ∧ u ≠ [] := by
    rw [hu] at hurl
    cases hpe : P.url with
    | nil => rw [hpe] at hurl; cases hurl
    | cons c t => rw [hpe] at hurl; simp at hurl; exact ⟨hurl.symm, by rw [hurl]; simp⟩
  obtain ⟨hPu, hne⟩ := hPu
  obtain ⟨st1, st2, st3, hn, he, hd, hend⟩ := parseSource_inv src P hP
  rw [hPu] at hd
  obtain ⟨t0, s0, s1, hat, hur, hws⟩ := parseDetails_url_inv _ _ _ _ _ _ hd hne
  obtain ⟨e1, _, e3⟩ := checkR_url_inv _ _ _ hur
  refine ⟨hne, ?_, ?_⟩
  · intro x hx
    rw [e1] at hx
    have := mem_takeWhile isUrlChar _ x hx
    have := (isUrlChar_iff x).mp this
    omega
  · have chain : Sfx ⟨none, src⟩ (ws s0) :=
      (ws_sfx _).trans ((checkR_sfx hn).trans ((ws_sfx st1).trans ((parseExtras_sfx _ _ _ _ he).trans ((ws_sfx st2).trans
        ((checkR_sfx hat).trans (ws_sfx s0))))))
    obtain ⟨pre, hpre⟩ := chain
    have hrest := checkR_rest hur
    refine ⟨pre, s1.rest, ?_, ?_, ?_⟩
    · simp only at hpre; rw [hpre, hrest]; simp
    · rw [e3]; exact head_dropWhile_url _
    · intro hm
      have hPm : P.marker.isSome = true := by
        rw [hmk] at hm; cases hx : P.marker <;> simp [hx] at hm ⊢
      obtain ⟨w, s2, hw⟩ := hws hPm
      intro hnil
      simp only [St.check, hnil, matchRule, matchWs, List.takeWhile_nil, List.length_nil, beq_self_eq_true, if_true] at hw
      cases hw
end ReqWf
