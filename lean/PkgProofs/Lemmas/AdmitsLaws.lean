import PkgModel.Spec.Admits
import PkgProofs.Props.C01
/-!
# Laws of the reference semantics `Pep440.admits` (used by C04)

The order splits into a part that ignores local labels and the comparison of the labels:
`cmp a b = (cmp (pub a) (pub b)).then (localCmp a.loc b.loc)`.
-/
namespace AL
open V Py Pep440 O

theorem cmp_split (a b : Ver) : cmp a b = (cmp (pub a) (pub b)).then (localCmp a.loc b.loc) := by
  simp only [cmp, pub, phase, preNum, localCmp]
  cases compare a.epoch b.epoch <;> simp [Ordering.then]
  cases padCmp a.release b.release <;> simp
  cases compare (match a.pre, a.post, a.dev with
      | some (.a, _), _, _ => 1 | some (.b, _), _, _ => 2 | some (.rc, _), _, _ => 3
      | none, none, some _ => 0 | none, _, _ => 4)
    (match b.pre, b.post, b.dev with
      | some (.a, _), _, _ => 1 | some (.b, _), _, _ => 2 | some (.rc, _), _, _ => 3
      | none, none, some _ => 0 | none, _, _ => 4) <;> simp
  cases compare (match a.pre with | some (_, n) => n | none => 0) (match b.pre with | some (_, n) => n | none => 0) <;> simp
  cases postCmp a.post b.post <;> simp
  cases devCmp a.dev b.dev <;> simp

theorem pub_of_noloc (v : Ver) (h : v.loc = none) : pub v = v := by
  cases v; simp only at h; subst h; rfl

/-- against a version without local label, the label of the candidate only matters on a tie -/
theorem cmp_noloc (c v : Ver) (hv : v.loc = none) :
    cmp c v = (cmp (pub c) v).then (match c.loc with | none => .eq | some _ => .gt) := by
  have h := cmp_split c v
  rw [pub_of_noloc v hv, hv] at h
  rw [h]; cases c.loc <;> rfl

theorem cmp_pub_spec (c v : Ver) : cmp (pub c) v = (cmp (pub c) (pub v)).then (match v.loc with | none => .eq | some _ => .lt) := by
  have h := cmp_split (pub c) v
  rw [h]; cases v.loc <;> rfl

/-! ### what a comparison key determines -/

def keyIsPre (k : Key) : Bool :=
  (match k.dev with | .val _ => true | _ => false) || (match k.pre with | .val _ => true | _ => false)
def keyIsPost (k : Key) : Bool := match k.post with | .val _ => true | _ => false
def keyHasLoc (k : Key) : Bool := match k.loc with | .val _ => true | _ => false

theorem isPre_key (c : Ver) : c.isPre = keyIsPre (cmpkey c) := by
  obtain ⟨e, r, pre, post, dev, loc⟩ := c
  cases pre <;> cases post <;> cases dev <;> simp [Ver.isPre, keyIsPre, cmpkey]
theorem isPost_key (c : Ver) : c.isPost = keyIsPost (cmpkey c) := by
  obtain ⟨e, r, pre, post, dev, loc⟩ := c
  cases post <;> simp [Ver.isPost, keyIsPost, cmpkey]
theorem hasLoc_key (c : Ver) : c.loc.isSome = keyHasLoc (cmpkey c) := by
  obtain ⟨e, r, pre, post, dev, loc⟩ := c
  cases loc <;> simp [keyHasLoc, cmpkey]

theorem cmp_key (a b : Ver) : cmp a b = keyOrd (cmpkey a) (cmpkey b) := (C01.cmp_eq_pep440 a b).symm

theorem key_pub (c : Ver) : cmpkey (pub c) = { cmpkey c with loc := .negInf } := by
  simp [cmpkey, pub]

theorem zpp_stripS (r l : List Nat) : zeroPadPrefix r l = zeroPadPrefix r (Pd.stripS l) := by
  induction l generalizing r with
  | nil => rfl
  | cons x xs ih =>
    cases r with
    | nil => simp [zeroPadPrefix]
    | cons a as =>
      simp only [Pd.stripS]
      cases hs : Pd.stripS xs with
      | nil =>
        have := ih as; rw [hs] at this
        by_cases hx : x = 0
        · subst hx; simp [zeroPadPrefix, this]
        · simp [hx, zeroPadPrefix, this]
      | cons y ys =>
        have := ih as; rw [hs] at this
        simp [zeroPadPrefix, this]

theorem zpp_strip (r l : List Nat) : zeroPadPrefix r l = zeroPadPrefix r (dropTrailingZeros l) := by
  have := Pd.strip_eq_stripS l
  simp only [Pd.strip] at this
  rw [this]; exact zpp_stripS r l

theorem prefixMatch_key (e : Nat) (r : List Nat) (c c' : Ver) (h : cmpkey c = cmpkey c') :
    prefixMatch e r c = prefixMatch e r c' := by
  have he : c.epoch = c'.epoch := congrArg Key.epoch h
  have hr : dropTrailingZeros c.release = dropTrailingZeros c'.release := congrArg Key.release h
  simp only [prefixMatch, he, zpp_strip r c.release, zpp_strip r c'.release, hr]

theorem sameRelease_key (c c' v : Ver) (h : cmpkey c = cmpkey c') : sameRelease c v = sameRelease c' v := by
  have he : c.epoch = c'.epoch := congrArg Key.epoch h
  have hr : dropTrailingZeros c.release = dropTrailingZeros c'.release := congrArg Key.release h
  simp only [sameRelease, he, ← C01.rel_eq_pad, hr]

/-- **equal candidates get the same answer** (every operator other than `===`) -/
theorem admits_key (op : S.Op) (hop : op ≠ .arbitrary) (v : Ver) (w : Bool) (raw : Str) (c c' : Ver)
    (h : cmpkey c = cmpkey c') : admits op v w raw c = admits op v w raw c' := by
  have hp : cmpkey (pub c) = cmpkey (pub c') := by rw [key_pub, key_pub, h]
  have h1 : cmp c v = cmp c' v := by rw [cmp_key, cmp_key, h]
  have h2 : cmp (pub c) v = cmp (pub c') v := by rw [cmp_key, cmp_key, hp]
  have h3 : c.isPre = c'.isPre := by rw [isPre_key, isPre_key, h]
  have h4 : c.isPost = c'.isPost := by rw [isPost_key, isPost_key, h]
  have h5 : c.loc.isSome = c'.loc.isSome := by rw [hasLoc_key, hasLoc_key, h]
  have h6 := sameRelease_key c c' v h
  cases op with
  | arbitrary => exact absurd rfl hop
  | eq => cases w <;> cases hl : v.loc.isNone <;> simp [admits, hl, h1, h2, prefixMatch_key _ _ c c' h]
  | ne => cases w <;> cases hl : v.loc.isNone <;> simp [admits, hl, h1, h2, prefixMatch_key _ _ c c' h]
  | compatible => simp [admits, h2, prefixMatch_key _ _ c c' h]
  | le => simp [admits, h2]
  | ge => simp [admits, h2]
  | lt => simp [admits, h1, h3, h6]
  | gt => simp [admits, h1, h4, h6, localVersionOf, h5, h2]

/-- **a clause without local label does not see the candidate's label** (every operator other than `===`) -/
theorem admits_local_blind (op : S.Op) (hop : op ≠ .arbitrary) (v : Ver) (hv : v.loc = none) (w : Bool) (raw : Str)
    (c : Ver) : admits op v w raw c = admits op v w raw (pub c) := by
  have hc := cmp_noloc c v hv
  cases op with
  | arbitrary => exact absurd rfl hop
  | eq => cases w <;> simp [admits, hv, prefixMatch, pub]
  | ne => cases w <;> simp [admits, hv, prefixMatch, pub]
  | compatible => simp [admits, prefixMatch, pub]
  | le => simp [admits, pub]
  | ge => simp [admits, pub]
  | lt =>
    have hpp : cmp (pub c) v = cmp (pub (pub c)) v := rfl
    simp only [admits]
    have : isLT (cmp c v) = isLT (cmp (pub c) v) := by
      rw [hc]; cases cmp (pub c) v <;> cases c.loc <;> rfl
    rw [this]; rfl
  | gt =>
    simp only [admits, localVersionOf]
    have hloc : (pub c).loc.isSome = false := rfl
    have hpp : cmp (pub (pub c)) v = cmp (pub c) v := rfl
    have hs : sameRelease (pub c) v = sameRelease c v := rfl
    have hpost : (pub c).isPost = c.isPost := rfl
    rw [hloc, hpp, hs, hpost, hc]
    cases cmp (pub c) v <;> cases hl : c.loc <;> simp [isGT, isEQ, Ordering.then]

/-- `<V ⊆ <=V` -/
theorem lt_sub_le (v : Ver) (raw : Str) (c : Ver) (h : admits .lt v false raw c = true) :
    admits .le v false raw c = true := by
  simp only [admits, Bool.and_eq_true] at h ⊢
  have h1 := h.1
  rw [cmp_split c v] at h1
  rw [cmp_pub_spec c v]
  revert h1
  cases cmp (pub c) (pub v) <;> cases v.loc <;> simp [isLT, isGT, Ordering.then]

/-- `>V ⊆ >=V` (V without local label, as the grammar of `>`/`>=` demands) -/
theorem gt_sub_ge (v : Ver) (hv : v.loc = none) (raw : Str) (c : Ver) (h : admits .gt v false raw c = true) :
    admits .ge v false raw c = true := by
  simp only [admits, Bool.and_eq_true] at h ⊢
  have h1 := h.1.1
  rw [cmp_noloc c v hv] at h1
  revert h1
  cases cmp (pub c) v <;> cases c.loc <;> simp [isLT, isGT, Ordering.then]

/-- `>=V` and `<=V` together cover every version -/
theorem ge_or_le (v : Ver) (raw : Str) (c : Ver) :
    (admits .ge v false raw c || admits .le v false raw c) = true := by
  simp only [admits]; cases cmp (pub c) v <;> rfl

/-- neither `<V` nor `>V` matches V or a local version of V -/
theorem strict_exclude_V (v : Ver) (hv : v.loc = none) (raw : Str) (c : Ver) (h : isEQ (cmp (pub c) v) = true) :
    admits .lt v false raw c = false ∧ admits .gt v false raw c = false := by
  have hc := cmp_noloc c v hv
  simp only [admits, localVersionOf]
  rw [hc]
  revert h
  cases cmp (pub c) v <;> cases c.loc <;> simp [isLT, isGT, isEQ, Ordering.then]

/-- `!=` is the negation of `==` (with and without `.*`) -/
theorem ne_not_eq (v : Ver) (w : Bool) (raw : Str) (c : Ver) : admits .ne v w raw c = !admits .eq v w raw c := by
  cases w <;> rfl

/-- `~=V` is `>=V` and `==P.*`, `P` = V's epoch and release minus its last component -/
theorem compat_split (v : Ver) (raw raw' : Str) (c : Ver) :
    admits .compatible v false raw c =
      (admits .ge v false raw c && admits .eq ⟨v.epoch, v.release.dropLast, none, none, none, none⟩ true raw' c) := rfl

end AL
