import PkgModel.Version
import PkgProofs.Lemmas.Ord
/-! the six Python operators on keys agree with one total order -/
namespace V
open O Py Pep440

def sat : Op → Ordering → Bool
  | .lt, .lt => true | .lt, _ => false
  | .le, .gt => false | .le, _ => true
  | .gt, .gt => true | .gt, _ => false
  | .ge, .lt => false | .ge, _ => true

theorem onNat_sat (op : Op) (a b : Nat) : op.onNat a b = sat op (compare a b) := by
  rcases Nat.lt_trichotomy a b with h | h | h
  · have hc : compare a b = .lt := Nat.compare_eq_lt.mpr h
    rw [hc]; cases op <;> simp [Op.onNat, sat] <;> omega
  · have hc : compare a b = .eq := Nat.compare_eq_eq.mpr h
    rw [hc]; cases op <;> simp [Op.onNat, sat] <;> omega
  · have hc : compare a b = .gt := Nat.compare_eq_gt.mpr h
    rw [hc]; cases op <;> simp [Op.onNat, sat] <;> omega

theorem seqEq_lex {α} (eqv : α → α → Bool) (c : α → α → Ordering)
    (he : ∀ x y, eqv x y = (c x y == .eq)) :
    ∀ a b, seqEq eqv a b = (lexList c a b == .eq) := by
  intro a
  induction a with
  | nil => intro b; cases b <;> simp [seqEq, lexList]
  | cons x xs ih =>
    intro b; cases b with
    | nil => simp [seqEq, lexList]
    | cons y ys =>
      simp only [seqEq, lexList, he, ih]
      cases c x y <;> simp [Ordering.then]

theorem seqCmp_lex {α} (eqv : α → α → Bool) (opv : Op → α → α → Bool) (c : α → α → Ordering)
    (he : ∀ x y, eqv x y = (c x y == .eq))
    (ho : ∀ op x y, c x y ≠ .eq → opv op x y = sat op (c x y)) (op : Op) :
    ∀ a b, seqCmp eqv opv op a b = sat op (lexList c a b) := by
  intro a
  induction a with
  | nil => intro b; cases b <;> cases op <;> simp [seqCmp, lexList, sat]
  | cons x xs ih =>
    intro b; cases b with
    | nil => cases op <;> simp [seqCmp, lexList, sat]
    | cons y ys =>
      simp only [seqCmp, lexList, he]
      cases h : c x y with
      | eq => simp [Ordering.then, ih]
      | lt => simp [Ordering.then]; rw [ho op x y (by simp [h]), h]
      | gt => simp [Ordering.then]; rw [ho op x y (by simp [h]), h]

def extOrd {α} (c : α → α → Ordering) : Ext α → Ext α → Ordering
  | .negInf, .negInf => .eq
  | .negInf, _ => .lt
  | .val _, .negInf => .gt
  | .val a, .val b => c a b
  | .val _, .posInf => .lt
  | .posInf, .posInf => .eq
  | .posInf, _ => .gt

theorem extOrd_total {α} {c : α → α → Ordering} (h : TotalCmp c) : TotalCmp (extOrd c) where
  eq_iff := by
    intro a b; cases a <;> cases b <;> simp [extOrd]
    exact h.eq_iff _ _
  swap := by
    intro a b; cases a <;> cases b <;> simp [extOrd, Ordering.swap]
    exact h.swap _ _
  trans := by
    intro a b d; cases a <;> cases b <;> cases d <;> simp [extOrd]
    exact h.trans _ _ _

theorem ext_pyEq {α} (eqv : α → α → Bool) (c : α → α → Ordering)
    (he : ∀ x y, eqv x y = (c x y == .eq)) (x y : Ext α) :
    Ext.pyEq eqv x y = (extOrd c x y == .eq) := by
  cases x <;> cases y <;> simp [Ext.pyEq, extOrd, he]

theorem ext_cmp {α} (f : Op → α → α → Bool) (c : α → α → Ordering)
    (ho : ∀ op x y, c x y ≠ .eq → f op x y = sat op (c x y)) (op : Op) (x y : Ext α)
    (hne : extOrd c x y ≠ .eq) :
    extCmp op f x y = sat op (extOrd c x y) := by
  cases x <;> cases y <;> cases op <;>
    simp_all [extCmp, Ext.pyLt, Ext.pyLe, Ext.pyGt, Ext.pyGe, extOrd, sat]

/-! component orders -/
def preOrd (p q : PreL × Nat) : Ordering := (compare p.1.rank q.1.rank).then (compare p.2 q.2)
def ksegOrd : KSeg → KSeg → Ordering
  | .num a, .num b => compare a b
  | .str s, .str t => lexList compare s t
  | .num _, .str _ => .gt
  | .str _, .num _ => .lt

def keyOrd (k l : Key) : Ordering :=
  (compare k.epoch l.epoch).then <|
  (lexList compare k.release l.release).then <|
  (extOrd preOrd k.pre l.pre).then <|
  (extOrd compare k.post l.post).then <|
  (extOrd compare k.dev l.dev).then <|
  (extOrd (lexList ksegOrd) k.loc l.loc)

theorem beq_nat_cmp (a b : Nat) : (a == b) = (compare a b == .eq) := by
  rcases Nat.lt_trichotomy a b with h | h | h
  · have hc : compare a b = .lt := Nat.compare_eq_lt.mpr h
    simp [hc]; omega
  · have hc : compare a b = .eq := Nat.compare_eq_eq.mpr h
    simp [hc, h]
  · have hc : compare a b = .gt := Nat.compare_eq_gt.mpr h
    simp [hc]; omega

theorem rank_inj (p q : PreL) : p.rank = q.rank ↔ p = q := by
  cases p <;> cases q <;> simp [PreL.rank]

theorem preEq_ord (p q : PreL × Nat) : preEq p q = (preOrd p q == .eq) := by
  obtain ⟨p1, p2⟩ := p; obtain ⟨q1, q2⟩ := q
  simp only [preEq, preOrd]
  have h1 : (p1 == q1) = (compare p1.rank q1.rank == .eq) := by
    rw [← beq_nat_cmp]; cases p1 <;> cases q1 <;> simp [PreL.rank]
  rw [h1, beq_nat_cmp]
  cases compare p1.rank q1.rank <;> simp [Ordering.then]

theorem preCmp_ord (op : Op) (p q : PreL × Nat) (hne : preOrd p q ≠ .eq) :
    preCmp op p q = sat op (preOrd p q) := by
  obtain ⟨p1, p2⟩ := p; obtain ⟨q1, q2⟩ := q
  simp only [preCmp, preOrd] at *
  by_cases h1 : p1 = q1
  · subst h1
    simp only [beq_self_eq_true, ite_true]
    have : compare p1.rank p1.rank = .eq := Nat.compare_eq_eq.mpr rfl
    simp only [this, Ordering.then] at hne ⊢
    by_cases h2 : p2 = q2
    · subst h2; exact absurd (Nat.compare_eq_eq.mpr rfl) hne
    · simp [h2, onNat_sat]
  · have hr : p1.rank ≠ q1.rank := fun h => h1 ((rank_inj _ _).mp h)
    have : (p1 == q1) = false := by simp [h1]
    simp only [this, Bool.false_eq_true, ite_false]
    rw [onNat_sat]
    have hne' : compare p1.rank q1.rank ≠ .eq := fun e => hr (Nat.compare_eq_eq.mp e)
    cases hc : compare p1.rank q1.rank
    · simp [Ordering.then]
    · exact absurd hc hne'
    · simp [Ordering.then]

theorem strEq_ord (s t : Str) : (s == t) = (lexList compare s t == .eq) := by
  have := (lexList_total natCmp).eq_iff s t
  cases hc : lexList compare s t <;> simp_all

theorem strCmp_ord (op : Op) (s t : Str) : strCmp op s t = sat op (lexList compare s t) := by
  unfold strCmp
  exact seqCmp_lex _ _ compare beq_nat_cmp (fun op x y _ => onNat_sat op x y) op s t

theorem ksegEq_ord (x y : KSeg) : ksegEq x y = (ksegOrd x y == .eq) := by
  cases x <;> cases y <;> simp [ksegEq, ksegOrd, beq_nat_cmp, strEq_ord]

theorem ksegCmp_ord (op : Op) (x y : KSeg) (hne : ksegOrd x y ≠ .eq) :
    ksegCmp op x y = sat op (ksegOrd x y) := by
  cases x <;> cases y
  · rename_i a b
    simp only [ksegCmp, ksegOrd] at *
    have : (a == b) = false := by rw [beq_nat_cmp]; simp [hne]
    simp [this, onNat_sat]
  · cases op <;> simp [ksegCmp, ksegOrd, sat]
  · cases op <;> simp [ksegCmp, ksegOrd, sat]
  · rename_i s t
    simp only [ksegCmp, ksegOrd] at *
    have : (s == t) = false := by rw [strEq_ord]; simp [hne]
    simp [this, strCmp_ord]

theorem keyEq_ord (k l : Key) : keyEq k l = (keyOrd k l == .eq) := by
  simp only [keyEq, keyOrd, relEq]
  simp only [beq_nat_cmp k.epoch l.epoch, seqEq_lex (· == ·) compare beq_nat_cmp,
    ext_pyEq preEq preOrd preEq_ord, ext_pyEq (· == ·) compare beq_nat_cmp,
    ext_pyEq locEq (lexList ksegOrd) (fun x y => seqEq_lex _ _ ksegEq_ord x y)]
  cases compare k.epoch l.epoch <;> cases lexList compare k.release l.release <;>
    cases extOrd preOrd k.pre l.pre <;> cases extOrd compare k.post l.post <;>
    cases extOrd compare k.dev l.dev <;> simp [Ordering.then]

theorem keyCmp_ord (op : Op) (k l : Key) : keyCmp op k l = sat op (keyOrd k l) := by
  simp only [keyCmp, keyOrd, relEq, relCmp]
  simp only [beq_nat_cmp k.epoch l.epoch, seqEq_lex (· == ·) compare beq_nat_cmp,
    ext_pyEq preEq preOrd preEq_ord, ext_pyEq (· == ·) compare beq_nat_cmp,
    ext_pyEq locEq (lexList ksegOrd) (fun x y => seqEq_lex _ _ ksegEq_ord x y)]
  cases h1 : compare k.epoch l.epoch
  case lt => simp [Ordering.then, onNat_sat, h1]
  case gt => simp [Ordering.then, onNat_sat, h1]
  simp only [Ordering.then, beq_self_eq_true, Bool.not_true, Bool.false_eq_true, ite_false]
  have hrel := seqCmp_lex (· == ·) Op.onNat compare beq_nat_cmp (fun op x y _ => onNat_sat op x y) op k.release l.release
  cases h2 : lexList compare k.release l.release
  case lt => simp [hrel, h2]
  case gt => simp [hrel, h2]
  simp only [beq_self_eq_true, Bool.not_true, Bool.false_eq_true, ite_false]
  cases h3 : extOrd preOrd k.pre l.pre
  case lt => simp [ext_cmp preCmp preOrd preCmp_ord op k.pre l.pre (by simp [h3]), h3]
  case gt => simp [ext_cmp preCmp preOrd preCmp_ord op k.pre l.pre (by simp [h3]), h3]
  simp only [beq_self_eq_true, Bool.not_true, Bool.false_eq_true, ite_false]
  cases h4 : extOrd compare k.post l.post
  case lt => simp [ext_cmp Op.onNat compare (fun op x y _ => onNat_sat op x y) op k.post l.post (by simp [h4]), h4]
  case gt => simp [ext_cmp Op.onNat compare (fun op x y _ => onNat_sat op x y) op k.post l.post (by simp [h4]), h4]
  simp only [beq_self_eq_true, Bool.not_true, Bool.false_eq_true, ite_false]
  cases h5 : extOrd compare k.dev l.dev
  case lt => simp [ext_cmp Op.onNat compare (fun op x y _ => onNat_sat op x y) op k.dev l.dev (by simp [h5]), h5]
  case gt => simp [ext_cmp Op.onNat compare (fun op x y _ => onNat_sat op x y) op k.dev l.dev (by simp [h5]), h5]
  simp only [beq_self_eq_true, Bool.not_true, Bool.false_eq_true, ite_false]
  have hloc : ∀ op x y, lexList ksegOrd x y ≠ .eq →
      locCmp op x y = sat op (lexList ksegOrd x y) :=
    fun op x y _ => seqCmp_lex ksegEq ksegCmp ksegOrd ksegEq_ord ksegCmp_ord op x y
  cases h6 : extOrd (lexList ksegOrd) k.loc l.loc
  case lt => simp [ext_cmp locCmp (lexList ksegOrd) hloc op k.loc l.loc (by simp [h6]), h6]
  case gt => simp [ext_cmp locCmp (lexList ksegOrd) hloc op k.loc l.loc (by simp [h6]), h6]
  cases op <;> simp [sat]

end V
