import PkgModel.Version
import PkgProofs.Lemmas.Dec
/-!
# Scanner lemmas, part 1: well-formedness, rendering pieces, character facts

`V.WF` is the explicit decidable predicate of the values `V.scan` can produce; the rendering
`Ver.str` is decomposed into `base ++ preS ++ postS ++ devS ++ locS`; `scanCore` is decomposed
into stages (`scanCore_eq`, by `rfl`).
-/
namespace V
open Py

/-! ### well-formed values -/

/-- a local segment as produced by `_parse_local_version`: an int, or a non-empty lower-case ASCII
alphanumeric string that is not all digits -/
def segWF : LSeg → Bool
  | .num _ => true
  | .str s => !s.isEmpty && s.all (fun c => isDigit c || isLowerAscii c) && !s.all isDigit

def locWF : Option (List LSeg) → Bool
  | none => true
  | some l => !l.isEmpty && l.all segWF

/-- the values `scan` can produce: non-empty release; a local label, if present, has at least one
segment and every segment is well formed -/
def Ver.wf (v : Ver) : Bool := !v.release.isEmpty && locWF v.loc

def WF (v : Ver) : Prop := v.wf = true

instance (v : Ver) : Decidable (WF v) := inferInstanceAs (Decidable (v.wf = true))

/-! ### stages of `scanCore` -/

def stripV (s : Str) : Str := match s with
    | c :: r => if lowerAscii c == 118 then r else s
    | [] => s

def epochStep (n0 : Nat) (r0 : Str) : Option (Nat × Nat × Str) :=
      match r0 with
      | 33 :: r1 => (match optNum r1 with
                     | (some n1, r2) => some (n0, n1, r2)
                     | (none, _) => none)
      | _ => some (0, n0, r0)

def preStage (r : Str) : Option (PreL × Nat) × Str :=
  match scanLetterGroup preKws r with
  | some (p, r') => (some p, r')
  | none => (none, r)

def devStage (r : Str) : Option Nat × Str :=
  match scanLetterGroup devKws r with
  | some ((_, n), r') => (some n, r')
  | none => (none, r)

def scanRest (epoch first : Nat) (r : Str) : Option (Ver × Str) :=
      let (tail, r) := scanReleaseTail r.length r
      let (pre, r) := preStage r
      let (post, r) := scanPost r
      let (dev, r) := devStage r
      match scanLocal r with
      | none => none
      | some (loc, r) =>
        some ({ epoch := epoch, release := first :: tail, pre := pre, post := post, dev := dev, loc := loc }, r)

/-- `scanCore` is literally the composition of its stages -/
theorem scanCore_eq (s : Str) : scanCore s =
    match optNum (stripV s) with
    | (none, _) => none
    | (some n0, r0) => match epochStep n0 r0 with
      | none => none
      | some (e, f, r) => scanRest e f r := by
  rfl

/-! ### pieces of `Ver.str` -/

/-- `.x.y.z` -/
def tailS : List Str → Str
  | [] => []
  | x :: xs => 46 :: (x ++ tailS xs)

theorem join_dot (x : Str) (xs : List Str) : join [46] (x :: xs) = x ++ tailS xs := by
  induction xs generalizing x with
  | nil => simp [join, tailS]
  | cons y ys ih => simp [join, tailS, ih y]

def epochS (e : Nat) : Str := if e != 0 then dec e ++ [33] else []
def preS : Option (PreL × Nat) → Str
  | some (l, n) => l.str ++ dec n
  | none => []
def postS : Option Nat → Str
  | some n => 46 :: 112 :: 111 :: 115 :: 116 :: dec n
  | none => []
def devS : Option Nat → Str
  | some n => 46 :: 100 :: 101 :: 118 :: dec n
  | none => []
def locS : Option (List LSeg) → Str
  | some l => 43 :: join [46] (l.map LSeg.render)
  | none => []

theorem public_eq (v : Ver) :
    v.public = v.base ++ (preS v.pre ++ (postS v.post ++ devS v.dev)) := by
  obtain ⟨e, r, pre, post, dev, loc⟩ := v
  cases pre <;> cases post <;> cases dev <;>
    simp [Ver.public, preS, postS, devS, ofString]

theorem str_eq (v : Ver) :
    v.str = v.base ++ (preS v.pre ++ (postS v.post ++ (devS v.dev ++ locS v.loc))) := by
  have h := public_eq v
  obtain ⟨e, r, pre, post, dev, loc⟩ := v
  cases loc <;> simp [Ver.str, h, Ver.localStr, locS]

theorem base_eq (e r0 : Nat) (ns : List Nat) (pre post dev loc) :
    (Ver.mk e (r0 :: ns) pre post dev loc).base = epochS e ++ (dec r0 ++ tailS (ns.map dec)) := by
  simp [Ver.base, epochS, renderRelease, join_dot]

/-! ### character facts -/

theorem digit_bounds {c : Nat} (h : isDigit c = true) : 48 ≤ c ∧ c ≤ 57 := by
  simpa [isDigit] using h

theorem lowerAscii_digit {c : Nat} (h : isDigit c = true) : lowerAscii c = c := by
  have := digit_bounds h
  simp [lowerAscii, isUpperAscii]; omega

theorem isSep_digit {c : Nat} (h : isDigit c = true) : isSep c = false := by
  have := digit_bounds h
  simp [isSep]; omega

theorem isWs_digit {c : Nat} (h : isDigit c = true) : isWs c = false := by
  have := digit_bounds h
  simp [isWs]; omega

theorem dec_head (n : Nat) : ∃ d ds, dec n = d :: ds ∧ isDigit d = true := by
  cases h : dec n with
  | nil => exact absurd h (dec_ne_nil n)
  | cons d ds => exact ⟨d, ds, rfl, dec_digits n d (by simp [h])⟩

/-- `s` does not start with a digit -/
def NoDigit (s : Str) : Prop := ∀ c, s.head? = some c → isDigit c = false

theorem optNum_dec (n : Nat) (s : Str) (h : NoDigit s) : optNum (dec n ++ s) = (some n, s) := by
  simp [optNum, spanDigits_dec n s h, dec_ne_nil, undec_dec]

theorem optNum_none (s : Str) (h : NoDigit s) : optNum s = (none, s) := by
  cases s with
  | nil => simp [optNum, spanDigits]
  | cons c cs => simp [optNum, spanDigits, h c rfl]

theorem optSep_dec (n : Nat) (s : Str) : optSep (dec n ++ s) = dec n ++ s := by
  obtain ⟨d, ds, h, hd⟩ := dec_head n
  simp [h, optSep, isSep_digit hd]

end V
