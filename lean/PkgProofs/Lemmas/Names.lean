import PkgModel.Names
import PkgModel.Spec.Names
/-! helper lemmas for C13 / C14: separators, the generated lower-casing table, `collapse`, `chunks` -/
namespace Names
open Py

theorem separators_eq : Gen.NameTables.separators = [45, 46, 95] := by decide

theorem isSep_iff (c : Nat) : isSep c = true ↔ c = 45 ∨ c = 46 ∨ c = 95 := by
  simp [isSep, separators_eq]

theorem isSep_eq_spec (c : Nat) : isSep c = NameSpec.isSep c := by
  rw [Bool.eq_iff_iff, isSep_iff]
  simp [NameSpec.isSep]
  omega

theorem isSep_lt (c : Nat) (h : isSep c = true) : c < 128 := by
  rw [isSep_iff] at h; omega

/-! ## the lower-casing table -/

/-- a code point that is not a separator and is its own lower case -/
def good1 (x : Nat) : Bool := !isSep x && lowerCp x == [x]

/-- `p` holds for every code point the tree can return -/
def allTargets (p : Nat → Bool) : RunTree → Bool
  | .leaf => true
  | .node l lo hi step t r =>
    allTargets p l && allTargets p r &&
    (List.range (hi - lo + 1)).all fun d => d % step != 0 || p (t + d)

theorem find_some {p : Nat → Bool} : ∀ (tr : RunTree) (c x : Nat), allTargets p tr = true →
    tr.find c = some x → p x = true := by
  intro tr
  induction tr with
  | leaf => intro c x _ h; simp [RunTree.find] at h
  | node l lo hi step t r ihl ihr =>
    intro c x hall h
    simp only [allTargets, Bool.and_eq_true, List.all_eq_true, List.mem_range, Bool.or_eq_true,
      bne_iff_ne, ne_eq] at hall
    simp only [RunTree.find] at h
    by_cases h1 : c < lo
    · simp only [h1, ite_true] at h; exact ihl c x hall.1.1 h
    · by_cases h2 : hi < c
      · simp only [h1, h2, ite_true, ite_false] at h; exact ihr c x hall.1.2 h
      · simp only [h1, h2, ite_false] at h
        by_cases h3 : ((c - lo) % step == 0) = true
        · simp only [h3, ite_true, Option.some.injEq] at h
          subst h
          rcases hall.2 (c - lo) (by omega) with h4 | h4
          · simp only [beq_iff_eq] at h3; exact absurd h3 h4
          · exact h4
        · simp only [h3] at h; simp at h

/-- every code point the table can produce is a fixed point of `lowerCp` and no separator -/
def tableOk : Bool :=
  allTargets good1 Gen.NameTables.lowerTree &&
  Gen.NameTables.lowerSpecial.all fun kv => !kv.2.isEmpty && kv.2.all good1

theorem tableOk_true : tableOk = true := by decide +kernel

theorem lookup_mem {β : Type} : ∀ (l : List (Nat × β)) (k : Nat) (v : β), l.lookup k = some v → (k, v) ∈ l := by
  intro l
  induction l with
  | nil => intro k v h; simp [List.lookup] at h
  | cons x xs ih =>
    intro k v h
    obtain ⟨k', v'⟩ := x
    simp only [List.lookup] at h
    by_cases hk : (k == k') = true
    · simp only [hk] at h
      simp only [beq_iff_eq] at hk
      simp only [Option.some.injEq] at h
      subst hk; subst h; simp
    · simp only [Bool.not_eq_true] at hk
      simp only [hk] at h
      simp [ih k v h]

/-- ASCII: a separator is untouched, anything else lower-cases to a non-separator fixed point -/
theorem ascii_good : ∀ c, c < 128 → (isSep c = true ∧ lowerAscii c = c) ∨ good1 (lowerAscii c) = true := by
  decide +kernel

theorem good1_self_of_ge (c : Nat) (h : 128 ≤ c) (h1 : Gen.NameTables.lowerTree.find c = none)
    (h2 : Gen.NameTables.lowerSpecial.lookup c = none) : good1 c = true := by
  have hs : isSep c = false := by
    cases hh : isSep c
    · rfl
    · have := isSep_lt c hh; omega
  have : ¬ c < 128 := by omega
  simp [good1, hs, lowerCp, this, lowerNA, h1, h2]

/-- the non-ASCII part of `str.lower`: non-empty, and every produced code point is a non-separator fixed point -/
theorem lowerNA_good (c : Nat) (h : 128 ≤ c) :
    lowerNA c ≠ [] ∧ ∀ x ∈ lowerNA c, good1 x = true := by
  have ht := tableOk_true
  simp only [tableOk, Bool.and_eq_true, List.all_eq_true] at ht
  unfold lowerNA
  cases h1 : Gen.NameTables.lowerTree.find c with
  | some t =>
    refine ⟨by simp, ?_⟩
    intro x hx
    simp only [List.mem_singleton] at hx
    subst hx
    exact find_some _ c x ht.1 h1
  | none =>
    cases h2 : Gen.NameTables.lowerSpecial.lookup c with
    | some v =>
      have := ht.2 _ (lookup_mem _ _ _ h2)
      simp only [Bool.not_eq_true'] at this
      simp only [Option.getD_some]
      refine ⟨?_, this.2⟩
      intro hv; rw [hv] at this; simp at this
    | none =>
      refine ⟨by simp, ?_⟩
      intro x hx
      simp only [Option.getD_none, List.mem_singleton] at hx
      subst hx
      exact good1_self_of_ge x h h1 h2

theorem lowerCp_sep (c : Nat) (h : isSep c = true) : lowerCp c = [c] := by
  have hl := isSep_lt c h
  rcases ascii_good c hl with ⟨_, h2⟩ | h2
  · simp [lowerCp, hl, h2]
  · rw [isSep_iff] at h
    rcases h with rfl | rfl | rfl <;> simp [lowerCp, lowerAscii, isUpperAscii]

theorem lowerCp_nonsep (c : Nat) (h : isSep c = false) :
    lowerCp c ≠ [] ∧ ∀ x ∈ lowerCp c, good1 x = true := by
  by_cases hl : c < 128
  · rcases ascii_good c hl with ⟨h1, _⟩ | h2
    · simp [h] at h1
    · simp [lowerCp, hl, h2]
  · simp only [lowerCp, hl, ite_false]
    exact lowerNA_good c (by omega)

theorem good1_iff (x : Nat) : good1 x = true ↔ isSep x = false ∧ lowerCp x = [x] := by
  simp [good1]

theorem flatMap_fixed {f : Nat → Str} : ∀ (v : Str), (∀ x ∈ v, f x = [x]) → v.flatMap f = v := by
  intro v
  induction v with
  | nil => intro _; rfl
  | cons a as ih =>
    intro h
    simp only [List.flatMap_cons, h a (by simp), List.singleton_append, List.cons.injEq, true_and]
    exact ih (fun x hx => h x (by simp [hx]))

theorem lower_lowerCp (c : Nat) : lower (lowerCp c) = lowerCp c := by
  cases h : isSep c
  · exact flatMap_fixed _ (fun x hx => ((good1_iff x).mp ((lowerCp_nonsep c h).2 x hx)).2)
  · rw [lowerCp_sep c h]; simp [lower, lowerCp_sep c h]

theorem lower_append (a b : Str) : lower (a ++ b) = lower a ++ lower b := by
  simp [lower, List.flatMap_append]

theorem lower_cons (c : Nat) (s : Str) : lower (c :: s) = lowerCp c ++ lower s := by
  simp [lower, List.flatMap_cons]

/-- `str.lower` is idempotent (on the generated table: checked entry by entry) -/
theorem lower_idem (s : Str) : lower (lower s) = lower s := by
  induction s with
  | nil => rfl
  | cons c cs ih => rw [lower_cons, lower_append, lower_lowerCp, ih]

/-! ## `collapse` -/

theorem collapseAux_nonsep_prefix : ∀ (v r : Str) (b : Bool), v ≠ [] → (∀ x ∈ v, isSep x = false) →
    collapseAux (v ++ r) b = v ++ collapseAux r false := by
  intro v
  induction v with
  | nil => intro r b h; exact absurd rfl h
  | cons a as ih =>
    intro r b _ hall
    have ha := hall a (by simp)
    simp only [List.cons_append, collapseAux, ha, Bool.false_eq_true, ite_false, List.cons.injEq, true_and]
    cases as with
    | nil => rfl
    | cons a' as' => exact ih r false (by simp) (fun x hx => hall x (by simp [hx]))

/-- lower-casing commutes with collapsing separator runs -/
theorem lower_collapseAux (s : Str) (b : Bool) : lower (collapseAux s b) = collapseAux (lower s) b := by
  induction s generalizing b with
  | nil => rfl
  | cons c cs ih =>
    cases h : isSep c
    · have hn := lowerCp_nonsep c h
      simp only [collapseAux, h, Bool.false_eq_true, ite_false]
      rw [lower_cons, lower_cons, ih,
        collapseAux_nonsep_prefix _ _ _ hn.1 (fun x hx => ((good1_iff x).mp (hn.2 x hx)).1)]
    · have hs := lowerCp_sep c h
      have h45 : lowerCp 45 = [45] := lowerCp_sep 45 (by decide)
      rw [lower_cons, hs]
      cases b <;> simp [collapseAux, h, lower_cons, h45, ih]

theorem collapseAux_idem : ∀ (s : Str),
    (∀ b', collapseAux (collapseAux s true) b' = collapseAux s true) ∧
    collapseAux (collapseAux s false) false = collapseAux s false := by
  intro s
  induction s with
  | nil => simp [collapseAux]
  | cons c cs ih =>
    have h45 : isSep 45 = true := by decide
    cases h : isSep c
    · simp [collapseAux, h, ih.2]
    · refine ⟨fun b' => ?_, ?_⟩
      · simp only [collapseAux, h, ite_true]; exact ih.1 b'
      · simp [collapseAux, h, h45, ih.1 true]

theorem collapse_idem (s : Str) : collapse (collapse s) = collapse s := (collapseAux_idem s).2

theorem canon_eq_collapse_lower (s : Str) : canon s = collapse (lower s) := lower_collapseAux s false

/-- the output of a collapse: no separator other than `-`, and no two adjacent separators -/
def Collapsed : Str → Bool → Bool
  | [], _ => true
  | c :: cs, prevSep => if isSep c then (!prevSep && c == 45 && Collapsed cs true) else Collapsed cs false

theorem collapsed_collapseAux (s : Str) :
    Collapsed (collapseAux s true) true = true ∧ Collapsed (collapseAux s false) false = true := by
  have h45 : isSep 45 = true := by decide
  induction s with
  | nil => simp [collapseAux, Collapsed]
  | cons c cs ih =>
    cases h : isSep c
    · simp [collapseAux, h, Collapsed, ih.2]
    · simp [collapseAux, h, Collapsed, h45, ih.1]

theorem collapsed_weaken : ∀ (s : Str), Collapsed s true = true → Collapsed s false = true := by
  intro s; cases s with
  | nil => simp [Collapsed]
  | cons c cs => simp only [Collapsed]; cases isSep c <;> simp

/-! ## `chunks` (spec side) and the refinement `canon = fold` -/

open NameSpec (chunks renderChunk fold)

theorem chunks_cons_head (p : Nat → Bool) (c : Nat) (cs : Str) :
    ∃ e rest, chunks p (c :: cs) = (c :: e) :: rest := by
  rw [chunks]
  split
  · split
    · exact ⟨_, _, rfl⟩
    · exact ⟨_, _, rfl⟩
  · exact ⟨_, _, rfl⟩

theorem chunks_cons_cons (p : Nat → Bool) (c d : Nat) (ds e : Str) (rest : List Str)
    (hk : chunks p (d :: ds) = (d :: e) :: rest) :
    chunks p (c :: d :: ds) = if p c == p d then (c :: d :: e) :: rest else [c] :: (d :: e) :: rest := by
  rw [chunks, hk]

/-- a separator group becomes `-`, any other group is kept (the un-lowered rendering) -/
def renderC : Str → Str
  | [] => []
  | d :: ds => if NameSpec.isSep d then [45] else d :: ds

/-- the group at the head when a run is already open: a separator group is dropped -/
def renderOpen : Str → Str
  | [] => []
  | d :: ds => if NameSpec.isSep d then [] else d :: ds

theorem collapseAux_chunks (s : Str) :
    collapseAux s false = (chunks NameSpec.isSep s).flatMap renderC ∧
    collapseAux s true =
      (match chunks NameSpec.isSep s with
       | [] => []
       | ch :: rest => renderOpen ch ++ rest.flatMap renderC) := by
  induction s with
  | nil => simp [collapseAux, chunks]
  | cons c cs ih =>
    cases cs with
    | nil =>
      cases hc : NameSpec.isSep c <;> simp [collapseAux, chunks, isSep_eq_spec, renderC, renderOpen, hc]
    | cons d ds =>
      obtain ⟨e, rest, hk⟩ := chunks_cons_head NameSpec.isSep d ds
      rw [hk] at ih
      rw [chunks_cons_cons _ c d ds e rest hk]
      obtain ⟨ihA, ihB⟩ := ih
      have stepF : collapseAux (c :: d :: ds) false =
          if NameSpec.isSep c then 45 :: collapseAux (d :: ds) true else c :: collapseAux (d :: ds) false := by
        simp [collapseAux, isSep_eq_spec]
      have stepT : collapseAux (c :: d :: ds) true =
          if NameSpec.isSep c then collapseAux (d :: ds) true else c :: collapseAux (d :: ds) false := by
        simp [collapseAux, isSep_eq_spec]
      rw [stepF, stepT, ihA, ihB]
      cases hc : NameSpec.isSep c <;> cases hd : NameSpec.isSep d <;>
        simp [renderC, renderOpen, hc, hd, List.flatMap_cons]

theorem lower_flatMap (l : List Str) (f : Str → Str) :
    lower (l.flatMap f) = l.flatMap fun ch => lower (f ch) := by
  induction l with
  | nil => rfl
  | cons a as ih => simp [List.flatMap_cons, lower_append, ih]

theorem lower_renderC (ch : Str) : lower (renderC ch) = renderChunk lowerCp ch := by
  cases ch with
  | nil => rfl
  | cons d ds =>
    cases hd : NameSpec.isSep d
    · simp [renderC, renderChunk, hd, lower]
    · have h45 : lowerCp 45 = [45] := lowerCp_sep 45 (by decide)
      simp [renderC, renderChunk, hd, lower, h45]

/-- **refinement**: `canonicalize_name` is the fold of the property statement, for every string -/
theorem canon_eq_fold (s : Str) : canon s = fold lowerCp s := by
  unfold canon collapse fold
  rw [(collapseAux_chunks s).1, lower_flatMap]
  congr 1
  funext ch
  exact lower_renderC ch

/-! ## chunks are the maximal groups -/

theorem chunks_flatten (p : Nat → Bool) (s : Str) : (chunks p s).flatten = s := by
  induction s with
  | nil => simp [chunks]
  | cons c cs ih =>
    cases cs with
    | nil => simp [chunks]
    | cons d ds =>
      obtain ⟨e, rest, hk⟩ := chunks_cons_head p d ds
      rw [hk] at ih
      rw [chunks_cons_cons _ c d ds e rest hk]
      split <;> simp_all

/-- every group is non-empty and all its characters are of the same sort as its first -/
theorem chunks_homogeneous (p : Nat → Bool) (s : Str) :
    ∀ ch ∈ chunks p s, ∃ d e, ch = d :: e ∧ ∀ x ∈ e, p x = p d := by
  induction s with
  | nil => simp [chunks]
  | cons c cs ih =>
    cases cs with
    | nil => intro ch hch; simp [chunks] at hch; subst hch; exact ⟨c, [], rfl, by simp⟩
    | cons d ds =>
      obtain ⟨e, rest, hk⟩ := chunks_cons_head p d ds
      rw [hk] at ih
      rw [chunks_cons_cons _ c d ds e rest hk]
      obtain ⟨d', e', hde, hall⟩ := ih (d :: e) (by simp)
      simp only [List.cons.injEq] at hde
      obtain ⟨rfl, rfl⟩ := hde
      intro ch hch
      split at hch
      · rename_i hpc
        simp only [beq_iff_eq] at hpc
        simp only [List.mem_cons] at hch
        rcases hch with rfl | hch
        · refine ⟨c, d :: e, rfl, ?_⟩
          intro x hx
          simp only [List.mem_cons] at hx
          rcases hx with rfl | hx
          · exact hpc.symm
          · rw [hall x hx, hpc]
        · exact ih ch (by simp [hch])
      · simp only [List.mem_cons] at hch
        rcases hch with rfl | hch
        · exact ⟨c, [], rfl, by simp⟩
        · exact ih ch (by simpa using hch)

/-- consecutive groups are of different sorts (so each group is a *maximal* run) -/
def Alternating (p : Nat → Bool) : List Str → Prop
  | a :: b :: rest => (∀ x ∈ a.head?, ∀ y ∈ b.head?, p x ≠ p y) ∧ Alternating p (b :: rest)
  | _ => True

theorem chunks_alternating (p : Nat → Bool) (s : Str) : Alternating p (chunks p s) := by
  induction s with
  | nil => simp [chunks, Alternating]
  | cons c cs ih =>
    cases cs with
    | nil => simp [chunks, Alternating]
    | cons d ds =>
      obtain ⟨e, rest, hk⟩ := chunks_cons_head p d ds
      rw [hk] at ih
      rw [chunks_cons_cons _ c d ds e rest hk]
      split
      · rename_i hpc
        simp only [beq_iff_eq] at hpc
        cases rest with
        | nil => simp [Alternating]
        | cons r rs =>
          simp only [Alternating] at ih ⊢
          exact ⟨by simpa [hpc] using ih.1, ih.2⟩
      · rename_i hpc
        simp only [Alternating]
        refine ⟨?_, ih⟩
        simpa using hpc

/-! ## fixed points of `canon` on ASCII strings -/

/-- `s` is what collapsing and ASCII lower-casing leave unchanged, scanning with the flag
"the previous character was a separator" -/
def G : Str → Bool → Bool
  | [], _ => true
  | c :: cs, b => if isSep c then (!b && c == 45 && G cs true) else (lowerAscii c == c && G cs false)

theorem collapseAux_length_le (s : Str) (b : Bool) : (collapseAux s b).length ≤ s.length := by
  induction s generalizing b with
  | nil => simp [collapseAux]
  | cons c cs ih =>
    simp only [collapseAux]
    split
    · split
      · have := ih true; simp only [List.length_cons]; omega
      · have := ih true; simp only [List.length_cons]; omega
    · have := ih false; simp only [List.length_cons]; omega

theorem collapseAux_ascii (s : Str) (b : Bool) (hs : ∀ c ∈ s, c < 128) : ∀ x ∈ collapseAux s b, x < 128 := by
  induction s generalizing b with
  | nil => simp [collapseAux]
  | cons c cs ih =>
    have hcs : ∀ c ∈ cs, c < 128 := fun x hx => hs x (by simp [hx])
    simp only [collapseAux]
    split
    · split
      · exact ih true hcs
      · intro x hx; simp only [List.mem_cons] at hx
        rcases hx with rfl | hx
        · omega
        · exact ih true hcs x hx
    · intro x hx; simp only [List.mem_cons] at hx
      rcases hx with rfl | hx
      · exact hs _ (by simp)
      · exact ih false hcs x hx

theorem lower_length_ascii (t : Str) (ht : ∀ c ∈ t, c < 128) : (lower t).length = t.length := by
  induction t with
  | nil => rfl
  | cons c cs ih =>
    have hc : c < 128 := ht c (by simp)
    rw [lower_cons]
    simp [lowerCp, hc, ih (fun x hx => ht x (by simp [hx]))]

theorem canon_fixed_aux (s : Str) (hs : ∀ c ∈ s, c < 128) (b : Bool) :
    (lower (collapseAux s b) == s) = G s b := by
  induction s generalizing b with
  | nil => simp [collapseAux, lower, G]
  | cons c cs ih =>
    have hc : c < 128 := hs c (by simp)
    have hcs : ∀ c ∈ cs, c < 128 := fun x hx => hs x (by simp [hx])
    cases h : isSep c
    · simp only [collapseAux, G, h, Bool.false_eq_true, ite_false]
      rw [lower_cons, ← ih hcs false]
      simp [lowerCp, hc]
    · cases b
      · have h45 : lowerCp 45 = [45] := lowerCp_sep 45 (by decide)
        simp only [collapseAux, G, h, ite_true, Bool.false_eq_true, ite_false, Bool.not_false, Bool.true_and]
        rw [lower_cons, h45, ← ih hcs true]
        simp only [List.singleton_append]
        cases hh : (c == 45)
        · simp only [beq_eq_false_iff_ne, ne_eq] at hh
          simp; intro h'; exact absurd h'.symm hh
        · simp only [beq_iff_eq] at hh; subst hh; simp
      · simp only [collapseAux, G, h, ite_true, Bool.not_true, Bool.false_and]
        have h1 := collapseAux_length_le cs true
        have h2 := lower_length_ascii _ (collapseAux_ascii cs true hcs)
        cases hh : (lower (collapseAux cs true) == c :: cs)
        · rfl
        · simp only [beq_iff_eq] at hh
          have := congrArg List.length hh
          simp only [List.length_cons] at this
          omega

/-- on an ASCII string, being a fixed point of `canonicalize_name` is the scan `G` -/
theorem canon_fixed_iff (s : Str) (hs : ∀ c ∈ s, c < 128) : (canon s == s) = G s false :=
  canon_fixed_aux s hs false

end Names
