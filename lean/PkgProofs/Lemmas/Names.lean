import PkgModel.Names
import PkgModel.Spec.Names
/-! helper lemmas for C13 / C14: separators, the generated lower-casing table, `collapse`, `chunks` -/
namespace Names
open Py

theorem separators_eq : Gen.NameTables.separators = [45, 46, 95] := by decide

theorem isSep_iff (c : Nat) : isSep c = true ↔ c = 45 ∨ c = 46 ∨ c = 95 := by
  simp [isSep, separators_eq, List.contains_cons]
  omega

theorem isSep_eq_spec (c : Nat) : isSep c = NameSpec.isSep c := by
  rw [Bool.eq_iff_iff, isSep_iff]
  simp [NameSpec.isSep]
  omega

theorem isSep_lt (c : Nat) (h : isSep c = true) : c < 128 := by
  rw [isSep_iff] at h; omega

/-! ## the lower-casing table -/

/-- a code point that is not a separator and is its own lower case -/
def good1 (x : Nat) : Bool := !isSep x && lowerCp x == [x]

def runOk (r : Nat × Nat × Nat × Nat) : Bool :=
  (List.range (r.2.1 - r.1 + 1)).all fun d => d % r.2.2.1 != 0 || good1 (r.2.2.2 + d)

/-- every code point the table can produce is a fixed point of `lowerCp` and no separator -/
def tableOk : Bool :=
  Gen.NameTables.lowerRuns.all runOk &&
  Gen.NameTables.lowerSpecial.all fun kv => !kv.2.isEmpty && kv.2.all good1

theorem tableOk_true : tableOk = true := by decide +kernel

end Names
