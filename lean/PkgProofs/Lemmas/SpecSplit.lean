import PkgModel.Specifier
import PkgProofs.Lemmas.Dec
import PkgProofs.Lemmas.ScanBasic
import PkgModel.Spec.Admits
/-!
# `_version_split` of a rendered version, and `_pad_version` on such token lists

`versionSplit v.public = dec epoch :: release.map dec ++ suffix tokens`, the suffix tokens being
`a1`/`b2`/`rc3`, `post4`, `dev5` — none of them a digit string, all of them "suffixes" for `_is_not_suffix`.
-/
namespace SS
open Py V S

/-! ### `str.split` / `str.rpartition` on one-character separators -/

theorem splitOn_notin (sep : Nat) (x : Str) (h : sep ∉ x) : splitOn sep x = [x] := by
  induction x with
  | nil => rfl
  | cons c cs ih =>
    have hc : (c == sep) = false := by
      simp only [List.mem_cons, not_or] at h; simpa using fun e => h.1 e.symm
    have hcs : sep ∉ cs := fun hm => h (List.mem_cons_of_mem _ hm)
    simp [splitOn, hc, ih hcs]

theorem splitOn_append_sep (sep : Nat) (x rest : Str) (h : sep ∉ x) :
    splitOn sep (x ++ sep :: rest) = x :: splitOn sep rest := by
  induction x with
  | nil => simp [splitOn]
  | cons c cs ih =>
    have hc : (c == sep) = false := by
      simp only [List.mem_cons, not_or] at h; simpa using fun e => h.1 e.symm
    have hcs : sep ∉ cs := fun hm => h (List.mem_cons_of_mem _ hm)
    simp [splitOn, hc, ih hcs]

/-- `x.sep.i1.sep.i2…` splits into `x, i1, i2, …` -/
theorem splitOn_items (sep : Nat) (x : Str) (items : List Str) (hx : sep ∉ x) (hi : ∀ i ∈ items, sep ∉ i) :
    splitOn sep (x ++ (items.map (sep :: ·)).flatten) = x :: items := by
  induction items generalizing x with
  | nil => simpa using splitOn_notin sep x hx
  | cons i is ih =>
    have h1 : sep ∉ i := hi i (by simp)
    have h2 : ∀ j ∈ is, sep ∉ j := fun j hj => hi j (by simp [hj])
    simp only [List.map_cons, List.flatten_cons, List.cons_append]
    rw [splitOn_append_sep sep x _ hx, ih i h1 h2]

theorem rpartition_none (sep : Nat) (s : Str) (h : sep ∉ s) : rpartition sep s = ([], false, s) := by
  have hall : ∀ a ∈ s.reverse, (a != sep) = true := by
    intro a ha; have : a ∈ s := List.mem_reverse.mp ha
    simpa using fun e : a = sep => h (e ▸ this)
  have ht : s.reverse.takeWhile (· != sep) = s.reverse := by
    have := List.takeWhile_append_of_pos (p := (· != sep)) (l₁ := s.reverse) (l₂ := []) hall
    simpa using this
  simp [rpartition, ht]

theorem rpartition_last (sep : Nat) (a b : Str) (hb : sep ∉ b) :
    rpartition sep (a ++ sep :: b) = (a, true, b) := by
  have hall : ∀ x ∈ b.reverse, (x != sep) = true := by
    intro x hx; have : x ∈ b := List.mem_reverse.mp hx
    simpa using fun e : x = sep => hb (e ▸ this)
  have hrev : (a ++ sep :: b).reverse = b.reverse ++ sep :: a.reverse := by simp
  have ht : (b.reverse ++ sep :: a.reverse).takeWhile (· != sep) = b.reverse := by
    rw [List.takeWhile_append_of_pos hall]; simp
  simp only [rpartition, hrev, ht]
  have hlen : (b.reverse.length == (b.reverse ++ sep :: a.reverse).length) = false := by
    simp
  rw [hlen]
  simp only [Bool.false_eq_true, if_false, List.reverse_reverse]
  have : List.drop (b.reverse.length + 1) (b.reverse ++ sep :: a.reverse) = a.reverse := by
    rw [List.drop_append]; simp
  rw [this, List.reverse_reverse]

/-! ### digit strings -/

theorem digits_notin (s : Str) (h : ∀ c ∈ s, isDigit c = true) (x : Nat) (hx : isDigit x = false) : x ∉ s :=
  fun hm => by rw [h x hm] at hx; cases hx

theorem dec_notin (n x : Nat) (hx : isDigit x = false) : x ∉ dec n := digits_notin _ (dec_digits n) x hx

theorem dec_zero : dec 0 = [48] := by decide

theorem isDigitStr_dec (n : Nat) : isDigitStr (dec n) = true := by
  have h1 : (dec n).isEmpty = false := by cases h : dec n <;> simp_all [dec_ne_nil]
  have h2 : (dec n).all isDigit = true := List.all_eq_true.mpr (dec_digits n)
  simp [isDigitStr, h1, h2]

theorem isDigitStr_nondigit_head (c : Nat) (t : Str) (hc : isDigit c = false) : isDigitStr (c :: t) = false := by
  simp [isDigitStr, hc]

/-! ### the suffix tokens -/

def preTok : Option (PreL × Nat) → List Str
  | some (l, n) => [l.str ++ dec n]
  | none => []
def postTok : Option Nat → List Str
  | some n => [ofString "post" ++ dec n]
  | none => []
def devTok : Option Nat → List Str
  | some n => [ofString "dev" ++ dec n]
  | none => []

/-- the tokens after the release in `_version_split(str(v.public))` -/
def sufToks (v : Ver) : List Str := preTok v.pre ++ postTok v.post ++ devTok v.dev

/-- the token `_version_split` makes of one dot-separated item -/
def itemToks (item : Str) : List Str :=
  match prefixRegex item with
  | some (a, b) => [a, b]
  | none => [item]

theorem versionSplit_eq (s : Str) :
    versionSplit s = (if (rpartition 33 s).1.isEmpty then [48] else (rpartition 33 s).1) ::
      (splitOn 46 (rpartition 33 s).2.2).flatMap itemToks := by
  simp only [versionSplit, itemToks]
  rfl


theorem pr_unfold (item : Str) (hl : (item.getLast? == some 10) = false) :
    prefixRegex item =
      (if (spanDigits item).1.isEmpty then none else
        match (match (spanDigits item).2 with
          | 97 :: t => some ([97], t)
          | 98 :: t => some ([98], t)
          | 99 :: t => some ([99], t)
          | 114 :: 99 :: t => some ([114, 99], t)
          | _ => (none : Option (Str × Str))) with
        | none => none
        | some (l, t) =>
          if (spanDigits t).1.isEmpty || !(spanDigits t).2.isEmpty then none
          else some ((spanDigits item).1, l ++ (spanDigits t).1)) := by
  unfold prefixRegex
  simp only [hl, Bool.false_eq_true, if_false]
  rfl

theorem last_dec (pre : Str) (n : Nat) : ((pre ++ dec n).getLast? == some 10) = false := by
  rw [List.getLast?_append]
  cases h : (dec n).getLast? with
  | none => simp [dec_ne_nil] at h
  | some d =>
    obtain ⟨ys, hys⟩ := List.getLast?_eq_some_iff.mp h
    have hd := dec_digits n d (by simp [hys])
    have : d ≠ 10 := by intro e; subst e; simp [isDigit] at hd
    simp [this]

theorem spanDigits_dec_nil (n : Nat) : spanDigits (dec n) = (dec n, []) := by
  have := spanDigits_dec n [] (by simp)
  simpa using this

theorem dec_isEmpty (n : Nat) : (dec n).isEmpty = false := by
  cases h : dec n <;> simp_all [dec_ne_nil]

theorem pr_dec (n : Nat) : prefixRegex (dec n) = none := by
  have h := pr_unfold (dec n) (by simpa using last_dec [] n)
  rw [h, spanDigits_dec_nil]; simp [dec_isEmpty]

theorem pr_pre (a : Nat) (l : PreL) (n : Nat) :
    prefixRegex (dec a ++ (l.str ++ dec n)) = some (dec a, l.str ++ dec n) := by
  have hl : ((dec a ++ (l.str ++ dec n)).getLast? == some 10) = false := by
    have := last_dec (dec a ++ l.str) n; simpa using this
  have hs : spanDigits (dec a ++ (l.str ++ dec n)) = (dec a, l.str ++ dec n) :=
    spanDigits_dec a _ (by intro c hc; cases l <;> simp [PreL.str, ofString] at hc <;> subst hc <;> decide)
  rw [pr_unfold _ hl, hs]
  cases l <;> simp [PreL.str, ofString, dec_isEmpty, spanDigits_dec_nil]

theorem pr_nondigit (c : Nat) (t : Str) (n : Nat) (hc : isDigit c = false) :
    prefixRegex (c :: t ++ dec n) = none := by
  have hl := last_dec (c :: t) n
  rw [pr_unfold _ hl]
  simp [spanDigits, hc]

theorem itemToks_dec (n : Nat) : itemToks (dec n) = [dec n] := by simp [itemToks, pr_dec]

theorem itemToks_pre (a : Nat) (l : PreL) (n : Nat) :
    itemToks (dec a ++ (l.str ++ dec n)) = [dec a, l.str ++ dec n] := by simp [itemToks, pr_pre]

theorem itemToks_nondigit_head (c : Nat) (t : Str) (n : Nat) (hc : isDigit c = false) :
    itemToks (c :: t ++ dec n) = [c :: t ++ dec n] := by rw [itemToks, pr_nondigit c t n hc]

/-- tokens of `dec a ++ pre-release text` -/
theorem itemToks_last (a : Nat) (p : Option (PreL × Nat)) :
    itemToks (dec a ++ (match p with | some (l, n) => l.str ++ dec n | none => [])) = dec a :: preTok p := by
  cases p with
  | none => simpa [preTok] using itemToks_dec a
  | some q => obtain ⟨l, n⟩ := q; simpa [preTok] using itemToks_pre a l n

def preText (p : Option (PreL × Nat)) : Str := match p with | some (l, n) => l.str ++ dec n | none => []

theorem dot_notin_preText (p : Option (PreL × Nat)) : 46 ∉ preText p := by
  cases p with
  | none => simp [preText]
  | some q =>
    obtain ⟨l, n⟩ := q
    simp only [preText, List.mem_append, not_or]
    exact ⟨by cases l <;> simp [PreL.str, ofString], dec_notin n 46 (by decide)⟩

theorem bang_notin_preText (p : Option (PreL × Nat)) : 33 ∉ preText p := by
  cases p with
  | none => simp [preText]
  | some q =>
    obtain ⟨l, n⟩ := q
    simp only [preText, List.mem_append, not_or]
    exact ⟨by cases l <;> simp [PreL.str, ofString], dec_notin n 33 (by decide)⟩

/-- the dot-separated items after the release: `post4`, `dev5` -/
def tailItems (v : Ver) : List Str := postTok v.post ++ devTok v.dev

theorem tailItems_notin (v : Ver) (x : Nat) (hx : isDigit x = false)
    (hp : x ∉ ofString "post") (hd : x ∉ ofString "dev") : ∀ i ∈ tailItems v, x ∉ i := by
  intro i hi
  simp only [tailItems, List.mem_append] at hi
  rcases hi with hi | hi
  · cases hpo : v.post with
    | none => simp [hpo, postTok] at hi
    | some n =>
      simp only [hpo, postTok, List.mem_singleton] at hi; subst hi
      simp only [List.mem_append, not_or]; exact ⟨hp, dec_notin n x hx⟩
  · cases hde : v.dev with
    | none => simp [hde, devTok] at hi
    | some n =>
      simp only [hde, devTok, List.mem_singleton] at hi; subst hi
      simp only [List.mem_append, not_or]; exact ⟨hd, dec_notin n x hx⟩

theorem flatMap_tailItems (v : Ver) : (tailItems v).flatMap itemToks = tailItems v := by
  have hp : ∀ n, itemToks (ofString "post" ++ dec n) = [ofString "post" ++ dec n] := fun n =>
    itemToks_nondigit_head 112 [111, 115, 116] n (by decide)
  have hd : ∀ n, itemToks (ofString "dev" ++ dec n) = [ofString "dev" ++ dec n] := fun n =>
    itemToks_nondigit_head 100 [101, 118] n (by decide)
  cases hpo : v.post <;> cases hde : v.dev <;> simp [tailItems, postTok, devTok, hpo, hde, hp, hd]

/-- `Version.public` after the epoch, as release text ++ pre-release text ++ `.post4.dev5` -/
theorem public_shape (v : Ver) :
    v.public = (if v.epoch != 0 then dec v.epoch ++ [33] else []) ++
      (renderRelease v.release ++ preText v.pre ++ ((tailItems v).map (46 :: ·)).flatten) := by
  simp only [Ver.public, Ver.base, preText, tailItems]
  cases hpre : v.pre <;> cases hpo : v.post <;> cases hde : v.dev <;>
    simp [postTok, devTok, ofString, List.append_assoc]

theorem renderRelease_cons2 (a b : Nat) (rs : List Nat) :
    renderRelease (a :: b :: rs) = dec a ++ 46 :: renderRelease (b :: rs) := by
  simp [renderRelease, join]

/-- splitting the part after the epoch -/
theorem split_rest (r : List Nat) (hr : r ≠ []) (p : Option (PreL × Nat)) (items : List Str)
    (hi : ∀ i ∈ items, 46 ∉ i) (hf : items.flatMap itemToks = items) :
    (splitOn 46 (renderRelease r ++ preText p ++ (items.map (46 :: ·)).flatten)).flatMap itemToks =
      r.map dec ++ preTok p ++ items := by
  cases r with
  | nil => exact absurd rfl hr
  | cons a rs =>
    induction rs generalizing a with
    | nil =>
      have hx : 46 ∉ dec a ++ preText p := by
        simp only [List.mem_append, not_or]; exact ⟨dec_notin a 46 (by decide), dot_notin_preText p⟩
      have : renderRelease [a] = dec a := by simp [renderRelease, join]
      rw [this, splitOn_items 46 _ items hx hi, List.flatMap_cons, hf]
      have := itemToks_last a p
      simp only [preText] at this ⊢
      rw [this]; simp
    | cons b rs ih =>
      rw [renderRelease_cons2]
      simp only [List.append_assoc, List.cons_append]
      rw [splitOn_append_sep 46 _ _ (dec_notin a 46 (by decide)), List.flatMap_cons, itemToks_dec]
      have := ih b (by simp)
      simp only [List.append_assoc] at this
      rw [this]; simp

theorem bang_notin_release (r : List Nat) : 33 ∉ renderRelease r := by
  induction r with
  | nil => simp [renderRelease, join]
  | cons a rs ih =>
    cases rs with
    | nil => simpa [renderRelease, join] using dec_notin a 33 (by decide)
    | cons b rs =>
      rw [renderRelease_cons2]
      simp only [List.mem_append, List.mem_cons, not_or]
      exact ⟨dec_notin a 33 (by decide), by decide, ih⟩

/-- **`_version_split(v.public)`** -/
theorem versionSplit_public (v : Ver) (hr : v.release ≠ []) :
    versionSplit v.public = (v.epoch :: v.release).map dec ++ sufToks v := by
  have hti : ∀ i ∈ tailItems v, 46 ∉ i :=
    tailItems_notin v 46 (by decide) (by decide) (by decide)
  have hrest : 33 ∉ renderRelease v.release ++ preText v.pre ++ ((tailItems v).map (46 :: ·)).flatten := by
    simp only [List.mem_append, not_or, List.mem_flatten, List.mem_map, not_exists, not_and]
    refine ⟨⟨bang_notin_release _, bang_notin_preText _⟩, ?_⟩
    rintro l ⟨i, hi, rfl⟩
    simp only [List.mem_cons, not_or]
    exact ⟨by decide, tailItems_notin v 33 (by decide) (by decide) (by decide) i hi⟩
  rw [versionSplit_eq, public_shape]
  simp only [List.append_assoc] at hrest
  by_cases he : v.epoch = 0
  · simp only [he, bne_self_eq_false, Bool.false_eq_true, if_false, List.nil_append]
    have hsr := split_rest v.release hr v.pre (tailItems v) hti (flatMap_tailItems v)
    simp only [List.append_assoc] at hsr ⊢
    rw [rpartition_none 33 _ hrest]
    simp only [List.isEmpty_nil, if_true]
    rw [hsr]
    simp [sufToks, tailItems, dec_zero, List.append_assoc]
  · have hne : (v.epoch != 0) = true := by simpa using he
    simp only [hne, if_true, List.append_assoc, List.singleton_append]
    rw [rpartition_last 33 _ _ hrest]
    have hde : (dec v.epoch).isEmpty = false := by cases h : dec v.epoch <;> simp_all [dec_ne_nil]
    simp only [hde, Bool.false_eq_true, if_false]
    have := split_rest v.release hr v.pre (tailItems v) hti (flatMap_tailItems v)
    simp only [List.append_assoc] at this
    rw [this]
    simp [sufToks, tailItems, List.append_assoc]

/-! ### classification of the tokens by `str.isdigit` and `_is_not_suffix` -/

theorem startsWith_append (p t : Str) : startsWith (p ++ t) p = true := by
  induction p with
  | nil => cases t <;> rfl
  | cons c cs ih => simp [startsWith, ih]

theorem isNotSuffix_dec (n : Nat) : isNotSuffix (dec n) = true := by
  obtain ⟨d, ds, h, hd⟩ := dec_head n
  have hb := digit_bounds hd
  rw [h]
  simp [isNotSuffix, ofString, startsWith]
  omega

theorem sufToks_class (v : Ver) : ∀ t ∈ sufToks v, isDigitStr t = false ∧ isNotSuffix t = false := by
  intro t ht
  simp only [sufToks, List.mem_append] at ht
  rcases ht with (ht | ht) | ht
  · cases hp : v.pre with
    | none => simp [hp, preTok] at ht
    | some q =>
      obtain ⟨l, n⟩ := q
      simp only [hp, preTok, List.mem_singleton] at ht; subst ht
      cases l <;> simp [PreL.str, ofString, isDigitStr, isDigit, isNotSuffix, startsWith]
  · cases hp : v.post with
    | none => simp [hp, postTok] at ht
    | some n =>
      simp only [hp, postTok, List.mem_singleton] at ht; subst ht
      refine ⟨by simp [ofString, isDigitStr, isDigit], ?_⟩
      simp [isNotSuffix, startsWith_append]
  · cases hp : v.dev with
    | none => simp [hp, devTok] at ht
    | some n =>
      simp only [hp, devTok, List.mem_singleton] at ht; subst ht
      refine ⟨by simp [ofString, isDigitStr, isDigit], ?_⟩
      simp [isNotSuffix, startsWith_append]

theorem takeWhile_none {α} (p : α → Bool) (X : List α) (h : ∀ t ∈ X, p t = false) : X.takeWhile p = [] := by
  cases X with
  | nil => rfl
  | cons x xs => simp [List.takeWhile_cons, h x (by simp)]

theorem takeWhile_digits (l : List Nat) (X : List Str) (hX : ∀ t ∈ X, isDigitStr t = false) :
    (l.map dec ++ X).takeWhile isDigitStr = l.map dec := by
  rw [List.takeWhile_append_of_pos (by intro a ha; obtain ⟨n, _, rfl⟩ := List.mem_map.mp ha; exact isDigitStr_dec n),
    takeWhile_none _ X hX, List.append_nil]

theorem takeWhile_notSuffix (l : List Nat) (X : List Str) (hX : ∀ t ∈ X, isNotSuffix t = false) :
    (l.map dec ++ X).takeWhile isNotSuffix = l.map dec := by
  rw [List.takeWhile_append_of_pos (by intro a ha; obtain ⟨n, _, rfl⟩ := List.mem_map.mp ha; exact isNotSuffix_dec n),
    takeWhile_none _ X hX, List.append_nil]

/-! ### `_pad_version` followed by the slice and the list comparison of `_compare_equal` -/

theorem dec_beq (a b : Nat) : (dec a == dec b) = (a == b) := by
  by_cases h : a = b
  · subst h; simp
  · have h1 : dec a ≠ dec b := fun e => h (dec_inj e)
    have h2 : (a == b) = false := by simpa using h
    rw [h2]; simpa using h1

theorem nat_beq_comm (a b : Nat) : (a == b) = (b == a) := by
  by_cases h : a = b
  · subst h; rfl
  · have h1 : (a == b) = false := by simpa using h
    have h2 : (b == a) = false := by simpa using fun e : b = a => h e.symm
    rw [h1, h2]

theorem take_pad (r l : List Nat) (X : List Str) :
    ((l.map dec ++ List.replicate (r.length - l.length) [48] ++ X).take r.length == r.map dec) =
      Pep440.zeroPadPrefix r l := by
  induction r generalizing l with
  | nil => simp [Pep440.zeroPadPrefix]
  | cons a as ih =>
    cases l with
    | nil =>
      have := ih []
      simp only [List.map_nil, List.length_nil, Nat.sub_zero, List.nil_append] at this
      simp only [List.map_nil, List.length_nil, Nat.sub_zero, List.nil_append, List.length_cons,
        List.replicate_succ, List.cons_append, List.take_succ_cons, List.map_cons, List.cons_beq_cons, this,
        Pep440.zeroPadPrefix]
      rw [← dec_zero, dec_beq, nat_beq_comm]
    | cons b bs =>
      have := ih bs
      simp only [List.map_cons, List.length_cons, Nat.add_sub_add_right, List.cons_append, List.take_succ_cons,
        List.cons_beq_cons, this, Pep440.zeroPadPrefix, dec_beq]
      rw [nat_beq_comm]

/-- the whole `.*` comparison on token lists: candidate tokens `l` + suffix tokens vs. bare spec tokens `r` -/
theorem pad_take (l r : List Nat) (X : List Str) (hX : ∀ t ∈ X, isDigitStr t = false) :
    (((padVersion (l.map dec ++ X) (r.map dec)).1.take (r.map dec).length) == r.map dec) =
      Pep440.zeroPadPrefix r l := by
  have h1 := takeWhile_digits l X hX
  have h2 : (r.map dec).takeWhile isDigitStr = r.map dec := by
    have := takeWhile_digits r [] (by simp); simpa using this
  simp only [padVersion, h1, h2, List.length_map, List.drop_left' (List.length_map (as := l) dec)]
  exact take_pad r l X

end SS
