import PkgModel.Requirement
import PkgProofs.Lemmas.Ord
import PkgModel.Spec.Pep440
/-!
Lemmas for C08 (sets as lists): `sorted()` of a collection does not depend on its enumeration order,
`dedup`, set equality by mutual inclusion, sorting commutes with `map`.
(The sorting lemmas are the same statements as in the SpecifierSet lemma file of C05, kept here so that the
requirement model stands alone.)
-/
namespace ReqL
open Py Req

/-! ## sorting -/

section sorting
variable {α : Type} (le : α → α → Bool)

theorem insertSorted_perm (x : α) (l : List α) : (insertSorted le x l).Perm (x :: l) := by
  induction l with
  | nil => exact List.Perm.refl _
  | cons y ys ih =>
    simp only [insertSorted]
    split
    · exact List.Perm.refl _
    · exact ((List.Perm.cons y ih).trans (List.Perm.swap x y ys))

theorem sortBy_perm (l : List α) : (sortBy le l).Perm l := by
  induction l with
  | nil => exact List.Perm.refl _
  | cons x xs ih =>
    simp only [sortBy, List.foldr_cons]
    exact (insertSorted_perm le x _).trans (List.Perm.cons x ih)

theorem insertSorted_sorted (htot : ∀ a b, le a b = true ∨ le b a = true)
    (htr : ∀ a b c, le a b = true → le b c = true → le a c = true)
    (x : α) (l : List α) (h : l.Pairwise fun a b => le a b = true) :
    (insertSorted le x l).Pairwise fun a b => le a b = true := by
  induction l with
  | nil => simp [insertSorted]
  | cons y ys ih =>
    simp only [insertSorted]
    have hy := List.pairwise_cons.mp h
    split
    · rename_i hxy
      refine List.pairwise_cons.mpr ⟨?_, h⟩
      intro z hz
      rcases List.mem_cons.mp hz with rfl | hz
      · exact hxy
      · exact htr _ _ _ hxy (hy.1 z hz)
    · rename_i hxy
      have hyx : le y x = true := by
        rcases htot x y with h' | h'
        · exact absurd h' hxy
        · exact h'
      refine List.pairwise_cons.mpr ⟨?_, ih hy.2⟩
      intro z hz
      rcases List.mem_cons.mp ((insertSorted_perm le x ys).mem_iff.mp hz) with rfl | hz
      · exact hyx
      · exact hy.1 z hz

theorem sortBy_sorted (htot : ∀ a b, le a b = true ∨ le b a = true)
    (htr : ∀ a b c, le a b = true → le b c = true → le a c = true) (l : List α) :
    (sortBy le l).Pairwise fun a b => le a b = true := by
  induction l with
  | nil => simp [sortBy]
  | cons x xs ih =>
    simp only [sortBy, List.foldr_cons]
    exact insertSorted_sorted le htot htr x _ ih

/-- `sorted()` of a collection does not depend on the order it is enumerated in -/
theorem sortBy_perm_invariant (htot : ∀ a b, le a b = true ∨ le b a = true)
    (htr : ∀ a b c, le a b = true → le b c = true → le a c = true)
    (hanti : ∀ a b, le a b = true → le b a = true → a = b) {l l' : List α} (hp : l.Perm l') :
    sortBy le l = sortBy le l' := by
  apply List.Perm.eq_of_pairwise (le := fun a b => le a b = true)
  · intro a b _ _ hab hba; exact hanti a b hab hba
  · exact sortBy_sorted le htot htr l
  · exact sortBy_sorted le htot htr l'
  · exact (sortBy_perm le l).trans (hp.trans (sortBy_perm le l').symm)

/-- sorting the images is sorting by the pulled-back order -/
theorem sortBy_map {β : Type} (f : β → α) (l : List β) :
    sortBy le (l.map f) = (sortBy (fun a b => le (f a) (f b)) l).map f := by
  have hins : ∀ (x : β) (ys : List β),
      insertSorted le (f x) (ys.map f) = (insertSorted (fun a b => le (f a) (f b)) x ys).map f := by
    intro x ys
    induction ys with
    | nil => rfl
    | cons y ys ih =>
      simp only [List.map_cons, insertSorted]
      split
      · rfl
      · simp [ih]
  induction l with
  | nil => rfl
  | cons x xs ih =>
    simp only [List.map_cons, sortBy, List.foldr_cons] at ih ⊢
    rw [ih, hins]

end sorting

theorem strOrd_eq_lexList : ∀ a b : Str, strOrd a b = Pep440.lexList compare a b
  | [], [] => rfl
  | [], _ :: _ => rfl
  | _ :: _, [] => rfl
  | a :: as, b :: bs => by simp [strOrd, Pep440.lexList, strOrd_eq_lexList as bs]

theorem strOrd_total : O.TotalCmp strOrd := by
  have : strOrd = Pep440.lexList compare := by funext a b; exact strOrd_eq_lexList a b
  rw [this]; exact O.lexList_total O.natCmp

theorem strLe_total (a b : Str) : strLe a b = true ∨ strLe b a = true := by
  simp only [strLe]
  rw [strOrd_total.swap a b]
  cases strOrd a b <;> simp [Ordering.swap]

theorem strLe_antisymm (a b : Str) (h1 : strLe a b = true) (h2 : strLe b a = true) : a = b := by
  simp only [strLe] at h1 h2
  rw [strOrd_total.swap a b] at h2
  apply (strOrd_total.eq_iff a b).mp
  revert h1 h2
  cases strOrd a b <;> simp [Ordering.swap]

theorem strLe_trans (a b c : Str) (h1 : strLe a b = true) (h2 : strLe b c = true) : strLe a c = true := by
  simp only [strLe] at *
  cases hab : strOrd a b with
  | gt => simp [hab] at h1
  | eq => have := (strOrd_total.eq_iff a b).mp hab; subst this; exact h2
  | lt =>
    cases hbc : strOrd b c with
    | gt => simp [hbc] at h2
    | eq => have := (strOrd_total.eq_iff b c).mp hbc; subst this; simp [hab]
    | lt => simp [strOrd_total.trans a b c hab hbc]

theorem sortStr_perm_invariant {l l' : List Str} (hp : l.Perm l') : sortBy strLe l = sortBy strLe l' :=
  sortBy_perm_invariant strLe strLe_total strLe_trans strLe_antisymm hp

/-! ## `dedup` (= `set(list)` in first-insertion order) -/

theorem mem_dedup : (l : List Str) → ∀ x, x ∈ dedup l ↔ x ∈ l
  | [], x => by simp [dedup]
  | y :: ys, x => by
    simp only [dedup, List.mem_cons, List.mem_filter, mem_dedup ys, bne_iff_ne, ne_eq]
    constructor
    · rintro (h | ⟨h, _⟩)
      · exact Or.inl h
      · exact Or.inr h
    · rintro (h | h)
      · exact Or.inl h
      · by_cases e : x = y
        · exact Or.inl e
        · exact Or.inr ⟨h, e⟩

theorem nodup_dedup : (l : List Str) → (dedup l).Nodup
  | [] => by simp [dedup]
  | y :: ys => by
    simp only [dedup, List.nodup_cons, List.mem_filter, bne_self_eq_false, Bool.false_eq_true, and_false,
      not_false_eq_true, true_and]
    exact (nodup_dedup ys).filter _

theorem dedup_of_nodup : (l : List Str) → l.Nodup → dedup l = l
  | [], _ => rfl
  | y :: ys, h => by
    obtain ⟨h1, h2⟩ := List.nodup_cons.mp h
    simp only [dedup, dedup_of_nodup ys h2, List.cons.injEq, true_and]
    rw [List.filter_eq_self]
    intro a ha
    simp only [bne_iff_ne, ne_eq]
    intro e; exact h1 (e ▸ ha)

theorem dedup_idem (l : List Str) : dedup (dedup l) = dedup l := dedup_of_nodup _ (nodup_dedup l)

/-- two lists with the same elements have permutation-equal `dedup`s -/
theorem dedup_perm_of_mem_iff {l l' : List Str} (h : ∀ x, x ∈ l ↔ x ∈ l') : (dedup l).Perm (dedup l') := by
  apply (List.perm_ext_iff_of_nodup (nodup_dedup l) (nodup_dedup l')).mpr
  intro x; rw [mem_dedup, mem_dedup]; exact h x

/-- **the sorted rendering of a set only depends on its elements** -/
theorem sorted_dedup_congr {l l' : List Str} (h : ∀ x, x ∈ l ↔ x ∈ l') :
    sortBy strLe (dedup l) = sortBy strLe (dedup l') :=
  sortStr_perm_invariant (dedup_perm_of_mem_iff h)

/-! ## set equality by mutual inclusion -/

theorem setEq_iff (a b : List Str) : setEq a b = true ↔ ∀ x, x ∈ a ↔ x ∈ b := by
  simp only [setEq, Bool.and_eq_true, List.all_eq_true, List.contains_iff_mem]
  constructor
  · rintro ⟨h1, h2⟩ x; exact ⟨h1 x, h2 x⟩
  · intro h; exact ⟨fun x hx => (h x).mp hx, fun x hx => (h x).mpr hx⟩

theorem hasKey_iff (l : List S.Spec) (k : Str) : hasKey l k = true ↔ k ∈ l.map key := by
  simp only [hasKey, List.any_eq_true, beq_iff_eq, List.mem_map]

theorem specEq_iff (a b : List S.Spec) : specEq a b = true ↔ ∀ k, k ∈ a.map key ↔ k ∈ b.map key := by
  simp only [specEq, Bool.and_eq_true, List.all_eq_true, hasKey_iff]
  constructor
  · rintro ⟨h1, h2⟩ k
    constructor
    · intro hk; obtain ⟨x, hx, rfl⟩ := List.mem_map.mp hk; exact h1 x hx
    · intro hk; obtain ⟨x, hx, rfl⟩ := List.mem_map.mp hk; exact h2 x hx
  · intro h
    exact ⟨fun x hx => (h _).mp (List.mem_map_of_mem hx), fun x hx => (h _).mpr (List.mem_map_of_mem hx)⟩

end ReqL
