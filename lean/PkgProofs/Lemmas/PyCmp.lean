import PkgModel.PyObj
import PkgProofs.Lemmas.PyRt
/-!
# Python's generic comparison on the `_cmpkey` tuples = the model's `keyCmp` / `keyEq`

`PyRt.cmp` / `PyVal.eq` implement the rich-comparison protocol on ints, strings, tuples and the two sentinels
without knowing anything about versions; `V.keyCmp` / `V.keyEq` are the unrolled comparisons of the model
(`PkgModel/Version.lean`) that the order theorems (C01) are about.  They agree on every pair of keys.
-/
namespace PyRt
open Py V

def toCmp : V.Op → Cmp
  | .lt => .lt | .le => .le | .gt => .gt | .ge => .ge

/-- the answer for equal sequences -/
def V.Op.final : V.Op → Bool
  | .lt => false | .le => true | .gt => false | .ge => true

theorem onLen_zero (op : V.Op) : (toCmp op).onLen 0 0 = V.Op.final op := by cases op <;> rfl

/-! ### sequences, elementwise -/

theorem eqList_map {α} (f : α → PyVal) (eqv : α → α → Bool) (h : ∀ a b, PyVal.eq (f a) (f b) = eqv a b) (l m : List α) :
    eqList (l.map f) (m.map f) = seqEq eqv l m := by
  induction l generalizing m with
  | nil => cases m <;> simp [eqList, seqEq]
  | cons a as ih =>
    cases m with
    | nil => simp [eqList, seqEq]
    | cons b bs => simp [eqList, seqEq, h, ih]

theorem cmpSeq_map {α} (f : α → PyVal) (eqv : α → α → Bool) (opv : V.Op → α → α → Bool) (op : V.Op)
    (h : ∀ a b, PyVal.eq (f a) (f b) = eqv a b) (hc : ∀ a b, cmp (toCmp op) (f a) (f b) = .ok (opv op a b)) (l m : List α) :
    cmpSeq (toCmp op) (l.map f) (m.map f) = .ok (seqCmp eqv opv op l m) := by
  induction l generalizing m with
  | nil => cases m <;> cases op <;> simp [cmpSeq, seqCmp, Cmp.onLen, toCmp]
  | cons a as ih =>
    cases m with
    | nil => cases op <;> simp [cmpSeq, seqCmp, Cmp.onLen, toCmp]
    | cons b bs =>
      simp only [List.map_cons, cmpSeq, seqCmp, h]
      cases eqv a b
      · simp [hc]
      · simp [ih]

/-! ### slots -/

theorem natCast_beq (a b : Nat) : ((a : Int) == (b : Int)) = (a == b) := by
  by_cases h : a = b
  · subst h; simp
  · have h1 : ((a : Int) == (b : Int)) = false := by simp; omega
    have h2 : (a == b) = false := by simpa using h
    rw [h1, h2]

theorem onInt_nat (op : V.Op) (a b : Nat) : (toCmp op).onInt (a : Int) (b : Int) = op.onNat a b := by
  cases op <;> simp [Cmp.onInt, toCmp, V.Op.onNat]

theorem eq_nat (a b : Nat) : PyVal.eq (.int a) (.int b) = (a == b) := by
  simp only [eq_int]
  by_cases h : a = b
  · subst h; simp
  · have h1 : ((a : Int) == (b : Int)) = false := by simp; omega
    have h2 : (a == b) = false := by simpa using h
    rw [h1, h2]

theorem cmp_nat (op : V.Op) (a b : Nat) : cmp (toCmp op) (.int a) (.int b) = .ok (op.onNat a b) := by
  cases op <;> simp [cmp, asInt, Cmp.onInt, toCmp, V.Op.onNat]

theorem strCmp_eq (op : V.Op) (s t : Str) : PyRt.strCmp (toCmp op) s t = V.strCmp op s t := by
  induction s generalizing t with
  | nil => cases t <;> cases op <;> simp [PyRt.strCmp, V.strCmp, seqCmp, Cmp.onLen, toCmp]
  | cons a as ih =>
    cases t with
    | nil => cases op <;> simp [PyRt.strCmp, V.strCmp, seqCmp, Cmp.onLen, toCmp]
    | cons b bs =>
      simp only [PyRt.strCmp, V.strCmp, seqCmp]
      by_cases h : a = b
      · subst h; simp [ih, V.strCmp]
      · have h1 : (a == b) = false := by simpa using h
        simp only [h1, Bool.false_eq_true, if_false]
        cases op <;> simp [Cmp.onLen, toCmp, V.Op.onNat]

theorem cmp_str (op : V.Op) (s t : Str) : cmp (toCmp op) (.str s) (.str t) = .ok (V.strCmp op s t) := by
  simp [cmp, strCmp_eq]

/-- release tuples -/
theorem eq_release (a b : List Nat) : PyVal.eq (ofRelease a) (ofRelease b) = relEq a b := by
  simp only [ofRelease, PyVal.eq, relEq]
  exact eqList_map ofNat (· == ·) (fun x y => eq_nat x y) a b

theorem cmp_release (op : V.Op) (a b : List Nat) : cmp (toCmp op) (ofRelease a) (ofRelease b) = .ok (relCmp op a b) := by
  simp only [ofRelease, cmp, relCmp]
  exact cmpSeq_map ofNat (· == ·) V.Op.onNat op (fun x y => eq_nat x y) (fun x y => cmp_nat op x y) a b

/-! ### `(letter, n)`, `("post", n)`, `("dev", n)` -/

theorem preL_str_eq (x y : PreL) : (x.str == y.str) = (x == y) := by cases x <;> cases y <;> decide

theorem preL_str_cmp (op : V.Op) (x y : PreL) (h : (x == y) = false) :
    V.strCmp op x.str y.str = op.onNat x.rank y.rank := by
  cases x <;> cases y <;> cases op <;> first | (exact absurd h (by decide)) | decide

theorem eq_pre (p q : PreL × Nat) : PyVal.eq (ofPre p) (ofPre q) = preEq p q := by
  simp [ofPre, PyVal.eq, eqList, preEq, preL_str_eq, natCast_beq]

theorem cmp_pre (op : V.Op) (p q : PreL × Nat) : cmp (toCmp op) (ofPre p) (ofPre q) = .ok (preCmp op p q) := by
  simp only [ofPre, cmp, cmpSeq, eq_str, preL_str_eq, preCmp, eq_int, natCast_beq]
  cases h1 : (p.1 == q.1)
  · simp [strCmp_eq, preL_str_cmp op _ _ h1]
  · simp only [if_true]
    cases h2 : (p.2 == q.2)
    · simp [asInt, onInt_nat]
    · simp [onLen_zero]; cases op <;> rfl

theorem eq_tagged (tag : Str) (n m : Nat) :
    PyVal.eq (.tuple [.str tag, .int n]) (.tuple [.str tag, .int m]) = (n == m) := by
  simp [PyVal.eq, eqList, natCast_beq]

theorem cmp_tagged (op : V.Op) (tag : Str) (n m : Nat) :
    cmp (toCmp op) (.tuple [.str tag, .int n]) (.tuple [.str tag, .int m]) = .ok (op.onNat n m) := by
  simp only [cmp, cmpSeq, eq_str, beq_self_eq_true, if_true, eq_int, natCast_beq]
  cases h : (n == m)
  · simp [asInt, onInt_nat]
  · have : n = m := by simpa using h
    subst this
    cases op <;> simp [Cmp.onLen, toCmp, V.Op.onNat]

/-! ### local segments -/

theorem eq_kseg (a b : KSeg) : PyVal.eq (ofKSeg a) (ofKSeg b) = ksegEq a b := by
  cases a <;> cases b <;> simp [ofKSeg, PyVal.eq, eqList, ksegEq, natCast_beq]

theorem cmp_kseg (op : V.Op) (a b : KSeg) : cmp (toCmp op) (ofKSeg a) (ofKSeg b) = .ok (ksegCmp op a b) := by
  cases a with
  | num n =>
    cases b with
    | num m =>
      simp only [ofKSeg, cmp, cmpSeq, eq_int, natCast_beq, ksegCmp, eq_str, beq_self_eq_true, if_true]
      cases h : (n == m)
      · simp [asInt, onInt_nat]
      · simp [onLen_zero]; cases op <;> rfl
    | str t =>
      cases op <;> simp [ofKSeg, cmp, cmpSeq, PyVal.eq, ksegCmp, toCmp]
  | str s =>
    cases b with
    | num m => cases op <;> simp [ofKSeg, cmp, cmpSeq, PyVal.eq, ksegCmp, toCmp]
    | str t =>
      simp only [ofKSeg, cmp, cmpSeq, ksegCmp, eq_str]
      have : PyVal.eq .negInf .negInf = true := by simp [PyVal.eq]
      simp only [this, if_true]
      cases h : (s == t)
      · simp [strCmp_eq]
      · simp [onLen_zero]; cases op <;> rfl

theorem eq_loc (a b : List KSeg) : PyVal.eq (.tuple (a.map ofKSeg)) (.tuple (b.map ofKSeg)) = locEq a b := by
  simp only [PyVal.eq, locEq]
  exact eqList_map ofKSeg ksegEq eq_kseg a b

theorem cmp_loc (op : V.Op) (a b : List KSeg) :
    cmp (toCmp op) (.tuple (a.map ofKSeg)) (.tuple (b.map ofKSeg)) = .ok (locCmp op a b) := by
  simp only [cmp, locCmp]
  exact cmpSeq_map ofKSeg ksegEq ksegCmp op eq_kseg (cmp_kseg op) a b

/-! ### a slot holding a sentinel or a value -/

/-- values that are not sentinels (what the slots hold: tuples) -/
def Plain (v : PyVal) : Prop := v ≠ .negInf ∧ v ≠ .posInf

theorem eq_ext {α} (f : α → PyVal) (eqv : α → α → Bool) (hp : ∀ a, ∃ l, f a = .tuple l)
    (h : ∀ a b, PyVal.eq (f a) (f b) = eqv a b) (x y : Ext α) :
    PyVal.eq (ofExt f x) (ofExt f y) = Ext.pyEq eqv x y := by
  cases x with
  | negInf =>
    cases y with
    | negInf => simp [ofExt, Ext.pyEq, PyVal.eq]
    | posInf => simp [ofExt, Ext.pyEq, PyVal.eq]
    | val b => obtain ⟨l, hl⟩ := hp b; simp only [ofExt, hl, Ext.pyEq]; simp [PyVal.eq]
  | posInf =>
    cases y with
    | negInf => simp [ofExt, Ext.pyEq, PyVal.eq]
    | posInf => simp [ofExt, Ext.pyEq, PyVal.eq]
    | val b => obtain ⟨l, hl⟩ := hp b; simp only [ofExt, hl, Ext.pyEq]; simp [PyVal.eq]
  | val a =>
    cases y with
    | negInf => obtain ⟨l, hl⟩ := hp a; simp only [ofExt, hl, Ext.pyEq]; simp [PyVal.eq]
    | posInf => obtain ⟨l, hl⟩ := hp a; simp only [ofExt, hl, Ext.pyEq]; simp [PyVal.eq]
    | val b => simp only [ofExt, Ext.pyEq, h]

theorem cmp_ext {α} (f : α → PyVal) (opv : V.Op → α → α → Bool) (op : V.Op) (hp : ∀ a, ∃ l, f a = .tuple l)
    (hc : ∀ a b, cmp (toCmp op) (f a) (f b) = .ok (opv op a b)) (x y : Ext α) :
    cmp (toCmp op) (ofExt f x) (ofExt f y) = .ok (extCmp op opv x y) := by
  cases x with
  | negInf => cases y <;> cases op <;> simp [ofExt, cmp, extCmp, Ext.pyLt, Ext.pyLe, Ext.pyGt, Ext.pyGe, toCmp]
  | posInf => cases y <;> cases op <;> simp [ofExt, cmp, extCmp, Ext.pyLt, Ext.pyLe, Ext.pyGt, Ext.pyGe, toCmp]
  | val a =>
    obtain ⟨l, hl⟩ := hp a
    cases y with
    | negInf => cases op <;> simp [ofExt, hl, cmp, extCmp, Ext.pyLt, Ext.pyLe, Ext.pyGt, Ext.pyGe, toCmp]
    | posInf => cases op <;> simp [ofExt, hl, cmp, extCmp, Ext.pyLt, Ext.pyLe, Ext.pyGt, Ext.pyGe, toCmp]
    | val b => cases op <;> simp [ofExt, extCmp, Ext.pyLt, Ext.pyLe, Ext.pyGt, Ext.pyGe, hc] <;> exact hc a b

/-! ### the six slots together -/

theorem pre_tuple (p : PreL × Nat) : ∃ l, ofPre p = .tuple l := ⟨_, rfl⟩

theorem eq_slot_pre (x y : Ext (PreL × Nat)) : PyVal.eq (ofExt ofPre x) (ofExt ofPre y) = Ext.pyEq preEq x y :=
  eq_ext ofPre preEq pre_tuple eq_pre x y
theorem cmp_slot_pre (op : V.Op) (x y : Ext (PreL × Nat)) :
    cmp (toCmp op) (ofExt ofPre x) (ofExt ofPre y) = .ok (extCmp op preCmp x y) :=
  cmp_ext ofPre preCmp op pre_tuple (cmp_pre op) x y

theorem eq_slot_tagged (tag : Str) (x y : Ext Nat) :
    PyVal.eq (ofExt (fun (n : Nat) => .tuple [.str tag, .int n]) x) (ofExt (fun (n : Nat) => .tuple [.str tag, .int n]) y)
      = Ext.pyEq (· == ·) x y :=
  eq_ext _ (· == ·) (fun _ => ⟨_, rfl⟩) (eq_tagged tag) x y
theorem cmp_slot_tagged (op : V.Op) (tag : Str) (x y : Ext Nat) :
    cmp (toCmp op) (ofExt (fun (n : Nat) => .tuple [.str tag, .int n]) x) (ofExt (fun (n : Nat) => .tuple [.str tag, .int n]) y)
      = .ok (extCmp op V.Op.onNat x y) :=
  cmp_ext _ V.Op.onNat op (fun _ => ⟨_, rfl⟩) (cmp_tagged op tag) x y

theorem eq_slot_loc (x y : Ext (List KSeg)) :
    PyVal.eq (ofExt (fun l => .tuple (l.map ofKSeg)) x) (ofExt (fun l => .tuple (l.map ofKSeg)) y) = Ext.pyEq locEq x y :=
  eq_ext _ locEq (fun _ => ⟨_, rfl⟩) eq_loc x y
theorem cmp_slot_loc (op : V.Op) (x y : Ext (List KSeg)) :
    cmp (toCmp op) (ofExt (fun l => .tuple (l.map ofKSeg)) x) (ofExt (fun l => .tuple (l.map ofKSeg)) y)
      = .ok (extCmp op locCmp x y) :=
  cmp_ext _ locCmp op (fun _ => ⟨_, rfl⟩) (cmp_loc op) x y

/-- `key_a == key_b` -/
theorem eq_key (k l : Key) : PyVal.eq (ofKey k) (ofKey l) = keyEq k l := by
  simp only [ofKey, PyVal.eq, eqList, eq_int, natCast_beq, eq_release, eq_slot_pre, eq_slot_tagged, eq_slot_loc, keyEq,
    Bool.and_true, Bool.and_assoc]

/-- `key_a < key_b` (and `<=`, `>`, `>=`) -/
theorem cmp_key (op : V.Op) (k l : Key) : cmp (toCmp op) (ofKey k) (ofKey l) = .ok (keyCmp op k l) := by
  simp only [ofKey, cmp, cmpSeq, eq_int, natCast_beq, eq_release, eq_slot_pre, eq_slot_tagged, eq_slot_loc, keyCmp]
  cases h1 : (k.epoch == l.epoch)
  · simp [asInt, onInt_nat]
  · simp only [if_true, Bool.not_true, Bool.false_eq_true, if_false]
    cases h2 : relEq k.release l.release
    · simp [cmp_release]
    · simp only [if_true, Bool.not_true, Bool.false_eq_true, if_false]
      cases h3 : Ext.pyEq preEq k.pre l.pre
      · simp [cmp_slot_pre]
      · simp only [if_true, Bool.not_true, Bool.false_eq_true, if_false]
        cases h4 : Ext.pyEq (· == ·) k.post l.post
        · simp [cmp_slot_tagged]
        · simp only [if_true, Bool.not_true, Bool.false_eq_true, if_false]
          cases h5 : Ext.pyEq (· == ·) k.dev l.dev
          · simp [cmp_slot_tagged]
          · simp only [if_true, Bool.not_true, Bool.false_eq_true, if_false]
            cases h6 : Ext.pyEq locEq k.loc l.loc
            · simp [cmp_slot_loc]
            · simp [onLen_zero]; cases op <;> rfl

end PyRt
