import PkgProofs.Lemmas.MarkerLexParse
/-!
Lemmas for C07/C09: everything the parser returns denotes a formula, and on characters its comparisons
have canonical variables and operators.
-/
namespace MkWf
open Py Mk Pep508 MkParse MkFmt MkLex MkLexP
set_option linter.unusedSimpArgs false

/-! ### appending `op item` to a list that denotes a formula -/

theorem fOfRest_snoc (t : Str) (ht : t = s_and ∨ t = s_or) (b : M) (fb : Formula) (hb : fOfM b = some fb) :
    (r : List M) → (o : Option Formula) → (a : Formula) → (fOfRest r o a).isSome → (fOfRest (r ++ [.bool t, b]) o a).isSome
  | [], o, a, _ => by
    rcases ht with rfl | rfl
    · simp [fOfRest, hb]
    · have : (s_or == s_and) = false := by decide
      simp [fOfRest, hb, this]
  | [_], _, _, h => by simp [fOfRest] at h
  | .atom _ :: _ :: _, _, _, h => by simp [fOfRest] at h
  | .list _ :: _ :: _, _, _, h => by simp [fOfRest] at h
  | .bool s :: m :: r, o, a, h => by
    simp only [List.cons_append, fOfRest] at h ⊢
    cases hm : fOfM m with
    | none => simp [hm] at h
    | some fm =>
      simp only [hm] at h ⊢
      by_cases hs : (s == s_and) = true
      · simp only [hs, if_true] at h ⊢
        exact fOfRest_snoc t ht b fb hb r o _ h
      · simp only [hs, Bool.false_eq_true, if_false] at h ⊢
        by_cases hs2 : (s == s_or) = true
        · simp only [hs2, if_true] at h ⊢
          exact fOfRest_snoc t ht b fb hb r _ _ h
        · simp [hs2] at h

theorem fOfL_snoc (t : Str) (ht : t = s_and ∨ t = s_or) (b : M) (hb : (fOfM b).isSome) (acc : List M) (h : (fOfL acc).isSome) :
    (fOfL (acc ++ [.bool t, b])).isSome := by
  obtain ⟨fb, hfb⟩ := Option.isSome_iff_exists.mp hb
  cases acc with
  | nil => simp [fOfL] at h
  | cons m r =>
    simp only [List.cons_append, fOfL] at h ⊢
    cases hm : fOfM m with
    | none => simp [hm] at h
    | some fm =>
      simp only [hm] at h ⊢
      exact fOfRest_snoc t ht b fb hfb r none fm h

/-! ### the invariant through the recursive descent (any token stream) -/

section Generic
variable {σ : Type} (S : TS σ) (P : Atom → Prop)

/-- the texts of `BOOLOP` tokens are `and` / `or` -/
def BoolTexts : Prop := ∀ st t st', S.check .boolop st = some (t, st') → t = s_and ∨ t = s_or
/-- every comparison the item parser returns satisfies `P` -/
def ItemInv : Prop := ∀ st a st', parseItem S st = .ok (a, st') → P a

theorem parser_inv (hb : BoolTexts S) (hi : ItemInv S P) : (fuel : Nat) →
    (∀ st l st', parseMarker S fuel st = .ok (l, st') → (fOfL l).isSome ∧ ∀ a ∈ atomsL l, P a) ∧
    (∀ acc st l st', (fOfL acc).isSome → (∀ a ∈ atomsL acc, P a) → parseRest S fuel acc st = .ok (l, st') →
        (fOfL l).isSome ∧ ∀ a ∈ atomsL l, P a) ∧
    (∀ st m st', parseAtom S fuel st = .ok (m, st') → (fOfM m).isSome ∧ ∀ a ∈ atomsM m, P a)
  | 0 => by
    refine ⟨?_, ?_, ?_⟩ <;> intros <;> simp_all [parseMarker, parseRest, parseAtom]
  | f + 1 => by
    obtain ⟨ihM, ihR, ihA⟩ := parser_inv hb hi f
    refine ⟨?_, ?_, ?_⟩
    · intro st l st' h
      simp only [parseMarker, bind, Except.bind] at h
      cases ha : parseAtom S f st with
      | error e => simp [ha] at h
      | ok v =>
        obtain ⟨a, st1⟩ := v
        simp only [ha] at h
        obtain ⟨h1, h2⟩ := ihA st a st1 ha
        exact ihR [a] st1 l st' (by simpa [fOfL_single] using h1) (by simpa [atomsL] using h2) h
    · intro acc st l st' hacc hP h
      simp only [parseRest] at h
      cases hc : S.check .boolop st with
      | none =>
        simp only [hc] at h
        cases h; exact ⟨hacc, hP⟩
      | some v =>
        obtain ⟨t, st1⟩ := v
        simp only [hc, bind, Except.bind] at h
        cases ha : parseAtom S f st1 with
        | error e => simp [ha] at h
        | ok w =>
          obtain ⟨b, st2⟩ := w
          simp only [ha] at h
          obtain ⟨h1, h2⟩ := ihA st1 b st2 ha
          refine ihR (acc ++ [.bool t, b]) st2 l st' (fOfL_snoc t (hb st t st1 hc) b h1 acc hacc) ?_ h
          intro a ha'
          rw [atomsL_append] at ha'
          simp only [List.mem_append, atomsL, atomsM, List.append_nil, List.nil_append] at ha'
          rcases ha' with ha' | ha'
          · exact hP a ha'
          · exact h2 a ha'
    · intro st m st' h
      simp only [parseAtom] at h
      cases hl : S.check .lparen (consume S .ws st) with
      | some v =>
        obtain ⟨t, st1⟩ := v
        simp only [hl, bind, Except.bind] at h
        cases hm : parseMarker S f (consume S .ws st1) with
        | error e => simp [hm] at h
        | ok w =>
          obtain ⟨l, st2⟩ := w
          simp only [hm] at h
          cases hr : S.check .rparen (consume S .ws st2) with
          | none => simp [hr] at h
          | some u =>
            obtain ⟨t', st3⟩ := u
            simp only [hr, pure, Except.pure, Except.ok.injEq, Prod.mk.injEq] at h
            obtain ⟨rfl, _⟩ := h
            obtain ⟨h1, h2⟩ := ihM _ l st2 hm
            exact ⟨by simpa [fOfM] using h1, by simpa [atomsM] using h2⟩
      | none =>
        simp only [hl, bind, Except.bind] at h
        cases hit : parseItem S (consume S .ws st) with
        | error e => simp [hit] at h
        | ok w =>
          obtain ⟨a, st1⟩ := w
          simp only [hit, pure, Except.pure, Except.ok.injEq, Prod.mk.injEq] at h
          obtain ⟨rfl, _⟩ := h
          exact ⟨by simp [fOfM], by simpa [atomsM] using hi _ a st1 hit⟩

/-- **every list the parser returns denotes a formula** (on any token stream whose `BOOLOP` texts are
`and`/`or`), and all its comparisons satisfy any invariant of the item parser -/
theorem parseFull_inv (hb : BoolTexts S) (hi : ItemInv S P) (fuel : Nat) (st : σ) (l : List M)
    (h : parseFull S fuel st = .ok l) : (formulaOf l).isSome ∧ ∀ a ∈ atomsL l, P a := by
  simp only [parseFull, bind, Except.bind] at h
  cases hm : parseMarker S fuel st with
  | error e => simp [hm] at h
  | ok w =>
    obtain ⟨l', st'⟩ := w
    simp only [hm] at h
    cases he : S.check .end_ st' with
    | none => simp [he] at h
    | some _ =>
      simp only [he, pure, Except.pure, Except.ok.injEq] at h
      subst h
      exact (parser_inv S P hb hi fuel).1 st l' st' hm

end Generic


/-! ### on characters: token texts are words of the rules -/

theorem take_of_startsWith : (rest w : Str) → startsWith rest w = true → rest.take w.length = w
  | _, [], _ => by simp
  | [], _ :: _, h => by simp [startsWith] at h
  | c :: cs, p :: ps, h => by
    simp only [startsWith, Bool.and_eq_true, beq_iff_eq] at h
    simp [h.1, take_of_startsWith cs ps h.2]

theorem matchFin_some (d : Bool × List Str × Bool) (prev : Option Nat) (rest : Str) (n : Nat)
    (h : matchFin d prev rest = some n) : ∃ w ∈ d.2.1, n = w.length ∧ startsWith rest w = true := by
  rw [matchFin_eq] at h
  split at h
  · cases h
  · obtain ⟨w, hw, hf⟩ := List.exists_of_findSome?_eq_some h
    by_cases ht : altTest d.2.2 (lastOr w prev) rest w = true
    · simp only [ht, if_true, Option.some.injEq] at hf
      simp only [altTest, Bool.and_eq_true] at ht
      exact ⟨w, hw, hf.symm, ht.1⟩
    · simp [ht] at hf

theorem check_fin_text (r : Rule) (hr : r ∈ wordRules ∨ r = .lparen ∨ r = .rparen) (st : St) (t : Str) (st' : St)
    (h : charTS.check r st = some (t, st')) : t ∈ (defOf r).2.1 := by
  simp only [check_charTS, St.check] at h
  cases hm : matchRule r st.prev st.rest with
  | none => simp [hm] at h
  | some n =>
    simp only [hm, Option.some.injEq, Prod.mk.injEq] at h
    rw [matchRule_fin r hr] at hm
    obtain ⟨w, hw, rfl, hs⟩ := matchFin_some _ _ _ _ hm
    rw [← h.1, take_of_startsWith _ _ hs]
    exact hw

theorem boolTexts_char : BoolTexts charTS := by
  intro st t st' h
  have := check_fin_text .boolop (Or.inl (by decide)) st t st' h
  -- whatever the order (or number) of the alternatives in the regenerated rule: each word is one of the two
  have hw : ∀ w ∈ (defOf .boolop).2.1, w = s_and ∨ w = s_or := by decide
  exact hw _ this

/-- variables are canonical names, the operator is one of the ten -/
def VarOpCanon (a : Atom) : Prop :=
  (∀ s, a.lhs = .var s → s ∈ canonicalVars) ∧ (∀ s, a.rhs = .var s → s ∈ canonicalVars) ∧ CanonOp a.op

theorem variable_words_canonical : ∀ w ∈ Gen.MarkerTok.rVariable.2.1, ∃ c ∈ canonicalVars, processEnvVar w = .var c := by
  decide

theorem parseVar_inv (st : St) (n : Node) (st' : St) (h : parseVar charTS st = .ok (n, st')) :
    ∀ s, n = .var s → s ∈ canonicalVars := by
  simp only [parseVar] at h
  cases hv : charTS.check .variable st with
  | some v =>
    obtain ⟨t, st1⟩ := v
    simp only [hv, Except.ok.injEq, Prod.mk.injEq] at h
    have ht := check_fin_text .variable (Or.inl (by decide)) st t st1 hv
    obtain ⟨c, hc, he⟩ := variable_words_canonical t ht
    intro s hs
    rw [← h.1, he] at hs
    cases hs; exact hc
  | none =>
    simp only [hv] at h
    cases hq : charTS.check .quoted st with
    | none => simp [hq] at h
    | some v =>
      obtain ⟨t, st1⟩ := v
      simp only [hq] at h
      cases hp : pyStrLit t with
      | error e => simp [hp] at h
      | ok val =>
        simp only [hp, Except.ok.injEq, Prod.mk.injEq] at h
        intro s hs; rw [← h.1] at hs; cases hs

theorem parseOp_inv (st : St) (o : Str) (st' : St) (h : parseOp charTS st = .ok (o, st')) : CanonOp o := by
  simp only [parseOp] at h
  cases h1 : charTS.check .kwIn st with
  | some v =>
    simp only [h1, Except.ok.injEq, Prod.mk.injEq] at h
    exact Or.inr (Or.inl h.1.symm)
  | none =>
    simp only [h1] at h
    cases h2 : charTS.check .kwNot st with
    | some v =>
      obtain ⟨t, st1⟩ := v
      simp only [h2] at h
      cases h3 : charTS.check .ws st1 with
      | none => simp [h3] at h
      | some v3 =>
        obtain ⟨t3, st3⟩ := v3
        simp only [h3] at h
        cases h4 : charTS.check .kwIn st3 with
        | none => simp [h4] at h
        | some v4 =>
          simp only [h4, Except.ok.injEq, Prod.mk.injEq] at h
          exact Or.inr (Or.inr h.1.symm)
    | none =>
      simp only [h2] at h
      cases h5 : charTS.check .op st with
      | none => simp [h5] at h
      | some v5 =>
        obtain ⟨t5, st5⟩ := v5
        simp only [h5, Except.ok.injEq, Prod.mk.injEq] at h
        have := check_fin_text .op (Or.inl (by decide)) st t5 st5 h5
        rw [← h.1]; exact Or.inl this

theorem itemInv_char : ItemInv charTS VarOpCanon := by
  intro st a st' h
  simp only [parseItem, bind, Except.bind] at h
  cases h1 : parseVar charTS (consume charTS .ws st) with
  | error e => simp [h1] at h
  | ok v1 =>
    obtain ⟨l, s1⟩ := v1
    simp only [h1] at h
    cases h2 : parseOp charTS (consume charTS .ws s1) with
    | error e => simp [h2] at h
    | ok v2 =>
      obtain ⟨o, s2⟩ := v2
      simp only [h2] at h
      cases h3 : parseVar charTS (consume charTS .ws s2) with
      | error e => simp [h3] at h
      | ok v3 =>
        obtain ⟨r, s3⟩ := v3
        simp only [h3, pure, Except.pure, Except.ok.injEq, Prod.mk.injEq] at h
        obtain ⟨rfl, _⟩ := h
        exact ⟨parseVar_inv _ l s1 h1, parseVar_inv _ r s3 h3, parseOp_inv _ o s2 h2⟩

/-- **every marker the real parser accepts denotes a formula, and its comparisons use canonical variable
names and one of the ten operators** -/
theorem parse_wf (src : Str) (l : List M) (h : parse src = .ok l) :
    (formulaOf l).isSome ∧ ∀ a ∈ atomsL l, VarOpCanon a :=
  parseFull_inv charTS VarOpCanon boolTexts_char itemInv_char _ _ l h

end MkWf
