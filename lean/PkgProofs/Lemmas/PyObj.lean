import PkgModel.PyObj
import PkgProofs.Lemmas.PyRt
/-! attribute access on the records of `PkgModel/PyObj.lean` -/
namespace PyRt
open Py V

@[simp] theorem getattr_ver_version (cls : String) (v : Ver) : getattr (ofVer cls v) "_version" = .ok (ofVersionTuple v) := by rfl
@[simp] theorem getattr_ver_key (cls : String) (v : Ver) : getattr (ofVer cls v) "_key" = .ok (ofKey (cmpkey v)) := by rfl
@[simp] theorem getattr_vt_epoch (v : Ver) : getattr (ofVersionTuple v) "epoch" = .ok (.int v.epoch) := by rfl
@[simp] theorem getattr_vt_release (v : Ver) : getattr (ofVersionTuple v) "release" = .ok (ofRelease v.release) := by rfl
@[simp] theorem getattr_vt_dev (v : Ver) : getattr (ofVersionTuple v) "dev" = .ok (ofTagged (ofString "dev") v.dev) := by rfl
@[simp] theorem getattr_vt_pre (v : Ver) : getattr (ofVersionTuple v) "pre" = .ok (ofOptPre v.pre) := by rfl
@[simp] theorem getattr_vt_post (v : Ver) : getattr (ofVersionTuple v) "post" = .ok (ofTagged (ofString "post") v.post) := by rfl
@[simp] theorem getattr_vt_local (v : Ver) : getattr (ofVersionTuple v) "local" = .ok (ofLocal v.loc) := by rfl
@[simp] theorem className_ofVer (cls : String) (v : Ver) : className (ofVer cls v) = cls := by rfl

end PyRt
