import PkgModel.Rx
import PkgModel.Spec.Kinds
import PkgProofs.Lemmas.RxSound
/-!
# A regex over a class table against a hand-written deterministic automaton over character kinds

`simulates` is a kernel-evaluable check that a relation between automaton states and regex derivatives,
found by a fuel-bounded search and then re-checked, contains the start pair, agrees on acceptance and is
closed under every class.  `accepts_eq_runK` turns it into: for every string of code points, acceptance by
the regex (through its class table) equals the automaton's run on the string's character kinds.
This is the bridge from a regenerated pattern to a predicate on code points.
-/
namespace Rx
open R

/-- run of a deterministic automaton (transition `δ`, accepting states `F`) over a word of kinds -/
def runK (δ : Nat → Nat → Nat) (F : Nat → Bool) : Nat → List Nat → Bool
  | q, [] => F q
  | q, k :: w => runK δ F (δ q k) w

def memQR (p : Nat × R) : List (Nat × R) → Bool
  | [] => false
  | x :: xs => (p.1 == x.1 && beq p.2 x.2) || memQR p xs

def simOkAt (n : Nat) (kinds : List Nat) (δ : Nat → Nat → Nat) (F : Nat → Bool) (tbl : List (Nat × R))
    (qr : Nat × R) : Bool :=
  (nullable qr.2 == F qr.1) &&
  (List.range n).all fun c => memQR (δ qr.1 (kinds.getD c 0), deriv c qr.2) tbl

def simOk (n : Nat) (kinds : List Nat) (δ : Nat → Nat → Nat) (F : Nat → Bool) (tbl : List (Nat × R)) : Bool :=
  tbl.all (simOkAt n kinds δ F tbl)

def simSearch (n : Nat) (kinds : List Nat) (δ : Nat → Nat → Nat) :
    Nat → List (Nat × R) → List (Nat × R) → Option (List (Nat × R))
  | 0, _, _ => none
  | fuel+1, todo, seen =>
    match todo with
    | [] => some seen
    | p :: rest =>
      if memQR p seen then simSearch n kinds δ fuel rest seen
      else
        simSearch n kinds δ fuel
          ((List.range n).map (fun c => (δ p.1 (kinds.getD c 0), deriv c p.2)) ++ rest) (p :: seen)

def simulates (n : Nat) (kinds : List Nat) (δ : Nat → Nat → Nat) (F : Nat → Bool) (q0 : Nat) (r0 : R)
    (fuel : Nat) : Bool :=
  match simSearch n kinds δ fuel [(q0, r0)] [] with
  | some tbl => memQR (q0, r0) tbl && simOk n kinds δ F tbl
  | none => false

theorem memQR_iff (p : Nat × R) (l : List (Nat × R)) : memQR p l = true ↔ p ∈ l := by
  induction l with
  | nil => simp [memQR]
  | cons x xs ih =>
    obtain ⟨q, r⟩ := p
    obtain ⟨q', r'⟩ := x
    simp only [memQR, Bool.or_eq_true, Bool.and_eq_true, beq_iff_eq, beq_iff, ih, List.mem_cons,
      Prod.mk.injEq]

theorem simOk_sound {n : Nat} {kinds : List Nat} {δ : Nat → Nat → Nat} {F : Nat → Bool}
    {tbl : List (Nat × R)} (h : simOk n kinds δ F tbl = true) :
    ∀ (w : List Nat) (q : Nat) (r : R), (q, r) ∈ tbl → (∀ c ∈ w, c < n) →
      matchB r w = runK δ F q (w.map fun c => kinds.getD c 0) := by
  intro w
  induction w with
  | nil =>
    intro q r hm _
    have := List.all_eq_true.mp h (q, r) hm
    simp only [simOkAt, Bool.and_eq_true, beq_iff_eq] at this
    simp [matchB, runK, this.1]
  | cons c cs ih =>
    intro q r hm hw
    have := List.all_eq_true.mp h (q, r) hm
    simp only [simOkAt, Bool.and_eq_true, List.all_eq_true, List.mem_range] at this
    have hc := this.2 c (hw c (by simp))
    rw [memQR_iff] at hc
    simp only [matchB, List.map_cons, runK]
    exact ih _ _ hc (fun x hx => hw x (by simp [hx]))

theorem simulates_sound {n : Nat} {kinds : List Nat} {δ : Nat → Nat → Nat} {F : Nat → Bool} {q0 : Nat}
    {r0 : R} {fuel : Nat} (h : simulates n kinds δ F q0 r0 fuel = true) (w : List Nat)
    (hw : ∀ c ∈ w, c < n) : matchB r0 w = runK δ F q0 (w.map fun c => kinds.getD c 0) := by
  unfold simulates at h
  split at h
  · rename_i tbl _
    simp only [Bool.and_eq_true] at h
    exact simOk_sound h.2 w q0 r0 ((memQR_iff _ _).mp h.1) hw
  · simp at h

/-! ### from classes to kinds -/

theorem classOf_mem {ranges : List (Nat × Nat × Nat)} {cp c : Nat} (h : classOf ranges cp = some c) :
    ∃ lo hi, (lo, hi, c) ∈ ranges ∧ lo ≤ cp ∧ cp ≤ hi := by
  induction ranges with
  | nil => simp [classOf] at h
  | cons r rest ih =>
    obtain ⟨lo, hi, c'⟩ := r
    simp only [classOf] at h
    by_cases hin : (decide (lo ≤ cp) && decide (cp ≤ hi)) = true
    · simp only [hin, ite_true, Option.some.injEq] at h
      subst h
      simp only [Bool.and_eq_true, decide_eq_true_eq] at hin
      exact ⟨lo, hi, by simp, hin.1, hin.2⟩
    · simp only [hin] at h
      obtain ⟨lo', hi', hm, h1, h2⟩ := ih h
      exact ⟨lo', hi', by simp [hm], h1, h2⟩

theorem rangeOk_kind {kind : Nat → Nat} {kinds : List Nat} {lo hi c cp : Nat}
    (hk : ∀ cp, Kinds.kindBound ≤ cp → kind cp = Kinds.other)
    (h : Kinds.rangeOk kind kinds (lo, hi, c) = true) (h1 : lo ≤ cp) (h2 : cp ≤ hi) :
    kinds.getD c 1000 = kind cp := by
  simp only [Kinds.rangeOk, Bool.and_eq_true, Bool.or_eq_true, decide_eq_true_eq, beq_iff_eq,
    List.all_eq_true, List.mem_range] at h
  by_cases hcp : cp < Kinds.kindBound
  · have := h.2 (cp - lo) (by simp only [Kinds.kindBound] at hcp ⊢; omega)
    rw [show lo + (cp - lo) = cp by omega] at this
    exact this.symm
  · rcases h.1 with hh | hh
    · omega
    · rw [hh, hk cp (by omega)]

/-- the word of classes of a string, read through the kind table, is the string's word of kinds -/
theorem classify_kinds {kind : Nat → Nat} {n : Nat} {kinds : List Nat} {ranges : List (Nat × Nat × Nat)}
    (hc : Kinds.consistent kind n kinds ranges = true)
    (hk : ∀ cp, Kinds.kindBound ≤ cp → kind cp = Kinds.other)
    (s : List Nat) (hs : ∀ cp ∈ s, cp < 0x110000) :
    ∃ w, classify ranges s = some w ∧ (∀ c ∈ w, c < n) ∧ (w.map fun c => kinds.getD c 0) = s.map kind := by
  simp only [Kinds.consistent, Bool.and_eq_true, beq_iff_eq, List.all_eq_true] at hc
  obtain ⟨⟨hlen, ht⟩, hr⟩ := hc
  induction s with
  | nil => exact ⟨[], rfl, by simp, rfl⟩
  | cons cp cps ih =>
    obtain ⟨w, hw, hall, hmap⟩ := ih (fun x hx => hs x (by simp [hx]))
    obtain ⟨c, hcl, hcn⟩ := tiles_classOf ranges 0 cp ht (Nat.zero_le _) (hs cp (by simp))
    obtain ⟨lo, hi, hm, h1, h2⟩ := classOf_mem hcl
    have hkind := rangeOk_kind hk (hr _ hm) h1 h2
    refine ⟨c :: w, ?_, ?_, ?_⟩
    · simp only [classify] at hw ⊢
      simp [List.mapM_cons, hcl, hw]
    · intro x hx; simp at hx; rcases hx with rfl | hx
      · exact hcn
      · exact hall x hx
    · simp only [List.map_cons, hmap, List.cons.injEq, and_true]
      rw [← hkind, List.getD_eq_getElem?_getD, List.getD_eq_getElem?_getD,
        List.getElem?_eq_getElem (by omega)]
      simp

/-- acceptance of any string by the regex = the automaton's run on the string's kinds -/
theorem accepts_eq_runK {kind : Nat → Nat} {n : Nat} {kinds : List Nat} {ranges : List (Nat × Nat × Nat)}
    {δ : Nat → Nat → Nat} {F : Nat → Bool} {q0 : Nat} {r0 : R} {fuel : Nat}
    (hc : Kinds.consistent kind n kinds ranges = true)
    (hk : ∀ cp, Kinds.kindBound ≤ cp → kind cp = Kinds.other)
    (hsim : simulates n kinds δ F q0 r0 fuel = true)
    (s : List Nat) (hs : ∀ cp ∈ s, cp < 0x110000) :
    accepts ranges r0 s = runK δ F q0 (s.map kind) := by
  obtain ⟨w, hw, hall, hmap⟩ := classify_kinds hc hk s hs
  simp only [accepts, hw]
  rw [simulates_sound hsim w hall, hmap]

end Rx
