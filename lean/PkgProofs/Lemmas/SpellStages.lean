import PkgProofs.Lemmas.SpellWords
/-!
# Spellings, part 3: what follows each group, and the scanner's stages on a rendered spelling
-/
namespace Spelling
open Py V

/-! ### classes of continuations -/

/-- empty, or starts with `+` or white space: what follows the dev group -/
def K0 (s : Str) : Prop := ∀ c, s.head? = some c → c = 43 ∨ isWs c = true

/-- starts like a letter group: optional separator, then a word whose first letter is in `heads` -/
def GS (heads : List Nat) (s : Str) : Prop :=
  ∃ (sep : Sep) (w t : Str) (k : Nat) (ks : Str), s = sep.render ++ (w ++ t) ∧ lowerStr w = k :: ks ∧ k ∈ heads

/-- starts with the implicit post-release `-N` -/
def Impl (s : Str) : Prop := ∃ d t, s = 45 :: d :: t ∧ isDigit d = true

theorem K0.noLetter {s : Str} (h : K0 s) : NoLetter s := by
  intro c hc
  rcases h c hc with rfl | hw
  · decide
  · rw [lower_ws hw]; simp [isWs] at hw; omega

theorem K0.noDigit {s : Str} (h : K0 s) : NoDigit s := by
  intro c hc
  rcases h c hc with rfl | hw
  · decide
  · exact ws_not_digit hw

theorem K0.optSep_eq {s : Str} (h : K0 s) : V.optSep s = s := by
  cases s with
  | nil => rfl
  | cons c cs =>
    have : isSep c = false := by
      rcases h c rfl with rfl | hw
      · decide
      · exact isSep_not_ws hw
    simp [V.optSep, this]

theorem K0.follow {s : Str} (h : K0 s) : FollowOK s := by
  intro c hc
  have := h.noLetter c hc
  omega

theorem letter_not_digit {c k : Nat} (h : lowerAscii c = k) (hk : 97 ≤ k) : isDigit c = false := by
  cases hd : isDigit c with
  | false => rfl
  | true => rw [lowerAscii_digit hd] at h; have := digit_bounds hd; omega

theorem letter_not_sep {c k : Nat} (h : lowerAscii c = k) (hk : 97 ≤ k) : isSep c = false := by
  cases hs : isSep c with
  | false => rfl
  | true =>
    have : lowerAscii c = c := by simp [isSep] at hs; simp [lowerAscii, isUpperAscii]; omega
    simp [isSep] at hs; omega

theorem GS.stripped {heads : List Nat} {s : Str} (hh : ∀ k ∈ heads, 97 ≤ k) (h : GS heads s) :
    ∃ w t k ks, V.optSep s = w ++ t ∧ lowerStr w = k :: ks ∧ k ∈ heads := by
  obtain ⟨sep, w, t, k, ks, rfl, hw, hk⟩ := h
  refine ⟨w, t, k, ks, ?_, hw, hk⟩
  have hks : isSep k = false := by
    have := hh k hk
    simp [isSep]; omega
  exact optSep_sep_word sep w t k ks hw hks

theorem GS.noDigit {heads : List Nat} {s : Str} (hh : ∀ k ∈ heads, 97 ≤ k) (h : GS heads s) :
    NoDigit s ∧ NoDigit (V.optSep s) := by
  obtain ⟨w, t, k, ks, ho, hw, hk⟩ := h.stripped hh
  obtain ⟨sep, w', t', k', ks', rfl, hw', hk'⟩ := h
  constructor
  · cases w' with
    | nil => simp [lowerStr] at hw'
    | cons c cs =>
      simp [lowerStr] at hw'
      have := letter_not_digit hw'.1 (hh k' hk')
      cases sep <;> intro d hd <;> simp [Sep.render] at hd <;> subst hd <;> first | exact this | decide
  · rw [ho]
    cases w with
    | nil => simp [lowerStr] at hw
    | cons c cs =>
      simp [lowerStr] at hw
      intro d hd; simp at hd; subst hd
      exact letter_not_digit hw.1 (hh k hk)

theorem GS.follow {heads : List Nat} {s : Str}
    (hh : ∀ k ∈ heads, 97 ≤ k ∧ k ≠ 108 ∧ k ≠ 101 ∧ k ≠ 118 ∧ k ≠ 99) (h : GS heads s) : FollowOK s := by
  obtain ⟨sep, w, t, k, ks, rfl, hw, hk⟩ := h
  cases w with
  | nil => simp [lowerStr] at hw
  | cons c cs =>
    simp [lowerStr] at hw
    have := hh k hk
    cases sep <;> intro d hd <;> simp [Sep.render] at hd <;> subst hd
    · rw [hw.1]; omega
    all_goals decide

theorem Impl.noDigit {s : Str} (h : Impl s) : NoDigit s := by
  obtain ⟨d, t, rfl, _⟩ := h
  intro c hc; simp at hc; subst hc; decide

theorem Impl.follow {s : Str} (h : Impl s) : FollowOK s := by
  obtain ⟨d, t, rfl, _⟩ := h
  intro c hc; simp at hc; subst hc; decide

/-! ### groups -/

/-- the same group with its leading separator removed: what is left when the group before it,
written bare, has taken that separator for its own -/
def strip {W} (g : Group W) : Group W := { g with sep1 := .none }

theorem strip_facts {W} (text : W → Str) (g : Group W) :
    (strip g).ok text = g.ok text ∧ (strip g).number = g.number ∧ (strip g).kind = g.kind ∧ (strip g).bare = g.bare := by
  simp [strip, Group.ok, Group.number, Group.bare]

theorem ok_word {W} (text : W → Str) (g : Group W) (h : g.ok text = true) :
    lowerStr g.word = text g.kind ∧ ∀ d, g.num = some d → digitsOk d = true := by
  simp only [Group.ok, Bool.and_eq_true, beq_iff_eq] at h
  refine ⟨h.1, ?_⟩
  intro d hd; rw [hd] at h; exact h.2

theorem group_gs {W} (text : W → Str) (heads : List Nat) (g : Group W) (t : Str) (h : g.ok text = true)
    (ht : ∃ k ks, text g.kind = k :: ks ∧ k ∈ heads) : GS heads (g.render ++ t) := by
  obtain ⟨k, ks, hk, hm⟩ := ht
  refine ⟨g.sep1, g.word, g.sep2.render ++ (g.num.getD [] ++ t), k, ks, ?_, ?_, hm⟩
  · simp [Group.render]
  · rw [(ok_word text g h).1, hk]

theorem optSep_group {W} (text : W → Str) (g : Group W) (t : Str) (h : g.ok text = true)
    (ht : ∃ k ks, text g.kind = k :: ks ∧ 97 ≤ k) : optSep (g.render ++ t) = (strip g).render ++ t := by
  obtain ⟨k, ks, hk, hm⟩ := ht
  have hks : isSep k = false := by simp [isSep]; omega
  have := optSep_sep_word g.sep1 g.word (g.sep2.render ++ (g.num.getD [] ++ t)) k ks
    (by rw [(ok_word text g h).1, hk]) hks
  simpa [Group.render, strip, Sep.render] using this

theorem follow_sep (sep : Sep) (t : Str) (hs : sep ≠ .none) : FollowOK (sep.render ++ t) := by
  cases sep
  · exact absurd rfl hs
  all_goals intro d hd; simp [Sep.render] at hd; subst hd; decide

theorem follow_digits (d t : Str) (hd : digitsOk d = true) : FollowOK (d ++ t) := by
  obtain ⟨c, cs, rfl, hc⟩ := digits_head d hd
  intro x hx; simp at hx; subst hx
  rw [lowerAscii_digit hc]; have := digit_bounds hc; omega

/-- **one letter group**: the scanner reads the group's normal letter and number and stops right after
it — except that a bare group also swallows a separator that follows -/
theorem group_scan {α W} (kws : List (Str × α)) (a : α) (text : W → Str) (g : Group W) (rest : Str)
    (hg : g.ok text = true) (htext : ∃ k ks, text g.kind = k :: ks ∧ 97 ≤ k)
    (hk : ∀ t, FollowOK t → takeKw kws (g.word ++ t) = some (a, t))
    (h1 : NoDigit rest) (h2 : g.bare = true → NoDigit (optSep rest)) (hf : FollowOK rest) :
    scanLetterGroup kws (g.render ++ rest) = some ((a, g.number), if g.bare then optSep rest else rest) := by
  obtain ⟨hw, hnum⟩ := ok_word text g hg
  obtain ⟨k, ks, hkk, hk97⟩ := htext
  have hks : isSep k = false := by simp [isSep]; omega
  obtain ⟨sep1, kind, word, sep2, num⟩ := g
  simp only at hw hnum hk
  have hfol : FollowOK (sep2.render ++ (num.getD [] ++ rest)) := by
    by_cases hs : sep2 = .none
    · subst hs
      cases num with
      | none => simpa [Sep.render] using hf
      | some d => simpa [Sep.render] using follow_digits d rest (hnum d rfl)
    · exact follow_sep sep2 _ hs
  have e1 : optSep ((Group.mk sep1 kind word sep2 num).render ++ rest) =
      word ++ (sep2.render ++ (num.getD [] ++ rest)) := by
    have := optSep_sep_word sep1 word (sep2.render ++ (num.getD [] ++ rest)) k ks (by rw [hw, hkk]) hks
    simpa [Group.render] using this
  simp only [scanLetterGroup, e1, hk _ hfol]
  cases num with
  | some d =>
    have hd := hnum d rfl
    have e2 : optSep (sep2.render ++ (d ++ rest)) = d ++ rest := by
      cases sep2
      · simpa [Sep.render] using optSep_digits d rest hd
      all_goals simp [Sep.render, optSep, isSep]
    simp [e2, optNum_digits d rest hd h1, Group.number, Group.bare]
  | none =>
    cases sep2
    · simp [Sep.render, optNum_none _ (h2 (by simp [Group.bare])), Group.number, Group.bare]
    all_goals simp [Sep.render, optSep, isSep, optNum_none _ h1, Group.number, Group.bare]

end Spelling
