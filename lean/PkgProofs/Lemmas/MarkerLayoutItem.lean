import PkgProofs.Lemmas.MarkerLayoutLex
/-!
Lemmas for C07/C09 (character level, any layout): one comparison written with any admissible white space, either
quote style and any accepted spelling of the variable — `_parse_marker_var`, `_parse_marker_op`, `_parse_marker_item`.
-/
namespace MkLay
open Py Mk Pep508 MkParse MkFmt MkLex MkLexP MkWf
set_option linter.unusedSimpArgs false

/-! ### how a comparison is written -/

/-- how one operand is written: a variable by one of the spellings the `VARIABLE` rule accepts, a literal by
its delimiter -/
inductive NodeLay
  | spelled (s : Str)
  | quoted (q : Nat)
  deriving DecidableEq, Repr

def renderNode : Node → NodeLay → Str
  | .var _, .spelled s => s
  | .val b, .quoted q => q :: (b ++ [q])
  | _, _ => []

/-- the spelling is one `process_env_var` maps to the variable; the delimiter is `"` or `'`, does not occur in the
literal, and the literal has no backslash, CR, LF, NUL or surrogate (every PEP 508 `python_str` body qualifies) -/
def FitsNode : Node → NodeLay → Prop
  | .var v, .spelled s => s ∈ Gen.MarkerTok.rVariable.2.1 ∧ processEnvVar s = .var v
  | .val b, .quoted q => (q = 34 ∨ q = 39) ∧ b.contains q = false ∧ PlainStr b
  | _, _ => False

instance (n : Node) (L : NodeLay) : Decidable (FitsNode n L) := by
  cases n <;> cases L <;> (unfold FitsNode; infer_instance)

/-- white space may be omitted between `x` and `y` unless two word characters would meet -/
def NoMerge (x w y : Str) : Prop := w = [] → ¬ (isWordO (lastOr x none) = true ∧ isWordO y.head? = true)

instance (x w y : Str) : Decidable (NoMerge x w y) := by unfold NoMerge; infer_instance

/-- layout of one comparison: `lhs w1 op w2 rhs`, with `wn` between `not` and `in` -/
structure AtomLay where
  lhs : NodeLay
  w1 : Str
  wn : Str
  w2 : Str
  rhs : NodeLay
  deriving DecidableEq, Repr

def renderOp (op wn : Str) : Str := if op = s_not_in then s_not ++ (wn ++ s_in) else op

def renderAtom (a : Atom) (L : AtomLay) : Str :=
  renderNode a.lhs L.lhs ++ (L.w1 ++ (renderOp a.op L.wn ++ (L.w2 ++ renderNode a.rhs L.rhs)))

def FitsAtom (a : Atom) (L : AtomLay) : Prop :=
  FitsNode a.lhs L.lhs ∧ FitsNode a.rhs L.rhs ∧ CanonOp a.op ∧ WsRun L.w1 ∧ WsRun L.w2 ∧
  (a.op = s_not_in → WsRun L.wn ∧ L.wn ≠ []) ∧
  NoMerge (renderNode a.lhs L.lhs) L.w1 (renderOp a.op L.wn) ∧
  NoMerge (renderOp a.op L.wn) L.w2 (renderNode a.rhs L.rhs)

instance (a : Atom) (L : AtomLay) : Decidable (FitsAtom a L) := by unfold FitsAtom; infer_instance

/-! ### small facts about heads and last characters -/

theorem head_append_ne {a : Str} (h : a ≠ []) (b : Str) : (a ++ b).head? = a.head? := by
  cases a with
  | nil => exact absurd rfl h
  | cons _ _ => rfl

theorem lastOr_append_ne (a : Str) {b : Str} (h : b ≠ []) (p : Option Nat) : lastOr (a ++ b) p = lastOr b none := by
  rw [lastOr_append, lastOr_ne b h]

theorem head_ws (w : Str) (hw : WsRun w) (hne : w ≠ []) (K : Str) : (w ++ K).head? = some 32 ∨ (w ++ K).head? = some 9 := by
  cases w with
  | nil => exact absurd rfl hne
  | cons c t => rcases hw c (by simp) with rfl | rfl <;> simp

theorem noWsHead_of_head {K : Str} {c : Nat} (h : K.head? = some c) (h1 : c ≠ 9) (h2 : c ≠ 32) : NoWsHead K := by
  intro d hd; rw [h] at hd; cases hd; exact ⟨h1, h2⟩

theorem renderNode_head (n : Node) (L : NodeLay) (hf : FitsNode n L) :
    ∃ c t, renderNode n L = c :: t ∧
      ((c = 34 ∨ c = 39) ∨ (c ∈ [112, 111, 115, 105, 101] ∧ isWordO (lastOr (renderNode n L) none) = true)) := by
  cases n with
  | var v => cases L with
    | spelled s =>
      obtain ⟨c, t, e, hc⟩ := variable_head s hf.1
      exact ⟨c, t, e, Or.inr ⟨hc, variable_last s hf.1⟩⟩
    | quoted q => exact absurd hf (by simp [FitsNode])
  | val b => cases L with
    | spelled s => exact absurd hf (by simp [FitsNode])
    | quoted q => exact ⟨q, b ++ [q], rfl, Or.inl hf.1⟩

theorem renderNode_ne (n : Node) (L : NodeLay) (hf : FitsNode n L) : renderNode n L ≠ [] := by
  obtain ⟨c, t, e, _⟩ := renderNode_head n L hf
  rw [e]; simp

theorem letters_ne_ws : ∀ c ∈ [112, 111, 115, 105, 101, 34, 39, 61, 126, 33, 60, 62, 110, 40, 41, 97], c ≠ 9 ∧ c ≠ 32 := by decide

theorem renderNode_noWs (n : Node) (L : NodeLay) (hf : FitsNode n L) (K : Str) : NoWsHead (renderNode n L ++ K) := by
  obtain ⟨c, t, e, hc⟩ := renderNode_head n L hf
  rw [e]
  refine noWsHead_of_head (c := c) rfl ?_ ?_ <;>
    rcases hc with (rfl | rfl) | ⟨hc, _⟩ <;> first | decide | (have := letters_ne_ws c (by simp at hc ⊢; omega); omega)

/-- the operator text: its first character, and whether it is a word -/
theorem renderOp_cases (op wn : Str) (ho : CanonOp op) :
    (op ∈ Gen.MarkerTok.rOp.2.1 ∧ renderOp op wn = op) ∨ (op = s_in ∧ renderOp op wn = s_in) ∨
    (op = s_not_in ∧ renderOp op wn = s_not ++ (wn ++ s_in)) := by
  rcases ho with h | h | h
  · have := (rOp_not_kw op h).2
    have hne : op ≠ s_not_in := by simpa using this
    exact Or.inl ⟨h, by simp [renderOp, hne]⟩
  · subst h; exact Or.inr (Or.inl ⟨rfl, by simp [renderOp, show s_in ≠ s_not_in by decide]⟩)
  · subst h; exact Or.inr (Or.inr ⟨rfl, by simp [renderOp]⟩)

theorem lastOr_notin (wn : Str) : lastOr (s_not ++ (wn ++ s_in)) none = some 110 := by
  rw [lastOr_append, lastOr_append]; rfl

theorem renderOp_head (op wn : Str) (ho : CanonOp op) :
    ∃ c t, renderOp op wn = c :: t ∧ c ∈ [61, 126, 33, 60, 62, 105, 110] ∧
      (isWord c = true → isWordO (lastOr (renderOp op wn) none) = true ∧ (c = 105 ∨ c = 110)) ∧
      (isWord c = false → op ∈ Gen.MarkerTok.rOp.2.1 ∧ renderOp op wn = op ∧ isWordO (lastOr (renderOp op wn) none) = false) := by
  rcases renderOp_cases op wn ho with ⟨h, e⟩ | ⟨h, e⟩ | ⟨h, e⟩
  · obtain ⟨c, t, e', hc⟩ := op_head op h
    rw [e]
    refine ⟨c, t, e', by simp at hc ⊢; omega, ?_, fun _ => ⟨h, rfl, op_last op h⟩⟩
    intro hw
    have := notWord_punct c (by simp at hc ⊢; omega)
    rw [this] at hw; cases hw
  · rw [e]
    refine ⟨105, [110], rfl, by simp, fun _ => ⟨by decide +kernel, Or.inl rfl⟩, fun hw => ?_⟩
    have := isWord_letters 105 (by simp); rw [this] at hw; cases hw
  · rw [e]
    refine ⟨110, [111, 116] ++ (wn ++ s_in), rfl, by simp, fun _ => ⟨?_, Or.inr rfl⟩, fun hw => ?_⟩
    · rw [lastOr_notin]
      exact isWord_letters 110 (by simp)
    · have := isWord_letters 110 (by simp); rw [this] at hw; cases hw

theorem renderOp_ne (op wn : Str) (ho : CanonOp op) : renderOp op wn ≠ [] := by
  obtain ⟨c, t, e, _⟩ := renderOp_head op wn ho
  rw [e]; simp

theorem renderOp_noWs (op wn : Str) (ho : CanonOp op) (K : Str) : NoWsHead (renderOp op wn ++ K) := by
  obtain ⟨c, t, e, hc, _⟩ := renderOp_head op wn ho
  rw [e]
  have := letters_ne_ws c (by simp at hc ⊢; omega)
  exact noWsHead_of_head (c := c) rfl this.1 this.2

/-! ### `_parse_marker_var` -/

theorem quote_not_var_head (q : Nat) (hq : q = 34 ∨ q = 39) : q ∉ heads .variable := by
  intro h
  have := heads_all.2.2.2.2.2.2 q h
  rcases hq with rfl | rfl <;> simp at this

theorem parseVar_lay (n : Node) (L : NodeLay) (hf : FitsNode n L) (p : Option Nat) (K : Str)
    (hp : isWordO (renderNode n L).head? = true → isWordO p = false)
    (hK : isWordO (lastOr (renderNode n L) none) = true → K.head? ∈ varFollows) :
    parseVar charTS ⟨p, renderNode n L ++ K⟩ = .ok (n, ⟨lastOr (renderNode n L) none, K⟩) := by
  cases n with
  | var v => cases L with
    | quoted q => exact absurd hf (by simp [FitsNode])
    | spelled s =>
      obtain ⟨hs, hv⟩ := hf
      obtain ⟨c, t, e, hc⟩ := variable_head s hs
      have hp' : isWordO p = false := hp (by
        simp only [renderNode, e, List.head?_cons, isWordO]; exact isWord_letters c (by simp at hc ⊢; omega))
      have hK' := hK (variable_last s hs)
      have := check_variable s hs p hp' K hK'
      simp only [renderNode, parseVar, check_charTS, this, hv]
  | val b => cases L with
    | spelled s => exact absurd hf (by simp [FitsNode])
    | quoted q =>
      obtain ⟨hq, hb, hpl⟩ := hf
      have h1 : St.check .variable ⟨p, q :: (b ++ [q]) ++ K⟩ = none :=
        check_none_by_head .variable (by decide) _ (by
          intro c hc; simp only [List.cons_append, List.head?_cons, Option.some.injEq] at hc; subst hc
          exact quote_not_var_head _ hq)
      have h2 := check_quoted q hq b hb p K
      have h3 : lastOr (q :: (b ++ [q])) none = some q := by
        rw [show q :: (b ++ [q]) = (q :: b) ++ [q] from rfl, lastOr_append]; rfl
      simp only [renderNode, parseVar, check_charTS, h1, h2, pyStrLit_quoted q hq b hpl, h3]

/-! ### `_parse_marker_op` -/

theorem parseOp_lay (op wn : Str) (ho : CanonOp op) (hwn : op = s_not_in → WsRun wn ∧ wn ≠ []) (p : Option Nat) (K : Str)
    (hp : isWordO (renderOp op wn).head? = true → isWordO p = false)
    (hK : K.head? ∈ opFollows) (hK2 : isWordO (lastOr (renderOp op wn) none) = true → K.head? ∈ inFollows) :
    parseOp charTS ⟨p, renderOp op wn ++ K⟩ = .ok (op, ⟨lastOr (renderOp op wn) none, K⟩) := by
  rcases renderOp_cases op wn ho with ⟨h, e⟩ | ⟨h, e⟩ | ⟨h, e⟩
  · rw [e]
    obtain ⟨c, t, e', hc⟩ := op_head op h
    have n1 : St.check .kwIn ⟨p, op ++ K⟩ = none := check_none_by_head .kwIn (by decide) _ (by
      intro d hd; rw [e'] at hd; simp only [List.cons_append, List.head?_cons, Option.some.injEq] at hd; subst hd
      rw [heads_all.2.2.1]; simp at hc ⊢; omega)
    have n2 : St.check .kwNot ⟨p, op ++ K⟩ = none := check_none_by_head .kwNot (by decide) _ (by
      intro d hd; rw [e'] at hd; simp only [List.cons_append, List.head?_cons, Option.some.injEq] at hd; subst hd
      rw [heads_all.2.2.2.1]; simp at hc ⊢; omega)
    simp only [parseOp, check_charTS, n1, n2, check_op op h p K hK]
  · subst h
    rw [e] at hp hK2 ⊢
    have hp' : isWordO p = false := hp (by decide +kernel)
    have hK' := hK2 (by decide +kernel)
    simp only [parseOp, check_charTS, check_in p hp' K hK']
    rfl
  · subst h
    obtain ⟨hw, hne⟩ := hwn rfl
    rw [e] at hp ⊢
    have hp' : isWordO p = false := hp (by
      show isWordO (some 110) = true
      exact isWord_letters 110 (by simp))
    have hK' := hK2 (by rw [e, lastOr_notin]; exact isWord_letters 110 (by simp))
    have e2 : s_not ++ (wn ++ s_in) ++ K = s_not ++ (wn ++ (s_in ++ K)) := by simp
    rw [e2]
    have n1 : St.check .kwIn ⟨p, s_not ++ (wn ++ (s_in ++ K))⟩ = none := check_none_by_head .kwIn (by decide) _ (by
      intro d hd; cases hd; rw [heads_all.2.2.1]; decide)
    have c2 := check_not p hp' (wn ++ (s_in ++ K)) (by
      rcases head_ws wn hw hne (s_in ++ K) with h | h <;> rw [h] <;> simp [notFollows])
    have c3 := check_ws_run wn (s_in ++ K) hw hne (noWsHead_of_head (c := 105) rfl (by decide) (by decide)) (some 116)
    have c4 := check_in (lastOr wn (some 116)) (notWord_after_ws wn hw _ (fun h => absurd h hne)) K hK'
    simp only [parseOp, check_charTS, n1, c2, c3, c4, lastOr_notin]

/-! ### `_parse_marker_item` -/

def endFollows : List (Option Nat) := [none, some 32, some 9, some 41, some 10]

theorem endFollows_sub {x : Option Nat} (h : x ∈ endFollows) : x ∈ varFollows := by
  simp [endFollows] at h; rcases h with rfl | rfl | rfl | rfl | rfl <;> simp [varFollows]

theorem renderAtom_ne (a : Atom) (L : AtomLay) (hf : FitsAtom a L) : renderAtom a L ≠ [] := by
  have := renderNode_ne a.lhs L.lhs hf.1
  intro e; unfold renderAtom at e
  cases h : renderNode a.lhs L.lhs with
  | nil => exact this h
  | cons _ _ => rw [h] at e; cases e

theorem renderAtom_head (a : Atom) (L : AtomLay) (hf : FitsAtom a L) : (renderAtom a L).head? = (renderNode a.lhs L.lhs).head? :=
  head_append_ne (renderNode_ne a.lhs L.lhs hf.1) _

theorem renderAtom_last (a : Atom) (L : AtomLay) (hf : FitsAtom a L) (p : Option Nat) :
    lastOr (renderAtom a L) p = lastOr (renderNode a.rhs L.rhs) none := by
  unfold renderAtom
  rw [← List.append_assoc, ← List.append_assoc, ← List.append_assoc, lastOr_append_ne _ (renderNode_ne a.rhs L.rhs hf.2.1)]

theorem parseItem_lay (a : Atom) (L : AtomLay) (hf : FitsAtom a L) (p : Option Nat) (w3 K' : Str)
    (hw3 : WsRun w3) (hK' : NoWsHead K')
    (hp : isWordO (renderAtom a L).head? = true → isWordO p = false)
    (hK : isWordO (lastOr (renderAtom a L) none) = true → (w3 ++ K').head? ∈ endFollows) :
    parseItem charTS ⟨p, renderAtom a L ++ (w3 ++ K')⟩ = .ok (a, ⟨lastOr w3 (lastOr (renderAtom a L) none), K'⟩) := by
  have hlast := renderAtom_last a L hf none
  have hhead := renderAtom_head a L hf
  obtain ⟨l, o, r⟩ := a
  obtain ⟨lL, w1, wn, w2, rL⟩ := L
  obtain ⟨fl, fr, fo, hw1, hw2, hwn, m1, m2⟩ := hf
  simp only at fl fr fo hw1 hw2 hwn m1 m2 hlast hhead
  rw [hlast] at hK ⊢
  rw [hhead] at hp
  obtain ⟨co, to, eo, hco, howord, honw⟩ := renderOp_head o wn fo
  obtain ⟨cr, tr, er, hcr⟩ := renderNode_head r rL fr
  have e0 : renderAtom ⟨l, o, r⟩ ⟨lL, w1, wn, w2, rL⟩ ++ (w3 ++ K') =
      renderNode l lL ++ (w1 ++ (renderOp o wn ++ (w2 ++ (renderNode r rL ++ (w3 ++ K'))))) := by
    simp [renderAtom]
  rw [e0]
  -- the left operand
  have k1 : isWordO (lastOr (renderNode l lL) none) = true →
      (w1 ++ (renderOp o wn ++ (w2 ++ (renderNode r rL ++ (w3 ++ K'))))).head? ∈ varFollows := by
    intro hl
    by_cases hne : w1 = []
    · subst hne
      have hnw : isWord co = false := by
        cases hw : isWord co with
        | false => rfl
        | true => exact absurd ⟨hl, by rw [eo]; simpa [isWordO] using hw⟩ (m1 rfl)
      rw [List.nil_append, eo]
      simp only [List.cons_append, List.head?_cons]
      have : co ∈ [61, 126, 33, 60, 62] := by
        simp at hco ⊢
        rcases hco with h | h | h | h | h | h | h
        · omega
        · omega
        · omega
        · omega
        · omega
        · subst h; rw [isWord_letters 105 (by simp)] at hnw; cases hnw
        · subst h; rw [isWord_letters 110 (by simp)] at hnw; cases hnw
      simp at this; rcases this with rfl | rfl | rfl | rfl | rfl <;> simp [varFollows]
    · rcases head_ws w1 hw1 hne _ with h | h <;> rw [h] <;> simp [varFollows]
  have s1 : consume charTS .ws ⟨p, renderNode l lL ++ (w1 ++ (renderOp o wn ++ (w2 ++ (renderNode r rL ++ (w3 ++ K')))))⟩ = _ :=
    consume_ws_noop p _ (renderNode_noWs l lL fl _)
  have v1 := parseVar_lay l lL fl p _ hp k1
  have s2 := consume_ws_run w1 _ hw1 (renderOp_noWs o wn fo (w2 ++ (renderNode r rL ++ (w3 ++ K')))) (lastOr (renderNode l lL) none)
  -- the operator
  have po : isWordO (renderOp o wn).head? = true → isWordO (lastOr w1 (lastOr (renderNode l lL) none)) = false := by
    intro ho
    apply notWord_after_ws w1 hw1
    intro hne
    cases hw : isWordO (lastOr (renderNode l lL) none) with
    | false => rfl
    | true => exact absurd ⟨hw, ho⟩ (m1 hne)
  have k2 : (w2 ++ (renderNode r rL ++ (w3 ++ K'))).head? ∈ opFollows := by
    by_cases hne : w2 = []
    · subst hne
      rw [List.nil_append, er]
      simp only [List.cons_append, List.head?_cons]
      rcases hcr with (rfl | rfl) | ⟨h, _⟩
      · simp [opFollows]
      · simp [opFollows]
      · simp at h; rcases h with rfl | rfl | rfl | rfl | rfl <;> simp [opFollows]
    · rcases head_ws w2 hw2 hne _ with h | h <;> rw [h] <;> simp [opFollows]
  have k2' : isWordO (lastOr (renderOp o wn) none) = true → (w2 ++ (renderNode r rL ++ (w3 ++ K'))).head? ∈ inFollows := by
    intro hl
    by_cases hne : w2 = []
    · subst hne
      rw [List.nil_append, er]
      simp only [List.cons_append, List.head?_cons]
      rcases hcr with (rfl | rfl) | ⟨h, _⟩
      · simp [inFollows]
      · simp [inFollows]
      · exfalso
        refine m2 rfl ⟨hl, ?_⟩
        rw [er]; simpa [isWordO] using isWord_letters cr (by simp at h ⊢; omega)
    · rcases head_ws w2 hw2 hne _ with h | h <;> rw [h] <;> simp [inFollows]
  have v2 := parseOp_lay o wn fo hwn (lastOr w1 (lastOr (renderNode l lL) none)) _ po k2 k2'
  have s3 := consume_ws_run w2 _ hw2 (renderNode_noWs r rL fr (w3 ++ K')) (lastOr (renderOp o wn) none)
  -- the right operand
  have pr : isWordO (renderNode r rL).head? = true → isWordO (lastOr w2 (lastOr (renderOp o wn) none)) = false := by
    intro hr
    apply notWord_after_ws w2 hw2
    intro hne
    cases hw : isWordO (lastOr (renderOp o wn) none) with
    | false => rfl
    | true => exact absurd ⟨hw, hr⟩ (m2 hne)
  have v3 := parseVar_lay r rL fr (lastOr w2 (lastOr (renderOp o wn) none)) (w3 ++ K') pr (fun h => endFollows_sub (hK h))
  have s4 := consume_ws_run w3 K' hw3 hK' (lastOr (renderNode r rL) none)
  simp only [parseItem, s1, v1, bind, Except.bind, s2, v2, s3, v3, s4, pure, Except.pure]

end MkLay
