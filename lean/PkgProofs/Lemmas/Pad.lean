import PkgProofs.Lemmas.Ord
/-! comparing releases with trailing zeros stripped = comparing zero-padded releases -/
namespace Pd
open O Pep440

abbrev strip := V.dropTrailingZeros

/-- structural characterisation -/
def stripS : List Nat → List Nat
  | [] => []
  | x :: xs => match stripS xs with
    | [] => if x = 0 then [] else [x]
    | y :: ys => x :: y :: ys

theorem dropWhile_append_zero (l : List Nat) (x : Nat) :
    (l ++ [x]).dropWhile (· == 0) =
      if l.dropWhile (· == 0) = [] then (if x = 0 then [] else [x]) else l.dropWhile (· == 0) ++ [x] := by
  induction l with
  | nil => by_cases h : x = 0 <;> simp [List.dropWhile, h]
  | cons a as ih =>
    by_cases ha : a = 0
    · subst ha; simpa [List.dropWhile] using ih
    · have hb : (a == 0) = false := by simp [ha]
      simp [List.dropWhile, hb]

theorem strip_eq_stripS (l : List Nat) : strip l = stripS l := by
  induction l with
  | nil => rfl
  | cons x xs ih =>
    have : strip (x :: xs) = (((xs.reverse.dropWhile (· == 0)).reverse.reverse) ++ [x] |>.dropWhile (· == 0) |> fun _ =>
        ((xs.reverse ++ [x]).dropWhile (· == 0)).reverse) := by simp [strip, V.dropTrailingZeros]
    simp only [strip, V.dropTrailingZeros, List.reverse_cons] at *
    rw [dropWhile_append_zero]
    simp only [stripS, ← ih]
    cases h : List.dropWhile (fun x => x == 0) xs.reverse with
    | nil => by_cases hx : x = 0 <;> simp [hx]
    | cons y ys =>
      simp
      cases h2 : (ys.reverse ++ [y]) with
      | nil => simp at h2
      | cons z zs => simp

theorem padCmp_nil_left (b : List Nat) : padCmp [] b = lexList compare [] (stripS b) := by
  induction b with
  | nil => simp [padCmp, lexList, stripS]
  | cons x xs ih =>
    simp only [padCmp, stripS, ih]
    cases h : stripS xs with
    | nil =>
      by_cases hx : x = 0
      · subst hx; simp [lexList, Ordering.then]
      · have : compare 0 x = .lt := Nat.compare_eq_lt.mpr (by omega)
        simp [hx, lexList, this, Ordering.then]
    | cons y ys =>
      simp only [lexList]
      by_cases hx : x = 0
      · subst hx; simp [Ordering.then]
      · have : compare 0 x = .lt := Nat.compare_eq_lt.mpr (by omega)
        simp [this, Ordering.then]

theorem padCmp_nil_right (a : List Nat) : padCmp a [] = lexList compare (stripS a) [] := by
  induction a with
  | nil => simp [padCmp, lexList, stripS]
  | cons x xs ih =>
    simp only [padCmp, stripS, ih]
    cases h : stripS xs with
    | nil =>
      by_cases hx : x = 0
      · subst hx; simp [lexList, Ordering.then]
      · have : compare x 0 = .gt := Nat.compare_eq_gt.mpr (by omega)
        simp [hx, lexList, this, Ordering.then]
    | cons y ys =>
      simp only [lexList]
      by_cases hx : x = 0
      · subst hx; simp [Ordering.then]
      · have : compare x 0 = .gt := Nat.compare_eq_gt.mpr (by omega)
        simp [this, Ordering.then]

theorem cmp_zero_lt {y : Nat} (h : y ≠ 0) : compare 0 y = .lt := Nat.compare_eq_lt.mpr (by omega)
theorem cmp_gt_zero {x : Nat} (h : x ≠ 0) : compare x 0 = .gt := Nat.compare_eq_gt.mpr (by omega)
theorem cmp_self (x : Nat) : compare x x = .eq := Nat.compare_eq_eq.mpr rfl

theorem pad_eq_strip (a b : List Nat) : padCmp a b = lexList compare (stripS a) (stripS b) := by
  induction a generalizing b with
  | nil => simpa [stripS] using padCmp_nil_left b
  | cons x xs ih =>
    cases b with
    | nil => simpa [stripS] using padCmp_nil_right (x :: xs)
    | cons y ys =>
      simp only [padCmp, ih, stripS]
      cases h1 : stripS xs <;> cases h2 : stripS ys <;>
        by_cases hx : x = 0 <;> by_cases hy : y = 0 <;>
        simp_all [lexList, Ordering.then, cmp_zero_lt, cmp_gt_zero, cmp_self]

end Pd
