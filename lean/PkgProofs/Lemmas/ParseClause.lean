import PkgProofs.Lemmas.RxClause
import PkgProofs.Lemmas.SpellRender
import PkgProofs.Lemmas.SpellSound
/-!
# `S.parseSpec` accepts exactly: white space, operator, white space, `Body op`, white space

The model side of "the specifier scanner accepts exactly the language of the spec regex": the same
description (`RxK.Body`) that `RxK.Ctx.M_specifier_iff` gives of `Pep440Rx.specifier`, derived here from the
definition of `S.parseSpec` with the `Spelling` lemmas about `V.scanCore`.
-/
namespace RxK
open Py V Spelling

/-! ### `scanCore` against the grammar (the un-anchored core of `scan_sound`) -/

theorem scanCore_sound (t : Str) (w : Ver) (rend : Str) (hc : scanCore t = some (w, rend)) :
    ∃ sp : Spelling, Valid sp = true ∧ sp.ws1 = [] ∧ sp.ws2 = [] ∧ render sp ++ rend = t ∧ meaning sp = w := by
  rw [scanCore_eq] at hc
  obtain ⟨vv, hvv, hsv⟩ := stripV_inv t
  cases hn : optNum (stripV t) with
  | mk n0' r0 =>
    rw [hn] at hc
    cases n0' with
    | none => simp at hc
    | some n0 =>
      obtain ⟨d0, hd0, hs0, hv0⟩ := optNum_inv _ _ _ hn
      simp only at hc
      have hep : ∃ (epoch : Option Digits) (rel0 : Digits) (e f : Nat) (r : Str),
          (match epoch with | some d => digitsOk d | none => true) = true ∧ digitsOk rel0 = true ∧
          d0 ++ r0 = optR (fun d => d ++ [33]) epoch ++ (rel0 ++ r) ∧ e = (epoch.map value).getD 0 ∧
          f = value rel0 ∧ scanRest e f r = some (w, rend) := by
        cases hes : epochStep n0 r0 with
        | none => simp [hes] at hc
        | some t =>
          obtain ⟨e, f, r⟩ := t
          simp only [hes] at hc
          rcases epochStep_inv _ _ _ _ _ hes with ⟨d1, hd1, hr0, he, hf⟩ | ⟨he, hf, hr⟩
          · exact ⟨some d0, d1, e, f, r, hd0, hd1, by simp [optR, hr0], by simp [he, hv0], hf, hc⟩
          · subst hr
            exact ⟨none, d0, e, f, r, rfl, hd0, by simp [optR], by simp [he], by rw [hf, hv0], hc⟩
      obtain ⟨epoch, rel0, e, f, r, hepo, hrel0, hsplit, he, hf, hrest⟩ := hep
      obtain ⟨rels, pre, post, dev, loc, hrels, hpre, hpost, hdev, hloc, hamb, hr, hw⟩ :=
        scanRest_inv _ _ _ _ _ hrest
      refine ⟨⟨[], vv, epoch, rel0, rels, pre, post, dev, loc, []⟩, ?_, rfl, rfl, ?_, ?_⟩
      · simp only [Valid, Bool.and_eq_true, Bool.not_eq_true']
        refine ⟨⟨⟨⟨⟨⟨⟨⟨⟨⟨rfl, rfl⟩, hvv⟩, hepo⟩, hrel0⟩, hrels⟩, ?_⟩, ?_⟩, ?_⟩, ?_⟩, ?_⟩
        · cases pre with
          | none => rfl
          | some g => exact hpre g rfl
        · cases post with
          | none => rfl
          | some g => exact hpost g rfl
        · cases dev with
          | none => rfl
          | some g => exact hdev g rfl
        · cases loc with
          | none => rfl
          | some g => exact hloc g rfl
        · cases pre with
          | none => rfl
          | some g =>
            cases post with
            | none => rfl
            | some p =>
              cases p with
              | spelled _ => rfl
              | implicit n =>
                simp only [ambiguous]
                cases hb : g.bare with
                | false => rfl
                | true => exact absurd ⟨by simpa [preBare] using hb, rfl⟩ hamb
      · have e : render ⟨[], vv, epoch, rel0, rels, pre, post, dev, loc, []⟩ ++ rend =
            optR (fun c => [c]) vv ++ (optR (fun d => d ++ [33]) epoch ++ (rel0 ++ (relRender rels ++
              (optR Group.render pre ++ (optR Post.render post ++ (optR Group.render dev ++
                (optR Local.render loc ++ rend))))))) := by
          simp [render]
        rw [e, ← hr, ← hsplit, ← hs0, ← hsv]
      · rw [hw]; simp [meaning, he, hf]

/-- with nothing left over and no white space around: the whole string is a valid spelling -/
theorem scanCore_iff (t : Str) (w : Ver) :
    scanCore t = some (w, []) ↔
      ∃ sp : Spelling, Valid sp = true ∧ sp.ws1 = [] ∧ sp.ws2 = [] ∧ render sp = t ∧ meaning sp = w := by
  constructor
  · intro h
    obtain ⟨sp, h1, h2, h3, h4, h5⟩ := scanCore_sound t w [] h
    exact ⟨sp, h1, h2, h3, by simpa using h4, h5⟩
  · rintro ⟨sp, hv, h1, h2, rfl, rfl⟩
    have := core_scan sp hv
    have e : render sp = optR (fun c => [c]) sp.v ++ (optR (fun d => d ++ [33]) sp.epoch ++ (sp.rel0 ++
        (relRender sp.rels ++ (optR Group.render sp.pre ++ TP sp.post sp.dev sp.loc sp.ws2)))) := by
      simp [render, TP, TD, TL, h1]
    rw [e, this, h2]

/-! ### the characters of a version core -/

def isCoreChar (c : Nat) : Bool := isAlnumAscii c || isSep c || c == 33 || c == 43

def coreStr (s : Str) : Bool := s.all isCoreChar

theorem coreStr_append (a b : Str) : coreStr (a ++ b) = (coreStr a && coreStr b) := by simp [coreStr]

theorem coreStr_digits (d : Digits) (h : digitsOk d = true) : coreStr d = true := by
  rw [digitsOk_iff] at h
  simp only [coreStr, List.all_eq_true]
  intro c hc
  simp [isCoreChar, isAlnumAscii, h.2 c hc]

theorem coreStr_optdigits (o : Option Digits) (h : optOk digitsOk o = true) : coreStr (o.getD []) = true := by
  cases o with
  | none => rfl
  | some d => exact coreStr_digits d h

theorem coreStr_sep (s : Sep) : coreStr s.render = true := by cases s <;> decide

theorem alpha_of_lower (c : Nat) (h : isLowerAscii (lowerAscii c) = true) : isAlphaAscii c = true := by
  simp only [isLowerAscii, lowerAscii, isUpperAscii, isAlphaAscii, Bool.and_eq_true, decide_eq_true_eq,
    Bool.or_eq_true] at *
  split at h <;> omega

theorem coreStr_word (word text : Str) (h : lowerStr word = text) (ht : text.all isLowerAscii = true) :
    coreStr word = true := by
  subst h
  simp only [coreStr, lowerStr, List.all_map, List.all_eq_true, Function.comp] at *
  intro c hc
  simp [isCoreChar, isAlnumAscii, alpha_of_lower c (ht c hc)]

theorem coreStr_group {W} (text : W → Str) (ht : ∀ k, (text k).all isLowerAscii = true) (g : Group W)
    (h : g.ok text = true) : coreStr g.render = true := by
  simp only [Group.ok, Bool.and_eq_true, beq_iff_eq] at h
  simp only [Group.render, coreStr_append, Bool.and_eq_true]
  refine ⟨coreStr_sep _, coreStr_word _ _ h.1 (ht _), coreStr_sep _, ?_⟩
  cases hn : g.num with
  | none => rfl
  | some d => rw [hn] at h; exact coreStr_digits d h.2

theorem coreStr_seg (x : Str) (h : segOk x = true) : coreStr x = true := by
  simp only [segOk, Bool.and_eq_true, List.all_eq_true] at h
  simp only [coreStr, List.all_eq_true]
  intro c hc
  simp [isCoreChar, h.2 c hc]

theorem coreStr_rest (r : List (Sep × Str)) (h : r.all (fun p => p.1 != Sep.none && segOk p.2) = true) :
    coreStr (restRender r) = true := by
  induction r with
  | nil => rfl
  | cons p r ih =>
    obtain ⟨a, x⟩ := p
    simp only [List.all_cons, Bool.and_eq_true] at h
    simp only [restRender, coreStr_append, Bool.and_eq_true]
    exact ⟨coreStr_sep a, coreStr_seg x h.1.2, ih h.2⟩

theorem coreStr_rel (ds : List Digits) (h : ds.all digitsOk = true) : coreStr (relRender ds) = true := by
  induction ds with
  | nil => rfl
  | cons d ds ih =>
    simp only [List.all_cons, Bool.and_eq_true] at h
    have : relRender (d :: ds) = [46] ++ (d ++ relRender ds) := rfl
    rw [this]
    simp only [coreStr_append, Bool.and_eq_true]
    exact ⟨by decide, coreStr_digits d h.1, ih h.2⟩

/-- every character of a version without surrounding white space is alphanumeric, a separator, `!` or `+` -/
theorem core_chars (sp : Spelling) (hc : Core sp) : coreStr (render sp) = true := by
  obtain ⟨hg, h1, h2⟩ := hc
  obtain ⟨ws1, v, ep, rel0, rels, pre, post, dev, loc, ws2⟩ := sp
  cases h1; cases h2
  simp only [Grammar, Bool.and_eq_true] at hg
  obtain ⟨⟨⟨⟨⟨⟨⟨⟨⟨_, _⟩, hv⟩, hep⟩, hrel0⟩, hrels⟩, hpre⟩, hpost⟩, hdev⟩, hloc⟩ := hg
  simp only [render, coreStr_append, Bool.and_eq_true]
  refine ⟨rfl, ?_, ?_, coreStr_digits _ hrel0, coreStr_rel _ hrels, ?_, ?_, ?_, ?_, rfl⟩
  · cases v with
    | none => rfl
    | some c =>
      simp only [optOk, beq_iff_eq] at hv
      simp only [optR, coreStr, List.all_cons, List.all_nil, Bool.and_true]
      have : isAlphaAscii c = true := alpha_of_lower c (by rw [hv]; decide)
      simp [isCoreChar, isAlnumAscii, this]
  · cases ep with
    | none => rfl
    | some d =>
      simp only [optR, coreStr_append, Bool.and_eq_true]
      exact ⟨coreStr_digits d hep, by decide⟩
  · cases pre with
    | none => rfl
    | some g => exact coreStr_group _ (by intro k; cases k <;> decide) g hpre
  · cases post with
    | none => rfl
    | some p =>
      cases p with
      | implicit n =>
        have : Post.render (.implicit n) = [45] ++ n := rfl
        simp only [optR, this, coreStr_append, Bool.and_eq_true]
        exact ⟨by decide, coreStr_digits n hpost⟩
      | spelled g => exact coreStr_group _ (by intro k; cases k <;> decide) g hpost
  · cases dev with
    | none => rfl
    | some g => exact coreStr_group (fun _ : Unit => devText) (by intro k; decide) g hdev
  · cases loc with
    | none => rfl
    | some l =>
      obtain ⟨first, rest⟩ := l
      simp only [optOk, Local.ok, Bool.and_eq_true] at hloc
      have : Local.render ⟨first, rest⟩ = [43] ++ (first ++ restRender rest) := rfl
      simp only [optR, this, coreStr_append, Bool.and_eq_true]
      exact ⟨by decide, coreStr_seg _ hloc.1, coreStr_rest _ hloc.2⟩

theorem coreChar_facts (c : Nat) (h : isCoreChar c = true) : isWs c = false ∧ c ≠ 61 ∧ c ≠ 42 := by
  simp only [isCoreChar, isAlnumAscii, isDigit, isAlphaAscii, isLowerAscii, isUpperAscii, isSep, Bool.or_eq_true,
    Bool.and_eq_true, decide_eq_true_eq, beq_iff_eq] at h
  refine ⟨?_, ?_, ?_⟩
  · simp only [isWs, Bool.or_eq_false_iff, Bool.and_eq_false_iff, beq_eq_false_iff_ne, decide_eq_false_iff_not]
    omega
  · omega
  · omega

/-! ### white space and operators -/

theorem ws_all (w : Str) : w.all isSpace = true ↔ ∀ c ∈ w, isWs c = true := by
  simp [List.all_eq_true, isSpace_eq]

theorem dropWhile_ws (w x : Str) (hw : w.all isSpace = true) (hx : ∀ c, x.head? = some c → isWs c = false) :
    (w ++ x).dropWhile isWs = x := by
  induction w with
  | nil =>
    cases x with
    | nil => rfl
    | cons c cs => simp [hx c rfl]
  | cons a as ih =>
    simp only [List.all_cons, Bool.and_eq_true] at hw
    have : isWs a = true := by rw [← isSpace_eq]; exact hw.1
    simp [this, ih hw.2]

theorem dropWhile_ws_all (w : Str) (hw : w.all isSpace = true) : w.dropWhile isWs = [] := by
  simpa using dropWhile_ws w [] hw (by simp)

theorem stripBy_ws (w2 body w3 : Str) (h2 : w2.all isSpace = true) (h3 : w3.all isSpace = true)
    (hb : ∀ c ∈ body, isWs c = false) : stripBy isWs (w2 ++ (body ++ w3)) = body := by
  unfold stripBy
  cases body with
  | nil =>
    have : (w2 ++ ([] ++ w3)).all isSpace = true := by simp [h2, h3]
    rw [dropWhile_ws_all _ this]; rfl
  | cons b bs =>
    rw [dropWhile_ws w2 _ h2 (by intro c hc; simp at hc; subst hc; exact hb _ (by simp))]
    rw [List.reverse_append]
    have h3' : w3.reverse.all isSpace = true := by simpa using h3
    rw [dropWhile_ws _ _ h3' (by
      intro c hc
      have : c ∈ (b :: bs).reverse := List.mem_of_mem_head? hc
      exact hb c (by simp at this; simp; exact this.symm))]
    simp

theorem stripBy_inv (r : Str) :
    ∃ w2 w3, w2.all isSpace = true ∧ w3.all isSpace = true ∧ r = w2 ++ (stripBy isWs r ++ w3) := by
  refine ⟨r.takeWhile isWs, ((r.dropWhile isWs).reverse.takeWhile isWs).reverse, takeWhile_ws r, ?_, ?_⟩
  · have := takeWhile_ws (r.dropWhile isWs).reverse
    simpa using this
  · unfold stripBy
    rw [← List.reverse_append, List.takeWhile_append_dropWhile, List.reverse_reverse,
      List.takeWhile_append_dropWhile]

/-- the operator literals -/
def opChars : S.Op → Str
  | .compatible => [126, 61] | .eq => [61, 61] | .ne => [33, 61] | .le => [60, 61]
  | .ge => [62, 61] | .lt => [60] | .gt => [62] | .arbitrary => [61, 61, 61]

theorem str_eq (op : S.Op) : op.str = opChars op := by cases op <;> rfl

theorem takeOp_inv (s : Str) (op : S.Op) (r : Str) (h : S.takeOp s = some (op, r)) : s = op.str ++ r := by
  rw [str_eq]
  unfold S.takeOp at h
  split at h <;> simp only [Option.some.injEq, Prod.mk.injEq, reduceCtorEq] at h <;>
    (obtain ⟨rfl, rfl⟩ := h; rfl)

theorem takeOp_str (op : S.Op) (rest : Str) (h : op ≠ .arbitrary → ∀ c, rest.head? = some c → c ≠ 61) :
    S.takeOp (op.str ++ rest) = some (op, rest) := by
  rw [str_eq]
  cases op
  case arbitrary => rfl
  case compatible => rfl
  case ne => rfl
  case ge => rfl
  case eq =>
    have h := h (by decide)
    cases rest with
    | nil => rfl
    | cons c cs =>
      have hc : c ≠ 61 := h c rfl
      simp only [opChars, List.cons_append, List.nil_append]
      unfold S.takeOp
      split <;> simp_all
  case le => rfl
  case lt =>
    have h := h (by decide)
    cases rest with
    | nil => rfl
    | cons c cs =>
      have hc : c ≠ 61 := h c rfl
      simp only [opChars, List.cons_append, List.nil_append]
      unfold S.takeOp
      split <;> simp_all
  case gt =>
    have h := h (by decide)
    cases rest with
    | nil => rfl
    | cons c cs =>
      have hc : c ≠ 61 := h c rfl
      simp only [opChars, List.cons_append, List.nil_append]
      unfold S.takeOp
      split <;> simp_all

theorem op_head (op : S.Op) (rest : Str) (c : Nat) (h : (op.str ++ rest).head? = some c) : isWs c = false := by
  rw [str_eq] at h
  cases op <;> (simp only [opChars, List.cons_append, List.head?_cons, Option.some.injEq] at h; subst h; decide)

theorem endsWith_core (t : Str) (h : coreStr t = true) : endsWith t [46, 42] = false := by
  unfold endsWith
  cases hr : t.reverse with
  | nil => rfl
  | cons a as =>
    have ha : a ∈ t := by
      have : a ∈ t.reverse := by rw [hr]; simp
      simpa using this
    have := (coreChar_facts a (by simp only [coreStr, List.all_eq_true] at h; exact h a ha)).2.2
    simp [startsWith, this]

theorem endsWith_wild (t : Str) : endsWith (t ++ [46, 42]) [46, 42] = true := by
  simp [endsWith, startsWith]

theorem take_wild (t : Str) : (t ++ [46, 42]).take ((t ++ [46, 42]).length - 2) = t := by
  apply List.take_left'; simp

theorem endsWith_split (s : Str) (h : endsWith s [46, 42] = true) : ∃ t, s = t ++ [46, 42] := by
  unfold endsWith at h
  have hr : s = s.reverse.reverse := (List.reverse_reverse s).symm
  cases hs : s.reverse with
  | nil => rw [hs] at h; simp [startsWith] at h
  | cons a t1 =>
    cases t1 with
    | nil => rw [hs] at h; simp [startsWith] at h
    | cons b t2 =>
      rw [hs] at h; simp [startsWith] at h
      obtain ⟨ha, hb⟩ := h; subst ha; subst hb
      refine ⟨t2.reverse, ?_⟩
      rw [hr, hs]; simp

/-- resolving the one ambiguity keeps everything the clause forms look at -/
theorem valid_of_core (sp : Spelling) (hc : Core sp) :
    ∃ sq : Spelling, Valid sq = true ∧ Core sq ∧ render sq = render sp ∧ sq.loc = sp.loc ∧ sq.rels = sp.rels ∧
      (sp.pre = none → sq = sp) := by
  obtain ⟨h, h1, h2⟩ := hc
  by_cases ha : ambiguous sp = true
  · obtain ⟨ws1, v, ep, rel0, rels, pre, post, dev, loc, ws2⟩ := sp
    cases h1; cases h2
    simp only [ambiguous] at ha
    cases pre with
    | none => simp at ha
    | some g =>
      cases post with
      | none => simp at ha
      | some p =>
        cases p with
        | spelled _ => simp at ha
        | implicit n =>
          simp only [Group.bare, Bool.and_eq_true, beq_iff_eq, Option.isNone_iff_eq_none] at ha
          obtain ⟨sep1, k, word, sep2, num⟩ := g
          simp only at ha
          obtain ⟨rfl, rfl⟩ := ha
          simp only [Grammar, Bool.and_eq_true, optOk, Group.ok, Post.ok, beq_iff_eq] at h
          obtain ⟨⟨⟨⟨⟨⟨⟨⟨⟨hws1, hws2⟩, hv⟩, hep⟩, hrel0⟩, hrels⟩, hpre'⟩, hpost'⟩, hdev'⟩, hloc'⟩ := h
          have hg : Grammar ⟨[], v, ep, rel0, rels, some ⟨sep1, k, word, .dash, some n⟩, none, dev, loc, []⟩ = true := by
            simp only [Grammar, Bool.and_eq_true, optOk, Group.ok, beq_iff_eq]
            exact ⟨⟨⟨⟨⟨⟨⟨⟨⟨hws1, hws2⟩, hv⟩, hep⟩, hrel0⟩, hrels⟩, hpre'.1, hpost'⟩, trivial⟩, hdev'⟩, hloc'⟩
          refine ⟨⟨[], v, ep, rel0, rels, some ⟨sep1, k, word, .dash, some n⟩, none, dev, loc, []⟩, ?_,
            ⟨hg, rfl, rfl⟩, ?_, rfl, rfl, by intro h; cases h⟩
          · rw [valid_eq, hg]; rfl
          · simp [render, optR, Group.render, Post.render, Sep.render]
  · exact ⟨sp, by rw [valid_eq, h]; simpa using ha, ⟨h, h1, h2⟩, rfl, rfl, rfl, fun _ => rfl⟩

theorem body_chars (op : S.Op) (body : Str) (hb : Body op body) :
    (∀ c ∈ body, isWs c = false) ∧ (op ≠ .arbitrary → ∀ c ∈ body, c ≠ 61) := by
  unfold Body at hb
  by_cases ha : op = .arbitrary
  · rw [if_pos ha] at hb
    refine ⟨?_, fun h => absurd ha h⟩
    intro c hc
    have := List.all_eq_true.mp hb c hc
    simp only [S.isArbChar, Bool.and_eq_true, Bool.not_eq_true'] at this
    exact this.1.1
  · rw [if_neg ha] at hb
    have hcore : ∀ sp, Core sp → ∀ c ∈ render sp, isWs c = false ∧ c ≠ 61 := by
      intro sp hc c hm
      have := coreChar_facts c (List.all_eq_true.mp (core_chars sp hc) c hm)
      exact ⟨this.1, this.2.1⟩
    rcases hb with ⟨sp, hc, _, _, rfl⟩ | ⟨_, sp, hc, _, _, _, _, rfl⟩
    · exact ⟨fun c hm => (hcore sp hc c hm).1, fun _ c hm => (hcore sp hc c hm).2⟩
    · have h2 : ∀ c ∈ render sp ++ [46, 42], isWs c = false ∧ c ≠ 61 := by
        intro c hm
        simp only [List.mem_append, List.mem_cons, List.not_mem_nil, or_false] at hm
        rcases hm with hm | rfl | rfl
        · exact hcore sp hc c hm
        · decide
        · decide
      exact ⟨fun c hm => (h2 c hm).1, fun _ c hm => (h2 c hm).2⟩

/-! ### `parseSpec` -/

theorem meaning_none (sp : Spelling) :
    ((meaning sp).pre.isNone = true ↔ sp.pre = none) ∧ ((meaning sp).post.isNone = true ↔ sp.post = none) ∧
    ((meaning sp).dev.isNone = true ↔ sp.dev = none) ∧ ((meaning sp).loc.isNone = true ↔ sp.loc = none) := by
  simp [meaning]

theorem meaning_release_length (sp : Spelling) : (meaning sp).release.length = sp.rels.length + 1 := by
  simp [meaning]

/-- the scanner accepts a clause of the described shape -/
theorem parse_of_body (op : S.Op) (w1 w2 body w3 : Str) (hw1 : w1.all isSpace = true) (hw2 : w2.all isSpace = true)
    (hw3 : w3.all isSpace = true) (hb : Body op body) :
    (S.parseSpec (w1 ++ (op.str ++ (w2 ++ (body ++ w3))))).isSome = true := by
  obtain ⟨hbws, hb61⟩ := body_chars op body hb
  have h1 : (w1 ++ (op.str ++ (w2 ++ (body ++ w3)))).dropWhile isWs = op.str ++ (w2 ++ (body ++ w3)) :=
    dropWhile_ws w1 _ hw1 (op_head op _)
  have h2 : S.takeOp (op.str ++ (w2 ++ (body ++ w3))) = some (op, w2 ++ (body ++ w3)) := by
    apply takeOp_str
    intro ha c hc
    have hm : c ∈ w2 ++ (body ++ w3) := List.mem_of_mem_head? hc
    simp only [List.mem_append] at hm
    rcases hm with hm | hm | hm
    · have := (ws_all w2).mp hw2 c hm
      intro h; subst h; simp [isWs] at this
    · exact hb61 ha c hm
    · have := (ws_all w3).mp hw3 c hm
      intro h; subst h; simp [isWs] at this
  have h3 : stripBy isWs (w2 ++ (body ++ w3)) = body := stripBy_ws w2 body w3 hw2 hw3 hbws
  unfold S.parseSpec
  rw [h1, h2]
  simp only [h3]
  unfold Body at hb
  by_cases ha : op = .arbitrary
  · subst ha
    rw [if_pos rfl] at hb
    simp [hb]
  · rw [if_neg ha] at hb
    have hab : (op == S.Op.arbitrary) = false := by simpa using ha
    simp only [hab, Bool.false_eq_true, if_false]
    rcases hb with ⟨sp, hc, hl, hne, rfl⟩ | ⟨hop, sp, hc, hpre, hpost, hdev, hloc, rfl⟩
    · obtain ⟨sq, hv, hcq, hr, hlq, hrq, _⟩ := valid_of_core sp hc
      have hsc : scanCore (render sp) = some (meaning sq, []) :=
        (scanCore_iff _ _).mpr ⟨sq, hv, hcq.2.1, hcq.2.2, hr, rfl⟩
      have hw : endsWith (render sp) [46, 42] = false := endsWith_core _ (core_chars sp hc)
      simp only [hw, Bool.and_false, Bool.false_eq_true, if_false, hsc]
      have hform : S.clauseForm op (meaning sq) false = true := by
        simp only [S.clauseForm, Bool.not_false, Bool.true_or, Bool.true_and, Bool.and_eq_true, Bool.or_eq_true,
          beq_iff_eq, bne_iff_ne, ne_eq, decide_eq_true_eq, (meaning_none sq).2.2.2, meaning_release_length, hlq, hrq]
        refine ⟨?_, ?_⟩
        · rcases hl with hl | hl | hl
          · exact .inl (.inl hl)
          · exact .inl (.inr hl)
          · exact .inr hl
        · by_cases hcmp : op = .compatible
          · right
            have := hne hcmp
            cases hrr : sp.rels with
            | nil => exact absurd hrr this
            | cons a as => simp
          · exact .inl hcmp
      simp [hform]
    · have hv : Valid sp = true := by
        rw [valid_eq, hc.1]
        simp [ambiguous, hpre]
      have hsc : scanCore (render sp) = some (meaning sp, []) :=
        (scanCore_iff _ _).mpr ⟨sp, hv, hc.2.1, hc.2.2, rfl, rfl⟩
      have hopb : (op == S.Op.eq || op == S.Op.ne) = true := by
        rcases hop with rfl | rfl <;> rfl
      simp only [hopb, endsWith_wild, Bool.and_self, if_true, take_wild, hsc]
      have hform : S.clauseForm op (meaning sp) true = true := by
        have hm := meaning_none sp
        simp only [S.clauseForm, Bool.not_true, Bool.false_or, Bool.and_eq_true, Bool.or_eq_true,
          beq_iff_eq, bne_iff_ne, ne_eq, decide_eq_true_eq, hm.1.mpr hpre, hm.2.1.mpr hpost, hm.2.2.1.mpr hdev,
          hm.2.2.2.mpr hloc, true_and, true_or]
        left
        rcases hop with rfl | rfl <;> decide
      simp [hform]

/-- whatever the scanner accepts has the described shape -/
theorem body_of_parse (s : Str) (h : (S.parseSpec s).isSome = true) :
    ∃ (op : S.Op) (w1 w2 body w3 : Str), w1.all isSpace = true ∧ w2.all isSpace = true ∧ w3.all isSpace = true ∧
      Body op body ∧ s = w1 ++ (op.str ++ (w2 ++ (body ++ w3))) := by
  unfold S.parseSpec at h
  cases hto : S.takeOp (s.dropWhile isWs) with
  | none => simp [hto] at h
  | some p =>
    obtain ⟨op, r⟩ := p
    rw [hto] at h
    simp only at h
    have hs : s = s.takeWhile isWs ++ (op.str ++ r) := by
      rw [← takeOp_inv _ _ _ hto, List.takeWhile_append_dropWhile]
    obtain ⟨w2, w3, hw2, hw3, hr⟩ := stripBy_inv r
    generalize stripBy isWs r = text at h hr
    refine ⟨op, s.takeWhile isWs, w2, text, w3, takeWhile_ws s, hw2, hw3, ?_, by rw [← hr]; exact hs⟩
    unfold Body
    by_cases ha : op = .arbitrary
    · subst ha
      rw [if_pos rfl]
      simp only [beq_self_eq_true, if_true] at h
      split at h
      · assumption
      · simp at h
    · rw [if_neg ha]
      have hab : (op == S.Op.arbitrary) = false := by simpa using ha
      simp only [hab, Bool.false_eq_true, if_false] at h
      split at h
      · rename_i v hsc
        split at h
        · rename_i hform
          obtain ⟨sp, hv, h1, h2, hrend, hm⟩ := (scanCore_iff _ _).mp hsc
          have hg : Grammar sp = true := by
            rw [valid_eq, Bool.and_eq_true] at hv; exact hv.1
          have hcore : Core sp := ⟨hg, h1, h2⟩
          subst hm
          have hmn := meaning_none sp
          by_cases hw : ((op == S.Op.eq || op == S.Op.ne) && endsWith text [46, 42]) = true
          · simp only [hw, if_true] at hrend
            simp only [hw, S.clauseForm, Bool.not_true, Bool.false_or, Bool.and_eq_true, hmn.1, hmn.2.1, hmn.2.2.1,
              hmn.2.2.2] at hform
            simp only [Bool.and_eq_true, Bool.or_eq_true, beq_iff_eq] at hw
            obtain ⟨t, rfl⟩ := endsWith_split text hw.2
            rw [take_wild] at hrend
            exact .inr ⟨hw.1, sp, hcore, hform.1.1.1.1.1, hform.1.1.1.1.2, hform.1.1.1.2, hform.1.1.2, by rw [hrend]⟩
          · have hw' : ((op == S.Op.eq || op == S.Op.ne) && endsWith text [46, 42]) = false := by
              simpa using hw
            simp only [hw', Bool.false_eq_true, if_false] at hrend
            simp only [hw', S.clauseForm, Bool.not_false, Bool.true_or, Bool.true_and, Bool.and_eq_true,
              Bool.or_eq_true, beq_iff_eq, bne_iff_ne, ne_eq, decide_eq_true_eq, hmn.2.2.2,
              meaning_release_length] at hform
            refine .inl ⟨sp, hcore, ?_, ?_, hrend⟩
            · rcases hform.1 with (hl | hl) | hl
              · exact .inl hl
              · exact .inr (.inl hl)
              · exact .inr (.inr hl)
            · intro hcmp hnil
              rcases hform.2 with hf | hf
              · exact hf hcmp
              · rw [hnil] at hf; simp at hf
        · simp at h
      · simp at h

/-- **`Specifier(s)` succeeds iff `s` is: white space, an operator, white space, a body that operator permits,
white space** -/
theorem parse_iff (s : Str) :
    (S.parseSpec s).isSome = true ↔
    ∃ (op : S.Op) (w1 w2 body w3 : Str), w1.all isSpace = true ∧ w2.all isSpace = true ∧ w3.all isSpace = true ∧
      Body op body ∧ s = w1 ++ (op.str ++ (w2 ++ (body ++ w3))) := by
  constructor
  · exact body_of_parse s
  · rintro ⟨op, w1, w2, body, w3, hw1, hw2, hw3, hb, rfl⟩
    exact parse_of_body op w1 w2 body w3 hw1 hw2 hw3 hb

end RxK
