import PkgProofs.Lemmas.ScanGroups
/-!
# Scanner lemmas, part 3: release tail, local label, and the whole rendered string
-/
namespace V
open Py

/-! ### release tail -/

theorem relTail_end (fuel : Nat) (s : Str) (h : Stop3 s) : scanReleaseTail fuel s = ([], s) := by
  cases fuel with
  | zero => rfl
  | succ f =>
    rcases h with (((rfl | ⟨t, rfl⟩) | ⟨t, rfl⟩) | ⟨t, rfl⟩) | ⟨t, rfl | rfl | rfl⟩ <;>
      simp [scanReleaseTail, optNum, spanDigits, isDigit]

theorem tailS_head (xs : List Str) : tailS xs = [] ∨ ∃ t, tailS xs = 46 :: t := by
  cases xs with
  | nil => exact .inl rfl
  | cons x xs => exact .inr ⟨_, rfl⟩

theorem noDigit_tailS (xs : List Str) (s : Str) (h : NoDigit s) : NoDigit (tailS xs ++ s) := by
  rcases tailS_head xs with h0 | ⟨t, h0⟩ <;> rw [h0]
  · simpa using h
  · intro c hc; simp at hc; subst hc; decide

theorem relTail_render (ns : List Nat) (s : Str) (h : Stop3 s) (fuel : Nat) (hf : ns.length ≤ fuel) :
    scanReleaseTail fuel (tailS (ns.map dec) ++ s) = (ns, s) := by
  induction ns generalizing fuel with
  | nil => simpa [tailS] using relTail_end fuel s h
  | cons n ns ih =>
    cases fuel with
    | zero => simp at hf
    | succ f =>
      have h1 := optNum_dec n (tailS (ns.map dec) ++ s) (noDigit_tailS _ _ h.noDigit)
      have h2 := ih f (by simpa using hf)
      simp [tailS, scanReleaseTail, h1, h2]

theorem tailS_length (xs : List Str) : xs.length ≤ (tailS xs).length := by
  induction xs with
  | nil => simp [tailS]
  | cons x xs ih => simp [tailS]; omega

/-! ### local label -/

theorem isLocalChar_of_wf {c : Nat} (h : isDigit c = true ∨ isLowerAscii c = true) : isLocalChar c = true := by
  simp [isLocalChar, isAlphaAscii] at *; rcases h with h | h <;> simp [h]

theorem render_localChars (seg : LSeg) (h : segWF seg = true) : ∀ c ∈ seg.render, isLocalChar c = true := by
  cases seg with
  | num n => intro c hc; simp [isLocalChar, dec_digits n c hc]
  | str s =>
    simp [segWF] at h
    intro c hc; exact isLocalChar_of_wf (h.1.2 c hc)

theorem render_ne_nil (seg : LSeg) (h : segWF seg = true) : seg.render ≠ [] := by
  cases seg with
  | num n => exact dec_ne_nil n
  | str s => simp [segWF] at h; simpa [LSeg.render] using h.1.1

theorem lowerStr_of_wf (s : Str) (h : ∀ c ∈ s, isDigit c = true ∨ isLowerAscii c = true) : lowerStr s = s := by
  induction s with
  | nil => rfl
  | cons c cs ih =>
    have hc := h c (by simp)
    have : lowerAscii c = c := by
      simp [isDigit, isLowerAscii] at hc
      simp [lowerAscii, isUpperAscii]; omega
    simp [lowerStr] at ih ⊢
    exact ⟨this, ih (fun c hc => h c (by simp [hc]))⟩

theorem localSeg_render (seg : LSeg) (h : segWF seg = true) : localSeg seg.render = seg := by
  cases seg with
  | num n =>
    have : (dec n).all isDigit = true := by simpa using dec_digits n
    simp [localSeg, LSeg.render, this, undec_dec]
  | str s =>
    simp [segWF] at h
    obtain ⟨⟨_, h2⟩, c, hc, hcd⟩ := h
    have : s.all isDigit = false := by
      cases hh : s.all isDigit with
      | false => rfl
      | true => simp at hh; simp [hh c hc] at hcd
    simp [localSeg, LSeg.render, this]
    exact lowerStr_of_wf s h2

theorem span_local (p rest : Str) (hp : ∀ c ∈ p, isLocalChar c = true) (hr : rest = [] ∨ ∃ t, rest = 46 :: t) :
    (p ++ rest).takeWhile isLocalChar = p ∧ (p ++ rest).dropWhile isLocalChar = rest := by
  induction p with
  | nil => rcases hr with rfl | ⟨t, rfl⟩ <;> simp [isLocalChar, isDigit, isAlphaAscii, isLowerAscii, isUpperAscii]
  | cons c cs ih =>
    have := ih (fun c hc => hp c (by simp [hc]))
    simp [hp c (by simp), this]

theorem localTail_render (segs : List LSeg) (hw : ∀ x ∈ segs, segWF x = true) (fuel : Nat)
    (hf : segs.length ≤ fuel) :
    scanLocalTail fuel (tailS (segs.map LSeg.render)) = (segs.map LSeg.render, []) := by
  induction segs generalizing fuel with
  | nil => cases fuel <;> simp [tailS, scanLocalTail]
  | cons x xs ih =>
    cases fuel with
    | zero => simp at hf
    | succ f =>
      have hx := hw x (by simp)
      have h1 := span_local x.render (tailS (xs.map LSeg.render)) (render_localChars x hx) (tailS_head _)
      have h2 := ih (fun y hy => hw y (by simp [hy])) f (by simpa using hf)
      have h3 := render_ne_nil x hx
      simp [tailS, scanLocalTail, isSep, h1.1, h1.2, h2, h3]

theorem scanLocal_render (loc : Option (List LSeg)) (h : locWF loc = true) :
    scanLocal (locS loc) = some (loc, []) := by
  cases loc with
  | none => simp [locS, scanLocal]
  | some l =>
    cases l with
    | nil => simp [locWF] at h
    | cons x xs =>
      simp [locWF] at h
      obtain ⟨hx, hxs⟩ := h
      have h1 := span_local x.render (tailS (xs.map LSeg.render)) (render_localChars x hx) (tailS_head _)
      have h3 := render_ne_nil x hx
      have hlen : xs.length ≤ (x.render ++ tailS (xs.map LSeg.render)).length := by
        have := tailS_length (xs.map LSeg.render); simp at this ⊢; omega
      have h2 := localTail_render xs hxs _ hlen
      rw [List.length_append] at h2
      have h4 : (xs.map LSeg.render).map localSeg = xs := by
        rw [List.map_map]
        conv => rhs; rw [← List.map_id xs]
        apply List.map_congr_left
        intro y hy; exact localSeg_render y (hxs y hy)
      simp [locS, join_dot, scanLocal, h1.1, h1.2, h2, h3, localSeg_render x hx, h4]

/-! ### from the release tail to the end -/

theorem scanRest_render (e r0 : Nat) (ns : List Nat) (pre : Option (PreL × Nat)) (post dev : Option Nat)
    (loc : Option (List LSeg)) (h : locWF loc = true) :
    scanRest e r0 (tailS (ns.map dec) ++ (preS pre ++ (postS post ++ (devS dev ++ locS loc)))) =
      some (⟨e, r0 :: ns, pre, post, dev, loc⟩, []) := by
  have s0 := stop0_locS loc
  have s1 := stop1_devS dev s0
  have s2 := stop2_postS post s1
  have s3 := stop3_preS pre s2
  have hlen : ns.length ≤ (tailS (ns.map dec) ++ (preS pre ++ (postS post ++ (devS dev ++ locS loc)))).length := by
    have := tailS_length (ns.map dec); simp at this ⊢; omega
  have hrel := relTail_render ns _ s3 _ hlen
  have hpre : preStage (preS pre ++ (postS post ++ (devS dev ++ locS loc))) =
      (pre, postS post ++ (devS dev ++ locS loc)) := by
    cases pre with
    | none => simp [preStage, preS, pre_none _ s2]
    | some p => obtain ⟨l, n⟩ := p; simp [preStage, pre_some l n _ s2]
  have hpost : scanPost (postS post ++ (devS dev ++ locS loc)) = (post, devS dev ++ locS loc) := by
    cases post with
    | none => simpa [postS] using post_none _ s1
    | some n => exact post_some n _ s1
  have hdev : devStage (devS dev ++ locS loc) = (dev, locS loc) := by
    cases dev with
    | none => simp [devStage, devS, dev_none _ s0]
    | some n => simp [devStage, dev_some n _ s0]
  simp only [scanRest, hrel, hpre, hpost, hdev, scanLocal_render loc h]

end V
