import PkgProofs.Lemmas.ReqWf
import PkgProofs.Props.C05
import PkgProofs.Props.C09
import PkgProofs.Props.C13
/-!
Lemmas for C08: what every accepted requirement satisfies — identifiers end in a word character, the members of
the specifier set are clean clauses with pairwise different keys, the marker denotes a formula over canonical names.
-/
namespace ReqWf
open Py Mk Req MkLex ReqLex ReqParse ReqMk
set_option linter.unusedSimpArgs false

/-! ### identifiers of an accepted requirement end in a word character -/

/-- what `identEnd` keeps: identifier characters, and the closing `\b` holds behind them -/
theorem identEnd_spec : (s : Str) → (p k : Nat) → identEnd s p = some k →
    (∀ x ∈ s.take k, isIdentTail x = true) ∧ boundary (lastOr (s.take k) (some p)) (s.drop k).head? = true
  | [], p, k, h => by
    simp only [identEnd] at h
    split at h
    · rename_i hw
      simp only [Option.some.injEq] at h; subst h
      simp [boundary, lastOr, isWordO, hw]
    · cases h
  | c :: cs, p, k, h => by
    simp only [identEnd] at h
    have here : ∀ k', (if boundary (some p) (some c) = true then some 0 else none) = some k' →
        (∀ x ∈ (c :: cs).take k', isIdentTail x = true) ∧
          boundary (lastOr ((c :: cs).take k') (some p)) ((c :: cs).drop k').head? = true := by
      intro k' hk'
      split at hk'
      · rename_i hb
        simp only [Option.some.injEq] at hk'; subst hk'
        simpa [lastOr] using hb
      · cases hk'
    split at h
    · rename_i hc
      split at h
      · rename_i k1 hk1
        simp only [Option.some.injEq] at h; subst h
        obtain ⟨h1, h2⟩ := identEnd_spec cs c k1 hk1
        refine ⟨?_, ?_⟩
        · intro x hx
          simp only [List.take_succ_cons, List.mem_cons] at hx
          rcases hx with rfl | hx
          · exact hc
          · exact h1 x hx
        · simp only [List.take_succ_cons, List.drop_succ_cons]
          cases htk : cs.take k1 with
          | nil => rw [htk] at h2; simpa [lastOr] using h2
          | cons y ys =>
            rw [htk] at h2
            simp only [lastOr_cons_cons]
            rw [lastOr_ne (y :: ys) (by simp) (some c)] at h2
            rw [lastOr_ne (y :: ys) (by simp) (some p)]
            exact h2
      · exact here k h
    · exact here k h

/-- the token IDENTIFIER returns, and the `\b` behind it -/
theorem checkR_ident_inv (st st' : St) (t : Str) (h : checkR .identifier st = some (t, st')) :
    ∃ c t', t = c :: t' ∧ isIdentHead c = true ∧ (∀ x ∈ t', isIdentTail x = true) ∧
      boundary (lastOr t none) st'.rest.head? = true := by
  unfold checkR at h
  split at h
  · cases h
  · rename_i n hn
    simp only [Option.some.injEq, Prod.mk.injEq] at h
    obtain ⟨rfl, rfl⟩ := h
    simp only [matchR, matchIdent] at hn
    cases hr : st.rest with
    | nil => rw [hr] at hn; cases hn
    | cons c cs =>
      rw [hr] at hn
      simp only at hn
      split at hn
      · rename_i hcb
        simp only [Bool.and_eq_true] at hcb
        cases hk : identEnd cs c with
        | none => simp [hk] at hn
        | some k =>
          simp only [hk, Option.map_some, Option.some.injEq] at hn
          subst hn
          obtain ⟨h1, h2⟩ := identEnd_spec cs c k hk
          refine ⟨c, cs.take k, by simp, hcb.1, h1, ?_⟩
          simp only [List.take_succ_cons, List.drop_succ_cons]
          cases htk : cs.take k with
          | nil => rw [htk] at h2; simpa [lastOr] using h2
          | cons y ys =>
            rw [htk] at h2
            simp only [lastOr_cons_cons]
            rw [lastOr_ne (y :: ys) (by simp) (some c)] at h2
            exact h2
      · cases hn

/-- an identifier token that is followed by a non-word character (or nothing) is well formed -/
theorem identOK_of_token (st st' : St) (t : Str) (h : checkR .identifier st = some (t, st'))
    (hnext : ∀ c, st'.rest.head? = some c → isWord c = false) : IdentOK t := by
  obtain ⟨c, t', rfl, hc, ht, hb⟩ := checkR_ident_inv st st' t h
  refine ⟨c, t', rfl, hc, ht, ?_⟩
  cases hl : isWordO (lastOr (c :: t') none) with
  | true => rfl
  | false =>
    exfalso
    simp only [boundary, hl, Bool.false_xor] at hb
    cases hh : st'.rest.head? with
    | none => rw [hh] at hb; simp [isWordO] at hb
    | some d => rw [hh] at hb; simp only [isWordO] at hb; rw [hnext d hh] at hb; cases hb

/-! ### nothing of the grammar starts with a word character after an identifier -/

theorem word_ws (st : St) (c : Nat) (hc : st.rest.head? = some c) (hw : isWord c = true) : ws st = st :=
  ws_noop st (by intro d hd; rw [hc] at hd; cases hd; have := isWord_not_punct hw; omega)

/-- after the name: no extras, and the details fail -/
theorem details_fail_word (fuel : Nat) (st : St) (c : Nat) (hc : st.rest.head? = some c) (hw : isWord c = true)
    (x : Str × Str × Option (List M) × St) : parseDetails fuel st ≠ .ok x := by
  have hp := isWord_not_punct hw
  have h0 : checkR .at_ st = none := checkR_single_miss .at_ 64 rfl st (by rw [hc]; simp; omega)
  have h1 : St.check .lparen st = none := check_lparen_none st (by rw [hc]; simp; omega)
  have h2 : ws st = st := word_ws st c hc hw
  have h3 : checkR .specifier st = none := by
    simp [checkR, matchR, matchSpecifier_none st.prev st.rest (by intro d hd; rw [hc] at hd; cases hd; omega)]
  have h4 : peekEnd st = false := by
    cases hr : st.rest with
    | nil => rw [hr] at hc; cases hc
    | cons d k =>
      rw [hr] at hc; simp at hc; subst hc
      have := peekEnd_cons st.prev d k (by omega)
      cases st; simp_all
  have h5 : checkR .semicolon st = none := checkR_single_miss .semicolon 59 rfl st (by rw [hc]; simp; omega)
  intro h
  cases fuel with
  | zero => simp [parseDetails, h0, parseSpecifier, h1, h2, versionMany, bind, Except.bind] at h
  | succ f =>
    simp [parseDetails, h0, parseSpecifier, h1, h2, versionMany, h3, bind, Except.bind, pure, Except.pure, h4,
      parseReqMarker, h5] at h

theorem extras_pass_word (fuel : Nat) (st : St) (c : Nat) (hc : st.rest.head? = some c) (hw : isWord c = true) :
    parseExtras fuel st = .ok ([], st) :=
  parseExtras_none fuel st (by rw [hc]; have := isWord_not_punct hw; simp; omega)

/-- inside the brackets: a word character where `,` or `]` should stand ends the loop without progress -/
theorem extrasLoop_word (fuel : Nat) (acc : List Str) (st : St) (l : List Str) (st' : St)
    (h : extrasLoop fuel acc st = .ok (l, st')) (c : Nat) (hc : st.rest.head? = some c) (hw : isWord c = true) :
    st' = st := by
  cases fuel with
  | zero => simp [extrasLoop] at h
  | succ f =>
    have hp := isWord_not_punct hw
    have h2 : ws st = st := word_ws st c hc hw
    have h3 : checkR .comma st = none := checkR_single_miss .comma 44 rfl st (by rw [hc]; simp; omega)
    simp only [extrasLoop, h2, h3] at h
    split at h
    · cases h
    · simp only [Except.ok.injEq, Prod.mk.injEq] at h; exact h.2.symm

theorem rbracket_word (st : St) (c : Nat) (hc : st.rest.head? = some c) (hw : isWord c = true) :
    checkR .rbracket (ws st) = none := by
  rw [word_ws st c hc hw]
  exact checkR_single_miss .rbracket 93 rfl st (by rw [hc]; have := isWord_not_punct hw; simp; omega)

/-- every extra of an accepted `[…]` list is a well-formed identifier -/
theorem extrasLoop_idents : (fuel : Nat) → (acc : List Str) → (st : St) → (l : List Str) → (st' : St) →
    extrasLoop fuel acc st = .ok (l, st') → (checkR .rbracket (ws st')).isSome = true →
    (∀ e ∈ acc, IdentOK e) → ∀ e ∈ l, IdentOK e
  | 0, _, _, _, _, h, _, _ => by simp [extrasLoop] at h
  | f + 1, acc, st, l, st', h, hrb, hacc => by
    simp only [extrasLoop] at h
    split at h
    · cases h
    · split at h
      · simp only [Except.ok.injEq, Prod.mk.injEq] at h; rw [← h.1]; exact hacc
      · rename_i t1 st1 hc
        split at h
        · cases h
        · rename_i t2 st2 hi
          have hnext : ∀ c, st2.rest.head? = some c → isWord c = false := by
            intro c hc2
            cases hw : isWord c with
            | false => rfl
            | true =>
              exfalso
              have := extrasLoop_word f _ st2 l st' h c hc2 hw
              rw [this, rbracket_word st2 c hc2 hw] at hrb
              cases hrb
          have hid := identOK_of_token _ _ _ hi hnext
          refine extrasLoop_idents f _ st2 l st' h hrb ?_
          intro e he
          rcases List.mem_append.mp he with he | he
          · exact hacc e he
          · simp at he; subst he; exact hid

theorem parseExtras_idents (fuel : Nat) (st : St) (l : List Str) (st' : St) (h : parseExtras fuel st = .ok (l, st')) :
    ∀ e ∈ l, IdentOK e := by
  unfold parseExtras at h
  split at h
  · simp only [Except.ok.injEq, Prod.mk.injEq] at h; rw [← h.1]; intro e he; cases he
  · rename_i t0 st0 hl
    simp only [bind, Except.bind] at h
    split at h
    · cases h
    · rename_i v hv
      obtain ⟨ex, st1⟩ := v
      simp only at h
      split at h
      · cases h
      · rename_i t2 st2 hr
        simp only [pure, Except.pure, Except.ok.injEq, Prod.mk.injEq] at h
        rw [← h.1]
        have hrb : (checkR .rbracket (ws st1)).isSome = true := by rw [hr]; rfl
        unfold parseExtrasList at hv
        split at hv
        · simp only [Except.ok.injEq, Prod.mk.injEq] at hv; rw [← hv.1]; intro e he; cases he
        · rename_i t3 st3 hi
          have hnext : ∀ c, st3.rest.head? = some c → isWord c = false := by
            intro c hc2
            cases hw : isWord c with
            | false => rfl
            | true =>
              exfalso
              have := extrasLoop_word fuel _ st3 ex st1 hv c hc2 hw
              rw [this, rbracket_word st3 c hc2 hw] at hrb
              cases hrb
          have hid := identOK_of_token _ _ _ hi hnext
          exact extrasLoop_idents fuel _ st3 ex st1 hv hrb (by intro e he; simp at he; subst he; exact hid)

/-! ### the name -/

theorem name_identOK (src : Str) (P : Parsed) (h : parseSource src = .ok P) : IdentOK P.name := by
  obtain ⟨st1, st2, st3, hn, he, hd, _⟩ := parseSource_inv src P h
  apply identOK_of_token _ _ _ hn
  intro c hc
  cases hw : isWord c with
  | false => rfl
  | true =>
    exfalso
    rw [word_ws st1 c hc hw, extras_pass_word _ st1 c hc hw] at he
    simp only [Except.ok.injEq, Prod.mk.injEq] at he
    rw [← he.2, word_ws st1 c hc hw] at hd
    exact details_fail_word _ st1 c hc hw _ hd

/-! ### the specifier set -/

theorem insertSpec_sub (l : List S.Spec) (sp x : S.Spec) (h : x ∈ insertSpec l sp) : x ∈ l ∨ x = sp := by
  unfold insertSpec at h
  split at h
  · exact Or.inl h
  · simpa using h

theorem foldl_insertSpec_sub : (l acc : List S.Spec) → ∀ x ∈ l.foldl insertSpec acc, x ∈ acc ∨ x ∈ l
  | [], acc, x, h => Or.inl h
  | sp :: l, acc, x, h => by
    rcases foldl_insertSpec_sub l (insertSpec acc sp) x h with h' | h'
    · rcases insertSpec_sub acc sp x h' with h'' | rfl
      · exact Or.inl h''
      · exact Or.inr (by simp)
    · exact Or.inr (by simp [h'])

theorem specSet_sub (l : List S.Spec) : ∀ x ∈ specSet l, x ∈ l := by
  intro x hx
  rcases foldl_insertSpec_sub l [] x hx with h | h
  · cases h
  · exact h

theorem insertSpec_nodup (l : List S.Spec) (sp : S.Spec) (h : (l.map key).Nodup) : ((insertSpec l sp).map key).Nodup := by
  unfold insertSpec
  cases hk : hasKey l (key sp) with
  | true => simpa using h
  | false =>
    simp only [Bool.false_eq_true, if_false, List.map_append, List.map_cons, List.map_nil]
    rw [List.nodup_append]
    refine ⟨h, by simp, ?_⟩
    intro a ha b hb
    simp only [List.mem_cons, List.mem_nil_iff, or_false] at hb
    subst hb
    intro e; subst e
    have := (ReqL.hasKey_iff l (key sp)).mpr ha
    rw [hk] at this; cases this

theorem foldl_insertSpec_nodup : (l acc : List S.Spec) → (acc.map key).Nodup → ((l.foldl insertSpec acc).map key).Nodup
  | [], _, h => h
  | sp :: l, acc, h => foldl_insertSpec_nodup l _ (insertSpec_nodup acc sp h)

theorem specSet_nodup (l : List S.Spec) : ((specSet l).map key).Nodup := foldl_insertSpec_nodup l [] (by simp)

theorem ckey_isSome (sp : S.Spec) : (ckey sp).isSome = true := by
  have := SSet.canonical_isOk sp
  unfold ckey
  cases h : sp.canonical with
  | ok v => rfl
  | error e => rw [h] at this; cases this

theorem mkSpecSet_inv (s : Str) (spec : List S.Spec) (h : mkSpecSet s = .ok spec) :
    ∃ sps, parseAll (clauses s) = some sps ∧ spec = specSet sps := by
  unfold mkSpecSet at h
  split at h
  · cases h
  · rename_i sps hs
    split at h
    · simp only [Except.ok.injEq] at h; exact ⟨sps, hs, h.symm⟩
    · cases h

/-- every member of the specifier set of a parsed requirement is a clean clause: it prints without comma and
surrounding white space and parses back to itself (`SSet.roundtrips`), and it came from one of the comma-separated
pieces of the clause text -/
theorem members_roundtrip (s : Str) (spec : List S.Spec) (h : mkSpecSet s = .ok spec) :
    ∀ sp ∈ spec, SSet.roundtrips sp = true ∧ ∃ c ∈ clauses s, S.parseSpec c = some sp := by
  obtain ⟨sps, hs, rfl⟩ := mkSpecSet_inv s spec h
  intro sp hsp
  obtain ⟨c, hc, hp⟩ := SSet.parseAll_mem hs sp (specSet_sub sps sp hsp)
  exact ⟨SSet.parse_roundtrips c sp hp (fun harb hmem =>
    C05.clauses_no_comma s c hc (C05.parse_arbitrary_subset hp harb 44 hmem)), c, hc, hp⟩

/-! ### the marker -/

/-- the marker of a parsed requirement denotes a formula, uses canonical variable names and operators, and is
already normalised (`_normalize_extra_values` changes nothing any more) -/
theorem marker_wf (src : Str) (r : Requirement) (m : List M) (h : Req.parse src = .ok r) (hm : r.marker = some m) :
    (∃ f, Pep508.formulaOf m = some f) ∧ (∀ a ∈ MkParse.atomsL m, MkWf.VarOpCanon a) ∧
      ∀ a ∈ MkParse.atomsL m, normAtom Req.X a = a := by
  obtain ⟨P, spec, hP, _, _, _, _, _, hmk⟩ := parse_inv src r h
  rw [hm] at hmk
  cases hPm : P.marker with
  | none => rw [hPm] at hmk; cases hmk
  | some m0 =>
    rw [hPm] at hmk
    simp only [Option.map_some, Option.some.injEq] at hmk
    subst hmk
    obtain ⟨st1, st2, st3, hn, he, hd, hend⟩ := parseSource_inv src P hP
    rw [hPm] at hd
    obtain ⟨sa, sb, se, _, _, _, hpm, _⟩ := parseDetails_marker_inv _ _ _ _ _ _ hd
    obtain ⟨hf, hv⟩ := (MkWf.parser_inv charTS MkWf.VarOpCanon MkWf.boolTexts_char MkWf.itemInv_char _).1 _ _ _ hpm
    obtain ⟨f, hf⟩ := Option.isSome_iff_exists.mp hf
    have hatoms := C09.atomsL_norm Req.X m0
    refine ⟨⟨MkParse.Formula.map (normAtom Req.X) f, ?_⟩, ?_, ?_⟩
    · have := MkParse.fOfL_norm Req.X m0
      rw [hf] at this
      simpa [Pep508.formulaOf] using this
    · intro a ha
      rw [hatoms] at ha
      obtain ⟨b, hb, rfl⟩ := List.mem_map.mp ha
      exact C09.varOpCanon_norm Req.X b (hv b hb)
    · intro a ha
      rw [hatoms] at ha
      obtain ⟨b, _, rfl⟩ := List.mem_map.mp ha
      exact C09.normAtom_idem Req.X (fun s => C13.canon_idem s) b
end ReqWf
