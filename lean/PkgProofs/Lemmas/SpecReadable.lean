import PkgProofs.Props.C03
import PkgProofs.Lemmas.SpecSet
/-!
# Members a constructor can produce never raise

`Pep440.readClause` (C03) is the decidable reading of a stored clause; `C03.parse_readClause` shows that
everything `Specifier.__init__` accepts is readable, `C03.compare_eq_spec` that comparing a readable clause
with a well-formed candidate returns a value.  Hence the hypothesis `CmpOk` of the set theorems holds for
every set built from strings and every parsed candidate.
-/
namespace SSet
open Py V S

/-- the stored clause is one the grammar admits (decidable) -/
def Readable (m : Member) : Prop := (Pep440.readClause m.1).isSome = true

instance (m : Member) : Decidable (Readable m) := by unfold Readable; infer_instance

theorem cmpOk_of_readable {m : Member} {c : Ver} (hr : Readable m) (wc : V.WF c) : CmpOk m c := by
  obtain ⟨⟨v, w⟩, h⟩ := Option.isSome_iff_exists.mp hr
  exact ⟨_, C03.compare_eq_spec m.1 v w c (C03.readClause_sound m.1 v w h) wc⟩

theorem parseAll_mem {l : List Str} {sps : List Spec} (h : parseAll l = some sps) :
    ∀ sp ∈ sps, ∃ c ∈ l, parseSpec c = some sp := by
  induction l generalizing sps with
  | nil => simp only [parseAll, Option.some.injEq] at h; subst h; intro sp hsp; cases hsp
  | cons c cs ih =>
    simp only [parseAll] at h
    cases hc : parseSpec c with
    | none => simp [hc] at h
    | some sp0 =>
      cases hr : parseAll cs with
      | none => simp [hc, hr] at h
      | some r =>
        simp only [hc, hr, Option.some.injEq] at h; subst h
        intro sp hsp
        rcases List.mem_cons.mp hsp with rfl | hsp
        · exact ⟨c, by simp, hc⟩
        · obtain ⟨c', hc', hp⟩ := ih hr sp hsp
          exact ⟨c', by simp [hc'], hp⟩

/-- every member of a set parsed from a string is readable -/
theorem ofString_readable {s : Str} {p : Option Bool} {T : SpecSet} (h : ofString s p = .ok T) :
    ∀ m ∈ T.specs, Readable m := by
  obtain ⟨sps, hs, hT, _⟩ := ofString_ok h
  subst hT
  intro m hm
  rcases mem_foldl (l := []) hm with h' | h'
  · cases h'
  · obtain ⟨sp, hsp, rfl⟩ := List.mem_map.mp h'
    obtain ⟨c, _, hc⟩ := parseAll_mem hs sp hsp
    obtain ⟨v, w, hr⟩ := C03.parse_readClause c sp hc
    simp [Readable, hr]

/-- … and so are the members of `a & b` -/
theorem union_readable {a b : List Member} (ha : ∀ m ∈ a, Readable m) (hb : ∀ m ∈ b, Readable m) :
    ∀ m ∈ union a b, Readable m := by
  intro m hm
  rcases mem_foldl hm with h | h
  · exact ha m h
  · exact hb m h

end SSet
