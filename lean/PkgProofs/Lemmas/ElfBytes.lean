import PkgModel.Elf
/-! byte-level lemmas for the ELF model: fixed-width encode/decode round trips -/
namespace Elf

theorem toLE_length (k n : Nat) : (toLE k n).length = k := by
  induction k generalizing n with
  | zero => rfl
  | succ k ih => simp [toLE, ih]

theorem leNat_toLE (k n : Nat) (h : n < 256 ^ k) : leNat (toLE k n) = n := by
  induction k generalizing n with
  | zero => simp at h; subst h; rfl
  | succ k ih =>
    have h' : n / 256 < 256 ^ k := by
      apply Nat.div_lt_of_lt_mul
      rw [Nat.pow_succ, Nat.mul_comm] at h; exact h
    simp only [toLE, leNat, ih _ h']
    omega

theorem encNum_length (le : Bool) (k n : Nat) : (encNum le k n).length = k := by
  cases le <;> simp [encNum, toBE, toLE_length]

theorem unpackNum_encNum (le : Bool) (k n : Nat) (h : n < 256 ^ k) : unpackNum le (encNum le k n) = n := by
  cases le
  · simp [unpackNum, encNum, beNat, toBE, leNat_toLE k n h]
  · simp [unpackNum, encNum, leNat_toLE k n h]

/-- decoding a field list whose first field was encoded with the same width -/
theorem unpackFields_enc (le : Bool) (k : Nat) (ks : List Nat) (n : Nat) (rest : Bytes) (h : n < 256 ^ k) :
    unpackFields le (k :: ks) (encNum le k n ++ rest) = n :: unpackFields le ks rest := by
  have hl := encNum_length le k n
  simp only [unpackFields]
  rw [List.take_left' hl, List.drop_left' hl, unpackNum_encNum le k n h]

theorem readAt_zero_append (a b : Bytes) (n : Nat) (h : a.length = n) : readAt (a ++ b) 0 n = a := by
  subst h; simp [readAt]

theorem readAt_append_mid (a b c : Bytes) (n m : Nat) (ha : a.length = n) (hb : b.length = m) :
    readAt (a ++ (b ++ c)) n m = b := by
  subst ha hb; simp [readAt]

/-- the 16 identification bytes -/
def identOf (l : Layout) (h : EHeader) : Bytes := magic ++ [l.cls, l.data] ++ h.identRest

/-- the fields after `e_ident` up to `e_phnum` -/
def bodyOf (l : Layout) (h : EHeader) : Bytes :=
  encNum l.le 2 h.etype ++ (encNum l.le 2 h.machine ++ (encNum l.le 4 h.version
  ++ (encNum l.le l.word h.entry ++ (encNum l.le l.word h.phoff ++ (encNum l.le l.word h.shoff
  ++ (encNum l.le 4 h.flags ++ (encNum l.le 2 h.ehsize ++ (encNum l.le 2 h.phentsize ++ (encNum l.le 2 h.phnum ++ [])))))))))

theorem encodeHeader_eq (l : Layout) (h : EHeader) : encodeHeader l h = identOf l h ++ bodyOf l h := by
  simp [encodeHeader, identOf, bodyOf, List.append_assoc]

/-- the values fit their fields -/
structure Fits (l : Layout) (h : EHeader) : Prop where
  ident : h.identRest.length = 10
  etype : h.etype < 256 ^ 2
  machine : h.machine < 256 ^ 2
  version : h.version < 256 ^ 4
  entry : h.entry < 256 ^ l.word
  phoff : h.phoff < 256 ^ l.word
  shoff : h.shoff < 256 ^ l.word
  flags : h.flags < 256 ^ 4
  ehsize : h.ehsize < 256 ^ 2
  phentsize : h.phentsize < 256 ^ 2
  phnum : h.phnum < 256 ^ 2

theorem identOf_length (l : Layout) (h : EHeader) (hi : h.identRest.length = 10) : (identOf l h).length = 16 := by
  simp [identOf, magic, hi]

theorem bodyOf_length (l : Layout) (h : EHeader) : (bodyOf l h).length = 18 + 3 * l.word := by
  simp [bodyOf, encNum_length]; omega

theorem unpack_body (l : Layout) (h : EHeader) (hf : Fits l h) :
    unpackFields l.le [2, 2, 4, l.word, l.word, l.word, 4, 2, 2, 2] (bodyOf l h) =
      [h.etype, h.machine, h.version, h.entry, h.phoff, h.shoff, h.flags, h.ehsize, h.phentsize, h.phnum] := by
  unfold bodyOf
  rw [unpackFields_enc _ _ _ _ _ hf.etype, unpackFields_enc _ _ _ _ _ hf.machine, unpackFields_enc _ _ _ _ _ hf.version,
    unpackFields_enc _ _ _ _ _ hf.entry, unpackFields_enc _ _ _ _ _ hf.phoff, unpackFields_enc _ _ _ _ _ hf.shoff,
    unpackFields_enc _ _ _ _ _ hf.flags, unpackFields_enc _ _ _ _ _ hf.ehsize, unpackFields_enc _ _ _ _ _ hf.phentsize,
    unpackFields_enc _ _ _ _ _ hf.phnum]
  rfl

theorem lookup_layout (l : Layout) :
    Gen.TagTables.elfFormats.lookup (l.cls, l.data) =
      some (l.le, [2, 2, 4, l.word, l.word, l.word, 4, 2, 2, 2],
        (if l.is64 then [4, 4, 8, 8, 8, 8, 8, 8] else [4, 4, 4, 4, 4, 4, 4, 4]),
        (if l.is64 then (0, 2, 5) else (0, 1, 4))) := by
  rcases l with ⟨_ | _, _ | _⟩ <;> decide




/-- the program-header layout of a class -/
def pSizesOf (l : Layout) : List Nat := if l.is64 then [4, 4, 8, 8, 8, 8, 8, 8] else [4, 4, 4, 4, 4, 4, 4, 4]
def pIdxOf (l : Layout) : Nat × Nat × Nat := if l.is64 then (0, 2, 5) else (0, 1, 4)

theorem parse_encodeHeader (l : Layout) (h : EHeader) (hf : Fits l h) (rest : Bytes) :
    parse (encodeHeader l h ++ rest) = some
      { capacity := l.cls, encoding := l.data, machine := h.machine, flags := h.flags, phoff := h.phoff,
        phentsize := h.phentsize, phnum := h.phnum, le := l.le, pSizes := pSizesOf l, pIdx := pIdxOf l } := by
  rw [encodeHeader_eq, List.append_assoc]
  have h1 : readAt (identOf l h ++ (bodyOf l h ++ rest)) 0 16 = identOf l h :=
    readAt_zero_append _ _ _ (identOf_length l h hf.ident)
  have hsum : [2, 2, 4, l.word, l.word, l.word, 4, 2, 2, 2].sum = 18 + 3 * l.word := by
    simp [List.sum_cons]; omega
  have h2 : readAt (identOf l h ++ (bodyOf l h ++ rest)) 16 (18 + 3 * l.word) = bodyOf l h :=
    readAt_append_mid _ _ _ _ _ (identOf_length l h hf.ident) (bodyOf_length l h)
  have h3 : (identOf l h).take 4 = magic := by simp [identOf, magic]
  have h4 : (identOf l h).getD 4 0 = l.cls := by simp [identOf, magic]
  have h5 : (identOf l h).getD 5 0 = l.data := by simp [identOf, magic]
  unfold parse
  simp only [h1, identOf_length l h hf.ident, h3, h4, h5, lookup_layout, hsum, h2, unpack, bodyOf_length,
    unpack_body l h hf, pSizesOf, pIdxOf]
  simp




structure PFits (l : Layout) (p : PHeader) : Prop where
  ptype : p.ptype < 256 ^ 4
  pflags : p.pflags < 256 ^ 4
  offset : p.offset < 256 ^ l.word
  vaddr : p.vaddr < 256 ^ l.word
  paddr : p.paddr < 256 ^ l.word
  filesz : p.filesz < 256 ^ l.word
  memsz : p.memsz < 256 ^ l.word
  align : p.align < 256 ^ l.word

theorem encodePHeader_length (l : Layout) (p : PHeader) : (encodePHeader l p).length = (pSizesOf l).sum := by
  rcases l with ⟨_ | _, le⟩ <;> simp [encodePHeader, pSizesOf, encNum_length]

/-- a program header decodes to the fields that were encoded; in particular the three fields the code looks at
    (`p_type`, `p_offset`, `p_filesz`, found through the layout's index triple) -/
theorem unpack_encodePHeader (l : Layout) (p : PHeader) (hp : PFits l p) :
    ∃ d, unpack l.le (pSizesOf l) (encodePHeader l p) = some d ∧
      d.getD (pIdxOf l).1 0 = p.ptype ∧ d.getD (pIdxOf l).2.1 0 = p.offset ∧ d.getD (pIdxOf l).2.2 0 = p.filesz := by
  have hl := encodePHeader_length l p
  rcases l with ⟨_ | _, le⟩
  · have hw : ∀ n, n < 256 ^ (Layout.word ⟨false, le⟩) → n < 256 ^ 4 := fun n h => h
    refine ⟨[p.ptype, p.offset, p.vaddr, p.paddr, p.filesz, p.memsz, p.pflags, p.align], ?_, rfl, rfl, rfl⟩
    simp only [unpack, hl, beq_self_eq_true, if_true, Option.some.injEq]
    simp only [encodePHeader, pSizesOf, List.append_assoc, Bool.false_eq_true, if_false]
    rw [unpackFields_enc _ _ _ _ _ hp.ptype, unpackFields_enc _ _ _ _ _ (hw _ hp.offset),
      unpackFields_enc _ _ _ _ _ (hw _ hp.vaddr), unpackFields_enc _ _ _ _ _ (hw _ hp.paddr),
      unpackFields_enc _ _ _ _ _ (hw _ hp.filesz), unpackFields_enc _ _ _ _ _ (hw _ hp.memsz),
      unpackFields_enc _ _ _ _ _ hp.pflags]
    have := unpackFields_enc le 4 [] p.align [] (hw _ hp.align)
    simpa [unpackFields] using this
  · have hw : ∀ n, n < 256 ^ (Layout.word ⟨true, le⟩) → n < 256 ^ 8 := fun n h => h
    refine ⟨[p.ptype, p.pflags, p.offset, p.vaddr, p.paddr, p.filesz, p.memsz, p.align], ?_, rfl, rfl, rfl⟩
    simp only [unpack, hl, beq_self_eq_true, if_true, Option.some.injEq]
    simp only [encodePHeader, pSizesOf, List.append_assoc, if_true]
    rw [unpackFields_enc _ _ _ _ _ hp.ptype, unpackFields_enc _ _ _ _ _ hp.pflags,
      unpackFields_enc _ _ _ _ _ (hw _ hp.offset), unpackFields_enc _ _ _ _ _ (hw _ hp.vaddr),
      unpackFields_enc _ _ _ _ _ (hw _ hp.paddr), unpackFields_enc _ _ _ _ _ (hw _ hp.filesz),
      unpackFields_enc _ _ _ _ _ (hw _ hp.memsz)]
    have := unpackFields_enc le 8 [] p.align [] (hw _ hp.align)
    simpa [unpackFields] using this

/-- what the loop sees at program-header index `i` -/
def entryAt (f : Bytes) (x : Header) (i : Nat) : Option (List Nat) :=
  unpack x.le x.pSizes (readAt f (x.phoff + x.phentsize * i) x.pSizes.sum)

/-- index `i` is passed over: the entry is unreadable (short read) or is not PT_INTERP -/
def Skipped (f : Bytes) (x : Header) (i : Nat) : Prop :=
  x.phoff + x.phentsize * i ≤ ssizeMax ∧
    (entryAt f x i = none ∨ ∃ d, entryAt f x i = some d ∧ d.getD x.pIdx.1 0 ≠ 3)

theorem interpLoop_skip (f : Bytes) (x : Header) (k n i : Nat)
    (hs : ∀ j, i ≤ j → j < i + k → Skipped f x j) (hk : k ≤ n) :
    interpLoop f x n i = interpLoop f x (n - k) (i + k) := by
  induction k generalizing n i with
  | zero => simp
  | succ k ih =>
    obtain ⟨n', rfl⟩ : ∃ n', n = n' + 1 := ⟨n - 1, by omega⟩
    have h0 := hs i (Nat.le_refl _) (by omega)
    have hnext : interpLoop f x (n' + 1) i = interpLoop f x n' (i + 1) := by
      obtain ⟨hpos, hcase⟩ := h0
      have hpos' : ¬ (x.phoff + x.phentsize * i > ssizeMax) := by omega
      rw [interpLoop]
      simp only [hpos', if_false]
      rcases hcase with hnone | ⟨d, hd, h3⟩
      · simp only [entryAt] at hnone; simp only [hnone]
      · simp only [entryAt] at hd; simp only [hd]
        have : (d.getD x.pIdx.1 0 != 3) = true := by simpa using h3
        simp only [this, if_true]
    rw [hnext, ih n' (i + 1) (fun j h1 h2 => hs j (by omega) (by omega)) (by omega)]
    congr 1 <;> omega

/-- the interpreter is the content of the **first** readable PT_INTERP entry -/
theorem interp_first (f : Bytes) (x : Header) (k : Nat) (hk : k < x.phnum)
    (hs : ∀ j < k, Skipped f x j) (d : List Nat) (hd : entryAt f x k = some d) (h3 : d.getD x.pIdx.1 0 = 3)
    (hpos : x.phoff + x.phentsize * k ≤ ssizeMax)
    (hoff : d.getD x.pIdx.2.1 0 ≤ ssizeMax) (hsz : d.getD x.pIdx.2.2 0 ≤ ssizeMax) :
    interpreter f x = .ok (some (stripNul (readAt f (d.getD x.pIdx.2.1 0) (d.getD x.pIdx.2.2 0)))) := by
  unfold interpreter
  rw [interpLoop_skip f x k x.phnum 0 (fun j _ h2 => hs j (by omega)) (by omega)]
  obtain ⟨n', hn'⟩ : ∃ n', x.phnum - k = n' + 1 := ⟨x.phnum - k - 1, by omega⟩
  rw [hn', Nat.zero_add, interpLoop]
  have hpos' : ¬ (x.phoff + x.phentsize * k > ssizeMax) := by omega
  simp only [entryAt] at hd
  have h3' : (d.getD x.pIdx.1 0 != 3) = false := by rw [h3]; rfl
  have hlim : (decide (d.getD x.pIdx.2.1 0 > ssizeMax) || decide (d.getD x.pIdx.2.2 0 > ssizeMax)) = false := by
    simp only [Bool.or_eq_false_iff, decide_eq_false_iff_not]; omega
  simp only [hpos', if_false, hd, h3', hlim, Bool.false_eq_true]

/-- no readable PT_INTERP entry: `None` -/
theorem interp_none (f : Bytes) (x : Header) (hs : ∀ j < x.phnum, Skipped f x j) : interpreter f x = .ok none := by
  unfold interpreter
  rw [interpLoop_skip f x x.phnum x.phnum 0 (fun j _ h2 => hs j (by omega)) (Nat.le_refl _)]
  simp [interpLoop]


end Elf
