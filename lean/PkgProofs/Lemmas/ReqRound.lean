import PkgProofs.Lemmas.ReqParse
import PkgProofs.Lemmas.SpecSplit
/-!
Lemmas for C08: `SpecifierSet(str(s))`, `str` as the canonical layout, and the round trip `Requirement(str(r))`.
-/
namespace ReqRound
open Py Mk Req MkLex ReqLex ReqParse ReqL Pep508 MkParse MkFmt MkLexP
set_option linter.unusedSimpArgs false

/-! ### `SpecifierSet(str(specifier))` -/

theorem tailS_flatten : (cs : List Str) → tailS cs = (cs.map (44 :: ·)).flatten
  | [] => rfl
  | c :: cs => by simp [tailS, tailS_flatten cs]

theorem map_id_of {α} (f : α → α) : (l : List α) → (∀ x ∈ l, f x = x) → l.map f = l
  | [], _ => rfl
  | x :: xs, h => by simp [h x (by simp), map_id_of f xs (fun y hy => h y (by simp [hy]))]

/-- splitting the canonical clause list at the commas gives back the clauses -/
theorem clauses_specS (cs : List Str) (h1 : ∀ c ∈ cs, 44 ∉ c) (h2 : ∀ c ∈ cs, strip c = c) (h3 : ∀ c ∈ cs, c ≠ []) :
    clauses (specS cs) = cs := by
  cases cs with
  | nil => simp [clauses, SSet.clauses, specS, splitOn, strip]
  | cons c cs' =>
    have hs : splitOn 44 (specS (c :: cs')) = c :: cs' := by
      rw [specS, tailS_flatten]
      exact SS.splitOn_items 44 c cs' (h1 c (by simp)) (fun i hi => h1 i (by simp [hi]))
    unfold clauses SSet.clauses
    rw [hs]
    rw [map_id_of strip _ h2, List.filter_eq_self]
    intro x hx
    have := h3 x hx
    cases x with
    | nil => exact absurd rfl this
    | cons _ _ => rfl

theorem parseAll_map (ms : List S.Spec) (h : ∀ sp ∈ ms, S.parseSpec sp.str = some sp) :
    parseAll (ms.map S.Spec.str) = some ms := by
  induction ms with
  | nil => rfl
  | cons sp ms ih =>
    simp only [List.map_cons, parseAll, SSet.parseAll, h sp (by simp)]
    have := ih (fun x hx => h x (by simp [hx]))
    simp only [parseAll] at this
    rw [this]

/-- a list whose members have pairwise different keys is its own `frozenset` -/
theorem foldl_insertSpec : (l acc : List S.Spec) → ((acc ++ l).map key).Nodup → l.foldl insertSpec acc = acc ++ l
  | [], acc, _ => by simp
  | sp :: l, acc, h => by
    have hk : hasKey acc (key sp) = false := by
      cases hh : hasKey acc (key sp) with
      | false => rfl
      | true =>
        exfalso
        rw [hasKey_iff] at hh
        simp only [List.map_append, List.map_cons] at h
        have := List.nodup_append.mp h
        exact this.2.2 _ hh _ (by simp) rfl
    simp only [List.foldl_cons, insertSpec, hk, Bool.false_eq_true, if_false]
    rw [foldl_insertSpec l (acc ++ [sp]) (by simpa using h)]
    simp

theorem specSet_of_nodup (l : List S.Spec) (h : (l.map key).Nodup) : specSet l = l := by
  simpa [specSet] using foldl_insertSpec l [] (by simpa using h)


theorem mkSpecSet_nil : mkSpecSet [] = .ok [] := by
  simp [mkSpecSet, clauses, SSet.clauses, splitOn, strip, parseAll, SSet.parseAll, specSet]

/-! ### well-formed requirements -/

/-- a member whose string form is one clean clause: it parses back to the member, and the SPECIFIER rule finds exactly
it in front of `,`, `;` or the end -/
structure ClauseOK (sp : S.Spec) : Prop where
  chars : ∀ x ∈ sp.ver, S.isArbChar x = true ∧ x ≠ 44
  stripped : strip sp.str = sp.str
  parses : S.parseSpec sp.str = some sp
  tok : sp.op ≠ .arbitrary → TokExact sp.str

/-- what `Requirement(...)` establishes (see `C08.parse_wf` for the parts proved from the parser) -/
structure Wf (r : Requirement) : Prop where
  name : IdentOK r.name
  extras : ∀ e ∈ r.extras, IdentOK e
  extrasNodup : r.extras.Nodup
  spec : ∀ sp ∈ r.spec, ClauseOK sp ∧ (ckey sp).isSome = true
  specNodup : (r.spec.map key).Nodup
  url : ∀ u, r.url = some u → UrlOK u ∧ r.spec = []
  marker : ∀ m, r.marker = some m → MarkerOK m ∧ ∀ a ∈ atomsL m, normAtom X a = a

theorem opStr_facts (op : S.Op) : op.str ≠ [] ∧ (∀ x ∈ op.str, S.isArbChar x = true ∧ x ≠ 44) := by
  cases op <;> decide

theorem opStr_arb : S.Op.str .arbitrary = [61, 61, 61] := by decide

theorem goodClause_of (sp : S.Spec) (h : ClauseOK sp) : GoodClause sp.str := by
  obtain ⟨h1, h2⟩ := opStr_facts sp.op
  refine ⟨⟨?_, ?_⟩, ?_⟩
  · simp [S.Spec.str, h1]
  · intro x hx
    simp only [S.Spec.str, List.mem_append] at hx
    rcases hx with hx | hx
    · exact (h2 x hx).1
    · exact (h.chars x hx).1
  · by_cases ha : sp.op = .arbitrary
    · exact Or.inl ⟨sp.ver, by simp [S.Spec.str, ha, opStr_arb]⟩
    · exact Or.inr (h.tok ha)

theorem no_comma_str (sp : S.Spec) (h : ClauseOK sp) : 44 ∉ sp.str := by
  intro hx
  simp only [S.Spec.str, List.mem_append] at hx
  rcases hx with hx | hx
  · exact ((opStr_facts sp.op).2 44 hx).2 rfl
  · exact (h.chars 44 hx).2 rfl

/-- the members in the order their strings are sorted -/
def sortedSpec (ms : List S.Spec) : List S.Spec := sortBy (fun a b => strLe a.str b.str) ms

theorem sortedSpec_perm (ms : List S.Spec) : (sortedSpec ms).Perm ms := sortBy_perm _ ms

theorem sorted_strs (ms : List S.Spec) : sortBy strLe (ms.map S.Spec.str) = (sortedSpec ms).map S.Spec.str :=
  sortBy_map strLe S.Spec.str ms

/-- `SpecifierSet(str(s))` has the members of `s` -/
theorem mkSpecSet_specStr (ms : List S.Spec) (h : ∀ sp ∈ ms, ClauseOK sp ∧ (ckey sp).isSome = true) (hn : (ms.map key).Nodup) :
    mkSpecSet (specS (sortBy strLe (ms.map S.Spec.str))) = .ok (sortedSpec ms) := by
  have hp := sortedSpec_perm ms
  have hmem : ∀ sp ∈ sortedSpec ms, ClauseOK sp ∧ (ckey sp).isSome = true := fun sp hsp => h sp (hp.mem_iff.mp hsp)
  rw [sorted_strs]
  have hc : clauses (specS ((sortedSpec ms).map S.Spec.str)) = (sortedSpec ms).map S.Spec.str := by
    apply clauses_specS
    · intro c hc; obtain ⟨sp, hsp, rfl⟩ := List.mem_map.mp hc; exact no_comma_str sp (hmem sp hsp).1
    · intro c hc; obtain ⟨sp, hsp, rfl⟩ := List.mem_map.mp hc; exact (hmem sp hsp).1.stripped
    · intro c hc; obtain ⟨sp, hsp, rfl⟩ := List.mem_map.mp hc
      simp [S.Spec.str, (opStr_facts sp.op).1]
  have hpa := parseAll_map (sortedSpec ms) (fun sp hsp => (hmem sp hsp).1.parses)
  have hall : ((sortedSpec ms).all fun sp => (ckey sp).isSome) = true := by
    rw [List.all_eq_true]; exact fun sp hsp => (hmem sp hsp).2
  have hnd : ((sortedSpec ms).map key).Nodup := (hp.map key).nodup_iff.mpr hn
  simp only [mkSpecSet, hc, hpa, hall, if_true, specSet_of_nodup _ hnd]

/-! ### `str` is the canonical layout -/

theorem sortBy_isEmpty {α : Type} (le : α → α → Bool) (l : List α) : (sortBy le l).isEmpty = l.isEmpty := by
  have := (sortBy_perm le l).length_eq
  cases l with
  | nil => rfl
  | cons x xs =>
    cases h : sortBy le (x :: xs) with
    | nil => rw [h] at this; simp at this
    | cons _ _ => rfl

theorem extS_eq (exs : List Str) : extS exs = if exs.isEmpty then [] else [91] ++ join [44] exs ++ [93] := by
  cases exs with
  | nil => rfl
  | cons e es => simp [extS]

theorem str_eq_render (r : Requirement) (h : ∀ u, r.url = some u → r.spec = []) :
    Req.str r = render r.name (sortedExtras r) (sortBy strLe (r.spec.map S.Spec.str)) r.url r.marker := by
  have hE : (if r.extras.isEmpty then [] else [91] ++ join [44] (sortedExtras r) ++ [93]) = extS (sortedExtras r) := by
    rw [extS_eq, sortedExtras, sortBy_isEmpty]
  have hS : (if r.spec.isEmpty then [] else specStr r.spec) = specS (sortBy strLe (r.spec.map S.Spec.str)) := by
    rw [specS_eq_join]
    cases hs : r.spec with
    | nil => rfl
    | cons sp sps => simp [specStr]
  unfold Req.str render
  rw [hE, hS]
  cases hu : r.url with
  | none =>
    cases hm : r.marker with
    | none => simp [detS, markS]
    | some m => simp [detS, markS]
  | some u =>
    have := h u hu
    cases hm : r.marker with
    | none => simp [detS, markS, urlS, this, specS, sortBy]
    | some m => simp [detS, markS, urlS, this, specS, sortBy]

/-! ### the round trip -/

mutual
theorem normM_fixed (X : Ext) : (m : M) → (∀ a ∈ atomsM m, normAtom X a = a) → normM X m = m
  | .atom a, h => by simp [normM, h a (by simp [atomsM])]
  | .bool s, _ => by simp [normM]
  | .list l, h => by simp only [normM]; rw [normalize_fixed X l (fun a ha => h a (by simpa [atomsM] using ha))]
theorem normalize_fixed (X : Ext) : (l : List M) → (∀ a ∈ atomsL l, normAtom X a = a) → normalizeExtra X l = l
  | [], _ => by simp [normalizeExtra]
  | m :: ms, h => by
    simp only [normalizeExtra]
    rw [normM_fixed X m (fun a ha => h a (by simp [atomsL, ha])), normalize_fixed X ms (fun a ha => h a (by simp [atomsL, ha]))]
end

theorem str_nfTop (m : List M) : Mk.str (nfTop m) = Mk.str m := by
  rw [str_eq_print, str_eq_print, nfTop_idem]

/-- the requirement `Requirement(str(r))` constructs -/
def reparsed (r : Requirement) : Requirement :=
  { name := r.name, url := r.url, extras := sortedExtras r, spec := sortedSpec r.spec, marker := r.marker.map nfTop }

theorem parse_str (r : Requirement) (h : Wf r) : Req.parse (Req.str r) = .ok (reparsed r) := by
  have hsp : ∀ u, r.url = some u → r.spec = [] := fun u hu => (h.url u hu).2
  rw [str_eq_render r hsp]
  have hpe := sortBy_perm strLe r.extras
  have hex : ∀ e ∈ sortedExtras r, IdentOK e := fun e he => h.extras e (hpe.mem_iff.mp he)
  have hps := sortBy_perm strLe (r.spec.map S.Spec.str)
  have hcs : ∀ c ∈ sortBy strLe (r.spec.map S.Spec.str), GoodClause c := by
    intro c hc
    obtain ⟨sp, hsp', rfl⟩ := List.mem_map.mp (hps.mem_iff.mp hc)
    exact goodClause_of sp (h.spec sp hsp').1
  have hu : ∀ u, r.url = some u → UrlOK u ∧ sortBy strLe (r.spec.map S.Spec.str) = [] := by
    intro u hu'
    obtain ⟨h1, h2⟩ := h.url u hu'
    exact ⟨h1, by simp [h2, sortBy]⟩
  have hm : ∀ x, r.marker = some x → MarkerOK x := fun x hx => (h.marker x hx).1
  obtain ⟨P, hP, e1, e2, e3, e4, e5⟩ := parseSource_render r.name h.name (sortedExtras r) hex _ hcs r.url hu r.marker hm
  have hms := mkSpecSet_specStr r.spec h.spec h.specNodup
  have hurl : (if (r.url.getD []).isEmpty then none else some (r.url.getD [])) = r.url := by
    cases hu' : r.url with
    | none => rfl
    | some u =>
      obtain ⟨⟨hne, _⟩, _⟩ := h.url u hu'
      cases u with
      | nil => exact absurd rfl hne
      | cons _ _ => rfl
  have hdd : dedup (sortedExtras r) = sortedExtras r := dedup_of_nodup _ (hpe.nodup_iff.mpr h.extrasNodup)
  have hmk : (r.marker.map nfTop).map (normalizeExtra Req.X) = r.marker.map nfTop := by
    cases hm' : r.marker with
    | none => rfl
    | some m =>
      simp only [Option.map_some]
      rw [normalize_fixed Req.X (nfTop m) (by rw [atomsL_nfTop]; exact (h.marker m hm').2)]
  simp only [Req.parse, hP, bind, Except.bind, ofParsed, e1, e2, e3, e4, e5, hms, hurl, hdd, hmk, pure, Except.pure, reparsed]

theorem reparsed_props (r : Requirement) (hsp : ∀ u, r.url = some u → r.spec = []) :
    Req.eq (reparsed r) r = true ∧ Req.str (reparsed r) = Req.str r ∧ Req.hashKey (reparsed r) = Req.hashKey r := by
  have hpe := sortBy_perm strLe r.extras
  have hpsp := sortedSpec_perm r.spec
  refine ⟨?_, ?_, ?_⟩
  · have h1 : setEq (sortedExtras r) r.extras = true := (setEq_iff _ _).mpr (fun x => hpe.mem_iff)
    have h2 : specEq (sortedSpec r.spec) r.spec = true := (specEq_iff _ _).mpr (fun k => (hpsp.map key).mem_iff)
    have h3 : markerEq (r.marker.map nfTop) r.marker = true := by
      cases r.marker with
      | none => rfl
      | some m => simp [markerEq, Mk.eq, str_nfTop]
    simp [Req.eq, reparsed, h1, h2, h3]
  · have hsp' : ∀ u, (reparsed r).url = some u → (reparsed r).spec = [] := by
      intro u hu; simp only [reparsed] at hu ⊢; rw [hsp u hu]; rfl
    rw [str_eq_render r hsp, str_eq_render (reparsed r) hsp']
    have e1 : sortedExtras (reparsed r) = sortedExtras r := sortStr_perm_invariant hpe
    have e2 : sortBy strLe ((reparsed r).spec.map S.Spec.str) = sortBy strLe (r.spec.map S.Spec.str) :=
      sortStr_perm_invariant (hpsp.map _)
    rw [e1, e2]
    simp only [reparsed]
    cases r.marker with
    | none => rfl
    | some m =>
      cases r.url with
      | none => simp [render, detS, markS, str_nfTop]
      | some u => simp [render, detS, markS, urlS, str_nfTop]
  · have e1 : sortBy strLe (dedup (sortedExtras r)) = sortBy strLe (dedup r.extras) :=
      sorted_dedup_congr (fun x => hpe.mem_iff)
    have e2 : sortBy strLe (dedup ((sortedSpec r.spec).map key)) = sortBy strLe (dedup (r.spec.map key)) :=
      sorted_dedup_congr (fun k => (hpsp.map key).mem_iff)
    have e3 : (r.marker.map nfTop).map Mk.hashKey = r.marker.map Mk.hashKey := by
      cases r.marker with
      | none => rfl
      | some m => simp [Mk.hashKey, str_nfTop]
    simp only [Req.hashKey, reparsed, e1, e2, e3]
end ReqRound
