import PkgModel.PyRt
/-!
# Reasoning about the shallow Python run-time

`simp` lemmas that evaluate each run-time primitive on well-typed arguments, and the "pure predicate"
forms of the monadic list traversals.  Proofs of `Src.*_eq_model` unfold the generated definition and
rewrite with these.
-/
/-! NOTE: the evaluation lemmas are proved `by rfl`, not `:= rfl`: a `rfl` lemma is applied by `simp` without a proof
step and the kernel then has to re-discover the reduction of a whole `do` block by itself (minutes). -/
namespace PyRt
open Py

@[simp] theorem ok_bind {α β} (a : α) (f : α → M β) : (Except.ok a >>= f) = f a := by rfl
@[simp] theorem err_bind {α β} (e : PyExc) (f : α → M β) : ((Except.error e : M α) >>= f) = .error e := by rfl
@[simp] theorem pure_ok {α} (a : α) : (pure a : M α) = .ok a := by rfl
@[simp] theorem throw_err {α} (e : PyExc) : (throw e : M α) = .error e := by rfl
@[simp] theorem map_ok {α β} (f : α → β) (a : α) : f <$> (Except.ok a : M α) = .ok (f a) := by rfl

@[simp] theorem tryCatch_ok {α} (a : α) (h : PyExc → M α) : tryCatchThe PyExc (Except.ok a : M α) h = .ok a := by rfl
@[simp] theorem tryCatch_err {α} (e : PyExc) (h : PyExc → M α) : tryCatchThe PyExc (Except.error e : M α) h = h e := by rfl
@[simp] theorem tryCatch_ok' {α} (a : α) (h : PyExc → M α) : MonadExcept.tryCatch (Except.ok a : M α) h = .ok a := by rfl
@[simp] theorem tryCatch_err' {α} (e : PyExc) (h : PyExc → M α) : MonadExcept.tryCatch (Except.error e : M α) h = h e := by rfl

/-! ### traversals with a pure predicate / function -/

theorem anyM_ok (f : PyVal → M PyVal) (p : PyVal → Bool) (l : List PyVal)
    (h : ∀ x ∈ l, f x = .ok (.bool (p x))) : anyM f l = .ok (l.any p) := by
  induction l with
  | nil => rfl
  | cons x xs ih =>
    simp only [anyM, h x (List.mem_cons_self ..), List.any_cons, ok_bind, truthy]
    cases hp : p x
    · simp [ih (fun y hy => h y (List.mem_cons_of_mem _ hy))]
    · simp

theorem allM_ok (f : PyVal → M PyVal) (p : PyVal → Bool) (l : List PyVal)
    (h : ∀ x ∈ l, f x = .ok (.bool (p x))) : allM f l = .ok (l.all p) := by
  induction l with
  | nil => rfl
  | cons x xs ih =>
    simp only [allM, h x (List.mem_cons_self ..), List.all_cons, ok_bind, truthy]
    cases hp : p x
    · simp
    · simp [ih (fun y hy => h y (List.mem_cons_of_mem _ hy))]

theorem takeWhileM_ok (f : PyVal → M PyVal) (p : PyVal → Bool) (l : List PyVal)
    (h : ∀ x ∈ l, f x = .ok (.bool (p x))) : takeWhileM f l = .ok (l.takeWhile p) := by
  induction l with
  | nil => rfl
  | cons x xs ih =>
    simp only [takeWhileM, h x (List.mem_cons_self ..), List.takeWhile_cons, ok_bind, truthy]
    cases hp : p x
    · simp
    · simp [ih (fun y hy => h y (List.mem_cons_of_mem _ hy))]

theorem dropWhileM_ok (f : PyVal → M PyVal) (p : PyVal → Bool) (l : List PyVal)
    (h : ∀ x ∈ l, f x = .ok (.bool (p x))) : dropWhileM f l = .ok (l.dropWhile p) := by
  induction l with
  | nil => rfl
  | cons x xs ih =>
    simp only [dropWhileM, h x (List.mem_cons_self ..), List.dropWhile_cons, ok_bind, truthy]
    cases hp : p x
    · simp
    · simp [ih (fun y hy => h y (List.mem_cons_of_mem _ hy))]

theorem mapM_ok (f : PyVal → M PyVal) (g : PyVal → PyVal) (l : List PyVal)
    (h : ∀ x ∈ l, f x = .ok (g x)) : mapM f l = .ok (l.map g) := by
  induction l with
  | nil => rfl
  | cons x xs ih =>
    simp only [mapM, h x (List.mem_cons_self ..), ok_bind, List.map_cons,
      ih (fun y hy => h y (List.mem_cons_of_mem _ hy)), pure_ok]

theorem filterM_ok (f : PyVal → M PyVal) (p : PyVal → Bool) (l : List PyVal)
    (h : ∀ x ∈ l, f x = .ok (.bool (p x))) : filterM f l = .ok (l.filter p) := by
  induction l with
  | nil => rfl
  | cons x xs ih =>
    simp only [filterM, h x (List.mem_cons_self ..), ok_bind, truthy,
      ih (fun y hy => h y (List.mem_cons_of_mem _ hy)), pure_ok, List.filter_cons]
    cases p x <;> rfl

/-! ### truth and equality -/

@[simp] theorem truthy_bool (b : Bool) : truthy (.bool b) = b := by rfl
@[simp] theorem truthy_none : truthy .none = false := by rfl
@[simp] theorem truthy_str (s : Str) : truthy (.str s) = !s.isEmpty := by rfl
@[simp] theorem truthy_int (i : Int) : truthy (.int i) = (i != 0) := by rfl
@[simp] theorem truthy_list (l : List PyVal) : truthy (.list l) = !l.isEmpty := by rfl
@[simp] theorem truthy_tuple (l : List PyVal) : truthy (.tuple l) = !l.isEmpty := by rfl
@[simp] theorem isNone_none : isNone .none = true := by rfl
@[simp] theorem isNone_str (s : Str) : isNone (.str s) = false := by rfl
@[simp] theorem isNone_int (i : Int) : isNone (.int i) = false := by rfl
@[simp] theorem isNone_bool (b : Bool) : isNone (.bool b) = false := by rfl
@[simp] theorem isNone_list (l) : isNone (.list l) = false := by rfl
@[simp] theorem isNone_tuple (l) : isNone (.tuple l) = false := by rfl
@[simp] theorem eq_str (a b : Str) : PyVal.eq (.str a) (.str b) = (a == b) := by simp [PyVal.eq]
@[simp] theorem eq_int (a b : Int) : PyVal.eq (.int a) (.int b) = (a == b) := by simp [PyVal.eq]
@[simp] theorem eq_none_none : PyVal.eq .none .none = true := by simp [PyVal.eq]

/-! ### sequences of strings -/

theorem takewhile_list (f : PyVal → M PyVal) (p : PyVal → Bool) (l : List PyVal)
    (h : ∀ x ∈ l, f x = .ok (.bool (p x))) : takewhile f (.list l) = .ok (.iter (l.takeWhile p)) := by
  simp [takewhile, iterate, takeWhileM_ok f p l h]

@[simp] theorem iterate_list (l) : iterate (.list l) = .ok l := by rfl
@[simp] theorem iterate_tuple (l) : iterate (.tuple l) = .ok l := by rfl
@[simp] theorem iterate_iter (l) : iterate (.iter l) = .ok l := by rfl
@[simp] theorem list_iter (l) : list_ (.iter l) = .ok (.list l) := by rfl
@[simp] theorem list_list (l) : list_ (.list l) = .ok (.list l) := by rfl
@[simp] theorem tuple_iter (l) : tuple_ (.iter l) = .ok (.tuple l) := by rfl
@[simp] theorem len_list (l : List PyVal) : len (.list l) = .ok (.int l.length) := by rfl
@[simp] theorem len_tuple (l : List PyVal) : len (.tuple l) = .ok (.int l.length) := by rfl
@[simp] theorem len_str (s : Str) : len (.str s) = .ok (.int s.length) := by rfl
@[simp] theorem list_append_list (l : List PyVal) (x) : list_append (.list l) x = .ok (.list (l ++ [x])) := by rfl
@[simp] theorem sub_int (a b : Int) : sub (.int a) (.int b) = .ok (.int (a - b)) := by rfl
@[simp] theorem add_int (a b : Int) : add (.int a) (.int b) = .ok (.int (a + b)) := by rfl

theorem max2_int (a b : Int) : max2 (.int a) (.int b) = .ok (.int (max a b)) := by
  simp only [max2, cmp, asInt, Cmp.onInt, pure_ok, ok_bind]
  by_cases h : b > a
  · simp [h, Int.max_def]; omega
  · simp [h, Int.max_def]; omega

theorem joinStrs_strs (sep : Str) (l : List Str) : joinStrs sep (l.map .str) = .ok (Py.join sep l) := by
  induction l with
  | nil => rfl
  | cons x xs ih =>
    cases xs with
    | nil => rfl
    | cons y ys =>
      simp only [List.map_cons, joinStrs, Py.join] at ih ⊢
      rw [ih]; rfl

end PyRt

namespace PyRt
open Py

@[simp] theorem getitem_list_zero (x : PyVal) (l : List PyVal) : getitem (.list (x :: l)) (.int 0) = .ok x := by
  simp [getitem, asInt, normIndex]

@[simp] theorem getitem_list_one (x y : PyVal) (l : List PyVal) : getitem (.list (x :: y :: l)) (.int 1) = .ok y := by
  simp [getitem, asInt, normIndex]

@[simp] theorem getitem_tuple_zero (x : PyVal) (l : List PyVal) : getitem (.tuple (x :: l)) (.int 0) = .ok x := by
  simp [getitem, asInt, normIndex]

@[simp] theorem getitem_tuple_one (x y : PyVal) (l : List PyVal) : getitem (.tuple (x :: y :: l)) (.int 1) = .ok y := by
  simp [getitem, asInt, normIndex]

theorem clampBound_nat (n d k : Nat) : clampBound n d (.int k) = .ok (min k n) := by
  simp [clampBound, asInt]

@[simp] theorem clampBound_none (n d : Nat) : clampBound n d .none = .ok d := by rfl

/-- `l[k:]` -/
theorem getslice_list_from (l : List PyVal) (k : Nat) :
    getslice (.list l) (.int k) .none = .ok (.list (l.drop k)) := by
  simp only [getslice, clampBound_nat, clampBound_none, ok_bind, pure_ok, sliceList, List.take_length]
  congr 2
  by_cases h : k ≤ l.length
  · rw [Nat.min_eq_left h]
  · rw [Nat.min_eq_right (by omega), List.drop_of_length_le (by omega), List.drop_of_length_le (by omega)]

/-- `t[:k]` -/
theorem getslice_tuple_to (l : List PyVal) (k : Nat) :
    getslice (.tuple l) .none (.int k) = .ok (.tuple (l.take k)) := by
  simp only [getslice, clampBound_nat, clampBound_none, ok_bind, pure_ok, sliceList, List.drop_zero]
  congr 2
  by_cases h : k ≤ l.length
  · rw [Nat.min_eq_left h]
  · rw [Nat.min_eq_right (by omega), List.take_of_length_le (by omega), List.take_of_length_le (by omega)]

/-- `l[:k]` -/
theorem getslice_list_to (l : List PyVal) (k : Nat) :
    getslice (.list l) .none (.int k) = .ok (.list (l.take k)) := by
  simp only [getslice, clampBound_nat, clampBound_none, ok_bind, pure_ok, sliceList, List.drop_zero]
  congr 2
  by_cases h : k ≤ l.length
  · rw [Nat.min_eq_left h]
  · rw [Nat.min_eq_right (by omega), List.take_of_length_le (by omega), List.take_of_length_le (by omega)]

/-- `[x] * n` -/
theorem mul_singleton (x : PyVal) (n : Int) : mul (.list [x]) (.int n) = .ok (.list (List.replicate n.toNat x)) := by
  simp only [mul, asInt, pure_ok]
  congr 2
  induction n.toNat with
  | zero => rfl
  | succ k ih => simp [List.replicate_succ, ih]

theorem list_insert_one (x : PyVal) (l : List PyVal) (y : PyVal) :
    list_insert (.list (x :: l)) (.int 1) y = .ok (.list (x :: y :: l)) := by
  have : clampBound (x :: l).length 0 (.int (1 : Nat)) = .ok (min 1 (x :: l).length) := clampBound_nat _ _ _
  simp only [list_insert]
  rw [show (PyVal.int 1) = PyVal.int ((1 : Nat) : Int) from rfl, this]
  have h : min 1 (x :: l).length = 1 := by simp [List.length_cons]
  simp

theorem chain_from_iterable_lists (ls : List (List PyVal)) :
    chain_from_iterable (.list (ls.map .list)) = .ok (.iter ls.flatten) := by
  simp only [chain_from_iterable, iterate_list, ok_bind, pure_ok]
  have : List.mapM iterate (ls.map PyVal.list) = (.ok ls : M _) := by
    induction ls with
    | nil => rfl
    | cons a as ih => simp [List.mapM_cons, ih]
  rw [this]; rfl

end PyRt

namespace PyRt
open Py

@[simp] theorem reversed_tuple (l) : reversed (.tuple l) = .ok (.iter l.reverse) := by rfl
@[simp] theorem reversed_list (l) : reversed (.list l) = .ok (.iter l.reverse) := by rfl
@[simp] theorem tuple_list (l) : tuple_ (.list l) = .ok (.tuple l) := by rfl
@[simp] theorem tuple_tuple (l) : tuple_ (.tuple l) = .ok (.tuple l) := by rfl
@[simp] theorem list_tuple (l) : list_ (.tuple l) = .ok (.list l) := by rfl

theorem dropwhile_iter (f : PyVal → M PyVal) (p : PyVal → Bool) (l : List PyVal)
    (h : ∀ x ∈ l, f x = .ok (.bool (p x))) : dropwhile f (.iter l) = .ok (.iter (l.dropWhile p)) := by
  simp [dropwhile, iterate, dropWhileM_ok f p l h]

theorem genexp_ok (f : PyVal → M PyVal) (g : PyVal → PyVal) (xs : PyVal) (l : List PyVal)
    (hx : iterate xs = .ok l) (h : ∀ x ∈ l, f x = .ok (g x)) : genexp f xs = .ok (.iter (l.map g)) := by
  simp [genexp, hx, mapM_ok f g l h]

@[simp] theorem className_obj (c fs) : className (.obj c fs) = c := by rfl
@[simp] theorem getattr_obj (c fs n) : getattr (.obj c fs) n =
    (match lookupField fs n with | some x => .ok x | Option.none => .error attributeError) := by rfl

end PyRt

namespace PyRt
open Py

@[simp] theorem format_nat (n : Nat) : format (.int (n : Int)) = .ok (dec n) := by
  simp [format]

@[simp] theorem format_str (s : Str) : format (.str s) = .ok s := by rfl
@[simp] theorem str_nat (n : Nat) : str_ (.int (n : Int)) = .ok (.str (dec n)) := by simp [str_]
@[simp] theorem str_str (s : Str) : str_ (.str s) = .ok (.str s) := by rfl

theorem join_nil (l : List Str) : Py.join [] l = l.flatten := by
  induction l with
  | nil => rfl
  | cons x xs ih =>
    cases xs with
    | nil => simp [Py.join]
    | cons y ys => simp only [Py.join, List.append_nil, List.flatten_cons] at ih ⊢; rw [ih]

/-- `"".join(parts)` for a list of strings -/
theorem str_join_empty_list (l : List Str) : str_join (.str []) (.list (l.map .str)) = .ok (.str l.flatten) := by
  simp [str_join, joinStrs_strs, join_nil]

theorem str_join_iter (sep : Str) (l : List Str) : str_join (.str sep) (.iter (l.map .str)) = .ok (.str (Py.join sep l)) := by
  simp [str_join, joinStrs_strs]

theorem str_join_list (sep : Str) (l : List Str) : str_join (.str sep) (.list (l.map .str)) = .ok (.str (Py.join sep l)) := by
  simp [str_join, joinStrs_strs]

@[simp] theorem lookupField_cons (k : String) (v : PyVal) (rest : List (String × PyVal)) (n : String) :
    lookupField ((k, v) :: rest) n = if k == n then some v else lookupField rest n := by rfl
@[simp] theorem lookupField_nil (n : String) : lookupField [] n = Option.none := by rfl

end PyRt

namespace PyRt
open Py

/-! ### `for` loops (Lean's `forIn` over the materialised items) -/

/-- a loop whose body never breaks / returns: a left fold over the items -/
theorem forIn_yield_ok {σ : Type} (l : List PyVal) (init : σ) (f : PyVal → σ → M (ForInStep σ)) (g : PyVal → σ → σ)
    (h : ∀ x ∈ l, ∀ s, f x s = .ok (.yield (g x s))) :
    forIn l init f = (.ok (l.foldl (fun s x => g x s) init) : M σ) := by
  induction l generalizing init with
  | nil => simp
  | cons x xs ih =>
    simp only [List.forIn_cons, h x (List.mem_cons_self ..) init, List.foldl_cons]
    exact ih _ (fun y hy s => h y (List.mem_cons_of_mem _ hy) s)

/-- a loop that only appends one item per iteration to an accumulator -/
theorem forIn_append_ok {α : Type} (l : List PyVal) (init : List α) (f : PyVal → List α → M (ForInStep (List α)))
    (k : PyVal → List α) (h : ∀ x ∈ l, ∀ s, f x s = .ok (.yield (s ++ k x))) :
    forIn l init f = (.ok (init ++ l.flatMap k) : M (List α)) := by
  rw [forIn_yield_ok l init f (fun x s => s ++ k x) h]
  congr 1
  induction l generalizing init with
  | nil => simp
  | cons x xs ih =>
    simp only [List.foldl_cons, List.flatMap_cons]
    rw [ih (init ++ k x) (fun y hy s => h y (List.mem_cons_of_mem _ hy) s), List.append_assoc]

end PyRt

namespace PyRt
@[simp] theorem truthy_obj (c fs) : truthy (.obj c fs) = true := by rfl
@[simp] theorem match_groups_match (gs) : match_groups (.obj "re.Match" [("groups", .tuple gs)]) = .ok (.tuple gs) := by rfl
@[simp] theorem list_extend_list_tuple (l gs) : list_extend (.list l) (.tuple gs) = .ok (.list (l ++ gs)) := by rfl
@[simp] theorem list_extend_list_list (l gs) : list_extend (.list l) (.list gs) = .ok (.list (l ++ gs)) := by rfl
end PyRt

namespace PyRt
@[simp] theorem className_str (s) : className (.str s) = "str" := by rfl
@[simp] theorem className_int (i) : className (.int i) = "int" := by rfl
@[simp] theorem className_list (l) : className (.list l) = "list" := by rfl
@[simp] theorem className_tuple (l) : className (.tuple l) = "tuple" := by rfl
end PyRt
