import PkgModel.Marker
import PkgModel.Spec.Pep508
/-!
Lemmas for C07: the `groups` loop of `_evaluate_markers` computes the value of the formula the list denotes.
-/
namespace MkEval
open Py Mk Pep508

/-- value of one item as the loop computes it -/
abbrev itemVal := @evalItem

theorem evalLoop_item (ν : Atom → Res Bool) (m : M) (h : ∀ s, m ≠ .bool s) (rest : List M) (done cur) :
    evalLoop ν (m :: rest) done cur = (itemVal ν m) >>= fun b => evalLoop ν rest done (cur ++ [b]) := by
  cases m with
  | atom a => simp [evalLoop]
  | bool s => exact absurd rfl (h s)
  | list l => simp [evalLoop]

def evalO (ν : Atom → Res Bool) : Option Formula → Res Bool
  | none => .ok false
  | some f => f.eval ν

theorem eval_joinOr (ν) (o : Option Formula) (a : Formula) (bo ba : Bool)
    (ho : evalO ν o = .ok bo) (ha : a.eval ν = .ok ba) (hbo : o = none → bo = false) :
    (joinOr o a).eval ν = .ok (bo || ba) := by
  cases o with
  | none => simp [joinOr, ha, hbo rfl]
  | some fo =>
    simp only [evalO] at ho
    simp [joinOr, Formula.eval, ho, ha, bind, Except.bind, pure, Except.pure]

theorem fOfM_not_bool {m : M} {f : Formula} (h : fOfM m = some f) : ∀ s, m ≠ .bool s := by
  intro s e; subst e; simp [fOfM] at h


theorem eval_and_err_right (ν) (a f : Formula) (ba : Bool) (e : Err) (ha : a.eval ν = .ok ba) (hf : f.eval ν = .error e) :
    (Formula.and a f).eval ν = .error e := by
  simp [Formula.eval, ha, hf, bind, Except.bind]

theorem eval_and_ok (ν) (a f : Formula) (ba b : Bool) (ha : a.eval ν = .ok ba) (hf : f.eval ν = .ok b) :
    (Formula.and a f).eval ν = .ok (ba && b) := by
  simp [Formula.eval, ha, hf, bind, Except.bind, pure, Except.pure]

/-- once a part to the left fails, the whole formula fails with that exception -/
theorem fOfRest_err (ν : Atom → Res Bool) (e : Err) :
    (rest : List M) → (o : Option Formula) → (a f : Formula) → fOfRest rest o a = some f →
    (evalO ν o = .error e ∨ (∃ bo, evalO ν o = .ok bo) ∧ a.eval ν = .error e) → f.eval ν = .error e
  | [], o, a, f, h, he => by
    simp only [fOfRest, Option.some.injEq] at h; subst h
    cases o with
    | none =>
      rcases he with he | ⟨_, he⟩
      · simp [evalO] at he
      · simpa [joinOr] using he
    | some fo =>
      rcases he with he | ⟨⟨bo, hbo⟩, he⟩
      · simp only [evalO] at he; simp [joinOr, Formula.eval, he, bind, Except.bind]
      · simp only [evalO] at hbo; simp [joinOr, Formula.eval, hbo, he, bind, Except.bind]
  | [_], _, _, _, h, _ => by simp [fOfRest] at h
  | .bool s :: m :: rest, o, a, f, h, he => by
    simp only [fOfRest] at h
    cases hm : fOfM m with
    | none => simp [hm] at h
    | some fm =>
      simp only [hm] at h
      by_cases hs : (s == s_and) = true
      · simp only [hs, if_true] at h
        refine fOfRest_err ν e rest o (.and a fm) f h ?_
        rcases he with he | ⟨hbo, he⟩
        · exact Or.inl he
        · exact Or.inr ⟨hbo, by simp [Formula.eval, he, bind, Except.bind]⟩
      · simp only [hs] at h
        by_cases hs2 : (s == s_or) = true
        · simp only [hs2, if_true, Bool.false_eq_true, if_false] at h
          refine fOfRest_err ν e rest (some (joinOr o a)) fm f h (Or.inl ?_)
          simp only [evalO]
          cases o with
          | none =>
            rcases he with he | ⟨_, he⟩
            · simp [evalO] at he
            · simpa [joinOr] using he
          | some fo =>
            rcases he with he | ⟨⟨bo, hbo⟩, he⟩
            · simp only [evalO] at he; simp [joinOr, Formula.eval, he, bind, Except.bind]
            · simp only [evalO] at hbo; simp [joinOr, Formula.eval, hbo, he, bind, Except.bind]
        · simp [hs2] at h
  | .atom _ :: _ :: _, _, _, _, h, _ => by simp [fOfRest] at h
  | .list _ :: _ :: _, _, _, _, h, _ => by simp [fOfRest] at h


theorem anyAll_append (done : List (List Bool)) (cur : List Bool) :
    anyAll (done ++ [cur]) = (anyAll done || cur.all id) := by
  simp [anyAll, List.any_append]

theorem s_and_ne_or : (s_and == s_or) = false := by decide

mutual
/-- an item's value is the value of the formula it denotes -/
theorem itemVal_eq (ν : Atom → Res Bool) : (m : M) → (f : Formula) → fOfM m = some f → itemVal ν m = f.eval ν
  | .atom a, f, h => by
    simp only [fOfM, Option.some.injEq] at h; subst h; simp [evalItem, Formula.eval]
  | .bool _, f, h => by simp [fOfM] at h
  | .list l, f, h => by
    simp only [fOfM] at h
    simpa [evalItem] using list_eq ν l f h
/-- `_evaluate_markers` on a whole list -/
theorem list_eq (ν : Atom → Res Bool) : (l : List M) → (f : Formula) → fOfL l = some f →
    (evalLoop ν l [] []).map anyAll = f.eval ν
  | [], f, h => by simp [fOfL] at h
  | m :: rest, f, h => by
    simp only [fOfL] at h
    cases hm : fOfM m with
    | none => simp [hm] at h
    | some fm =>
      simp only [hm] at h
      rw [evalLoop_item ν m (fOfM_not_bool hm), itemVal_eq ν m fm hm]
      cases hv : fm.eval ν with
      | error e =>
        rw [fOfRest_err ν e rest none fm f h (Or.inr ⟨⟨false, rfl⟩, hv⟩)]; rfl
      | ok b =>
        have := rest_eq ν rest none fm f [] [b] false b h rfl hv (fun _ => rfl) rfl (by simp)
        simpa [bind, Except.bind] using this
/-- the loop invariant: `done`/`cur` hold the values of the finished groups / the current group -/
theorem rest_eq (ν : Atom → Res Bool) : (rest : List M) → (o : Option Formula) → (a f : Formula) →
    (done : List (List Bool)) → (cur : List Bool) → (bo ba : Bool) →
    fOfRest rest o a = some f → evalO ν o = .ok bo → a.eval ν = .ok ba → (o = none → bo = false) →
    anyAll done = bo → cur.all id = ba →
    (evalLoop ν rest done cur).map anyAll = f.eval ν
  | [], o, a, f, done, cur, bo, ba, h, ho, ha, hn, hd, hc => by
    simp only [fOfRest, Option.some.injEq] at h; subst h
    rw [eval_joinOr ν o a bo ba ho ha hn]
    simp [evalLoop, Except.map, anyAll_append, hd, hc]
  | [_], _, _, _, _, _, _, _, h, _, _, _, _, _ => by simp [fOfRest] at h
  | .bool s :: m :: rest, o, a, f, done, cur, bo, ba, h, ho, ha, hn, hd, hc => by
    simp only [fOfRest] at h
    cases hm : fOfM m with
    | none => simp [hm] at h
    | some fm =>
      simp only [hm] at h
      by_cases hs : (s == s_and) = true
      · have hs' : (s == s_or) = false := by
          have : s = s_and := by simpa using hs
          subst this; exact s_and_ne_or
        simp only [hs, if_true] at h
        simp only [evalLoop, hs', hs, Bool.false_eq_true, if_false, if_true]
        rw [evalLoop_item ν m (fOfM_not_bool hm), itemVal_eq ν m fm hm]
        cases hv : fm.eval ν with
        | error e =>
          rw [fOfRest_err ν e rest o (.and a fm) f h (Or.inr ⟨⟨bo, ho⟩, eval_and_err_right ν a fm ba e ha hv⟩)]; rfl
        | ok b =>
          have := rest_eq ν rest o (.and a fm) f done (cur ++ [b]) bo (ba && b) h ho
            (eval_and_ok ν a fm ba b ha hv) hn hd (by simp [hc])
          simpa [bind, Except.bind] using this
      · simp only [hs] at h
        by_cases hs2 : (s == s_or) = true
        · simp only [hs2, if_true, Bool.false_eq_true, if_false] at h
          simp only [evalLoop, hs2, if_true]
          rw [evalLoop_item ν m (fOfM_not_bool hm), itemVal_eq ν m fm hm]
          have hj := eval_joinOr ν o a bo ba ho ha hn
          cases hv : fm.eval ν with
          | error e =>
            rw [fOfRest_err ν e rest (some (joinOr o a)) fm f h (Or.inr ⟨⟨_, hj⟩, hv⟩)]; rfl
          | ok b =>
            have := rest_eq ν rest (some (joinOr o a)) fm f (done ++ [cur]) [b] (bo || ba) b h hj hv
              (by intro h0; cases h0) (by simp [anyAll_append, hd, hc]) (by simp)
            simpa [bind, Except.bind] using this
        · simp [hs2] at h
  | .atom _ :: _ :: _, _, _, _, _, _, _, _, h, _, _, _, _, _ => by simp [fOfRest] at h
  | .list _ :: _ :: _, _, _, _, _, _, _, _, h, _, _, _, _, _ => by simp [fOfRest] at h
end

/-! ### environment construction -/

theorem get?_append (a b : Env) (k : Str) :
    (a ++ b).get? k = match b.get? k with | some v => some v | none => a.get? k := by
  simp only [Env.get?, List.reverse_append, List.find?_append]
  cases h : List.find? (fun p => p.1 == k) b.reverse <;> simp

theorem get?_single (k' : Str) (v : Option Str) (k : Str) :
    Env.get? [(k', v)] k = if k' = k then some v else none := by
  simp only [Env.get?, List.reverse_cons, List.reverse_nil, List.nil_append, List.find?_cons, List.find?_nil]
  by_cases h : k' = k
  · simp [h]
  · have : (k' == k) = false := by simpa using h
    simp [h, this]

/-- what a lookup in the model's environment yields as a string -/
def envFun (env : Env) (k : Str) : Option Str :=
  match env.get? k with
  | some (some v) => some v
  | _ => none

theorem extra_ne_pfv : s_extra ≠ s_pfv := by decide

/-- the environment before `_repair_python_full_version` -/
def cur1 (dflt : List (Str × Str)) (supplied : Option Env) : Env :=
  let cur : Env := dflt.map (fun p => (p.1, some p.2)) ++ [(s_extra, some [])]
  match supplied with
    | none => cur
    | some e =>
      let cur := cur ++ e
      match cur.get? s_extra with
      | some none => cur ++ [(s_extra, some [])]
      | _ => cur

theorem buildEnv_eq (dflt supplied) : buildEnv dflt supplied =
    match (cur1 dflt supplied).get? s_pfv with
    | none => .error (.raw .keyError)
    | some none => .error (.raw .attributeError)
    | some (some v) => if endsWith v [43] then .ok (cur1 dflt supplied ++ [(s_pfv, some (v ++ s_local))]) else .ok (cur1 dflt supplied) := by
  unfold buildEnv cur1
  cases supplied <;> rfl

theorem cur1_get (dflt supplied k) : (cur1 dflt supplied).get? k =
    match rawLookup dflt supplied k with
    | some none => if k = s_extra then some (some []) else some none
    | x => x := by
  unfold cur1 rawLookup
  cases supplied with
  | none =>
    simp only [Option.bind, get?_append, get?_single]
    generalize Env.get? (List.map (fun p => (p.fst, some p.snd)) dflt) = D
    grind
  | some e =>
    have key : ∀ k', Env.get? (List.map (fun p => (p.fst, some p.snd)) dflt ++ [(s_extra, some [])] ++ e) k' =
        match e.get? k' with
        | some v => some v
        | none => if s_extra = k' then some (some []) else Env.get? (List.map (fun p => (p.fst, some p.snd)) dflt) k' := by
      intro k'; simp only [get?_append, get?_single]; grind
    simp only [Option.bind]
    rw [key s_extra]
    cases hx : Env.get? e s_extra with
    | none => simp only [if_true]; rw [key k]; grind
    | some v =>
      cases v with
      | some w => simp only; rw [key k]; grind
      | none =>
        simp only [get?_append, get?_single]
        grind

theorem env_effective (dflt : List (Str × Str)) (supplied : Option Env) (env : Env)
    (h : buildEnv dflt supplied = .ok env) (k : Str) : envFun env k = effEnv dflt supplied k := by
  rw [buildEnv_eq] at h
  have hp := cur1_get dflt supplied s_pfv
  have hk := cur1_get dflt supplied k
  have hx := extra_ne_pfv
  unfold effEnv envFun
  simp only [s_plus]
  generalize rawLookup dflt supplied = L at *
  split at h
  · cases h
  · cases h
  · rename_i v hv
    split at h
    · cases h
      simp only [get?_append, get?_single]
      grind
    · cases h
      grind

end MkEval
