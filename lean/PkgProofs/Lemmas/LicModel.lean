import PkgProofs.Lemmas.LicWords
import PkgProofs.Lemmas.LicParse
import PkgProofs.Lemmas.LicRender
/-!
# The implementation's two loops are the one-pass machine, and their output is the statement's canonical tokens
-/
namespace LicM
open Py Lic Spdx LicL LicW LicP

theorem lowerAscii_paren (c : Nat) : (lowerAscii c = 40 ↔ c = 40) ∧ (lowerAscii c = 41 ↔ c = 41) := by
  unfold lowerAscii isUpperAscii
  split
  · rename_i h; simp only [Bool.and_eq_true, decide_eq_true_eq] at h; omega
  · simp

theorem word_lower_ne {w : Str} (hw : WordOK w) : (lowerStr w == kLP) = false ∧ (lowerStr w == kRP) = false := by
  constructor
  · cases h : lowerStr w == kLP with
    | false => rfl
    | true =>
      exfalso
      have h' : lowerStr w = [40] := by simpa [kLP] using h
      cases w with
      | nil => simp [lowerStr] at h'
      | cons c cs =>
        simp only [lowerStr, List.map_cons, List.cons.injEq, List.map_eq_nil_iff] at h'
        exact (hw.2 c (by simp)).2.1 ((lowerAscii_paren c).1.mp h'.1)
  · cases h : lowerStr w == kRP with
    | false => rfl
    | true =>
      exfalso
      have h' : lowerStr w = [41] := by simpa [kRP] using h
      cases w with
      | nil => simp [lowerStr] at h'
      | cons c cs =>
        simp only [lowerStr, List.map_cons, List.cons.injEq, List.map_eq_nil_iff] at h'
        exact (hw.2 c (by simp)).2.2 ((lowerAscii_paren c).2.mp h'.1)

theorem word_ne_paren {w : Str} (hw : WordOK w) : (w == [40]) = false ∧ (w == [41]) = false := by
  constructor
  · cases h : w == [40] with
    | false => rfl
    | true =>
      have : w = [40] := by simpa using h
      exact absurd rfl ((hw.2 40 (by rw [this]; simp)).2.1)
  · cases h : w == [41] with
    | false => rfl
    | true =>
      have : w = [41] := by simpa using h
      exact absurd rfl ((hw.2 41 (by rw [this]; simp)).2.2)

/-- what a raw token is, seen from both sides -/
inductive TokCase (w : Str) : Prop
  | lp (h : w = [40])
  | rp (h : w = [41])
  | and (hw : WordOK w) (hl : lowerStr w = kAnd)
  | or (hw : WordOK w) (hl : lowerStr w = kOr)
  | «with» (hw : WordOK w) (hl : lowerStr w = kWith)
  | word (hw : WordOK w) (h1 : (lowerStr w == kLP) = false) (h2 : (lowerStr w == kRP) = false)
      (h3 : (lowerStr w == kOr) = false) (h4 : (lowerStr w == kAnd) = false) (h5 : (lowerStr w == kWith) = false)

theorem tok_cases {w : Str} (h : TokOK w) : TokCase w := by
  rcases h with h | h | h
  · exact .lp h
  · exact .rp h
  · have hp := word_lower_ne h
    by_cases h4 : lowerStr w = kAnd
    · exact .and h h4
    · by_cases h3 : lowerStr w = kOr
      · exact .or h h3
      · by_cases h5 : lowerStr w = kWith
        · exact .with h h5
        · exact .word h hp.1 hp.2 (by simpa using h3) (by simpa using h4) (by simpa using h5)

theorem tokOf_word {w : Str} (hw : WordOK w) : tokOf w = classify w := by
  have := word_ne_paren hw
  simp [tokOf, this.1, this.2]

/-! ### canonical words are never the string `WITH` -/

theorem canonException_ne {w id : Str} (h : canonException w = some id) : (some id == some kWithU) = false := by
  have := (official_not_op C19.exceptions_entries_ok h).2.2.1
  cases hb : (some id == some kWithU) with
  | false => rfl
  | true =>
    have : id = kWithU := by simpa using hb
    subst this
    exact absurd rfl this

theorem canonSimple_ne {w id : Str} (h : canonSimple w = some id) : (some id == some kWithU) = false := by
  cases hb : (some id == some kWithU) with
  | false => rfl
  | true =>
    exfalso
    have hid : id = kWithU := by simpa using hb
    subst hid
    unfold canonSimple at h
    split at h
    · simp [sRef, kWithU] at h
    · split at h
      · rename_i id' hoff
        simp only [Option.some.injEq] at h
        subst h
        exact (official_not_op C19.licenses_entries_ok hoff).2.2.1 rfl
      · split at h
        · cases hoff : officialId Gen.SpdxTables.licenses w.dropLast with
          | none => simp [hoff] at h
          | some id' =>
            simp only [hoff, Option.map_some, Option.some.injEq] at h
            have := congrArg List.getLast? h
            simp [kWithU] at this
        · simp at h

/-! ### the two loops -/

theorem zip_cons (w : Str) (ws : List Str) :
    (w :: ws).zip ((w :: ws).map lowerStr) = (w, lowerStr w) :: ws.zip (ws.map lowerStr) := rfl

theorem isSome_map {α β} (o : Option α) (f : α → β) : (o.map f).isSome = o.isSome := by cases o <;> rfl

/-- structure loop ∧ look-up loop = the one-pass machine of the statement's tokens -/
theorem passes_eq (ws : List Str) (hok : ∀ w ∈ ws, TokOK w) (d : Nat) (k : Kind) (prev : Option Str)
    (hp : (prev == some kWithU) = isWith k) :
    (structGo (ws.map lowerStr) d k && (normGo (ws.zip (ws.map lowerStr)) prev).isSome) =
      goC (ws.map tokOf) d k := by
  induction ws generalizing d k prev with
  | nil =>
    simp only [List.map_nil, structGo, List.zip_nil_right, normGo, Option.isSome_some, Bool.and_true, goC]
    cases k <;> cases d <;> simp [Kind.closes]
  | cons w ws ih =>
    have hok' : ∀ w ∈ ws, TokOK w := fun x hx => hok x (List.mem_cons_of_mem _ hx)
    rw [zip_cons]
    simp only [List.map_cons]
    cases tok_cases (hok w List.mem_cons_self) with
    | lp h =>
      subst h
      have := ih hok' (d + 1) .lp (some kLP) rfl
      simp only [show lowerStr [40] = kLP from rfl, show tokOf [40] = Tok.lp from rfl, structGo, normGo, goC,
        beq_self_eq_true, if_true, show isGrammar kLP = true from rfl, show upperOp kLP = kLP from rfl, isSome_map,
        Bool.and_assoc, this]
    | rp h =>
      subst h
      have := ih hok' (d - 1) .rp (some kRP) rfl
      simp only [show lowerStr [41] = kRP from rfl, show tokOf [41] = Tok.rp from rfl, structGo, normGo, goC,
        show (kRP == kLP) = false from rfl, Bool.false_eq_true, if_false,
        beq_self_eq_true, if_true, show isGrammar kRP = true from rfl, show upperOp kRP = kRP from rfl, isSome_map,
        Bool.and_assoc, this]
    | and hw hl =>
      have := ih hok' d .op (some kAndU) rfl
      have ht : tokOf w = Tok.and := by rw [tokOf_word hw]; simp [classify, hl, kAnd, sAnd]
      simp only [hl, ht, structGo, normGo, goC, show (kAnd == kLP) = false from rfl, show (kAnd == kRP) = false from rfl,
        show (kAnd == kOr) = false from rfl, Bool.false_eq_true, if_false, beq_self_eq_true, Bool.or_true, if_true,
        show isGrammar kAnd = true from rfl, show upperOp kAnd = kAndU from rfl, isSome_map, Bool.and_assoc, this]
    | or hw hl =>
      have := ih hok' d .op (some kOrU) rfl
      have ht : tokOf w = Tok.or := by rw [tokOf_word hw]; simp [classify, hl, kOr, sAnd, sOr]
      simp only [hl, ht, structGo, normGo, goC, show (kOr == kLP) = false from rfl, show (kOr == kRP) = false from rfl,
        Bool.false_eq_true, if_false, beq_self_eq_true, Bool.true_or, if_true,
        show isGrammar kOr = true from rfl, show upperOp kOr = kOrU from rfl, isSome_map, Bool.and_assoc, this]
    | «with» hw hl =>
      have := ih hok' d .with (some kWithU) rfl
      have ht : tokOf w = Tok.with := by rw [tokOf_word hw]; simp [classify, hl, kWith, sAnd, sOr, sWith]
      simp only [hl, ht, structGo, normGo, goC, show (kWith == kLP) = false from rfl,
        show (kWith == kRP) = false from rfl, show (kWith == kOr) = false from rfl, show (kWith == kAnd) = false from rfl,
        Bool.or_false, Bool.false_eq_true, if_false, beq_self_eq_true, if_true, beq_lic,
        show isGrammar kWith = true from rfl, show upperOp kWith = kWithU from rfl, isSome_map, Bool.and_assoc, this]
    | word hw h1 h2 h3 h4 h5 =>
      have ht : tokOf w = Tok.word w := by
        rw [tokOf_word hw]
        simp only [classify, show sAnd = kAnd from rfl, show sOr = kOr from rfl, show sWith = kWith from rfl, h3, h4, h5,
          Bool.false_eq_true, if_false]
      have hg : isGrammar (lowerStr w) = false := by simp [isGrammar, h1, h2, h3, h4, h5]
      simp only [ht, structGo, normGo, goC, h1, h2, h3, h4, h5, hg, Bool.or_false, Bool.false_eq_true, if_false, beq_with]
      cases hk : isWith k with
      | true =>
        have hprev : prev = some kWithU := by rw [hk] at hp; simpa using hp
        subst hprev
        simp only [if_true, normWord_exc, isException]
        cases hc : canonException w with
        | none => simp
        | some id =>
          have := ih hok' d .exc (some id) (canonException_ne hc)
          simp only [isSome_map, Option.isSome_some, Bool.true_and, this]
      | false =>
        rw [hk] at hp
        simp only [Bool.false_eq_true, if_false, normWord_simple prev w hp hw, isSimple]
        cases hc : canonSimple w with
        | none => simp
        | some id =>
          have := ih hok' d .lic (some id) (canonSimple_ne hc)
          simp only [isSome_map, Option.isSome_some, Bool.true_and, Bool.and_assoc, this]

/-- the look-up loop produces the statement's canonical tokens -/
theorem norm_eq (ws : List Str) (hok : ∀ w ∈ ws, TokOK w) (prev : Option Str) (aw : Bool)
    (hp : (prev == some kWithU) = aw) (r : List Str)
    (h : normGo (ws.zip (ws.map lowerStr)) prev = some r) : r = canonToks (ws.map tokOf) aw := by
  induction ws generalizing prev aw r with
  | nil => simp [normGo] at h; simp [h, canonToks, canonWords]
  | cons w ws ih =>
    have hok' : ∀ w ∈ ws, TokOK w := fun x hx => hok x (List.mem_cons_of_mem _ hx)
    rw [zip_cons] at h
    simp only [List.map_cons]
    cases tok_cases (hok w List.mem_cons_self) with
    | lp hw =>
      subst hw
      simp only [show lowerStr [40] = kLP from rfl, normGo, show isGrammar kLP = true from rfl, if_true,
        show upperOp kLP = kLP from rfl] at h
      cases hn : normGo (ws.zip (ws.map lowerStr)) (some kLP) with
      | none => simp [hn] at h
      | some r' =>
        simp only [hn, Option.map_some, Option.some.injEq] at h
        rw [← h, ih hok' _ false rfl r' hn]; rfl
    | rp hw =>
      subst hw
      simp only [show lowerStr [41] = kRP from rfl, normGo, show isGrammar kRP = true from rfl, if_true,
        show upperOp kRP = kRP from rfl] at h
      cases hn : normGo (ws.zip (ws.map lowerStr)) (some kRP) with
      | none => simp [hn] at h
      | some r' =>
        simp only [hn, Option.map_some, Option.some.injEq] at h
        rw [← h, ih hok' _ false rfl r' hn]; rfl
    | and hw hl =>
      have ht : tokOf w = Tok.and := by rw [tokOf_word hw]; simp [classify, hl, kAnd, sAnd]
      simp only [hl, normGo, show isGrammar kAnd = true from rfl, if_true, show upperOp kAnd = kAndU from rfl] at h
      cases hn : normGo (ws.zip (ws.map lowerStr)) (some kAndU) with
      | none => simp [hn] at h
      | some r' =>
        simp only [hn, Option.map_some, Option.some.injEq] at h
        rw [← h, ih hok' _ false rfl r' hn, ht]; rfl
    | or hw hl =>
      have ht : tokOf w = Tok.or := by rw [tokOf_word hw]; simp [classify, hl, kOr, sAnd, sOr]
      simp only [hl, normGo, show isGrammar kOr = true from rfl, if_true, show upperOp kOr = kOrU from rfl] at h
      cases hn : normGo (ws.zip (ws.map lowerStr)) (some kOrU) with
      | none => simp [hn] at h
      | some r' =>
        simp only [hn, Option.map_some, Option.some.injEq] at h
        rw [← h, ih hok' _ false rfl r' hn, ht]; rfl
    | «with» hw hl =>
      have ht : tokOf w = Tok.with := by rw [tokOf_word hw]; simp [classify, hl, kWith, sAnd, sOr, sWith]
      simp only [hl, normGo, show isGrammar kWith = true from rfl, if_true, show upperOp kWith = kWithU from rfl] at h
      cases hn : normGo (ws.zip (ws.map lowerStr)) (some kWithU) with
      | none => simp [hn] at h
      | some r' =>
        simp only [hn, Option.map_some, Option.some.injEq] at h
        rw [← h, ih hok' _ true rfl r' hn, ht]; rfl
    | word hw h1 h2 h3 h4 h5 =>
      have ht : tokOf w = Tok.word w := by
        rw [tokOf_word hw]
        simp only [classify, show sAnd = kAnd from rfl, show sOr = kOr from rfl, show sWith = kWith from rfl, h3, h4, h5,
          Bool.false_eq_true, if_false]
      have hg : isGrammar (lowerStr w) = false := by simp [isGrammar, h1, h2, h3, h4, h5]
      simp only [normGo, hg, Bool.false_eq_true, if_false] at h
      rw [ht]
      cases aw with
      | true =>
        have hprev : prev = some kWithU := by simpa using hp
        subst hprev
        rw [normWord_exc] at h
        cases hc : canonException w with
        | none => simp [hc] at h
        | some id =>
          simp only [hc] at h
          cases hn : normGo (ws.zip (ws.map lowerStr)) (some id) with
          | none => simp [hn] at h
          | some r' =>
            simp only [hn, Option.map_some, Option.some.injEq] at h
            rw [← h, ih hok' _ false (canonException_ne hc) r' hn]
            simp [canonToks, canonWords, spell, hc]
      | false =>
        rw [normWord_simple prev w hp hw] at h
        cases hc : canonSimple w with
        | none => simp [hc] at h
        | some id =>
          simp only [hc] at h
          cases hn : normGo (ws.zip (ws.map lowerStr)) (some id) with
          | none => simp [hn] at h
          | some r' =>
            simp only [hn, Option.map_some, Option.some.injEq] at h
            rw [← h, ih hok' _ false (canonSimple_ne hc) r' hn]
            simp [canonToks, canonWords, spell, hc]

end LicM

namespace LicM
open Py Lic Spdx LicL LicW LicP LicR

/-! ### canonical spellings are again well-shaped words -/

theorem idChar_ok {c : Nat} (h : C19.idChar c = true) : Lic.isSpace c = false ∧ c ≠ 40 ∧ c ≠ 41 := by
  simp only [C19.idChar, isAlnumAscii, isDigit, isAlphaAscii, isLowerAscii, isUpperAscii, Bool.or_eq_true,
    Bool.and_eq_true, decide_eq_true_eq, beq_iff_eq] at h
  refine ⟨?_, by omega, by omega⟩
  cases hs : Lic.isSpace c with
  | false => rfl
  | true => have := isSpace_mem hs; omega

theorem official_wordOK {tbl : List Gen.SpdxTables.Entry} (ht : tbl.all C19.entryOk = true) {w id : Str}
    (h : officialId tbl w = some id) : WordOK id := by
  have := official_not_op ht h
  exact ⟨this.2.2.2.1, fun c hc => idChar_ok (List.all_eq_true.mp this.2.2.2.2.1 c hc)⟩

theorem canonException_ok {w id : Str} (h : canonException w = some id) : WordOK id :=
  official_wordOK C19.exceptions_entries_ok h

theorem canonSimple_ok {w id : Str} (hw : WordOK w) (h : canonSimple w = some id) : WordOK id := by
  unfold canonSimple at h
  split at h
  · simp only [Option.some.injEq] at h
    subst h
    refine ⟨by simp [sRef], fun c hc => ?_⟩
    rcases List.mem_append.mp hc with h1 | h1
    · simp only [sRef, List.mem_cons, List.not_mem_nil, or_false] at h1
      refine ⟨?_, by omega, by omega⟩
      cases hs : Lic.isSpace c with
      | false => rfl
      | true => have := isSpace_mem hs; omega
    · exact hw.2 c (List.mem_of_mem_drop h1)
  · split at h
    · rename_i id' hoff
      simp only [Option.some.injEq] at h; subst h
      exact official_wordOK C19.licenses_entries_ok hoff
    · split at h
      · cases hoff : officialId Gen.SpdxTables.licenses w.dropLast with
        | none => simp [hoff] at h
        | some id' =>
          simp only [hoff, Option.map_some, Option.some.injEq] at h
          subst h
          have := official_wordOK C19.licenses_entries_ok hoff
          refine ⟨by simp, fun c hc => ?_⟩
          rcases List.mem_append.mp hc with h1 | h1
          · exact this.2 c h1
          · simp only [List.mem_singleton] at h1; subst h1
            exact ⟨by decide, by decide, by decide⟩
      · simp at h

theorem wordOK_ctok {x : Str} (h : TokOK x) : CTok x := by
  rcases h with h | h | h
  · exact Or.inl h
  · exact Or.inr (Or.inl h)
  · refine Or.inr (Or.inr ⟨h.1, fun c hc => ⟨?_, (h.2 c hc).2.1, (h.2 c hc).2.2⟩⟩)
    intro h32; subst h32
    have := (h.2 32 hc).1
    rw [isSpace_32] at this; exact Bool.noConfusion this

/-- every token the look-up loop emits is a parenthesis or a well-shaped word -/
theorem norm_ok (ws : List Str) (hok : ∀ w ∈ ws, TokOK w) (prev : Option Str) (r : List Str)
    (h : normGo (ws.zip (ws.map lowerStr)) prev = some r) : ∀ x ∈ r, TokOK x := by
  induction ws generalizing prev r with
  | nil => simp [normGo] at h; subst h; simp
  | cons w ws ih =>
    have hok' : ∀ w ∈ ws, TokOK w := fun x hx => hok x (List.mem_cons_of_mem _ hx)
    rw [zip_cons] at h
    simp only [normGo] at h
    split at h
    · rename_i hg
      cases hn : normGo (ws.zip (ws.map lowerStr)) (some (upperOp (lowerStr w))) with
      | none => simp [hn] at h
      | some r' =>
        simp only [hn, Option.map_some, Option.some.injEq] at h
        subst h
        intro x hx
        rcases List.mem_cons.mp hx with h1 | h1
        · subst h1
          simp only [isGrammar, Bool.or_eq_true, beq_iff_eq] at hg
          rcases hg with (((hg | hg) | hg) | hg) | hg <;> rw [hg]
          · exact Or.inr (Or.inr ⟨by decide, by decide⟩)
          · exact Or.inr (Or.inr ⟨by decide, by decide⟩)
          · exact Or.inr (Or.inr ⟨by decide, by decide⟩)
          · exact Or.inl rfl
          · exact Or.inr (Or.inl rfl)
        · exact ih hok' _ _ hn x h1
    · rename_i hg
      have hwok : WordOK w := by
        cases tok_cases (hok w List.mem_cons_self) with
        | lp hw => subst hw; exact absurd rfl hg
        | rp hw => subst hw; exact absurd rfl hg
        | and hw _ => exact hw
        | or hw _ => exact hw
        | «with» hw _ => exact hw
        | word hw => exact hw
      cases hnw : normWord prev w (lowerStr w) with
      | none => simp [hnw] at h
      | some id =>
        simp only [hnw] at h
        cases hn : normGo (ws.zip (ws.map lowerStr)) (some id) with
        | none => simp [hn] at h
        | some r' =>
          simp only [hn, Option.map_some, Option.some.injEq] at h
          subst h
          intro x hx
          rcases List.mem_cons.mp hx with h1 | h1
          · subst h1
            refine Or.inr (Or.inr ?_)
            cases hp : (prev == some kWithU) with
            | true =>
              have : prev = some kWithU := by simpa using hp
              subst this
              rw [normWord_exc] at hnw
              exact canonException_ok hnw
            | false =>
              rw [normWord_simple prev w hp hwok] at hnw
              exact canonSimple_ok hwok hnw
          · exact ih hok' _ _ hn x h1

end LicM
