import PkgModel.License
import PkgModel.Spec.Spdx
/-!
# Tokenisation: `split ∘ pad` (the implementation) and `Spdx.lex` (the statement) read the same tokens
-/
namespace LicL
open Py Lic

/-! ### white space facts (from the regenerated table) -/

theorem isSpace_mem {c : Nat} (h : isSpace c = true) :
    c = 9 ∨ c = 10 ∨ c = 11 ∨ c = 12 ∨ c = 13 ∨ c = 28 ∨ c = 29 ∨ c = 30 ∨ c = 31 ∨ c = 32 ∨ 128 ≤ c := by
  have : c ∈ Gen.SpdxUnicode.spaces := by simpa [isSpace, List.contains_iff_mem] using h
  simp only [Gen.SpdxUnicode.spaces, List.mem_cons, List.not_mem_nil, or_false] at this
  omega

theorem isSpace_32 : isSpace 32 = true := by decide
theorem isSpace_40 : isSpace 40 = false := by decide
theorem isSpace_41 : isSpace 41 = false := by decide

theorem isSpace_lowerAscii (c : Nat) : isSpace (lowerAscii c) = isSpace c := by
  unfold lowerAscii
  split
  · rename_i hu
    simp only [isUpperAscii, Bool.and_eq_true, decide_eq_true_eq] at hu
    have h1 : isSpace c = false := by
      cases h : isSpace c with
      | false => rfl
      | true => have := isSpace_mem h; omega
    have h2 : isSpace (c + 32) = false := by
      cases h : isSpace (c + 32) with
      | false => rfl
      | true => have := isSpace_mem h; omega
    rw [h1, h2]
  · rfl

/-! ### `pad` is one pass -/

def padCp (c : Nat) : Str := if c == 40 then kPadL else if c == 41 then kPadR else [c]

def padF : Str → Str
  | [] => []
  | c :: cs => padCp c ++ padF cs

theorem replace1_append (c : Nat) (new a b : Str) :
    replace1 c new (a ++ b) = replace1 c new a ++ replace1 c new b := by
  induction a with
  | nil => rfl
  | cons x xs ih =>
    simp only [List.cons_append, replace1]
    split <;> simp [ih]

theorem pad_eq (s : Str) : pad s = padF s := by
  unfold pad
  simp only [cLP, cRP]
  induction s with
  | nil => rfl
  | cons c cs ih =>
    simp only [replace1, padF, padCp]
    by_cases h40 : c = 40
    · subst h40
      simp only [beq_self_eq_true, if_true, replace1_append, ih, show replace1 41 kPadR kPadL = kPadL from rfl]
    · by_cases h41 : c = 41
      · subst h41
        simp only [show (41 == 40) = false from rfl, Bool.false_eq_true, if_false, replace1, beq_self_eq_true,
          if_true, ih]
      · have e1 : (c == 40) = false := by simpa using h40
        have e2 : (c == 41) = false := by simpa using h41
        simp only [e1, e2, Bool.false_eq_true, if_false, replace1, ih, List.singleton_append]

/-! ### the implementation's tokeniser as one pass over the raw string -/

def flushS (acc : Str) : List Str := if acc.isEmpty then [] else [acc]

def tokGo : Str → Str → List Str
  | [], acc => flushS acc
  | c :: cs, acc =>
    if isSpace c then flushS acc ++ tokGo cs []
    else if c == 40 then flushS acc ++ [40] :: tokGo cs []
    else if c == 41 then flushS acc ++ [41] :: tokGo cs []
    else tokGo cs (acc ++ [c])

theorem splitGo_space (c : Nat) (cs acc : Str) (h : isSpace c = true) :
    splitGo (c :: cs) acc = flushS acc ++ splitGo cs [] := by
  simp only [splitGo, h, if_true, flushS]
  split <;> simp

theorem splitGo_nonspace (c : Nat) (cs acc : Str) (h : isSpace c = false) :
    splitGo (c :: cs) acc = splitGo cs (acc ++ [c]) := by
  simp only [splitGo, h, Bool.false_eq_true, if_false]

theorem splitGo_pad (s acc : Str) : splitGo (padF s) acc = tokGo s acc := by
  induction s generalizing acc with
  | nil => simp [padF, splitGo, tokGo, flushS]
  | cons c cs ih =>
    simp only [padF, padCp, tokGo]
    by_cases h40 : c = 40
    · subst h40
      simp only [beq_self_eq_true, if_true, isSpace_40, Bool.false_eq_true, if_false, kPadL, List.cons_append,
        List.nil_append]
      rw [splitGo_space _ _ _ isSpace_32, splitGo_nonspace _ _ _ isSpace_40, splitGo_space _ _ _ isSpace_32, ih]
      rfl
    · by_cases h41 : c = 41
      · subst h41
        simp only [show (41 == 40) = false from rfl, beq_self_eq_true, if_true, isSpace_41, Bool.false_eq_true,
          if_false, kPadR, List.cons_append, List.nil_append]
        rw [splitGo_space _ _ _ isSpace_32, splitGo_nonspace _ _ _ isSpace_41, splitGo_space _ _ _ isSpace_32, ih]
        rfl
      · have e1 : (c == 40) = false := by simpa using h40
        have e2 : (c == 41) = false := by simpa using h41
        simp only [e1, e2, Bool.false_eq_true, if_false, List.singleton_append]
        cases hs : isSpace c with
        | true => rw [splitGo_space _ _ _ hs, ih]; simp
        | false => rw [splitGo_nonspace _ _ _ hs, ih]; simp

/-- `split (pad s)` -/
theorem split_pad (s : Str) : split (pad s) = tokGo s [] := by
  rw [pad_eq]; exact splitGo_pad s []

/-! ### lower-casing commutes with tokenisation -/

theorem lowerStr_append (a b : Str) : lowerStr (a ++ b) = lowerStr a ++ lowerStr b := by
  simp [lowerStr]

theorem splitGo_lower (x acc : Str) :
    splitGo (lowerStr x) (lowerStr acc) = (splitGo x acc).map lowerStr := by
  induction x generalizing acc with
  | nil =>
    simp only [lowerStr, List.map_nil, splitGo, List.isEmpty_map]
    split <;> simp [lowerStr]
  | cons c cs ih =>
    have hl : lowerStr (c :: cs) = lowerAscii c :: lowerStr cs := by simp [lowerStr]
    rw [hl]
    simp only [splitGo, isSpace_lowerAscii]
    have he : (lowerStr acc).isEmpty = acc.isEmpty := by simp [lowerStr]
    cases hs : isSpace c with
    | true =>
      simp only [if_true, he]
      have := ih []
      simp only [show lowerStr [] = [] from rfl] at this
      split <;> simp [this]
    | false =>
      simp only [Bool.false_eq_true, if_false]
      have := ih (acc ++ [c])
      rw [lowerStr_append] at this
      exact this

theorem split_lower (x : Str) : split (lowerStr x) = (split x).map lowerStr :=
  splitGo_lower x []

/-! ### token shape -/

/-- a run of characters none of which is white space or a parenthesis, non-empty -/
def WordOK (w : Str) : Prop := w ≠ [] ∧ ∀ c ∈ w, isSpace c = false ∧ c ≠ 40 ∧ c ≠ 41

def TokOK (w : Str) : Prop := w = [40] ∨ w = [41] ∨ WordOK w

def AccOK (acc : Str) : Prop := ∀ c ∈ acc, isSpace c = false ∧ c ≠ 40 ∧ c ≠ 41

theorem flushS_ok (acc : Str) (h : AccOK acc) : ∀ w ∈ flushS acc, TokOK w := by
  intro w hw
  unfold flushS at hw
  split at hw
  · simp at hw
  · rename_i hne
    simp only [List.mem_singleton] at hw
    subst hw
    exact Or.inr (Or.inr ⟨by intro h0; subst h0; simp at hne, h⟩)

theorem tokGo_ok (s acc : Str) (h : AccOK acc) : ∀ w ∈ tokGo s acc, TokOK w := by
  induction s generalizing acc with
  | nil => exact flushS_ok acc h
  | cons c cs ih =>
    have hnil : AccOK [] := by intro c hc; simp at hc
    intro w hw
    simp only [tokGo] at hw
    split at hw
    · rcases List.mem_append.mp hw with h1 | h1
      · exact flushS_ok acc h w h1
      · exact ih [] hnil w h1
    · split at hw
      · rcases List.mem_append.mp hw with h1 | h1
        · exact flushS_ok acc h w h1
        · rcases List.mem_cons.mp h1 with h2 | h2
          · exact Or.inl h2
          · exact ih [] hnil w h2
      · split at hw
        · rcases List.mem_append.mp hw with h1 | h1
          · exact flushS_ok acc h w h1
          · rcases List.mem_cons.mp h1 with h2 | h2
            · exact Or.inr (Or.inl h2)
            · exact ih [] hnil w h2
        · rename_i hs h40 h41
          apply ih (acc ++ [c]) _ w hw
          intro x hx
          rcases List.mem_append.mp hx with h1 | h1
          · exact h x h1
          · simp only [List.mem_singleton] at h1
            subst h1
            refine ⟨by simpa using hs, by simpa using h40, by simpa using h41⟩

/-! ### the statement's lexer reads the same tokens -/

/-- the spec token a raw token stands for -/
def tokOf (w : Str) : Spdx.Tok :=
  if w == [40] then .lp else if w == [41] then .rp else Spdx.classify w

theorem flush_map (acc : Str) (h : AccOK acc) : Spdx.flush acc = (flushS acc).map tokOf := by
  unfold Spdx.flush flushS
  split
  · rfl
  · simp only [List.map_cons, List.map_nil, tokOf]
    have h1 : (acc == [40]) = false := by
      cases hb : acc == [40] with
      | false => rfl
      | true =>
        have : acc = [40] := by simpa using hb
        have := (h 40 (by rw [this]; simp)).2.1
        exact absurd rfl this
    have h2 : (acc == [41]) = false := by
      cases hb : acc == [41] with
      | false => rfl
      | true =>
        have : acc = [41] := by simpa using hb
        have := (h 41 (by rw [this]; simp)).2.2
        exact absurd rfl this
    simp [h1, h2]

theorem lexGo_eq (s acc : Str) (h : AccOK acc) : Spdx.lexGo s acc = (tokGo s acc).map tokOf := by
  induction s generalizing acc with
  | nil => exact flush_map acc h
  | cons c cs ih =>
    have hnil : AccOK [] := by intro c hc; simp at hc
    have hsp : Spdx.isSpace c = isSpace c := rfl
    simp only [Spdx.lexGo, tokGo, hsp]
    cases hs : isSpace c with
    | true => simp [flush_map acc h, ih [] hnil]
    | false =>
      simp only [Bool.false_eq_true, if_false]
      by_cases h40 : c = 40
      · subst h40; simp [flush_map acc h, ih [] hnil, tokOf]
      · by_cases h41 : c = 41
        · subst h41; simp [flush_map acc h, ih [] hnil, tokOf]
        · have e1 : (c == 40) = false := by simpa using h40
          have e2 : (c == 41) = false := by simpa using h41
          simp only [e1, e2, Bool.false_eq_true, if_false]
          apply ih
          intro x hx
          rcases List.mem_append.mp hx with h1 | h1
          · exact h x h1
          · simp only [List.mem_singleton] at h1
            subst h1
            exact ⟨hs, h40, h41⟩

/-- **same tokens**: the statement's lexer sees the implementation's tokens -/
theorem lex_eq (s : Str) : Spdx.lex s = (split (pad s)).map tokOf := by
  rw [split_pad]
  exact lexGo_eq s [] (by intro c hc; simp at hc)

theorem split_pad_ok (s : Str) : ∀ w ∈ split (pad s), TokOK w := by
  rw [split_pad]
  exact tokGo_ok s [] (by intro c hc; simp at hc)

end LicL
