import PkgProofs.Lemmas.ScanStr
import PkgProofs.Lemmas.Pad
/-!
# Trailing zeros: `_TrimmedRelease` against `_cmpkey`'s release slot; key equality by components
-/
namespace V
open Py

theorem dtz_eq (l : List Nat) : dropTrailingZeros l = Pd.stripS l := Pd.strip_eq_stripS l

theorem stripS_idem (l : List Nat) : Pd.stripS (Pd.stripS l) = Pd.stripS l := by
  induction l with
  | nil => rfl
  | cons x xs ih =>
    simp only [Pd.stripS]
    cases h : Pd.stripS xs with
    | nil => by_cases hx : x = 0 <;> simp [hx, Pd.stripS]
    | cons y ys =>
      rw [h] at ih
      simp only [Pd.stripS] at ih ⊢
      rw [ih]

theorem stripS_nil_head (x : Nat) (xs : List Nat) (h : Pd.stripS (x :: xs) = []) : x = 0 := by
  simp only [Pd.stripS] at h
  cases h2 : Pd.stripS xs with
  | nil => rw [h2] at h; by_cases hx : x = 0 <;> simp_all
  | cons y ys => rw [h2] at h; simp at h

theorem trimRelease_eq (r : List Nat) :
    trimRelease r = if Pd.stripS r = [] then r.take 1 else Pd.stripS r := by
  simp only [trimRelease, dtz_eq]
  cases Pd.stripS r <;> simp

theorem trimRelease_ne_nil (r : List Nat) (h : r ≠ []) : trimRelease r ≠ [] := by
  rw [trimRelease_eq]
  split
  · cases r with
    | nil => exact absurd rfl h
    | cons x xs => simp
  · assumption

/-- trimming does not change the release slot of the comparison key -/
theorem dtz_trim (r : List Nat) : dropTrailingZeros (trimRelease r) = dropTrailingZeros r := by
  rw [trimRelease_eq, dtz_eq, dtz_eq]
  split
  · rename_i h
    rw [h]
    cases r with
    | nil => rfl
    | cons x xs =>
      have := stripS_nil_head x xs h
      subst this; simp [Pd.stripS]
  · exact stripS_idem r

/-- equal release slots give identical trimmed releases (non-empty releases) -/
theorem trim_of_dtz (r r' : List Nat) (h : r ≠ []) (h' : r' ≠ [])
    (he : dropTrailingZeros r = dropTrailingZeros r') : trimRelease r = trimRelease r' := by
  rw [dtz_eq, dtz_eq] at he
  rw [trimRelease_eq, trimRelease_eq, ← he]
  split
  · rename_i hn
    cases r with
    | nil => exact absurd rfl h
    | cons x xs =>
      cases r' with
      | nil => exact absurd rfl h'
      | cons y ys =>
        have h1 := stripS_nil_head x xs hn
        have h2 := stripS_nil_head y ys (he ▸ hn)
        subst h1 h2; simp
  · rfl

theorem trimRelease_idem (r : List Nat) : trimRelease (trimRelease r) = trimRelease r := by
  by_cases h : r = []
  · subst h; rfl
  · exact trim_of_dtz _ _ (trimRelease_ne_nil r h) h (dtz_trim r)

/-- the comparison key determines, and is determined by, the components up to trailing release zeros -/
theorem cmpkey_eq_iff (v w : Ver) :
    cmpkey v = cmpkey w ↔
      v.epoch = w.epoch ∧ dropTrailingZeros v.release = dropTrailingZeros w.release ∧
      v.pre = w.pre ∧ v.post = w.post ∧ v.dev = w.dev ∧ v.loc = w.loc := by
  obtain ⟨e, r, pre, post, dev, loc⟩ := v
  obtain ⟨e', r', pre', post', dev', loc'⟩ := w
  simp only [cmpkey, Key.mk.injEq]
  constructor
  · rintro ⟨h1, h2, h3, h4, h5, h6⟩
    have hpost : post = post' := by cases post <;> cases post' <;> simp_all
    have hdev : dev = dev' := by cases dev <;> cases dev' <;> simp_all
    have hloc : loc = loc' := by cases loc <;> cases loc' <;> simp_all
    subst hpost hdev hloc
    refine ⟨h1, h2, ?_, rfl, rfl, rfl⟩
    cases pre <;> cases pre' <;> cases post <;> cases dev <;> simp_all
  · rintro ⟨h1, h2, h3, h4, h5, h6⟩
    subst h1 h3 h4 h5 h6
    simp [h2]

/-! ### `public` through the code's `str(self).split("+", 1)[0]` -/

theorem splitOn_head (p rest : Str) (h : ∀ c ∈ p, c ≠ 43) :
    (splitOn 43 (p ++ 43 :: rest)).head? = some p ∧ (splitOn 43 p).head? = some p := by
  induction p with
  | nil => simp [splitOn]
  | cons c cs ih =>
    have hc : c ≠ 43 := h c (by simp)
    have := ih (fun x hx => h x (by simp [hx]))
    constructor
    · simp only [List.cons_append, splitOn, beq_iff_eq, hc, if_false]
      cases hs : splitOn 43 (cs ++ 43 :: rest) with
      | nil => rw [hs] at this; simp at this
      | cons q qs => rw [hs] at this; simp at this; simp [this.1]
    · simp only [splitOn, beq_iff_eq, hc, if_false]
      cases hs : splitOn 43 cs with
      | nil => rw [hs] at this; simp at this
      | cons q qs => rw [hs] at this; simp at this; simp [this.2]

theorem no_plus_dec (n : Nat) : ∀ c ∈ dec n, c ≠ 43 := by
  intro c hc h; subst h; have := dec_digits n 43 hc; simp [isDigit] at this

theorem no_plus_tailS (ns : List Nat) : ∀ c ∈ tailS (ns.map dec), c ≠ 43 := by
  induction ns with
  | nil => simp [tailS]
  | cons n ns ih =>
    intro c hc
    simp [tailS] at hc
    rcases hc with rfl | hc | hc
    · decide
    · exact no_plus_dec n c hc
    · exact ih c hc

theorem no_plus_public (v : Ver) (h : WF v) : ∀ c ∈ v.public, c ≠ 43 := by
  obtain ⟨e, r, pre, post, dev, loc⟩ := v
  simp only [WF, Ver.wf, Bool.and_eq_true] at h
  cases r with
  | nil => simp at h
  | cons r0 ns =>
    rw [public_eq, base_eq]
    intro c hc
    simp only [List.mem_append] at hc
    rcases hc with (hc | hc | hc) | hc | hc | hc
    · simp only [epochS] at hc
      split at hc
      · simp at hc; rcases hc with hc | rfl
        · exact no_plus_dec e c hc
        · decide
      · simp at hc
    · exact no_plus_dec r0 c hc
    · exact no_plus_tailS ns c hc
    · cases pre with
      | none => simp [preS] at hc
      | some p =>
        obtain ⟨l, n⟩ := p
        simp only [preS, List.mem_append] at hc
        rcases hc with hc | hc
        · cases l <;> simp [PreL.str, ofString] at hc <;> omega
        · exact no_plus_dec n c hc
    · cases post with
      | none => simp [postS] at hc
      | some n =>
        simp [postS] at hc
        rcases hc with rfl | rfl | rfl | rfl | rfl | hc <;> first | decide | exact no_plus_dec n c hc
    · cases dev with
      | none => simp [devS] at hc
      | some n =>
        simp [devS] at hc
        rcases hc with rfl | rfl | rfl | rfl | hc <;> first | decide | exact no_plus_dec n c hc

/-- `Version.public` as the code computes it — `str(self).split("+", 1)[0]` — is the model's `public` -/
theorem public_is_split (v : Ver) (h : WF v) : (splitOn 43 v.str).head? = some v.public := by
  have hp := no_plus_public v h
  simp only [Ver.str]
  cases v.localStr with
  | none => simpa using (splitOn_head v.public [] hp).2
  | some l => exact (splitOn_head v.public l hp).1

end V
