import PkgProofs.Lemmas.ScanStr
import PkgProofs.Lemmas.Pad
/-!
# Trailing zeros: `_TrimmedRelease` against `_cmpkey`'s release slot; key equality by components
-/
namespace V
open Py

theorem dtz_eq (l : List Nat) : dropTrailingZeros l = Pd.stripS l := Pd.strip_eq_stripS l

theorem stripS_idem (l : List Nat) : Pd.stripS (Pd.stripS l) = Pd.stripS l := by
  induction l with
  | nil => rfl
  | cons x xs ih =>
    simp only [Pd.stripS]
    cases h : Pd.stripS xs with
    | nil => by_cases hx : x = 0 <;> simp [hx, Pd.stripS]
    | cons y ys =>
      rw [h] at ih
      simp only [Pd.stripS] at ih ⊢
      rw [ih]

theorem stripS_nil_head (x : Nat) (xs : List Nat) (h : Pd.stripS (x :: xs) = []) : x = 0 := by
  simp only [Pd.stripS] at h
  cases h2 : Pd.stripS xs with
  | nil => rw [h2] at h; by_cases hx : x = 0 <;> simp_all
  | cons y ys => rw [h2] at h; simp at h

theorem trimRelease_eq (r : List Nat) :
    trimRelease r = if Pd.stripS r = [] then r.take 1 else Pd.stripS r := by
  simp only [trimRelease, dtz_eq]
  cases Pd.stripS r <;> simp

theorem trimRelease_ne_nil (r : List Nat) (h : r ≠ []) : trimRelease r ≠ [] := by
  rw [trimRelease_eq]
  split
  · cases r with
    | nil => exact absurd rfl h
    | cons x xs => simp
  · assumption

/-- trimming does not change the release slot of the comparison key -/
theorem dtz_trim (r : List Nat) : dropTrailingZeros (trimRelease r) = dropTrailingZeros r := by
  rw [trimRelease_eq, dtz_eq, dtz_eq]
  split
  · rename_i h
    rw [h]
    cases r with
    | nil => rfl
    | cons x xs =>
      have := stripS_nil_head x xs h
      subst this; simp [Pd.stripS]
  · exact stripS_idem r

/-- equal release slots give identical trimmed releases (non-empty releases) -/
theorem trim_of_dtz (r r' : List Nat) (h : r ≠ []) (h' : r' ≠ [])
    (he : dropTrailingZeros r = dropTrailingZeros r') : trimRelease r = trimRelease r' := by
  rw [dtz_eq, dtz_eq] at he
  rw [trimRelease_eq, trimRelease_eq, ← he]
  split
  · rename_i hn
    cases r with
    | nil => exact absurd rfl h
    | cons x xs =>
      cases r' with
      | nil => exact absurd rfl h'
      | cons y ys =>
        have h1 := stripS_nil_head x xs hn
        have h2 := stripS_nil_head y ys (he ▸ hn)
        subst h1 h2; simp
  · rfl

theorem trimRelease_idem (r : List Nat) : trimRelease (trimRelease r) = trimRelease r := by
  by_cases h : r = []
  · subst h; rfl
  · exact trim_of_dtz _ _ (trimRelease_ne_nil r h) h (dtz_trim r)

/-- the comparison key determines, and is determined by, the components up to trailing release zeros -/
theorem cmpkey_eq_iff (v w : Ver) :
    cmpkey v = cmpkey w ↔
      v.epoch = w.epoch ∧ dropTrailingZeros v.release = dropTrailingZeros w.release ∧
      v.pre = w.pre ∧ v.post = w.post ∧ v.dev = w.dev ∧ v.loc = w.loc := by
  obtain ⟨e, r, pre, post, dev, loc⟩ := v
  obtain ⟨e', r', pre', post', dev', loc'⟩ := w
  simp only [cmpkey, Key.mk.injEq]
  constructor
  · rintro ⟨h1, h2, h3, h4, h5, h6⟩
    have hpost : post = post' := by cases post <;> cases post' <;> simp_all
    have hdev : dev = dev' := by cases dev <;> cases dev' <;> simp_all
    have hloc : loc = loc' := by cases loc <;> cases loc' <;> simp_all
    subst hpost hdev hloc
    refine ⟨h1, h2, ?_, rfl, rfl, rfl⟩
    cases pre <;> cases pre' <;> cases post <;> cases dev <;> simp_all
  · rintro ⟨h1, h2, h3, h4, h5, h6⟩
    subst h1 h3 h4 h5 h6
    simp [h2]

end V
