import PkgProofs.Lemmas.MarkerLayoutItem
import PkgProofs.Lemmas.ReqMarker
/-!
Lemmas for C07/C09 (character level, any layout): the recursive-descent parser on a formula written with any
admissible white space, quote style, variable spelling and any amount of parentheses.

Technique: `Parses T L` says, in continuation-passing form, that on the text `T` (followed by white space and a
rest `K'`) `_parse_marker_atom` returns the first element of `L` and the `while BOOLOP` loop then appends the
remaining elements of `L` and carries on at `K'`.  Recursion budgets are existential and re-joined with
`ReqMk.fuel_enough` (C08): an accepted parse does not depend on the budget once it covers the text.
-/
namespace MkLay
open Py Mk Pep508 MkParse MkFmt MkLex MkLexP MkWf ReqMk
set_option linter.unusedSimpArgs false

/-! ### budgets -/

theorem atom_lift {f : Nat} {st : St} {m : M} {st' : St} (h : parseAtom charTS f st = .ok (m, st')) :
    st'.rest.length ≤ st.rest.length ∧ ∀ g, 2 * st.rest.length + 2 ≤ g → parseAtom charTS g st = .ok (m, st') :=
  ⟨((fuel_enough f).2.2 st m st' h).1.len, ((fuel_enough f).2.2 st m st' h).2⟩

theorem rest_lift {f : Nat} {acc : List M} {st : St} {l : List M} {st' : St} (h : parseRest charTS f acc st = .ok (l, st')) :
    ∀ g, 2 * st.rest.length + 2 ≤ g → parseRest charTS g acc st = .ok (l, st') :=
  ((fuel_enough f).2.1 acc st l st' h).2

theorem marker_lift {f : Nat} {st : St} {l : List M} {st' : St} (h : parseMarker charTS f st = .ok (l, st')) :
    ∀ g, 2 * st.rest.length + 3 ≤ g → parseMarker charTS g st = .ok (l, st') :=
  ((fuel_enough f).1 st l st' h).2

theorem consume_idem (st : St) : consume charTS .ws (consume charTS .ws st) = consume charTS .ws st := by
  have h : matchWs (consume charTS .ws st).rest = none := consume_noWs st
  generalize consume charTS .ws st = s at h
  simp [consume, charTS, St.check, matchRule, h]

theorem parseAtom_consume (f : Nat) (st : St) : parseAtom charTS f st = parseAtom charTS f (consume charTS .ws st) := by
  cases f with
  | zero => simp [parseAtom]
  | succ g => simp only [parseAtom, consume_idem]

theorem parseMarker_consume (f : Nat) (st : St) : parseMarker charTS f st = parseMarker charTS f (consume charTS .ws st) := by
  cases f with
  | zero => simp [parseMarker]
  | succ g => simp only [parseMarker, ← parseAtom_consume]

theorem consume_len (st : St) : (consume charTS .ws st).rest.length ≤ st.rest.length := (consume_sfx .ws st).len

/-! ### the continuation-passing statement -/

def HeadOK (T : Str) : Prop := ∃ c t, T = c :: t ∧ c ∈ [40, 34, 39, 112, 111, 115, 105, 101]

theorem HeadOK.ne {T : Str} (h : HeadOK T) : T ≠ [] := by obtain ⟨c, t, e, _⟩ := h; rw [e]; simp

theorem HeadOK.noWs {T : Str} (h : HeadOK T) (K : Str) : NoWsHead (T ++ K) := by
  obtain ⟨c, t, e, hc⟩ := h
  rw [e]
  have := letters_ne_ws c (by simp at hc ⊢; omega)
  exact noWsHead_of_head (c := c) rfl this.1 this.2

theorem HeadOK.not40 {T : Str} (h : HeadOK T) (hw : isWordO T.head? = true) (K : Str) : (T ++ K).head? ≠ some 40 := by
  obtain ⟨c, t, e, hc⟩ := h
  rw [e] at hw ⊢
  intro e2
  simp only [List.cons_append, List.head?_cons, Option.some.injEq] at e2
  subst e2
  have := notWord_punct 40 (by simp)
  simp [isWordO, this] at hw

theorem HeadOK.bool {T : Str} (h : HeadOK T) (hw : isWordO T.head? = false) (K : Str) : (T ++ K).head? ∈ boolFollows := by
  obtain ⟨c, t, e, hc⟩ := h
  rw [e] at hw ⊢
  simp only [List.head?_cons, isWordO] at hw
  simp only [List.cons_append, List.head?_cons]
  simp only [List.mem_cons, List.mem_nil_iff, or_false] at hc
  rcases hc with rfl | rfl | rfl | h
  · simp [boolFollows]
  · simp [boolFollows]
  · simp [boolFollows]
  · have := isWord_letters c (by simp; omega)
    rw [this] at hw; cases hw

/-- on `T` followed by white space `w3` and a rest `K'`: the atom parser returns the head of `L`, and the
`while BOOLOP` loop consumes the tail of `L` and then behaves as it does at `K'` -/
def Parses (T : Str) (L : List M) : Prop :=
  ∀ (p : Option Nat) (w3 K' : Str), WsRun w3 → NoWsHead K' → (isWordO T.head? = true → isWordO p = false) →
    (isWordO (lastOr T none) = true → (w3 ++ K').head? ∈ endFollows) →
    ∃ m tl, L = m :: tl ∧ ∃ f s1, parseAtom charTS f ⟨p, T ++ (w3 ++ K')⟩ = .ok (m, s1) ∧
      ∀ acc res, (∃ f', parseRest charTS f' (acc ++ tl) ⟨lastOr w3 (lastOr T none), K'⟩ = .ok res) →
        ∃ f'', parseRest charTS f'' acc s1 = .ok res

/-- nothing the `BOOLOP` rule could match: the end, `)`, or the final newline -/
def StopK (K : Str) : Prop := K = [] ∨ K.head? = some 41 ∨ K.head? = some 10

theorem stopK_noWs {K : Str} (h : StopK K) : NoWsHead K := by
  rcases h with rfl | h | h
  · intro c hc; cases hc
  · exact noWsHead_of_head (c := 41) h (by decide) (by decide)
  · exact noWsHead_of_head (c := 10) h (by decide) (by decide)

theorem boolop_none (p : Option Nat) (K : Str) (h : StopK K) : charTS.check .boolop ⟨p, K⟩ = none := by
  rw [check_charTS]
  apply check_none_by_head .boolop (by decide)
  intro c hc hmem
  have hmem := heads_all.2.2.2.2.1 c hmem
  rcases h with rfl | h | h
  · cases hc
  · simp only at hc; rw [h] at hc; cases hc; revert hmem; decide
  · simp only at hc; rw [h] at hc; cases hc; revert hmem; decide

/-- `_parse_marker` on the text of a whole (sub)expression in front of the end or `)` -/
theorem marker_of_parses {T : Str} {L : List M} (h : Parses T L) (p : Option Nat) (w3 K' : Str) (hw3 : WsRun w3) (hK' : StopK K')
    (hp : isWordO T.head? = true → isWordO p = false)
    (hK : isWordO (lastOr T none) = true → (w3 ++ K').head? ∈ endFollows) :
    ∃ f, parseMarker charTS f ⟨p, T ++ (w3 ++ K')⟩ = .ok (L, ⟨lastOr w3 (lastOr T none), K'⟩) := by
  obtain ⟨m, tl, e, f, s1, ha, cont⟩ := h p w3 K' hw3 (stopK_noWs hK') hp hK
  obtain ⟨f2, hr⟩ := cont [m] (m :: tl, ⟨lastOr w3 (lastOr T none), K'⟩) ⟨1, by
    simp [parseRest, boolop_none _ K' hK']⟩
  obtain ⟨hlen, la⟩ := atom_lift ha
  refine ⟨2 * (T ++ (w3 ++ K')).length + 2 + 1, ?_⟩
  have h1 := la (2 * (T ++ (w3 ++ K')).length + 2) (by simp)
  have h2 := rest_lift hr (2 * (T ++ (w3 ++ K')).length + 2) (by simp only at hlen; omega)
  simp only [parseMarker, h1, bind, Except.bind, h2, e]

/-! ### one comparison -/

theorem renderAtom_headOK (a : Atom) (L : AtomLay) (hf : FitsAtom a L) : HeadOK (renderAtom a L) := by
  obtain ⟨c, t, e, hc⟩ := renderNode_head a.lhs L.lhs hf.1
  refine ⟨c, t ++ (L.w1 ++ (renderOp a.op L.wn ++ (L.w2 ++ renderNode a.rhs L.rhs))), by simp [renderAtom, e], ?_⟩
  rcases hc with (rfl | rfl) | ⟨h, _⟩
  · simp
  · simp
  · simp at h ⊢; omega

theorem parses_atom (a : Atom) (L : AtomLay) (hf : FitsAtom a L) : Parses (renderAtom a L) [.atom a] := by
  intro p w3 K' hw3 hK' hp hK
  have hh := renderAtom_headOK a L hf
  refine ⟨.atom a, [], rfl, 1, ⟨lastOr w3 (lastOr (renderAtom a L) none), K'⟩, ?_, ?_⟩
  · have s1 := consume_ws_noop p _ (hh.noWs (w3 ++ K'))
    have n1 : charTS.check .lparen ⟨p, renderAtom a L ++ (w3 ++ K')⟩ = none := by
      rw [check_charTS]
      apply check_none_by_head .lparen (by decide)
      intro c hc
      rw [heads_all.1]
      obtain ⟨d, t, e, hd⟩ := hh
      simp only [e, List.cons_append, List.head?_cons, Option.some.injEq] at hc
      subst hc
      obtain ⟨c', t', e', hc'⟩ := renderNode_head a.lhs L.lhs hf.1
      have : d = c' := by
        have := e; unfold renderAtom at this; rw [e'] at this; simp at this; exact this.1.symm
      subst this
      rcases hc' with (rfl | rfl) | ⟨h, _⟩
      · decide
      · decide
      · simp at h ⊢; omega
    have hi := parseItem_lay a L hf p w3 K' hw3 hK' hp hK
    have s2 := consume_ws_noop (lastOr w3 (lastOr (renderAtom a L) none)) K' hK'
    simp only [parseAtom, s1, n1, hi, bind, Except.bind, pure, Except.pure, s2]
  · intro acc res h
    simpa using h

/-! ### parentheses -/

theorem lastOr_paren (X : Str) (p : Option Nat) : lastOr (40 :: (X ++ [41])) p = some 41 := by
  rw [show 40 :: (X ++ [41]) = (40 :: X) ++ [41] from rfl, lastOr_append]; rfl

theorem parses_paren {T : Str} {L : List M} (h : Parses T L) (hh : HeadOK T) (w1 w2 : Str) (hw1 : WsRun w1) (hw2 : WsRun w2) :
    Parses (40 :: (w1 ++ (T ++ (w2 ++ [41])))) [.list L] := by
  intro p w3 K' hw3 hK' _ _
  have e0 : 40 :: (w1 ++ (T ++ (w2 ++ [41]))) ++ (w3 ++ K') = 40 :: (w1 ++ (T ++ (w2 ++ (41 :: (w3 ++ K'))))) := by simp
  have hl : lastOr (40 :: (w1 ++ (T ++ (w2 ++ [41])))) none = some 41 := by
    rw [show w1 ++ (T ++ (w2 ++ [41])) = (w1 ++ (T ++ w2)) ++ [41] by simp]; exact lastOr_paren _ _
  have hK1 : StopK (41 :: (w3 ++ K')) := Or.inr (Or.inl rfl)
  obtain ⟨f, hm⟩ := marker_of_parses h (lastOr w1 (some 40)) w2 (41 :: (w3 ++ K')) hw2 hK1
    (fun _ => notWord_after_ws w1 hw1 _ (fun _ => by simpa [isWordO] using notWord_punct 40 (by simp)))
    (fun _ => by
      by_cases hne : w2 = []
      · subst hne; simp [endFollows]
      · rcases head_ws w2 hw2 hne _ with h | h <;> rw [h] <;> simp [endFollows])
  have hm' := marker_lift hm (2 * (T ++ (w2 ++ (41 :: (w3 ++ K')))).length + 3) (by simp)
  refine ⟨.list L, [], rfl, 2 * (T ++ (w2 ++ (41 :: (w3 ++ K')))).length + 3 + 1,
    ⟨lastOr w3 (some 41), K'⟩, ?_, ?_⟩
  · rw [e0]
    have s1 := consume_ws_noop p (40 :: (w1 ++ (T ++ (w2 ++ (41 :: (w3 ++ K'))))))
      (noWsHead_of_head (c := 40) rfl (by decide) (by decide))
    have c1 := check_lparen p (w1 ++ (T ++ (w2 ++ (41 :: (w3 ++ K')))))
    have s2 := consume_ws_run w1 _ hw1 (hh.noWs (w2 ++ (41 :: (w3 ++ K')))) (some 40)
    have s3 := consume_ws_noop (lastOr w2 (lastOr T none)) (41 :: (w3 ++ K'))
      (noWsHead_of_head (c := 41) rfl (by decide) (by decide))
    have c2 := check_rparen (lastOr w2 (lastOr T none)) (w3 ++ K')
    have s4 := consume_ws_run w3 K' hw3 hK' (some 41)
    simp only [parseAtom, s1, check_charTS, c1, s2, hm', bind, Except.bind, s3, c2, pure, Except.pure, s4]
  · intro acc res h
    rw [hl] at h
    simpa using h

/-! ### `and` / `or` -/

theorem bool_facts (s : Str) (hs : s = s_and ∨ s = s_or) :
    isWordO s.head? = true ∧ isWordO (lastOr s none) = true ∧ s ≠ [] ∧ (∀ K, NoWsHead (s ++ K)) := by
  rcases hs with rfl | rfl
  · exact ⟨isWord_letters 97 (by simp), isWord_letters 100 (by simp), by decide,
      fun K => noWsHead_of_head (c := 97) rfl (by decide) (by decide)⟩
  · exact ⟨isWord_letters 111 (by simp), isWord_letters 114 (by simp), by decide,
      fun K => noWsHead_of_head (c := 111) rfl (by decide) (by decide)⟩

theorem parses_bin {Tl Tr : Str} {Ll Lr : List M} (hl : Parses Tl Ll) (hr : Parses Tr Lr) (hhl : HeadOK Tl) (hhr : HeadOK Tr)
    (s : Str) (hs : s = s_and ∨ s = s_or) (w1 w2 : Str) (hw1 : WsRun w1) (hw2 : WsRun w2)
    (m1 : NoMerge Tl w1 s) (m2 : NoMerge s w2 Tr) :
    Parses (Tl ++ (w1 ++ (s ++ (w2 ++ Tr)))) (Ll ++ [.bool s] ++ Lr) := by
  intro p w3 K' hw3 hK' hp hK
  obtain ⟨sh, sl, sne, snw⟩ := bool_facts s hs
  have hlast : lastOr (Tl ++ (w1 ++ (s ++ (w2 ++ Tr)))) none = lastOr Tr none := by
    rw [← List.append_assoc, ← List.append_assoc, ← List.append_assoc, lastOr_append_ne _ hhr.ne]
  have hhead : (Tl ++ (w1 ++ (s ++ (w2 ++ Tr)))).head? = Tl.head? := head_append_ne hhl.ne _
  rw [hlast] at hK ⊢
  rw [hhead] at hp
  -- the left operand, in front of the operator
  have w1ne : isWordO (lastOr Tl none) = true → w1 ≠ [] := fun h e => m1 e ⟨h, sh⟩
  obtain ⟨m, tl, el, f, s1, ha, contl⟩ := hl p w1 (s ++ (w2 ++ (Tr ++ (w3 ++ K')))) hw1 (snw _) hp (fun h => by
    rcases head_ws w1 hw1 (w1ne h) _ with e | e <;> rw [e] <;> simp [endFollows])
  refine ⟨m, tl ++ [.bool s] ++ Lr, by rw [el]; simp, f, s1, by simpa using ha, ?_⟩
  intro acc res hres
  apply contl acc res
  -- the right operand, after the operator
  have w2ne : isWordO Tr.head? = true → w2 ≠ [] := fun h e => m2 e ⟨sl, h⟩
  have pr : isWordO Tr.head? = true → isWordO (lastOr w2 (lastOr s none)) = false := by
    intro h
    rcases lastOr_wsRun w2 hw2 (w2ne h) (lastOr s none) with e | e <;> rw [e]
    · exact isWord_ws.1
    · exact isWord_ws.2
  obtain ⟨mr, tlr, er, fr, s1r, har, contr⟩ := hr (lastOr w2 (lastOr s none)) w3 K' hw3 hK' pr hK
  obtain ⟨f2, h2⟩ := contr (acc ++ tl ++ [.bool s, mr]) res (by
    obtain ⟨f', h'⟩ := hres
    refine ⟨f', ?_⟩
    rw [er] at h'
    simpa using h')
  -- the operator itself
  have pl : isWordO (lastOr w1 (lastOr Tl none)) = false := by
    apply notWord_after_ws w1 hw1
    intro e
    cases hw : isWordO (lastOr Tl none) with
    | false => rfl
    | true => exact absurd e (w1ne hw)
  have kb : (w2 ++ (Tr ++ (w3 ++ K'))).head? ∈ boolFollows := by
    by_cases hne : w2 = []
    · subst hne
      rw [List.nil_append]
      apply hhr.bool
      cases hw : isWordO Tr.head? with
      | false => rfl
      | true => exact absurd rfl (w2ne hw)
    · rcases head_ws w2 hw2 hne _ with e | e <;> rw [e] <;> simp [boolFollows]
  have cb := check_bool s hs (lastOr w1 (lastOr Tl none)) pl (w2 ++ (Tr ++ (w3 ++ K'))) kb
  have sc := consume_ws_run w2 _ hw2 (hhr.noWs (w3 ++ K')) (lastOr s none)
  obtain ⟨hlen, la⟩ := atom_lift har
  let g := 2 * (w2 ++ (Tr ++ (w3 ++ K'))).length + 2
  have a1 : parseAtom charTS g ⟨lastOr s none, w2 ++ (Tr ++ (w3 ++ K'))⟩ = .ok (mr, s1r) := by
    rw [parseAtom_consume, sc]
    exact la g (by simp only [g, List.length_append]; omega)
  have a2 := rest_lift h2 g (by simp only [g, List.length_append] at hlen ⊢; omega)
  refine ⟨g + 1, ?_⟩
  simp only [parseRest, check_charTS, cb, a1, bind, Except.bind]
  simpa using a2

/-! ### layouts of a formula -/

/-- a layout of a formula: per comparison its own layout; any number of parentheses, with white space inside;
white space on both sides of `and` / `or` -/
inductive ExprLay
  | atom (L : AtomLay)
  | paren (w1 : Str) (ℓ : ExprLay) (w2 : Str)
  | bin (l : ExprLay) (w1 w2 : Str) (r : ExprLay)
  deriving DecidableEq, Repr

def renderE : ExprLay → Formula → Str
  | .paren w1 ℓ w2, t => 40 :: (w1 ++ (renderE ℓ t ++ (w2 ++ [41])))
  | .atom L, .atom a => renderAtom a L
  | .bin ℓl w1 w2 ℓr, .and l r => renderE ℓl l ++ (w1 ++ (s_and ++ (w2 ++ renderE ℓr r)))
  | .bin ℓl w1 w2 ℓr, .or l r => renderE ℓl l ++ (w1 ++ (s_or ++ (w2 ++ renderE ℓr r)))
  | _, _ => []

/-- the lexical side conditions: runs are white space, no two word tokens merge, quotes and spellings fit -/
def FitsLex : ExprLay → Formula → Prop
  | .paren w1 ℓ w2, t => WsRun w1 ∧ WsRun w2 ∧ FitsLex ℓ t
  | .atom L, .atom a => FitsAtom a L
  | .bin ℓl w1 w2 ℓr, .and l r => FitsLex ℓl l ∧ FitsLex ℓr r ∧ WsRun w1 ∧ WsRun w2 ∧
      NoMerge (renderE ℓl l) w1 s_and ∧ NoMerge s_and w2 (renderE ℓr r)
  | .bin ℓl w1 w2 ℓr, .or l r => FitsLex ℓl l ∧ FitsLex ℓr r ∧ WsRun w1 ∧ WsRun w2 ∧
      NoMerge (renderE ℓl l) w1 s_or ∧ NoMerge s_or w2 (renderE ℓr r)
  | _, _ => False

/-- the list the parser builds: one nested list per pair of parentheses, operands of `and` / `or` in a row -/
def flat : ExprLay → Formula → List M
  | .paren _ ℓ _, t => [.list (flat ℓ t)]
  | .atom _, .atom a => [.atom a]
  | .bin ℓl _ _ ℓr, .and l r => flat ℓl l ++ [.bool s_and] ++ flat ℓr r
  | .bin ℓl _ _ ℓr, .or l r => flat ℓl l ++ [.bool s_or] ++ flat ℓr r
  | _, _ => []

theorem parses_render : (ℓ : ExprLay) → (t : Formula) → FitsLex ℓ t → Parses (renderE ℓ t) (flat ℓ t) ∧ HeadOK (renderE ℓ t)
  | .paren w1 ℓ w2, t, h => by
    simp only [FitsLex] at h
    obtain ⟨ih1, ih2⟩ := parses_render ℓ t h.2.2
    simp only [renderE, flat]
    exact ⟨parses_paren ih1 ih2 w1 w2 h.1 h.2.1, ⟨40, _, rfl, by simp⟩⟩
  | .atom L, .atom a, h => by
    simp only [FitsLex] at h
    simp only [renderE, flat]
    exact ⟨parses_atom a L h, renderAtom_headOK a L h⟩
  | .atom _, .and _ _, h => by simp [FitsLex] at h
  | .atom _, .or _ _, h => by simp [FitsLex] at h
  | .bin _ _ _ _, .atom _, h => by simp [FitsLex] at h
  | .bin ℓl w1 w2 ℓr, .and l r, h => by
    simp only [FitsLex] at h
    obtain ⟨fl, fr, hw1, hw2, m1, m2⟩ := h
    obtain ⟨l1, l2⟩ := parses_render ℓl l fl
    obtain ⟨r1, r2⟩ := parses_render ℓr r fr
    simp only [renderE, flat]
    refine ⟨parses_bin l1 r1 l2 r2 s_and (Or.inl rfl) w1 w2 hw1 hw2 m1 m2, ?_⟩
    obtain ⟨c, t, e, hc⟩ := l2
    exact ⟨c, _, by rw [e]; rfl, hc⟩
  | .bin ℓl w1 w2 ℓr, .or l r, h => by
    simp only [FitsLex] at h
    obtain ⟨fl, fr, hw1, hw2, m1, m2⟩ := h
    obtain ⟨l1, l2⟩ := parses_render ℓl l fl
    obtain ⟨r1, r2⟩ := parses_render ℓr r fr
    simp only [renderE, flat]
    refine ⟨parses_bin l1 r1 l2 r2 s_or (Or.inr rfl) w1 w2 hw1 hw2 m1 m2, ?_⟩
    obtain ⟨c, t, e, hc⟩ := l2
    exact ⟨c, _, by rw [e]; rfl, hc⟩

/-- the optional final newline (`$` of the `END` rule matches before it) -/
def nlTail (nl : Bool) : Str := if nl then [10] else []

/-- **the real entry point on any layout**: tokenizer and parser, run on the formula written with leading and
trailing white space `w0`, `w3`, the layout `ℓ` and possibly a final newline, return the list `flat ℓ t` -/
theorem parse_renderE (ℓ : ExprLay) (t : Formula) (h : FitsLex ℓ t) (w0 w3 : Str) (hw0 : WsRun w0) (hw3 : WsRun w3) (nl : Bool) :
    Mk.parse (w0 ++ (renderE ℓ t ++ (w3 ++ nlTail nl))) = .ok (flat ℓ t) := by
  obtain ⟨hp, hh⟩ := parses_render ℓ t h
  have hstop : StopK (nlTail nl) := by cases nl <;> simp [nlTail, StopK]
  obtain ⟨f, hm⟩ := marker_of_parses hp (lastOr w0 none) w3 (nlTail nl) hw3 hstop
    (fun _ => notWord_after_ws w0 hw0 none (fun _ => rfl))
    (fun _ => by
      by_cases hne : w3 = []
      · subst hne; cases nl <;> simp [endFollows, nlTail]
      · rcases head_ws w3 hw3 hne (nlTail nl) with e | e <;> rw [e] <;> simp [endFollows])
  have sc := consume_ws_run w0 (renderE ℓ t ++ (w3 ++ nlTail nl)) hw0 (hh.noWs _) none
  have hm' := marker_lift hm (fuelFor (w0 ++ (renderE ℓ t ++ (w3 ++ nlTail nl))).length) (by
    simp only [fuelFor, List.length_append]; omega)
  unfold Mk.parse parseFull
  rw [parseMarker_consume, sc, hm']
  cases nl
  · simp [nlTail, bind, Except.bind, check_charTS, check_end_nil, pure, Except.pure]
  · simp [nlTail, bind, Except.bind, check_charTS, check_end_nl, pure, Except.pure]

end MkLay
