import PkgProofs.Lemmas.SpellNormal
/-!
# Spellings, part 8: every accepted string is the rendering of a valid spelling with that meaning

Inversion of the scanner, stage by stage.
-/
namespace Spelling
open Py V

/-! ### numbers and separators -/

theorem spanDigits_spec (s : Str) : s = (spanDigits s).1 ++ (spanDigits s).2 ∧ ∀ c ∈ (spanDigits s).1, isDigit c = true := by
  induction s with
  | nil => simp [spanDigits]
  | cons c cs ih =>
    by_cases hc : isDigit c = true
    · simp only [spanDigits, hc, if_true]
      refine ⟨by simp [← ih.1], ?_⟩
      intro x hx; simp at hx; rcases hx with rfl | hx
      · exact hc
      · exact ih.2 x hx
    · simp [spanDigits, hc]

theorem optNum_inv (s : Str) (n : Nat) (r : Str) (h : optNum s = (some n, r)) :
    ∃ d, digitsOk d = true ∧ s = d ++ r ∧ n = value d := by
  have sp := spanDigits_spec s
  unfold optNum at h
  simp only at h
  split at h
  · simp at h
  · rename_i hne
    simp only [Prod.mk.injEq, Option.some.injEq] at h
    refine ⟨(spanDigits s).1, ?_, ?_, ?_⟩
    · rw [digitsOk_iff]; exact ⟨by simpa using hne, sp.2⟩
    · rw [← h.2]; exact sp.1
    · rw [← h.1]; rfl

theorem optNum_none_inv (s : Str) (r : Str) (h : optNum s = (none, r)) : r = s := by
  unfold optNum at h
  simp only at h
  split at h
  · simp only [Prod.mk.injEq, true_and] at h; exact h.symm
  · simp at h

theorem optSep_inv (s : Str) :
    ∃ sep : Sep, s = sep.render ++ optSep s ∧ (sep = .none → ∀ c, (optSep s).head? = some c → isSep c = false) := by
  cases s with
  | nil => exact ⟨.none, rfl, by simp [optSep]⟩
  | cons c cs =>
    by_cases hc : isSep c = true
    · have h := hc
      simp only [isSep, Bool.or_eq_true, beq_iff_eq] at h
      rcases h with (rfl | rfl) | rfl
      · exact ⟨.dash, by simp [optSep, isSep, Sep.render], by simp⟩
      · exact ⟨.under, by simp [optSep, isSep, Sep.render], by simp⟩
      · exact ⟨.dot, by simp [optSep, isSep, Sep.render], by simp⟩
    · refine ⟨.none, by simp [optSep, hc, Sep.render], ?_⟩
      intro _ x hx
      simp [optSep, hc] at hx; subst hx; simpa using hc

/-! ### keywords -/

theorem dropKw_inv (k s r : Str) (h : dropKw k s = some r) : ∃ w, s = w ++ r ∧ lowerStr w = k := by
  induction k generalizing s with
  | nil => simp [dropKw] at h; exact ⟨[], by simp [h], rfl⟩
  | cons a ks ih =>
    cases s with
    | nil => simp [dropKw] at h
    | cons c cs =>
      simp only [dropKw] at h
      split at h
      · rename_i hc
        obtain ⟨w, hw, hl⟩ := ih cs h
        exact ⟨c :: w, by simp [hw], by simp [lowerStr] at hl ⊢; exact ⟨by simpa using hc, hl⟩⟩
      · simp at h

theorem takeKw_inv {α} (kws : List (Str × α)) (s : Str) (a : α) (r : Str) (h : takeKw kws s = some (a, r)) :
    ∃ k w, (k, a) ∈ kws ∧ s = w ++ r ∧ lowerStr w = k := by
  induction kws with
  | nil => simp [takeKw] at h
  | cons p ps ih =>
    obtain ⟨k, b⟩ := p
    simp only [takeKw] at h
    split at h
    · rename_i r' hd
      simp only [Option.some.injEq, Prod.mk.injEq] at h
      obtain ⟨rfl, rfl⟩ := h
      obtain ⟨w, hw, hl⟩ := dropKw_inv k s r' hd
      exact ⟨k, w, by simp, hw, hl⟩
    · obtain ⟨k', w, hm, hw, hl⟩ := ih h
      exact ⟨k', w, by simp [hm], hw, hl⟩

theorem preKws_word (k : Str) (l : PreL) (h : (k, l) ∈ preKws) : ∃ kind : PreWord, kind.text = k ∧ kind.letter = l := by
  rw [preKws_eq] at h
  simp only [List.mem_cons, Prod.mk.injEq, List.not_mem_nil, or_false] at h
  rcases h with ⟨rfl, rfl⟩ | ⟨rfl, rfl⟩ | ⟨rfl, rfl⟩ | ⟨rfl, rfl⟩ | ⟨rfl, rfl⟩ | ⟨rfl, rfl⟩ | ⟨rfl, rfl⟩ | ⟨rfl, rfl⟩
  · exact ⟨.alpha, by decide, rfl⟩
  · exact ⟨.a, by decide, rfl⟩
  · exact ⟨.beta, by decide, rfl⟩
  · exact ⟨.b, by decide, rfl⟩
  · exact ⟨.preview, by decide, rfl⟩
  · exact ⟨.pre, by decide, rfl⟩
  · exact ⟨.c, by decide, rfl⟩
  · exact ⟨.rc, by decide, rfl⟩

theorem postKws_word (k : Str) (h : (k, ()) ∈ postKws) : ∃ kind : PostWord, kind.text = k := by
  rw [postKws_eq] at h
  simp only [List.mem_cons, Prod.mk.injEq, List.not_mem_nil, or_false, and_true] at h
  rcases h with rfl | rfl | rfl
  · exact ⟨.post, by decide⟩
  · exact ⟨.rev, by decide⟩
  · exact ⟨.r, by decide⟩

theorem devKws_word (k : Str) (h : (k, ()) ∈ devKws) : devText = k := by
  rw [devKws_eq] at h
  simp only [List.mem_cons, Prod.mk.injEq, List.not_mem_nil, or_false, and_true] at h
  subst h; decide

/-! ### one letter group -/

/-- what a successful letter-group scan has read -/
theorem letterGroup_inv {α} (kws : List (Str × α)) (s : Str) (a : α) (n : Nat) (r : Str)
    (h : scanLetterGroup kws s = some ((a, n), r)) :
    ∃ (sep1 : Sep) (w : Str) (sep2 : Sep) (num : Option Digits) (k : Str),
      s = sep1.render ++ (w ++ (sep2.render ++ (num.getD [] ++ r))) ∧ (k, a) ∈ kws ∧ lowerStr w = k ∧
      (∀ d, num = some d → digitsOk d = true) ∧ n = (num.map value).getD 0 ∧
      (sep2 = .none → num = none → ∀ c, r.head? = some c → isSep c = false) := by
  unfold scanLetterGroup at h
  split at h
  · simp at h
  · rename_i a' r1 hk
    obtain ⟨sep1, hs1, _⟩ := optSep_inv s
    obtain ⟨k, w, hm, hw, hl⟩ := takeKw_inv kws _ a' r1 hk
    obtain ⟨sep2, hs2, hs2'⟩ := optSep_inv r1
    cases hn : optNum (optSep r1) with
    | mk n' r' =>
      rw [hn] at h
      simp only [Option.some.injEq, Prod.mk.injEq] at h
      obtain ⟨⟨rfl, rfl⟩, rfl⟩ := h
      cases n' with
      | some m =>
        obtain ⟨d, hd, hsd, hv⟩ := optNum_inv _ m r' hn
        refine ⟨sep1, w, sep2, some d, k, ?_, hm, hl, ?_, ?_, ?_⟩
        · rw [hs1, hw, hs2, hsd]; simp
        · intro d' hd'; simp at hd'; subst hd'; exact hd
        · simp [hv]
        · intro _ h2; simp at h2
      | none =>
        have := optNum_none_inv _ _ hn
        subst this
        refine ⟨sep1, w, sep2, none, k, ?_, hm, hl, ?_, ?_, ?_⟩
        · conv => lhs; rw [hs1, hw, hs2]
          simp
        · intro d' hd'; simp at hd'
        · simp
        · intro h1 _; exact hs2' h1

theorem pre_inv (s : Str) (l : PreL) (n : Nat) (r : Str) (h : scanLetterGroup preKws s = some ((l, n), r)) :
    ∃ g : Group PreWord, g.ok PreWord.text = true ∧ s = g.render ++ r ∧ g.kind.letter = l ∧ g.number = n ∧
      (g.bare = true → ∀ c, r.head? = some c → isSep c = false) := by
  obtain ⟨sep1, w, sep2, num, k, hs, hm, hl, hnum, hn, hb⟩ := letterGroup_inv _ _ _ _ _ h
  obtain ⟨kind, hk, hkl⟩ := preKws_word k l hm
  refine ⟨⟨sep1, kind, w, sep2, num⟩, ?_, by simpa [Group.render] using hs, hkl, by simp [Group.number, hn], ?_⟩
  · simp only [Group.ok, Bool.and_eq_true, beq_iff_eq]
    refine ⟨by rw [hl, hk], ?_⟩
    cases num with
    | none => rfl
    | some d => exact hnum d rfl
  · intro hbare
    simp only [Group.bare, Bool.and_eq_true, beq_iff_eq, Option.isNone_iff_eq_none] at hbare
    exact hb hbare.1 hbare.2

theorem post_inv (s : Str) (n : Nat) (r : Str) (h : scanLetterGroup postKws s = some (((), n), r)) :
    ∃ g : Group PostWord, g.ok PostWord.text = true ∧ s = g.render ++ r ∧ g.number = n ∧
      (g.bare = true → ∀ c, r.head? = some c → isSep c = false) := by
  obtain ⟨sep1, w, sep2, num, k, hs, hm, hl, hnum, hn, hb⟩ := letterGroup_inv _ _ _ _ _ h
  obtain ⟨kind, hk⟩ := postKws_word k hm
  refine ⟨⟨sep1, kind, w, sep2, num⟩, ?_, by simpa [Group.render] using hs, by simp [Group.number, hn], ?_⟩
  · simp only [Group.ok, Bool.and_eq_true, beq_iff_eq]
    refine ⟨by rw [hl, hk], ?_⟩
    cases num with
    | none => rfl
    | some d => exact hnum d rfl
  · intro hbare
    simp only [Group.bare, Bool.and_eq_true, beq_iff_eq, Option.isNone_iff_eq_none] at hbare
    exact hb hbare.1 hbare.2

theorem dev_inv (s : Str) (n : Nat) (r : Str) (h : scanLetterGroup devKws s = some (((), n), r)) :
    ∃ g : Group Unit, g.ok (fun _ => devText) = true ∧ s = g.render ++ r ∧ g.number = n := by
  obtain ⟨sep1, w, sep2, num, k, hs, hm, hl, hnum, hn, _⟩ := letterGroup_inv _ _ _ _ _ h
  have hk := devKws_word k hm
  refine ⟨⟨sep1, (), w, sep2, num⟩, ?_, by simpa [Group.render] using hs, by simp [Group.number, hn]⟩
  simp only [Group.ok, Bool.and_eq_true, beq_iff_eq]
  refine ⟨by rw [hl, hk], ?_⟩
  cases num with
  | none => rfl
  | some d => exact hnum d rfl

/-! ### stages -/

theorem relTail_inv (fuel : Nat) (s : Str) (tail : List Nat) (r : Str) (h : scanReleaseTail fuel s = (tail, r)) :
    ∃ rels : List Digits, rels.all digitsOk = true ∧ s = relRender rels ++ r ∧ tail = rels.map value := by
  induction fuel generalizing s tail r with
  | zero =>
    simp only [scanReleaseTail, Prod.mk.injEq] at h
    obtain ⟨rfl, rfl⟩ := h
    exact ⟨[], rfl, rfl, rfl⟩
  | succ f ih =>
    unfold scanReleaseTail at h
    split at h
    · rename_i r1
      cases hn : optNum r1 with
      | mk n' r' =>
        rw [hn] at h
        cases n' with
        | none =>
          simp only [Prod.mk.injEq] at h
          obtain ⟨rfl, rfl⟩ := h
          exact ⟨[], rfl, rfl, rfl⟩
        | some n =>
          cases hrec : scanReleaseTail f r' with
          | mk ns r'' =>
            simp only [hrec, Prod.mk.injEq] at h
            obtain ⟨rfl, rfl⟩ := h
            obtain ⟨d, hd, hsd, hv⟩ := optNum_inv _ n r' hn
            obtain ⟨rels, hr, hs, ht⟩ := ih r' ns r'' hrec
            refine ⟨d :: rels, by simp [hd, hr], ?_, by simp [hv, ht]⟩
            rw [hsd, hs]; simp [relRender]
    · simp only [Prod.mk.injEq] at h
      obtain ⟨rfl, rfl⟩ := h
      exact ⟨[], rfl, rfl, rfl⟩

theorem preStage_inv (s : Str) (pre : Option (PreL × Nat)) (r : Str) (h : preStage s = (pre, r)) :
    ∃ g : Option (Group PreWord), preOk g ∧ s = optR Group.render g ++ r ∧
      pre = g.map (fun g => (g.kind.letter, g.number)) ∧
      (preBare g = true → ∀ c, r.head? = some c → isSep c = false) := by
  unfold preStage at h
  split at h
  · rename_i p r' hg
    obtain ⟨l, n⟩ := p
    simp only [Prod.mk.injEq] at h
    obtain ⟨rfl, rfl⟩ := h
    obtain ⟨g, hok, hs, hl, hn, hb⟩ := pre_inv _ _ _ _ hg
    refine ⟨some g, ?_, by simpa [optR] using hs, by simp [hl, hn], by simpa [preBare] using hb⟩
    intro g' hg'; simp at hg'; subst hg'; exact hok
  · simp only [Prod.mk.injEq] at h
    obtain ⟨rfl, rfl⟩ := h
    exact ⟨none, by intro g hg; simp at hg, by simp [optR], rfl, by simp [preBare]⟩

theorem implicitPost_inv (s : Str) (n : Nat) (r : Str) (h : implicitPost s = some (n, r)) :
    ∃ d, digitsOk d = true ∧ s = 45 :: (d ++ r) ∧ n = value d := by
  unfold implicitPost at h
  split at h
  · rename_i r1
    cases hn : optNum r1 with
    | mk n' r' =>
      rw [hn] at h
      cases n' with
      | none => simp at h
      | some m =>
        simp only [Option.some.injEq, Prod.mk.injEq] at h
        obtain ⟨rfl, rfl⟩ := h
        obtain ⟨d, hd, hsd, hv⟩ := optNum_inv _ _ _ hn
        exact ⟨d, hd, by rw [hsd], hv⟩
  · simp at h

theorem scanPost_inv (s : Str) (post : Option Nat) (r : Str) (h : scanPost s = (post, r)) :
    ∃ p : Option Post, postOk p ∧ s = optR Post.render p ++ r ∧ post = p.map Post.number ∧
      (isImplicit p = true → ∃ t, s = 45 :: t) := by
  rw [scanPost_eq] at h
  split at h
  · rename_i n r' hi
    simp only [Prod.mk.injEq] at h
    obtain ⟨rfl, rfl⟩ := h
    obtain ⟨d, hd, hs, hv⟩ := implicitPost_inv _ _ _ hi
    refine ⟨some (.implicit d), ?_, by simp [optR, Post.render, hs], by simp [Post.number, hv], fun _ => ⟨_, hs⟩⟩
    intro p hp; simp at hp; subst hp; exact hd
  · split at h
    · rename_i u n r' hg
      simp only [Prod.mk.injEq] at h
      obtain ⟨rfl, rfl⟩ := h
      obtain ⟨g, hok, hs, hn, _⟩ := post_inv _ _ _ hg
      refine ⟨some (.spelled g), ?_, by simpa [optR, Post.render] using hs, by simp [Post.number, hn], by simp [isImplicit]⟩
      intro p hp; simp at hp; subst hp; exact hok
    · simp only [Prod.mk.injEq] at h
      obtain ⟨rfl, rfl⟩ := h
      exact ⟨none, by intro g hg; simp at hg, by simp [optR], rfl, by simp [isImplicit]⟩

theorem devStage_inv (s : Str) (dev : Option Nat) (r : Str) (h : devStage s = (dev, r)) :
    ∃ g : Option (Group Unit), devOk g ∧ s = optR Group.render g ++ r ∧ dev = g.map Group.number := by
  unfold devStage at h
  split at h
  · rename_i u n r' hg
    simp only [Prod.mk.injEq] at h
    obtain ⟨rfl, rfl⟩ := h
    obtain ⟨g, hok, hs, hn⟩ := dev_inv _ _ _ hg
    refine ⟨some g, ?_, by simpa [optR] using hs, by simp [hn]⟩
    intro g' hg'; simp at hg'; subst hg'; exact hok
  · simp only [Prod.mk.injEq] at h
    obtain ⟨rfl, rfl⟩ := h
    exact ⟨none, by intro g hg; simp at hg, by simp [optR], rfl⟩

/-! ### local label -/

theorem sep_of_char (c : Nat) (h : isSep c = true) : ∃ sep : Sep, sep ≠ .none ∧ sep.render = [c] := by
  simp only [isSep, Bool.or_eq_true, beq_iff_eq] at h
  rcases h with (rfl | rfl) | rfl
  · exact ⟨.dash, by simp, rfl⟩
  · exact ⟨.under, by simp, rfl⟩
  · exact ⟨.dot, by simp, rfl⟩

theorem localTail_inv (fuel : Nat) (s : Str) (segs : List Str) (r : Str) (h : scanLocalTail fuel s = (segs, r)) :
    ∃ rest : List (Sep × Str), rest.all (fun p => p.1 != .none && segOk p.2) = true ∧
      s = restRender rest ++ r ∧ segs = rest.map (·.2) := by
  induction fuel generalizing s segs r with
  | zero =>
    simp only [scanLocalTail, Prod.mk.injEq] at h
    obtain ⟨rfl, rfl⟩ := h
    exact ⟨[], rfl, rfl, rfl⟩
  | succ f ih =>
    cases s with
    | nil =>
      simp only [scanLocalTail, Prod.mk.injEq] at h
      obtain ⟨rfl, rfl⟩ := h
      exact ⟨[], rfl, rfl, rfl⟩
    | cons c r1 =>
      simp only [scanLocalTail] at h
      by_cases hs : isSep c = true
      · by_cases he : r1.takeWhile isLocalChar = []
        · simp [hs, he] at h
          obtain ⟨rfl, rfl⟩ := h
          exact ⟨[], rfl, rfl, rfl⟩
        · cases hrec : scanLocalTail f (r1.dropWhile isLocalChar) with
          | mk segs' r' =>
            simp [hs, he, hrec] at h
            obtain ⟨rfl, rfl⟩ := h
            obtain ⟨rest, hr, hsr, hseg⟩ := ih _ _ _ hrec
            obtain ⟨sep, hne, hrender⟩ := sep_of_char c hs
            refine ⟨(sep, r1.takeWhile isLocalChar) :: rest, ?_, ?_, by simp [hseg]⟩
            · simp only [List.all_cons, Bool.and_eq_true, bne_iff_ne, ne_eq]
              refine ⟨⟨hne, ?_⟩, hr⟩
              rw [segOk_iff]; exact ⟨he, takeWhile_local r1⟩
            · simp only [restRender, hrender]
              have e : r1 = List.takeWhile isLocalChar r1 ++ (restRender rest ++ r') := by
                rw [← hsr, List.takeWhile_append_dropWhile]
              simp only [List.append_assoc, List.cons_append, List.nil_append, ← e]
      · simp [hs] at h
        obtain ⟨rfl, rfl⟩ := h
        exact ⟨[], rfl, rfl, rfl⟩

theorem scanLocal_inv (s : Str) (loc : Option (List LSeg)) (r : Str) (h : scanLocal s = some (loc, r)) :
    ∃ l : Option Local, (∀ x, l = some x → x.ok = true) ∧ s = optR Local.render l ++ r ∧ loc = l.map Local.meaning := by
  cases s with
  | nil =>
    simp [scanLocal] at h; obtain ⟨rfl, rfl⟩ := h
    exact ⟨none, by intro x hx; simp at hx, rfl, rfl⟩
  | cons c r1 =>
    by_cases hc : c = 43
    · subst hc
      simp only [scanLocal] at h
      by_cases he : r1.takeWhile isLocalChar = []
      · simp [he] at h
      · cases hrec : scanLocalTail r1.length (r1.dropWhile isLocalChar) with
        | mk segs r' =>
          simp [he, hrec] at h
          obtain ⟨rfl, rfl⟩ := h
          obtain ⟨rest, hr, hsr, hseg⟩ := localTail_inv _ _ _ _ hrec
          refine ⟨some ⟨r1.takeWhile isLocalChar, rest⟩, ?_, ?_, ?_⟩
          · intro x hx; simp at hx; subst hx
            simp only [Local.ok, Bool.and_eq_true]
            exact ⟨by rw [segOk_iff]; exact ⟨he, takeWhile_local r1⟩, hr⟩
          · simp only [optR, Local.render, List.cons_append, List.append_assoc, ← hsr]
            simp
          · simp [Local.meaning, segMeaning_eq, hseg, List.map_map]
    · have : scanLocal (c :: r1) = some (none, c :: r1) := by
        unfold scanLocal
        split
        · rename_i heq; simp at heq; exact absurd heq.1 hc
        · rfl
      rw [this] at h
      simp at h; obtain ⟨rfl, rfl⟩ := h
      exact ⟨none, by intro x hx; simp at hx, rfl, rfl⟩

/-! ### the whole tail -/

theorem scanRest_inv (e f : Nat) (r : Str) (v : Ver) (rend : Str) (h : scanRest e f r = some (v, rend)) :
    ∃ (rels : List Digits) (pre : Option (Group PreWord)) (post : Option Post) (dev : Option (Group Unit))
      (loc : Option Local),
      rels.all digitsOk = true ∧ preOk pre ∧ postOk post ∧ devOk dev ∧ (∀ x, loc = some x → x.ok = true) ∧
      ¬ (preBare pre = true ∧ isImplicit post = true) ∧
      r = relRender rels ++ (optR Group.render pre ++ (optR Post.render post ++ (optR Group.render dev ++
            (optR Local.render loc ++ rend)))) ∧
      v = ⟨e, f :: rels.map value, pre.map (fun g => (g.kind.letter, g.number)), post.map Post.number,
           dev.map Group.number, loc.map Local.meaning⟩ := by
  unfold scanRest at h
  cases h1 : scanReleaseTail r.length r with
  | mk tail r1 =>
  cases h2 : preStage r1 with
  | mk pre r2 =>
  cases h3 : scanPost r2 with
  | mk post r3 =>
  cases h4 : devStage r3 with
  | mk dev r4 =>
  simp only [h1, h2, h3, h4] at h
  cases h5 : scanLocal r4 with
  | none => simp [h5] at h
  | some p =>
    obtain ⟨loc, r5⟩ := p
    simp only [h5, Option.some.injEq, Prod.mk.injEq] at h
    obtain ⟨rfl, rfl⟩ := h
    obtain ⟨rels, hrels, hs1, ht⟩ := relTail_inv _ _ _ _ h1
    obtain ⟨gpre, hpre, hs2, hp, hb⟩ := preStage_inv _ _ _ h2
    obtain ⟨gpost, hpost, hs3, hpo, hi⟩ := scanPost_inv _ _ _ h3
    obtain ⟨gdev, hdev, hs4, hd⟩ := devStage_inv _ _ _ h4
    obtain ⟨gloc, hloc, hs5, hl⟩ := scanLocal_inv _ _ _ h5
    refine ⟨rels, gpre, gpost, gdev, gloc, hrels, hpre, hpost, hdev, hloc, ?_, ?_, ?_⟩
    · rintro ⟨hbare, himp⟩
      obtain ⟨t, ht'⟩ := hi himp
      have := hb hbare 45 (by rw [ht']; rfl)
      simp [isSep] at this
    · rw [hs1, hs2, hs3, hs4, hs5]
    · rw [ht, hp, hpo, hd, hl]

/-! ### the whole string -/

theorem stripV_inv (s : Str) :
    ∃ v : Option Nat, (match v with | some c => lowerAscii c == 118 | none => true) = true ∧
      s = optR (fun c => [c]) v ++ stripV s := by
  cases s with
  | nil => exact ⟨none, rfl, rfl⟩
  | cons c cs =>
    by_cases hc : (lowerAscii c == 118) = true
    · exact ⟨some c, hc, by simp [stripV, hc, optR]⟩
    · exact ⟨none, rfl, by simp [stripV, hc, optR]⟩

theorem dropWhile_nil_all (r : Str) (h : (r.dropWhile isWs).isEmpty = true) : r.all isSpace = true := by
  induction r with
  | nil => rfl
  | cons c cs ih =>
    by_cases hc : isWs c = true
    · simp only [List.dropWhile, hc] at h
      simp [isSpace_eq, hc, ih h]
    · simp [List.dropWhile, hc] at h

theorem takeWhile_ws (s : Str) : (s.takeWhile isWs).all isSpace = true := by
  induction s with
  | nil => rfl
  | cons c cs ih =>
    by_cases hc : isWs c = true
    · simp [List.takeWhile, hc, isSpace_eq]; simpa [isSpace_eq] using ih
    · simp [List.takeWhile, hc]

theorem epochStep_inv (n0 : Nat) (r0 : Str) (e f : Nat) (r : Str) (h : epochStep n0 r0 = some (e, f, r)) :
    (∃ d1, digitsOk d1 = true ∧ r0 = 33 :: (d1 ++ r) ∧ e = n0 ∧ f = value d1) ∨ (e = 0 ∧ f = n0 ∧ r = r0) := by
  unfold epochStep at h
  split at h
  · rename_i r1
    cases hn1 : optNum r1 with
    | mk n1' r2 =>
      rw [hn1] at h
      cases n1' with
      | none => simp at h
      | some n1 =>
        obtain ⟨d1, hd1, hs1, hv1⟩ := optNum_inv _ _ _ hn1
        simp only [Option.some.injEq, Prod.mk.injEq] at h
        obtain ⟨rfl, rfl, rfl⟩ := h
        exact .inl ⟨d1, hd1, by rw [hs1], rfl, hv1⟩
  · simp only [Option.some.injEq, Prod.mk.injEq] at h
    obtain ⟨rfl, rfl, rfl⟩ := h
    exact .inr ⟨rfl, rfl, rfl⟩

/-- **Soundness of the scanner against the grammar**: every accepted string is the rendering of a valid
spelling, and the value returned is that spelling's PEP 440 meaning. -/
theorem scan_sound (s : Str) (v : Ver) (h : scan s = some v) :
    ∃ sp : Spelling, Valid sp = true ∧ render sp = s ∧ meaning sp = v := by
  unfold scan at h
  split at h
  · simp at h
  · rename_i w rend hc
    split at h
    · rename_i hend
      simp only [Option.some.injEq] at h; subst h
      rw [scanCore_eq] at hc
      obtain ⟨vv, hvv, hsv⟩ := stripV_inv (s.dropWhile isWs)
      cases hn : optNum (stripV (s.dropWhile isWs)) with
      | mk n0' r0 =>
        rw [hn] at hc
        cases n0' with
        | none => simp at hc
        | some n0 =>
          obtain ⟨d0, hd0, hs0, hv0⟩ := optNum_inv _ _ _ hn
          simp only at hc
          -- epoch or not
          have hep : ∃ (epoch : Option Digits) (rel0 : Digits) (e f : Nat) (r : Str),
              (match epoch with | some d => digitsOk d | none => true) = true ∧ digitsOk rel0 = true ∧
              d0 ++ r0 = optR (fun d => d ++ [33]) epoch ++ (rel0 ++ r) ∧ e = (epoch.map value).getD 0 ∧
              f = value rel0 ∧ scanRest e f r = some (w, rend) := by
            cases hes : epochStep n0 r0 with
            | none => simp [hes] at hc
            | some t =>
              obtain ⟨e, f, r⟩ := t
              simp only [hes] at hc
              rcases epochStep_inv _ _ _ _ _ hes with ⟨d1, hd1, hr0, he, hf⟩ | ⟨he, hf, hr⟩
              · exact ⟨some d0, d1, e, f, r, hd0, hd1, by simp [optR, hr0], by simp [he, hv0], hf, hc⟩
              · subst hr
                exact ⟨none, d0, e, f, r, rfl, hd0, by simp [optR], by simp [he], by rw [hf, hv0], hc⟩
          obtain ⟨epoch, rel0, e, f, r, hepo, hrel0, hsplit, he, hf, hrest⟩ := hep
          obtain ⟨rels, pre, post, dev, loc, hrels, hpre, hpost, hdev, hloc, hamb, hr, hw⟩ :=
            scanRest_inv _ _ _ _ _ hrest
          refine ⟨⟨s.takeWhile isWs, vv, epoch, rel0, rels, pre, post, dev, loc, rend⟩, ?_, ?_, ?_⟩
          · simp only [Valid, Bool.and_eq_true, Bool.not_eq_true']
            refine ⟨⟨⟨⟨⟨⟨⟨⟨⟨⟨?_, dropWhile_nil_all rend hend⟩, hvv⟩, hepo⟩, hrel0⟩, hrels⟩, ?_⟩, ?_⟩, ?_⟩, ?_⟩, ?_⟩
            · exact takeWhile_ws s
            · cases pre with
              | none => rfl
              | some g => exact hpre g rfl
            · cases post with
              | none => rfl
              | some g => exact hpost g rfl
            · cases dev with
              | none => rfl
              | some g => exact hdev g rfl
            · cases loc with
              | none => rfl
              | some g => exact hloc g rfl
            · cases pre with
              | none => rfl
              | some g =>
                cases post with
                | none => rfl
                | some p =>
                  cases p with
                  | spelled _ => rfl
                  | implicit n =>
                    simp only [ambiguous]
                    cases hb : g.bare with
                    | false => rfl
                    | true => exact absurd ⟨by simpa [preBare] using hb, rfl⟩ hamb
          · simp only [render]
            rw [← hr, ← hsplit, ← hs0, ← hsv]
            simp
          · rw [hw]; simp [meaning, he, hf]
    · simp at h

end Spelling
