import PkgModel.Spec.Spelling
import PkgProofs.Lemmas.ScanStr
/-!
# Spellings, part 1: characters, digit strings, words in any letter case, keyword selection
-/
namespace Spelling
open Py V

/-! ### characters -/

theorem isSpace_eq (c : Nat) : isSpace c = isWs c := by
  rw [Bool.eq_iff_iff]
  simp [isSpace, isWs]
  omega

theorem isSep_not_ws {c : Nat} (h : isWs c = true) : isSep c = false := by
  simp [isWs] at h; simp [isSep]; omega

theorem ws_not_digit {c : Nat} (h : isWs c = true) : isDigit c = false := by
  simp [isWs] at h; simp [isDigit]; omega

theorem lower_ws {c : Nat} (h : isWs c = true) : lowerAscii c = c := by
  simp [isWs] at h; simp [lowerAscii, isUpperAscii]; omega

theorem lowerStr_append (a b : Str) : lowerStr (a ++ b) = lowerStr a ++ lowerStr b := by
  simp [lowerStr]

theorem lowerStr_length (a : Str) : (lowerStr a).length = a.length := by simp [lowerStr]

/-! ### digit strings -/

theorem digitsOk_iff (d : Digits) : digitsOk d = true ↔ d ≠ [] ∧ ∀ c ∈ d, isDigit c = true := by
  simp [digitsOk]

theorem digits_head (d : Digits) (h : digitsOk d = true) : ∃ c cs, d = c :: cs ∧ isDigit c = true := by
  rw [digitsOk_iff] at h
  cases d with
  | nil => exact absurd rfl h.1
  | cons c cs => exact ⟨c, cs, rfl, h.2 c (by simp)⟩

theorem optNum_digits (d rest : Str) (hd : digitsOk d = true) (hr : NoDigit rest) :
    optNum (d ++ rest) = (some (value d), rest) := by
  rw [digitsOk_iff] at hd
  simp [optNum, spanDigits_append d rest hd.2 hr, hd.1, value]

theorem optSep_digits (d rest : Str) (hd : digitsOk d = true) : optSep (d ++ rest) = d ++ rest := by
  obtain ⟨c, cs, rfl, hc⟩ := digits_head d hd
  simp [optSep, isSep_digit hc]

/-! ### what may follow a word

`FollowOK t`: `t` does not start (case-insensitively) with one of the letters that would turn the word
before it into a longer keyword (`a|lpha`, `b|eta`, `pre|view`, `r|ev`, `r|c`). -/

def FollowOK (t : Str) : Prop :=
  ∀ c, t.head? = some c → lowerAscii c ≠ 108 ∧ lowerAscii c ≠ 101 ∧ lowerAscii c ≠ 118 ∧ lowerAscii c ≠ 99

theorem startsWith_follow (t : Str) (k : Nat) (ks : Str) (h : ∀ c, t.head? = some c → lowerAscii c ≠ k) :
    startsWith (lowerStr t) (k :: ks) = false := by
  cases t with
  | nil => simp [lowerStr, startsWith]
  | cons c cs => simp [lowerStr, startsWith, h c rfl]

/-! ### `dropKw` -/

theorem dropKw_spelled (k w rest : Str) (h : lowerStr w = k) : dropKw k (w ++ rest) = some rest := by
  induction k generalizing w with
  | nil =>
    cases w with
    | nil => simp [dropKw]
    | cons c cs => simp [lowerStr] at h
  | cons a ks ih =>
    cases w with
    | nil => simp [lowerStr] at h
    | cons c cs =>
      simp [lowerStr] at h
      simp [dropKw, h.1]
      exact ih cs (by simpa [lowerStr] using h.2)

theorem dropKw_none_of (k s : Str) (h : startsWith (lowerStr s) k = false) : dropKw k s = none := by
  induction k generalizing s with
  | nil => cases s <;> simp [startsWith] at h
  | cons a ks ih =>
    cases s with
    | nil => simp [dropKw]
    | cons c cs =>
      simp only [lowerStr, List.map_cons, startsWith, Bool.and_eq_false_iff] at h
      simp only [dropKw]
      by_cases hc : lowerAscii c = a
      · simp only [hc, beq_self_eq_true, if_true]
        rcases h with h | h
        · simp [hc] at h
        · exact ih cs h
      · simp [hc]

/-- a word that spells `k :: ks` does not start with a separator -/
theorem optSep_word (w t : Str) (k : Nat) (ks : Str) (h : lowerStr w = k :: ks) (hk : isSep k = false) :
    optSep (w ++ t) = w ++ t := by
  cases w with
  | nil => simp [lowerStr] at h
  | cons c cs =>
    simp [lowerStr] at h
    have : isSep c = false := by
      cases hs : isSep c with
      | false => rfl
      | true =>
        have hl : lowerAscii c = c := by
          simp [isSep] at hs; simp [lowerAscii, isUpperAscii]; omega
        rw [hl] at h; rw [h.1] at hs; rw [hs] at hk; exact absurd hk (by simp)
    simp [optSep, this]

theorem optSep_sep_word (sep : Sep) (w t : Str) (k : Nat) (ks : Str) (h : lowerStr w = k :: ks)
    (hk : isSep k = false) : optSep (sep.render ++ (w ++ t)) = w ++ t := by
  cases sep
  · simpa [Sep.render] using optSep_word w t k ks h hk
  all_goals simp [Sep.render, optSep, isSep]

end Spelling
