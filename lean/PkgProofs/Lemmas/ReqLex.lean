import PkgProofs.Lemmas.ReqBasic
import PkgProofs.Lemmas.MarkerLexParse
/-!
Lemmas for C08 (character level): what the requirement token rules find on the canonical layout
(`str` of a requirement): identifiers, the one-character rules, URL, white space, END.
-/
namespace ReqLex
open Py Mk Req MkLex
set_option linter.unusedSimpArgs false

/-! ### generated data, as equations -/

theorem identHead_eq : Gen.ReqTok.identHead = [(48, 57), (65, 90), (97, 122)] := by decide
theorem identTail_eq : Gen.ReqTok.identTail = [(45, 46), (48, 57), (65, 90), (95, 95), (97, 122)] := by decide
theorem asciiWord_eq : Gen.MarkerTok.asciiWord = [(48, 57), (65, 90), (95, 95), (97, 122)] := by decide
theorem urlExcluded_eq : Gen.ReqTok.urlExcluded = [9, 32] := by decide

theorem isIdentHead_iff (c : Nat) : isIdentHead c = true ↔ (48 ≤ c ∧ c ≤ 57) ∨ (65 ≤ c ∧ c ≤ 90) ∨ (97 ≤ c ∧ c ≤ 122) := by
  simp [isIdentHead, inRanges, identHead_eq]

theorem isIdentTail_iff (c : Nat) : isIdentTail c = true ↔
    (45 ≤ c ∧ c ≤ 46) ∨ (48 ≤ c ∧ c ≤ 57) ∨ (65 ≤ c ∧ c ≤ 90) ∨ c = 95 ∨ (97 ≤ c ∧ c ≤ 122) := by
  simp [isIdentTail, inRanges, identTail_eq]
  omega

theorem isWord_ascii (c : Nat) (h : c < 128) : isWord c = true ↔
    (48 ≤ c ∧ c ≤ 57) ∨ (65 ≤ c ∧ c ≤ 90) ∨ c = 95 ∨ (97 ≤ c ∧ c ≤ 122) := by
  simp [isWord, h, inRanges, asciiWord_eq]
  omega

theorem isWord_of_head {c : Nat} (h : isIdentHead c = true) : isWord c = true := by
  rw [isIdentHead_iff] at h
  have : c < 128 := by omega
  rw [isWord_ascii c this]; omega

theorem isUrlChar_iff (c : Nat) : isUrlChar c = true ↔ c ≠ 9 ∧ c ≠ 32 := by
  simp [isUrlChar, urlExcluded_eq]

/-- a word character is none of the ASCII punctuation / white-space characters the grammar looks for -/
theorem isWord_not_punct {c : Nat} (h : isWord c = true) :
    c ≠ 9 ∧ c ≠ 10 ∧ c ≠ 32 ∧ c ≠ 33 ∧ c ≠ 40 ∧ c ≠ 41 ∧ c ≠ 44 ∧ c ≠ 59 ∧ c ≠ 60 ∧ c ≠ 61 ∧ c ≠ 62 ∧ c ≠ 64 ∧ c ≠ 91 ∧
    c ≠ 93 ∧ c ≠ 126 := by
  by_cases hc : c < 128
  · rw [isWord_ascii c hc] at h; omega
  · omega

/-! ### IDENTIFIER -/

/-- what may follow an identifier in the canonical layout: nothing, or a character that is neither a word
character nor an identifier character -/
def StopK (k : Str) : Prop := ∀ d, k.head? = some d → isWord d = false ∧ isIdentTail d = false

/-- the texts the IDENTIFIER rule returns inside an accepted requirement: a letter or digit, then letters, digits,
`.`, `_`, `-`, ending in a word character -/
def IdentOK (s : Str) : Prop :=
  ∃ c t, s = c :: t ∧ isIdentHead c = true ∧ (∀ x ∈ t, isIdentTail x = true) ∧ isWordO (lastOr s none) = true

theorem lastOr_cons_cons (c x : Nat) (t : Str) (p : Option Nat) : lastOr (c :: x :: t) p = lastOr (x :: t) p := by
  simp [lastOr]

theorem lastOr_ne (s : Str) (h : s ≠ []) (p : Option Nat) : lastOr s p = lastOr s none :=
  lastOr_nonempty s h p none

theorem identEnd_exact : (t : Str) → (c : Nat) → (k : Str) → (∀ x ∈ t, isIdentTail x = true) →
    isWordO (lastOr (c :: t) none) = true → StopK k → identEnd (t ++ k) c = some t.length
  | [], c, k, _, hl, hk => by
    have hc : isWord c = true := by simpa [lastOr, isWordO] using hl
    cases k with
    | nil => simp [identEnd, hc]
    | cons d k' =>
      obtain ⟨h1, h2⟩ := hk d rfl
      simp [identEnd, boundary, isWordO, hc, h1, h2]
  | x :: t, c, k, ht, hl, hk => by
    have hx : isIdentTail x = true := ht x (by simp)
    have ih := identEnd_exact t x k (fun y hy => ht y (by simp [hy])) (by rwa [lastOr_cons_cons] at hl) hk
    simp [identEnd, hx, ih]

/-- **IDENTIFIER on a well-formed identifier** followed by a non-identifier, non-word character (or nothing), after a
non-word character (or at the start): exactly the identifier -/
theorem checkR_ident (s : Str) (hs : IdentOK s) (prev : Option Nat) (hp : isWordO prev = false) (k : Str) (hk : StopK k) :
    checkR .identifier ⟨prev, s ++ k⟩ = some (s, ⟨lastOr s none, k⟩) := by
  obtain ⟨c, t, rfl, hc, ht, hl⟩ := hs
  have hw := isWord_of_head hc
  have he := identEnd_exact t c k ht hl hk
  have hb : boundary prev (some c) = true := by rw [boundary, hp]; simp [isWordO, hw]
  have hlast : lastOr (c :: t) prev = lastOr (c :: t) none := lastOr_ne _ (by simp) _
  simp [checkR, matchR, matchIdent, hc, hb, he, hlast]

theorem matchIdent_none (prev : Option Nat) (k : Str) (h : ∀ d, k.head? = some d → isIdentHead d = false) :
    matchIdent prev k = none := by
  cases k with
  | nil => rfl
  | cons d k' => simp [matchIdent, h d rfl]

theorem peek_ident_false (st : St) (h : ∀ d, st.rest.head? = some d → isIdentHead d = false) :
    peekR .identifier st = false := by
  simp [peekR, matchR, matchIdent_none st.prev st.rest h]

theorem checkR_ident_none (st : St) (h : ∀ d, st.rest.head? = some d → isIdentHead d = false) :
    checkR .identifier st = none := by
  simp [checkR, matchR, matchIdent_none st.prev st.rest h]

/-! ### one-character rules -/

/-- a finite rule whose only word is the one character `a`, without boundary conditions -/
theorem matchFin_single_hit (a : Nat) (prev : Option Nat) (k : Str) :
    matchFin (false, [[a]], false) prev (a :: k) = some 1 := by
  simp [matchFin, startsWith]

theorem matchFin_single_miss (a : Nat) (prev : Option Nat) (k : Str) (h : k.head? ≠ some a) :
    matchFin (false, [[a]], false) prev k = none := by
  cases k with
  | nil => simp [matchFin, startsWith]
  | cons d k' =>
    have : (d == a) = false := by
      simp only [List.head?_cons, ne_eq, Option.some.injEq] at h
      simpa using h
    simp [matchFin, startsWith, this]

theorem rLbracket_eq : Gen.ReqTok.rLbracket = (false, [[91]], false) := by decide
theorem rRbracket_eq : Gen.ReqTok.rRbracket = (false, [[93]], false) := by decide
theorem rSemicolon_eq : Gen.ReqTok.rSemicolon = (false, [[59]], false) := by decide
theorem rComma_eq : Gen.ReqTok.rComma = (false, [[44]], false) := by decide
theorem rAt_eq : Gen.ReqTok.rAt = (false, [[64]], false) := by decide
theorem rPrefixTrail_eq : Gen.ReqTok.rPrefixTrail = (false, [[46, 42]], false) := by decide

/-- the character of each one-character rule -/
def charOf : RRule → Option Nat
  | .lbracket => some 91 | .rbracket => some 93 | .semicolon => some 59 | .comma => some 44 | .at_ => some 64
  | _ => none

theorem matchR_single (r : RRule) (a : Nat) (hr : charOf r = some a) (prev : Option Nat) (k : Str) :
    matchR r prev k = matchFin (false, [[a]], false) prev k := by
  cases r <;> simp [charOf] at hr <;> subst hr <;>
    simp [matchR, rLbracket_eq, rRbracket_eq, rSemicolon_eq, rComma_eq, rAt_eq]

theorem checkR_single_hit (r : RRule) (a : Nat) (hr : charOf r = some a) (prev : Option Nat) (k : Str) :
    checkR r ⟨prev, a :: k⟩ = some ([a], ⟨some a, k⟩) := by
  simp [checkR, matchR_single r a hr, matchFin_single_hit, lastOr]

theorem checkR_single_miss (r : RRule) (a : Nat) (hr : charOf r = some a) (st : St) (h : st.rest.head? ≠ some a) :
    checkR r st = none := by
  simp [checkR, matchR_single r a hr, matchFin_single_miss a st.prev st.rest h]

theorem peekR_single_miss (r : RRule) (a : Nat) (hr : charOf r = some a) (st : St) (h : st.rest.head? ≠ some a) :
    peekR r st = false := by
  simp [peekR, matchR_single r a hr, matchFin_single_miss a st.prev st.rest h]

theorem peek_prefixTrail_false (st : St) (h : st.rest.head? ≠ some 46) : peekR .prefixTrail st = false := by
  have : matchFin (false, [[46, 42]], false) st.prev st.rest = none := by
    cases hk : st.rest with
    | nil => simp [matchFin, startsWith]
    | cons d k' =>
      have : (d == 46) = false := by
        rw [hk] at h
        simp only [List.head?_cons, ne_eq, Option.some.injEq] at h
        simpa using h
      simp [matchFin, startsWith, this]
  simp [peekR, matchR, rPrefixTrail_eq, this]

theorem localLead_eq : Gen.ReqTok.localLead = 43 := by decide

theorem peek_localTrail_false (st : St) (h : st.rest.head? ≠ some 43) : peekR .localTrail st = false := by
  cases hk : st.rest with
  | nil => simp [peekR, matchR, hk, matchLocalTrail]
  | cons d k' =>
    have : (d == 43) = false := by
      rw [hk] at h
      simp only [List.head?_cons, ne_eq, Option.some.injEq] at h
      simpa using h
    simp [peekR, matchR, hk, matchLocalTrail, localLead_eq, this]

/-! ### parentheses, white space, END (rules shared with the marker grammar) -/

theorem check_lparen_none (st : St) (h : st.rest.head? ≠ some 40) : St.check .lparen st = none := by
  have : matchRule .lparen st.prev st.rest = none :=
    fin_none_by_head .lparen (by decide) st.prev st.rest (by
      intro c hc; rw [heads_parens.1]; intro hm
      simp only [List.mem_cons, List.mem_nil_iff, or_false] at hm
      subst hm; exact h hc)
  simp [St.check, this]

/-- `consume("WS")` where no white space stands -/
theorem ws_noop (st : St) (h : ∀ c, st.rest.head? = some c → c ≠ 9 ∧ c ≠ 32) : ws st = st := by
  have : matchWs st.rest = none := matchWs_none st.rest h
  simp [ws, consume, charTS, St.check, matchRule, this]

/-- `consume("WS")` on exactly one space -/
theorem ws_one (prev : Option Nat) (k : Str) (h : ∀ c, k.head? = some c → c ≠ 9 ∧ c ≠ 32) :
    ws ⟨prev, 32 :: k⟩ = ⟨some 32, k⟩ := by
  have : matchWs (32 :: k) = some 1 := matchWs_one k h
  simp [ws, consume, charTS, St.check, matchRule, this, lastOr]

theorem check_ws_one (prev : Option Nat) (k : Str) (h : ∀ c, k.head? = some c → c ≠ 9 ∧ c ≠ 32) :
    St.check .ws ⟨prev, 32 :: k⟩ = some ([32], ⟨some 32, k⟩) := by
  have : matchWs (32 :: k) = some 1 := matchWs_one k h
  simp [St.check, matchRule, this, lastOr]

theorem peekEnd_nil (prev : Option Nat) : peekEnd ⟨prev, []⟩ = true := by
  simp [peekEnd, St.check, matchRule, matchEnd]

theorem peekEnd_cons (prev : Option Nat) (c : Nat) (k : Str) (hc : c ≠ 10) : peekEnd ⟨prev, c :: k⟩ = false := by
  have : matchEnd (c :: k) = none := matchEnd_none _ c rfl hc
  simp [peekEnd, St.check, matchRule, this]

/-! ### URL -/

theorem takeWhile_all_append {p : Nat → Bool} : (u k : Str) → (∀ x ∈ u, p x = true) →
    (∀ d, k.head? = some d → p d = false) → (u ++ k).takeWhile p = u
  | [], [], _, _ => rfl
  | [], d :: k, _, hk => by simp [List.takeWhile, hk d rfl]
  | x :: u, k, hu, hk => by
    have := takeWhile_all_append u k (fun y hy => hu y (by simp [hy])) hk
    simp [List.takeWhile, hu x (by simp), this]

/-- what may follow a URL: nothing, or a space / tab -/
def UrlStop (k : Str) : Prop := ∀ d, k.head? = some d → d = 9 ∨ d = 32

/-- **URL on a run of non-white-space characters** followed by white space or nothing: exactly the run -/
theorem checkR_url (u : Str) (hne : u ≠ []) (hu : ∀ x ∈ u, isUrlChar x = true) (prev : Option Nat) (k : Str) (hk : UrlStop k) :
    checkR .url ⟨prev, u ++ k⟩ = some (u, ⟨lastOr u none, k⟩) := by
  have htw : (u ++ k).takeWhile isUrlChar = u :=
    takeWhile_all_append u k hu (by
      intro d hd
      have := hk d hd
      cases hc : isUrlChar d with
      | false => rfl
      | true => rw [isUrlChar_iff] at hc; omega)
  have hlen : u.length ≠ 0 := by
    cases u with
    | nil => exact absurd rfl hne
    | cons _ _ => simp
  simp [checkR, matchR, matchUrl, htw, hlen, lastOr_ne u hne prev]

/-! ### SPECIFIER -/

theorem specOps_eq : Gen.ReqTok.specOps = [[126, 61], [61, 61], [33, 61], [60, 61], [62, 61], [60], [62], [61, 61, 61]] := by decide
theorem specForms_eq : Gen.ReqTok.specForms = [((true, [[61, 61, 61]]), none), ((true, [[61, 61], [33, 61]]), some (0, true, true)), ((true, [[126, 61]]), some (1, false, false)), ((false, [[61, 61], [33, 61], [126, 61]]), some (0, false, false))] := by decide

theorem matchSpecifier_none (prev : Option Nat) (k : Str)
    (h : ∀ d, k.head? = some d → d ≠ 126 ∧ d ≠ 61 ∧ d ≠ 33 ∧ d ≠ 60 ∧ d ≠ 62) : matchSpecifier prev k = none := by
  cases k with
  | nil => simp [matchSpecifier, specOps_eq, startsWith]
  | cons d k' =>
    obtain ⟨h1, h2, h3, h4, h5⟩ := h d rfl
    simp [matchSpecifier, specOps_eq, startsWith, h1, h2, h3, h4, h5]

theorem dropWhile_all_append {p : Nat → Bool} : (u k : Str) → (∀ x ∈ u, p x = true) →
    (∀ d, k.head? = some d → p d = false) → (u ++ k).dropWhile p = k
  | [], [], _, _ => rfl
  | [], d :: k, _, hk => by simp [List.dropWhile, hk d rfl]
  | x :: u, k, hu, hk => by
    have := dropWhile_all_append u k (fun y hy => hu y (by simp [hy])) hk
    simp [List.dropWhile, hu x (by simp), this]

theorem optNum_nondigit (c : Nat) (s : Str) (h : isDigit c = false) : V.optNum (c :: s) = (none, c :: s) := by
  simp [V.optNum, spanDigits, h]

theorem verForm_eq_none (m : Nat) (w l : Bool) (s : Str) : verForm m w l (61 :: s) = none := by
  have h1 : V.isWs 61 = false := by decide
  have h2 : (lowerAscii 61 == 118) = false := by decide
  have h3 : isDigit 61 = false := by decide
  simp [verForm, relScan, stripV, List.dropWhile, h1, h2, optNum_nondigit 61 s h3]

theorem matchSpecifier_arb (prev : Option Nat) (hp : prev ≠ some 61) (body k : Str)
    (hb : ∀ x ∈ body, S.isArbChar x = true) (hk : k = [] ∨ ∃ t, k = 59 :: t) :
    matchSpecifier prev (61 :: 61 :: 61 :: (body ++ k)) = some (3 + body.length) := by
  have hg : ∀ p : List Nat, (∀ x, p = [x] → x ≠ 61) → p.length ≤ 1 → endsWith (p ++ [61, 61]) [61, 61, 61] = false := by
    intro p hp1 hp2
    match p, hp1, hp2 with
    | [], _, _ => decide
    | [x], hp1, _ =>
      have : (x == 61) = false := by simpa using hp1 x rfl
      simp [endsWith, startsWith, this]
    | _ :: _ :: _, _, h => simp at h
  have hpl : endsWith (prev.toList ++ [61, 61]) [61, 61, 61] = false := by
    apply hg
    · intro x hx
      cases prev with
      | none => simp at hx
      | some y => simp at hx; subst hx; intro e; exact hp (by rw [e])
    · cases prev <;> simp
  have hk' : ∀ d, k.head? = some d → S.isArbChar d = false ∧ V.isWs d = false := by
    intro d hd
    rcases hk with rfl | ⟨t, rfl⟩
    · simp at hd
    · simp at hd; subst hd; decide
  have hdw : ((body ++ k).dropWhile V.isWs).dropWhile S.isArbChar = k := by
    have h1 : (body ++ k).dropWhile V.isWs = body ++ k := by
      cases body with
      | nil =>
        cases k with
        | nil => rfl
        | cons d t => simp [List.dropWhile, (hk' d rfl).2]
      | cons x xs =>
        have : V.isWs x = false := by
          have := hb x (by simp)
          simp only [S.isArbChar, Bool.and_eq_true, Bool.not_eq_true'] at this
          exact this.1.1
        simp [List.dropWhile, this]
    rw [h1]
    exact dropWhile_all_append body k hb (fun d hd => (hk' d hd).1)
  cases prev with
  | none =>
    simp [matchSpecifier, specOps_eq, specForms_eq, startsWith, guardHolds, endsWith, formRest, verForm_eq_none, hdw]
    omega
  | some y =>
    have hy : (y == 61) = false := by
      have : y ≠ 61 := fun e => hp (by rw [e])
      simpa using this
    simp [matchSpecifier, specOps_eq, specForms_eq, startsWith, guardHolds, endsWith, formRest, verForm_eq_none, hdw, hy]
    omega
end ReqLex
