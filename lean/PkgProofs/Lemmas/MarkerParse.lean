import PkgModel.Marker
import PkgModel.Spec.Pep508
/-!
Lemmas for C07/C09: the recursive-descent parser run on a token stream inverts the printer
(`parse_print`), for every marker list that denotes a formula, at every nesting depth.
-/
namespace MkParse
open Py Mk Pep508
set_option linter.unusedSimpArgs false

/-! ### printing a marker list as tokens: every nested list gets its parentheses -/

mutual
def printM : M → List Tok
  | .atom a => atomToks a
  | .bool s => [(.boolop, s)]
  | .list l => lp :: (printL l ++ [rp])
def printL : List M → List Tok
  | [] => []
  | m :: ms => printM m ++ printL ms
end

theorem printL_append : (a b : List M) → printL (a ++ b) = printL a ++ printL b
  | [], b => by simp [printL]
  | m :: a, b => by simp [printL, printL_append a b]

mutual
def atomsM : M → List Atom
  | .atom a => [a]
  | .bool _ => []
  | .list l => atomsL l
def atomsL : List M → List Atom
  | [] => []
  | m :: ms => atomsM m ++ atomsL ms
end

mutual
def sizeM : M → Nat
  | .atom _ => 1
  | .bool _ => 0
  | .list l => 1 + sizeL l
def sizeL : List M → Nat
  | [] => 1
  | m :: ms => 1 + sizeM m + sizeL ms
end

/-- `ast.literal_eval` is the identity on the quoted form of such a string -/
def PlainStr (s : Str) : Prop :=
  s.any isSurrogate = false ∧ s.contains 0 = false ∧ s.contains 92 = false ∧ s.contains 10 = false ∧ s.contains 13 = false

def PlainNode : Node → Prop
  | .var s => processEnvVar s = .var s
  | .val s => PlainStr s

def PlainAtom (a : Atom) : Prop := PlainNode a.lhs ∧ PlainNode a.rhs

instance (s : Str) : Decidable (PlainStr s) := by unfold PlainStr; infer_instance
instance (n : Node) : Decidable (PlainNode n) := by cases n <;> (unfold PlainNode; infer_instance)
instance (a : Atom) : Decidable (PlainAtom a) := by unfold PlainAtom; infer_instance

/-! ### the token stream -/

def headRule (ts : List Tok) : Option Rule := ts.head?.map (·.1)

theorem check_cons (r : Rule) (t : Tok) (ts : List Tok) :
    tokTS.check r (t :: ts) = if t.1 == r then some (t.2, ts) else none := rfl

theorem consume_ws_of (ts : List Tok) (h : headRule ts ≠ some .ws) : consume tokTS .ws ts = ts := by
  cases ts with
  | nil => simp [consume, tokTS]
  | cons t ts =>
    have : (t.1 == Rule.ws) = false := by
      simp only [headRule, List.head?_cons, Option.map_some, ne_eq, Option.some.injEq] at h
      simpa using h
    simp [consume, check_cons, this]

theorem pyStrLit_serialize (s : Str) (h : PlainStr s) : pyStrLit (Node.val s).serialize = .ok s := by
  obtain ⟨h1, h2, h3, h4, h5⟩ := h
  have hs : ∀ q : Nat, (q = 34 ∨ q = 39) → pyStrLit ([q] ++ s ++ [q]) = .ok s := by
    intro q hq
    have hq1 : isSurrogate q = false := by rcases hq with rfl | rfl <;> decide
    have hq2 : (q == 0) = false := by rcases hq with rfl | rfl <;> decide
    unfold pyStrLit
    have a1 : ([q] ++ s ++ [q]).any isSurrogate = false := by simp [List.any_append, h1, hq1]
    have a2 : ([q] ++ s ++ [q]).contains 0 = false := by
      simp only [List.contains_eq_any_beq, List.any_append, List.any_cons, List.any_nil] at h2 ⊢
      have : (0 == q) = false := by rcases hq with rfl | rfl <;> decide
      simp [h2, this]
    have a3 : (([q] ++ s ++ [q]).drop 1).dropLast = s := by simp
    simp only [a1, a2, a3, h3, h4, h5]
    simp
  show pyStrLit (if s.contains 34 then [39] ++ s ++ [39] else [34] ++ s ++ [34]) = .ok s
  by_cases hc : s.contains 34 = true
  · rw [if_pos hc]; exact hs 39 (Or.inr rfl)
  · rw [if_neg hc]; exact hs 34 (Or.inl rfl)


theorem parseVar_node (n : Node) (hn : PlainNode n) (rest : List Tok) :
    parseVar tokTS (nodeTok n :: rest) = .ok (n, rest) := by
  cases n with
  | var s =>
    simp only [PlainNode] at hn
    simp [parseVar, nodeTok, check_cons, hn]
  | val s =>
    simp only [PlainNode] at hn
    have : (Rule.quoted == Rule.variable) = false := by decide
    simp [parseVar, nodeTok, check_cons, this, pyStrLit_serialize s hn]

theorem parseOp_toks (op : Str) (rest : List Tok) : parseOp tokTS (opToks op ++ rest) = .ok (op, rest) := by
  unfold opToks
  by_cases h1 : (op == s_in) = true
  · have : op = s_in := by simpa using h1
    subst this
    simp [parseOp, check_cons]
  · by_cases h2 : (op == s_not_in) = true
    · have : op = s_not_in := by simpa using h2
      subst this
      have e1 : (s_not_in == s_in) = false := by decide
      have e2 : (Rule.kwNot == Rule.kwIn) = false := by decide
      simp [parseOp, check_cons, e1, e2]
    · have e1 : (Rule.op == Rule.kwIn) = false := by decide
      have e2 : (Rule.op == Rule.kwNot) = false := by decide
      simp [parseOp, check_cons, h1, h2, e1, e2]

theorem headRule_node (n : Node) (rest : List Tok) : headRule (nodeTok n :: rest) ≠ some .ws := by
  cases n <;> simp [headRule, nodeTok]

theorem headRule_opToks (op : Str) (rest : List Tok) : headRule (opToks op ++ rest) ≠ some .ws := by
  unfold opToks
  by_cases h1 : (op == s_in) = true
  · simp [h1, headRule]
  · by_cases h2 : (op == s_not_in) = true <;> simp [h1, h2, headRule]

theorem parseItem_toks (a : Atom) (ha : PlainAtom a) (rest : List Tok) (hr : headRule rest ≠ some .ws) :
    parseItem tokTS (atomToks a ++ rest) = .ok (a, rest) := by
  obtain ⟨l, o, r⟩ := a
  obtain ⟨hl, hr'⟩ := ha
  simp only at hl hr'
  unfold parseItem atomToks
  simp only [List.cons_append, List.append_assoc, List.singleton_append]
  rw [consume_ws_of _ (headRule_node l _)]
  simp only [parseVar_node l hl, bind, Except.bind]
  rw [consume_ws_of _ (headRule_opToks o _)]
  simp only [parseOp_toks]
  rw [consume_ws_of _ (headRule_node r _)]
  simp only [parseVar_node r hr']
  simp only [List.nil_append]
  rw [consume_ws_of _ hr]
  rfl


/-! ### heads of printed items -/

theorem sizeL_pos (l : List M) : 1 ≤ sizeL l := by cases l <;> simp [sizeL] <;> omega

theorem head_item (m : M) (f : Formula) (h : fOfM m = some f) (rest : List Tok) :
    ∃ t ts, printM m ++ rest = t :: ts ∧ (t.1 = .variable ∨ t.1 = .quoted ∨ t.1 = .lparen) ∧
      (t.1 = .lparen ↔ ∃ l, m = .list l) := by
  cases m with
  | atom a =>
    obtain ⟨l, o, r⟩ := a
    cases l <;> simp [printM, atomToks, nodeTok]
  | bool s => simp [fOfM] at h
  | list l => simp [printM, lp]

theorem noWs_item (m : M) (f : Formula) (h : fOfM m = some f) (rest : List Tok) :
    headRule (printM m ++ rest) ≠ some .ws := by
  obtain ⟨t, ts, e, h1, _⟩ := head_item m f h rest
  rw [e]; simp only [headRule, List.head?_cons, Option.map_some, ne_eq, Option.some.injEq]
  rcases h1 with h1 | h1 | h1 <;> simp [h1]

theorem noWs_list (l : List M) (f : Formula) (h : fOfL l = some f) (rest : List Tok) :
    headRule (printL l ++ rest) ≠ some .ws := by
  cases l with
  | nil => simp [fOfL] at h
  | cons m ms =>
    simp only [fOfL] at h
    cases hm : fOfM m with
    | none => simp [hm] at h
    | some fm =>
      simp only [printL, List.append_assoc]
      exact noWs_item m fm hm _

/-- what may follow a printed item inside a list: nothing more of the list, or a boolean operator -/
theorem noWs_tail (r : List M) (o : Option Formula) (a f : Formula) (h : fOfRest r o a = some f)
    (rest : List Tok) (hr : headRule rest ≠ some .ws) : headRule (printL r ++ rest) ≠ some .ws := by
  cases r with
  | nil => simpa [printL] using hr
  | cons b r' =>
    cases b with
    | bool s => simp [printL, printM, headRule]
    | atom _ => cases r' <;> simp [fOfRest] at h
    | list _ => cases r' <;> simp [fOfRest] at h


theorem check_of_head (r : Rule) (t : Tok) (ts : List Tok) (h : t.1 = r) : tokTS.check r (t :: ts) = some (t.2, ts) := by
  simp [check_cons, h]
theorem check_of_head_ne (r : Rule) (t : Tok) (ts : List Tok) (h : t.1 ≠ r) : tokTS.check r (t :: ts) = none := by
  have : (t.1 == r) = false := by simpa using h
  simp [check_cons, this]

theorem check_boolop_none (ts : List Tok) (h : headRule ts ≠ some .boolop) : tokTS.check .boolop ts = none := by
  cases ts with
  | nil => rfl
  | cons t ts =>
    apply check_of_head_ne
    simpa [headRule] using h

theorem check_lp (ts : List Tok) : tokTS.check .lparen (lp :: ts) = some ([40], ts) := rfl
theorem check_rp (ts : List Tok) : tokTS.check .rparen (rp :: ts) = some ([41], ts) := rfl

mutual
theorem item_pp : (m : M) → (f : Formula) → fOfM m = some f → (∀ a ∈ atomsM m, PlainAtom a) →
    (fuel : Nat) → sizeM m ≤ fuel → (rest : List Tok) → headRule rest ≠ some .ws →
    parseAtom tokTS fuel (printM m ++ rest) = .ok (m, rest)
  | .bool _, f, h, _, _, _, _, _ => by simp [fOfM] at h
  | .atom a, f, h, hp, fuel, hf, rest, hr => by
    cases fuel with
    | zero => simp [sizeM] at hf
    | succ n =>
      have ha : PlainAtom a := hp a (by simp [atomsM])
      obtain ⟨t, ts, e, h1, h2⟩ := head_item (.atom a) f h rest
      have hne : t.1 ≠ .lparen := by intro c; obtain ⟨l, hl⟩ := h2.mp c; cases hl
      simp only [parseAtom]
      rw [consume_ws_of _ (noWs_item (.atom a) f h rest), e, check_of_head_ne _ _ _ hne, ← e]
      simp only [printM, parseItem_toks a ha rest hr, bind, Except.bind, pure, Except.pure]
      rw [consume_ws_of _ hr]
  | .list l, f, h, hp, fuel, hf, rest, hr => by
    cases fuel with
    | zero => simp [sizeM] at hf
    | succ n =>
      simp only [fOfM] at h
      simp only [sizeM] at hf
      have hl := list_pp l f h (fun a ha => hp a (by simpa [atomsM] using ha)) n (by omega) (rp :: rest)
        (by simp [headRule, rp]) (by simp [headRule, rp])
      simp only [parseAtom, printM, List.cons_append, List.append_assoc, List.singleton_append, List.nil_append]
      rw [consume_ws_of _ (by simp [headRule, lp]), check_lp]
      simp only
      rw [consume_ws_of _ (noWs_list l f h _)]
      simp only [hl, bind, Except.bind]
      rw [consume_ws_of _ (by simp [headRule, rp]), check_rp]
      simp only [pure, Except.pure]
      rw [consume_ws_of _ hr]
theorem list_pp : (l : List M) → (f : Formula) → fOfL l = some f → (∀ a ∈ atomsL l, PlainAtom a) →
    (fuel : Nat) → sizeL l ≤ fuel → (rest : List Tok) → headRule rest ≠ some .ws → headRule rest ≠ some .boolop →
    parseMarker tokTS fuel (printL l ++ rest) = .ok (l, rest)
  | [], f, h, _, _, _, _, _, _ => by simp [fOfL] at h
  | m :: r, f, h, hp, fuel, hf, rest, hr, hb => by
    cases fuel with
    | zero => simp [sizeL] at hf
    | succ n =>
      simp only [fOfL] at h
      simp only [sizeL] at hf
      cases hm : fOfM m with
      | none => simp [hm] at h
      | some fm =>
        simp only [hm] at h
        have hi := item_pp m fm hm (fun a ha => hp a (by simp [atomsL, ha])) n (by omega) (printL r ++ rest)
          (noWs_tail r none fm f h rest hr)
        have hrest := rest_pp r none fm f h (fun a ha => hp a (by simp [atomsL, ha])) n (by omega) [m] rest hr hb
        simp only [parseMarker, printL, List.append_assoc, hi, bind, Except.bind, hrest]
        rfl
theorem rest_pp : (r : List M) → (o : Option Formula) → (a f : Formula) → fOfRest r o a = some f →
    (∀ x ∈ atomsL r, PlainAtom x) → (fuel : Nat) → sizeL r ≤ fuel → (acc : List M) → (rest : List Tok) →
    headRule rest ≠ some .ws → headRule rest ≠ some .boolop →
    parseRest tokTS fuel acc (printL r ++ rest) = .ok (acc ++ r, rest)
  | [], o, a, f, h, hp, fuel, hf, acc, rest, hr, hb => by
    cases fuel with
    | zero => simp [sizeL] at hf
    | succ n => simp [parseRest, printL, check_boolop_none rest hb]
  | [_], _, _, _, h, _, _, _, _, _, _, _ => by simp [fOfRest] at h
  | .atom _ :: _ :: _, _, _, _, h, _, _, _, _, _, _, _ => by simp [fOfRest] at h
  | .list _ :: _ :: _, _, _, _, h, _, _, _, _, _, _, _ => by simp [fOfRest] at h
  | .bool s :: m :: r, o, a, f, h, hp, fuel, hf, acc, rest, hr, hb => by
    cases fuel with
    | zero => simp [sizeL] at hf
    | succ n =>
      simp only [fOfRest] at h
      simp only [sizeL, sizeM] at hf
      cases hm : fOfM m with
      | none => simp [hm] at h
      | some fm =>
        simp only [hm] at h
        have hplain : ∀ x ∈ atomsL r, PlainAtom x := fun x hx => hp x (by simp [atomsL, atomsM, hx])
        have hpm : ∀ x ∈ atomsM m, PlainAtom x := fun x hx => hp x (by simp [atomsL, atomsM, hx])
        have key : ∀ o' a', fOfRest r o' a' = some f →
            parseRest tokTS (n + 1) acc (printL (.bool s :: m :: r) ++ rest) = .ok (acc ++ (.bool s :: m :: r), rest) := by
          intro o' a' h'
          have hi := item_pp m fm hm hpm n (by omega) (printL r ++ rest) (noWs_tail r o' a' f h' rest hr)
          have hrest := rest_pp r o' a' f h' hplain n (by omega) (acc ++ [.bool s, m]) rest hr hb
          simp only [parseRest, printL, printM, List.cons_append, List.nil_append, List.append_assoc,
            check_of_head .boolop (Rule.boolop, s) _ rfl, hi, bind, Except.bind, hrest]
        by_cases hs : (s == s_and) = true
        · simp only [hs, if_true] at h
          exact key _ _ h
        · simp only [hs] at h
          by_cases hs2 : (s == s_or) = true
          · simp only [hs2, if_true, Bool.false_eq_true, if_false] at h
            exact key _ _ h
          · simp [hs2] at h
end


/-! ### fuel -/

theorem opToks_len (op : Str) : 1 ≤ (opToks op).length := by
  unfold opToks
  by_cases h1 : (op == s_in) = true
  · simp [h1]
  · by_cases h2 : (op == s_not_in) = true <;> simp [h1, h2]

theorem atomToks_len (a : Atom) : 3 ≤ (atomToks a).length := by
  have := opToks_len a.op
  simp only [atomToks, List.length_cons, List.length_append, List.length_nil]; omega

mutual
theorem sizeM_le : (m : M) → 1 + sizeM m ≤ 2 * (printM m).length
  | .atom a => by have := atomToks_len a; simp only [sizeM, printM]; omega
  | .bool _ => by simp [sizeM, printM]
  | .list l => by
    have := sizeL_le l
    simp only [sizeM, printM, List.length_cons, List.length_append, List.length_nil]; omega
theorem sizeL_le : (l : List M) → sizeL l ≤ 2 * (printL l).length + 1
  | [] => by simp [sizeL, printL]
  | m :: ms => by
    have := sizeM_le m; have := sizeL_le ms
    simp only [sizeL, printL, List.length_append]; omega
end

/-- the parser on a token list, with the same fuel formula as on characters -/
def parseToks (ts : List Tok) : Res (List M) := parseFull tokTS (fuelFor ts.length) ts

/-- **parse ∘ print = id** on every marker list that denotes a formula (any nesting, any redundant
single-element lists) whose literals are plain and whose variable names are canonical. -/
theorem parse_print (l : List M) (f : Formula) (h : formulaOf l = some f) (hp : ∀ a ∈ atomsL l, PlainAtom a) :
    parseToks (printL l) = .ok l := by
  have hs := sizeL_le l
  have := list_pp l f h hp (fuelFor (printL l).length) (by unfold fuelFor; omega) [] (by simp [headRule]) (by simp [headRule])
  simp only [List.append_nil] at this
  have he : tokTS.check .end_ ([] : List Tok) = some ([], []) := rfl
  simp only [parseToks, parseFull, this, bind, Except.bind, he, pure, Except.pure]


/-! ### expressions: the list the parser builds for the token sequence of an expression -/

/-- one nested list per pair of parentheses written by `Expr.toks` -/
def lst : Expr → List M
  | .atom a => [.atom a]
  | .paren e => [.list (lst e)]
  | .and l r =>
    (if l.level < 1 then [.list (lst l)] else lst l) ++ [.bool s_and] ++ (if r.level ≤ 1 then [.list (lst r)] else lst r)
  | .or l r => lst l ++ [.bool s_or] ++ (if r.level ≤ 0 then [.list (lst r)] else lst r)

theorem toks_eq : (e : Expr) → e.toks = printL (lst e)
  | .atom a => by simp [Expr.toks, lst, printL, printM]
  | .paren e => by simp [Expr.toks, lst, printL, printM, toks_eq e]
  | .and l r => by
    simp only [Expr.toks, lst, printL_append, toks_eq l, toks_eq r]
    split <;> split <;> simp [printL, printM]
  | .or l r => by
    simp only [Expr.toks, lst, printL_append, toks_eq l, toks_eq r]
    split <;> simp [printL, printM]

def exprAtoms : Expr → List Atom
  | .atom a => [a]
  | .paren e => exprAtoms e
  | .and l r => exprAtoms l ++ exprAtoms r
  | .or l r => exprAtoms l ++ exprAtoms r

theorem atomsL_append : (a b : List M) → atomsL (a ++ b) = atomsL a ++ atomsL b
  | [], b => by simp [atomsL]
  | m :: a, b => by simp [atomsL, atomsL_append a b]

theorem atoms_lst : (e : Expr) → atomsL (lst e) = exprAtoms e
  | .atom a => by simp [lst, atomsL, atomsM, exprAtoms]
  | .paren e => by simp [lst, atomsL, atomsM, exprAtoms, atoms_lst e]
  | .and l r => by
    simp only [lst, atomsL_append, exprAtoms]
    split <;> split <;> simp [atomsL, atomsM, atoms_lst l, atoms_lst r]
  | .or l r => by
    simp only [lst, atomsL_append, exprAtoms]
    split <;> simp [atomsL, atomsM, atoms_lst l, atoms_lst r]

/-- the reading of `lst e`: it starts with an item, and what follows continues the fold as `e.sem` -/
structure Inv (e : Expr) : Prop where
  ex : ∃ m tl fm, lst e = m :: tl ∧ fOfM m = some fm ∧
    (1 ≤ e.level → ∀ o more, fOfRest (tl ++ more) o fm = fOfRest more o e.sem) ∧
    (∃ oe ae, joinOr oe ae = e.sem ∧ ∀ more, fOfRest (tl ++ more) none fm = fOfRest more oe ae)

theorem Inv.formula {e : Expr} (h : Inv e) : fOfL (lst e) = some e.sem := by
  obtain ⟨m, tl, fm, e1, e2, _, oe, ae, e3, e4⟩ := h.ex
  have := e4 []
  simp only [List.append_nil] at this
  rw [e1]; simp only [fOfL, e2, this, fOfRest, e3]

theorem fOfL_single (m : M) : fOfL [m] = fOfM m := by
  simp only [fOfL]; cases fOfM m <;> simp [fOfRest, joinOr]

/-- an operand that is written as a primary: one item denoting the operand's formula -/
theorem single_item (r : Expr) (k : Nat) (h : Inv r) (hlev : ¬ r.level ≤ k → r.level = 2) :
    ∃ item, (if r.level ≤ k then [.list (lst r)] else lst r) = [item] ∧ fOfM item = some r.sem := by
  by_cases hc : r.level ≤ k
  · exact ⟨.list (lst r), by simp [hc], by simpa [fOfM] using h.formula⟩
  · have h2 := hlev hc
    cases r with
    | atom a => exact ⟨.atom a, by simp [hc, lst], by simp [fOfM, Expr.sem]⟩
    | paren e =>
      refine ⟨.list (lst e), by simp [hc, lst], ?_⟩
      have := h.formula
      simpa [lst, fOfL_single] using this
    | and _ _ => simp [Expr.level] at h2
    | or _ _ => simp [Expr.level] at h2

theorem s_or_ne_and : (s_or == s_and) = false := by decide

theorem inv : (e : Expr) → Inv e
  | .atom a => ⟨⟨.atom a, [], .atom a, rfl, rfl, fun _ o more => rfl, none, .atom a, rfl, fun more => rfl⟩⟩
  | .paren e => by
    have ih := inv e
    refine ⟨⟨.list (lst e), [], e.sem, rfl, by simpa [fOfM] using ih.formula, fun _ o more => rfl, none, e.sem, rfl, fun more => rfl⟩⟩
  | .and l r => by
    have ihl := inv l; have ihr := inv r
    obtain ⟨item, hi1, hi2⟩ := single_item r 1 ihr (by
      intro h; cases r <;> simp [Expr.level] at h ⊢)
    -- the left part
    have hL : ∃ mL tlL fmL, (if l.level < 1 then [.list (lst l)] else lst l) = mL :: tlL ∧ fOfM mL = some fmL ∧
        ∀ o more, fOfRest (tlL ++ more) o fmL = fOfRest more o l.sem := by
      by_cases hc : l.level < 1
      · exact ⟨.list (lst l), [], l.sem, by simp [hc], by simpa [fOfM] using ihl.formula, fun o more => rfl⟩
      · obtain ⟨m, tl, fm, e1, e2, e3, _⟩ := ihl.ex
        exact ⟨m, tl, fm, by simp [hc, e1], e2, e3 (by omega)⟩
    obtain ⟨mL, tlL, fmL, eL, eL2, eL3⟩ := hL
    have step : ∀ o more, fOfRest ((tlL ++ [.bool s_and, item]) ++ more) o fmL = fOfRest more o (.and l.sem r.sem) := by
      intro o more
      have : (tlL ++ [.bool s_and, item]) ++ more = tlL ++ (.bool s_and :: item :: more) := by simp
      rw [this, eL3]
      simp [fOfRest, hi2]
    refine ⟨⟨mL, tlL ++ [.bool s_and, item], fmL, ?_, eL2, fun _ => by simpa [Expr.sem] using step, none, .and l.sem r.sem, rfl,
      fun more => step none more⟩⟩
    simp only [lst, eL, hi1]; simp
  | .or l r => by
    have ihl := inv l; have ihr := inv r
    obtain ⟨m, tl, fm, e1, e2, _, oe, ae, e3, e4⟩ := ihl.ex
    -- the right part continues after `or` as `r.sem`
    have hR : ∃ R, (if r.level ≤ 0 then [.list (lst r)] else lst r) = R ∧
        ∀ o a more, fOfRest (.bool s_or :: (R ++ more)) o a = fOfRest more (some (joinOr o a)) r.sem := by
      by_cases hc : r.level ≤ 0
      · refine ⟨[.list (lst r)], by simp [hc], ?_⟩
        intro o a more
        have : fOfM (.list (lst r)) = some r.sem := by simpa [fOfM] using ihr.formula
        simp [fOfRest, this, s_or_ne_and]
      · obtain ⟨mr, tlr, fmr, r1, r2, r3, _⟩ := ihr.ex
        refine ⟨lst r, by simp [hc], ?_⟩
        intro o a more
        rw [r1]
        simp only [List.cons_append, fOfRest, r2, s_or_ne_and, Bool.false_eq_true, if_false]
        simpa using r3 (by omega) (some (joinOr o a)) more
    obtain ⟨R, hR1, hR2⟩ := hR
    refine ⟨⟨m, tl ++ [.bool s_or] ++ R, fm, ?_, e2, fun h => by simp [Expr.level] at h, some l.sem, r.sem, rfl, ?_⟩⟩
    · simp only [lst, e1, hR1]; simp
    · intro more
      have : (tl ++ [.bool s_or] ++ R) ++ more = tl ++ (.bool s_or :: (R ++ more)) := by simp
      rw [this, e4, hR2, e3]

/-- **the list built for an expression's tokens denotes the expression's formula** -/
theorem formulaOf_lst (e : Expr) : formulaOf (lst e) = some e.sem := (inv e).formula


/-! ### `_normalize_extra_values` commutes with the reading as a formula -/

def Formula.map (g : Atom → Atom) : Formula → Formula
  | .atom a => .atom (g a)
  | .and l r => .and (Formula.map g l) (Formula.map g r)
  | .or l r => .or (Formula.map g l) (Formula.map g r)

theorem eval_map (g : Atom → Atom) (ν : Atom → Res Bool) : (f : Formula) → (Formula.map g f).eval ν = f.eval (fun a => ν (g a))
  | .atom a => rfl
  | .and l r => by simp only [Formula.map, Formula.eval, eval_map g ν l, eval_map g ν r]
  | .or l r => by simp only [Formula.map, Formula.eval, eval_map g ν l, eval_map g ν r]

theorem joinOr_map (g : Atom → Atom) (o : Option Formula) (a : Formula) :
    joinOr (o.map (Formula.map g)) (Formula.map g a) = Formula.map g (joinOr o a) := by
  cases o <;> rfl

mutual
theorem fOfM_norm (X : Ext) : (m : M) → fOfM (normM X m) = (fOfM m).map (Formula.map (normAtom X))
  | .atom a => by simp [normM, fOfM, Formula.map]
  | .bool s => by simp [normM, fOfM]
  | .list l => by simp only [normM, fOfM]; exact fOfL_norm X l
theorem fOfL_norm (X : Ext) : (l : List M) → fOfL (normalizeExtra X l) = (fOfL l).map (Formula.map (normAtom X))
  | [] => by simp [normalizeExtra, fOfL]
  | m :: r => by
    simp only [normalizeExtra, fOfL, fOfM_norm X m]
    cases fOfM m with
    | none => simp
    | some fm => simpa using fOfRest_norm X r none fm
theorem fOfRest_norm (X : Ext) : (r : List M) → (o : Option Formula) → (a : Formula) →
    fOfRest (normalizeExtra X r) (o.map (Formula.map (normAtom X))) (Formula.map (normAtom X) a) =
      (fOfRest r o a).map (Formula.map (normAtom X))
  | [], o, a => by simp [normalizeExtra, fOfRest, joinOr_map]
  | [m], o, a => by simp [normalizeExtra, fOfRest]
  | .atom _ :: _ :: _, _, _ => by simp [normalizeExtra, normM, fOfRest]
  | .list _ :: _ :: _, _, _ => by simp [normalizeExtra, normM, fOfRest]
  | .bool s :: m :: r, o, a => by
    simp only [normalizeExtra, normM, fOfRest, fOfM_norm X m]
    cases fOfM m with
    | none => simp
    | some fm =>
      simp only [Option.map_some]
      by_cases hs : (s == s_and) = true
      · simp only [hs, if_true]
        exact fOfRest_norm X r o (.and a fm)
      · simp only [hs, Bool.false_eq_true, if_false]
        by_cases hs2 : (s == s_or) = true
        · simp only [hs2, if_true]
          have := fOfRest_norm X r (some (joinOr o a)) fm
          simpa [joinOr_map] using this
        · simp [hs2]
end

end MkParse
