import PkgProofs.Lemmas.SpellRender
/-!
# Spellings, part 7: `str` of the meaning is the rendered normal form
-/
namespace Spelling
open Py V

theorem restRender_dots {α} (f : α → Str) (xs : List α) :
    restRender (xs.map fun x => (Sep.dot, f x)) = tailS (xs.map f) := by
  induction xs with
  | nil => rfl
  | cons x xs ih => simp [restRender, tailS, Sep.render, ih]

theorem relRender_tailS (ds : List Digits) : relRender ds = tailS ds := by
  induction ds with
  | nil => rfl
  | cons d ds ih => simp [relRender, tailS, ih]

theorem normSeg_eq : normSeg = LSeg.render := by
  funext x; cases x <;> rfl

/-- **`str(Version(s))` is the PEP 440 normal form of `s`**, written independently as a spelling -/
theorem str_is_normal_form (sp : Spelling) : (meaning sp).str = render (normalise sp) := by
  have h1 : optR (fun d => d ++ [33]) (normalise sp).epoch = epochS (meaning sp).epoch := by
    show optR _ (if (meaning sp).epoch = 0 then none else some (dec (meaning sp).epoch)) = _
    by_cases h : (meaning sp).epoch = 0 <;> simp [h, optR, epochS]
  have h2 : (normalise sp).rel0 ++ relRender (normalise sp).rels =
      dec (value sp.rel0) ++ tailS ((sp.rels.map value).map dec) := by
    show dec (value sp.rel0) ++ relRender (sp.rels.map fun d => dec (value d)) = _
    rw [relRender_tailS, List.map_map]; rfl
  have h3 : optR Group.render (normalise sp).pre = preS (meaning sp).pre := by
    show optR Group.render ((sp.pre.map fun g => (g.kind.letter, g.number)).map fun p =>
      normGroup Sep.none (normPreWord p.1) (normPreWord p.1).text p.2) = preS (sp.pre.map fun g => (g.kind.letter, g.number))
    cases sp.pre with
    | none => rfl
    | some g =>
      cases hl : g.kind.letter <;>
        simp [optR, preS, normGroup, Group.render, Sep.render, normPreWord, PreWord.text, PreL.str, hl]
  have h4 : optR Post.render (normalise sp).post = postS (meaning sp).post := by
    show optR Post.render ((sp.post.map Post.number).map fun n =>
      Post.spelled (normGroup Sep.dot PostWord.post PostWord.post.text n)) = postS (sp.post.map Post.number)
    cases sp.post <;> simp [optR, postS, Post.render, normGroup, Group.render, Sep.render, PostWord.text, ofString]
  have h5 : optR Group.render (normalise sp).dev = devS (meaning sp).dev := by
    show optR Group.render ((sp.dev.map Group.number).map fun n => normGroup Sep.dot () devText n) =
      devS (sp.dev.map Group.number)
    cases sp.dev <;> simp [optR, devS, normGroup, Group.render, Sep.render, devText, ofString]
  have h6 : optR Local.render (normalise sp).loc = locS (meaning sp).loc := by
    show optR Local.render (sp.loc.map fun l =>
      ({ first := normSeg (segMeaning l.first), rest := l.rest.map fun p => (Sep.dot, normSeg (segMeaning p.2)) } : Local)) =
      locS (sp.loc.map Local.meaning)
    cases sp.loc with
    | none => rfl
    | some l =>
      simp only [optR, Option.map_some, Local.render, locS, Local.meaning, List.map_cons, join_dot,
        restRender_dots, normSeg_eq, List.map_map]
      rfl
  have hbase : (meaning sp).base = epochS (meaning sp).epoch ++ (dec (value sp.rel0) ++ tailS ((sp.rels.map value).map dec)) := by
    simp [meaning, base_eq]
  have hr : render (normalise sp) = optR (fun d => d ++ [33]) (normalise sp).epoch ++ (((normalise sp).rel0 ++
      relRender (normalise sp).rels) ++ (optR Group.render (normalise sp).pre ++ (optR Post.render (normalise sp).post ++
      (optR Group.render (normalise sp).dev ++ optR Local.render (normalise sp).loc)))) := by
    have e1 : (normalise sp).ws1 = [] := rfl
    have e2 : (normalise sp).ws2 = [] := rfl
    have e3 : (normalise sp).v = none := rfl
    simp [render, e1, e2, e3, optR]
  rw [hr, str_eq, hbase, h1, h2, h3, h4, h5, h6]
  simp

end Spelling

namespace Spelling
open Py V

theorem digitsOk_dec (n : Nat) : digitsOk (dec n) = true := by
  rw [digitsOk_iff]; exact ⟨dec_ne_nil n, dec_digits n⟩

theorem segOk_norm (s : Str) (h : segOk s = true) : segOk (normSeg (segMeaning s)) = true := by
  rw [segOk_iff] at h
  unfold segMeaning
  split
  · rw [segOk_iff]
    exact ⟨dec_ne_nil _, fun c hc => by simp [isLocalChar, dec_digits _ c hc]⟩
  · rw [segOk_iff]
    refine ⟨?_, ?_⟩
    · cases s with
      | nil => exact absurd rfl h.1
      | cons c cs => simp [normSeg, lowerStr]
    · intro c hc
      simp only [normSeg, lowerStr, List.mem_map] at hc
      obtain ⟨x, hx, rfl⟩ := hc
      have := lower_of_local x (h.2 x hx)
      simp only [Bool.or_eq_true] at this
      exact isLocalChar_of_wf this

def normLocal (l : Local) : Local :=
  ⟨normSeg (segMeaning l.first), l.rest.map fun p => (Sep.dot, normSeg (segMeaning p.2))⟩

/-- the normal form is itself a valid spelling -/
theorem normalise_valid (sp : Spelling) (hv : Valid sp = true) : Valid (normalise sp) = true := by
  have hloc : (match (normalise sp).loc with | some l => l.ok | none => true) = true := by
    have e : (normalise sp).loc = sp.loc.map normLocal := rfl
    rw [e]
    simp only [Valid, Bool.and_eq_true] at hv
    have hl := hv.1.2
    cases h : sp.loc with
    | none => rfl
    | some l =>
      rw [h] at hl
      simp only [Local.ok, Bool.and_eq_true, List.all_eq_true] at hl
      simp only [Option.map_some, normLocal, Local.ok, Bool.and_eq_true, List.all_eq_true, List.mem_map]
      refine ⟨segOk_norm _ hl.1, ?_⟩
      rintro ⟨s, x⟩ ⟨p, hp, he⟩
      simp only [Prod.mk.injEq] at he
      obtain ⟨rfl, rfl⟩ := he
      have := hl.2 p hp
      simp [segOk_norm _ this.2]
  have hpre : (match (normalise sp).pre with | some g => g.ok PreWord.text | none => true) = true := by
    show (match ((sp.pre.map fun g => (g.kind.letter, g.number)).map fun p =>
      normGroup Sep.none (normPreWord p.1) (normPreWord p.1).text p.2) with | some g => g.ok PreWord.text | none => true) = true
    cases sp.pre with
    | none => rfl
    | some g => cases hl : g.kind.letter <;> simp [normGroup, Group.ok, digitsOk_dec, hl, normPreWord] <;> decide
  have hpost : (match (normalise sp).post with | some p => p.ok | none => true) = true := by
    show (match ((sp.post.map Post.number).map fun n =>
      Post.spelled (normGroup Sep.dot PostWord.post PostWord.post.text n)) with | some p => p.ok | none => true) = true
    cases sp.post with
    | none => rfl
    | some g => simp [normGroup, Post.ok, Group.ok, digitsOk_dec]; decide
  have hdev : (match (normalise sp).dev with | some g => g.ok (fun _ => devText) | none => true) = true := by
    show (match ((sp.dev.map Group.number).map fun n => normGroup Sep.dot () devText n) with
      | some g => g.ok (fun _ => devText) | none => true) = true
    cases sp.dev with
    | none => rfl
    | some g => simp [normGroup, Group.ok, digitsOk_dec]; decide
  have hep : (match (normalise sp).epoch with | some d => digitsOk d | none => true) = true := by
    show (match (if (meaning sp).epoch = 0 then none else some (dec (meaning sp).epoch)) with
      | some d => digitsOk d | none => true) = true
    split <;> rename_i h
    · split at h
      · simp at h
      · simp at h; rw [← h]; exact digitsOk_dec _
    · rfl
  have hrels : (normalise sp).rels.all digitsOk = true := by
    show (sp.rels.map fun d => dec (value d)).all digitsOk = true
    simp [digitsOk_dec]
  have hamb : ambiguous (normalise sp) = false := by
    show (match (normalise sp).pre, (normalise sp).post with
      | some g, some (.implicit _) => g.bare | _, _ => false) = false
    have : (normalise sp).pre = (sp.pre.map fun g => (g.kind.letter, g.number)).map fun p =>
      normGroup Sep.none (normPreWord p.1) (normPreWord p.1).text p.2 := rfl
    rw [this]
    cases sp.pre with
    | none => rfl
    | some g =>
      simp only [Option.map_some]
      split
      · rename_i h1 _; simp only [Option.some.injEq] at h1; subst h1; simp [normGroup, Group.bare]
      · rfl
  have h0 : (normalise sp).ws1 = [] ∧ (normalise sp).ws2 = [] ∧ (normalise sp).v = none ∧
      (normalise sp).rel0 = dec (value sp.rel0) := ⟨rfl, rfl, rfl, rfl⟩
  simp only [Valid, Bool.and_eq_true, Bool.not_eq_true', h0.1, h0.2.1, h0.2.2.1, h0.2.2.2, digitsOk_dec]
  repeat' apply And.intro
  all_goals first | assumption | trivial | rfl

/-- normalising does not change the meaning -/
theorem meaning_normalise (sp : Spelling) (hv : Valid sp = true) : meaning (normalise sp) = meaning sp := by
  have h1 := scan_render (normalise sp) (normalise_valid sp hv)
  have h2 := scan_render sp hv
  rw [← str_is_normal_form, scan_str _ (scan_wf _ _ h2)] at h1
  exact (Option.some.inj h1).symm

end Spelling
