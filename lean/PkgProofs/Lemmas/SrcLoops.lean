import PkgModel.PyRt
import PkgProofs.Lemmas.PyRt
/-!
# Loops of the translated source, independent of how their body is spelled (x4)

A Python `while c: body` is translated to `for __i in List.range (fuel + 1)` over the state `(locals…, done)`: an
iteration whose test fails sets `done` and breaks, any other runs the body; running out of iterations is `RecursionError`.
`while_fuel` reads such a loop as the iteration of a step function, given only what one iteration *computes*.
-/
namespace PyRt

/-- `while C s: s = S s`, at most `n` rounds -/
def whileEnd {σ : Type} (C : σ → Bool) (S : σ → σ) : Nat → σ → σ
  | 0, s => s
  | n + 1, s => if C s then whileEnd C S n (S s) else s

theorem while_fuel {σ : Type} (body : Nat → σ × Bool → M (ForInStep (σ × Bool)))
    (C : σ → Bool) (S : σ → σ) (I : σ → Prop) (μ : σ → Nat)
    (hstop : ∀ i s d, I s → C s = false → body i (s, d) = .ok (.done (s, true)))
    (hgo : ∀ i s d, I s → C s = true → body i (s, d) = .ok (.yield (S s, d)))
    (hI : ∀ s, I s → C s = true → I (S s))
    (hμ : ∀ s, I s → C s = true → μ (S s) < μ s) :
    ∀ (l : List Nat) (s : σ), I s → μ s < l.length →
      forIn l (s, false) body = .ok (whileEnd C S (μ s) s, true) ∧ C (whileEnd C S (μ s) s) = false ∧ I (whileEnd C S (μ s) s) := by
  -- strengthen: any number of rounds `k ≥ μ s` gives the same end
  have stable : ∀ (k : Nat) (s : σ), I s → μ s ≤ k → whileEnd C S k s = whileEnd C S (μ s) s ∧ C (whileEnd C S k s) = false ∧ I (whileEnd C S k s) := by
    intro k
    induction k with
    | zero =>
      intro s hs hk
      have h0 : μ s = 0 := by omega
      have hc : C s = false := by
        cases h : C s
        · rfl
        · have := hμ s hs h; omega
      simp [whileEnd, h0, hc, hs]
    | succ k ih =>
      intro s hs hk
      cases hc : C s
      · have : whileEnd C S (μ s) s = s := by
          cases μ s <;> simp [whileEnd, hc]
        simp [whileEnd, hc, this, hs]
      · have hlt := hμ s hs hc
        have h1 := ih (S s) (hI s hs hc) (by omega)
        obtain ⟨m, hm⟩ : ∃ m, μ s = m + 1 := ⟨μ s - 1, by omega⟩
        have h2 := ih (S s) (hI s hs hc) (show μ (S s) ≤ k by omega)
        have h3 : whileEnd C S m (S s) = whileEnd C S (μ (S s)) (S s) := by
          have : μ (S s) ≤ m := by omega
          -- `m ≤ k`: reuse the induction hypothesis at `m` through monotonicity in the number of rounds
          have mono : ∀ (a b : Nat) (t : σ), I t → μ t ≤ a → a ≤ b → whileEnd C S b t = whileEnd C S a t := by
            intro a
            induction a with
            | zero =>
              intro b t ht ha _
              have hct : C t = false := by
                cases h : C t
                · rfl
                · have := hμ t ht h; omega
              cases b <;> simp [whileEnd, hct]
            | succ a iha =>
              intro b t ht ha hab
              obtain ⟨b', rfl⟩ : ∃ b', b = b' + 1 := ⟨b - 1, by omega⟩
              cases hct : C t
              · simp [whileEnd, hct]
              · simp only [whileEnd, hct, if_true]
                exact iha b' (S t) (hI t ht hct) (by have := hμ t ht hct; omega) (by omega)
          exact mono (μ (S s)) m (S s) (hI s hs hc) (Nat.le_refl _) this
        simp only [whileEnd, hc, if_true, hm]
        exact ⟨by rw [h2.1, h3], h2.2.1, h2.2.2⟩
  intro l
  induction l with
  | nil => intro s _ h; simp at h
  | cons i rest ih =>
    intro s hs hlen
    simp only [List.length_cons] at hlen
    cases hc : C s
    · have he : whileEnd C S (μ s) s = s := by cases μ s <;> simp [whileEnd, hc]
      simp [List.forIn_cons, hstop i s false hs hc, he, hc, hs]
    · have hlt := hμ s hs hc
      have h1 := ih (S s) (hI s hs hc) (by omega)
      obtain ⟨m, hm⟩ : ∃ m, μ s = m + 1 := ⟨μ s - 1, by omega⟩
      have h2 := stable m (S s) (hI s hs hc) (by omega)
      simp only [List.forIn_cons, hgo i s false hs hc, ok_bind, hm, whileEnd, hc, if_true]
      rw [h2.1]
      exact h1


/-- `n = 0; for x in xs: if not p(x): break; n += 1` counts the leading items that satisfy `p`
(`len(list(itertools.takewhile(p, xs)))`), whatever the body looks like -/
theorem forIn_count_while {α : Type} (f : α → PyVal) (p : α → Bool) (body : PyVal → PyVal → M (ForInStep PyVal))
    (hstop : ∀ x (n : Nat), p x = false → body (f x) (.int (n : Int)) = .ok (.done (.int (n : Int))))
    (hgo : ∀ x (n : Nat), p x = true → body (f x) (.int (n : Int)) = .ok (.yield (.int ((n + 1 : Nat) : Int)))) :
    ∀ (l : List α) (n : Nat), forIn (l.map f) (.int (n : Int)) body = .ok (.int ((n + (l.takeWhile p).length : Nat) : Int)) := by
  intro l
  induction l with
  | nil => intro n; simp
  | cons x xs ih =>
    intro n
    cases hp : p x
    · simp [List.forIn_cons, hstop x n hp, List.takeWhile_cons, hp]
    · simp only [List.map_cons, List.forIn_cons, hgo x n hp, ok_bind, ih (n + 1), List.takeWhile_cons, hp, if_true,
        List.length_cons]
      congr 3; omega

/-- the last component of a loop state (the mutable local declared last), whatever the number of other mutable locals -/
class LastPy (σ : Type) where
  last : σ → PyVal
instance instLastPyPyVal : LastPy PyVal := ⟨fun v => v⟩
instance instLastPyProd {α β : Type} [LastPy β] : LastPy (α × β) := ⟨fun p => LastPy.last p.2⟩

/-- a loop over `(some local, accumulated list)` whose body appends `g x` to the list (and may set the other local), followed
by code that only uses the list -/
theorem forIn_pair_append_bind (items : List PyVal) (g : PyVal → List PyVal)
    (body : PyVal → PyVal × List PyVal → M (ForInStep (PyVal × List PyVal))) (k : PyVal × List PyVal → M PyVal)
    (hb : ∀ x ∈ items, ∀ (o : PyVal) (acc : List PyVal), ∃ o', body x (o, acc) = .ok (.yield (o', acc ++ g x)))
    (hk : ∀ (o : PyVal) (acc : List PyVal), k (o, acc) = .ok (.iter acc)) :
    ∀ (o : PyVal) (acc : List PyVal), (forIn items (o, acc) body >>= k) = .ok (.iter (acc ++ items.flatMap g)) := by
  induction items with
  | nil => intro o acc; simp [hk]
  | cons x xs ih =>
    intro o acc
    obtain ⟨o', h⟩ := hb x (List.mem_cons_self ..) o acc
    simp only [List.forIn_cons, h, ok_bind, List.flatMap_cons]
    rw [ih (fun y hy => hb y (List.mem_cons_of_mem _ hy)) o' _]
    simp [List.append_assoc]

end PyRt
