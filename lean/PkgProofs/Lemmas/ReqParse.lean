import PkgProofs.Lemmas.ReqLex
/-!
Lemmas for C08 (character level): the recursive-descent functions of the requirement grammar on the canonical
layout `name[e1,e2]c1,c2@ url ; marker` (the layout `Requirement.__str__` produces).
-/
namespace ReqParse
open Py Mk Req MkLex ReqLex Pep508 MkParse MkFmt MkLexP
set_option linter.unusedSimpArgs false

/-- `,e1,e2…` -/
def tailS : List Str → Str
  | [] => []
  | e :: es => 44 :: (e ++ tailS es)

theorem join_comma (e : Str) : (es : List Str) → join [44] (e :: es) = e ++ tailS es
  | [] => by simp [join, tailS]
  | e' :: es => by
    have := join_comma e' es
    simp only [join, tailS, this, List.append_assoc, List.cons_append, List.nil_append]

theorem identOK_head {s : Str} (h : IdentOK s) : ∃ c t, s = c :: t ∧ isIdentHead c = true := by
  obtain ⟨c, t, e, hc, _⟩ := h; exact ⟨c, t, e, hc⟩

theorem head_not_ws {c : Nat} (h : isIdentHead c = true) : c ≠ 9 ∧ c ≠ 32 := by
  rw [isIdentHead_iff] at h; omega

theorem isWord_44 : isWord 44 = false := by decide
theorem isWord_91 : isWord 91 = false := by decide
theorem isWord_93 : isWord 93 = false := by decide

/-- the loop of `_parse_extras_list` on `,e1,e2…]` -/
theorem extrasLoop_canon : (es : List Str) → (∀ e ∈ es, IdentOK e) → (fuel : Nat) → es.length < fuel →
    (acc : List Str) → (p : Option Nat) → (k : Str) →
    ∃ p', extrasLoop fuel acc ⟨p, tailS es ++ 93 :: k⟩ = .ok (acc ++ es, ⟨p', 93 :: k⟩)
  | [], _, fuel, hf, acc, p, k => by
    cases fuel with
    | zero => simp at hf
    | succ f =>
      refine ⟨p, ?_⟩
      have h1 : ws ⟨p, 93 :: k⟩ = ⟨p, 93 :: k⟩ := ws_noop _ (by intro c hc; simp at hc; omega)
      have h2 : peekR .identifier ⟨p, 93 :: k⟩ = false :=
        peek_ident_false _ (by intro d hd; simp at hd; subst hd; decide)
      have h3 : checkR .comma ⟨p, 93 :: k⟩ = none := checkR_single_miss .comma 44 rfl _ (by simp)
      simp [extrasLoop, tailS, h1, h2, h3]
  | e :: es, he, fuel, hf, acc, p, k => by
    cases fuel with
    | zero => simp at hf
    | succ f =>
      obtain ⟨c, t, rfl, hc⟩ := identOK_head (he e (by simp))
      have hws := head_not_ws hc
      have h1 : ws ⟨p, 44 :: ((c :: t) ++ tailS es ++ 93 :: k)⟩ = ⟨p, 44 :: ((c :: t) ++ tailS es ++ 93 :: k)⟩ :=
        ws_noop _ (by intro d hd; simp at hd; omega)
      have h2 : peekR .identifier ⟨p, 44 :: ((c :: t) ++ tailS es ++ 93 :: k)⟩ = false :=
        peek_ident_false _ (by intro d hd; simp at hd; subst hd; decide)
      have h3 := checkR_single_hit .comma 44 rfl p ((c :: t) ++ tailS es ++ 93 :: k)
      have h4 : ws ⟨some 44, (c :: t) ++ tailS es ++ 93 :: k⟩ = ⟨some 44, (c :: t) ++ tailS es ++ 93 :: k⟩ :=
        ws_noop _ (by intro d hd; simp at hd; omega)
      have hstop : StopK (tailS es ++ 93 :: k) := by
        intro d hd
        cases es with
        | nil => simp [tailS] at hd; subst hd; exact ⟨by decide, by decide⟩
        | cons e' es' => simp [tailS] at hd; subst hd; exact ⟨by decide, by decide⟩
      have h5 := checkR_ident (c :: t) (he _ (by simp)) (some 44) (by simp [isWordO, isWord_44]) (tailS es ++ 93 :: k) hstop
      obtain ⟨p', ih⟩ := extrasLoop_canon es (fun x hx => he x (by simp [hx])) f (by simp at hf; omega) (acc ++ [c :: t])
        (lastOr (c :: t) none) k
      refine ⟨p', ?_⟩
      have e1 : tailS ((c :: t) :: es) ++ 93 :: k = 44 :: ((c :: t) ++ tailS es ++ 93 :: k) := by simp [tailS]
      have e2 : (c :: t) ++ tailS es ++ 93 :: k = (c :: t) ++ (tailS es ++ 93 :: k) := by simp
      rw [e1]
      simp only [extrasLoop, h1, h2, h3, h4]
      rw [e2, h5]
      simp only [Bool.false_eq_true, if_false]
      rw [ih]; simp

/-- `_parse_extras` on `[e1,e2,…]` -/
theorem parseExtras_canon (e : Str) (es : List Str) (he : ∀ x ∈ e :: es, IdentOK x) (fuel : Nat) (hf : es.length < fuel)
    (p : Option Nat) (k : Str) :
    parseExtras fuel ⟨p, 91 :: (join [44] (e :: es) ++ 93 :: k)⟩ = .ok (e :: es, ⟨some 93, k⟩) := by
  obtain ⟨c, t, rfl, hc⟩ := identOK_head (he e (by simp))
  have hws := head_not_ws hc
  rw [join_comma]
  have h0 := checkR_single_hit .lbracket 91 rfl p ((c :: t) ++ tailS es ++ 93 :: k)
  have h1 : ws ⟨some 91, (c :: t) ++ tailS es ++ 93 :: k⟩ = ⟨some 91, (c :: t) ++ tailS es ++ 93 :: k⟩ :=
    ws_noop _ (by intro d hd; simp at hd; omega)
  have hstop : StopK (tailS es ++ 93 :: k) := by
    intro d hd
    cases es with
    | nil => simp [tailS] at hd; subst hd; exact ⟨by decide, by decide⟩
    | cons e' es' => simp [tailS] at hd; subst hd; exact ⟨by decide, by decide⟩
  have h2 := checkR_ident (c :: t) (he _ (by simp)) (some 91) (by simp [isWordO, isWord_91]) (tailS es ++ 93 :: k) hstop
  obtain ⟨p', h3⟩ := extrasLoop_canon es (fun x hx => he x (by simp [hx])) fuel hf [c :: t] (lastOr (c :: t) none) k
  have h4 : ws ⟨p', 93 :: k⟩ = ⟨p', 93 :: k⟩ := ws_noop _ (by intro d hd; simp at hd; omega)
  have h5 := checkR_single_hit .rbracket 93 rfl p' k
  have e2 : (c :: t) ++ tailS es ++ 93 :: k = (c :: t) ++ (tailS es ++ 93 :: k) := by simp
  simp only [parseExtras, h0, h1, parseExtrasList, bind, Except.bind]
  rw [e2, h2]
  simp only [h3, h4, h5, pure, Except.pure]
  simp

/-- `_parse_extras` where no `[` stands -/
theorem parseExtras_none (fuel : Nat) (st : St) (h : st.rest.head? ≠ some 91) : parseExtras fuel st = .ok ([], st) := by
  simp [parseExtras, checkR_single_miss .lbracket 91 rfl st h]

/-! ### the clause list -/

/-- after a clause of the canonical layout: the end, the next clause, or the marker -/
def ClauseStop (k : Str) : Prop := k = [] ∨ ∃ t, k = 44 :: t ∨ k = 59 :: t
/-- after the clause list -/
def EndK (k : Str) : Prop := k = [] ∨ ∃ t, k = 59 :: t

/-- the SPECIFIER rule finds exactly this clause when it is followed by `,`, `;` or nothing -/
def TokExact (c : Str) : Prop :=
  ∀ prev k, prev ≠ some 61 → ClauseStop k → matchSpecifier prev (c ++ k) = some c.length

def ArbClause (c : Str) : Prop := ∃ body, c = 61 :: 61 :: 61 :: body
def ClauseChars (c : Str) : Prop := c ≠ [] ∧ ∀ x ∈ c, S.isArbChar x = true
def GoodClause (c : Str) : Prop := ClauseChars c ∧ (ArbClause c ∨ TokExact c)

theorem arb_not_ws {x : Nat} (h : S.isArbChar x = true) : x ≠ 9 ∧ x ≠ 32 ∧ x ≠ 59 ∧ x ≠ 41 := by
  simp only [S.isArbChar, V.isWs, Bool.and_eq_true, Bool.not_eq_true', bne_iff_ne, ne_eq, Bool.or_eq_false_iff,
    beq_eq_false_iff_ne, Bool.and_eq_false_iff, decide_eq_false_iff_not] at h
  omega

theorem tailS_arb : (cs : List Str) → (∀ c ∈ cs, ClauseChars c) → ∀ x ∈ tailS cs, S.isArbChar x = true
  | [], _, x, hx => by simp [tailS] at hx
  | c :: cs, h, x, hx => by
    simp only [tailS, List.mem_cons, List.mem_append] at hx
    rcases hx with rfl | hx | hx
    · decide
    · exact (h c (by simp)).2 x hx
    · exact tailS_arb cs (fun d hd => h d (by simp [hd])) x hx

theorem endK_head {k : Str} (h : EndK k) : ∀ d, k.head? = some d → d = 59 := by
  intro d hd
  rcases h with rfl | ⟨t, rfl⟩
  · simp at hd
  · simpa using hd.symm

theorem take_append_self (c x : Str) : (c ++ x).take c.length = c := by simp
theorem drop_append_self (c x : Str) : (c ++ x).drop c.length = x := by simp

/-- `_parse_version_many` on `c1,c2,…` followed by the end or the marker: the text it accumulates is that text -/
theorem versionMany_canon : (cs : List Str) → (c : Str) → (∀ x ∈ c :: cs, GoodClause x) → (fuel : Nat) → cs.length < fuel →
    (acc : Str) → (p : Option Nat) → p ≠ some 61 → (k : Str) → EndK k →
    ∃ p', versionMany fuel acc ⟨p, c ++ tailS cs ++ k⟩ = .ok (acc ++ (c ++ tailS cs), ⟨p', k⟩)
  | cs, c, hg, fuel, hf, acc, p, hp, k, hk => by
    cases fuel with
    | zero => simp at hf
    | succ f =>
      have hkh := endK_head hk
      have pk1 : ∀ p', peekR .prefixTrail ⟨p', k⟩ = false := fun p' =>
        peek_prefixTrail_false _ (by intro e; have := hkh _ e; omega)
      have pk2 : ∀ p', peekR .localTrail ⟨p', k⟩ = false := fun p' =>
        peek_localTrail_false _ (by intro e; have := hkh _ e; omega)
      have pk3 : ∀ p', ws ⟨p', k⟩ = ⟨p', k⟩ := fun p' => ws_noop _ (by intro d hd; have := hkh _ hd; omega)
      have pk4 : ∀ p', checkR .comma ⟨p', k⟩ = none := fun p' =>
        checkR_single_miss .comma 44 rfl _ (by intro e; have := hkh _ e; omega)
      obtain ⟨⟨hne, hch⟩, hc⟩ := hg c (by simp)
      rcases hc with ⟨body, rfl⟩ | hc
      · -- `===…` swallows the rest of the list
        have hb : ∀ x ∈ body ++ tailS cs, S.isArbChar x = true := by
          intro x hx
          rcases List.mem_append.mp hx with hx | hx
          · exact hch x (by simp [hx])
          · exact tailS_arb cs (fun d hd => (hg d (by simp [hd])).1) x hx
        have hm := matchSpecifier_arb p hp (body ++ tailS cs) k hb hk
        have e1 : (61 :: 61 :: 61 :: body) ++ tailS cs ++ k = 61 :: 61 :: 61 :: ((body ++ tailS cs) ++ k) := by simp
        have e2 : 3 + (body ++ tailS cs).length = ((61 :: 61 :: 61 :: body) ++ tailS cs).length := by simp; omega
        refine ⟨lastOr ((61 :: 61 :: 61 :: body) ++ tailS cs) p, ?_⟩
        have hchk : checkR .specifier ⟨p, (61 :: 61 :: 61 :: body) ++ tailS cs ++ k⟩ =
            some ((61 :: 61 :: 61 :: body) ++ tailS cs, ⟨lastOr ((61 :: 61 :: 61 :: body) ++ tailS cs) p, k⟩) := by
          simp only [checkR, matchR]
          rw [e1, hm, e2, ← e1]
          simp only [List.append_assoc]
          rw [← List.append_assoc, take_append_self, drop_append_self]
        simp only [versionMany, hchk, pk1, pk2, pk3, pk4, Bool.false_eq_true, if_false]
      · -- an ordinary clause: one token, then `,` or the end
        have hstop : ClauseStop (tailS cs ++ k) := by
          cases cs with
          | nil =>
            rcases hk with rfl | ⟨t, rfl⟩
            · exact Or.inl (by simp [tailS])
            · exact Or.inr ⟨t, Or.inr (by simp [tailS])⟩
          | cons c' cs' => exact Or.inr ⟨_, Or.inl (by simp [tailS]; rfl)⟩
        have hm := hc p (tailS cs ++ k) hp hstop
        have hchk : checkR .specifier ⟨p, c ++ tailS cs ++ k⟩ = some (c, ⟨lastOr c p, tailS cs ++ k⟩) := by
          simp only [checkR, matchR, List.append_assoc]
          rw [hm]
          simp only [take_append_self, drop_append_self]
        cases cs with
        | nil =>
          refine ⟨lastOr c p, ?_⟩
          simp only [tailS, List.nil_append, List.append_nil] at hchk ⊢
          simp only [versionMany, hchk, pk1, pk2, pk3, pk4, Bool.false_eq_true, if_false]
        | cons c' cs' =>
          obtain ⟨⟨hne', hch'⟩, _⟩ := hg c' (by simp)
          obtain ⟨d, t, rfl⟩ : ∃ d t, c' = d :: t := by
            cases c' with
            | nil => exact absurd rfl hne'
            | cons d t => exact ⟨d, t, rfl⟩
          have hd := arb_not_ws (hch' d (by simp))
          have q1 : peekR .prefixTrail ⟨lastOr c p, tailS ((d :: t) :: cs') ++ k⟩ = false :=
            peek_prefixTrail_false _ (by simp [tailS])
          have q2 : peekR .localTrail ⟨lastOr c p, tailS ((d :: t) :: cs') ++ k⟩ = false :=
            peek_localTrail_false _ (by simp [tailS])
          have q3 : ws ⟨lastOr c p, tailS ((d :: t) :: cs') ++ k⟩ = ⟨lastOr c p, tailS ((d :: t) :: cs') ++ k⟩ :=
            ws_noop _ (by intro x hx; simp [tailS] at hx; omega)
          have q4 : checkR .comma ⟨lastOr c p, tailS ((d :: t) :: cs') ++ k⟩ =
              some ([44], ⟨some 44, (d :: t) ++ tailS cs' ++ k⟩) := by
            have := checkR_single_hit .comma 44 rfl (lastOr c p) ((d :: t) ++ tailS cs' ++ k)
            simpa [tailS] using this
          have q5 : ws ⟨some 44, (d :: t) ++ tailS cs' ++ k⟩ = ⟨some 44, (d :: t) ++ tailS cs' ++ k⟩ :=
            ws_noop _ (by intro x hx; simp at hx; omega)
          obtain ⟨p', ih⟩ := versionMany_canon cs' (d :: t) (fun x hx => hg x (by simp only [List.mem_cons] at hx ⊢; exact Or.inr hx)) f
            (by simp at hf; omega) (acc ++ c ++ [44]) (some 44) (by simp) k hk
          refine ⟨p', ?_⟩
          simp only [versionMany, hchk, q1, q2, q3, q4, q5, Bool.false_eq_true, if_false]
          rw [ih]
          simp [tailS]
  termination_by cs => cs.length

/-! ### the marker part -/

def wsTok : Tok := (.ws, [32])

theorem printL_cons_of_formula (l : List M) (f : Formula) (h : fOfL l = some f) : ∃ t ts, printL l = t :: ts := by
  have hnw := headNotWs_list l f h []
  cases hp : printL l with
  | cons t ts => exact ⟨t, ts, rfl⟩
  | nil =>
    -- a list that denotes a formula prints at least one token
    cases l with
    | nil => simp [fOfL] at h
    | cons m r =>
      exfalso
      simp only [fOfL] at h
      cases hm : fOfM m with
      | none => simp [hm] at h
      | some fm =>
        have : printM m ≠ [] := by
          cases m with
          | bool _ => simp [fOfM] at hm
          | atom a => simp [printM, atomToks]
          | list l' => simp [printM]
        simp only [printL, List.append_eq_nil_iff] at hp
        exact this hp.1

/-- `_parse_marker` on ` <str of a marker>` at the end of the text (what follows the `;` of a requirement) -/
theorem parseMarker_canon (l : List M) (f : Formula) (h : formulaOf l = some f) (hc : ∀ a ∈ atomsL l, CanonAtom a)
    (fuel : Nat) (hf : sizeL l ≤ fuel) (p : Option Nat) :
    ∃ p', parseMarker charTS fuel ⟨p, 32 :: spell (printL l)⟩ = .ok (l, ⟨p', []⟩) := by
  have hN : Neutral none := by intro q hq; cases hq
  obtain ⟨hcl, _⟩ := CL_printL l f h hc none hN
  obtain ⟨t, ts, hpr⟩ := printL_cons_of_formula l f h
  have hnw : HeadNotWs (printL l) := by simpa using headNotWs_list l f h []
  have htw : t.1 ≠ .ws := hnw t ts hpr
  have hcl' : CL (some wsTok) (printL l ++ []) := by
    rw [List.append_nil, hpr]
    rw [hpr] at hcl
    have h1 : CanonTok t := hcl.1
    have h3 : CL (some t) ts := hcl.2.2
    refine ⟨h1, ?_, h3⟩
    intro q hq; cases hq
    exact ⟨fun _ => htw, fun hk => by simp [wsTok] at hk⟩
  have hpw : ∀ q, some wsTok = some q → CanonTok q := by intro q hq; cases hq; exact CanonTok.ws
  obtain ⟨c, hc1, hc2, _⟩ := canon_text t (by rw [hpr] at hcl; exact hcl.1)
  have hc2 := hc2 htw
  have hhead : (spell (printL l)).head? = some c := by
    rw [hpr, spell_cons]
    cases h2 : t.2 with
    | nil => rw [h2] at hc1; simp at hc1
    | cons a as => rw [h2] at hc1; simpa using hc1
  have hcons : consume charTS .ws ⟨p, 32 :: spell (printL l)⟩ = stC (some wsTok) (printL l ++ []) := by
    have := ws_one p (spell (printL l)) (by intro d hd; rw [hhead] at hd; cases hd; exact hc2)
    simp only [ws] at this
    rw [this, List.append_nil, hpr]
    simp [stC, stA, sepS, noSpace, wsTok, lastChar, lastOr, spell_cons]
  have := list_ppc l f h hc fuel hf (some wsTok) hpw [] (by intro t ts' e; cases e) (by intro t ts' e; cases e) hcl'
    ⟨p, 32 :: spell (printL l)⟩ hcons
  refine ⟨lastChar (lastTok (printL l) (some wsTok)), ?_⟩
  rw [this]; simp [stC, stP, spellS]


theorem str_eq_print (m : List M) : Mk.str m = spell (printL (nfTop m)) := by rw [str_eq_spell, fmtToksL_true]

/-- the recursion fuel computed from a text that contains the marker's string is enough for the marker -/
theorem size_bound (m : List M) (f : Formula) (h : formulaOf m = some f) (hc : ∀ a ∈ atomsL m, CanonAtom a) :
    sizeL (nfTop m) ≤ 2 * (Mk.str m).length + 1 := by
  have h' : formulaOf (nfTop m) = some f := by rw [formulaOf, fOfL_nfTop]; exact h
  have hN : Neutral none := by intro q hq; cases hq
  obtain ⟨hcl, _⟩ := CL_printL (nfTop m) f h' (by rw [atomsL_nfTop]; exact hc) none hN
  have h1 := length_le_spellS _ none hcl
  have h2 := sizeL_le (nfTop m)
  rw [str_eq_print, spell_eq_spellS]; omega

/-- `_parse_requirement_marker` on `; <str of a marker>` at the end of the text -/
theorem parseReqMarker_canon (m : List M) (f : Formula) (h : formulaOf m = some f) (hc : ∀ a ∈ atomsL m, CanonAtom a)
    (fuel : Nat) (hf : sizeL (nfTop m) ≤ fuel) (p : Option Nat) :
    ∃ p', parseReqMarker fuel ⟨p, 59 :: 32 :: Mk.str m⟩ = .ok (nfTop m, ⟨p', []⟩) := by
  have h' : formulaOf (nfTop m) = some f := by rw [formulaOf, fOfL_nfTop]; exact h
  obtain ⟨p', hp'⟩ := parseMarker_canon (nfTop m) f h' (by rw [atomsL_nfTop]; exact hc) fuel hf (some 59)
  refine ⟨p', ?_⟩
  have h0 := checkR_single_hit .semicolon 59 rfl p (32 :: Mk.str m)
  have h1 : ws ⟨p', []⟩ = ⟨p', []⟩ := ws_noop _ (by intro c hc; simp at hc)
  simp only [parseReqMarker, h0]
  rw [str_eq_print, hp']
  simp only [h1]

/-! ### the specifier part, the details, the whole requirement -/

def OpChar (d : Nat) : Prop := d = 126 ∨ d = 61 ∨ d = 33 ∨ d = 60 ∨ d = 62

/-- a clause that the SPECIFIER rule finds starts with an operator character -/
theorem tokExact_head (c : Str) (h : TokExact c) (hne : c ≠ []) : ∃ d t, c = d :: t ∧ OpChar d := by
  cases c with
  | nil => exact absurd rfl hne
  | cons d t =>
    refine ⟨d, t, rfl, ?_⟩
    have := h none [] (by simp) (Or.inl rfl)
    by_cases hd : d ≠ 126 ∧ d ≠ 61 ∧ d ≠ 33 ∧ d ≠ 60 ∧ d ≠ 62
    · rw [matchSpecifier_none none _ (by intro x hx; simp at hx; subst hx; exact hd)] at this
      cases this
    · unfold OpChar; omega

theorem goodClause_head (c : Str) (h : GoodClause c) : ∃ d t, c = d :: t ∧ OpChar d := by
  obtain ⟨⟨hne, _⟩, hc⟩ := h
  rcases hc with ⟨body, rfl⟩ | hc
  · exact ⟨61, _, rfl, Or.inr (Or.inl rfl)⟩
  · exact tokExact_head c hc hne

/-- `c1,c2,…` -/
def specS : List Str → Str
  | [] => []
  | c :: cs => c ++ tailS cs

theorem specS_eq_join : (cs : List Str) → specS cs = join [44] cs
  | [] => rfl
  | c :: cs => (join_comma c cs).symm

/-- `_parse_specifier` on the (possibly empty) canonical clause list followed by the end or the marker -/
theorem parseSpecifier_canon (cs : List Str) (hg : ∀ x ∈ cs, GoodClause x) (fuel : Nat) (hf : cs.length < fuel)
    (p : Option Nat) (hp : p ≠ some 61) (k : Str) (hk : EndK k) :
    ∃ p', parseSpecifier fuel ⟨p, specS cs ++ k⟩ = .ok (specS cs, ⟨p', k⟩) := by
  have hkh := endK_head hk
  cases cs with
  | nil =>
    cases fuel with
    | zero => simp at hf
    | succ f =>
      refine ⟨p, ?_⟩
      have h1 : St.check .lparen ⟨p, k⟩ = none := check_lparen_none _ (by intro e; have := hkh _ e; omega)
      have h2 : ws ⟨p, k⟩ = ⟨p, k⟩ := ws_noop _ (by intro d hd; have := hkh _ hd; omega)
      have h3 : checkR .specifier ⟨p, k⟩ = none := by
        simp [checkR, matchR, matchSpecifier_none p k (by intro d hd; have := hkh _ hd; omega)]
      simp [parseSpecifier, specS, h1, h2, versionMany, h3, bind, Except.bind, pure, Except.pure]
  | cons c cs =>
    obtain ⟨d, t, rfl, hd⟩ := goodClause_head c (hg c (by simp))
    have h1 : St.check .lparen ⟨p, specS ((d :: t) :: cs) ++ k⟩ = none :=
      check_lparen_none _ (by simp [specS]; unfold OpChar at hd; omega)
    have h2 : ws ⟨p, specS ((d :: t) :: cs) ++ k⟩ = ⟨p, specS ((d :: t) :: cs) ++ k⟩ :=
      ws_noop _ (by intro x hx; simp [specS] at hx; unfold OpChar at hd; omega)
    obtain ⟨p', h3⟩ := versionMany_canon cs (d :: t) hg fuel (by simp at hf; omega) [] p hp k hk
    have h4 : ws ⟨p', k⟩ = ⟨p', k⟩ := ws_noop _ (by intro x hx; have := hkh _ hx; omega)
    refine ⟨p', ?_⟩
    simp only [parseSpecifier, h1, h2, bind, Except.bind]
    simp only [specS] at h3 ⊢
    rw [h3]
    simp [h4, pure, Except.pure]

/-! ### `_parse_requirement_details` -/

/-- `; marker` -/
def markS : Option (List M) → Str
  | none => []
  | some m => 59 :: 32 :: Mk.str m

def MarkerOK (m : List M) : Prop := (∃ f, formulaOf m = some f) ∧ ∀ a ∈ atomsL m, CanonAtom a

def FuelOK (fuel : Nat) : Option (List M) → Prop
  | none => True
  | some m => sizeL (nfTop m) ≤ fuel

theorem endK_markS (m : Option (List M)) : EndK (markS m) := by
  cases m with
  | none => exact Or.inl rfl
  | some m => exact Or.inr ⟨_, rfl⟩

/-- after the clause list (or nothing): the end, or the marker -/
theorem details_tail (fuel : Nat) (m : Option (List M)) (hm : ∀ x, m = some x → MarkerOK x) (hf : FuelOK fuel m) (p : Option Nat) :
    (m = none ∧ peekEnd ⟨p, markS m⟩ = true) ∨
    (∃ x p', m = some x ∧ peekEnd ⟨p, markS m⟩ = false ∧ parseReqMarker fuel ⟨p, markS m⟩ = .ok (nfTop x, ⟨p', []⟩)) := by
  cases m with
  | none => exact Or.inl ⟨rfl, peekEnd_nil p⟩
  | some x =>
    obtain ⟨⟨f, hf1⟩, hc⟩ := hm x rfl
    obtain ⟨p', hp'⟩ := parseReqMarker_canon x f hf1 hc fuel hf p
    exact Or.inr ⟨x, p', rfl, peekEnd_cons p 59 _ (by decide), hp'⟩

theorem parseDetails_spec (cs : List Str) (hg : ∀ x ∈ cs, GoodClause x) (m : Option (List M))
    (hm : ∀ x, m = some x → MarkerOK x) (fuel : Nat) (hf : cs.length < fuel) (hfm : FuelOK fuel m)
    (p : Option Nat) (hp : p ≠ some 61) :
    ∃ p', parseDetails fuel ⟨p, specS cs ++ markS m⟩ = .ok ([], specS cs, m.map nfTop, ⟨p', []⟩) := by
  have hk := endK_markS m
  have hkh := endK_head hk
  obtain ⟨p1, h1⟩ := parseSpecifier_canon cs hg fuel hf p hp (markS m) hk
  have h0 : checkR .at_ ⟨p, specS cs ++ markS m⟩ = none := by
    apply checkR_single_miss .at_ 64 rfl
    cases cs with
    | nil => intro e; have := hkh _ (by simpa [specS] using e); omega
    | cons c cs' =>
      obtain ⟨d, t, rfl, hd⟩ := goodClause_head c (hg c (by simp))
      simp [specS]; unfold OpChar at hd; omega
  have h2 : ws ⟨p1, markS m⟩ = ⟨p1, markS m⟩ := ws_noop _ (by intro x hx; have := hkh _ hx; omega)
  rcases details_tail fuel m hm hfm p1 with ⟨rfl, he⟩ | ⟨x, p', rfl, he, hpm⟩
  · refine ⟨p1, ?_⟩
    simp only [parseDetails, h0, h1, bind, Except.bind, h2, he, if_true, pure, Except.pure]
    simp [markS]
  · refine ⟨p', ?_⟩
    simp only [parseDetails, h0, h1, bind, Except.bind, h2, he, hpm, pure, Except.pure]
    simp

/-- `@ url` and, when a marker follows, the separating space -/
def urlS (u : Str) (m : Option (List M)) : Str := 64 :: 32 :: (u ++ (if m.isSome then [32] else []))

def UrlOK (u : Str) : Prop := u ≠ [] ∧ ∀ x ∈ u, isUrlChar x = true

theorem parseDetails_url (u : Str) (hu : UrlOK u) (m : Option (List M)) (hm : ∀ x, m = some x → MarkerOK x)
    (fuel : Nat) (hfm : FuelOK fuel m) (p : Option Nat) :
    ∃ p', parseDetails fuel ⟨p, urlS u m ++ markS m⟩ = .ok (u, [], m.map nfTop, ⟨p', []⟩) := by
  obtain ⟨hne, hch⟩ := hu
  obtain ⟨c, t, rfl⟩ : ∃ c t, u = c :: t := by
    cases u with
    | nil => exact absurd rfl hne
    | cons c t => exact ⟨c, t, rfl⟩
  have hc := (isUrlChar_iff c).mp (hch c (by simp))
  have h0 := checkR_single_hit .at_ 64 rfl p (32 :: ((c :: t) ++ (if m.isSome then [32] else []) ++ markS m))
  have h1 := ws_one (some 64) ((c :: t) ++ (if m.isSome then [32] else []) ++ markS m) (by intro x hx; simp at hx; omega)
  cases m with
  | none =>
    have h2 := checkR_url (c :: t) hne hch (some 32) [] (by intro d hd; simp at hd)
    refine ⟨lastOr (c :: t) none, ?_⟩
    simp only [urlS, markS, Option.isSome_none, Bool.false_eq_true, if_false, List.append_nil] at h0 h1 h2 ⊢
    simp only [parseDetails, List.cons_append, h0, h1]
    rw [h2]
    simp [peekEnd_nil]
  | some x =>
    obtain ⟨⟨f, hf1⟩, hcx⟩ := hm x rfl
    have h2 := checkR_url (c :: t) hne hch (some 32) (32 :: markS (some x)) (by intro d hd; simp at hd; omega)
    have h3 : peekEnd ⟨lastOr (c :: t) none, 32 :: markS (some x)⟩ = false := peekEnd_cons _ 32 _ (by decide)
    have h4 := check_ws_one (lastOr (c :: t) none) (markS (some x)) (by intro d hd; simp [markS] at hd; omega)
    have h5 : peekEnd ⟨some 32, markS (some x)⟩ = false := peekEnd_cons _ 59 _ (by decide)
    obtain ⟨p', h6⟩ := parseReqMarker_canon x f hf1 hcx fuel hfm (some 32)
    refine ⟨p', ?_⟩
    simp only [urlS, Option.isSome_some, if_true] at h0 h1 ⊢
    have e : 64 :: 32 :: ((c :: t) ++ [32]) ++ markS (some x) = 64 :: 32 :: ((c :: t) ++ [32] ++ markS (some x)) := by simp
    rw [e]
    simp only [parseDetails, h0, h1]
    rw [show (c :: t) ++ [32] ++ markS (some x) = (c :: t) ++ (32 :: markS (some x)) by simp, h2]
    simp only [h3, h4, h5, Bool.false_eq_true, if_false, bind, Except.bind]
    simp only [markS] at h6 ⊢
    rw [h6]
    simp [pure, Except.pure]

/-! ### `_parse_requirement` on the canonical layout -/

/-- `[e1,e2,…]` (nothing for no extras) -/
def extS : List Str → Str
  | [] => []
  | e :: es => 91 :: (join [44] (e :: es) ++ [93])

/-- the details: the clause list, or `@ url`; then the marker -/
def detS (cs : List Str) (url : Option Str) (m : Option (List M)) : Str :=
  match url with
  | none => specS cs ++ markS m
  | some u => urlS u m ++ markS m

/-- the canonical layout -/
def render (name : Str) (exs cs : List Str) (url : Option Str) (m : Option (List M)) : Str :=
  name ++ (extS exs ++ detS cs url m)

theorem detS_head (cs : List Str) (hg : ∀ x ∈ cs, GoodClause x) (url : Option Str) (m : Option (List M)) :
    ∀ d, (detS cs url m).head? = some d → OpChar d ∨ d = 64 ∨ d = 59 := by
  intro d hd
  cases url with
  | some u => simp [detS, urlS] at hd; exact Or.inr (Or.inl hd.symm)
  | none =>
    cases cs with
    | nil =>
      have := endK_head (endK_markS m) d (by simpa [detS, specS] using hd)
      exact Or.inr (Or.inr this)
    | cons c cs' =>
      obtain ⟨x, t, rfl, hx⟩ := goodClause_head c (hg c (by simp))
      simp [detS, specS] at hd; subst hd; exact Or.inl hx

theorem k1_head (exs cs : List Str) (hg : ∀ x ∈ cs, GoodClause x) (url : Option Str) (m : Option (List M)) :
    ∀ d, (extS exs ++ detS cs url m).head? = some d → d = 91 ∨ OpChar d ∨ d = 64 ∨ d = 59 := by
  intro d hd
  cases exs with
  | nil => exact Or.inr (detS_head cs hg url m d (by simpa [extS] using hd))
  | cons e es => simp [extS] at hd; exact Or.inl hd.symm

theorem tailS_length : (es : List Str) → es.length ≤ (tailS es).length
  | [] => by simp [tailS]
  | e :: es => by have := tailS_length es; simp [tailS]; omega

theorem extS_length (exs : List Str) : exs.length ≤ (extS exs).length + 1 := by
  cases exs with
  | nil => simp
  | cons e es => have := tailS_length es; simp [extS, join_comma]; omega

theorem specS_length (cs : List Str) : cs.length ≤ (specS cs).length + 1 := by
  cases cs with
  | nil => simp
  | cons c cs' => have := tailS_length cs'; simp [specS]; omega

theorem markS_length (m : List M) : (Mk.str m).length ≤ (markS (some m)).length := by simp [markS]; omega

/-- **the parser on the canonical layout** returns the parts it was rendered from (the marker in the normal form
`str` prints: redundant outer parentheses dropped) -/
theorem parseSource_render (name : Str) (hn : IdentOK name) (exs : List Str) (he : ∀ e ∈ exs, IdentOK e)
    (cs : List Str) (hg : ∀ c ∈ cs, GoodClause c) (url : Option Str) (hu : ∀ u, url = some u → UrlOK u ∧ cs = [])
    (m : Option (List M)) (hm : ∀ x, m = some x → MarkerOK x) :
    ∃ P, parseSource (render name exs cs url m) = .ok P ∧ P.name = name ∧ P.url = url.getD [] ∧ P.extras = exs ∧
      P.specifier = specS cs ∧ P.marker = m.map nfTop := by
  obtain ⟨c, t, rfl, hc, _, hlw⟩ := id hn
  have hcw := head_not_ws hc
  have hlast : lastOr (c :: t) none ≠ some 61 := by
    intro e; rw [e] at hlw
    have : isWord 61 = true := by simpa [isWordO] using hlw
    exact absurd this (by decide)
  show ∃ P, parseRequirement (fuelFor (render (c :: t) exs cs url m).length) ⟨none, render (c :: t) exs cs url m⟩ = .ok P ∧ _
  -- fuel
  have hlen : (render (c :: t) exs cs url m).length =
      (c :: t).length + ((extS exs).length + (detS cs url m).length) := by simp [render]; omega
  have hdl : (markS m).length ≤ (detS cs url m).length ∧ (url = none → (specS cs).length ≤ (detS cs url m).length) := by
    cases url <;> simp [detS]
  have hf1 : exs.length < fuelFor (render (c :: t) exs cs url m).length := by
    have := extS_length exs; unfold fuelFor; omega
  have hf2 : url = none → cs.length < fuelFor (render (c :: t) exs cs url m).length := by
    intro hn'; have := specS_length cs; have := hdl.2 hn'; unfold fuelFor; omega
  have hf3 : FuelOK (fuelFor (render (c :: t) exs cs url m).length) m := by
    cases m with
    | none => trivial
    | some x =>
      obtain ⟨⟨f, hf⟩, hcx⟩ := hm x rfl
      have := size_bound x f hf hcx
      have := markS_length x
      have := hdl.1
      simp only [FuelOK]; unfold fuelFor; omega
  generalize fuelFor (render (c :: t) exs cs url m).length = fuel at hf1 hf2 hf3
  -- the name
  have hk1 := k1_head exs cs hg url m
  have hstop : StopK (extS exs ++ detS cs url m) := by
    intro d hd
    rcases hk1 d hd with rfl | h | rfl | rfl
    · exact ⟨by decide, by decide⟩
    · rcases h with rfl | rfl | rfl | rfl | rfl <;> exact ⟨by decide, by decide⟩
    · exact ⟨by decide, by decide⟩
    · exact ⟨by decide, by decide⟩
  have hk1ws : ∀ p, ws ⟨p, extS exs ++ detS cs url m⟩ = ⟨p, extS exs ++ detS cs url m⟩ := fun p =>
    ws_noop _ (by intro d hd; rcases hk1 d hd with rfl | h | rfl | rfl <;> try omega
                  unfold OpChar at h; omega)
  have hdws : ∀ p, ws ⟨p, detS cs url m⟩ = ⟨p, detS cs url m⟩ := fun p =>
    ws_noop _ (by intro d hd; rcases detS_head cs hg url m d hd with h | rfl | rfl <;> try omega
                  unfold OpChar at h; omega)
  have a1 : ws ⟨none, render (c :: t) exs cs url m⟩ = ⟨none, render (c :: t) exs cs url m⟩ :=
    ws_noop _ (by intro d hd; simp [render] at hd; omega)
  have a2 := checkR_ident (c :: t) hn none rfl (extS exs ++ detS cs url m) hstop
  -- the extras
  have a3 : ∃ p2, p2 ≠ some 61 ∧
      parseExtras fuel ⟨lastOr (c :: t) none, extS exs ++ detS cs url m⟩ = .ok (exs, ⟨p2, detS cs url m⟩) := by
    cases exs with
    | nil =>
      refine ⟨lastOr (c :: t) none, hlast, ?_⟩
      simp only [extS, List.nil_append]
      exact parseExtras_none fuel _ (by
        intro e
        rcases detS_head cs hg url m 91 e with h | h | h <;> try omega
        unfold OpChar at h; omega)
    | cons e es =>
      refine ⟨some 93, by simp, ?_⟩
      have := parseExtras_canon e es he fuel (by simp at hf1; omega) (lastOr (c :: t) none) (detS cs url m)
      simpa [extS] using this
  obtain ⟨p2, hp2, a3⟩ := a3
  -- the details
  have a4 : ∃ p3, parseDetails fuel ⟨p2, detS cs url m⟩ = .ok (url.getD [], specS cs, m.map nfTop, ⟨p3, []⟩) := by
    cases url with
    | none =>
      obtain ⟨p3, h⟩ := parseDetails_spec cs hg m hm fuel (hf2 rfl) hf3 p2 hp2
      exact ⟨p3, by simpa [detS] using h⟩
    | some u =>
      obtain ⟨hu1, rfl⟩ := hu u rfl
      obtain ⟨p3, h⟩ := parseDetails_url u hu1 m hm fuel hf3 p2
      exact ⟨p3, by simpa [detS, specS] using h⟩
  obtain ⟨p3, a4⟩ := a4
  refine ⟨⟨c :: t, url.getD [], exs, specS cs, m.map nfTop⟩, ?_, rfl, rfl, rfl, rfl, rfl⟩
  simp only [parseRequirement, a1]
  rw [show render (c :: t) exs cs url m = (c :: t) ++ (extS exs ++ detS cs url m) from rfl, a2]
  simp only [hk1ws, a3, bind, Except.bind, hdws, a4, peekEnd_nil, if_true, pure, Except.pure]
end ReqParse
