import PkgModel.Py
import PkgModel.Spec.Pep440Rx
import PkgProofs.Lemmas.RxSound
/-!
# Regexes over character kinds, read as predicates on code-point strings

Everything here is generic in the class table: the only thing known about `kinds` / `ranges` is
`Kinds.consistent Kinds.kindCI n kinds ranges = true` (packaged as `RxK.Ctx`).  From it:

* every code point `< 0x110000` has a class, and the kind recorded for that class is `kindCI cp`
  (`classOf_kind`);
* `M ctx r s` ("`s` is a string of code points whose class word matches `r`") is what
  `Rx.accepts ranges r s` computes (`accepts_iff_M`);
* `M` of the combinators `K`, `seq`, `alts`, `opt`, `plus`, `star`, `word` is the corresponding
  predicate on strings (`M_K`, `M_cat`, `M_star_render`, `M_word`, …).
-/
namespace RxK
open Rx Rx.R Kinds Py

/-! ### the mask of a kind set -/

theorem testBit_maskAux (ks : List Nat) : ∀ (kinds : List Nat) (i j : Nat),
    (maskAux ks kinds i).testBit j =
      (decide (i ≤ j) && (decide (j - i < kinds.length) && ks.contains (kinds.getD (j - i) 1000))) := by
  intro kinds
  induction kinds with
  | nil => intro i j; simp [maskAux]
  | cons k rest ih =>
    intro i j
    simp only [maskAux, Nat.testBit_or, ih]
    have h1 : (if ks.contains k = true then 1 <<< i else 0).testBit j = (ks.contains k && decide (i = j)) := by
      by_cases hk : k ∈ ks <;> simp [hk, Nat.one_shiftLeft, Nat.testBit_two_pow]
    rw [h1]
    by_cases hij : i = j
    · subst hij
      have : ¬ (i + 1 ≤ i) := by omega
      simp [this]
    · by_cases hlt : i < j
      · have e : j - i = (j - (i + 1)) + 1 := by omega
        have h2 : (i + 1 ≤ j) := by omega
        have h3 : i ≤ j := by omega
        simp only [hij, decide_false, Bool.and_false, Bool.false_or, h2, h3, decide_true, Bool.true_and]
        rw [e, List.getD_cons_succ]
        simp
      · have h2 : ¬ (i + 1 ≤ j) := by omega
        have h3 : ¬ (i ≤ j) := by omega
        simp [hij, h2, h3]

theorem testBit_K (ks kinds : List Nat) (c : Nat) (hc : c < kinds.length) :
    (maskAux ks kinds 0).testBit c = ks.contains (kinds.getD c 1000) := by
  rw [testBit_maskAux]; simp [hc]

/-! ### classes of code points -/

theorem classOf_mem : ∀ (ranges : List (Nat × Nat × Nat)) (cp c : Nat), classOf ranges cp = some c →
    ∃ lo hi, (lo, hi, c) ∈ ranges ∧ lo ≤ cp ∧ cp ≤ hi := by
  intro ranges
  induction ranges with
  | nil => intro cp c h; simp [classOf] at h
  | cons r rest ih =>
    obtain ⟨lo, hi, c'⟩ := r
    intro cp c h
    simp only [classOf] at h
    by_cases hin : (decide (lo ≤ cp) && decide (cp ≤ hi)) = true
    · simp only [hin, if_true, Option.some.injEq] at h
      subst h
      simp only [Bool.and_eq_true, decide_eq_true_eq] at hin
      exact ⟨lo, hi, by simp, hin.1, hin.2⟩
    · simp only [hin] at h
      obtain ⟨lo', hi', hm, h1, h2⟩ := ih cp c h
      exact ⟨lo', hi', by simp [hm], h1, h2⟩

theorem kindCI_high (cp : Nat) (h : 128 ≤ cp) : kindCI cp = other := by
  have h1 : ∀ a b : Nat, a ≤ b → b < 128 → (decide (a ≤ cp) && decide (cp ≤ b)) = false := by
    intro a b _ _; simp; omega
  have h2 : ∀ a : Nat, a < 128 → (cp == a) = false := by
    intro a _; simp; omega
  simp [kindCI, h1, h2]

/-- `p` is the set of code points of the kinds `ks`, all of them ASCII -/
structure KP (ks : List Nat) (p : Nat → Bool) : Prop where
  hp : ∀ cp, ks.contains (kindCI cp) = p cp
  hlow : ∀ cp, p cp = true → cp < 128

theorem KP.of_low {ks : List Nat} {p : Nat → Bool} (h0 : ks.contains other = false)
    (hl : ∀ cp, cp < 128 → ks.contains (kindCI cp) = p cp) (hh : ∀ cp, 128 ≤ cp → p cp = false) : KP ks p := by
  refine ⟨fun cp => ?_, fun cp h => ?_⟩
  · by_cases hc : cp < 128
    · exact hl cp hc
    · rw [kindCI_high cp (by omega), h0, hh cp (by omega)]
  · by_cases hc : cp < 128
    · exact hc
    · rw [hh cp (by omega)] at h; exact absurd h (by simp)

/-- what `Kinds.consistent` says, in usable form -/
structure Ctx where
  n : Nat
  kinds : List Nat
  ranges : List (Nat × Nat × Nat)
  ok : consistent kindCI n kinds ranges = true

namespace Ctx
variable (ctx : Ctx)

theorem tiles : Rx.tiles ctx.n 0 ctx.ranges = true := by
  have := ctx.ok
  simp only [consistent, Bool.and_eq_true] at this; exact this.1.2

theorem length_kinds : ctx.kinds.length = ctx.n := by
  have := ctx.ok
  simp only [consistent, Bool.and_eq_true, beq_iff_eq] at this; exact this.1.1

/-- every code point has a class, and the table records `kindCI` of the code point for it -/
theorem classOf_kind (cp : Nat) (hcp : cp < 0x110000) :
    ∃ c, classOf ctx.ranges cp = some c ∧ c < ctx.kinds.length ∧ ctx.kinds.getD c 1000 = kindCI cp := by
  obtain ⟨c, hc, hcn⟩ := tiles_classOf ctx.ranges 0 cp ctx.tiles (Nat.zero_le _) hcp
  refine ⟨c, hc, by rw [ctx.length_kinds]; exact hcn, ?_⟩
  obtain ⟨lo, hi, hm, h1, h2⟩ := classOf_mem _ _ _ hc
  have hr := ctx.ok
  simp only [consistent, Bool.and_eq_true, List.all_eq_true] at hr
  have := hr.2 _ hm
  simp only [rangeOk, Bool.and_eq_true, Bool.or_eq_true, decide_eq_true_eq, beq_iff_eq, List.all_eq_true,
    List.mem_range] at this
  obtain ⟨hhi, hall⟩ := this
  by_cases hlow : cp < 128
  · have := hall (cp - lo) (by simp only [kindBound]; omega)
    rw [← this]; congr 1; omega
  · rcases hhi with hhi | hhi
    · simp only [kindBound] at hhi; omega
    · rw [hhi, kindCI_high cp (by omega)]

/-- the class of a code point (total; meaningful below `0x110000`) -/
def cls (cp : Nat) : Nat := (classOf ctx.ranges cp).getD 0

theorem classify_eq (s : List Nat) (hs : ∀ cp ∈ s, cp < 0x110000) :
    classify ctx.ranges s = some (s.map ctx.cls) := by
  induction s with
  | nil => rfl
  | cons cp cps ih =>
    have ih := ih (fun x hx => hs x (by simp [hx]))
    obtain ⟨c, hc, _⟩ := ctx.classOf_kind cp (hs cp (by simp))
    simp only [classify] at ih ⊢
    simp [List.mapM_cons, hc, ih, cls]

/-- `s` is a string of code points whose class word matches `r` -/
def M (r : R) (s : Str) : Prop := (∀ cp ∈ s, cp < 0x110000) ∧ Matches r (s.map ctx.cls)

theorem accepts_iff_M (r : R) (s : Str) (hs : ∀ cp ∈ s, cp < 0x110000) :
    accepts ctx.ranges r s = true ↔ ctx.M r s := by
  simp only [accepts, ctx.classify_eq s hs, matchB_iff, M]
  exact ⟨fun h => ⟨hs, h⟩, fun h => h.2⟩

/-! ### combinators -/

theorem M_empty {s} : ¬ ctx.M .empty s := fun h => m_empty h.2

theorem M_eps {s} : ctx.M .eps s ↔ s = [] := by
  simp only [M, m_eps, List.map_eq_nil_iff]
  constructor
  · exact fun h => h.2
  · rintro rfl; simp

theorem M_alt {a b s} : ctx.M (.alt a b) s ↔ ctx.M a s ∨ ctx.M b s := by
  simp only [M, m_alt]; grind

theorem M_cat {a b s} : ctx.M (.cat a b) s ↔ ∃ u v, u ++ v = s ∧ ctx.M a u ∧ ctx.M b v := by
  simp only [M, m_cat]
  constructor
  · rintro ⟨hs, u, v, huv, ha, hb⟩
    obtain ⟨s1, s2, rfl, rfl, rfl⟩ := List.map_eq_append_iff.mp huv
    exact ⟨s1, s2, rfl, ⟨fun x hx => hs x (by simp [hx]), ha⟩, ⟨fun x hx => hs x (by simp [hx]), hb⟩⟩
  · rintro ⟨u, v, rfl, ⟨h1, ha⟩, ⟨h2, hb⟩⟩
    refine ⟨?_, u.map ctx.cls, v.map ctx.cls, by simp, ha, hb⟩
    intro x hx; simp at hx; rcases hx with hx | hx
    · exact h1 x hx
    · exact h2 x hx

theorem M_opt {a s} : ctx.M (opt a) s ↔ s = [] ∨ ctx.M a s := by
  simp only [opt, M_alt, M_eps]

theorem M_seq_cons {a as s} : ctx.M (seq (a :: as)) s ↔ ctx.M (.cat a (seq as)) s := by
  cases as with
  | nil =>
    simp only [seq, M_cat, M_eps]
    constructor
    · intro h; exact ⟨s, [], by simp, h, rfl⟩
    · rintro ⟨u, v, rfl, h, rfl⟩; simpa using h
  | cons b bs => simp only [seq]

theorem M_alts_cons {a as s} : ctx.M (alts (a :: as)) s ↔ ctx.M a s ∨ ctx.M (alts as) s := by
  cases as with
  | nil =>
    simp only [alts]
    constructor
    · exact Or.inl
    · rintro (h | h)
      · exact h
      · exact absurd h (ctx.M_empty)
  | cons b bs => simp only [alts, M_alt]

theorem M_alts_nil {s} : ¬ ctx.M (alts []) s := ctx.M_empty

/-- one character of one of the kinds `ks` -/
theorem M_K {ks s} : ctx.M (K ctx.kinds ks) s ↔ ∃ cp, s = [cp] ∧ cp < 0x110000 ∧ ks.contains (kindCI cp) = true := by
  simp only [M, K, m_cls]
  constructor
  · rintro ⟨hs, c, hc, hbit⟩
    cases s with
    | nil => simp at hc
    | cons cp t =>
      simp only [List.map_cons, List.cons.injEq, List.map_eq_nil_iff] at hc
      obtain ⟨rfl, rfl⟩ := hc
      have hcp := hs cp (by simp)
      obtain ⟨c, h1, h2, h3⟩ := ctx.classOf_kind cp hcp
      have hcl : ctx.cls cp = c := by simp [cls, h1]
      rw [hcl, testBit_K _ _ _ h2, h3] at hbit
      exact ⟨cp, rfl, hcp, hbit⟩
  · rintro ⟨cp, rfl, hcp, hk⟩
    obtain ⟨c, h1, h2, h3⟩ := ctx.classOf_kind cp hcp
    have hcl : ctx.cls cp = c := by simp [cls, h1]
    refine ⟨by simpa using hcp, c, by simp [hcl], ?_⟩
    rw [testBit_K _ _ _ h2, h3]; exact hk

/-- a kind set without `other` only contains ASCII, so the range condition is automatic -/
theorem M_K' {ks s} {p : Nat → Bool} (kp : KP ks p) :
    ctx.M (K ctx.kinds ks) s ↔ ∃ cp, s = [cp] ∧ p cp = true := by
  rw [M_K]
  constructor
  · rintro ⟨cp, rfl, _, h⟩; exact ⟨cp, rfl, by rw [← kp.hp]; exact h⟩
  · rintro ⟨cp, rfl, h⟩
    exact ⟨cp, rfl, by have := kp.hlow cp h; omega, by rw [kp.hp]; exact h⟩

theorem star_aux {f : Nat → Nat} : ∀ r w, Matches r w → ∀ a (s : Str), r = R.star a → w = s.map f →
    ∃ parts : List Str, parts.flatten = s ∧ ∀ p ∈ parts, Matches a (p.map f) := by
  intro r w h
  induction h with
  | eps | cls _ | cat _ _ | altL _ | altR _ => intro a s hr; cases hr
  | starNil =>
    intro a s _ hw
    have : s = [] := by simpa using hw.symm
    exact ⟨[], by simp [this], by simp⟩
  | @starCons a' u v h1 _ _ ih2 =>
    intro a s hr hw
    cases hr
    obtain ⟨s1, s2, rfl, rfl, rfl⟩ := List.map_eq_append_iff.mp hw.symm
    obtain ⟨parts, hp, hall⟩ := ih2 a' s2 rfl rfl
    refine ⟨s1 :: parts, by simp [hp], ?_⟩
    intro p hp
    simp at hp
    rcases hp with rfl | hp
    · exact h1
    · exact hall p hp

theorem M_star {a s} : ctx.M (.star a) s ↔ ∃ parts : List Str, parts.flatten = s ∧ ∀ p ∈ parts, ctx.M a p := by
  constructor
  · rintro ⟨hs, h⟩
    obtain ⟨parts, rfl, hall⟩ := star_aux _ _ h a s rfl rfl
    refine ⟨parts, rfl, fun p hp => ⟨?_, hall p hp⟩⟩
    intro x hx
    exact hs x (List.mem_flatten.mpr ⟨p, hp, hx⟩)
  · rintro ⟨parts, rfl, hall⟩
    induction parts with
    | nil => exact ⟨by simp, by simpa using Matches.starNil⟩
    | cons p ps ih =>
      have h1 := hall p (by simp)
      have h2 := ih (fun q hq => hall q (by simp [hq]))
      refine ⟨?_, ?_⟩
      · intro x hx
        simp only [List.flatten_cons, List.mem_append] at hx
        rcases hx with hx | hx
        · exact h1.1 x hx
        · exact h2.1 x hx
      · simp only [List.flatten_cons, List.map_append]
        exact Matches.starCons h1.2 h2.2

/-- `star` of something that renders values `x` with `P x`: renders lists of such values -/
theorem M_star_render {a s} {X : Type} (P : X → Prop) (rend : X → Str)
    (h : ∀ p, ctx.M a p ↔ ∃ x, P x ∧ rend x = p) :
    ctx.M (.star a) s ↔ ∃ xs : List X, (∀ x ∈ xs, P x) ∧ (xs.map rend).flatten = s := by
  rw [M_star]
  constructor
  · rintro ⟨parts, rfl, hall⟩
    induction parts with
    | nil => exact ⟨[], by simp, by simp⟩
    | cons p ps ih =>
      obtain ⟨x, hx, rfl⟩ := (h p).mp (hall p (by simp))
      obtain ⟨xs, hxs, he⟩ := ih (fun q hq => hall q (by simp [hq]))
      refine ⟨x :: xs, ?_, by simp [he]⟩
      intro y hy; simp at hy; rcases hy with rfl | hy
      · exact hx
      · exact hxs y hy
  · rintro ⟨xs, hxs, rfl⟩
    refine ⟨xs.map rend, rfl, ?_⟩
    intro p hp
    simp only [List.mem_map] at hp
    obtain ⟨x, hx, rfl⟩ := hp
    exact (h _).mpr ⟨x, hxs x hx, rfl⟩

theorem flatten_singletons (xs : List Nat) : (xs.map fun cp => [cp]).flatten = xs := by
  induction xs with
  | nil => rfl
  | cons x xs ih => simp [ih]

/-- `K*` for an arbitrary kind set -/
theorem M_star_Kany {ks s} :
    ctx.M (R.star (K ctx.kinds ks)) s ↔ ∀ cp ∈ s, cp < 0x110000 ∧ ks.contains (kindCI cp) = true := by
  rw [ctx.M_star_render (fun cp => cp < 0x110000 ∧ ks.contains (kindCI cp) = true) (fun cp => [cp]) (fun q => by
    rw [ctx.M_K]; constructor
    · rintro ⟨cp, rfl, h⟩; exact ⟨cp, h, rfl⟩
    · rintro ⟨cp, h, rfl⟩; exact ⟨cp, rfl, h⟩)]
  constructor
  · rintro ⟨xs, hxs, rfl⟩; rw [flatten_singletons]; exact hxs
  · intro h; exact ⟨s, h, flatten_singletons s⟩

/-- `K*` for an ASCII kind set: every character satisfies the predicate -/
theorem M_star_K {ks s} {p : Nat → Bool} (kp : KP ks p) :
    ctx.M (R.star (K ctx.kinds ks)) s ↔ ∀ cp ∈ s, p cp = true := by
  rw [ctx.M_star_render (fun cp => p cp = true) (fun cp => [cp]) (fun q => by
    rw [ctx.M_K' kp]; constructor
    · rintro ⟨cp, rfl, h⟩; exact ⟨cp, h, rfl⟩
    · rintro ⟨cp, h, rfl⟩; exact ⟨cp, rfl, h⟩)]
  constructor
  · rintro ⟨xs, hxs, rfl⟩; rw [flatten_singletons]; exact hxs
  · intro h; exact ⟨s, h, flatten_singletons s⟩

theorem M_plus_K {ks s} {p : Nat → Bool} (kp : KP ks p) :
    ctx.M (Rx.plus (K ctx.kinds ks)) s ↔ s ≠ [] ∧ ∀ cp ∈ s, p cp = true := by
  simp only [Rx.plus, M_cat, ctx.M_star_K kp, ctx.M_K' kp]
  constructor
  · rintro ⟨u, v, rfl, ⟨cp, rfl, h⟩, hv⟩
    refine ⟨by simp, ?_⟩
    intro x hx; simp at hx; rcases hx with rfl | hx
    · exact h
    · exact hv x hx
  · rintro ⟨hne, hall⟩
    cases s with
    | nil => exact absurd rfl hne
    | cons c t => exact ⟨[c], t, rfl, ⟨c, rfl, hall c (by simp)⟩, fun x hx => hall x (by simp [hx])⟩

end Ctx

/-! ### kinds of the characters the version grammar mentions

Facts about the Lean function `kindCI` only (128 ASCII cases each), nothing about the generated table. -/

theorem kp_digit : KP [digit] isDigit :=
  KP.of_low (by decide) (by decide +kernel) (by intro cp h; simp [isDigit]; omega)

theorem kp_alnum : KP (digit :: (List.range 26).map (· + 2)) isAlnumAscii :=
  KP.of_low (by decide) (by decide +kernel)
    (by intro cp h; simp [isAlnumAscii, isDigit, isAlphaAscii, isLowerAscii, isUpperAscii]; omega)

/-- a single ASCII character -/
theorem kp_char (k c : Nat) (hk : k ≠ other) (hc : c < 128) (h : ∀ cp, cp < 128 → (kindCI cp == k) = (cp == c)) :
    KP [k] (· == c) := by
  refine KP.of_low ?_ ?_ ?_
  · simp only [List.contains_cons, List.contains_nil, Bool.or_false, beq_eq_false_iff_ne]
    exact fun h => hk h.symm
  · intro cp hcp; simp only [List.contains_cons, List.contains_nil, Bool.or_false]; exact h cp hcp
  · intro cp hcp; simp only [beq_eq_false_iff_ne]; omega

theorem kp_bang : KP [bang] (· == 33) := kp_char _ _ (by decide) (by decide) (by decide +kernel)
theorem kp_plus : KP [Kinds.plus] (· == 43) := kp_char _ _ (by decide) (by decide) (by decide +kernel)
theorem kp_dash : KP [dash] (· == 45) := kp_char _ _ (by decide) (by decide) (by decide +kernel)
theorem kp_dot : KP [dot] (· == 46) := kp_char _ _ (by decide) (by decide) (by decide +kernel)
theorem kp_star : KP [Kinds.star] (· == 42) := kp_char _ _ (by decide) (by decide) (by decide +kernel)
theorem kp_eq : KP [Kinds.eq] (· == 61) := kp_char _ _ (by decide) (by decide) (by decide +kernel)
theorem kp_lt : KP [Kinds.lt] (· == 60) := kp_char _ _ (by decide) (by decide) (by decide +kernel)
theorem kp_gt : KP [Kinds.gt] (· == 62) := kp_char _ _ (by decide) (by decide) (by decide +kernel)
theorem kp_tilde : KP [Kinds.tilde] (· == 126) := kp_char _ _ (by decide) (by decide) (by decide +kernel)

theorem letter_table : ∀ k, k < 123 → 97 ≤ k → ∀ cp, cp < 128 →
    [2 + (k - 97)].contains (kindCI cp) = (lowerAscii cp == k) := by decide +kernel

/-- a lower-case letter in either case -/
theorem kp_letter (c : Char) (h : 97 ≤ c.toNat ∧ c.toNat ≤ 122) : KP [letter c] (fun cp => lowerAscii cp == c.toNat) := by
  refine KP.of_low ?_ ?_ ?_
  · simp [letter, other]; omega
  · intro cp hcp; exact letter_table c.toNat (by omega) h.1 cp hcp
  · intro cp hcp
    have hu : isUpperAscii cp = false := by simp [isUpperAscii]; omega
    simp only [lowerAscii, hu, beq_eq_false_iff_ne]
    simp; omega

namespace Ctx
variable (ctx : Ctx)

theorem M_word_list (l : List Char) (hl : ∀ c ∈ l, 97 ≤ c.toNat ∧ c.toNat ≤ 122) : ∀ s,
    ctx.M (seq (l.map fun c => K ctx.kinds [letter c])) s ↔ lowerStr s = l.map Char.toNat := by
  induction l with
  | nil => intro s; simp [seq, M_eps, lowerStr]
  | cons c cs ih =>
    intro s
    have ih := ih (fun x hx => hl x (by simp [hx]))
    simp only [List.map_cons, M_seq_cons, M_cat, ctx.M_K' (kp_letter c (hl c (by simp))), ih]
    constructor
    · rintro ⟨u, v, rfl, ⟨cp, rfl, h⟩, hv⟩
      simp only [beq_iff_eq] at h
      simp [lowerStr, h] at hv ⊢
      exact hv
    · intro h
      cases s with
      | nil => simp [lowerStr] at h
      | cons cp t =>
        simp only [lowerStr, List.map_cons, List.cons.injEq] at h
        exact ⟨[cp], t, rfl, ⟨cp, rfl, by simp [h.1]⟩, by simpa [lowerStr] using h.2⟩

/-- a sequence of single-character kinds matches exactly that character sequence -/
theorem M_chars (l : List (Nat × Nat)) (hl : ∀ p ∈ l, KP [p.1] (· == p.2)) : ∀ s,
    ctx.M (seq (l.map fun p => K ctx.kinds [p.1])) s ↔ s = l.map (·.2) := by
  induction l with
  | nil => intro s; simp [seq, M_eps]
  | cons p ps ih =>
    intro s
    have ih := ih (fun x hx => hl x (by simp [hx]))
    simp only [List.map_cons, M_seq_cons, M_cat, ctx.M_K' (hl p (by simp)), ih]
    constructor
    · rintro ⟨u, v, rfl, ⟨cp, rfl, h⟩, rfl⟩
      simp only [beq_iff_eq] at h
      simp [h]
    · rintro rfl
      exact ⟨[p.2], _, rfl, ⟨p.2, rfl, by simp⟩, rfl⟩

/-- a lower-case word matches exactly its spellings in any letter case -/
theorem M_word (str : String) (h : ∀ c ∈ str.toList, 97 ≤ c.toNat ∧ c.toNat ≤ 122) (s : Str) :
    ctx.M (word ctx.kinds str) s ↔ lowerStr s = ofString str := by
  simp only [word, ofString]; exact ctx.M_word_list _ h s

end Ctx
end RxK
