import PkgModel.Rx
/-! soundness of the bisimulation certificate checker -/
namespace Rx
open R

theorem nullable_iff (r : R) : nullable r = true ↔ Matches r [] := by
  induction r with
  | empty => simp [nullable]; intro h; cases h
  | eps => simp [nullable]; exact Matches.eps
  | cls m => simp [nullable]; intro h; cases h
  | cat a b iha ihb =>
    simp only [nullable, Bool.and_eq_true, iha, ihb]
    constructor
    · rintro ⟨h1, h2⟩; exact Matches.cat (u := []) (v := []) h1 h2
    · intro h
      generalize hw : ([] : List Nat) = w at h
      cases h with
      | cat h1 h2 =>
        rename_i u v
        have : u = [] ∧ v = [] := by
          have := congrArg List.length hw; simp at this; constructor <;> (apply List.eq_nil_of_length_eq_zero; omega)
        obtain ⟨rfl, rfl⟩ := this
        exact ⟨h1, h2⟩
  | alt a b iha ihb =>
    simp only [nullable, Bool.or_eq_true, iha, ihb]
    constructor
    · rintro (h | h); exact Matches.altL h; exact Matches.altR h
    · intro h; cases h with
      | altL h => exact Or.inl h
      | altR h => exact Or.inr h
  | star a _ => simp [nullable]; exact Matches.starNil

end Rx

namespace Rx
open R

/-! inversion lemmas -/
theorem m_empty {w} : ¬ Matches .empty w := by intro h; cases h
theorem m_eps {w} : Matches .eps w ↔ w = [] := by
  constructor
  · intro h; cases h; rfl
  · rintro rfl; exact Matches.eps
theorem m_cls {m w} : Matches (.cls m) w ↔ ∃ c, w = [c] ∧ m.testBit c = true := by
  constructor
  · intro h; cases h with | cls h => exact ⟨_, rfl, h⟩
  · rintro ⟨c, rfl, h⟩; exact Matches.cls h
theorem m_alt {a b w} : Matches (.alt a b) w ↔ Matches a w ∨ Matches b w := by
  constructor
  · intro h; cases h with
    | altL h => exact Or.inl h
    | altR h => exact Or.inr h
  · rintro (h | h); exact Matches.altL h; exact Matches.altR h
theorem m_cat {a b w} : Matches (.cat a b) w ↔ ∃ u v, w = u ++ v ∧ Matches a u ∧ Matches b v := by
  constructor
  · intro h; cases h with | cat h1 h2 => exact ⟨_, _, rfl, h1, h2⟩
  · rintro ⟨u, v, rfl, h1, h2⟩; exact Matches.cat h1 h2

theorem beq_iff (a b : R) : beq a b = true ↔ a = b := by
  induction a generalizing b with
  | empty => cases b <;> simp [beq]
  | eps => cases b <;> simp [beq]
  | cls m => cases b <;> simp [beq]
  | cat a1 a2 ih1 ih2 => cases b <;> simp [beq, ih1, ih2]
  | alt a1 a2 ih1 ih2 => cases b <;> simp [beq, ih1, ih2]
  | star a ih => cases b <;> simp [beq, ih]

theorem m_insAlt (a b : R) (w) : Matches (insAlt a b) w ↔ Matches a w ∨ Matches b w := by
  induction b with
  | alt b c _ ihc =>
    unfold insAlt
    split
    · rename_i h; rw [beq_iff] at h; subst h; simp only [m_alt]; grind
    · split
      · simp only [m_alt]
      · simp only [m_alt, ihc]; grind
  | empty | eps | cls _ | cat _ _ | star _ =>
    unfold insAlt
    split
    · rename_i h; rw [beq_iff] at h; subst h; grind
    · split <;> simp only [m_alt] <;> grind

theorem m_mkAlt (a b : R) (w) : Matches (mkAlt a b) w ↔ Matches a w ∨ Matches b w := by
  fun_induction mkAlt a b with
  | case1 b => simp [m_empty]
  | case2 a _ => simp [m_empty]
  | case3 a b c _ ih1 ih2 => rw [ih2, ih1, m_alt]; grind
  | case4 a b _ _ _ => exact m_insAlt a b w

theorem m_mkCat (a b : R) : ∀ w, Matches (mkCat a b) w ↔ Matches (.cat a b) w := by
  fun_induction mkCat a b with
  | case1 b => intro w; simp [m_cat, m_empty]
  | case2 a _ => intro w; simp [m_cat, m_empty]
  | case3 b _ =>
    intro w; rw [m_cat]; constructor
    · intro h; exact ⟨[], w, rfl, Matches.eps, h⟩
    · rintro ⟨u, v, rfl, h1, h2⟩; rw [m_eps] at h1; subst h1; simpa using h2
  | case4 a _ _ =>
    intro w; rw [m_cat]; constructor
    · intro h; exact ⟨w, [], by simp, h, Matches.eps⟩
    · rintro ⟨u, v, rfl, h1, h2⟩; rw [m_eps] at h2; subst h2; simpa using h1
  | case5 a b c _ _ ih =>
    intro w
    simp only [m_cat, ih]
    constructor
    · rintro ⟨u, v, rfl, h1, v1, v2, rfl, h2, h3⟩
      exact ⟨u ++ v1, v2, by simp, ⟨u, v1, rfl, h1, h2⟩, h3⟩
    · rintro ⟨u, v, rfl, ⟨u1, u2, rfl, h1, h2⟩, h3⟩
      exact ⟨u1, u2 ++ v, by simp, h1, u2, v, rfl, h2, h3⟩
  | case6 a b _ _ _ _ _ => intro w; rfl

theorem m_star_aux : ∀ r x, Matches r x → ∀ a c w, r = R.star a → x = c :: w →
    ∃ u v, w = u ++ v ∧ Matches a (c :: u) ∧ Matches (.star a) v := by
  intro r x h
  induction h with
  | eps | cls _ | cat _ _ | altL _ | altR _ => intro a c w hr; cases hr
  | starNil => intro a c w _ hx; cases hx
  | @starCons a' u v h1 h2 _ ih2 =>
    intro a c w hr hx
    cases hr
    cases u with
    | nil => exact ih2 _ c w rfl (by simpa using hx)
    | cons d u' =>
      simp at hx; obtain ⟨rfl, rfl⟩ := hx
      exact ⟨u', v, rfl, h1, h2⟩

theorem m_star_cons {a : R} {c : Nat} {w : List Nat} :
    Matches (.star a) (c :: w) ↔ ∃ u v, w = u ++ v ∧ Matches a (c :: u) ∧ Matches (.star a) v := by
  constructor
  · intro h; exact m_star_aux _ _ h a c w rfl rfl
  · rintro ⟨u, v, rfl, h1, h2⟩
    exact Matches.starCons (u := c :: u) h1 h2

theorem deriv_iff (c : Nat) (r : R) (w : List Nat) :
    Matches (deriv c r) w ↔ Matches r (c :: w) := by
  induction r generalizing w with
  | empty => simp [deriv, m_empty]
  | eps => simp [deriv, m_empty, m_eps]
  | cls m =>
    simp only [deriv]
    split
    · rename_i h; simp only [m_eps, m_cls]
      constructor
      · rintro rfl; exact ⟨c, rfl, h⟩
      · rintro ⟨d, hd, _⟩; simp at hd; exact hd.2
    · rename_i h; simp only [m_cls, m_empty, false_iff]
      rintro ⟨d, hd, h'⟩; simp at hd; obtain ⟨rfl, _⟩ := hd; exact h h'
  | alt a b iha ihb => simp only [deriv, m_mkAlt, iha, ihb, m_alt]
  | star a iha =>
    simp only [deriv, m_mkCat, m_cat, iha, m_star_cons]
  | cat a b iha ihb =>
    have key : Matches (.cat a b) (c :: w) ↔
        (∃ u v, w = u ++ v ∧ Matches a (c :: u) ∧ Matches b v) ∨ (Matches a [] ∧ Matches b (c :: w)) := by
      rw [m_cat]
      constructor
      · rintro ⟨u, v, h, h1, h2⟩
        cases u with
        | nil => simp at h; subst h; exact Or.inr ⟨h1, h2⟩
        | cons d u' => simp at h; obtain ⟨rfl, rfl⟩ := h; exact Or.inl ⟨u', v, rfl, h1, h2⟩
      · rintro (⟨u, v, rfl, h1, h2⟩ | ⟨h1, h2⟩)
        · exact ⟨c :: u, v, rfl, h1, h2⟩
        · exact ⟨[], c :: w, rfl, h1, h2⟩
    simp only [deriv]
    split
    · rename_i hn
      rw [m_mkAlt, m_mkCat, m_cat, key, ihb]
      simp only [iha, (nullable_iff a).mp hn, true_and]
    · rename_i hn
      rw [m_mkCat, m_cat, key]
      simp only [iha]
      have : ¬ Matches a [] := fun h => hn ((nullable_iff a).mpr h)
      simp [this]

/-! soundness of certificate -/
theorem memPair_iff (p : R × R) (l : List (R × R)) : memPair p l = true ↔ p ∈ l := by
  induction l with
  | nil => simp [memPair]
  | cons q qs ih =>
    simp only [memPair, Bool.or_eq_true, Bool.and_eq_true, beq_iff, ih, List.mem_cons]
    constructor
    · rintro (⟨h1, h2⟩ | h); exact Or.inl (Prod.ext h1 h2); exact Or.inr h
    · rintro (rfl | h); exact Or.inl ⟨rfl, rfl⟩; exact Or.inr h

theorem isBisim_sound (n : Nat) (cert : List (R × R)) (h : isBisim n cert = true) :
    ∀ w : List Nat, (∀ c ∈ w, c < n) → ∀ p ∈ cert, (Matches p.1 w ↔ Matches p.2 w) := by
  intro w
  induction w with
  | nil =>
    intro _ p hp
    have := (List.all_eq_true.mp h) p hp
    simp only [closedAt, Bool.and_eq_true, beq_iff_eq] at this
    rw [← nullable_iff, ← nullable_iff, this.1]
  | cons c w ih =>
    intro hw p hp
    have hc := (List.all_eq_true.mp h) p hp
    simp only [closedAt, Bool.and_eq_true] at hc
    have hd := (List.all_eq_true.mp hc.2) c (by simp; exact hw c (by simp))
    rw [memPair_iff] at hd
    have := ih (fun d hd' => hw d (by simp [hd'])) _ hd
    simp only at this
    rw [← deriv_iff, ← deriv_iff]; exact this

end Rx

namespace Rx
open R

theorem matchB_iff (r : R) (w : List Nat) : matchB r w = true ↔ Matches r w := by
  induction w generalizing r with
  | nil => simp [matchB, nullable_iff]
  | cons c cs ih => simp only [matchB, ih, deriv_iff]

/-- a successful `equiv` check proves language equality over the class alphabet -/
theorem equiv_sound {n fuel : Nat} {a b : R} (h : equiv n fuel a b = true) :
    ∀ w : List Nat, (∀ c ∈ w, c < n) → (Matches a w ↔ Matches b w) := by
  unfold equiv at h
  split at h
  · rename_i cert _
    simp only [Bool.and_eq_true] at h
    intro w hw
    exact isBisim_sound n cert h.2 w hw (a, b) ((memPair_iff _ _).mp h.1)
  · simp at h

theorem tiles_classOf {n : Nat} : ∀ (ranges : List (Nat × Nat × Nat)) (next cp : Nat),
    tiles n next ranges = true → next ≤ cp → cp < 0x110000 →
    ∃ c, classOf ranges cp = some c ∧ c < n := by
  intro ranges
  induction ranges with
  | nil =>
    intro next cp h h1 h2
    simp only [tiles, beq_iff_eq] at h; omega
  | cons r rest ih =>
    obtain ⟨lo, hi, c⟩ := r
    intro next cp h h1 h2
    simp only [tiles, Bool.and_eq_true, beq_iff_eq, decide_eq_true_eq] at h
    obtain ⟨⟨⟨hlo, hle⟩, hc⟩, hrest⟩ := h
    simp only [classOf]
    by_cases hin : cp ≤ hi
    · have : (decide (lo ≤ cp) && decide (cp ≤ hi)) = true := by simp; omega
      simp only [this, ite_true]; exact ⟨c, rfl, hc⟩
    · have : (decide (lo ≤ cp) && decide (cp ≤ hi)) = false := by simp; omega
      simp only [this]
      exact ih (hi + 1) cp hrest (by omega) h2

/-- every string of code points is classified, into classes below `n` -/
theorem classify_total {n : Nat} {ranges : List (Nat × Nat × Nat)} (ht : tiles n 0 ranges = true)
    (s : List Nat) (hs : ∀ cp ∈ s, cp < 0x110000) :
    ∃ w, classify ranges s = some w ∧ ∀ c ∈ w, c < n := by
  induction s with
  | nil => exact ⟨[], rfl, by simp⟩
  | cons cp cps ih =>
    obtain ⟨w, hw, hall⟩ := ih (fun x hx => hs x (by simp [hx]))
    obtain ⟨c, hc, hcn⟩ := tiles_classOf ranges 0 cp ht (Nat.zero_le _) (hs cp (by simp))
    refine ⟨c :: w, ?_, ?_⟩
    · simp only [classify] at hw ⊢
      simp [List.mapM_cons, hc, hw]
    · intro x hx; simp at hx; rcases hx with rfl | hx
      · exact hcn
      · exact hall x hx

theorem accepts_congr {n fuel : Nat} {ranges : List (Nat × Nat × Nat)} {a b : R}
    (ht : tiles n 0 ranges = true) (h : equiv n fuel a b = true)
    (s : List Nat) (hs : ∀ cp ∈ s, cp < 0x110000) :
    accepts ranges a s = accepts ranges b s := by
  obtain ⟨w, hw, hall⟩ := classify_total ht s hs
  simp only [accepts, hw]
  have := equiv_sound h w hall
  rw [← matchB_iff, ← matchB_iff] at this
  cases h1 : matchB a w <;> cases h2 : matchB b w <;> simp_all

end Rx

namespace Rx
open R

/-- search invariant: every pair already seen agrees on `nullable` and has all its derivatives seen or queued -/
def Inv (n : Nat) (todo seen : List (R × R)) : Prop :=
  ∀ p ∈ seen, nullable p.1 = nullable p.2 ∧
    ∀ c, c < n → (deriv c p.1, deriv c p.2) ∈ seen ∨ (deriv c p.1, deriv c p.2) ∈ todo

theorem searchF_sound (n : Nat) : ∀ (fuel : Nat) (todo seen cert : List (R × R)),
    searchF n fuel todo seen = some cert → Inv n todo seen →
    (∀ p, p ∈ seen ∨ p ∈ todo → p ∈ cert) ∧ Inv n [] cert := by
  intro fuel
  induction fuel with
  | zero => intro todo seen cert h; simp [searchF] at h
  | succ f ih =>
    intro todo seen cert h hinv
    cases todo with
    | nil =>
      simp only [searchF, Option.some.injEq] at h; subst h
      exact ⟨fun p hp => by simpa using hp, hinv⟩
    | cons p rest =>
      simp only [searchF] at h
      split at h
      · rename_i hmem
        have hp : p ∈ seen := (memPair_iff _ _).mp hmem
        have hinv' : Inv n rest seen := by
          intro q hq
          obtain ⟨h1, h2⟩ := hinv q hq
          refine ⟨h1, fun c hc => ?_⟩
          rcases h2 c hc with h | h
          · exact Or.inl h
          · simp only [List.mem_cons] at h
            rcases h with h | h
            · exact Or.inl (h ▸ hp)
            · exact Or.inr h
        obtain ⟨r1, r2⟩ := ih rest seen cert h hinv'
        refine ⟨fun q hq => ?_, r2⟩
        rcases hq with hq | hq
        · exact r1 q (Or.inl hq)
        · simp only [List.mem_cons] at hq
          rcases hq with hq | hq
          · exact r1 q (Or.inl (hq ▸ hp))
          · exact r1 q (Or.inr hq)
      · split at h
        · simp at h
        · rename_i hnm hnull
          have hnull' : nullable p.1 = nullable p.2 := by
            cases h1 : nullable p.1 <;> cases h2 : nullable p.2 <;> simp_all
          have hinv' : Inv n ((List.range n).map (fun c => (deriv c p.1, deriv c p.2)) ++ rest) (p :: seen) := by
            intro q hq
            simp only [List.mem_cons] at hq
            rcases hq with hq | hq
            · subst hq
              refine ⟨hnull', fun c hc => Or.inr ?_⟩
              simp only [List.mem_append, List.mem_map, List.mem_range]
              exact Or.inl ⟨c, hc, rfl⟩
            · obtain ⟨h1, h2⟩ := hinv q hq
              refine ⟨h1, fun c hc => ?_⟩
              rcases h2 c hc with h | h
              · exact Or.inl (by simp [h])
              · simp only [List.mem_cons] at h
                rcases h with h | h
                · exact Or.inl (by simp [h])
                · exact Or.inr (by simp [h])
          obtain ⟨r1, r2⟩ := ih _ _ cert h hinv'
          refine ⟨fun q hq => ?_, r2⟩
          rcases hq with hq | hq
          · exact r1 q (Or.inl (by simp [hq]))
          · simp only [List.mem_cons] at hq
            rcases hq with hq | hq
            · exact r1 q (Or.inl (by simp [hq]))
            · exact r1 q (Or.inr (by simp [hq]))

theorem inv_isBisim {n : Nat} {cert : List (R × R)} (h : Inv n [] cert) : isBisim n cert = true := by
  simp only [isBisim, List.all_eq_true]
  intro p hp
  obtain ⟨h1, h2⟩ := h p hp
  simp only [closedAt, Bool.and_eq_true, beq_iff_eq, List.all_eq_true, List.mem_range]
  refine ⟨h1, fun c hc => ?_⟩
  rw [memPair_iff]
  rcases h2 c hc with h | h
  · exact h
  · simp at h

/-- one-pass equivalence check: the search succeeding is already a proof (no re-check needed) -/
def equiv1 (n fuel : Nat) (a b : R) : Bool := (searchF n fuel [(a, b)] []).isSome

theorem equiv1_sound {n fuel : Nat} {a b : R} (h : equiv1 n fuel a b = true) :
    ∀ w : List Nat, (∀ c ∈ w, c < n) → (Matches a w ↔ Matches b w) := by
  unfold equiv1 at h
  cases hs : searchF n fuel [(a, b)] [] with
  | none => simp [hs] at h
  | some cert =>
    obtain ⟨r1, r2⟩ := searchF_sound n fuel _ _ cert hs (by intro p hp; simp at hp)
    intro w hw
    exact isBisim_sound n cert (inv_isBisim r2) w hw (a, b) (r1 _ (Or.inr (by simp)))

theorem accepts_congr1 {n fuel : Nat} {ranges : List (Nat × Nat × Nat)} {a b : R}
    (ht : tiles n 0 ranges = true) (h : equiv1 n fuel a b = true)
    (s : List Nat) (hs : ∀ cp ∈ s, cp < 0x110000) :
    accepts ranges a s = accepts ranges b s := by
  obtain ⟨w, hw, hall⟩ := classify_total ht s hs
  simp only [accepts, hw]
  have := equiv1_sound h w hall
  rw [← matchB_iff, ← matchB_iff] at this
  cases h1 : matchB a w <;> cases h2 : matchB b w <;> simp_all

end Rx
