import PkgModel.PyRx
import PkgModel.Filenames
import PkgProofs.Lemmas.PyRx
import PkgProofs.Lemmas.PyStr
/-!
# String primitives of the run-time vs the helpers of the filename model (`PkgModel/Filenames.lean`)
-/
namespace PyRx
open PyRt Py

@[simp] theorem neg_int (n : Int) : neg (.int n) = .ok (.int (-n)) := by rfl
@[simp] theorem str_count_single (s : Str) (c : Nat) : str_count (.str s) (.str [c]) = .ok (.int (s.count c)) := by rfl

/-! ### `rpartition` -/

theorem breakOn_takeWhile (sep : Nat) (l : Str) :
    Fn.breakOn sep l =
      if (l.takeWhile (· != sep)).length == l.length then none
      else some (l.takeWhile (· != sep), l.drop ((l.takeWhile (· != sep)).length + 1)) := by
  induction l with
  | nil => rfl
  | cons c cs ih =>
    simp only [Fn.breakOn, List.takeWhile_cons]
    by_cases h : c = sep
    · subst h; simp
    · have h1 : (c == sep) = false := by simpa using h
      have h2 : (c != sep) = true := by simpa using h
      simp only [h1, Bool.false_eq_true, if_false, h2, if_true, ih, List.length_cons, List.drop_succ_cons]
      by_cases hl : (List.takeWhile (fun x => x != sep) cs).length = cs.length
      · simp [hl]
      · have : ¬ (List.takeWhile (fun x => x != sep) cs).length + 1 = cs.length + 1 := by omega
        simp [hl, this]

/-- the two models of `str.rpartition` (specifier model / filename model) agree -/
theorem rpartition_eq (sep : Nat) (s : Str) :
    Fn.rpartition sep s =
      if (S.rpartition sep s).2.1 then some ((S.rpartition sep s).1, (S.rpartition sep s).2.2) else none := by
  simp only [Fn.rpartition, breakOn_takeWhile, S.rpartition]
  by_cases h : (s.reverse.takeWhile (· != sep)).length = s.length
  · simp [h]
  · simp [h]

/-! ### `split` with `maxsplit` -/

theorem splitOnMax_ne_nil (c : Nat) (n : Nat) (s : Str) : splitOnMax c n s ≠ [] := by
  induction s generalizing n with
  | nil => cases n <;> simp [splitOnMax]
  | cons x xs ih =>
    cases n with
    | zero => simp [splitOnMax]
    | succ k =>
      simp only [splitOnMax]
      split
      · simp
      · split <;> simp

theorem splitOnMax_eq_splitN (c : Nat) (n : Nat) (s : Str) : splitOnMax c n s = Fn.splitN c n s := by
  induction s generalizing n with
  | nil => cases n <;> simp [splitOnMax, Fn.splitN, Fn.breakOn]
  | cons x xs ih =>
    cases n with
    | zero => simp [splitOnMax, Fn.splitN]
    | succ k =>
      simp only [splitOnMax, Fn.splitN, Fn.breakOn]
      by_cases h : (x == c) = true
      · simp [h, ih]
      · have h' : (x == c) = false := by simpa using h
        simp only [h', Bool.false_eq_true, if_false]
        rw [ih (k + 1)]
        simp only [Fn.splitN]
        cases Fn.breakOn c xs with
        | none => rfl
        | some ar => rfl

theorem breakOn_count (sep : Nat) (s : Str) (h : 0 < s.count sep) :
    ∃ a r, Fn.breakOn sep s = some (a, r) ∧ r.count sep + 1 = s.count sep := by
  induction s with
  | nil => simp at h
  | cons x xs ih =>
    simp only [Fn.breakOn]
    by_cases hx : (x == sep) = true
    · refine ⟨[], xs, by simp [hx], ?_⟩
      simp only [beq_iff_eq] at hx
      subst hx; simp
    · have hx' : (x == sep) = false := by simpa using hx
      have hne : x ≠ sep := by simpa using hx'
      have hc : (x :: xs).count sep = xs.count sep := by simp [List.count_cons, hx']
      rw [hc] at h
      obtain ⟨a, r, hb, hr⟩ := ih h
      exact ⟨x :: a, r, by simp [hx', hb], by rw [hc]; exact hr⟩

theorem splitN_length (sep : Nat) (k : Nat) (s : Str) (h : k ≤ s.count sep) : (Fn.splitN sep k s).length = k + 1 := by
  induction k generalizing s with
  | zero => rfl
  | succ k ih =>
    obtain ⟨a, r, hb, hr⟩ := breakOn_count sep s (by omega)
    simp only [Fn.splitN, hb, List.length_cons]
    rw [ih r (by omega)]

theorem breakOn_some (sep : Nat) (s a r : Str) (h : Fn.breakOn sep s = some (a, r)) : s = a ++ sep :: r := by
  induction s generalizing a with
  | nil => simp [Fn.breakOn] at h
  | cons x xs ih =>
    simp only [Fn.breakOn] at h
    by_cases hx : (x == sep) = true
    · simp only [hx, if_true, Option.some.injEq, Prod.mk.injEq] at h
      obtain ⟨rfl, rfl⟩ := h
      simp only [beq_iff_eq] at hx
      subst hx; rfl
    · have hx' : (x == sep) = false := by simpa using hx
      simp only [hx', Bool.false_eq_true, if_false] at h
      cases hb : Fn.breakOn sep xs with
      | none => rw [hb] at h; simp at h
      | some ar =>
        obtain ⟨a', r'⟩ := ar
        rw [hb] at h
        simp only [Option.some.injEq, Prod.mk.injEq] at h
        obtain ⟨rfl, rfl⟩ := h
        rw [ih a' hb]; rfl

theorem mem_of_mem_splitN (sep : Nat) (k : Nat) (s : Str) : ∀ p ∈ Fn.splitN sep k s, ∀ x ∈ p, x ∈ s := by
  induction k generalizing s with
  | zero => intro p hp x hx; simp [Fn.splitN] at hp; subst hp; exact hx
  | succ k ih =>
    intro p hp x hx
    simp only [Fn.splitN] at hp
    cases hb : Fn.breakOn sep s with
    | none => rw [hb] at hp; simp at hp; subst hp; exact hx
    | some ar =>
      obtain ⟨a, r⟩ := ar
      rw [hb] at hp
      have hs := breakOn_some sep s a r hb
      simp only [List.mem_cons] at hp
      rcases hp with rfl | hp
      · rw [hs]; simp [hx]
      · have := ih r p hp x hx
        rw [hs]; simp [this]

theorem length_three {α} (l : List α) (h : l.length = 3) : ∃ a b c, l = [a, b, c] := by
  rcases l with _ | ⟨a, _ | ⟨b, _ | ⟨c, _ | ⟨d, r⟩⟩⟩⟩ <;> simp at h
  exact ⟨a, b, c, rfl⟩

theorem length_four {α} (l : List α) (h : l.length = 4) : ∃ a b c d, l = [a, b, c, d] := by
  rcases l with _ | ⟨a, _ | ⟨b, _ | ⟨c, _ | ⟨d, _ | ⟨e, r⟩⟩⟩⟩⟩ <;> simp at h
  exact ⟨a, b, c, d, rfl⟩

theorem mem_takeWhile_p {α} (p : α → Bool) (l : List α) : ∀ x ∈ l.takeWhile p, p x = true := by
  induction l with
  | nil => intro x hx; simp at hx
  | cons a as ih =>
    intro x hx
    simp only [List.takeWhile_cons] at hx
    by_cases ha : p a = true
    · simp only [ha, if_true, List.mem_cons] at hx
      rcases hx with rfl | hx
      · exact ha
      · exact ih x hx
    · simp [ha] at hx

/-! ### indexing a list of strings -/

theorem getitem_strs_nat (l : List Str) (i : Nat) (h : i < l.length) :
    getitem (.list (l.map .str)) (.int (i : Int)) = .ok (.str (l.getD i [])) := by
  have h0 : (0 : Int) ≤ (i : Int) := by omega
  simp only [getitem, asInt, normIndex, h0, if_true, Int.toNat_natCast, List.length_map, h, pure_ok]
  rw [List.getD_eq_getElem?_getD, List.getD_eq_getElem?_getD, List.getElem?_map]
  simp [List.getElem?_eq_getElem h]

theorem getitem_strs_last (l : List Str) (h : l ≠ []) :
    getitem (.list (l.map .str)) (.int (-1)) = .ok (.str (l.getLastD [])) := by
  have hl : 0 < l.length := List.length_pos_iff.mpr h
  have h1 : ¬ ((0 : Int) ≤ -1) := by omega
  have h2 : ((- (-1 : Int)).toNat ≤ l.length) := by simp; omega
  have e : l.length - (- (-1 : Int)).toNat = l.length - 1 := by simp
  simp only [getitem, asInt, normIndex, h1, if_false, h2, if_true, pure_ok, List.length_map, e]
  rw [List.getD_eq_getElem?_getD, List.getElem?_map]
  have : l[l.length - 1]? = some (l.getLastD []) := by
    rw [List.getLastD_eq_getLast?, List.getLast?_eq_getElem?]
    cases hh : l[l.length - 1]? with
    | none => simp at hh; omega
    | some v => simp
  simp [this]

/-! ### pieces of an ASCII string are ASCII -/

theorem mem_of_mem_splitOn (sep : Nat) (s : Str) : ∀ p ∈ splitOn sep s, ∀ x ∈ p, x ∈ s := by
  induction s with
  | nil => intro p hp x hx; simp [splitOn] at hp; subst hp; simp at hx
  | cons c cs ih =>
    intro p hp x hx
    simp only [splitOn] at hp
    by_cases h : (c == sep) = true
    · simp only [h, if_true, List.mem_cons] at hp
      rcases hp with rfl | hp
      · simp at hx
      · exact List.mem_cons_of_mem _ (ih p hp x hx)
    · have h' : (c == sep) = false := by simpa using h
      simp only [h', Bool.false_eq_true, if_false] at hp
      cases hs : splitOn sep cs with
      | nil => rw [hs] at hp; simp at hp; subst hp; simp at hx; subst hx; simp
      | cons q qs =>
        rw [hs] at hp
        simp only [List.mem_cons] at hp
        rcases hp with rfl | hp
        · simp only [List.mem_cons] at hx
          rcases hx with rfl | hx
          · simp
          · exact List.mem_cons_of_mem _ (ih q (by rw [hs]; simp) x hx)
        · exact List.mem_cons_of_mem _ (ih p (by rw [hs]; simp [hp]) x hx)

end PyRx
