import PkgProofs.Lemmas.MarkerParse
/-!
Lemmas for C09: `_format_marker` at token granularity, the normal form it prints (single-element
wrappers removed), and the link to the character-level `Mk.str`.
-/
namespace MkFmt
open Py Mk Pep508 MkParse
set_option linter.unusedSimpArgs false

/-! ### `_format_marker` on tokens (same recursion as `Mk.fmtM` / `Mk.fmtL`) -/

def wrapT (first : Bool) (inner : List Tok) : List Tok := if first then inner else lp :: (inner ++ [rp])

mutual
def fmtToksM : M → Bool → List Tok
  | .atom a, _ => atomToks a
  | .bool s, _ => [(.boolop, s)]
  | .list l, first => fmtToksL l first
def fmtToksL : List M → Bool → List Tok
  | [.atom a], _ => atomToks a
  | [.list l], first => fmtToksL l first
  | [], first => wrapT first []
  | [.bool s], first => wrapT first [(.boolop, s)]
  | m₁ :: m₂ :: ms, first => wrapT first (fmtToksM m₁ false ++ (fmtToksM m₂ false ++ fmtToksEach ms))
def fmtToksEach : List M → List Tok
  | [] => []
  | m :: ms => fmtToksM m false ++ fmtToksEach ms
end

/-! ### the normal form: what is left of the nesting after printing -/

mutual
def nfItem : M → M
  | .atom a => .atom a
  | .bool s => .bool s
  | .list l => nfWrap l
/-- a nested list in non-first position: a single comparison loses its parentheses, a single nested
list is looked through, everything else keeps one pair of parentheses -/
def nfWrap : List M → M
  | [.atom a] => .atom a
  | [.list l] => nfWrap l
  | [] => .list []
  | [.bool s] => .list [.bool s]
  | m₁ :: m₂ :: ms => .list (nfItem m₁ :: nfItem m₂ :: nfEach ms)
def nfEach : List M → List M
  | [] => []
  | m :: ms => nfItem m :: nfEach ms
end

/-- the whole marker (first position): outer single-element wrappers are looked through -/
def nfTop : List M → List M
  | [.atom a] => [.atom a]
  | [.list l] => nfTop l
  | [] => []
  | [.bool s] => [.bool s]
  | m₁ :: m₂ :: ms => nfItem m₁ :: nfItem m₂ :: nfEach ms

mutual
theorem fmtToksM_false : (m : M) → fmtToksM m false = printM (nfItem m)
  | .atom a => by simp [fmtToksM, nfItem, printM]
  | .bool s => by simp [fmtToksM, nfItem, printM]
  | .list l => by simp only [fmtToksM, nfItem]; exact fmtToksL_false l
theorem fmtToksL_false : (l : List M) → fmtToksL l false = printM (nfWrap l)
  | [.atom a] => by simp [fmtToksL, nfWrap, printM]
  | [.list l] => by simp only [fmtToksL, nfWrap]; exact fmtToksL_false l
  | [] => by simp [fmtToksL, nfWrap, printM, printL, wrapT]
  | [.bool s] => by simp [fmtToksL, nfWrap, printM, printL, wrapT]
  | m₁ :: m₂ :: ms => by
    simp only [fmtToksL, nfWrap, printM, printL, wrapT, fmtToksM_false m₁, fmtToksM_false m₂, fmtToksEach_eq ms]
    simp
theorem fmtToksEach_eq : (l : List M) → fmtToksEach l = printL (nfEach l)
  | [] => by simp [fmtToksEach, nfEach, printL]
  | m :: ms => by simp [fmtToksEach, nfEach, printL, fmtToksM_false m, fmtToksEach_eq ms]
end

theorem fmtToksL_true : (l : List M) → fmtToksL l true = printL (nfTop l)
  | [.atom a] => by simp [fmtToksL, nfTop, printM, printL]
  | [.list l] => by simp only [fmtToksL, nfTop]; exact fmtToksL_true l
  | [] => by simp [fmtToksL, nfTop, printL, wrapT]
  | [.bool s] => by simp [fmtToksL, nfTop, printM, printL, wrapT]
  | m₁ :: m₂ :: ms => by
    simp [fmtToksL, nfTop, printL, wrapT, fmtToksM_false m₁, fmtToksM_false m₂, fmtToksEach_eq ms]


/-! ### the normal form denotes the same formula, has the same comparisons, and is a fixed point -/

theorem nfWrap_not_bool : (l : List M) → ∀ s, nfWrap l ≠ .bool s
  | [.atom a], s => by simp [nfWrap]
  | [.list l], s => by simp only [nfWrap]; exact nfWrap_not_bool l s
  | [], s => by simp [nfWrap]
  | [.bool _], s => by simp [nfWrap]
  | _ :: _ :: _, s => by simp [nfWrap]

theorem fOfRest_head_not_bool (x y : M) (r : List M) (o : Option Formula) (a : Formula) (h : ∀ s, x ≠ .bool s) :
    fOfRest (x :: y :: r) o a = none := by
  cases x with
  | bool s => exact absurd rfl (h s)
  | atom _ => simp [fOfRest]
  | list _ => simp [fOfRest]

mutual
theorem fOfM_nfItem : (m : M) → fOfM (nfItem m) = fOfM m
  | .atom a => by simp [nfItem]
  | .bool s => by simp [nfItem]
  | .list l => by simp only [nfItem, fOfM]; exact fOfM_nfWrap l
theorem fOfM_nfWrap : (l : List M) → fOfM (nfWrap l) = fOfL l
  | [.atom a] => by simp [nfWrap, fOfL_single]
  | [.list l] => by simp only [nfWrap, fOfL_single, fOfM]; exact fOfM_nfWrap l
  | [] => by simp [nfWrap, fOfM]
  | [.bool s] => by simp [nfWrap, fOfM]
  | m₁ :: m₂ :: ms => by
    simp only [nfWrap, fOfM, fOfL, fOfM_nfItem m₁]
    cases fOfM m₁ with
    | none => rfl
    | some f => simpa [nfEach] using fOfRest_nfEach (m₂ :: ms) none f
theorem fOfRest_nfEach : (r : List M) → (o : Option Formula) → (a : Formula) → fOfRest (nfEach r) o a = fOfRest r o a
  | [], o, a => by simp [nfEach]
  | [m], o, a => by simp [nfEach, fOfRest]
  | .bool s :: m :: r, o, a => by
    simp only [nfEach, nfItem, fOfRest, fOfM_nfItem m]
    cases fOfM m with
    | none => rfl
    | some f =>
      simp only
      split
      · exact fOfRest_nfEach r o (.and a f)
      · split
        · exact fOfRest_nfEach r _ f
        · rfl
  | .atom x :: m :: r, o, a => by simp [nfEach, nfItem, fOfRest]
  | .list l :: m :: r, o, a => by
    simp only [nfEach, nfItem]
    rw [fOfRest_head_not_bool _ _ _ _ _ (nfWrap_not_bool l)]; simp [fOfRest]
end

theorem fOfL_nfTop : (l : List M) → fOfL (nfTop l) = fOfL l
  | [.atom a] => by simp [nfTop]
  | [.list l] => by simp only [nfTop, fOfL_single, fOfM]; exact fOfL_nfTop l
  | [] => by simp [nfTop]
  | [.bool s] => by simp [nfTop]
  | m₁ :: m₂ :: ms => by
    simp only [nfTop, fOfL, fOfM_nfItem m₁]
    cases fOfM m₁ with
    | none => rfl
    | some f => simpa [nfEach] using fOfRest_nfEach (m₂ :: ms) none f

mutual
theorem atomsM_nfItem : (m : M) → atomsM (nfItem m) = atomsM m
  | .atom a => by simp [nfItem]
  | .bool s => by simp [nfItem]
  | .list l => by simp only [nfItem, atomsM]; exact atomsM_nfWrap l
theorem atomsM_nfWrap : (l : List M) → atomsM (nfWrap l) = atomsL l
  | [.atom a] => by simp [nfWrap, atomsL, atomsM]
  | [.list l] => by simp only [nfWrap, atomsL, atomsM, List.append_nil]; exact atomsM_nfWrap l
  | [] => by simp [nfWrap, atomsM]
  | [.bool s] => by simp [nfWrap, atomsM]
  | m₁ :: m₂ :: ms => by
    simp only [nfWrap, atomsM, atomsL, atomsM_nfItem m₁, atomsM_nfItem m₂, atomsL_nfEach ms]
theorem atomsL_nfEach : (l : List M) → atomsL (nfEach l) = atomsL l
  | [] => by simp [nfEach]
  | m :: ms => by simp only [nfEach, atomsL, atomsM_nfItem m, atomsL_nfEach ms]
end

theorem atomsL_nfTop : (l : List M) → atomsL (nfTop l) = atomsL l
  | [.atom a] => by simp [nfTop]
  | [.list l] => by simp only [nfTop, atomsL, atomsM, List.append_nil]; exact atomsL_nfTop l
  | [] => by simp [nfTop]
  | [.bool s] => by simp [nfTop]
  | m₁ :: m₂ :: ms => by simp only [nfTop, atomsL, atomsM_nfItem m₁, atomsM_nfItem m₂, atomsL_nfEach ms]

mutual
theorem nfItem_idem : (m : M) → nfItem (nfItem m) = nfItem m
  | .atom a => by simp [nfItem]
  | .bool s => by simp [nfItem]
  | .list l => by simp only [nfItem]; exact nfItem_nfWrap l
theorem nfItem_nfWrap : (l : List M) → nfItem (nfWrap l) = nfWrap l
  | [.atom a] => by simp [nfWrap, nfItem]
  | [.list l] => by simp only [nfWrap]; exact nfItem_nfWrap l
  | [] => by simp [nfWrap, nfItem]
  | [.bool s] => by simp [nfWrap, nfItem]
  | m₁ :: m₂ :: ms => by
    simp only [nfWrap, nfItem, nfItem_idem m₁, nfItem_idem m₂, nfEach_idem ms]
theorem nfEach_idem : (l : List M) → nfEach (nfEach l) = nfEach l
  | [] => by simp [nfEach]
  | m :: ms => by simp only [nfEach, nfItem_idem m, nfEach_idem ms]
end

theorem nfTop_idem : (l : List M) → nfTop (nfTop l) = nfTop l
  | [.atom a] => by simp [nfTop]
  | [.list l] => by simp only [nfTop]; exact nfTop_idem l
  | [] => by simp [nfTop]
  | [.bool s] => by simp [nfTop]
  | m₁ :: m₂ :: ms => by simp only [nfTop, nfItem_idem m₁, nfItem_idem m₂, nfEach_idem ms]


/-! ### spelling a token list: one space between tokens, none inside parentheses -/

def noSpace (t₁ t₂ : Tok) : Bool := t₁.1 == .lparen || t₂.1 == .rparen || t₁.1 == .ws || t₂.1 == .ws

def spell : List Tok → Str
  | [] => []
  | [t] => t.2
  | t₁ :: t₂ :: ts => t₁.2 ++ (if noSpace t₁ t₂ then [] else [32]) ++ spell (t₂ :: ts)

def okHead (t : Tok) : Bool := !(t.1 == .rparen || t.1 == .ws)
def okLast (t : Tok) : Bool := !(t.1 == .lparen || t.1 == .ws)

/-- a token list that can be joined to its neighbours with a single space -/
def Good (ts : List Tok) : Prop := ∃ h t, ts.head? = some h ∧ ts.getLast? = some t ∧ okHead h = true ∧ okLast t = true

theorem spell_append_one (t : Tok) (ht : okLast t = true) : (ts₂ : List Tok) → (h : Tok) → ts₂.head? = some h → okHead h = true →
    spell ([t] ++ ts₂) = t.2 ++ [32] ++ spell ts₂
  | [], h, e, _ => by simp at e
  | t₂ :: ts, h, e, hh => by
    simp only [List.head?_cons, Option.some.injEq] at e; subst e
    have : noSpace t t₂ = false := by
      simp only [okHead, okLast, Bool.not_eq_true', Bool.or_eq_false_iff] at hh ht
      simp [noSpace, hh.1, hh.2, ht.1, ht.2]
    simp [spell, this]

theorem spell_append' : (ts₁ : List Tok) → (t : Tok) → ts₁.getLast? = some t → okLast t = true →
    (ts₂ : List Tok) → (h : Tok) → ts₂.head? = some h → okHead h = true →
    spell (ts₁ ++ ts₂) = spell ts₁ ++ [32] ++ spell ts₂
  | [], t, e, _, _, _, _, _ => by simp at e
  | [t₁], t, e, ht, ts₂, h, e3, hh => by
    simp only [List.getLast?_singleton, Option.some.injEq] at e; subst e
    simpa [spell] using spell_append_one t₁ ht ts₂ h e3 hh
  | t₁ :: t₂ :: ts, t, e, ht, ts₂, h, e3, hh => by
    have e' : (t₂ :: ts).getLast? = some t := by simpa [List.getLast?_cons_cons] using e
    have ih := spell_append' (t₂ :: ts) t e' ht ts₂ h e3 hh
    simp only [List.cons_append] at ih ⊢
    simp only [spell, ih, List.append_assoc]

theorem spell_append (ts₁ ts₂ : List Tok) (g₁ : Good ts₁) (g₂ : Good ts₂) :
    spell (ts₁ ++ ts₂) = spell ts₁ ++ [32] ++ spell ts₂ := by
  obtain ⟨_, t, _, e2, _, ht⟩ := g₁
  obtain ⟨h, _, e3, _, hh, _⟩ := g₂
  exact spell_append' ts₁ t e2 ht ts₂ h e3 hh

theorem good_append (ts₁ ts₂ : List Tok) (g₁ : Good ts₁) (g₂ : Good ts₂) : Good (ts₁ ++ ts₂) := by
  obtain ⟨h₁, t₁, a1, a2, a3, a4⟩ := g₁
  obtain ⟨h₂, t₂, b1, b2, b3, b4⟩ := g₂
  refine ⟨h₁, t₂, ?_, ?_, a3, b4⟩
  · cases ts₁ with
    | nil => simp at a1
    | cons x xs => simpa using a1
  · cases ts₂ with
    | nil => simp at b1
    | cons y ys => simp [List.getLast?_append, b2]

/-- `( inner )` -/
theorem spell_parens (ts : List Tok) : spell (lp :: (ts ++ [rp])) = [40] ++ spell ts ++ [41] := by
  have hrp : ∀ (us : List Tok), spell (us ++ [rp]) = spell us ++ [41] := by
    intro us
    induction us with
    | nil => simp [spell, rp]
    | cons u us ih =>
      cases us with
      | nil => simp [spell, noSpace, rp]
      | cons v vs =>
        simp only [List.cons_append] at ih ⊢
        simp only [spell, ih, List.append_assoc]
  cases ts with
  | nil => simp [spell, noSpace, lp, rp]
  | cons t ts =>
    have := hrp (t :: ts)
    simp only [List.cons_append] at this ⊢
    simp [spell, noSpace, lp, this]

theorem good_parens (ts : List Tok) : Good (lp :: (ts ++ [rp])) :=
  ⟨lp, rp, rfl, by
    have : lp :: (ts ++ [rp]) = (lp :: ts) ++ [rp] := rfl
    rw [this, List.getLast?_append]; rfl, by decide, by decide⟩


theorem nodeTok_text (n : Node) : (nodeTok n).2 = n.serialize := by cases n <;> rfl
theorem nodeTok_rule (n : Node) : (nodeTok n).1 = .variable ∨ (nodeTok n).1 = .quoted := by cases n <;> simp [nodeTok]

theorem spell_atom (a : Atom) : spell (atomToks a) = a.serialize := by
  obtain ⟨l, o, r⟩ := a
  have hl := nodeTok_rule l; have hr := nodeTok_rule r
  have nl : ∀ t : Tok, (t.1 = .kwIn ∨ t.1 = .kwNot ∨ t.1 = .op) → noSpace (nodeTok l) t = false := by
    intro t ht; rcases hl with h | h <;> rcases ht with g | g | g <;> simp [noSpace, h, g]
  have nr : ∀ t : Tok, (t.1 = .kwIn ∨ t.1 = .op) → noSpace t (nodeTok r) = false := by
    intro t ht; rcases hr with h | h <;> rcases ht with g | g <;> simp [noSpace, h, g]
  unfold atomToks opToks Atom.serialize
  simp only
  by_cases h1 : (o == s_in) = true
  · have : o = s_in := by simpa using h1
    subst this
    simp [spell, nl, nr, nodeTok_text]
  · by_cases h2 : (o == s_not_in) = true
    · have : o = s_not_in := by simpa using h2
      subst this
      have e1 : (s_not_in == s_in) = false := by decide
      have q1 : ¬ ((nodeTok l).1 = .lparen ∨ (nodeTok l).1 = .ws) := by rcases hl with h | h <;> simp [h]
      have q2 : ¬ ((nodeTok r).1 = .rparen ∨ (nodeTok r).1 = .ws) := by rcases hr with h | h <;> simp [h]
      simp [e1, spell, nodeTok_text, noSpace, s_not_in, s_in, q1, q2]
    · simp [h1, h2, spell, nl, nr, nodeTok_text]

theorem good_atom (a : Atom) : Good (atomToks a) := by
  obtain ⟨l, o, r⟩ := a
  refine ⟨nodeTok l, nodeTok r, rfl, ?_, ?_, ?_⟩
  · show (nodeTok l :: (opToks o ++ [nodeTok r])).getLast? = some (nodeTok r)
    have : nodeTok l :: (opToks o ++ [nodeTok r]) = (nodeTok l :: opToks o) ++ [nodeTok r] := rfl
    rw [this, List.getLast?_append]; rfl
  · rcases nodeTok_rule l with h | h <;> simp [okHead, h]
  · rcases nodeTok_rule r with h | h <;> simp [okLast, h]

theorem join_cons2 (x y : Str) (r : List Str) : join [32] (x :: y :: r) = x ++ [32] ++ join [32] (y :: r) := rfl

mutual
theorem fmtM_spell : (m : M) → Good (fmtToksM m false) ∧ ∀ first, spell (fmtToksM m first) = fmtM m first
  | .atom a => ⟨good_atom a, fun _ => by simp [fmtToksM, fmtM, spell_atom]⟩
  | .bool s => ⟨⟨(.boolop, s), (.boolop, s), rfl, rfl, by simp [okHead], by simp [okLast]⟩, fun _ => by simp [fmtToksM, fmtM, spell]⟩
  | .list l => ⟨by simpa [fmtToksM] using (fmtL_spell l).1, fun first => by simpa [fmtToksM, fmtM] using (fmtL_spell l).2 first⟩
theorem fmtL_spell : (l : List M) → Good (fmtToksL l false) ∧ ∀ first, spell (fmtToksL l first) = fmtL l first
  | [.atom a] => ⟨by simpa [fmtToksL] using good_atom a, fun _ => by simp [fmtToksL, fmtL, spell_atom]⟩
  | [.list l] => ⟨by simpa [fmtToksL] using (fmtL_spell l).1, fun first => by simpa [fmtToksL, fmtL] using (fmtL_spell l).2 first⟩
  | [] => ⟨by simpa [fmtToksL, wrapT] using good_parens [], fun first => by
      cases first <;> simp [fmtToksL, fmtL, wrapT, wrapParens, spell, noSpace, lp, rp]⟩
  | [.bool s] => ⟨by simpa [fmtToksL, wrapT] using good_parens [(.boolop, s)], fun first => by
      cases first
      · simpa [fmtToksL, fmtL, wrapT, wrapParens, spell] using spell_parens [(.boolop, s)]
      · simp [fmtToksL, fmtL, wrapT, wrapParens, spell]⟩
  | m₁ :: m₂ :: ms => by
    obtain ⟨g₁, s₁⟩ := fmtM_spell m₁
    obtain ⟨g₂, s₂⟩ := fmtM_spell m₂
    have he := fmtEach_spell ms
    have inner : Good (fmtToksM m₁ false ++ (fmtToksM m₂ false ++ fmtToksEach ms)) ∧
        spell (fmtToksM m₁ false ++ (fmtToksM m₂ false ++ fmtToksEach ms)) =
          join [32] (fmtM m₁ false :: fmtM m₂ false :: fmtEach ms) := by
      cases ms with
      | nil =>
        simp only [fmtToksEach, fmtEach, List.append_nil]
        exact ⟨good_append _ _ g₁ g₂, by rw [spell_append _ _ g₁ g₂, s₁, s₂]; rfl⟩
      | cons m₃ r =>
        obtain ⟨ge, se⟩ := he (by simp)
        have g₂e := good_append _ _ g₂ ge
        refine ⟨good_append _ _ g₁ g₂e, ?_⟩
        rw [spell_append _ _ g₁ g₂e, spell_append _ _ g₂ ge, s₁, s₂, se]
        simp only [fmtEach, join_cons2, List.append_assoc]
    refine ⟨by simp only [fmtToksL, wrapT, Bool.false_eq_true, if_false]; exact good_parens _, fun first => ?_⟩
    cases first
    · simp only [fmtToksL, fmtL, wrapT, wrapParens, Bool.false_eq_true, if_false, spell_parens, inner.2]
    · simp only [fmtToksL, fmtL, wrapT, wrapParens, if_true, inner.2]
theorem fmtEach_spell : (l : List M) → l ≠ [] → Good (fmtToksEach l) ∧ spell (fmtToksEach l) = join [32] (fmtEach l)
  | [], h => absurd rfl h
  | [m], _ => by
    obtain ⟨g, s⟩ := fmtM_spell m
    simp only [fmtToksEach, fmtEach, List.append_nil]
    exact ⟨g, by rw [s]; rfl⟩
  | m :: m' :: r, _ => by
    obtain ⟨g, s⟩ := fmtM_spell m
    obtain ⟨ge, se⟩ := fmtEach_spell (m' :: r) (by simp)
    simp only [fmtToksEach, fmtEach] at ge se ⊢
    refine ⟨good_append _ _ g ge, ?_⟩
    rw [spell_append _ _ g ge, s, se, join_cons2]
end

/-- **`str(marker)` is the spelling of the token-level format** -/
theorem str_eq_spell (m : List M) : str m = spell (fmtToksL m true) := ((fmtL_spell m).2 true).symm

end MkFmt
