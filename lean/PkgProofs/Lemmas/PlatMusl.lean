import PkgProofs.Lemmas.PlatFamilies
/-!
Lemmas for C16: `_parse_musl_version` reads back what the musl loader prints
(`musl libc (arch)` / `Version M.m…` / …).
-/
namespace PlatL
open Py Tags Plat PlatSpec TagL

/-! ### `splitlines`, `strip` -/

theorem splitBy_line (p : Nat → Bool) : (a : Str) → (c : Nat) → (b : Str) → (∀ x ∈ a, p x = false) → p c = true →
    splitBy p (a ++ c :: b) = a :: splitBy p b
  | [], c, b, _, hc => by simp [splitBy, hc]
  | x :: a, c, b, ha, hc => by
    have ih := splitBy_line p a c b (fun y hy => ha y (by simp [hy])) hc
    simp [splitBy, ha x (by simp), ih]

/-- the first line is the text up to the first line break -/
theorem splitBy_head (p : Nat → Bool) : (s : Str) → ∃ qs, splitBy p s = s.takeWhile (fun c => !p c) :: qs
  | [] => ⟨[], rfl⟩
  | c :: cs => by
    obtain ⟨qs, ih⟩ := splitBy_head p cs
    cases hc : p c with
    | true => exact ⟨splitBy p cs, by simp [splitBy, hc, List.takeWhile]⟩
    | false => exact ⟨qs, by simp [splitBy, hc, ih, List.takeWhile]⟩

theorem dropWhile_append_head (p : Nat → Bool) : (a b : Str) → (∀ c, b.head? = some c → p c = false) → b ≠ [] →
    (a ++ b).dropWhile p = a.dropWhile p ++ b
  | [], b, hb, hne => by
    cases b with
    | nil => exact absurd rfl hne
    | cons c t => simp [List.dropWhile, hb c rfl]
  | x :: a, b, hb, hne => by
    cases hx : p x with
    | true => simp [List.dropWhile, hx, dropWhile_append_head p a b hb hne]
    | false => simp [List.dropWhile, hx]

/-- right-strip: what `strip` removes at the end -/
def rstrip (p : Nat → Bool) (s : Str) : Str := (s.reverse.dropWhile p).reverse

theorem rstrip_prefix (p : Nat → Bool) (s : Str) : ∃ y, s = rstrip p s ++ y := by
  have := List.takeWhile_append_dropWhile (p := p) (l := s.reverse)
  refine ⟨(s.reverse.takeWhile p).reverse, ?_⟩
  have h2 := congrArg List.reverse this
  simp only [List.reverse_append, List.reverse_reverse] at h2
  exact h2.symm

theorem rstrip_head (p : Nat → Bool) (s : Str) (c : Nat) (h : (rstrip p s).head? = some c) : s.head? = some c := by
  obtain ⟨y, e⟩ := rstrip_prefix p s
  rw [e]
  cases hr : rstrip p s with
  | nil => rw [hr] at h; cases h
  | cons d t => rw [hr] at h; simpa using h

/-- `strip` of a text that starts with a word `w` whose first and last characters are not white space -/
theorem stripBy_word (p : Nat → Bool) (w f : Str) (c d : Nat) (hh : w.head? = some c) (hc : p c = false)
    (hl : w.reverse.head? = some d) (hd : p d = false) :
    stripBy p (w ++ f) = w ++ rstrip p f := by
  have hne : w ≠ [] := by intro e; rw [e] at hh; cases hh
  have hrne : w.reverse ≠ [] := by simpa using hne
  unfold stripBy rstrip
  have e1 : (w ++ f).dropWhile p = w ++ f := by
    cases w with
    | nil => exact absurd rfl hne
    | cons x t => simp only [List.head?_cons, Option.some.injEq] at hh; subst hh; simp [List.dropWhile, hc]
  rw [e1, List.reverse_append, dropWhile_append_head p f.reverse w.reverse (fun x hx => by rw [hl] at hx; cases hx; exact hd) hrne]
  simp

/-! ### the round trip -/

theorem isLineBreak_10 : isLineBreak 10 = true := by decide

theorem dec_head_last (n : Nat) : ∃ c d, (dec n).head? = some c ∧ (dec n).reverse.head? = some d ∧
    isDigit c = true ∧ isDigit d = true := by
  have hne := dec_ne_nil n
  have hd := dec_digits n
  cases h : dec n with
  | nil => exact absurd h hne
  | cons c t =>
    have hr : (c :: t).reverse ≠ [] := by simp
    cases h2 : (c :: t).reverse with
    | nil => exact absurd h2 hr
    | cons d t' =>
      refine ⟨c, d, rfl, rfl, by rw [h] at hd; exact hd c (by simp), ?_⟩
      have : d ∈ (c :: t).reverse := by rw [h2]; simp
      rw [h] at hd
      exact hd d (List.mem_reverse.mp this)

theorem digit_not_space (c : Nat) (h : isDigit c = true) : isSpaceAscii c = false := by
  simp only [isDigit, Bool.and_eq_true, decide_eq_true_eq] at h
  simp only [isSpaceAscii, Bool.or_eq_false_iff, Bool.and_eq_false_iff, beq_eq_false_iff_ne, decide_eq_false_iff_not]
  omega

/-- **`_parse_musl_version` reads back what the loader prints**: first line `musl…` (anything without a line break
after the word), second line `Version M.m` followed by anything that does not continue the number (the patch
level, further lines) -/
theorem musl_parse_render (f : Str) (hf : ∀ x ∈ f, isLineBreak x = false) (M m : Nat) (junk : Str)
    (hj : ∀ c, junk.head? = some c → isDigit c = false) :
    parseMuslVersion (sMusl ++ f ++ 10 :: (sVersionSp ++ dec M ++ 46 :: (dec m ++ junk))) = some (M, m) := by
  have hmf : ∀ x ∈ sMusl ++ f, isLineBreak x = false := by
    intro x hx
    rw [List.mem_append] at hx
    rcases hx with hx | hx
    · revert x; decide
    · exact hf x hx
  obtain ⟨qs, hq⟩ := splitBy_head isLineBreak (sVersionSp ++ dec M ++ 46 :: (dec m ++ junk))
  -- the second raw line: `Version M.m` and the rest of `junk` up to its first line break
  obtain ⟨c1, d1, _, hl1, _, hd1⟩ := dec_head_last m
  have hw : ∀ x ∈ sVersionSp ++ dec M ++ 46 :: dec m, (!isLineBreak x) = true := by
    intro x hx
    simp only [List.mem_append, List.mem_cons] at hx
    rcases hx with (hx | hx) | rfl | hx
    · revert x; decide
    · have := dec_digits M x hx
      simp only [isDigit, Bool.and_eq_true, decide_eq_true_eq] at this
      simp only [isLineBreak, Bool.not_eq_true', Bool.or_eq_false_iff, beq_eq_false_iff_ne]; omega
    · decide
    · have := dec_digits m x hx
      simp only [isDigit, Bool.and_eq_true, decide_eq_true_eq] at this
      simp only [isLineBreak, Bool.not_eq_true', Bool.or_eq_false_iff, beq_eq_false_iff_ne]; omega
  have e2 : sVersionSp ++ dec M ++ 46 :: (dec m ++ junk) = (sVersionSp ++ dec M ++ 46 :: dec m) ++ junk := by simp
  have htw : (sVersionSp ++ dec M ++ 46 :: (dec m ++ junk)).takeWhile (fun c => !isLineBreak c) =
      (sVersionSp ++ dec M ++ 46 :: dec m) ++ junk.takeWhile (fun c => !isLineBreak c) := by
    rw [e2, List.takeWhile_append_of_pos hw]
  rw [htw] at hq
  -- stripping the two lines
  have s0 : stripBy isSpaceAscii (sMusl ++ f) = sMusl ++ rstrip isSpaceAscii f :=
    stripBy_word isSpaceAscii sMusl f 109 108 rfl (by decide) rfl (by decide)
  have hlast : (sVersionSp ++ dec M ++ 46 :: dec m).reverse.head? = some d1 := by
    have e : (sVersionSp ++ dec M ++ 46 :: dec m).reverse = (dec m).reverse ++ (46 :: (sVersionSp ++ dec M).reverse) := by simp
    rw [e]
    cases h : (dec m).reverse with
    | nil => rw [h] at hl1; cases hl1
    | cons x t => rw [h] at hl1; simpa using hl1
  have s1 := stripBy_word isSpaceAscii (sVersionSp ++ dec M ++ 46 :: dec m) (junk.takeWhile (fun c => !isLineBreak c))
    86 d1 rfl (by decide) hlast (digit_not_space d1 hd1)
  -- what follows the minor number in the stripped line does not continue it
  have hj' : ∀ c, (rstrip isSpaceAscii (junk.takeWhile (fun c => !isLineBreak c))).head? = some c → isDigit c = false := by
    intro c hc
    have h1 := rstrip_head _ _ c hc
    apply hj
    cases junk with
    | nil => simp at h1
    | cons x t =>
      simp only [List.takeWhile] at h1
      split at h1
      · simpa using h1
      · simp at h1
  unfold parseMuslVersion
  rw [splitBy_line isLineBreak (sMusl ++ f) 10 _ hmf isLineBreak_10, hq]
  simp only [List.map_cons, s0, s1]
  have ne0 : (!(sMusl ++ rstrip isSpaceAscii f).isEmpty) = true := by simp [sMusl]
  have ne1 : (!(sVersionSp ++ dec M ++ 46 :: dec m ++ rstrip isSpaceAscii (junk.takeWhile fun c => !isLineBreak c)).isEmpty) = true := by
    simp [sVersionSp]
  simp only [List.filter_cons, ne0, ne1, if_true]
  have t4 : (sMusl ++ rstrip isSpaceAscii f).take 4 = sMusl := by simp [sMusl]
  have sw : startsWith (sVersionSp ++ dec M ++ 46 :: dec m ++ rstrip isSpaceAscii (junk.takeWhile fun c => !isLineBreak c)) sVersionSp = true := by
    simp [sVersionSp, startsWith]
  have d8 : (sVersionSp ++ dec M ++ 46 :: dec m ++ rstrip isSpaceAscii (junk.takeWhile fun c => !isLineBreak c)).drop 8 =
      dec M ++ 46 :: (dec m ++ rstrip isSpaceAscii (junk.takeWhile fun c => !isLineBreak c)) := by
    simp [sVersionSp]
  have h1 : spanDigits (dec M ++ 46 :: (dec m ++ rstrip isSpaceAscii (junk.takeWhile fun c => !isLineBreak c))) =
      (dec M, 46 :: (dec m ++ rstrip isSpaceAscii (junk.takeWhile fun c => !isLineBreak c))) :=
    spanDigits_dec M _ (by intro c hc; simp at hc; subst hc; decide)
  have h2 := spanDigits_dec m _ hj'
  have e1 : (dec M).isEmpty = false := by
    cases hd : dec M with
    | nil => exact absurd hd (dec_ne_nil M)
    | cons _ _ => rfl
  have e3 : (dec m).isEmpty = false := by
    cases hd : dec m with
    | nil => exact absurd hd (dec_ne_nil m)
    | cons _ _ => rfl
  simp only [t4, bne_self_eq_false, sw, Bool.not_true, Bool.false_eq_true, if_false, d8, h1, e1, h2, e3, undec_dec]

end PlatL
