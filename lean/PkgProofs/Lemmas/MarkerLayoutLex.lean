import PkgProofs.Lemmas.MarkerWf
/-!
Lemmas for C07/C09 (character level, **any layout**): what the context-sensitive tokenizer finds at the first
character of a word / operator token whatever follows it in a well-formed layout (white space, a quote, a
parenthesis, an operator character, the first letter of a variable, the end), runs of white space, and both
quote styles.
-/
namespace MkLay
open Py Mk Pep508 MkParse MkFmt MkLex MkLexP MkWf
set_option linter.unusedSimpArgs false

/-! ### runs of white space -/

/-- a run of marker white space (the `WS` rule: spaces and tabs) -/
def WsRun (w : Str) : Prop := ∀ c ∈ w, c = 32 ∨ c = 9
def NoWsHead (k : Str) : Prop := ∀ c, k.head? = some c → c ≠ 9 ∧ c ≠ 32

instance (w : Str) : Decidable (WsRun w) := by unfold WsRun; infer_instance

theorem wsRun_nil : WsRun [] := by intro c hc; cases hc

theorem wsRun_isWs {w : Str} (h : WsRun w) : ∀ c ∈ w, Mk.isWs c = true := by
  intro c hc
  rw [isWs_iff]
  rcases h c hc with rfl | rfl <;> decide

theorem noWsHead_isWs {k : Str} (h : NoWsHead k) : ∀ c, k.head? = some c → Mk.isWs c = false := by
  intro c hc
  have := h c hc
  cases hw : Mk.isWs c with
  | false => rfl
  | true => rw [isWs_iff] at hw; simp at hw; omega

theorem lastOr_cons_cons (c x : Nat) (t : Str) (p : Option Nat) : lastOr (c :: x :: t) p = lastOr (x :: t) p := by
  simp [lastOr]

theorem lastOr_nil (p : Option Nat) : lastOr [] p = p := rfl

theorem lastOr_append : (a b : Str) → (p : Option Nat) → lastOr (a ++ b) p = lastOr b (lastOr a p)
  | [], b, p => rfl
  | [c], [], p => rfl
  | [c], d :: b, p => by
    show lastOr (c :: d :: b) p = lastOr (d :: b) (some c)
    rw [lastOr_cons_cons]; exact lastOr_nonempty _ (by simp) _ _
  | c :: x :: a, b, p => by
    have ih := lastOr_append (x :: a) b p
    simp only [List.cons_append, lastOr_cons_cons] at ih ⊢
    exact ih

theorem lastOr_ne (s : Str) (h : s ≠ []) (p : Option Nat) : lastOr s p = lastOr s none :=
  lastOr_nonempty s h p none

theorem lastOr_wsRun (w : Str) (hw : WsRun w) (hne : w ≠ []) (p : Option Nat) :
    lastOr w p = some 32 ∨ lastOr w p = some 9 := by
  induction w with
  | nil => exact absurd rfl hne
  | cons c t ih =>
    cases t with
    | nil => rcases hw c (by simp) with rfl | rfl <;> simp [lastOr]
    | cons d t' =>
      rw [lastOr_cons_cons]
      exact ih (fun x hx => hw x (by simp [hx])) (by simp)

theorem isWord_ws : isWord 32 = false ∧ isWord 9 = false := by decide +kernel

/-- after a run of white space the tokenizer sees no word character, unless the run is empty -/
theorem notWord_after_ws (w : Str) (hw : WsRun w) (p : Option Nat) (h : w = [] → isWordO p = false) :
    isWordO (lastOr w p) = false := by
  by_cases hne : w = []
  · subst hne; exact h rfl
  · rcases lastOr_wsRun w hw hne p with e | e <;> rw [e]
    · exact isWord_ws.1
    · exact isWord_ws.2

theorem takeWhile_all_append {p : Nat → Bool} : (u k : Str) → (∀ x ∈ u, p x = true) →
    (∀ d, k.head? = some d → p d = false) → (u ++ k).takeWhile p = u
  | [], [], _, _ => rfl
  | [], d :: k, _, hk => by simp [List.takeWhile, hk d rfl]
  | x :: u, k, hu, hk => by
    have := takeWhile_all_append u k (fun y hy => hu y (by simp [hy])) hk
    simp [List.takeWhile, hu x (by simp), this]

/-- `consume("WS")` on a run of white space followed by something else: exactly the run is eaten -/
theorem consume_ws_run (w k : Str) (hw : WsRun w) (hk : NoWsHead k) (p : Option Nat) :
    consume charTS .ws ⟨p, w ++ k⟩ = ⟨lastOr w p, k⟩ := by
  cases w with
  | nil =>
    have : matchWs k = none := matchWs_none k hk
    simp [consume, charTS, St.check, matchRule, this, lastOr]
  | cons c t =>
    have htw : (c :: t ++ k).takeWhile Mk.isWs = c :: t :=
      takeWhile_all_append (c :: t) k (wsRun_isWs hw) (noWsHead_isWs hk)
    have hm : matchWs (c :: t ++ k) = some (c :: t).length := by
      simp only [matchWs, htw]; simp
    simp only [consume, charTS, St.check, matchRule, hm]
    simp

theorem consume_ws_noop (p : Option Nat) (k : Str) (hk : NoWsHead k) : consume charTS .ws ⟨p, k⟩ = ⟨p, k⟩ := by
  simpa [lastOr] using consume_ws_run [] k wsRun_nil hk p

/-- `check("WS")` on a non-empty run -/
theorem check_ws_run (w k : Str) (hw : WsRun w) (hne : w ≠ []) (hk : NoWsHead k) (p : Option Nat) :
    St.check .ws ⟨p, w ++ k⟩ = some (w, ⟨lastOr w p, k⟩) := by
  have htw : (w ++ k).takeWhile Mk.isWs = w := takeWhile_all_append w k (wsRun_isWs hw) (noWsHead_isWs hk)
  have hl : w.length ≠ 0 := by cases w with | nil => exact absurd rfl hne | cons _ _ => simp
  have hm : matchWs (w ++ k) = some w.length := by simp [matchWs, htw, hl]
  simp [St.check, matchRule, hm]

/-! ### a finite rule on one of its words, whatever follows -/

/-- the character of `w` just after `t` when `t` is a proper prefix of `w` -/
def nextChar (t w : Str) : Option Nat := if startsWith w t then w[t.length]? else none

theorem startsWith_append_self : (a x : Str) → startsWith (a ++ x) a = true
  | [], x => by simp [startsWith]
  | c :: a, x => by simp [startsWith, startsWith_append_self a x]

theorem nextChar_of_eq (a : Str) (c : Nat) (w' : Str) : nextChar a (a ++ c :: w') = some c := by
  simp [nextChar, startsWith_append_self]

/-- what follows the text only matters through its first character, provided no alternative continues the
text with that character -/
theorem altTest_congr (bE : Bool) (L : Option Nat) (x x' : Str) (hx : x.head? = x'.head?) :
    (a w : Str) → (∀ c, x.head? = some c → nextChar a w ≠ some c) → altTest bE L (a ++ x) w = altTest bE L (a ++ x') w
  | [], [], _ => by simp [altTest, startsWith, hx]
  | [], c :: w', hc => by
    have hn : nextChar [] (c :: w') = some c := nextChar_of_eq [] c w'
    have h1 : startsWith x (c :: w') = false := by
      cases x with
      | nil => rfl
      | cons y ys =>
        have : y ≠ c := by intro e; exact hc y rfl (by rw [hn, e])
        have : (y == c) = false := by simpa using this
        simp [startsWith, this]
    have h2 : startsWith x' (c :: w') = false := by
      cases x' with
      | nil => rfl
      | cons y ys =>
        have hy : x.head? = some y := by simpa using hx
        have : y ≠ c := by intro e; exact hc y hy (by rw [hn, e])
        have : (y == c) = false := by simpa using this
        simp [startsWith, this]
    simp [altTest, h1, h2]
  | b :: a', [], _ => by simp [altTest, startsWith]
  | b :: a', c :: w', hc => by
    cases hbc : (b == c) with
    | false => simp [altTest, startsWith, hbc]
    | true =>
      have ebc : b = c := by simpa using hbc
      subst ebc
      have ih := altTest_congr bE L x x' hx a' w' (fun d hd => by
        have := hc d hd
        simpa [nextChar, startsWith] using this)
      simp only [altTest, List.cons_append, startsWith, List.length_cons, List.drop_succ_cons, hbc, Bool.true_and] at ih ⊢
      exact ih

theorem matchFin_congr_after (d : Bool × List Str × Bool) (prev : Option Nat) (text x x' : Str) (ht : text ≠ [])
    (hx : x.head? = x'.head?) (hc : ∀ c, x.head? = some c → ∀ w ∈ d.2.1, nextChar text w ≠ some c) :
    matchFin d prev (text ++ x) = matchFin d prev (text ++ x') := by
  have hh : (text ++ x).head? = (text ++ x').head? := by
    cases text with
    | nil => exact absurd rfl ht
    | cons a as => rfl
  rw [matchFin_eq, matchFin_eq, hh]
  split
  · rfl
  · apply findSome?_congr
    intro w hw
    rw [altTest_congr d.2.2 _ x x' hx text w (fun c h => hc c h w hw)]

/-- a rule without `\b` does not look at the previous character -/
theorem matchFin_noB (d : Bool × List Str × Bool) (h1 : d.1 = false) (_h2 : d.2.2 = false) (hne : ∀ w ∈ d.2.1, w ≠ [])
    (prev prev' : Option Nat) (rest : Str) : matchFin d prev rest = matchFin d prev' rest := by
  rw [matchFin_eq, matchFin_eq]
  simp only [h1, Bool.false_and, Bool.false_eq_true, if_false]
  apply findSome?_congr
  intro w hw
  rw [lastOr_nonempty w (hne w hw) prev prev']

/-- the finite check behind `matchFin_tok`: the rule matches `t` in front of each listed follower, and no
alternative continues `t` with a listed follower -/
def tokTable (d : Bool × List Str × Bool) (t : Str) (F : List (Option Nat)) : Bool :=
  F.all fun f => matchFin d none (t ++ f.toList) == some t.length &&
    d.2.1.all fun w => f.isNone || nextChar t w != f

/-- **a word of a finite rule in front of an admissible follower**: the rule matches exactly the word -/
theorem matchFin_tok (d : Bool × List Str × Bool) (t : Str) (ht : t ≠ []) (F : List (Option Nat))
    (htab : tokTable d t F = true) (hne : ∀ w ∈ d.2.1, w ≠ [])
    (prev : Option Nat) (hp : isWordO prev = false ∨ (d.1 = false ∧ d.2.2 = false))
    (K : Str) (hK : K.head? ∈ F) : matchFin d prev (t ++ K) = some t.length := by
  simp only [tokTable, List.all_eq_true, Bool.and_eq_true, beq_iff_eq, Bool.or_eq_true, bne_iff_ne, ne_eq] at htab
  obtain ⟨h1, h2⟩ := htab _ hK
  have e1 : matchFin d prev (t ++ K) = matchFin d none (t ++ K) := by
    rcases hp with hp | ⟨a, b⟩
    · exact matchFin_congr_prev d prev none _ (by simpa [isWordO] using hp) hne
    · exact matchFin_noB d a b hne prev none _
  rw [e1, matchFin_congr_after d none t K K.head?.toList ht (by cases K <;> rfl) ?_]
  · exact h1
  · intro c hc w hw
    rcases h2 w hw with h | h
    · rw [hc] at h; simp at h
    · rw [hc] at h; exact h

/-! ### the five instances -/

def varFollows : List (Option Nat) := [none, some 32, some 9, some 41, some 60, some 61, some 62, some 33, some 126, some 10]
def opFollows : List (Option Nat) := [some 32, some 9, some 34, some 39, some 112, some 111, some 115, some 105, some 101]
def inFollows : List (Option Nat) := [some 32, some 9, some 34, some 39]
def notFollows : List (Option Nat) := [some 32, some 9]
def boolFollows : List (Option Nat) := [some 32, some 9, some 40, some 34, some 39]

theorem tab_variable : ∀ s ∈ Gen.MarkerTok.rVariable.2.1, tokTable Gen.MarkerTok.rVariable s varFollows = true := by decide +kernel
theorem tab_op : ∀ s ∈ Gen.MarkerTok.rOp.2.1, tokTable Gen.MarkerTok.rOp s opFollows = true := by decide +kernel
theorem tab_in : tokTable Gen.MarkerTok.rIn s_in inFollows = true := by decide +kernel
theorem tab_not : tokTable Gen.MarkerTok.rNot s_not notFollows = true := by decide +kernel
theorem tab_bool : ∀ s ∈ [s_and, s_or], tokTable Gen.MarkerTok.rBoolop s boolFollows = true := by decide +kernel

theorem rOp_noB : Gen.MarkerTok.rOp.1 = false ∧ Gen.MarkerTok.rOp.2.2 = false := by decide

theorem take_append_len (t K : Str) : (t ++ K).take t.length = t := by simp
theorem drop_append_len (t K : Str) : (t ++ K).drop t.length = K := by simp

/-- `check(r)` when the rule matches exactly `t` -/
theorem check_of_match (r : Rule) (p : Option Nat) (t K : Str) (ht : t ≠ []) (h : matchRule r p (t ++ K) = some t.length) :
    St.check r ⟨p, t ++ K⟩ = some (t, ⟨lastOr t none, K⟩) := by
  simp only [St.check, h, take_append_len, drop_append_len, lastOr_ne t ht p]

theorem check_variable (s : Str) (hs : s ∈ Gen.MarkerTok.rVariable.2.1) (p : Option Nat) (hp : isWordO p = false)
    (K : Str) (hK : K.head? ∈ varFollows) : St.check .variable ⟨p, s ++ K⟩ = some (s, ⟨lastOr s none, K⟩) := by
  have hne := finRules_nonempty .variable (by decide)
  have hs0 : s ≠ [] := hne s hs
  exact check_of_match .variable p s K hs0
    (matchFin_tok _ s hs0 varFollows (tab_variable s hs) hne p (Or.inl hp) K hK)

theorem check_op (s : Str) (hs : s ∈ Gen.MarkerTok.rOp.2.1) (p : Option Nat)
    (K : Str) (hK : K.head? ∈ opFollows) : St.check .op ⟨p, s ++ K⟩ = some (s, ⟨lastOr s none, K⟩) := by
  have hne := finRules_nonempty .op (by decide)
  have hs0 : s ≠ [] := hne s hs
  exact check_of_match .op p s K hs0
    (matchFin_tok _ s hs0 opFollows (tab_op s hs) hne p (Or.inr rOp_noB) K hK)

theorem check_in (p : Option Nat) (hp : isWordO p = false) (K : Str) (hK : K.head? ∈ inFollows) :
    St.check .kwIn ⟨p, s_in ++ K⟩ = some (s_in, ⟨some 110, K⟩) := by
  have hne := finRules_nonempty .kwIn (by decide)
  exact check_of_match .kwIn p s_in K (by decide)
    (matchFin_tok _ s_in (by decide) inFollows tab_in hne p (Or.inl hp) K hK)

theorem check_not (p : Option Nat) (hp : isWordO p = false) (K : Str) (hK : K.head? ∈ notFollows) :
    St.check .kwNot ⟨p, s_not ++ K⟩ = some (s_not, ⟨some 116, K⟩) := by
  have hne := finRules_nonempty .kwNot (by decide)
  exact check_of_match .kwNot p s_not K (by decide)
    (matchFin_tok _ s_not (by decide) notFollows tab_not hne p (Or.inl hp) K hK)

theorem check_bool (s : Str) (hs : s = s_and ∨ s = s_or) (p : Option Nat) (hp : isWordO p = false)
    (K : Str) (hK : K.head? ∈ boolFollows) : St.check .boolop ⟨p, s ++ K⟩ = some (s, ⟨lastOr s none, K⟩) := by
  have hne := finRules_nonempty .boolop (by decide)
  have hm : s ∈ [s_and, s_or] := by rcases hs with rfl | rfl <;> simp
  have hs0 : s ≠ [] := by rcases hs with rfl | rfl <;> decide
  exact check_of_match .boolop p s K hs0
    (matchFin_tok _ s hs0 boolFollows (tab_bool s hm) hne p (Or.inl hp) K hK)

/-! ### a rule asked where none of its words can start -/

theorem check_none_by_head (r : Rule) (hr : r ∈ finRules) (st : St)
    (h : ∀ c, st.rest.head? = some c → c ∉ heads r) : St.check r st = none := by
  simp [St.check, fin_none_by_head r hr st.prev st.rest h]

theorem heads_all : heads .lparen = [40] ∧ heads .rparen = [41] ∧ heads .kwIn = [105] ∧ heads .kwNot = [110] ∧
    (∀ c ∈ heads .boolop, c ∈ [111, 97]) ∧ (∀ c ∈ heads .op, c ∈ [61, 126, 33, 60, 62]) ∧
    (∀ c ∈ heads .variable, c ∈ [112, 111, 115, 105, 101]) := by decide +kernel
    -- (membership, not list equality: the order and multiplicity of a rule's alternatives is free to change)

/-- first characters of the variable spellings -/
def headIn (l : List Nat) (s : Str) : Bool := s.head?.any fun c => l.contains c

theorem headIn_iff (l : List Nat) (s : Str) : headIn l s = true ↔ ∃ c t, s = c :: t ∧ c ∈ l := by
  cases s with
  | nil => simp [headIn]
  | cons c t => simp [headIn]

theorem variable_head' : ∀ s ∈ Gen.MarkerTok.rVariable.2.1, headIn [112, 111, 115, 105, 101] s = true := by decide +kernel
theorem variable_head (s : Str) (hs : s ∈ Gen.MarkerTok.rVariable.2.1) : ∃ c t, s = c :: t ∧ c ∈ [112, 111, 115, 105, 101] :=
  (headIn_iff _ s).mp (variable_head' s hs)

theorem variable_last : ∀ s ∈ Gen.MarkerTok.rVariable.2.1, isWordO (lastOr s none) = true := by decide +kernel

theorem op_head' : ∀ s ∈ Gen.MarkerTok.rOp.2.1, headIn [61, 126, 33, 60, 62] s = true := by decide +kernel
theorem op_head (s : Str) (hs : s ∈ Gen.MarkerTok.rOp.2.1) : ∃ c t, s = c :: t ∧ c ∈ [61, 126, 33, 60, 62] :=
  (headIn_iff _ s).mp (op_head' s hs)

theorem op_last : ∀ s ∈ Gen.MarkerTok.rOp.2.1, isWordO (lastOr s none) = false := by decide +kernel

theorem isWord_letters : ∀ c ∈ [112, 111, 115, 105, 101, 97, 110, 100, 114, 116], isWord c = true := by decide +kernel

theorem notWord_punct : ∀ c ∈ [32, 9, 40, 41, 34, 39, 61, 126, 33, 60, 62], isWord c = false := by decide +kernel

/-! ### quoted strings, either delimiter -/

theorem pyStrLit_quoted (q : Nat) (hq : q = 34 ∨ q = 39) (s : Str) (h : PlainStr s) : pyStrLit (q :: (s ++ [q])) = .ok s := by
  obtain ⟨h1, h2, h3, h4, h5⟩ := h
  have hq1 : isSurrogate q = false := by rcases hq with rfl | rfl <;> decide
  unfold pyStrLit
  have a1 : (q :: (s ++ [q])).any isSurrogate = false := by simp [List.any_append, h1, hq1]
  have a2 : (q :: (s ++ [q])).contains 0 = false := by
    simp only [List.contains_eq_any_beq, List.any_append, List.any_cons, List.any_nil] at h2 ⊢
    have : (0 == q) = false := by rcases hq with rfl | rfl <;> decide
    simp [h2, this]
  have a3 : ((q :: (s ++ [q])).drop 1).dropLast = s := by simp
  simp only [a1, a2, a3, h3, h4, h5]
  simp

theorem check_quoted (q : Nat) (hq : q = 34 ∨ q = 39) (body : Str) (hb : body.contains q = false) (p : Option Nat) (K : Str) :
    St.check .quoted ⟨p, q :: (body ++ [q]) ++ K⟩ = some (q :: (body ++ [q]), ⟨some q, K⟩) := by
  have hm : matchRule .quoted p (q :: (body ++ [q]) ++ K) = some (q :: (body ++ [q])).length := by
    simpa [matchRule] using matchQuoted_hit q hq body K hb
  have := check_of_match .quoted p (q :: (body ++ [q])) K (by simp) hm
  rw [this]
  have : lastOr (q :: (body ++ [q])) none = some q := by
    rw [show q :: (body ++ [q]) = (q :: body) ++ [q] from rfl, lastOr_append]; rfl
  rw [this]

theorem check_lparen (p : Option Nat) (K : Str) : St.check .lparen ⟨p, 40 :: K⟩ = some ([40], ⟨some 40, K⟩) := by
  simp [St.check, match_lparen, lastOr]

theorem check_rparen (p : Option Nat) (K : Str) : St.check .rparen ⟨p, 41 :: K⟩ = some ([41], ⟨some 41, K⟩) := by
  simp [St.check, match_rparen, lastOr]

theorem check_end_nil (p : Option Nat) : St.check .end_ ⟨p, []⟩ = some ([], ⟨p, []⟩) := by
  simp [St.check, matchRule, matchEnd, lastOr]

/-- `$` also matches just before a final newline -/
theorem check_end_nl (p : Option Nat) : St.check .end_ ⟨p, [10]⟩ = some ([], ⟨p, [10]⟩) := by
  simp [St.check, matchRule, matchEnd, lastOr]

end MkLay
