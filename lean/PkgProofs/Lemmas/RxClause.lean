import PkgProofs.Lemmas.RxSpelling
import PkgModel.Specifier
/-!
# The spec regex `Pep440Rx.specifier` as a predicate on strings

Generic in the class table (`RxK.Ctx`).  `M ctx (Pep440Rx.specifier kinds) s` iff `s` is
white space, an operator, white space, a *body* the operator permits (`Body op`), white space; the
bodies of the seven version-taking operators are described through `Spelling` trees without surrounding
white space (`Core`).
-/
namespace RxK
open Rx Py V Spelling

/-- a tree of the version grammar without surrounding white space -/
def Core (sp : Spelling) : Prop := Grammar sp = true ∧ sp.ws1 = [] ∧ sp.ws2 = []

/-- what may follow the operator `op` (after optional white space) -/
def Body (op : S.Op) (body : Str) : Prop :=
  if op = .arbitrary then body.all S.isArbChar = true
  else
    (∃ sp, Core sp ∧ (sp.loc = none ∨ op = .eq ∨ op = .ne) ∧ (op = .compatible → sp.rels ≠ []) ∧ render sp = body) ∨
    ((op = .eq ∨ op = .ne) ∧
      ∃ sp, Core sp ∧ sp.pre = none ∧ sp.post = none ∧ sp.dev = none ∧ sp.loc = none ∧ render sp ++ [46, 42] = body)

/-- the kinds `[^\s;)]` ranges over, as a fact about `kindCI` -/
theorem arb_kind (cp : Nat) :
    ((List.range 70).filter fun k => !([Kinds.ws, Kinds.semi, Kinds.rpar].contains k)).contains (Kinds.kindCI cp) =
      S.isArbChar cp := by
  have hlow : ∀ cp, cp < 128 →
      ((List.range 70).filter fun k => !([Kinds.ws, Kinds.semi, Kinds.rpar].contains k)).contains (Kinds.kindCI cp) =
        S.isArbChar cp := by decide +kernel
  by_cases h : cp < 128
  · exact hlow cp h
  · rw [kindCI_high cp (by omega)]
    have : S.isArbChar cp = true := by
      simp [S.isArbChar, isWs]; omega
    rw [this]; decide

theorem body_public (op : S.Op) (h1 : op ≠ .arbitrary) (h2 : op ≠ .eq) (h3 : op ≠ .ne) (body : Str) :
    Body op body ↔
      ∃ sp, Core sp ∧ sp.loc = none ∧ (decide (op = .compatible) = true → sp.rels ≠ []) ∧ render sp = body := by
  unfold Body
  rw [if_neg h1]
  constructor
  · rintro (⟨sp, hc, hl, hne, hr⟩ | ⟨h, _⟩)
    · rcases hl with hl | hl | hl
      · exact ⟨sp, hc, hl, fun hd => hne (of_decide_eq_true hd), hr⟩
      · exact absurd hl h2
      · exact absurd hl h3
    · rcases h with h | h
      · exact absurd h h2
      · exact absurd h h3
  · rintro ⟨sp, hc, hl, hne, hr⟩
    exact .inl ⟨sp, hc, .inl hl, fun h => hne (decide_eq_true h), hr⟩

theorem body_eq (op : S.Op) (h : op = .eq ∨ op = .ne) (body : Str) :
    Body op body ↔ (∃ sp, Core sp ∧ render sp = body) ∨
      (∃ sp, Core sp ∧ sp.pre = none ∧ sp.post = none ∧ sp.dev = none ∧ sp.loc = none ∧ render sp ++ [46, 42] = body) := by
  have h1 : op ≠ .arbitrary := by rcases h with rfl | rfl <;> decide
  have h4 : op ≠ .compatible := by rcases h with rfl | rfl <;> decide
  unfold Body
  rw [if_neg h1]
  constructor
  · rintro (⟨sp, hc, _, _, hr⟩ | ⟨_, h⟩)
    · exact .inl ⟨sp, hc, hr⟩
    · exact .inr h
  · rintro (⟨sp, hc, hr⟩ | h')
    · exact .inl ⟨sp, hc, .inr h, fun hh => absurd hh h4, hr⟩
    · exact .inr ⟨h, h'⟩

namespace Ctx
variable (ctx : Ctx)

/-! ### forms -/

theorem M_release2 {s} :
    ctx.M (Kinds.seq [Pep440Rx.digits ctx.kinds,
      Rx.plus (Kinds.seq [Kinds.K ctx.kinds [Kinds.dot], Pep440Rx.digits ctx.kinds])]) s ↔
    ∃ (d : Digits) (ds : List Digits), digitsOk d = true ∧ ds.all digitsOk = true ∧ ds ≠ [] ∧ d ++ relRender ds = s := by
  simp only [Kinds.seq, Rx.plus, M_cat, M_digits, ctx.M_dotdigits]
  simp only [ctx.M_star_render (fun d : Digits => digitsOk d = true) (fun d => 46 :: d) ctx.M_dotdigits]
  constructor
  · rintro ⟨u, _, rfl, hu, _, _, rfl, ⟨d1, hd1, rfl⟩, ds, hds, rfl⟩
    refine ⟨u, d1 :: ds, hu, ?_, by simp, by simp [relRender, relRender_eq]⟩
    simp only [List.all_cons, Bool.and_eq_true, List.all_eq_true]
    exact ⟨hd1, hds⟩
  · rintro ⟨d, ds, hd, hds, hne, rfl⟩
    cases ds with
    | nil => exact absurd rfl hne
    | cons d1 ds =>
      simp only [List.all_cons, Bool.and_eq_true, List.all_eq_true] at hds
      exact ⟨d, _, rfl, hd, 46 :: d1, _, by simp [relRender], ⟨d1, hds.1, rfl⟩, ds, hds.2, (relRender_eq ds).symm⟩

theorem M_publicForm {b : Bool} {s} : ctx.M (Pep440Rx.publicForm ctx.kinds b) s ↔
    ∃ sp, Core sp ∧ sp.loc = none ∧ (b = true → sp.rels ≠ []) ∧ render sp = s := by
  have hpre := fun s => ctx.M_opt_render (s := s) (Group.ok PreWord.text) Group.render (fun p => ctx.M_pre)
  have hpost := fun s => ctx.M_opt_render (s := s) Post.ok Post.render (fun p => ctx.M_post)
  have hdev := fun s => ctx.M_opt_render (s := s) (Group.ok (fun _ : Unit => devText)) Group.render (fun p => ctx.M_dev)
  have hrel : ∀ u, ctx.M (if b = true then Kinds.seq [Pep440Rx.digits ctx.kinds,
        Rx.plus (Kinds.seq [Kinds.K ctx.kinds [Kinds.dot], Pep440Rx.digits ctx.kinds])]
        else Pep440Rx.release ctx.kinds) u ↔
      ∃ (d : Digits) (ds : List Digits), digitsOk d = true ∧ ds.all digitsOk = true ∧ (b = true → ds ≠ []) ∧
        d ++ relRender ds = u := by
    intro u
    cases b with
    | true =>
      simp only [if_true, ctx.M_release2, true_implies]
    | false =>
      simp only [Bool.false_eq_true, if_false, ctx.M_release, false_implies, true_and]
  rw [Pep440Rx.publicForm]
  generalize hR : (if b = true then Kinds.seq [Pep440Rx.digits ctx.kinds,
        Rx.plus (Kinds.seq [Kinds.K ctx.kinds [Kinds.dot], Pep440Rx.digits ctx.kinds])]
        else Pep440Rx.release ctx.kinds) = REL at hrel
  simp only [Kinds.seq, M_cat, M_v, M_epoch, hrel, hpre, hpost, hdev]
  constructor
  · rintro ⟨_, _, rfl, ⟨v, hv, rfl⟩, _, _, rfl, ⟨ep, hep, rfl⟩, _, _, rfl,
      ⟨rel0, rels, hrel0, hrels, hne, rfl⟩, _, _, rfl, ⟨pre, hpre', rfl⟩, _, _, rfl, ⟨post, hpost', rfl⟩,
      dev, hdev', rfl⟩
    refine ⟨⟨[], v, ep, rel0, rels, pre, post, dev, none, []⟩, ⟨?_, rfl, rfl⟩, rfl, hne, by simp [render, optR]⟩
    simp only [Grammar, Bool.and_eq_true]
    exact ⟨⟨⟨⟨⟨⟨⟨⟨⟨rfl, rfl⟩, hv⟩, hep⟩, hrel0⟩, hrels⟩, hpre'⟩, hpost'⟩, hdev'⟩, rfl⟩
  · rintro ⟨⟨ws1, v, ep, rel0, rels, pre, post, dev, loc, ws2⟩, ⟨hg, h1, h2⟩, hl, hne, rfl⟩
    cases h1; cases h2; cases hl
    simp only [Grammar, Bool.and_eq_true] at hg
    obtain ⟨⟨⟨⟨⟨⟨⟨⟨⟨_, _⟩, hv⟩, hep⟩, hrel0⟩, hrels⟩, hpre'⟩, hpost'⟩, hdev'⟩, _⟩ := hg
    have e : render ⟨[], v, ep, rel0, rels, pre, post, dev, none, []⟩ =
        optR (fun c => [c]) v ++ (optR (fun d => d ++ [33]) ep ++ ((rel0 ++ relRender rels) ++
          (optR Group.render pre ++ (optR Post.render post ++ optR Group.render dev)))) := by
      simp [render, optR]
    rw [e]
    exact ⟨_, _, rfl, ⟨v, hv, rfl⟩, _, _, rfl, ⟨ep, hep, rfl⟩, _, _, rfl,
      ⟨rel0, rels, hrel0, hrels, hne, rfl⟩, _, _, rfl, ⟨pre, hpre', rfl⟩, _, _, rfl, ⟨post, hpost', rfl⟩,
      dev, hdev', rfl⟩

theorem M_eqForm {s} : ctx.M (Pep440Rx.eqForm ctx.kinds) s ↔
    (∃ sp, Core sp ∧ render sp = s) ∨
    (∃ sp, Core sp ∧ sp.pre = none ∧ sp.post = none ∧ sp.dev = none ∧ sp.loc = none ∧ render sp ++ [46, 42] = s) := by
  have hpre := fun s => ctx.M_opt_render (s := s) (Group.ok PreWord.text) Group.render (fun p => ctx.M_pre)
  have hpost := fun s => ctx.M_opt_render (s := s) Post.ok Post.render (fun p => ctx.M_post)
  have hdev := fun s => ctx.M_opt_render (s := s) (Group.ok (fun _ : Unit => devText)) Group.render (fun p => ctx.M_dev)
  have hloc := fun s => ctx.M_opt_render (s := s) Local.ok Local.render (fun p => ctx.M_local)
  rw [Pep440Rx.eqForm]
  simp only [Kinds.seq, Kinds.alts, M_cat, M_alt, M_v, M_epoch, M_release, hpre, hpost, hdev, hloc,
    ctx.M_K' kp_dot, ctx.M_K' kp_star]
  constructor
  · rintro ⟨_, _, rfl, ⟨v, hv, rfl⟩, _, _, rfl, ⟨ep, hep, rfl⟩, _, _, rfl, ⟨rel0, rels, hrel0, hrels, rfl⟩, htail⟩
    rcases htail with ⟨_, _, rfl, ⟨c1, rfl, hc1⟩, c2, rfl, hc2⟩ |
      ⟨_, _, rfl, ⟨pre, hpre', rfl⟩, _, _, rfl, ⟨post, hpost', rfl⟩, _, _, rfl, ⟨dev, hdev', rfl⟩, loc, hloc', rfl⟩
    · simp only [beq_iff_eq] at hc1 hc2; subst hc1 hc2
      refine .inr ⟨⟨[], v, ep, rel0, rels, none, none, none, none, []⟩, ⟨?_, rfl, rfl⟩, rfl, rfl, rfl, rfl,
        by simp [render, optR]⟩
      simp only [Grammar, Bool.and_eq_true]
      exact ⟨⟨⟨⟨⟨⟨⟨⟨⟨rfl, rfl⟩, hv⟩, hep⟩, hrel0⟩, hrels⟩, rfl⟩, rfl⟩, rfl⟩, rfl⟩
    · refine .inl ⟨⟨[], v, ep, rel0, rels, pre, post, dev, loc, []⟩, ⟨?_, rfl, rfl⟩, by simp [render]⟩
      simp only [Grammar, Bool.and_eq_true]
      exact ⟨⟨⟨⟨⟨⟨⟨⟨⟨rfl, rfl⟩, hv⟩, hep⟩, hrel0⟩, hrels⟩, hpre'⟩, hpost'⟩, hdev'⟩, hloc'⟩
  · rintro (⟨⟨ws1, v, ep, rel0, rels, pre, post, dev, loc, ws2⟩, ⟨hg, h1, h2⟩, rfl⟩ |
      ⟨⟨ws1, v, ep, rel0, rels, pre, post, dev, loc, ws2⟩, ⟨hg, h1, h2⟩, h3, h4, h5, h6, rfl⟩)
    · cases h1; cases h2
      simp only [Grammar, Bool.and_eq_true] at hg
      obtain ⟨⟨⟨⟨⟨⟨⟨⟨⟨_, _⟩, hv⟩, hep⟩, hrel0⟩, hrels⟩, hpre'⟩, hpost'⟩, hdev'⟩, hloc'⟩ := hg
      have e : render ⟨[], v, ep, rel0, rels, pre, post, dev, loc, []⟩ =
          optR (fun c => [c]) v ++ (optR (fun d => d ++ [33]) ep ++ ((rel0 ++ relRender rels) ++
            (optR Group.render pre ++ (optR Post.render post ++ (optR Group.render dev ++ optR Local.render loc))))) := by
        simp [render]
      rw [e]
      exact ⟨_, _, rfl, ⟨v, hv, rfl⟩, _, _, rfl, ⟨ep, hep, rfl⟩, _, _, rfl,
        ⟨rel0, rels, hrel0, hrels, rfl⟩, .inr ⟨_, _, rfl, ⟨pre, hpre', rfl⟩, _, _, rfl, ⟨post, hpost', rfl⟩,
          _, _, rfl, ⟨dev, hdev', rfl⟩, loc, hloc', rfl⟩⟩
    · cases h1; cases h2; cases h3; cases h4; cases h5; cases h6
      simp only [Grammar, Bool.and_eq_true] at hg
      obtain ⟨⟨⟨⟨⟨⟨⟨⟨⟨_, _⟩, hv⟩, hep⟩, hrel0⟩, hrels⟩, _⟩, _⟩, _⟩, _⟩ := hg
      have e : render ⟨[], v, ep, rel0, rels, none, none, none, none, []⟩ ++ [46, 42] =
          optR (fun c => [c]) v ++ (optR (fun d => d ++ [33]) ep ++ ((rel0 ++ relRender rels) ++ ([46] ++ [42]))) := by
        simp [render, optR]
      rw [e]
      exact ⟨_, _, rfl, ⟨v, hv, rfl⟩, _, _, rfl, ⟨ep, hep, rfl⟩, _, _, rfl,
        ⟨rel0, rels, hrel0, hrels, rfl⟩, .inl ⟨[46], [42], rfl, ⟨46, rfl, by decide⟩, 42, rfl, by decide⟩⟩

theorem M_arbitraryForm {s} : ctx.M (Pep440Rx.arbitraryForm ctx.kinds) s ↔
    (∀ c ∈ s, c < 0x110000) ∧ s.all S.isArbChar = true := by
  have e : Pep440Rx.arbitraryForm ctx.kinds = R.star (Kinds.K ctx.kinds
      ((List.range 70).filter fun k => !([Kinds.ws, Kinds.semi, Kinds.rpar].contains k))) := rfl
  rw [e, ctx.M_star_Kany]
  simp only [arb_kind, List.all_eq_true]
  exact ⟨fun h => ⟨fun c hc => (h c hc).1, fun c hc => (h c hc).2⟩, fun h c hc => ⟨h.1 c hc, h.2 c hc⟩⟩

/-! ### clauses -/

/-- the regex of the operator -/
def opRx (op : S.Op) : R :=
  match op with
  | .compatible => Pep440Rx.opw ctx.kinds [Kinds.tilde, Kinds.eq]
  | .eq => Pep440Rx.opw ctx.kinds [Kinds.eq, Kinds.eq]
  | .ne => Pep440Rx.opw ctx.kinds [Kinds.bang, Kinds.eq]
  | .le => Pep440Rx.opw ctx.kinds [Kinds.lt, Kinds.eq]
  | .ge => Pep440Rx.opw ctx.kinds [Kinds.gt, Kinds.eq]
  | .lt => Pep440Rx.opw ctx.kinds [Kinds.lt]
  | .gt => Pep440Rx.opw ctx.kinds [Kinds.gt]
  | .arbitrary => Pep440Rx.opw ctx.kinds [Kinds.eq, Kinds.eq, Kinds.eq]

/-- the regex of what the operator permits after it -/
def formRx (op : S.Op) : R :=
  match op with
  | .compatible => Pep440Rx.publicForm ctx.kinds true
  | .eq | .ne => Pep440Rx.eqForm ctx.kinds
  | .le | .ge | .lt | .gt => Pep440Rx.publicForm ctx.kinds false
  | .arbitrary => Pep440Rx.arbitraryForm ctx.kinds

theorem M_specifier_ops {s} : ctx.M (Pep440Rx.specifier ctx.kinds) s ↔
    ∃ op : S.Op, ctx.M (Pep440Rx.clause ctx.kinds (ctx.opRx op) (ctx.formRx op)) s := by
  simp only [Pep440Rx.specifier, Pep440Rx.specOps, List.map, Pep440Rx.clauseFor, Kinds.alts, M_alt]
  constructor
  · rintro (h | h | h | h | h | h | h | h)
    · exact ⟨.compatible, h⟩
    · exact ⟨.eq, h⟩
    · exact ⟨.ne, h⟩
    · exact ⟨.le, h⟩
    · exact ⟨.ge, h⟩
    · exact ⟨.lt, h⟩
    · exact ⟨.gt, h⟩
    · exact ⟨.arbitrary, h⟩
  · rintro ⟨op, h⟩
    cases op <;> simp only [opRx, formRx] at h <;> simp [h]

theorem M_opRx (op : S.Op) (s : Str) : ctx.M (ctx.opRx op) s ↔ s = op.str := by
  have hc := fun l hl => ctx.M_chars l hl s
  cases op
  · exact (hc [(Kinds.tilde, 126), (Kinds.eq, 61)] (by
      intro p hp; simp at hp; rcases hp with rfl | rfl; exact kp_tilde; exact kp_eq))
  · exact (hc [(Kinds.eq, 61), (Kinds.eq, 61)] (by
      intro p hp; simp at hp; rcases hp with rfl; exact kp_eq))
  · exact (hc [(Kinds.bang, 33), (Kinds.eq, 61)] (by
      intro p hp; simp at hp; rcases hp with rfl | rfl; exact kp_bang; exact kp_eq))
  · exact (hc [(Kinds.lt, 60), (Kinds.eq, 61)] (by
      intro p hp; simp at hp; rcases hp with rfl | rfl; exact kp_lt; exact kp_eq))
  · exact (hc [(Kinds.gt, 62), (Kinds.eq, 61)] (by
      intro p hp; simp at hp; rcases hp with rfl | rfl; exact kp_gt; exact kp_eq))
  · exact (hc [(Kinds.lt, 60)] (by intro p hp; simp at hp; rcases hp with rfl; exact kp_lt))
  · exact (hc [(Kinds.gt, 62)] (by intro p hp; simp at hp; rcases hp with rfl; exact kp_gt))
  · exact (hc [(Kinds.eq, 61), (Kinds.eq, 61), (Kinds.eq, 61)] (by
      intro p hp; simp at hp; rcases hp with rfl; exact kp_eq))

theorem M_formRx (op : S.Op) (s : Str) : ctx.M (ctx.formRx op) s ↔ (∀ c ∈ s, c < 0x110000) ∧ Body op s := by
  have hvalid : ∀ r, ctx.M r s → ∀ c ∈ s, c < 0x110000 := fun r h => h.1
  by_cases ha : op = .arbitrary
  · subst ha
    simp only [formRx, M_arbitraryForm, Body, if_true]
  by_cases he : op = .eq ∨ op = .ne
  · have e : ctx.formRx op = Pep440Rx.eqForm ctx.kinds := by rcases he with rfl | rfl <;> rfl
    rw [e, body_eq op he, ← M_eqForm]
    exact ⟨fun h => ⟨hvalid _ h, h⟩, fun h => h.2⟩
  · have h2 : op ≠ .eq := fun h => he (.inl h)
    have h3 : op ≠ .ne := fun h => he (.inr h)
    have e : ctx.formRx op = Pep440Rx.publicForm ctx.kinds (decide (op = .compatible)) := by
      cases op <;> first | rfl | exact absurd rfl ha | exact absurd rfl h2 | exact absurd rfl h3
    rw [e, body_public op ha h2 h3, ← M_publicForm]
    exact ⟨fun h => ⟨hvalid _ h, h⟩, fun h => h.2⟩

/-- **the specifier regex, read as a predicate on strings** -/
theorem M_specifier_iff {s} (hs : ∀ c ∈ s, c < 0x110000) : ctx.M (Pep440Rx.specifier ctx.kinds) s ↔
    ∃ (op : S.Op) (w1 w2 body w3 : Str), w1.all isSpace = true ∧ w2.all isSpace = true ∧ w3.all isSpace = true ∧
      Body op body ∧ s = w1 ++ (op.str ++ (w2 ++ (body ++ w3))) := by
  rw [M_specifier_ops]
  simp only [Pep440Rx.clause, Kinds.seq, M_cat, M_ws, M_opRx, M_formRx]
  constructor
  · rintro ⟨op, w1, _, rfl, hw1, _, _, rfl, rfl, w2, _, rfl, hw2, body, w3, rfl, ⟨_, hb⟩, hw3⟩
    exact ⟨op, w1, w2, body, w3, hw1, hw2, hw3, hb, rfl⟩
  · rintro ⟨op, w1, w2, body, w3, hw1, hw2, hw3, hb, rfl⟩
    refine ⟨op, w1, _, rfl, hw1, _, _, rfl, rfl, w2, _, rfl, hw2, body, w3, rfl, ⟨?_, hb⟩, hw3⟩
    intro c hc
    exact hs c (by simp [hc])

end Ctx
end RxK
