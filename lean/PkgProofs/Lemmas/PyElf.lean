import PkgModel.PyElf
import PkgModel.PyPlat
import PkgProofs.Lemmas.PyRt
/-!
# Run-time primitives of the translated `ELFFile` (`PkgModel/PyElf.lean`) on the embedded values

`bytes` / `BytesIO` values built by `ofBytes` / `fileOf` from byte lists (every number below 256) are read back by
`bytesOf` / `fileParts`; `read_struct`, `seek`, `read` on an instance whose first attribute is `_f`.
-/
namespace PyElf
open Py PyRt Elf

/-! ### what `do` notation leaves behind for mutable locals across `try` (a `StateT` layer) and for `return` inside
`try` / `for` (an `ExceptT` layer) -/

theorem stateT_pure_apply {σ α : Type} (a : α) (s : σ) : (pure a : StateT σ M α) s = .ok (a, s) := by rfl
theorem earlyReturn_eq {ρ α : Type} (r : ρ) :
    (EarlyReturnT.return r : EarlyReturnT ρ M α) = (Except.ok (Except.error r) : M (Except ρ α)) := by rfl
theorem runK_ok {ρ α β : Type} (a : α) (ret : ρ → β) (k : α → β) : EarlyReturn.runK (Except.ok a) ret k = k a := by rfl
theorem runK_error {ρ α β : Type} (r : ρ) (ret : ρ → β) (k : α → β) : EarlyReturn.runK (Except.error r) ret k = ret r := by
  rfl
theorem exceptT_run_pure {ρ α : Type} (a : α) :
    ExceptT.run (pure a : ExceptT ρ M α) = (Except.ok (Except.ok a) : M (Except ρ α)) := by rfl

theorem cont_run_pure {σ α : Type} (a : α) (s : σ) :
    (OptionT.run (pure a : OptionT (StateT σ M) α)) s = .ok (some a, s) := by rfl
theorem cont_continue {σ α : Type} (s : σ) : (ContinueT.continue : ContinueT (StateT σ M) α) s = .ok (none, s) := by rfl
theorem exceptT_stateT_pure {ρ σ α : Type} (a : α) (s : σ) :
    ExceptT.run ((pure a : StateT σ (ExceptT ρ M) α) s) = (.ok (.ok (a, s)) : M (Except ρ (α × σ))) := by rfl

theorem mul_int (a b : Int) : mul (.int a) (.int b) = .ok (.int (a * b)) := by rfl

/-! ### `range(n)` -/

/-- the items of `range(n)` from `i` on: `n` consecutive ints -/
def natItems : Nat → Nat → List PyVal
  | _, 0 => []
  | i, n + 1 => .int (i : Int) :: natItems (i + 1) n

theorem rangeUp_nat (n i : Nat) : rangeUp n (i : Int) ((i + n : Nat) : Int) 1 = natItems i n := by
  induction n generalizing i with
  | zero => rfl
  | succ k ih =>
    have h1 : (i : Int) < ((i + 1 + k : Nat) : Int) := by omega
    have h2 : (i : Int) + 1 = ((i + 1 : Nat) : Int) := by omega
    have h3 : i + (k + 1) = (i + 1) + k := by omega
    simp only [rangeUp, natItems, h2, h3, ih (i + 1), h1, if_true]

theorem range1_nat (n : Nat) : range1 (.int (n : Int)) = .ok (.iter (natItems 0 n)) := by
  have := rangeUp_nat n 0
  simp only [Nat.zero_add, Int.natCast_zero] at this
  simp [range1, range3, this]

/-- the embedding of a list of naturals as a list of Python ints -/
abbrev ints (l : List Nat) : List PyVal := l.map fun (n : Nat) => PyVal.int n

theorem natsOf_ints (b : List Nat) (hb : ∀ x ∈ b, x < 256) : natsOf (ints b) = some b := by
  induction b with
  | nil => rfl
  | cons x xs ih =>
    have hx : x < 256 := hb x (List.mem_cons_self ..)
    have h0 : (0 : Int) ≤ (x : Int) ∧ (x : Int) < 256 := by omega
    simp only [ints, List.map_cons, natsOf, h0, and_self, if_true]
    have := ih (fun y hy => hb y (List.mem_cons_of_mem _ hy))
    simp only [ints] at this
    simp [this]

theorem bytesOf_ofBytes (b : List Nat) (hb : ∀ x ∈ b, x < 256) : bytesOf (ofBytes b) = some b := by
  simp only [ofBytes, bytesOf]; exact natsOf_ints b hb

theorem fileParts_fileOf (f : List Nat) (pos : Nat) (hb : ∀ x ∈ f, x < 256) : fileParts (fileOf f pos) = some (f, pos) := by
  simp [fileOf, fileParts, bytesOf_ofBytes f hb]

theorem eqList_ints (a b : List Nat) : eqList (ints a) (ints b) = (a == b) := by
  induction a generalizing b with
  | nil => cases b <;> simp [eqList, ints]
  | cons x xs ih =>
    cases b with
    | nil => simp [eqList, ints]
    | cons y ys =>
      have := ih ys
      simp only [ints] at this
      simp only [ints, List.map_cons, eqList, eq_int, this]
      by_cases h : x = y
      · subst h; simp
      · have : ((x : Int) == (y : Int)) = false := by simp; omega
        simp [this, h]

/-- `==` on two `bytes` values -/
theorem eq_ofBytes (a b : List Nat) : PyVal.eq (ofBytes a) (ofBytes b) = (a == b) := by
  have := eqList_ints a b
  simp only [ints] at this
  simp [ofBytes, PyVal.eq, eqFields, this]

theorem mem_readAt (f : Bytes) (p n x : Nat) (h : x ∈ readAt f p n) : x ∈ f :=
  List.mem_of_mem_drop (List.mem_of_mem_take h)

theorem readAt_length_le (f : Bytes) (p n : Nat) : (readAt f p n).length ≤ n := by
  simp only [readAt, List.length_take]; omega

/-! ### `struct.unpack` -/

theorem unpackNum_single (le : Bool) (b : Nat) : unpackNum le [b] = b := by
  cases le <;> simp [unpackNum, beNat, leNat]

/-- `"nB"`: the bytes themselves -/
theorem unpackFields_ones (le : Bool) (n : Nat) (d : Bytes) (h : d.length = n) :
    unpackFields le (List.replicate n 1) d = d := by
  induction n generalizing d with
  | zero => cases d <;> simp_all [unpackFields]
  | succ k ih =>
    cases d with
    | nil => simp at h
    | cons b bs =>
      simp only [List.replicate_succ, unpackFields, List.take_succ_cons, List.take_zero, unpackNum_single,
        List.drop_succ_cons, List.drop_zero]
      rw [ih bs (by simpa using h)]

theorem sum_replicate_one (n : Nat) : (List.replicate n 1).sum = n := by
  induction n with
  | zero => rfl
  | succ k ih => simp [List.replicate_succ, ih]; omega

theorem unpack_ones (le : Bool) (n : Nat) (d : Bytes) :
    Elf.unpack le (List.replicate n 1) d = if d.length = n then some d else Option.none := by
  simp only [Elf.unpack, sum_replicate_one, beq_iff_eq]
  by_cases h : d.length = n
  · simp [h, unpackFields_ones le n d h]
  · simp [h]

theorem unpackFields_length (le : Bool) (sizes : List Nat) (d : Bytes) : (unpackFields le sizes d).length = sizes.length := by
  induction sizes generalizing d with
  | nil => rfl
  | cons n ns ih => simp [unpackFields, ih]

theorem unpack_length (le : Bool) (sizes : List Nat) (d : Bytes) (fields : List Nat)
    (h : Elf.unpack le sizes d = some fields) : fields.length = sizes.length := by
  simp only [Elf.unpack] at h
  split at h
  · cases h; exact unpackFields_length ..
  · cases h

/-! ### tuples of ints -/

theorem getitem_ints (l : List Nat) (i : Nat) (h : i < l.length) :
    getitem (.tuple (ints l)) (.int (i : Int)) = .ok (.int (l.getD i 0)) := by
  have h0 : (0 : Int) ≤ (i : Int) := by omega
  simp only [getitem, asInt, normIndex, h0, if_true, Int.toNat_natCast, List.length_map, h, pure_ok, ints]
  rw [List.getD_eq_getElem?_getD, List.getD_eq_getElem?_getD, List.getElem?_map]
  simp [List.getElem?_eq_getElem h]

theorem getitem_ints_out (l : List Nat) (i : Nat) (h : ¬ i < l.length) :
    getitem (.tuple (ints l)) (.int (i : Int)) = .error indexError := by
  have h0 : (0 : Int) ≤ (i : Int) := by omega
  simp only [getitem, asInt, normIndex, h0, if_true, Int.toNat_natCast, List.length_map, h, if_false, ints, throw_err]

/-! ### the file object in `self._f` -/

theorem read_struct_obj (c : String) (rest : List (String × PyVal)) (f : Bytes) (pos : Nat) (s : Str) (le : Bool)
    (sizes : List Nat) (hb : ∀ x ∈ f, x < 256) (hs : fmtSizes s = some (le, sizes)) :
    read_struct (.obj c (("_f", fileOf f pos) :: rest)) (.str s) =
      match Elf.unpack le sizes (readAt f pos sizes.sum) with
      | Option.none => .error structError
      | some fields => .ok (.tuple [.tuple (ints fields),
          .obj c (("_f", fileOf f (pos + (readAt f pos sizes.sum).length)) :: rest)]) := by
  simp only [read_struct, getattr_obj, lookupField_cons, beq_self_eq_true, if_true, ok_bind, fileParts_fileOf f pos hb, hs]
  cases Elf.unpack le sizes (readAt f pos sizes.sum) with
  | none => rfl
  | some fields => simp [setattr, setField, ints]

theorem seek_obj (c : String) (rest : List (String × PyVal)) (f : Bytes) (pos : Nat) (o : Nat) (hb : ∀ x ∈ f, x < 256) :
    seek (.obj c (("_f", fileOf f pos) :: rest)) (.int (o : Int)) =
      if o > ssizeMax then .error "OverflowError" else .ok (.obj c (("_f", fileOf f o) :: rest)) := by
  have h0 : ¬ ((o : Int) < 0) := by omega
  simp only [seek, getattr_obj, lookupField_cons, beq_self_eq_true, if_true, ok_bind, fileParts_fileOf f pos hb, asInt, h0,
    if_false, Int.toNat_natCast, setattr, setField, pure_ok, throw_err]

theorem read_obj (c : String) (rest : List (String × PyVal)) (f : Bytes) (pos : Nat) (n : Nat) (hb : ∀ x ∈ f, x < 256) :
    read (.obj c (("_f", fileOf f pos) :: rest)) (.int (n : Int)) =
      if n > ssizeMax then .error "OverflowError" else .ok (ofBytes (readAt f pos n)) := by
  have h0 : ¬ ((n : Int) < 0) := by omega
  simp only [read, getattr_obj, lookupField_cons, beq_self_eq_true, if_true, ok_bind, fileParts_fileOf f pos hb, asInt, h0,
    if_false, Int.toNat_natCast, pure_ok, throw_err]

theorem fsdecode_ofBytes (b : List Nat) (hb : ∀ x ∈ b, x < 256) :
    fsdecode (ofBytes b) = if b.all (· < 128) then .ok (.str b) else .error "PyRtUnsupported" := by
  simp only [fsdecode, bytesOf_ofBytes b hb, pure_ok, throw_err]

/-- `bytes(t)` of a tuple of small ints -/
theorem bytes_of_tuple_ints (b : List Nat) (hb : ∀ x ∈ b, x < 256) : bytes_of (.tuple (ints b)) = .ok (ofBytes b) := by
  simp only [bytes_of, iterate_tuple, ok_bind, natsOf_ints b hb, pure_ok]

/-! ### objects, tuples, tables -/

theorem setattr_obj (c fs n v) : setattr (.obj c fs) n v = .ok (.obj c (setField fs n v)) := by rfl

theorem unpack_n_tuple (l : List PyVal) (n : Int) (h : l.length = n.toNat) :
    PyPlat.unpack_n (.tuple l) (.int n) = .ok (.tuple l) := by
  simp [PyPlat.unpack_n, PyRt.unpack, h]

theorem mem_of_lookup {α β} [BEq α] [LawfulBEq α] (k : α) (v : β) (l : List (α × β)) (h : l.lookup k = some v) :
    (k, v) ∈ l := by
  induction l with
  | nil => simp at h
  | cons p ps ih =>
    obtain ⟨a, b⟩ := p
    simp only [List.lookup_cons] at h
    by_cases hk : (k == a) = true
    · simp only [hk] at h
      have : k = a := by simpa using hk
      cases h; subst this; simp
    · have hk' : (k == a) = false := by simpa using hk
      simp only [hk'] at h
      exact List.mem_cons_of_mem _ (ih h)

theorem getitem_tuple_two (x y z : PyVal) (l : List PyVal) : getitem (.tuple (x :: y :: z :: l)) (.int 2) = .ok z := by
  simp [getitem, asInt, normIndex]

theorem pair_beq (a b c d : Nat) : ((a, b) == (c, d)) = (a == c && b == d) := by rfl

/-! ### `.strip("\0")` -/

theorem all_dropWhile (p q : Nat → Bool) (hpq : ∀ x, p x = true → q x = true) (l : List Nat) :
    (l.dropWhile p).all q = l.all q := by
  induction l with
  | nil => rfl
  | cons x xs ih =>
    simp only [List.dropWhile_cons]
    by_cases hx : p x = true
    · simp only [hx, if_true, ih, List.all_cons, hpq x hx, Bool.true_and]
    · simp [hx]

/-- stripping characters that satisfy `q` anyway does not change whether all characters satisfy `q` -/
theorem all_stripBy (p q : Nat → Bool) (hpq : ∀ x, p x = true → q x = true) (l : List Nat) :
    (stripBy p l).all q = l.all q := by
  simp only [stripBy, List.all_reverse, all_dropWhile p q hpq]

theorem stripBy_congr (p p' : Nat → Bool) (h : ∀ x, p x = p' x) (l : List Nat) : stripBy p l = stripBy p' l := by
  have : p = p' := funext h
  rw [this]

/-- the `str` method with `"\0"` is the model's `stripNul` -/
theorem str_strip_nul (s : Str) : str_strip_chars (.str s) (.str [0]) = .ok (.str (stripNul s)) := by
  simp only [str_strip_chars, pure_ok, stripNul]
  congr 2
  apply stripBy_congr
  intro x; by_cases h : x = 0 <;> simp [h]

/-- the ASCII test of `os.fsdecode` on the raw bytes is the test on the stripped bytes -/
theorem all_ascii_stripNul (b : Bytes) : (stripNul b).all (· < 128) = b.all (· < 128) := by
  apply all_stripBy
  intro x hx
  have : x = 0 := by simpa using hx
  subst this; decide

end PyElf
