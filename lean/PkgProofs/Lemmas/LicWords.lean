import PkgProofs.Lemmas.LicLex
import PkgProofs.Props.C19.Tables
/-!
# Identifier look-ups: the implementation's dictionary access on lower-cased tokens agrees with the
statement's "official spelling of the entry that matches up to ASCII case"
-/
namespace LicW
open Py Lic Spdx LicL

abbrev Entry := Gen.SpdxTables.Entry

/-! ### small string facts -/

theorem beq_comm_str (a b : Str) : (a == b) = (b == a) := by
  cases h : a == b <;> cases h' : b == a <;> simp_all

theorem startsWith_eq_take (s p : Str) : startsWith s p = (s.take p.length == p) := by
  induction p generalizing s with
  | nil => cases s <;> simp [startsWith]
  | cons x xs ih =>
    cases s with
    | nil => simp [startsWith]
    | cons c cs =>
      simp only [startsWith, ih, List.length_cons, List.take_succ_cons]
      cases h1 : c == x <;> cases h2 : (List.take xs.length cs == xs) <;> simp_all

theorem startsWith_append (p r : Str) : startsWith (p ++ r) p = true := by
  induction p with
  | nil => cases r <;> simp [startsWith]
  | cons x xs ih => simp [startsWith, ih]

theorem startsWith_split {s p : Str} (h : startsWith s p = true) : ∃ r, s = p ++ r := by
  induction p generalizing s with
  | nil => exact ⟨s, rfl⟩
  | cons x xs ih =>
    cases s with
    | nil => simp [startsWith] at h
    | cons c cs =>
      simp only [startsWith, Bool.and_eq_true, beq_iff_eq] at h
      obtain ⟨r, hr⟩ := ih h.2
      exact ⟨r, by rw [h.1, hr]; rfl⟩

theorem endsWith_single (s : Str) (c : Nat) : endsWith s [c] = (s.getLast? == some c) := by
  unfold endsWith
  rw [List.getLast?_eq_head?_reverse]
  cases s.reverse with
  | nil => simp [startsWith]
  | cons x xs => simp [startsWith]

theorem lowerAscii_eq_43 (c : Nat) : lowerAscii c = 43 ↔ c = 43 := by
  unfold lowerAscii isUpperAscii
  split
  · rename_i h; simp only [Bool.and_eq_true, decide_eq_true_eq] at h; omega
  · simp

theorem getLast_lower (w : Str) : ((lowerStr w).getLast? == some 43) = (w.getLast? == some 43) := by
  unfold lowerStr
  rw [List.getLast?_map]
  cases w.getLast? with
  | none => rfl
  | some x =>
    simp only [Option.map_some]
    have := lowerAscii_eq_43 x
    cases h1 : (some (lowerAscii x) == some 43) <;> cases h2 : (some x == some 43) <;> simp_all

theorem dropLast_lower (w : Str) : (lowerStr w).dropLast = lowerStr w.dropLast := by
  simp [lowerStr, List.map_dropLast]

theorem take_lower (w : Str) (n : Nat) : (lowerStr w).take n = lowerStr (w.take n) := by
  simp [lowerStr, List.map_take]

/-! ### tables -/

theorem entry_of_all {tbl : List Entry} (h : tbl.all C19.entryOk = true) {e : Entry} (he : e ∈ tbl) :
    e.1 = lowerStr e.2.1 ∧ e.2.1 ≠ [] ∧ e.2.1.all C19.idChar = true ∧
    e.1 ≠ kOr ∧ e.1 ≠ kAnd ∧ e.1 ≠ kWith ∧ startsWith e.1 kRefLower = false := by
  have := List.all_eq_true.mp h e he
  simp only [C19.entryOk, Bool.and_eq_true, Bool.not_eq_true', Bool.or_eq_false_iff, beq_iff_eq,
    beq_eq_false_iff_ne, ne_eq, List.isEmpty_eq_false_iff] at this
  obtain ⟨⟨⟨⟨h1, h2⟩, h3⟩, ⟨h4, h5⟩, h6⟩, h7⟩ := this
  exact ⟨h1, h2, h3, h4, h5, h6, h7⟩

/-- dictionary look-up by the lower-cased token = search by id up to ASCII case -/
theorem findId_eq_official (tbl : List Entry) (h : tbl.all C19.entryOk = true) (w : Str) :
    findId tbl (lowerStr w) = officialId tbl w := by
  induction tbl with
  | nil => rfl
  | cons e r ih =>
    have he := (entry_of_all h (List.mem_cons_self)).1
    have hr : r.all C19.entryOk = true := by
      simp only [List.all_cons, Bool.and_eq_true] at h; exact h.2
    obtain ⟨k, id, dep⟩ := e
    simp only at he
    simp only [findId, officialId, List.lookup, List.find?] at ih ⊢
    rw [he, beq_comm_str (lowerStr w) (lowerStr id)]
    cases hb : lowerStr id == lowerStr w with
    | true => simp
    | false => simpa using ih hr

theorem official_mem {tbl : List Entry} {w id : Str} (h : officialId tbl w = some id) :
    ∃ e ∈ tbl, e.2.1 = id ∧ lowerStr id = lowerStr w := by
  unfold officialId at h
  cases hf : tbl.find? (fun e => lowerStr e.2.1 == lowerStr w) with
  | none => simp [hf] at h
  | some e =>
    simp only [hf, Option.map_some, Option.some.injEq] at h
    have h1 := List.find?_some hf
    have h2 := List.mem_of_find?_eq_some hf
    simp only [beq_iff_eq] at h1
    exact ⟨e, h2, h, by rw [← h]; exact h1⟩

/-- the search only depends on the word up to ASCII case -/
theorem official_congr (tbl : List Entry) {w w' : Str} (h : lowerStr w = lowerStr w') :
    officialId tbl w = officialId tbl w' := by
  unfold officialId; rw [h]

/-- no table id is `LicenseRef-…` in any case -/
theorem official_not_ref {tbl : List Entry} (ht : tbl.all C19.entryOk = true) {w id : Str}
    (h : officialId tbl w = some id) : startsWith (lowerStr w) kRefLower = false := by
  obtain ⟨e, he, hid, hl⟩ := official_mem h
  have := entry_of_all ht he
  rw [← hl, ← hid, ← this.1]; exact this.2.2.2.2.2.2

theorem official_not_op {tbl : List Entry} (ht : tbl.all C19.entryOk = true) {w id : Str}
    (h : officialId tbl w = some id) : lowerStr id ≠ kOr ∧ lowerStr id ≠ kAnd ∧ lowerStr id ≠ kWith ∧
      id ≠ [] ∧ id.all C19.idChar = true ∧ startsWith (lowerStr id) kRefLower = false := by
  obtain ⟨e, he, hid, _⟩ := official_mem h
  have := entry_of_all ht he
  rw [← hid, ← this.1]
  exact ⟨this.2.2.2.1, this.2.2.2.2.1, this.2.2.2.2.2.1, this.2.1, this.2.2.1, this.2.2.2.2.2.2⟩

/-- a licence id that ends in `+` is a shorter licence id plus `+` -/
theorem official_plus {w id : Str} (h : officialId Gen.SpdxTables.licenses w = some id)
    (hp : (w.getLast? == some 43) = true) :
    ∃ id', officialId Gen.SpdxTables.licenses w.dropLast = some id' ∧ id' ++ [43] = id := by
  obtain ⟨e, he, hid, hl⟩ := official_mem h
  have hk := (entry_of_all C19.licenses_entries_ok he).1
  have hpc := List.all_eq_true.mp C19.licenses_plus_closed e he
  have hends : endsWith e.1 [43] = true := by
    rw [hk, hid, hl, endsWith_single, getLast_lower]; exact hp
  simp only [hends, Bool.not_true, Bool.false_or] at hpc
  have hkey : e.1.dropLast = lowerStr w.dropLast := by rw [hk, hid, hl, dropLast_lower]
  rw [hkey] at hpc
  have hfe := findId_eq_official Gen.SpdxTables.licenses C19.licenses_entries_ok w.dropLast
  unfold findId at hfe
  cases hlk : List.lookup (lowerStr w.dropLast) Gen.SpdxTables.licenses with
  | none => simp [hlk] at hpc
  | some v =>
    obtain ⟨id', dep⟩ := v
    simp only [hlk, beq_iff_eq] at hpc
    refine ⟨id', ?_, by rw [hpc, hid]⟩
    rw [← hfe, hlk]; rfl

end LicW

namespace LicW
open Py Lic Spdx LicL

/-! ### one word of the second loop -/

theorem normWord_exc (o w : Str) : normWord (some kWithU) o (lowerStr w) = canonException w := by
  simp only [normWord, beq_self_eq_true, if_true, canonException]
  exact findId_eq_official _ C19.exceptions_entries_ok w

theorem refAllowed_word (r : Str) (h : ∀ c ∈ r, Lic.isSpace c = false) :
    refAllowed r = (!r.isEmpty && r.all refChar) := by
  unfold refAllowed
  have h2 : (r.getLast? == some 10) = false := by
    cases hg : r.getLast? with
    | none => rfl
    | some x =>
      have hx : x ∈ r := List.mem_of_getLast? hg
      have := h x hx
      cases hb : (some x == some 10) with
      | false => rfl
      | true =>
        have : x = 10 := by simpa using hb
        subst this
        simp [Lic.isSpace, Gen.SpdxUnicode.spaces] at this
  have h3 : allowedCp = refChar := rfl
  simp [h2, h3]

theorem prefix_of_dropLast {s p : Str} (h : startsWith s.dropLast p = true) : startsWith s p = true := by
  obtain ⟨r, hr⟩ := startsWith_split h
  have : s = p ++ (r ++ (s.drop (s.length - 1))) := by
    have h1 : s = s.dropLast ++ s.drop (s.length - 1) := by
      rw [List.dropLast_eq_take]; exact (List.take_append_drop _ _).symm
    rw [← List.append_assoc, ← hr]; exact h1
  rw [this]; exact startsWith_append _ _

/-- `s` starts with the 11-character prefix, `s` without its last character does not: `s` is the prefix -/
theorem prefix_exact {s p : Str} (h1 : startsWith s p = true) (h2 : startsWith s.dropLast p = false) : s = p := by
  obtain ⟨r, hr⟩ := startsWith_split h1
  cases r with
  | nil => simpa using hr
  | cons x xs =>
    exfalso
    have : s.dropLast = p ++ (x :: xs).dropLast := by
      rw [hr, List.dropLast_append_of_ne_nil (by simp)]
    rw [this, startsWith_append] at h2
    exact Bool.noConfusion h2

theorem normWord_simple (prev : Option Str) (w : Str) (hp : (prev == some kWithU) = false) (hw : WordOK w) :
    normWord prev w (lowerStr w) = canonSimple w := by
  have hsp : ∀ c ∈ w.drop 11, Lic.isSpace c = false := fun c hc => (hw.2 c (List.mem_of_mem_drop hc)).1
  have hplus : endsWith (lowerStr w) [cPlus] = (w.getLast? == some 43) := by
    rw [cPlus, endsWith_single, getLast_lower]
  have hrefeq : ∀ x : Str, startsWith (lowerStr x) kRefLower = (lowerStr (x.take 11) == sRefLower) := by
    intro x; rw [startsWith_eq_take, take_lower]; rfl
  simp only [normWord, hp, Bool.false_eq_true, if_false, hplus]
  unfold canonSimple
  cases hpl : (w.getLast? == some 43) with
  | false =>
    simp only [Bool.false_eq_true, if_false]
    cases hst : startsWith (lowerStr w) kRefLower with
    | true =>
      simp only [if_true, refAllowed_word _ hsp]
      have hpre : (lowerStr (w.take 11) == sRefLower) = true := by rw [← hrefeq]; exact hst
      cases hra : (!(w.drop 11).isEmpty && (w.drop 11).all refChar) with
      | true =>
        have : isRef w = true := by
          unfold isRef; rw [hpre]; simpa using hra
        simp [this, kRef, sRef]
      | false =>
        have : isRef w = false := by
          unfold isRef; rw [hpre]; simpa using hra
        simp only [this, Bool.false_eq_true, if_false, Bool.not_false, if_true]
        cases hoff : officialId Gen.SpdxTables.licenses w with
        | none => rfl
        | some id => rw [official_not_ref C19.licenses_entries_ok hoff] at hst; exact Bool.noConfusion hst
    | false =>
      have : isRef w = false := by
        unfold isRef; rw [← hrefeq, hst]; rfl
      simp only [Bool.false_eq_true, if_false, this, findId_eq_official _ C19.licenses_entries_ok]
      cases officialId Gen.SpdxTables.licenses w <;> simp
  | true =>
    simp only [if_true, dropLast_lower]
    cases hst : startsWith (lowerStr w.dropLast) kRefLower with
    | true =>
      have hst' : startsWith (lowerStr w) kRefLower = true := by
        apply prefix_of_dropLast; rw [dropLast_lower]; exact hst
      have hpre : (lowerStr (w.take 11) == sRefLower) = true := by rw [← hrefeq]; exact hst'
      simp only [if_true, refAllowed_word _ hsp]
      have hn1 : officialId Gen.SpdxTables.licenses w = none := by
        cases hoff : officialId Gen.SpdxTables.licenses w with
        | none => rfl
        | some id => rw [official_not_ref C19.licenses_entries_ok hoff] at hst'; exact Bool.noConfusion hst'
      have hn2 : officialId Gen.SpdxTables.licenses w.dropLast = none := by
        cases hoff : officialId Gen.SpdxTables.licenses w.dropLast with
        | none => rfl
        | some id => rw [official_not_ref C19.licenses_entries_ok hoff] at hst; exact Bool.noConfusion hst
      cases hra : (!(w.drop 11).isEmpty && (w.drop 11).all refChar) with
      | true =>
        have : isRef w = true := by
          unfold isRef; rw [hpre]; simpa using hra
        simp [this, kRef, sRef]
      | false =>
        have : isRef w = false := by
          unfold isRef; rw [hpre]; simpa using hra
        simp [this, hn1, hn2]
    | false =>
      have href : isRef w = false := by
        cases hst' : startsWith (lowerStr w) kRefLower with
        | false => unfold isRef; rw [← hrefeq, hst']; rfl
        | true =>
          exfalso
          have hex := prefix_exact hst' (by rw [dropLast_lower]; exact hst)
          have : ((lowerStr w).getLast? == some 43) = true := by rw [getLast_lower]; exact hpl
          rw [hex] at this
          exact Bool.noConfusion this
      simp only [Bool.false_eq_true, if_false, href, findId_eq_official _ C19.licenses_entries_ok]
      cases hoff : officialId Gen.SpdxTables.licenses w with
      | none => simp [cPlus]
      | some id =>
        obtain ⟨id', h1, h2⟩ := official_plus hoff hpl
        simp [h1, h2, cPlus]

end LicW
