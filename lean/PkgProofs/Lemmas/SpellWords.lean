import PkgProofs.Lemmas.SpellBasic
/-!
# Spellings, part 2: which keyword the scanner selects for each written word
-/
namespace Spelling
open Py V

theorem preKws_eq : preKws = [([97,108,112,104,97], .a), ([97], .a), ([98,101,116,97], .b), ([98], .b),
   ([112,114,101,118,105,101,119], .rc), ([112,114,101], .rc), ([99], .rc), ([114,99], .rc)] := by decide
theorem postKws_eq : postKws = [([112,111,115,116], ()), ([114,101,118], ()), ([114], ())] := by decide
theorem devKws_eq : devKws = [([100,101,118], ())] := by decide

section
variable (w t : Str) (hf : FollowOK t)
include hf

theorem fl (ks : Str) : startsWith (lowerStr t) (108 :: ks) = false :=
  startsWith_follow t 108 ks (fun c hc => (hf c hc).1)
theorem fe (ks : Str) : startsWith (lowerStr t) (101 :: ks) = false :=
  startsWith_follow t 101 ks (fun c hc => (hf c hc).2.1)
theorem fv (ks : Str) : startsWith (lowerStr t) (118 :: ks) = false :=
  startsWith_follow t 118 ks (fun c hc => (hf c hc).2.2.1)
theorem fc (ks : Str) : startsWith (lowerStr t) (99 :: ks) = false :=
  startsWith_follow t 99 ks (fun c hc => (hf c hc).2.2.2)

/-- the pre-release word as written selects its own keyword, whatever the letter case -/
theorem takeKw_pre (k : PreWord) (hw : lowerStr w = k.text) :
    takeKw preKws (w ++ t) = some (k.letter, t) := by
  cases k <;>
    simp [PreWord.text, ofString] at hw <;>
    simp [preKws_eq, takeKw, dropKw_none_of, dropKw_spelled, lowerStr_append, hw, startsWith,
      fl t hf, fe t hf, fv t hf, PreWord.letter]

theorem takeKw_post (k : PostWord) (hw : lowerStr w = k.text) :
    takeKw postKws (w ++ t) = some ((), t) := by
  cases k <;>
    simp [PostWord.text, ofString] at hw <;>
    simp [postKws_eq, takeKw, dropKw_none_of, dropKw_spelled, lowerStr_append, hw, startsWith, fe t hf]

/-- a post-release word is not taken for a pre-release word -/
theorem takeKw_pre_postword (k : PostWord) (hw : lowerStr w = k.text) : takeKw preKws (w ++ t) = none := by
  cases k <;>
    simp [PostWord.text, ofString] at hw <;>
    simp [preKws_eq, takeKw, dropKw_none_of, lowerStr_append, hw, startsWith, fc t hf]

end

theorem takeKw_dev (w t : Str) (hw : lowerStr w = devText) : takeKw devKws (w ++ t) = some ((), t) := by
  simp [devText, ofString] at hw
  simp [devKws_eq, takeKw, dropKw_spelled, hw]

theorem takeKw_pre_devword (w t : Str) (hw : lowerStr w = devText) : takeKw preKws (w ++ t) = none := by
  simp [devText, ofString] at hw
  simp [preKws_eq, takeKw, dropKw_none_of, lowerStr_append, hw, startsWith]

theorem takeKw_post_devword (w t : Str) (hw : lowerStr w = devText) : takeKw postKws (w ++ t) = none := by
  simp [devText, ofString] at hw
  simp [postKws_eq, takeKw, dropKw_none_of, lowerStr_append, hw, startsWith]

/-- a string whose first character is not a letter starts no keyword -/
def NoLetter (s : Str) : Prop := ∀ c, s.head? = some c → lowerAscii c < 97

theorem dropKw_noLetter {s : Str} (h : NoLetter s) (k : Nat) (ks : Str) (hk : 97 ≤ k) : dropKw (k :: ks) s = none := by
  cases s with
  | nil => simp [dropKw]
  | cons c cs =>
    have := h c rfl
    have : lowerAscii c ≠ k := by omega
    simp [dropKw, this]

theorem takeKw_noLetter (s : Str) (h : NoLetter s) :
    takeKw preKws s = none ∧ takeKw postKws s = none ∧ takeKw devKws s = none := by
  refine ⟨?_, ?_, ?_⟩
  · simp [preKws_eq, takeKw, dropKw_noLetter h]
  · simp [postKws_eq, takeKw, dropKw_noLetter h]
  · simp [devKws_eq, takeKw, dropKw_noLetter h]

end Spelling
