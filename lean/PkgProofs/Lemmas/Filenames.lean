import PkgModel.Filenames
import PkgModel.Spec.Filenames
import PkgProofs.Lemmas.Names
import PkgProofs.Lemmas.Dec
import PkgProofs.Lemmas.ScanBasic
import PkgProofs.Lemmas.ScanRender
/-! helper lemmas for C14: splitting and joining on a separator, suffix tests, the build tag, no dash in `str(version)` -/
namespace Fn
open Py

/-! ## `split` / `join` -/

theorem splitOn_ne_nil (sep : Nat) (s : Str) : splitOn sep s ≠ [] := by
  cases s with
  | nil => simp [splitOn]
  | cons c cs =>
    simp only [splitOn]
    split
    · simp
    · split <;> simp

theorem splitOn_nosep (sep : Nat) (a : Str) (h : sep ∉ a) : splitOn sep a = [a] := by
  induction a with
  | nil => rfl
  | cons c cs ih =>
    have hc : (c == sep) = false := by
      simp only [beq_eq_false_iff_ne, ne_eq]; intro h'; exact h (by simp [h'])
    simp only [splitOn, hc, Bool.false_eq_true, ite_false, ih (fun h' => h (by simp [h']))]

theorem splitOn_append (sep : Nat) (a r : Str) (h : sep ∉ a) :
    splitOn sep (a ++ sep :: r) = a :: splitOn sep r := by
  induction a with
  | nil => simp [splitOn]
  | cons c cs ih =>
    have hc : (c == sep) = false := by
      simp only [beq_eq_false_iff_ne, ne_eq]; intro h'; exact h (by simp [h'])
    simp only [List.cons_append, splitOn, hc, Bool.false_eq_true, ite_false, ih (fun h' => h (by simp [h']))]

/-- splitting a join of separator-free pieces gives the pieces back -/
theorem splitOn_join (sep : Nat) : ∀ (parts : List Str), parts ≠ [] → (∀ p ∈ parts, sep ∉ p) →
    splitOn sep (join [sep] parts) = parts := by
  intro parts
  induction parts with
  | nil => intro h; exact absurd rfl h
  | cons a as ih =>
    intro _ hall
    cases as with
    | nil => simpa [join] using splitOn_nosep sep a (hall a (by simp))
    | cons b bs =>
      simp only [join, List.append_assoc, List.singleton_append]
      rw [splitOn_append sep a _ (hall a (by simp)), ih (by simp) (fun p hp => hall p (by simp [hp]))]

theorem splitOn_parts_nosep (sep : Nat) (s : Str) : ∀ p ∈ splitOn sep s, sep ∉ p := by
  induction s with
  | nil => simp [splitOn]
  | cons c cs ih =>
    simp only [splitOn]
    split
    · intro p hp
      simp only [List.mem_cons] at hp
      rcases hp with rfl | hp
      · simp
      · exact ih p hp
    · rename_i hc
      simp only [beq_iff_eq] at hc
      split
      · intro p hp; simp only [List.mem_singleton] at hp; subst hp
        simp only [List.mem_singleton]; exact fun h => hc h.symm
      · rename_i q qs hq
        intro p hp
        simp only [List.mem_cons] at hp
        rcases hp with rfl | hp
        · have := ih q (by simp [hq])
          simp only [List.mem_cons, not_or]
          exact ⟨fun h => hc h.symm, this⟩
        · exact ih p (by simp [hq, hp])

/-- every string is the join of its separator-free pieces -/
theorem join_splitOn (sep : Nat) (s : Str) : join [sep] (splitOn sep s) = s := by
  induction s with
  | nil => rfl
  | cons c cs ih =>
    simp only [splitOn]
    split
    · rename_i hc
      simp only [beq_iff_eq] at hc
      subst hc
      have hne := splitOn_ne_nil c cs
      cases hs : splitOn c cs with
      | nil => exact absurd hs hne
      | cons q qs => rw [hs] at ih; simp [join, ih]
    · split
      · rename_i hq; exact absurd hq (splitOn_ne_nil sep cs)
      · rename_i q qs hq
        rw [hq] at ih
        cases qs with
        | nil => simp only [join] at ih ⊢; rw [ih]
        | cons q' qs' => simp only [join, List.cons_append] at ih ⊢; rw [ih]

theorem mem_join (sep : Str) (x : Nat) : ∀ (l : List Str), x ∈ join sep l → x ∈ sep ∨ ∃ p ∈ l, x ∈ p := by
  intro l
  induction l with
  | nil => simp [join]
  | cons a as ih =>
    cases as with
    | nil => intro h; exact Or.inr ⟨a, by simp, by simpa [join] using h⟩
    | cons b bs =>
      intro h
      simp only [join, List.append_assoc, List.mem_append] at h
      rcases h with h | h | h
      · exact Or.inr ⟨a, by simp, h⟩
      · exact Or.inl h
      · rcases ih h with h' | ⟨p, hp, hx⟩
        · exact Or.inl h'
        · exact Or.inr ⟨p, by simp [hp], hx⟩

theorem count_nosep (sep : Nat) (a : Str) (h : sep ∉ a) : a.count sep = 0 := List.count_eq_zero.mpr h

theorem count_join (sep : Nat) : ∀ (parts : List Str), parts ≠ [] → (∀ p ∈ parts, sep ∉ p) →
    (join [sep] parts).count sep = parts.length - 1 := by
  intro parts
  induction parts with
  | nil => intro h; exact absurd rfl h
  | cons a as ih =>
    intro _ hall
    cases as with
    | nil => simpa [join] using count_nosep sep a (hall a (by simp))
    | cons b bs =>
      have := ih (by simp) (fun p hp => hall p (by simp [hp]))
      simp only [join, List.append_assoc, List.singleton_append, List.count_append, List.count_cons_self,
        count_nosep sep a (hall a (by simp)), this, List.length_cons]
      omega

theorem breakOn_append (sep : Nat) (a r : Str) (h : sep ∉ a) : breakOn sep (a ++ sep :: r) = some (a, r) := by
  induction a with
  | nil => simp [breakOn]
  | cons c cs ih =>
    have hc : (c == sep) = false := by
      simp only [beq_eq_false_iff_ne, ne_eq]; intro h'; exact h (by simp [h'])
    simp only [List.cons_append, breakOn, hc, Bool.false_eq_true, ite_false, ih (fun h' => h (by simp [h']))]

theorem breakOn_nosep (sep : Nat) (a : Str) (h : sep ∉ a) : breakOn sep a = none := by
  induction a with
  | nil => rfl
  | cons c cs ih =>
    have hc : (c == sep) = false := by
      simp only [beq_eq_false_iff_ne, ne_eq]; intro h'; exact h (by simp [h'])
    simp only [breakOn, hc, Bool.false_eq_true, ite_false, ih (fun h' => h (by simp [h']))]

theorem splitN_zero (sep : Nat) (s : Str) : splitN sep 0 s = [s] := rfl

theorem splitN_succ (sep k : Nat) (a r : Str) (h : sep ∉ a) :
    splitN sep (k + 1) (a ++ sep :: r) = a :: splitN sep k r := by
  simp only [splitN, breakOn_append sep a r h]

theorem rpartition_append (sep : Nat) (a v : Str) (h : sep ∉ v) :
    rpartition sep (a ++ sep :: v) = some (a, v) := by
  unfold rpartition
  have : (a ++ sep :: v).reverse = v.reverse ++ sep :: a.reverse := by simp
  rw [this, breakOn_append sep v.reverse a.reverse (by simpa using h)]
  simp

theorem rpartition_nosep (sep : Nat) (a : Str) (h : sep ∉ a) : rpartition sep a = none := by
  unfold rpartition
  rw [breakOn_nosep sep a.reverse (by simpa using h)]

/-! ## suffixes -/

theorem startsWith_append (p r : Str) : startsWith (p ++ r) p = true := by
  induction p with
  | nil => cases r <;> rfl
  | cons c cs ih => simp [startsWith, ih]

theorem endsWith_append (s suf : Str) : endsWith (s ++ suf) suf = true := by
  unfold endsWith
  rw [List.reverse_append]
  exact startsWith_append _ _

theorem take_append_suffix (s suf : Str) : (s ++ suf).take ((s ++ suf).length - suf.length) = s := by
  simp

theorem startsWith_split : ∀ (s p : Str), startsWith s p = true → ∃ r, s = p ++ r := by
  intro s p
  induction p generalizing s with
  | nil => intro _; exact ⟨s, rfl⟩
  | cons c cs ih =>
    intro h
    cases s with
    | nil => simp [startsWith] at h
    | cons d ds =>
      simp only [startsWith, Bool.and_eq_true, beq_iff_eq] at h
      obtain ⟨r, hr⟩ := ih ds h.2
      exact ⟨r, by rw [h.1, hr]; rfl⟩

theorem endsWith_split (f suf : Str) (h : endsWith f suf = true) : ∃ stem, f = stem ++ suf := by
  obtain ⟨r, hr⟩ := startsWith_split _ _ h
  refine ⟨r.reverse, ?_⟩
  have := congrArg List.reverse hr
  simpa using this

/-! ## the structured reading of a wheel file name -/

/-- the cartesian product of the three dotted tag sets -/
def tagProduct (py abi plat : Str) : List Tag :=
  (splitOn 46 py).flatMap fun i => (splitOn 46 abi).flatMap fun a => (splitOn 46 plat).map fun p => mkTag i a p

/-- what `parse_wheel_filename` does with the dash-separated parts once they are identified -/
def decodeCore (n v : Str) (b : Option Str) (py abi plat : Str) : Except WheelErr Wheel :=
  if hasDunder n || !nameOk n then .error .name else
  match V.scan v with
  | none => .error .version
  | some ver =>
    match b with
    | none => .ok ⟨Names.canon n, ver, none, tagProduct py abi plat⟩
    | some bs =>
      match parseBuild bs with
      | none => .error .build
      | some x => .ok ⟨Names.canon n, ver, some x, tagProduct py abi plat⟩

def decodeParts : List Str → Except WheelErr Wheel
  | [n, v, py, abi, plat] => decodeCore n v none py abi plat
  | [n, v, b, py, abi, plat] => decodeCore n v (some b) py abi plat
  | _ => .error .parts

theorem parseTag_three (py abi plat : Str) (h1 : 45 ∉ py) (h2 : 45 ∉ abi) (h3 : 45 ∉ plat) :
    parseTag (join [45] [py, abi, plat]) = some (tagProduct py abi plat) := by
  unfold parseTag
  rw [splitOn_join 45 [py, abi, plat] (by simp) (by simp [h1, h2, h3])]
  rfl

theorem stem_eq (stem : Str) : (stem ++ whl).take ((stem ++ whl).length - 4) = stem :=
  take_append_suffix stem whl

theorem parseWheel_bad_count (parts : List Str) (hne : parts ≠ []) (hall : ∀ p ∈ parts, 45 ∉ p)
    (h5 : parts.length ≠ 5) (h6 : parts.length ≠ 6) :
    parseWheel (join [45] parts ++ whl) = .error .parts := by
  unfold parseWheel
  simp only [endsWith_append, Bool.not_true, Bool.false_eq_true, ite_false, stem_eq,
    count_join 45 parts hne hall]
  have hl : parts.length ≠ 0 := by
    intro h; exact hne (List.eq_nil_of_length_eq_zero h)
  have : (parts.length - 1 != 4 && parts.length - 1 != 5) = true := by
    simp only [Bool.and_eq_true, bne_iff_ne, ne_eq]; omega
  simp [this]

theorem parseWheel_five (n v py abi plat : Str) (hn : 45 ∉ n) (hv : 45 ∉ v) (h1 : 45 ∉ py) (h2 : 45 ∉ abi)
    (h3 : 45 ∉ plat) :
    parseWheel (join [45] [n, v, py, abi, plat] ++ whl) = decodeCore n v none py abi plat := by
  have hall : ∀ p ∈ [n, v, py, abi, plat], 45 ∉ p := by simp [hn, hv, h1, h2, h3]
  have hsplit : splitN 45 2 (join [45] [n, v, py, abi, plat]) = [n, v, join [45] [py, abi, plat]] := by
    simp only [join, List.append_assoc, List.singleton_append]
    rw [splitN_succ 45 1 n _ hn, splitN_succ 45 0 v _ hv, splitN_zero]
  unfold parseWheel
  simp only [endsWith_append, Bool.not_true, Bool.false_eq_true, ite_false, stem_eq,
    count_join 45 _ (by simp) hall, List.length_cons, List.length_nil]
  simp only [show (0 + 1 + 1 + 1 + 1 + 1 - 1 : Nat) = 4 from rfl, show (4 - 2 : Nat) = 2 from rfl, hsplit]
  have hlast : [n, v, join [45] [py, abi, plat]].getLastD [] = join [45] [py, abi, plat] := rfl
  simp only [bne_self_eq_false, Bool.false_and, Bool.false_eq_true, ite_false, List.headD_cons,
    List.getD_cons_succ, List.getD_cons_zero, hlast, parseTag_three py abi plat h1 h2 h3, decodeCore]
  by_cases hname : (hasDunder n || !nameOk n) = true
  · simp [hname]
  · cases hs : V.scan v <;> simp [hname, show ((4 : Nat) == 5) = false from rfl]

theorem parseWheel_six (n v b py abi plat : Str) (hn : 45 ∉ n) (hv : 45 ∉ v) (hb : 45 ∉ b) (h1 : 45 ∉ py)
    (h2 : 45 ∉ abi) (h3 : 45 ∉ plat) :
    parseWheel (join [45] [n, v, b, py, abi, plat] ++ whl) = decodeCore n v (some b) py abi plat := by
  have hall : ∀ p ∈ [n, v, b, py, abi, plat], 45 ∉ p := by simp [hn, hv, hb, h1, h2, h3]
  have hsplit : splitN 45 3 (join [45] [n, v, b, py, abi, plat]) = [n, v, b, join [45] [py, abi, plat]] := by
    simp only [join, List.append_assoc, List.singleton_append]
    rw [splitN_succ 45 2 n _ hn, splitN_succ 45 1 v _ hv, splitN_succ 45 0 b _ hb, splitN_zero]
  unfold parseWheel
  simp only [endsWith_append, Bool.not_true, Bool.false_eq_true, ite_false, stem_eq,
    count_join 45 _ (by simp) hall, List.length_cons, List.length_nil]
  simp only [show (0 + 1 + 1 + 1 + 1 + 1 + 1 - 1 : Nat) = 5 from rfl, show (5 - 2 : Nat) = 3 from rfl, hsplit]
  have hlast : [n, v, b, join [45] [py, abi, plat]].getLastD [] = join [45] [py, abi, plat] := rfl
  simp only [bne_self_eq_false, Bool.and_false, Bool.false_eq_true, ite_false, List.headD_cons,
    List.getD_cons_succ, List.getD_cons_zero, hlast, parseTag_three py abi plat h1 h2 h3, decodeCore,
    beq_self_eq_true, ite_true]
  by_cases hname : (hasDunder n || !nameOk n) = true
  · simp [hname]
  · cases hs : V.scan v
    · simp [hname]
    · cases hb : parseBuild b <;> simp [hname]

/-- the model's string manipulation (`count`, `split("-", dashes - 2)`, indexing) reads the dash-free parts
positionally -/
theorem parseWheel_parts (parts : List Str) (hne : parts ≠ []) (hall : ∀ p ∈ parts, 45 ∉ p) :
    parseWheel (join [45] parts ++ whl) = decodeParts parts := by
  rcases parts with _ | ⟨a, _ | ⟨b, _ | ⟨c, _ | ⟨d, _ | ⟨e, _ | ⟨f, _ | ⟨g, rest⟩⟩⟩⟩⟩⟩⟩
  · exact absurd rfl hne
  · exact parseWheel_bad_count _ hne hall (by simp) (by simp)
  · exact parseWheel_bad_count _ hne hall (by simp) (by simp)
  · exact parseWheel_bad_count _ hne hall (by simp) (by simp)
  · exact parseWheel_bad_count _ hne hall (by simp) (by simp)
  · simp only [List.mem_cons, List.not_mem_nil, or_false, forall_eq_or_imp, forall_eq] at hall
    exact parseWheel_five a b c d e hall.1 hall.2.1 hall.2.2.1 hall.2.2.2.1 hall.2.2.2.2
  · simp only [List.mem_cons, List.not_mem_nil, or_false, forall_eq_or_imp, forall_eq] at hall
    exact parseWheel_six a b c d e f hall.1 hall.2.1 hall.2.2.1 hall.2.2.2.1 hall.2.2.2.2.1 hall.2.2.2.2.2
  · rw [parseWheel_bad_count _ hne hall (by simp) (by simp)]
    rfl

/-- **complete characterisation** of `parse_wheel_filename` on every string -/
theorem parseWheel_spec (f : Str) :
    parseWheel f =
      if endsWith f whl then decodeParts (splitOn 45 (f.take (f.length - 4))) else .error .ext := by
  by_cases h : endsWith f whl = true
  · obtain ⟨stem, rfl⟩ := endsWith_split f whl h
    simp only [h, ite_true, stem_eq]
    conv => lhs; rw [← join_splitOn 45 stem]
    exact parseWheel_parts _ (splitOn_ne_nil 45 stem) (splitOn_parts_nosep 45 stem)
  · simp only [Bool.not_eq_true] at h
    simp [parseWheel, h]

/-! ## the regenerated tables, after the fixes: ASCII digits, `.` excludes only the newline, `\Z` -/

theorem tables_as_modelled :
    Gen.NameTables.buildStructureOk = true ∧ Gen.NameTables.digitTable = [(48, 57, 0)] ∧
    Gen.NameTables.notDot = [(10, 10)] ∧ Gen.NameTables.wheelNameStructureOk = true ∧
    Gen.NameTables.wheelNameDollar = false := by decide

theorem digitVal_eq (c : Nat) : digitVal c = if isDigit c then some (c - 48) else none := by
  simp only [digitVal, tables_as_modelled.2.1, digitValIn, isDigit]
  by_cases h : (decide (48 ≤ c) && decide (c ≤ 57)) = true
  · simp only [h, ite_true, Option.some.injEq]
    simp only [Bool.and_eq_true, decide_eq_true_eq] at h
    omega
  · simp [h]

theorem isUDigit_eq (c : Nat) : isUDigit c = isDigit c := by
  simp only [isUDigit, digitVal_eq]; cases isDigit c <;> rfl

theorem isDot_eq (c : Nat) : isDot c = (c != 10) := by
  simp only [isDot, tables_as_modelled.2.2.1, inRanges, List.any_cons, List.any_nil, Bool.or_false]
  cases h : (c != 10)
  · simp only [bne_eq_false_iff_eq] at h; subst h; rfl
  · simp only [bne_iff_ne, ne_eq] at h
    simp only [Bool.not_eq_true', Bool.and_eq_false_iff, decide_eq_false_iff_not]; omega

theorem takeWhile_append_stop {p : Nat → Bool} (a r : Str) (ha : ∀ c ∈ a, p c = true)
    (hr : ∀ c, r.head? = some c → p c = false) :
    (a ++ r).takeWhile p = a ∧ (a ++ r).dropWhile p = r := by
  induction a with
  | nil =>
    cases r with
    | nil => simp
    | cons d ds => simp [hr d rfl]
  | cons c cs ih =>
    have := ih (fun x hx => ha x (by simp [hx]))
    simp [ha c (by simp), this.1, this.2]

theorem takeWhile_all {p : Nat → Bool} (a : Str) (ha : ∀ c ∈ a, p c = true) : a.takeWhile p = a := by
  have := (takeWhile_append_stop (p := p) a [] ha (by simp)).1
  simpa using this

theorem intU_digits : ∀ (s : Str) (acc : Nat), (∀ c ∈ s, isDigit c = true) →
    s.foldl (fun acc c => acc * 10 + (digitVal c).getD 0) acc = undecAux s acc := by
  intro s
  induction s with
  | nil => intro acc _; rfl
  | cons c cs ih =>
    intro acc h
    have hv : (digitVal c).getD 0 = c - 48 := by rw [digitVal_eq]; simp [h c (by simp)]
    rw [List.foldl_cons, undecAux, hv]
    exact ih _ (fun x hx => h x (by simp [hx]))

/-- the build tag `str(n) + suffix` is read back as `(n, suffix)` -/
theorem parseBuild_dec (n : Nat) (suffix : Str) (hd : ∀ c, suffix.head? = some c → isDigit c = false)
    (hnl : 10 ∉ suffix) : parseBuild (dec n ++ suffix) = some (n, suffix) := by
  have hU : (fun c => isUDigit c) = isDigit := funext isUDigit_eq
  have h := takeWhile_append_stop (p := isDigit) (dec n) suffix (dec_digits n) hd
  unfold parseBuild
  simp only [show isUDigit = isDigit from hU, h.1, h.2]
  have hne : (dec n).isEmpty = false := by
    cases hh : dec n with
    | nil => exact absurd hh (dec_ne_nil n)
    | cons _ _ => rfl
  simp only [hne, Bool.false_eq_true, ite_false, Option.some.injEq, Prod.mk.injEq]
  constructor
  · unfold intU
    rw [intU_digits _ 0 (dec_digits n)]
    exact undec_dec n
  · apply takeWhile_all
    intro c hc
    rw [isDot_eq]
    simp only [bne_iff_ne, ne_eq]
    intro h'; subst h'; exact hnl hc

/-- a build part that does not start with an ASCII digit is rejected -/
theorem parseBuild_none (b : Str) (h : ∀ c, b.head? = some c → isDigit c = false) : parseBuild b = none := by
  unfold parseBuild
  have : b.takeWhile isUDigit = [] := by
    cases b with
    | nil => rfl
    | cons c cs => simp [List.takeWhile, isUDigit_eq, h c rfl]
  simp [this]

/-! ## `str(version)` contains no dash -/

theorem dec_no_dash (n : Nat) : 45 ∉ dec n := by
  intro h
  have := dec_digits n 45 h
  simp [isDigit] at this

theorem str_no_dash (v : V.Ver) (h : V.WF v) : 45 ∉ v.str := by
  obtain ⟨e, rel, pre, post, dev, loc⟩ := v
  simp only [V.WF, V.Ver.wf, Bool.and_eq_true] at h
  rw [V.str_eq]
  simp only [List.mem_append, not_or]
  refine ⟨?_, ?_, ?_, ?_, ?_⟩
  · -- base
    simp only [V.Ver.base, List.mem_append, not_or]
    constructor
    · split
      · simp only [List.mem_append, List.mem_singleton, not_or]
        exact ⟨dec_no_dash e, by decide⟩
      · simp
    · intro hm
      rcases mem_join [46] 45 _ hm with h' | ⟨p, hp, hx⟩
      · simp at h'
      · simp only [List.mem_map] at hp
        obtain ⟨k, _, rfl⟩ := hp
        exact dec_no_dash k hx
  · cases pre with
    | none => simp [V.preS]
    | some ln =>
      obtain ⟨l, k⟩ := ln
      simp only [V.preS, List.mem_append, not_or]
      exact ⟨by cases l <;> decide, dec_no_dash k⟩
  · cases post with
    | none => simp [V.postS]
    | some k =>
      simp only [V.postS, List.mem_cons, not_or]
      exact ⟨by decide, by decide, by decide, by decide, by decide, dec_no_dash k⟩
  · cases dev with
    | none => simp [V.devS]
    | some k =>
      simp only [V.devS, List.mem_cons, not_or]
      exact ⟨by decide, by decide, by decide, by decide, dec_no_dash k⟩
  · cases loc with
    | none => simp [V.locS]
    | some l =>
      simp only [V.locS, List.mem_cons, not_or]
      refine ⟨by decide, ?_⟩
      intro hm
      rcases mem_join [46] 45 _ hm with h' | ⟨p, hp, hx⟩
      · simp at h'
      · simp only [List.mem_map] at hp
        obtain ⟨seg, hseg, rfl⟩ := hp
        have hw : V.segWF seg = true := by
          have := h.2
          simp only [V.locWF, Bool.and_eq_true, List.all_eq_true] at this
          exact this.2 seg hseg
        have := V.render_localChars seg hw 45 hx
        simp [V.isLocalChar, isDigit, isAlphaAscii, isLowerAscii, isUpperAscii] at this

/-! ## the escaped project name -/

/-- `-` → `_` -/
def esc (c : Nat) : Nat := if c == 45 then 95 else c

theorem esc_sep (c : Nat) : Names.isSep (esc c) = Names.isSep c := by
  unfold esc
  by_cases h : c = 45
  · subst h; decide
  · simp [h]

theorem esc_nonsep (c : Nat) (h : Names.isSep c = false) : esc c = c := by
  unfold esc
  by_cases h' : c = 45
  · subst h'; simp [Names.isSep, Names.separators_eq] at h
  · simp [h']

/-- collapsing only looks at which characters are separators -/
theorem collapseAux_map_esc (s : Str) (b : Bool) :
    Names.collapseAux (s.map esc) b = Names.collapseAux s b := by
  induction s generalizing b with
  | nil => rfl
  | cons c cs ih =>
    cases h : Names.isSep c
    · simp [Names.collapseAux, h, esc_nonsep c h, ih]
    · simp [Names.collapseAux, esc_sep, h, ih]

theorem escapeName_eq (n : Str) : FnSpec.escapeName Names.lowerCp n = (Names.canon n).map esc := by
  unfold FnSpec.escapeName
  rw [← Names.canon_eq_fold]
  rfl

theorem canon_canon (n : Str) : Names.canon (Names.canon n) = Names.canon n := by
  have h1 : Names.lower (Names.canon n) = Names.canon n := by unfold Names.canon; exact Names.lower_idem _
  rw [Names.canon_eq_collapse_lower (Names.canon n), h1, Names.canon_eq_collapse_lower n, Names.collapse_idem]

/-- the escaped name normalises back to the normalised name — for every name -/
theorem canon_escapeName (n : Str) : Names.canon (FnSpec.escapeName Names.lowerCp n) = Names.canon n := by
  rw [escapeName_eq]
  unfold Names.canon Names.collapse
  rw [collapseAux_map_esc]
  exact canon_canon n

theorem escapeName_no_dash (n : Str) : 45 ∉ FnSpec.escapeName Names.lowerCp n := by
  rw [escapeName_eq]
  simp only [List.mem_map, not_exists, not_and]
  intro c _ h
  unfold esc at h
  by_cases h' : c = 45
  · subst h'; simp at h
  · simp [h'] at h

theorem hasDunder_esc (t : Str) (b : Bool) (h : Names.Collapsed t b = true) : hasDunder (t.map esc) = false := by
  induction t generalizing b with
  | nil => rfl
  | cons c r ih =>
    simp only [Names.Collapsed] at h
    cases hs : Names.isSep c
    · simp only [hs, Bool.false_eq_true, ite_false] at h
      have hc : esc c ≠ 95 := by
        rw [esc_nonsep c hs]; intro h'; subst h'; simp [Names.isSep, Names.separators_eq] at hs
      simp only [List.map_cons, hasDunder, startsWith, Bool.or_eq_false_iff, ih false h, and_true]
      simp [hc]
    · simp only [hs, ite_true, Bool.and_eq_true] at h
      have ihr := ih true h.2
      simp only [List.map_cons, hasDunder, Bool.or_eq_false_iff, ihr, and_true]
      cases r with
      | nil => simp [startsWith]
      | cons d r' =>
        have hd : Names.isSep d = false := by
          have := h.2
          simp only [Names.Collapsed] at this
          cases hd : Names.isSep d
          · rfl
          · simp [hd] at this
        have hd' : esc d ≠ 95 := by
          rw [esc_nonsep d hd]; intro h'; subst h'; simp [Names.isSep, Names.separators_eq] at hd
        simp [startsWith, hd']

theorem nameOk_all (s : Str) : nameOk s = s.all nameChar := by
  unfold nameOk
  rw [tables_as_modelled.2.2.2.2]
  induction s with
  | nil => rfl
  | cons c r ih => simp [nameOkWith, ih]

theorem nameChar_esc_ascii : ∀ c, c < 128 → (NameSpec.alnum c || NameSpec.isSep c) = true → nameChar (esc c) = true := by
  decide +kernel

end Fn
