import PkgProofs.Lemmas.ScanBasic
/-!
# Scanner lemmas, part 2: continuation lemmas per group

"After a rendered number, the next rendered group does not start with a digit"; "`.postN` is read
by the post group, not by the release tail or the pre group"; and so on, from the end of the
string backwards.
-/
namespace V
open Py

/-- what may follow the dev group: nothing, or the local label -/
def Stop0 (s : Str) : Prop := s = [] ∨ ∃ t, s = 43 :: t
/-- what may follow the post group -/
def Stop1 (s : Str) : Prop := Stop0 s ∨ ∃ t, s = 46 :: 100 :: 101 :: 118 :: t
/-- what may follow the pre group -/
def Stop2 (s : Str) : Prop := Stop1 s ∨ ∃ t, s = 46 :: 112 :: 111 :: 115 :: 116 :: t
/-- what may follow the release -/
def Stop3 (s : Str) : Prop := Stop2 s ∨ ∃ t, s = 97 :: t ∨ s = 98 :: t ∨ s = 114 :: 99 :: t

theorem Stop3.noDigit {s : Str} (h : Stop3 s) : NoDigit s := by
  intro c hc
  rcases h with (((rfl | ⟨t, rfl⟩) | ⟨t, rfl⟩) | ⟨t, rfl⟩) | ⟨t, rfl | rfl | rfl⟩ <;>
    simp at hc <;> subst hc <;> decide
theorem Stop2.noDigit {s : Str} (h : Stop2 s) : NoDigit s := Stop3.noDigit (.inl h)
theorem Stop1.noDigit {s : Str} (h : Stop1 s) : NoDigit s := Stop2.noDigit (.inl h)
theorem Stop0.noDigit {s : Str} (h : Stop0 s) : NoDigit s := Stop1.noDigit (.inl h)

theorem stop0_locS (loc) : Stop0 (locS loc) := by
  cases loc with
  | none => exact .inl rfl
  | some l => exact .inr ⟨_, rfl⟩

theorem stop1_devS (dev : Option Nat) {s : Str} (h : Stop0 s) : Stop1 (devS dev ++ s) := by
  cases dev with
  | none => exact .inl h
  | some n => exact .inr ⟨_, rfl⟩

theorem stop2_postS (post : Option Nat) {s : Str} (h : Stop1 s) : Stop2 (postS post ++ s) := by
  cases post with
  | none => exact .inl h
  | some n => exact .inr ⟨_, rfl⟩

theorem stop3_preS (pre : Option (PreL × Nat)) {s : Str} (h : Stop2 s) : Stop3 (preS pre ++ s) := by
  cases pre with
  | none => exact .inl h
  | some p =>
    obtain ⟨l, n⟩ := p
    cases l
    · exact .inr ⟨_, .inl rfl⟩
    · exact .inr ⟨_, .inr (.inl rfl)⟩
    · exact .inr ⟨_, .inr (.inr rfl)⟩

/-! ### letter groups in general -/

theorem letterGroup_num {α} (kws : List (Str × α)) (s : Str) (a : α) (n : Nat) (rest : Str)
    (h1 : takeKw kws (optSep s) = some (a, dec n ++ rest)) (h2 : NoDigit rest) :
    scanLetterGroup kws s = some ((a, n), rest) := by
  simp [scanLetterGroup, h1, optSep_dec, optNum_dec n rest h2]

theorem letterGroup_none {α} (kws : List (Str × α)) (s : Str) (h : takeKw kws (optSep s) = none) :
    scanLetterGroup kws s = none := by
  simp [scanLetterGroup, h]

/-! ### dev group -/

theorem dev_some (n : Nat) (s : Str) (h : Stop0 s) :
    scanLetterGroup devKws (devS (some n) ++ s) = some (((), n), s) := by
  apply letterGroup_num _ _ _ _ _ _ h.noDigit
  simp [devS, optSep, isSep, devKws, ofString, takeKw, dropKw, lowerAscii, isUpperAscii]

theorem dev_none (s : Str) (h : Stop0 s) : scanLetterGroup devKws s = none := by
  apply letterGroup_none
  rcases h with rfl | ⟨t, rfl⟩ <;>
    simp [optSep, isSep, devKws, ofString, takeKw, dropKw, lowerAscii, isUpperAscii]

/-! ### post group -/

theorem post_some (n : Nat) (s : Str) (h : Stop1 s) : scanPost (postS (some n) ++ s) = (some n, s) := by
  have h1 : scanLetterGroup postKws (postS (some n) ++ s) = some (((), n), s) := by
    apply letterGroup_num _ _ _ _ _ _ h.noDigit
    simp [postS, optSep, isSep, postKws, ofString, takeKw, dropKw, lowerAscii, isUpperAscii]
  simp only [scanPost, h1]
  simp [postS]

theorem post_none (s : Str) (h : Stop1 s) : scanPost s = (none, s) := by
  have h1 : scanLetterGroup postKws s = none := by
    apply letterGroup_none
    rcases h with (rfl | ⟨t, rfl⟩) | ⟨t, rfl⟩ <;>
      simp [optSep, isSep, postKws, ofString, takeKw, dropKw, lowerAscii, isUpperAscii]
  simp only [scanPost, h1]
  rcases h with (rfl | ⟨t, rfl⟩) | ⟨t, rfl⟩ <;> simp

/-! ### pre group -/

theorem pre_some (l : PreL) (n : Nat) (s : Str) (h : Stop2 s) :
    scanLetterGroup preKws (preS (some (l, n)) ++ s) = some ((l, n), s) := by
  apply letterGroup_num _ _ _ _ _ _ h.noDigit
  obtain ⟨d, ds, hdec, hd⟩ := dec_head n
  have hb := digit_bounds hd
  have h1 : ¬ (65 ≤ d ∧ d ≤ 90) := by omega
  have h2 : d ≠ 108 := by omega
  have h3 : d ≠ 101 := by omega
  cases l <;>
    simp [preS, PreL.str, hdec, optSep, isSep, preKws, ofString, takeKw, dropKw, lowerAscii,
      isUpperAscii, h1, h2, h3]

theorem pre_none (s : Str) (h : Stop2 s) : scanLetterGroup preKws s = none := by
  apply letterGroup_none
  rcases h with ((rfl | ⟨t, rfl⟩) | ⟨t, rfl⟩) | ⟨t, rfl⟩ <;>
    simp [optSep, isSep, preKws, ofString, takeKw, dropKw, lowerAscii, isUpperAscii]

end V
