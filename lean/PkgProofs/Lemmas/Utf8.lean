import PkgModel.Email
/-!
# Strict UTF-8: the model's decoder is the inverse of the standard encoder on Unicode scalar values

`utf8Decode bs = some s ↔ every code point of s is a scalar value ∧ utf8Encode s = bs`
— so a byte string is accepted exactly when it is the (unique, shortest-form) encoding of a sequence of
scalar values: no overlong forms, no surrogates, nothing above U+10FFFF, no truncation.
-/
namespace Utf8
open Py Email
set_option linter.unusedSimpArgs false

def isScalar (c : Nat) : Bool := c < 0xD800 || (0xE000 ≤ c && c ≤ 0x10FFFF)

/-- the standard encoder (RFC 3629) -/
def enc1 (c : Nat) : List Nat :=
  if c < 0x80 then [c]
  else if c < 0x800 then [0xC0 + c / 64, 0x80 + c % 64]
  else if c < 0x10000 then [0xE0 + c / 4096, 0x80 + c / 64 % 64, 0x80 + c % 64]
  else [0xF0 + c / 262144, 0x80 + c / 4096 % 64, 0x80 + c / 64 % 64, 0x80 + c % 64]

def encode : Str → List Nat
  | [] => []
  | c :: s => enc1 c ++ encode s

theorem enc1_ne_nil (c : Nat) : enc1 c ≠ [] := by
  unfold enc1; split <;> (try split) <;> (try split) <;> simp

theorem next_enc (c : Nat) (r : List Nat) (h : isScalar c = true) : utf8Next (enc1 c ++ r) = some (c, r) := by
  simp only [isScalar, Bool.or_eq_true, Bool.and_eq_true, decide_eq_true_eq] at h
  unfold enc1
  split
  · rename_i h1
    simp only [List.singleton_append, utf8Next, h1, if_true]
  · split
    · rename_i h1 h2
      have a1 : ¬ (0xC0 + c / 64 < 0x80) := by omega
      have a2 : 0xC2 ≤ 0xC0 + c / 64 := by omega
      have a3 : 0xC0 + c / 64 ≤ 0xDF := by omega
      have a5 : 0x80 + c % 64 ≤ 0xBF := by omega
      simp [utf8Next, isCont, a1, a2, a3, a5]
      omega
    · split
      · rename_i h1 h2 h3
        have a1 : ¬ (0xE0 + c / 4096 < 0x80) := by omega
        have a2 : ¬ (0xE0 + c / 4096 ≤ 0xDF) := by omega
        have a3 : 0xE0 + c / 4096 ≤ 0xEF := by omega
        have a5 : 0x80 + c % 64 ≤ 0xBF := by omega
        have lo : secondLo (0xE0 + c / 4096) ≤ 0x80 + c / 64 % 64 := by
          unfold secondLo; split
          · rename_i e; simp only [beq_iff_eq] at e; omega
          · split
            · rename_i e; simp only [beq_iff_eq] at e; omega
            · omega
        have hi : 0x80 + c / 64 % 64 ≤ secondHi (0xE0 + c / 4096) := by
          unfold secondHi; split
          · rename_i e; simp only [beq_iff_eq] at e; omega
          · split
            · rename_i e; simp only [beq_iff_eq] at e; omega
            · omega
        simp only [utf8Next, List.cons_append, List.nil_append, a1, a2, a3, isCont, lo, hi, a5, if_false,
          Bool.and_eq_true, decide_eq_true_eq, decide_true, Bool.and_self, Bool.and_true, Bool.true_and,
          Nat.le_add_right, if_true, Option.some.injEq, Prod.mk.injEq, and_true, Bool.false_eq_true,
          Nat.reduceLeDiff, false_and]
        simp
        omega
      · rename_i h1 h2 h3
        have a1 : ¬ (0xF0 + c / 262144 < 0x80) := by omega
        have a2 : ¬ (0xF0 + c / 262144 ≤ 0xDF) := by omega
        have a3 : ¬ (0xF0 + c / 262144 ≤ 0xEF) := by omega
        have a4 : 0xF0 + c / 262144 ≤ 0xF4 := by omega
        have a5 : 0x80 + c % 64 ≤ 0xBF := by omega
        have a6 : 0x80 + c / 64 % 64 ≤ 0xBF := by omega
        have lo : secondLo (0xF0 + c / 262144) ≤ 0x80 + c / 4096 % 64 := by
          unfold secondLo; split
          · rename_i e; simp only [beq_iff_eq] at e; omega
          · split
            · rename_i e; simp only [beq_iff_eq] at e; omega
            · omega
        have hi : 0x80 + c / 4096 % 64 ≤ secondHi (0xF0 + c / 262144) := by
          unfold secondHi; split
          · rename_i e; simp only [beq_iff_eq] at e; omega
          · split
            · rename_i e; simp only [beq_iff_eq] at e; omega
            · omega
        simp only [utf8Next, List.cons_append, List.nil_append, a1, a2, a3, a4, isCont, lo, hi, a5, a6, if_false,
          Bool.and_eq_true, decide_eq_true_eq, decide_true, Bool.and_self, Bool.and_true, Bool.true_and,
          Nat.le_add_right, if_true, Option.some.injEq, Prod.mk.injEq, and_true, Bool.false_eq_true,
          Nat.reduceLeDiff, false_and]
        simp
        omega

theorem second_bounds {b0 b1 : Nat} (hlo : secondLo b0 ≤ b1) (hhi : b1 ≤ secondHi b0) :
    128 ≤ b1 ∧ b1 ≤ 191 ∧ (b0 = 224 → 160 ≤ b1) ∧ (b0 = 240 → 144 ≤ b1) ∧ (b0 = 237 → b1 ≤ 159) ∧
    (b0 = 244 → b1 ≤ 143) := by
  unfold secondLo at hlo
  unfold secondHi at hhi
  simp only [beq_iff_eq] at hlo hhi
  refine ⟨?_, ?_, ?_, ?_, ?_, ?_⟩
  · split at hlo <;> (try split at hlo) <;> omega
  · split at hhi <;> (try split at hhi) <;> omega
  · intro e; simp [e] at hlo; exact hlo
  · intro e; simp [e] at hlo; exact hlo
  · intro e; simp [e] at hhi; exact hhi
  · intro e; simp [e] at hhi; exact hhi

theorem next_dec (bs : List Nat) (c : Nat) (r : List Nat) (h : utf8Next bs = some (c, r)) :
    isScalar c = true ∧ bs = enc1 c ++ r := by
  unfold utf8Next at h
  split at h
  · cases h
  · rename_i b0 t
    split at h
    · rename_i h1
      simp only [Option.some.injEq, Prod.mk.injEq] at h
      obtain ⟨rfl, rfl⟩ := h
      simp [isScalar, enc1, h1]
      omega
    · split at h
      · rename_i h1 h2
        simp only [Bool.and_eq_true, decide_eq_true_eq] at h2
        split at h
        · rename_i b1 r1
          split at h
          · rename_i h3
            simp only [isCont, Bool.and_eq_true, decide_eq_true_eq] at h3
            simp only [Option.some.injEq, Prod.mk.injEq] at h
            obtain ⟨rfl, rfl⟩ := h
            have e1 : ¬ ((b0 - 192) * 64 + (b1 - 128) < 128) := by omega
            have e2 : (b0 - 192) * 64 + (b1 - 128) < 2048 := by omega
            have e3 : 192 + ((b0 - 192) * 64 + (b1 - 128)) / 64 = b0 := by omega
            have e4 : 128 + ((b0 - 192) * 64 + (b1 - 128)) % 64 = b1 := by omega
            refine ⟨?_, ?_⟩
            · simp only [isScalar, Bool.or_eq_true, decide_eq_true_eq]; left; omega
            · simp only [enc1, e1, e2, if_false, if_true, e3, e4, List.cons_append, List.nil_append]
          · cases h
        · cases h
      · split at h
        · rename_i h1 h2 h3
          simp only [Bool.and_eq_true, decide_eq_true_eq] at h3
          split at h
          · rename_i b1 b2 r2
            split at h
            · rename_i h4
              simp only [isCont, Bool.and_eq_true, decide_eq_true_eq] at h4
              simp only [Option.some.injEq, Prod.mk.injEq] at h
              obtain ⟨rfl, rfl⟩ := h
              obtain ⟨g1, g2, g3, _, g4, _⟩ := second_bounds h4.1.1 h4.1.2
              have e1 : ¬ ((b0 - 224) * 4096 + (b1 - 128) * 64 + (b2 - 128) < 128) := by omega
              have e2 : ¬ ((b0 - 224) * 4096 + (b1 - 128) * 64 + (b2 - 128) < 2048) := by omega
              have e3 : (b0 - 224) * 4096 + (b1 - 128) * 64 + (b2 - 128) < 65536 := by omega
              have e4 : 224 + ((b0 - 224) * 4096 + (b1 - 128) * 64 + (b2 - 128)) / 4096 = b0 := by omega
              have e5 : 128 + ((b0 - 224) * 4096 + (b1 - 128) * 64 + (b2 - 128)) / 64 % 64 = b1 := by omega
              have e6 : 128 + ((b0 - 224) * 4096 + (b1 - 128) * 64 + (b2 - 128)) % 64 = b2 := by omega
              refine ⟨?_, ?_⟩
              · simp only [isScalar, Bool.or_eq_true, Bool.and_eq_true, decide_eq_true_eq]; omega
              · simp only [enc1, e1, e2, e3, if_false, if_true, e4, e5, e6, List.cons_append, List.nil_append]
            · cases h
          · cases h
        · split at h
          · rename_i h1 h2 h3 h4
            simp only [Bool.and_eq_true, decide_eq_true_eq] at h4
            split at h
            · rename_i b1 b2 b3 r3
              split at h
              · rename_i h5
                simp only [isCont, Bool.and_eq_true, decide_eq_true_eq] at h5
                simp only [Option.some.injEq, Prod.mk.injEq] at h
                obtain ⟨rfl, rfl⟩ := h
                obtain ⟨g1, g2, _, g3, _, g4⟩ := second_bounds h5.1.1.1 h5.1.1.2
                have e1 : ¬ ((b0 - 240) * 262144 + (b1 - 128) * 4096 + (b2 - 128) * 64 + (b3 - 128) < 128) := by omega
                have e2 : ¬ ((b0 - 240) * 262144 + (b1 - 128) * 4096 + (b2 - 128) * 64 + (b3 - 128) < 2048) := by omega
                have e3 : ¬ ((b0 - 240) * 262144 + (b1 - 128) * 4096 + (b2 - 128) * 64 + (b3 - 128) < 65536) := by omega
                have e4 : 240 + ((b0 - 240) * 262144 + (b1 - 128) * 4096 + (b2 - 128) * 64 + (b3 - 128)) / 262144 = b0 := by omega
                have e5 : 128 + ((b0 - 240) * 262144 + (b1 - 128) * 4096 + (b2 - 128) * 64 + (b3 - 128)) / 4096 % 64 = b1 := by omega
                have e6 : 128 + ((b0 - 240) * 262144 + (b1 - 128) * 4096 + (b2 - 128) * 64 + (b3 - 128)) / 64 % 64 = b2 := by omega
                have e7 : 128 + ((b0 - 240) * 262144 + (b1 - 128) * 4096 + (b2 - 128) * 64 + (b3 - 128)) % 64 = b3 := by omega
                refine ⟨?_, ?_⟩
                · simp only [isScalar, Bool.or_eq_true, Bool.and_eq_true, decide_eq_true_eq]; omega
                · simp only [enc1, e1, e2, e3, if_false, e4, e5, e6, e7, List.cons_append, List.nil_append]
              · cases h
            · cases h
          · cases h

theorem enc1_length_pos (c : Nat) : 1 ≤ (enc1 c).length := by
  cases h : enc1 c with
  | nil => exact absurd h (enc1_ne_nil c)
  | cons _ _ => simp

theorem loop_encode (s : Str) : ∀ n, s.all isScalar = true → (encode s).length ≤ n → utf8Loop n (encode s) = some s := by
  induction s with
  | nil => intro n _ _; cases n <;> rfl
  | cons c t ih =>
    intro n hs hn
    simp only [List.all_cons, Bool.and_eq_true] at hs
    have hpos := enc1_length_pos c
    simp only [encode, List.length_append] at hn
    cases n with
    | zero => omega
    | succ m =>
      have hne : enc1 c ++ encode t ≠ [] := by
        intro e; exact enc1_ne_nil c (List.append_eq_nil_iff.mp e).1
      cases hb : enc1 c ++ encode t with
      | nil => exact absurd hb hne
      | cons b bs =>
        have hnext := next_enc c (encode t) hs.1
        rw [hb] at hnext
        simp only [encode, hb, utf8Loop, hnext]
        rw [ih m hs.2 (by omega)]
        rfl

theorem loop_sound : ∀ (n : Nat) (bs : List Nat) (s : Str), utf8Loop n bs = some s →
    s.all isScalar = true ∧ encode s = bs := by
  intro n
  induction n with
  | zero =>
    intro bs s h
    cases bs with
    | nil => simp only [utf8Loop, Option.some.injEq] at h; subst h; exact ⟨rfl, rfl⟩
    | cons b t => simp [utf8Loop] at h
  | succ m ih =>
    intro bs s h
    cases bs with
    | nil => simp only [utf8Loop, Option.some.injEq] at h; subst h; exact ⟨rfl, rfl⟩
    | cons b t =>
      simp only [utf8Loop] at h
      cases hn : utf8Next (b :: t) with
      | none => rw [hn] at h; cases h
      | some p =>
        obtain ⟨c, r⟩ := p
        rw [hn] at h
        simp only at h
        cases hl : utf8Loop m r with
        | none => rw [hl] at h; cases h
        | some s' =>
          rw [hl] at h
          simp only [Option.map_some, Option.some.injEq] at h
          subst h
          obtain ⟨h1, h2⟩ := ih r s' hl
          obtain ⟨h3, h4⟩ := next_dec _ _ _ hn
          exact ⟨by simp only [List.all_cons, h3, h1, Bool.and_self], by simp only [encode, h2, h4]⟩

/-- **strict UTF-8**: `bytes.decode("utf8", "strict")` as modelled accepts exactly the encodings of sequences
of Unicode scalar values, and returns that sequence -/
theorem utf8Decode_iff (bs : List Nat) (s : Str) :
    utf8Decode bs = some s ↔ (s.all isScalar = true ∧ encode s = bs) := by
  constructor
  · exact loop_sound _ bs s
  · rintro ⟨h1, rfl⟩
    exact loop_encode s _ h1 (Nat.le_refl _)

/-- every failure is a genuine one: a rejected byte string is not the encoding of any scalar sequence -/
theorem utf8Decode_none_iff (bs : List Nat) :
    utf8Decode bs = none ↔ ∀ s : Str, s.all isScalar = true → encode s ≠ bs := by
  constructor
  · intro h s hs he
    have := (utf8Decode_iff bs s).mpr ⟨hs, he⟩
    rw [h] at this; cases this
  · intro h
    cases hd : utf8Decode bs with
    | none => rfl
    | some s => exact absurd ((utf8Decode_iff bs s).mp hd).2 (h s ((utf8Decode_iff bs s).mp hd).1)

example : utf8Decode [0xe2, 0x82, 0xac, 0x41] = some [0x20ac, 0x41] := by decide +kernel
example : encode [0x20ac, 0x41, 0x10ffff] = [0xe2, 0x82, 0xac, 0x41, 0xf4, 0x8f, 0xbf, 0xbf] := by decide +kernel
end Utf8
