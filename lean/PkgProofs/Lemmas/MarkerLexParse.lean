import PkgProofs.Lemmas.MarkerLex
/-!
Lemmas for C09/C07 (character level): the parser on the canonical spelling of a printed marker list.
-/
namespace MkLexP
open Py Mk Pep508 MkParse MkFmt MkLex
set_option linter.unusedSimpArgs false

/-! ### spelling with an explicit previous token -/

def lastChar : Option Tok → Option Nat
  | none => none
  | some t => lastOr t.2 none

def sepS : Option Tok → Tok → Str
  | none, _ => []
  | some p, t => if noSpace p t then [] else [32]

def spellS : Option Tok → List Tok → Str
  | _, [] => []
  | p, t :: ts => sepS p t ++ (t.2 ++ spellS (some t) ts)

theorem spell_cons : (t : Tok) → (ts : List Tok) → spell (t :: ts) = t.2 ++ spellS (some t) ts
  | t, [] => by simp [spell, spellS]
  | t, t' :: ts => by
    simp only [spell, spellS, sepS, spell_cons t' ts, List.append_assoc]

theorem spell_eq_spellS (ts : List Tok) : spell ts = spellS none ts := by
  cases ts with
  | nil => rfl
  | cons t ts => simp [spell_cons, spellS, sepS]

/-- tokenizer state before the separator that precedes `ts` -/
def stP (p : Option Tok) (ts : List Tok) : St := ⟨lastChar p, spellS p ts⟩
/-- tokenizer state at the first character of `t` -/
def stA (p : Option Tok) (t : Tok) (ts : List Tok) : St :=
  ⟨if sepS p t = [] then lastChar p else some 32, t.2 ++ spellS (some t) ts⟩

theorem stP_eq_stA (p : Option Tok) (t : Tok) (ts : List Tok) (h : sepS p t = []) : stP p (t :: ts) = stA p t ts := by
  simp [stP, stA, spellS, h]

/-! ### canonical token lists -/

def adjOK (p : Option Tok) (t : Tok) : Prop :=
  ∀ q, p = some q → (q.1 = .ws → t.1 ≠ .ws) ∧ (q.1 = .kwNot → t.1 = .ws)

def CL : Option Tok → List Tok → Prop
  | _, [] => True
  | p, t :: ts => CanonTok t ∧ adjOK p t ∧ CL (some t) ts

def lastTok (ts : List Tok) (p : Option Tok) : Option Tok :=
  match ts.getLast? with
  | some t => some t
  | none => p

theorem lastTok_cons (t : Tok) (ts : List Tok) (p : Option Tok) : lastTok (t :: ts) p = lastTok ts (some t) := by
  cases ts with
  | nil => simp [lastTok]
  | cons a as =>
    have : ∃ l, (a :: as).getLast? = some l := by
      cases h : (a :: as).getLast? with
      | none => simp at h
      | some l => exact ⟨l, rfl⟩
    obtain ⟨l, hl⟩ := this
    simp [lastTok, List.getLast?_cons_cons, hl]

theorem CL_append : (xs ys : List Tok) → (p : Option Tok) → (CL p (xs ++ ys) ↔ CL p xs ∧ CL (lastTok xs p) ys)
  | [], ys, p => by simp [CL, lastTok]
  | x :: xs, ys, p => by
    simp only [List.cons_append, CL, lastTok_cons, CL_append xs ys (some x), and_assoc]

theorem canon_text (t : Tok) (h : CanonTok t) : ∃ c, t.2.head? = some c ∧ (t.1 ≠ .ws → c ≠ 9 ∧ c ≠ 32) ∧ c ≠ 10 := by
  cases h with
  | lp => exact ⟨40, rfl, fun _ => by decide, by decide⟩
  | rp => exact ⟨41, rfl, fun _ => by decide, by decide⟩
  | ws => exact ⟨32, rfl, fun h => absurd rfl h, by decide⟩
  | quoted q body hq hb => exact ⟨q, rfl, fun _ => by rcases hq with rfl | rfl <;> decide, by rcases hq with rfl | rfl <;> decide⟩
  | word t ht =>
    obtain ⟨c, hc, hn⟩ := wordToks_head t ht
    simp only [List.mem_cons, List.mem_nil_iff, or_false, not_or] at hn
    exact ⟨c, hc, fun _ => ⟨hn.2.2.2.2.2.1, hn.2.2.2.2.1⟩, hn.2.2.2.2.2.2⟩

theorem canon_ne (t : Tok) (h : CanonTok t) : t.2 ≠ [] := by
  obtain ⟨c, hc, _⟩ := canon_text t h
  intro e; rw [e] at hc; simp at hc

theorem canon_rule_rparen (t : Tok) (h : CanonTok t) (hr : t.1 = .rparen) : t = rp := by
  cases h with
  | lp => simp [lp] at hr
  | rp => rfl
  | ws => simp at hr
  | quoted => simp at hr
  | word t ht =>
    have := (wordToks_rule t ht).1
    rw [hr] at this; simp [wordRules] at this

theorem canon_rule_ws (t : Tok) (h : CanonTok t) (hr : t.1 = .ws) : t = (.ws, [32]) := by
  cases h with
  | lp => simp [lp] at hr
  | rp => simp [rp] at hr
  | ws => rfl
  | quoted => simp at hr
  | word t ht =>
    have := (wordToks_rule t ht).1
    rw [hr] at this; simp [wordRules] at this

theorem canon_rule_lparen (t : Tok) (h : CanonTok t) (hr : t.1 = .lparen) : t = lp := by
  cases h with
  | lp => rfl
  | rp => simp [rp] at hr
  | ws => simp at hr
  | quoted => simp at hr
  | word t ht =>
    have := (wordToks_rule t ht).1
    rw [hr] at this; simp [wordRules] at this

theorem isWordTok_not (t : Tok) (h : isWordTok t = true) : t.1 ≠ .rparen ∧ t.1 ≠ .ws ∧ t.1 ≠ .lparen := by
  simp only [isWordTok, Bool.or_eq_true, beq_iff_eq] at h
  rcases h with (((h | h) | h) | h) | h <;> simp [h]

/-- what follows a canonical token in the spelling is what the tokenizer lemma asks for -/
theorem follow_ok (t : Tok) (ts : List Tok) (h : CL (some t) ts) : FollowOK t (spellS (some t) ts) := by
  cases ts with
  | nil => exact ⟨fun _ => Or.inl rfl, fun _ c hc => by simp [spellS] at hc⟩
  | cons t' ts' =>
    obtain ⟨hc', hadj, _⟩ := h
    obtain ⟨c, hc, hcw, _⟩ := canon_text t' hc'
    have hne := canon_ne t' hc'
    have hadj := hadj t rfl
    constructor
    · intro hw
      obtain ⟨n1, n2, n3⟩ := isWordTok_not t hw
      by_cases hr : t'.1 = .rparen
      · have := canon_rule_rparen t' hc' hr; subst this
        right; right
        simp [spellS, sepS, noSpace, rp]
      · by_cases hws : t'.1 = .ws
        · have := canon_rule_ws t' hc' hws; subst this
          right; left
          simp [spellS, sepS, noSpace]
        · right; left
          have : noSpace t t' = false := by simp [noSpace, n1, n2, n3, hr, hws]
          simp [spellS, sepS, this]
    · intro hws c' hc2
      have hns : noSpace t t' = true := by simp [noSpace, hws]
      have hh : (spellS (some t) (t' :: ts')).head? = some c := by
        cases h2 : t'.2 with
        | nil => exact absurd h2 hne
        | cons a as => rw [h2] at hc; simp [spellS, sepS, hns, h2] at hc ⊢; exact hc
      rw [hh] at hc2; cases hc2
      exact hcw (hadj.1 hws)

theorem isWord_facts : isWord 32 = false ∧ isWord 40 = false := by decide +kernel

/-- before a word token the tokenizer sees no word character -/
theorem prev_ok (p : Option Tok) (hp : ∀ q, p = some q → CanonTok q) (t : Tok) (hw : isWordTok t = true) :
    isWordO (if sepS p t = [] then lastChar p else some 32) = false := by
  obtain ⟨n1, n2, _⟩ := isWordTok_not t hw
  cases p with
  | none => simp [sepS, lastChar, isWordO]
  | some q =>
    have hq := hp q rfl
    by_cases hn : noSpace q t = true
    · simp only [sepS, hn, if_true]
      simp only [noSpace, n1, n2, beq_iff_eq, Bool.or_false, Bool.or_eq_true, reduceCtorEq, or_false] at hn
      rcases hn with h | h
      · have := canon_rule_lparen q hq h; subst this
        simpa [lastChar, lp, lastOr, isWordO] using isWord_facts.2
      · have := canon_rule_ws q hq h; subst this
        simpa [lastChar, lastOr, isWordO] using isWord_facts.1
    · have : noSpace q t = false := by simpa using hn
      simpa [sepS, this, isWordO] using isWord_facts.1


/-! ### tokenizer operations on these states -/

theorem lastOr_append_ne (w : Str) (hw : w ≠ []) (p : Option Nat) : lastOr w p = lastOr w none :=
  lastOr_nonempty w hw p none

/-- `check(r)` at the first character of a canonical token -/
theorem check_A (p : Option Tok) (hp : ∀ q, p = some q → CanonTok q) (t : Tok) (ts : List Tok)
    (h : CL p (t :: ts)) (r : Rule) :
    St.check r (stA p t ts) = if r = t.1 then some (t.2, stP (some t) ts) else none := by
  obtain ⟨ht, _, hts⟩ := h
  have hl := lex t ht (stA p t ts).prev (spellS (some t) ts) (follow_ok t ts hts) (prev_ok p hp t) r
  have hne := canon_ne t ht
  have hrest : (stA p t ts).rest = t.2 ++ spellS (some t) ts := rfl
  unfold St.check
  rw [hrest, hl]
  by_cases hr : r = t.1
  · simp only [hr, if_true]
    simp [stP, lastChar, lastOr_append_ne t.2 hne]
  · simp [hr]

/-- `check(r)` at the end of the text -/
theorem check_end (p : Option Tok) (r : Rule) :
    St.check r (stP p []) = if r = .end_ then some ([], stP p []) else none := by
  have hfin : ∀ r ∈ finRules, matchRule r (lastChar p) [] = none := fun r hr =>
    fin_none_by_head r hr _ [] (by intro c h; simp at h)
  cases r <;> simp only [St.check, stP, spellS, reduceCtorEq, if_false, if_true]
  · rw [hfin .lparen (by decide)]
  · rw [hfin .rparen (by decide)]
  · simp [matchRule, matchQuoted, quoteChars_eq, List.findSome?]
  · rw [hfin .op (by decide)]
  · rw [hfin .boolop (by decide)]
  · rw [hfin .kwIn (by decide)]
  · rw [hfin .kwNot (by decide)]
  · rw [hfin .variable (by decide)]
  · simp [matchRule, matchWs]
  · simp [matchRule, matchEnd, lastOr]

/-- the state after `consume("WS")` in front of `ts` (no white-space token at the head) -/
def stC (p : Option Tok) : List Tok → St
  | [] => stP p []
  | t :: ts => stA p t ts

theorem consume_P (p : Option Tok) (ts : List Tok) (h : CL p ts) (hnw : ∀ t ts', ts = t :: ts' → t.1 ≠ .ws) :
    consume charTS .ws (stP p ts) = stC p ts := by
  cases ts with
  | nil => simp [consume, charTS, check_end, stC]
  | cons t ts' =>
    obtain ⟨ht, _, _⟩ := h
    obtain ⟨c, hc, hcw, _⟩ := canon_text t ht
    have hcw := hcw (hnw t ts' rfl)
    have hne := canon_ne t ht
    have hhead : (t.2 ++ spellS (some t) ts').head? = some c := by
      cases h2 : t.2 with
      | nil => exact absurd h2 hne
      | cons a as => rw [h2] at hc; simpa using hc
    by_cases hs : sepS p t = []
    · rw [stP_eq_stA p t ts' hs]
      have : matchWs (t.2 ++ spellS (some t) ts') = none := matchWs_none _ (by intro d hd; rw [hhead] at hd; cases hd; exact hcw)
      simp [consume, charTS, St.check, matchRule, stA, this, stC]
    · have hs32 : sepS p t = [32] := by
        cases p with
        | none => simp [sepS] at hs
        | some q => by_cases hn : noSpace q t = true <;> simp [sepS, hn] at hs ⊢
      have : matchWs (32 :: (t.2 ++ spellS (some t) ts')) = some 1 :=
        matchWs_one _ (by intro d hd; rw [hhead] at hd; cases hd; exact hcw)
      simp [consume, charTS, St.check, matchRule, stP, spellS, hs32, this, stC, stA, lastOr]

theorem consume_C (p : Option Tok) (hp : ∀ q, p = some q → CanonTok q) (ts : List Tok) (h : CL p ts)
    (hnw : ∀ t ts', ts = t :: ts' → t.1 ≠ .ws) :
    consume charTS .ws (stC p ts) = stC p ts := by
  cases ts with
  | nil => simp [consume, charTS, check_end, stC]
  | cons t ts' =>
    have := check_A p hp t ts' h .ws
    have hne : Rule.ws ≠ t.1 := fun e => hnw t ts' rfl e.symm
    simp [consume, charTS, stC, this, hne]


/-! ### canonical comparisons -/

def CanonNode : Node → Prop
  | .var s => s ∈ canonicalVars
  | .val s => PlainStr s ∧ ¬ (s.contains 34 = true ∧ s.contains 39 = true)

def CanonOp (op : Str) : Prop := op ∈ Gen.MarkerTok.rOp.2.1 ∨ op = s_in ∨ op = s_not_in

def CanonAtom (a : Atom) : Prop := CanonNode a.lhs ∧ CanonOp a.op ∧ CanonNode a.rhs

instance (n : Node) : Decidable (CanonNode n) := by cases n <;> (unfold CanonNode; infer_instance)
instance (op : Str) : Decidable (CanonOp op) := by unfold CanonOp; infer_instance
instance (a : Atom) : Decidable (CanonAtom a) := by unfold CanonAtom; infer_instance

theorem canonicalVars_fixed : ∀ s ∈ canonicalVars, processEnvVar s = .var s := by decide

theorem canonNode_plain (n : Node) (h : CanonNode n) : PlainNode n := by
  cases n with
  | var s => exact canonicalVars_fixed s h
  | val s => exact h.1

theorem canonTok_node (n : Node) (h : CanonNode n) : CanonTok (nodeTok n) := by
  cases n with
  | var s =>
    apply CanonTok.word
    simp only [nodeTok, wordToks, List.mem_append, List.mem_map]
    exact Or.inl (Or.inl ⟨s, h, rfl⟩)
  | val s =>
    obtain ⟨_, hq⟩ := h
    by_cases hc : s.contains 34 = true
    · have h39 : s.contains 39 = false := by
        cases h : s.contains 39 with
        | true => exact absurd ⟨hc, h⟩ hq
        | false => rfl
      have e : nodeTok (.val s) = (.quoted, 39 :: (s ++ [39])) := by
        show (Rule.quoted, (if s.contains 34 then [39] ++ s ++ [39] else [34] ++ s ++ [34])) = _
        rw [if_pos hc]; simp
      rw [e]; exact CanonTok.quoted 39 s (Or.inr rfl) h39
    · have h34 : s.contains 34 = false := by simpa using hc
      have e : nodeTok (.val s) = (.quoted, 34 :: (s ++ [34])) := by
        show (Rule.quoted, (if s.contains 34 then [39] ++ s ++ [39] else [34] ++ s ++ [34])) = _
        rw [if_neg hc]; simp
      rw [e]; exact CanonTok.quoted 34 s (Or.inl rfl) h34

theorem nodeTok_neutral (n : Node) : (nodeTok n).1 ≠ .ws ∧ (nodeTok n).1 ≠ .kwNot ∧ (nodeTok n).1 ≠ .rparen := by
  cases n <;> simp [nodeTok]

/-- tokens that put no constraint on their successor -/
def Neutral (p : Option Tok) : Prop := ∀ q, p = some q → q.1 ≠ .ws ∧ q.1 ≠ .kwNot

theorem adjOK_of_neutral (p : Option Tok) (h : Neutral p) (t : Tok) : adjOK p t := by
  intro q hq
  obtain ⟨h1, h2⟩ := h q hq
  exact ⟨fun e => absurd e h1, fun e => absurd e h2⟩

theorem rOp_not_kw : ∀ w ∈ Gen.MarkerTok.rOp.2.1, (w == s_in) = false ∧ (w == s_not_in) = false := by decide

theorem CL_opToks (p : Option Tok) (hp : Neutral p) (op : Str) (h : CanonOp op) :
    CL p (opToks op) ∧ Neutral (lastTok (opToks op) p) := by
  unfold opToks
  rcases h with h | h | h
  · obtain ⟨e1, e2⟩ := rOp_not_kw op h
    simp only [e1, e2, Bool.false_eq_true, if_false]
    refine ⟨⟨CanonTok.word _ (by simp [wordToks, h]), adjOK_of_neutral p hp _, trivial⟩, ?_⟩
    intro q hq; simp [lastTok] at hq; subst hq; simp
  · subst h
    simp only [beq_self_eq_true, if_true]
    refine ⟨⟨CanonTok.word _ (by decide), adjOK_of_neutral p hp _, trivial⟩, ?_⟩
    intro q hq; simp [lastTok] at hq; subst hq; simp
  · subst h
    have e1 : (s_not_in == s_in) = false := by decide
    simp only [e1, Bool.false_eq_true, if_false, beq_self_eq_true, if_true]
    refine ⟨⟨CanonTok.word _ (by decide), adjOK_of_neutral p hp _, CanonTok.ws, ?_, CanonTok.word _ (by decide), ?_, trivial⟩, ?_⟩
    · intro q hq; cases hq; simp
    · intro q hq; cases hq; simp
    · intro q hq; simp [lastTok] at hq; subst hq; simp

theorem lastTok_append (xs ys : List Tok) (p : Option Tok) : lastTok (xs ++ ys) p = lastTok ys (lastTok xs p) := by
  induction xs generalizing p with
  | nil => simp [lastTok]
  | cons x xs ih => simp only [List.cons_append, lastTok_cons, ih]

theorem neutral_node (n : Node) : Neutral (some (nodeTok n)) := by
  intro q hq; cases hq; exact ⟨(nodeTok_neutral n).1, (nodeTok_neutral n).2.1⟩

theorem CL_atomToks (p : Option Tok) (hp : Neutral p) (a : Atom) (h : CanonAtom a) :
    CL p (atomToks a) ∧ lastTok (atomToks a) p = some (nodeTok a.rhs) := by
  obtain ⟨hl, ho, hr⟩ := h
  obtain ⟨c1, c2⟩ := CL_opToks (some (nodeTok a.lhs)) (neutral_node a.lhs) a.op ho
  constructor
  · show CL p (nodeTok a.lhs :: (opToks a.op ++ [nodeTok a.rhs]))
    refine ⟨canonTok_node _ hl, adjOK_of_neutral p hp _, ?_⟩
    rw [CL_append]
    exact ⟨c1, canonTok_node _ hr, adjOK_of_neutral _ c2 _, trivial⟩
  · show lastTok (nodeTok a.lhs :: (opToks a.op ++ [nodeTok a.rhs])) p = _
    rw [lastTok_cons, lastTok_append]; simp [lastTok]


/-! ### the item parser on characters -/

theorem check_charTS (r : Rule) (st : St) : charTS.check r st = St.check r st := rfl

theorem parseVar_char (p : Option Tok) (hp : ∀ q, p = some q → CanonTok q) (n : Node) (hn : CanonNode n)
    (ts : List Tok) (h : CL p (nodeTok n :: ts)) :
    parseVar charTS (stA p (nodeTok n) ts) = .ok (n, stP (some (nodeTok n)) ts) := by
  have hv := check_A p hp (nodeTok n) ts h .variable
  have hq := check_A p hp (nodeTok n) ts h .quoted
  cases n with
  | var s =>
    have : processEnvVar s = .var s := canonicalVars_fixed s hn
    simp only [nodeTok] at hv hq ⊢
    simp [parseVar, check_charTS, hv, this]
  | val s =>
    have hpl : pyStrLit (Node.val s).serialize = .ok s := pyStrLit_serialize s hn.1
    simp only [nodeTok] at hv hq ⊢
    simp [parseVar, check_charTS, hv, hq, hpl]

theorem tok_canon_of_CL {p : Option Tok} {t : Tok} {ts : List Tok} (h : CL p (t :: ts)) : CanonTok t := h.1

theorem parseOp_char (p : Option Tok) (hp : ∀ q, p = some q → CanonTok q) (op : Str) (ho : CanonOp op)
    (ts : List Tok) (h : CL p (opToks op ++ ts)) :
    ∃ t₀ ts₀, opToks op ++ ts = t₀ :: ts₀ ∧
      parseOp charTS (stA p t₀ ts₀) = .ok (op, stP (lastTok (opToks op) p) ts) := by
  unfold opToks at h ⊢
  rcases ho with ho | ho | ho
  · obtain ⟨e1, e2⟩ := rOp_not_kw op ho
    simp only [e1, e2, Bool.false_eq_true, if_false, List.singleton_append] at h ⊢
    refine ⟨_, _, rfl, ?_⟩
    have c1 := check_A p hp _ ts h .kwIn
    have c2 := check_A p hp _ ts h .kwNot
    have c3 := check_A p hp _ ts h .op
    simp [parseOp, check_charTS, c1, c2, c3, lastTok]
  · subst ho
    simp only [beq_self_eq_true, if_true, List.singleton_append] at h ⊢
    refine ⟨_, _, rfl, ?_⟩
    have c1 := check_A p hp _ ts h .kwIn
    simp [parseOp, check_charTS, c1, lastTok]
  · subst ho
    have e1 : (s_not_in == s_in) = false := by decide
    simp only [e1, Bool.false_eq_true, if_false, beq_self_eq_true, if_true, List.cons_append, List.nil_append] at h ⊢
    refine ⟨_, _, rfl, ?_⟩
    have c1 := check_A p hp _ _ h .kwIn
    have c2 := check_A p hp _ _ h .kwNot
    obtain ⟨hnot, _, h2⟩ := h
    have hp2 : ∀ q, some (Rule.kwNot, ([110, 111, 116] : Str)) = some q → CanonTok q := by intro q hq; cases hq; exact hnot
    have s1 : stP (some (Rule.kwNot, [110, 111, 116])) ((Rule.ws, [32]) :: (Rule.kwIn, s_in) :: ts) =
        stA (some (Rule.kwNot, [110, 111, 116])) (Rule.ws, [32]) ((Rule.kwIn, s_in) :: ts) :=
      stP_eq_stA _ _ _ (by simp [sepS, noSpace])
    have c3 := check_A _ hp2 _ _ h2 .ws
    obtain ⟨hws, _, h3⟩ := h2
    have hp3 : ∀ q, some (Rule.ws, ([32] : Str)) = some q → CanonTok q := by intro q hq; cases hq; exact hws
    have s2 : stP (some (Rule.ws, [32])) ((Rule.kwIn, s_in) :: ts) = stA (some (Rule.ws, [32])) (Rule.kwIn, s_in) ts :=
      stP_eq_stA _ _ _ (by simp [sepS, noSpace])
    have c4 := check_A _ hp3 _ _ h3 .kwIn
    simp [parseOp, check_charTS, c1, c2, s1, c3, s2, c4, lastTok]


theorem canon_lastTok : (xs : List Tok) → (p : Option Tok) → CL p xs → (∀ q, p = some q → CanonTok q) →
    ∀ q, lastTok xs p = some q → CanonTok q
  | [], p, _, hp => by simpa [lastTok] using hp
  | x :: xs, p, h, _ => by
    rw [lastTok_cons]
    exact canon_lastTok xs (some x) h.2.2 (by intro q hq; cases hq; exact h.1)

theorem opToks_head_not_ws (op : Str) (X : List Tok) : ∀ t ts', opToks op ++ X = t :: ts' → t.1 ≠ .ws := by
  intro t ts' h
  unfold opToks at h
  by_cases h1 : (op == s_in) = true
  · simp [h1] at h; rw [← h.1]; simp
  · by_cases h2 : (op == s_not_in) = true
    · simp [h1, h2] at h; rw [← h.1]; simp
    · simp [h1, h2] at h; rw [← h.1]; simp

/-- `_parse_marker_item` on the spelling of a canonical comparison -/
theorem parseItem_char (p : Option Tok) (hp : ∀ q, p = some q → CanonTok q) (a : Atom) (ha : CanonAtom a)
    (rest : List Tok) (hcl : CL p (atomToks a ++ rest)) (hrest : ∀ t ts', rest = t :: ts' → t.1 ≠ .ws)
    (s : St) (hs : consume charTS .ws s = stC p (atomToks a ++ rest)) :
    parseItem charTS s = .ok (a, stC (some (nodeTok a.rhs)) rest) := by
  obtain ⟨l, o, r⟩ := a
  obtain ⟨hl, ho, hr⟩ := ha
  simp only at hl ho hr
  have e0 : atomToks ⟨l, o, r⟩ ++ rest = nodeTok l :: (opToks o ++ (nodeTok r :: rest)) := by simp [atomToks]
  rw [e0] at hcl hs
  have hcl1 : CL (some (nodeTok l)) (opToks o ++ (nodeTok r :: rest)) := hcl.2.2
  have hp1 : ∀ q, some (nodeTok l) = some q → CanonTok q := by intro q hq; cases hq; exact hcl.1
  obtain ⟨t₀, ts₀, e1, hop⟩ := parseOp_char (some (nodeTok l)) hp1 o ho (nodeTok r :: rest) hcl1
  have hcl2 : CL (lastTok (opToks o) (some (nodeTok l))) (nodeTok r :: rest) := ((CL_append _ _ _).mp hcl1).2
  have hp2 := canon_lastTok (opToks o) (some (nodeTok l)) ((CL_append _ _ _).mp hcl1).1 hp1
  have hp3 : ∀ q, some (nodeTok r) = some q → CanonTok q := by intro q hq; cases hq; exact hcl2.1
  unfold parseItem
  simp only [hs, stC, parseVar_char p hp l hl _ hcl, bind, Except.bind]
  rw [consume_P _ _ hcl1 (opToks_head_not_ws o _), e1]
  simp only [stC, hop]
  rw [consume_P _ _ hcl2 (by intro t ts' h; cases h; exact (nodeTok_neutral r).1)]
  simp only [stC, parseVar_char _ hp2 r hr _ hcl2]
  rw [consume_P _ _ hcl2.2.2 hrest]
  rfl


/-! ### the recursive-descent parser on the spelling of a printed list -/

def HeadNotWs (ts : List Tok) : Prop := ∀ t ts', ts = t :: ts' → t.1 ≠ .ws
def HeadNotBool (ts : List Tok) : Prop := ∀ t ts', ts = t :: ts' → t.1 ≠ .boolop

theorem headNotWs_item (m : M) (f : Formula) (h : fOfM m = some f) (rest : List Tok) : HeadNotWs (printM m ++ rest) := by
  intro t ts' e
  obtain ⟨t0, ts0, e0, h1, _⟩ := head_item m f h rest
  rw [e0] at e; cases e
  rcases h1 with h1 | h1 | h1 <;> simp [h1]

theorem headNotWs_list (l : List M) (f : Formula) (h : fOfL l = some f) (rest : List Tok) : HeadNotWs (printL l ++ rest) := by
  cases l with
  | nil => simp [fOfL] at h
  | cons m ms =>
    simp only [fOfL] at h
    cases hm : fOfM m with
    | none => simp [hm] at h
    | some fm =>
      simp only [printL, List.append_assoc]
      exact headNotWs_item m fm hm _

theorem headNotWs_tail (r : List M) (o : Option Formula) (a f : Formula) (h : fOfRest r o a = some f)
    (rest : List Tok) (hr : HeadNotWs rest) : HeadNotWs (printL r ++ rest) := by
  cases r with
  | nil => simpa [printL] using hr
  | cons b r' =>
    cases b with
    | bool s => intro t ts' e; simp [printL, printM] at e; rw [← e.1]; simp
    | atom _ => cases r' <;> simp [fOfRest] at h
    | list _ => cases r' <;> simp [fOfRest] at h

theorem check_C_ne (p : Option Tok) (hp : ∀ q, p = some q → CanonTok q) (ts : List Tok) (h : CL p ts) (r : Rule)
    (hr : r ≠ .end_) (hh : ∀ t ts', ts = t :: ts' → t.1 ≠ r) : St.check r (stC p ts) = none := by
  cases ts with
  | nil => simp [stC, check_end, hr]
  | cons t ts' =>
    have := check_A p hp t ts' h r
    have hne : r ≠ t.1 := fun e => hh t ts' rfl e.symm
    simp [stC, this, hne]

theorem lastTok_atom (a : Atom) (p : Option Tok) : lastTok (atomToks a) p = some (nodeTok a.rhs) := by
  show lastTok (nodeTok a.lhs :: (opToks a.op ++ [nodeTok a.rhs])) p = _
  rw [lastTok_cons, lastTok_append]; simp [lastTok]

theorem lastTok_parens (ts : List Tok) (p : Option Tok) : lastTok (lp :: (ts ++ [rp])) p = some rp := by
  rw [lastTok_cons, lastTok_append]; simp [lastTok]

theorem stC_cons (p : Option Tok) (t : Tok) (ts : List Tok) : stC p (t :: ts) = stA p t ts := rfl

mutual
theorem item_ppc : (m : M) → (f : Formula) → fOfM m = some f → (∀ a ∈ atomsM m, CanonAtom a) →
    (fuel : Nat) → sizeM m ≤ fuel → (p : Option Tok) → (∀ q, p = some q → CanonTok q) → (rest : List Tok) → HeadNotWs rest →
    CL p (printM m ++ rest) → (s : St) → consume charTS .ws s = stC p (printM m ++ rest) →
    parseAtom charTS fuel s = .ok (m, stC (lastTok (printM m) p) rest)
  | .bool _, f, h, _, _, _, _, _, _, _, _, _, _ => by simp [fOfM] at h
  | .atom a, f, h, hc, fuel, hf, p, hp, rest, hr, hcl, s, hs => by
    cases fuel with
    | zero => simp [sizeM] at hf
    | succ n =>
      have ha : CanonAtom a := hc a (by simp [atomsM])
      have hnw := headNotWs_item (.atom a) f h rest
      simp only [printM] at hcl hs hnw ⊢
      have hlp : St.check .lparen (stC p (atomToks a ++ rest)) = none :=
        check_C_ne p hp _ hcl .lparen (by decide) (by
          intro t ts' e
          have : atomToks a ++ rest = nodeTok a.lhs :: (opToks a.op ++ [nodeTok a.rhs] ++ rest) := by simp [atomToks]
          rw [this] at e; cases e
          cases a.lhs <;> simp [nodeTok])
      have hi := parseItem_char p hp a ha rest hcl hr (stC p (atomToks a ++ rest)) (consume_C p hp _ hcl hnw)
      have hcl' : CL (some (nodeTok a.rhs)) rest := by
        have := ((CL_append _ _ _).mp hcl).2
        rwa [lastTok_atom] at this
      have hp' : ∀ q, some (nodeTok a.rhs) = some q → CanonTok q := by
        have := canon_lastTok _ p ((CL_append _ _ _).mp hcl).1 hp
        rwa [lastTok_atom] at this
      simp only [parseAtom, hs, check_charTS, hlp, hi, bind, Except.bind, pure, Except.pure]
      rw [consume_C _ hp' _ hcl' hr, lastTok_atom]
  | .list l, f, h, hc, fuel, hf, p, hp, rest, hr, hcl, s, hs => by
    cases fuel with
    | zero => simp [sizeM] at hf
    | succ n =>
      simp only [fOfM] at h
      simp only [sizeM] at hf
      have e0 : printM (.list l) ++ rest = lp :: (printL l ++ rp :: rest) := by simp [printM]
      rw [e0] at hcl hs
      have hcl1 : CL (some lp) (printL l ++ rp :: rest) := hcl.2.2
      have hp1 : ∀ q, some lp = some q → CanonTok q := by intro q hq; cases hq; exact CanonTok.lp
      have hnw1 := headNotWs_list l f h (rp :: rest)
      have hrp : HeadNotWs (rp :: rest) := by intro t ts' e; cases e; simp [rp]
      have hrpb : HeadNotBool (rp :: rest) := by intro t ts' e; cases e; simp [rp]
      have hl := list_ppc l f h (fun a ha => hc a (by simpa [atomsM] using ha)) n (by omega) (some lp) hp1 (rp :: rest)
        hrp hrpb hcl1 (stC (some lp) (printL l ++ rp :: rest)) (consume_C _ hp1 _ hcl1 hnw1)
      have hcl2 : CL (lastTok (printL l) (some lp)) (rp :: rest) := ((CL_append _ _ _).mp hcl1).2
      have hp2 := canon_lastTok _ (some lp) ((CL_append _ _ _).mp hcl1).1 hp1
      have hp3 : ∀ q, some rp = some q → CanonTok q := by intro q hq; cases hq; exact CanonTok.rp
      have c1 : St.check .lparen (stA p lp (printL l ++ rp :: rest)) = some (lp.2, stP (some lp) (printL l ++ rp :: rest)) := by
        rw [check_A p hp lp _ hcl .lparen]; rfl
      have c2 : St.check .rparen (stA (lastTok (printL l) (some lp)) rp rest) = some (rp.2, stP (some rp) rest) := by
        rw [check_A _ hp2 rp rest hcl2 .rparen]; rfl
      simp only [parseAtom, hs, stC_cons, check_charTS, c1]
      rw [consume_P _ _ hcl1 hnw1]
      simp only [hl, bind, Except.bind]
      rw [consume_C _ hp2 _ hcl2 hrp]
      simp only [stC_cons, c2, pure, Except.pure]
      rw [consume_P _ _ hcl2.2.2 hr]
      rw [show printM (.list l) = lp :: (printL l ++ [rp]) from rfl, lastTok_parens]
theorem list_ppc : (l : List M) → (f : Formula) → fOfL l = some f → (∀ a ∈ atomsL l, CanonAtom a) →
    (fuel : Nat) → sizeL l ≤ fuel → (p : Option Tok) → (∀ q, p = some q → CanonTok q) → (rest : List Tok) →
    HeadNotWs rest → HeadNotBool rest → CL p (printL l ++ rest) → (s : St) → consume charTS .ws s = stC p (printL l ++ rest) →
    parseMarker charTS fuel s = .ok (l, stC (lastTok (printL l) p) rest)
  | [], f, h, _, _, _, _, _, _, _, _, _, _, _ => by simp [fOfL] at h
  | m :: r, f, h, hc, fuel, hf, p, hp, rest, hr, hb, hcl, s, hs => by
    cases fuel with
    | zero => simp [sizeL] at hf
    | succ n =>
      simp only [fOfL] at h
      simp only [sizeL] at hf
      cases hm : fOfM m with
      | none => simp [hm] at h
      | some fm =>
        simp only [hm] at h
        have e0 : printL (m :: r) ++ rest = printM m ++ (printL r ++ rest) := by simp [printL]
        rw [e0] at hcl hs
        have hi := item_ppc m fm hm (fun a ha => hc a (by simp [atomsL, ha])) n (by omega) p hp (printL r ++ rest)
          (headNotWs_tail r none fm f h rest hr) hcl s hs
        have hcl1 : CL (lastTok (printM m) p) (printL r ++ rest) := ((CL_append _ _ _).mp hcl).2
        have hp1 := canon_lastTok _ p ((CL_append _ _ _).mp hcl).1 hp
        have hrest := rest_ppc r none fm f h (fun a ha => hc a (by simp [atomsL, ha])) n (by omega) [m]
          (lastTok (printM m) p) hp1 rest hr hb hcl1
        simp only [parseMarker, hi, bind, Except.bind, hrest]
        simp [printL, lastTok_append]
theorem rest_ppc : (r : List M) → (o : Option Formula) → (a f : Formula) → fOfRest r o a = some f →
    (∀ x ∈ atomsL r, CanonAtom x) → (fuel : Nat) → sizeL r ≤ fuel → (acc : List M) →
    (p : Option Tok) → (∀ q, p = some q → CanonTok q) → (rest : List Tok) → HeadNotWs rest → HeadNotBool rest →
    CL p (printL r ++ rest) →
    parseRest charTS fuel acc (stC p (printL r ++ rest)) = .ok (acc ++ r, stC (lastTok (printL r) p) rest)
  | [], o, a, f, h, hc, fuel, hf, acc, p, hp, rest, hr, hb, hcl => by
    cases fuel with
    | zero => simp [sizeL] at hf
    | succ n =>
      simp only [printL, List.nil_append] at hcl ⊢
      have := check_C_ne p hp rest hcl .boolop (by decide) hb
      simp [parseRest, check_charTS, this, lastTok]
  | [_], _, _, _, h, _, _, _, _, _, _, _, _, _, _ => by simp [fOfRest] at h
  | .atom _ :: _ :: _, _, _, _, h, _, _, _, _, _, _, _, _, _, _ => by simp [fOfRest] at h
  | .list _ :: _ :: _, _, _, _, h, _, _, _, _, _, _, _, _, _, _ => by simp [fOfRest] at h
  | .bool s :: m :: r, o, a, f, h, hc, fuel, hf, acc, p, hp, rest, hr, hb, hcl => by
    cases fuel with
    | zero => simp [sizeL] at hf
    | succ n =>
      simp only [fOfRest] at h
      simp only [sizeL, sizeM] at hf
      cases hm : fOfM m with
      | none => simp [hm] at h
      | some fm =>
        simp only [hm] at h
        have hcr : ∀ x ∈ atomsL r, CanonAtom x := fun x hx => hc x (by simp [atomsL, atomsM, hx])
        have hcm : ∀ x ∈ atomsM m, CanonAtom x := fun x hx => hc x (by simp [atomsL, atomsM, hx])
        have e0 : printL (.bool s :: m :: r) ++ rest = (Rule.boolop, s) :: (printM m ++ (printL r ++ rest)) := by
          simp [printL, printM]
        rw [e0] at hcl
        have hpb : ∀ q, some (Rule.boolop, s) = some q → CanonTok q := by intro q hq; cases hq; exact hcl.1
        have hcl1 : CL (some (Rule.boolop, s)) (printM m ++ (printL r ++ rest)) := hcl.2.2
        have key : ∀ o' a', fOfRest r o' a' = some f →
            parseRest charTS (n + 1) acc (stC p (printL (.bool s :: m :: r) ++ rest)) =
              .ok (acc ++ (.bool s :: m :: r), stC (lastTok (printL (.bool s :: m :: r)) p) rest) := by
          intro o' a' h'
          have hnw := headNotWs_item m fm hm (printL r ++ rest)
          have hi := item_ppc m fm hm hcm n (by omega) (some (Rule.boolop, s)) hpb (printL r ++ rest)
            (headNotWs_tail r o' a' f h' rest hr) hcl1 (stP (some (Rule.boolop, s)) (printM m ++ (printL r ++ rest)))
            (consume_P _ _ hcl1 hnw)
          have hcl2 : CL (lastTok (printM m) (some (Rule.boolop, s))) (printL r ++ rest) := ((CL_append _ _ _).mp hcl1).2
          have hp2 := canon_lastTok _ _ ((CL_append _ _ _).mp hcl1).1 hpb
          have hrest := rest_ppc r o' a' f h' hcr n (by omega) (acc ++ [.bool s, m]) _ hp2 rest hr hb hcl2
          have c1 := check_A p hp (Rule.boolop, s) _ hcl .boolop
          rw [e0]
          simp only [parseRest, stC_cons, check_charTS, c1, if_true, hi, bind, Except.bind, hrest]
          simp [printL, printM, lastTok_cons, lastTok_append]
        by_cases hs : (s == s_and) = true
        · simp only [hs, if_true] at h
          exact key _ _ h
        · simp only [hs] at h
          by_cases hs2 : (s == s_or) = true
          · simp only [hs2, if_true, Bool.false_eq_true, if_false] at h
            exact key _ _ h
          · simp [hs2] at h
end


/-! ### printed lists are canonical token lists -/

theorem neutral_some (t : Tok) (h1 : t.1 ≠ .ws) (h2 : t.1 ≠ .kwNot) : Neutral (some t) := by
  intro q hq; cases hq; exact ⟨h1, h2⟩

theorem CL_snoc_neutral (xs : List Tok) (p : Option Tok) (t : Tok) (h : CL p xs) (hn : Neutral (lastTok xs p)) (ht : CanonTok t) :
    CL p (xs ++ [t]) := by
  rw [CL_append]; exact ⟨h, ht, adjOK_of_neutral _ hn _, trivial⟩

mutual
theorem CL_printM : (m : M) → (f : Formula) → fOfM m = some f → (∀ a ∈ atomsM m, CanonAtom a) → (p : Option Tok) → Neutral p →
    CL p (printM m) ∧ Neutral (lastTok (printM m) p)
  | .bool _, f, h, _, _, _ => by simp [fOfM] at h
  | .atom a, f, h, hc, p, hp => by
    obtain ⟨c1, c2⟩ := CL_atomToks p hp a (hc a (by simp [atomsM]))
    exact ⟨c1, by rw [printM, c2]; exact neutral_node a.rhs⟩
  | .list l, f, h, hc, p, hp => by
    simp only [fOfM] at h
    obtain ⟨c1, c2⟩ := CL_printL l f h (fun a ha => hc a (by simpa [atomsM] using ha)) (some lp) (neutral_some lp (by decide) (by decide))
    refine ⟨⟨CanonTok.lp, adjOK_of_neutral p hp _, CL_snoc_neutral _ _ rp c1 c2 CanonTok.rp⟩, ?_⟩
    rw [printM, lastTok_parens]; exact neutral_some rp (by decide) (by decide)
theorem CL_printL : (l : List M) → (f : Formula) → fOfL l = some f → (∀ a ∈ atomsL l, CanonAtom a) → (p : Option Tok) → Neutral p →
    CL p (printL l) ∧ Neutral (lastTok (printL l) p)
  | [], f, h, _, _, _ => by simp [fOfL] at h
  | m :: r, f, h, hc, p, hp => by
    simp only [fOfL] at h
    cases hm : fOfM m with
    | none => simp [hm] at h
    | some fm =>
      simp only [hm] at h
      obtain ⟨c1, c2⟩ := CL_printM m fm hm (fun a ha => hc a (by simp [atomsL, ha])) p hp
      obtain ⟨d1, d2⟩ := CL_printR r none fm f h (fun a ha => hc a (by simp [atomsL, ha])) _ c2
      simp only [printL, CL_append, lastTok_append]
      exact ⟨⟨c1, d1⟩, d2⟩
theorem CL_printR : (r : List M) → (o : Option Formula) → (a f : Formula) → fOfRest r o a = some f →
    (∀ x ∈ atomsL r, CanonAtom x) → (p : Option Tok) → Neutral p → CL p (printL r) ∧ Neutral (lastTok (printL r) p)
  | [], _, _, _, _, _, p, hp => by simpa [printL, CL, lastTok] using hp
  | [_], _, _, _, h, _, _, _ => by simp [fOfRest] at h
  | .atom _ :: _ :: _, _, _, _, h, _, _, _ => by simp [fOfRest] at h
  | .list _ :: _ :: _, _, _, _, h, _, _, _ => by simp [fOfRest] at h
  | .bool s :: m :: r, o, a, f, h, hc, p, hp => by
    simp only [fOfRest] at h
    cases hm : fOfM m with
    | none => simp [hm] at h
    | some fm =>
      simp only [hm] at h
      have hs : s = s_and ∨ s = s_or := by
        by_cases h1 : (s == s_and) = true
        · exact Or.inl (by simpa using h1)
        · by_cases h2 : (s == s_or) = true
          · exact Or.inr (by simpa using h2)
          · simp [h1, h2] at h
      have hb : CanonTok (Rule.boolop, s) := by
        rcases hs with rfl | rfl <;> exact CanonTok.word _ (by decide)
      have hnb : Neutral (some (Rule.boolop, s)) := neutral_some _ (by simp) (by simp)
      obtain ⟨c1, c2⟩ := CL_printM m fm hm (fun x hx => hc x (by simp [atomsL, atomsM, hx])) _ hnb
      have hrest : ∃ o' a', fOfRest r o' a' = some f := by
        by_cases h1 : (s == s_and) = true
        · simp only [h1, if_true] at h; exact ⟨_, _, h⟩
        · simp only [h1, Bool.false_eq_true, if_false] at h
          by_cases h2 : (s == s_or) = true
          · simp only [h2, if_true] at h; exact ⟨_, _, h⟩
          · simp [h2] at h
      obtain ⟨o', a', h'⟩ := hrest
      obtain ⟨d1, d2⟩ := CL_printR r o' a' f h' (fun x hx => hc x (by simp [atomsL, atomsM, hx])) _ c2
      simp only [printL, printM, List.cons_append, List.nil_append, CL, lastTok_cons, CL_append, lastTok_append]
      exact ⟨⟨hb, adjOK_of_neutral p hp _, c1, d1⟩, d2⟩
end

theorem length_le_spellS : (ts : List Tok) → (p : Option Tok) → CL p ts → ts.length ≤ (spellS p ts).length
  | [], _, _ => by simp
  | t :: ts, p, h => by
    have := length_le_spellS ts (some t) h.2.2
    have hne := canon_ne t h.1
    have : 1 ≤ t.2.length := by cases h2 : t.2 with
      | nil => exact absurd h2 hne
      | cons _ _ => simp
    simp only [spellS, List.length_cons, List.length_append]; omega

/-- **parse ∘ spell ∘ print = id** at character level: the tokenizer and the parser, run on the canonical
spelling of a printed marker list (any nesting, any redundant single-element lists), return the list. -/
theorem parse_spell_print (l : List M) (f : Formula) (h : formulaOf l = some f) (hc : ∀ a ∈ atomsL l, CanonAtom a) :
    parse (spell (printL l)) = .ok l := by
  have hN : Neutral none := by intro q hq; cases hq
  obtain ⟨hcl, _⟩ := CL_printL l f h hc none hN
  have hlen := length_le_spellS _ none hcl
  have hs := sizeL_le l
  have hnw : HeadNotWs (printL l) := by simpa using headNotWs_list l f h []
  have hcl' : CL none (printL l ++ []) := by simpa using hcl
  have hpm := list_ppc l f h hc (fuelFor (spell (printL l)).length) (by rw [spell_eq_spellS]; unfold fuelFor; omega) none
    (by intro q hq; cases hq) [] (by intro t ts' e; cases e) (by intro t ts' e; cases e) hcl'
    (stP none (printL l)) (by simpa using consume_P none (printL l) hcl hnw)
  have e : (⟨none, spell (printL l)⟩ : St) = stP none (printL l) := by simp [stP, lastChar, spell_eq_spellS]
  unfold parse parseFull
  rw [e, hpm]
  simp [bind, Except.bind, stC, check_charTS, check_end, pure, Except.pure]

end MkLexP
